(* LexComments.v — C15, lexical level, part 1: white space is silent and every comment form is exactly one
   TComment token.  Same method as DqProofs.v / SqProofs.v: finite sweeps over the 256 bytes about the GENERATED
   rule table, lifted to inputs of any length by induction. *)
From Coq Require Import List Arith NArith Bool Lia.
From Coq.Strings Require Import Byte.
From LC Require Import Bytes Flex LexAct LexRules Consts Lexer LexSpec LexLemmas DqProofs SqProofs LexAll
                       Files Store Parser Grammar PP_Step PP_Tok PP_LexYields PP_LexFrame LineProofs.
Import ListNotations.

(* ================================================================== *)
(* 0. cfg_yylex with the canonical fuel, one scanning step at a time *)

Definition lexL (e : envt) (s : lexst) (p : pos) : lexres := yylex e (lex_fuel s) s p 0.

Definition mkres (t : tok) (v : option str) (s : lexst) (p : pos) (d : list diag) (k : nat) : lexres :=
  {| r_tok := t; r_val := v; r_st := s; r_pos := p; r_diags := d; r_closed := k; r_fuel_out := false |}.

Lemma lexL_cont e s p s2 p2 : lex_step e s p = LCont s2 p2 0 -> lexL e s p = lexL e s2 p2.
Proof.
  intros H. unfold lexL. rewrite lex_fuel_measure. cbn [yylex]. rewrite H. cbn [Nat.add].
  apply yylex_enough_fuel. apply lex_step_decreases in H. exact H.
Qed.

Lemma lexL_ret e s p t v s2 p2 d k : lex_step e s p = LRet t v s2 p2 d k -> lexL e s p = mkres t v s2 p2 d k.
Proof. intros H. unfold lexL. rewrite lex_fuel_measure. cbn [yylex]. rewrite H, Nat.add_0_r. reflexivity. Qed.

Lemma lex_all_lexL e fuel s p acc dacc :
  lex_all e (S fuel) s p acc dacc =
  match r_tok (lexL e s p) with
  | TEof => (rev acc, TEof, r_st (lexL e s p), r_pos (lexL e s p), dacc ++ r_diags (lexL e s p))
  | TErr => (rev acc, TErr, r_st (lexL e s p), r_pos (lexL e s p), dacc ++ r_diags (lexL e s p))
  | t => lex_all e fuel (r_st (lexL e s p)) (r_pos (lexL e s p))
           ({| lt_tok := t; lt_val := r_val (lexL e s p); lt_line := p_line (r_pos (lexL e s p)) |} :: acc)
           (dacc ++ r_diags (lexL e s p))
  end.
Proof. reflexivity. Qed.

(* two states from which cfg_yylex behaves alike give the same token lists *)
Lemma lex_all_lexL_eq e fuel s p s' p' acc dacc :
  lexL e s p = lexL e s' p' -> lex_all e (S fuel) s p acc dacc = lex_all e (S fuel) s' p' acc dacc.
Proof. intros H. rewrite !lex_all_lexL, H. reflexivity. Qed.

Section Step.
Variable c0 : sc.
Let R := active_res c0.
Let A := active_rules c0.

Lemma lex_step_unit e st p id u rest others j r :
  l_sc st = c0 -> l_bufs st = (id, u ++ rest) :: others ->
  munch R (u ++ rest) 0 None = Some (j, length u) -> nth_error A j = Some r ->
  lex_step e st p =
  match run_action e (r_act r) u (set_bufs st ((id, rest) :: others)) p with
  | Continue s2 p2 => LCont s2 p2 0
  | Return t v s2 p2 d => LRet t v s2 p2 d 0
  end.
Proof.
  intros Hsc Hb Hm Hn. unfold lex_step. rewrite Hb, Hsc. fold R. rewrite Hm. fold A. rewrite Hn.
  rewrite firstn_app, Nat.sub_diag, firstn_all, app_nil_r.
  rewrite skipn_app, Nat.sub_diag, skipn_all. cbn [skipn app]. reflexivity.
Qed.
End Step.

Lemma add_lines_0 p : add_lines p 0 = p.
Proof. destruct p; unfold add_lines; cbn. rewrite N.add_0_r. reflexivity. Qed.
Lemma add_lines_add p a b : add_lines (add_lines p a) b = add_lines p (a + b).
Proof. unfold add_lines; cbn. rewrite N.add_assoc. reflexivity. Qed.
Lemma line_incr_add p : line_incr p = add_lines p 1.
Proof. reflexivity. Qed.

(* a loop vector: stable under the bytes of K *)
Lemma munch_stable V (K : byte -> bool) :
  forallb (fun c => implb (K c) (vec_eqb (map (deriv c) V) V)) all_bytes = true ->
  forallb is_emp V = false ->
  forall run rest n best, Forall (fun c => K c = true) run ->
  munch V (run ++ rest) n best =
  munch V rest (n + length run)
        (match run with [] => best | _ => match first_nullable V 0 with Some i => Some (i, (n + length run)%nat) | None => best end end).
Proof.
  intros Hst Hal. induction run as [|c run IH]; intros rest n best HK.
  - cbn [app length]. rewrite Nat.add_0_r. reflexivity.
  - inversion HK as [|? ? Hc HK']; subst. cbn [app].
    pose proof (sweep_impl _ _ Hst c Hc) as Hs. apply vec_eqb_eq in Hs.
    assert (Ha : forallb is_emp (map (deriv c) V) = false) by (rewrite Hs; exact Hal).
    rewrite (munch_cons_alive _ _ _ _ _ Ha), Hs. rewrite (IH rest (S n) _ HK').
    cbn [length]. replace (S n + length run)%nat with (n + S (length run))%nat by lia.
    destruct run as [|d run']; [|destruct (first_nullable V 0); reflexivity].
    cbn [length]. replace (n + 1)%nat with (S n) by lia. reflexivity.
Qed.

(* ================================================================== *)
(* 1. white space: blanks, tabs, newlines, carriage returns *)

Definition cr : byte := x0d.
Definition isbl (c : byte) : bool := Byte.eqb c x20 || Byte.eqb c x09.
Definition isws (c : byte) : bool := isbl c || Byte.eqb c nl || Byte.eqb c cr.

(* a rule `[K]+` whose residual vectors inside the run are the members of Vs *)
Definition run_check2 (R : list re) (A : list rule) (K : byte -> bool) (a : action) (Vs : list (list re)) (i : nat) : bool :=
  mloop Vs K i && forallb (fun c => implb (K c) (enters R Vs i c)) all_bytes &&
  match nth_error A i with Some r => action_eqb (r_act r) a | None => false end.

Lemma run_munch_gen2 R A K a Vs i : run_check2 R A K a Vs i = true ->
  forall c cs rest, K c = true -> Forall (fun c => K c = true) cs -> follows (fun c => negb (K c)) rest ->
  exists j r, munch R ((c :: cs) ++ rest) 0 None = Some (j, length (c :: cs))
              /\ nth_error A j = Some r /\ r_act r = a.
Proof.
  unfold run_check2. intros H c cs rest Hc Hcs Hf.
  apply andb_prop in H as [H H3]. apply andb_prop in H as [H1 H2].
  destruct (nth_error A i) as [r|] eqn:Hr; [|discriminate]. apply action_eqb_eq in H3.
  exists i, r. split; [|split; assumption].
  cbn [app]. rewrite (munch_enter R _ K i c H1 (sweep_impl _ _ H2 c Hc) cs rest 0 None Hcs Hf).
  reflexivity.
Qed.

Definition bl_states : list (list re) :=
  [map (deriv x20) (active_res INITIAL); map (deriv x20) (map (deriv x20) (active_res INITIAL))].
Definition bl_idx : nat := 0.
Lemma bl_run_ok : run_check2 (active_res INITIAL) (active_rules INITIAL) isbl A_skip bl_states bl_idx = true.
Proof. vm_compute. reflexivity. Qed.
Lemma ws_nl_ok : unit_ok INITIAL [nl] A_line any = true.
Proof. vm_compute. reflexivity. Qed.
Lemma ws_cr_ok : unit_ok INITIAL [cr] A_skip any = true.
Proof. vm_compute. reflexivity. Qed.

Fixpoint take_while (f : byte -> bool) (s : str) : str :=
  match s with [] => [] | c :: r => if f c then c :: take_while f r else [] end.

Lemma take_drop f s : take_while f s ++ drop_while f s = s.
Proof. induction s as [|c s IH]; [reflexivity|]. cbn. destruct (f c); cbn; [rewrite IH|]; reflexivity. Qed.
Lemma take_while_all f s : Forall (fun c => f c = true) (take_while f s).
Proof. induction s as [|c s IH]; cbn; [constructor|]. destruct (f c) eqn:E; constructor; assumption. Qed.
Lemma drop_while_head f s : follows (fun c => negb (f c)) (drop_while f s).
Proof. induction s as [|c s IH]; cbn; [exact I|]. destruct (f c) eqn:E; [exact IH|]. cbn. rewrite E. reflexivity. Qed.
Lemma drop_while_len f s : (length (drop_while f s) <= length s)%nat.
Proof. induction s as [|c s IH]; cbn; [lia|]. destruct (f c); cbn; lia. Qed.
Lemma take_while_app f u s : Forall (fun c => f c = true) u -> take_while f (u ++ s) = u ++ take_while f s.
Proof. induction 1 as [|c u Hc _ IH]; cbn; [reflexivity|]. rewrite Hc, IH. reflexivity. Qed.
Lemma drop_while_app f u s : Forall (fun c => f c = true) u -> drop_while f (u ++ s) = drop_while f s.
Proof. induction 1 as [|c u Hc _ IH]; cbn; [reflexivity|]. rewrite Hc, IH. reflexivity. Qed.

Lemma isbl_isws c : isbl c = true -> isws c = true.
Proof. unfold isws. intros ->. reflexivity. Qed.
Lemma isbl_not_nl c : isbl c = true -> Byte.eqb c nl = false.
Proof.
  intros H. pose proof (sweep_impl isbl (fun c => negb (Byte.eqb c nl)) ltac:(vm_compute; reflexivity) c H) as H'.
  apply negb_true_iff in H'. exact H'.
Qed.
Lemma count_nl_bl u : Forall (fun c => isbl c = true) u -> count_nl u = 0%N.
Proof.
  induction 1 as [|c u Hc _ IH]; [reflexivity|]. rewrite count_nl_cons, IH, (isbl_not_nl c Hc). reflexivity.
Qed.

Section WS.
Variable e : envt.

(* normal form: scanning from `inp` is scanning from `inp` without its leading white space, the line counter
   advanced by the newlines skipped *)
Lemma ws_normal_form (id : nat) (others : list (nat * str)) : forall n (inp : str) st p, (length inp <= n)%nat -> l_sc st = INITIAL ->
  lexL e (set_bufs st ((id, inp) :: others)) p =
  lexL e (set_bufs st ((id, drop_while isws inp) :: others)) (add_lines p (count_nl (take_while isws inp))).
Proof.
  unfold str in *. induction n as [|n IH]; intros inp st p Hlen Hsc.
  - destruct inp; [|cbn in Hlen; lia]. cbn [drop_while take_while]. change (count_nl []) with 0%N.
    rewrite add_lines_0. reflexivity.
  - destruct inp as [|c r].
    { cbn [drop_while take_while]. change (count_nl []) with 0%N. rewrite add_lines_0. reflexivity. }
    cbn [length] in Hlen.
    destruct (isbl c) eqn:Eb.
    + (* a maximal run of blanks and tabs: one step of the `+` rule *)
      pose proof (take_drop isbl r) as Htd.
      pose proof (take_while_all isbl r) as Hall.
      pose proof (drop_while_head isbl r) as Hfo.
      pose proof (drop_while_len isbl r) as Hdl.
      set (cs := take_while isbl r) in *. set (rest := drop_while isbl r) in *.
      assert (Hin : c :: r = (c :: cs) ++ rest) by (cbn [app]; rewrite Htd; reflexivity).
      destruct (run_munch_gen2 _ _ isbl A_skip _ _ bl_run_ok c cs rest Eb Hall Hfo) as (j & rl & Hm & Hn & Ha).
      assert (Hws : Forall (fun c => isws c = true) (c :: cs)).
      { constructor; [apply isbl_isws, Eb|]. eapply Forall_impl; [|exact Hall]. intros a. apply isbl_isws. }
      rewrite Hin.
      transitivity (lexL e (set_bufs st ((id, rest) :: others)) p).
      * apply lexL_cont.
        erewrite (lex_step_unit INITIAL e _ p id (c :: cs) rest others j rl); [rewrite Ha; reflexivity|exact Hsc|reflexivity|exact Hm|exact Hn].
      * etransitivity; [apply (IH rest st p ltac:(lia) Hsc)|].
        rewrite (take_while_app isws _ rest Hws), (drop_while_app isws _ rest Hws).
        rewrite count_nl_app, (count_nl_bl (c :: cs)) by (constructor; assumption). reflexivity.
    + destruct (Byte.eqb c nl) eqn:En.
      * apply byte_eqb_eq in En. subst c.
        destruct (unit_ok_munch INITIAL [nl] A_line any r ws_nl_ok (follows_any r)) as (j & rl & Hm & Hn & Ha).
        change (nl :: r) with ([nl] ++ r).
        transitivity (lexL e (set_bufs st ((id, r) :: others)) (line_incr p)).
        -- apply lexL_cont.
           erewrite (lex_step_unit INITIAL e _ p id [nl] r others j rl); [rewrite Ha; reflexivity|exact Hsc|reflexivity|exact Hm|exact Hn].
        -- etransitivity; [apply (IH r st (line_incr p) ltac:(lia) Hsc)|].
           cbn [app drop_while take_while]. change (isws nl) with true. cbv iota.
           rewrite count_nl_cons. change (Byte.eqb nl nl) with true. cbv iota.
           rewrite line_incr_add, add_lines_add. reflexivity.
      * destruct (Byte.eqb c cr) eqn:Ec.
        -- apply byte_eqb_eq in Ec. subst c.
           destruct (unit_ok_munch INITIAL [cr] A_skip any r ws_cr_ok (follows_any r)) as (j & rl & Hm & Hn & Ha).
           change (cr :: r) with ([cr] ++ r).
           transitivity (lexL e (set_bufs st ((id, r) :: others)) p).
           ++ apply lexL_cont.
              erewrite (lex_step_unit INITIAL e _ p id [cr] r others j rl); [rewrite Ha; reflexivity|exact Hsc|reflexivity|exact Hm|exact Hn].
           ++ etransitivity; [apply (IH r st p ltac:(lia) Hsc)|].
              cbn [app drop_while take_while]. change (isws cr) with true. cbv iota.
              rewrite count_nl_cons. change (Byte.eqb cr nl) with false. cbv iota. reflexivity.
        -- assert (Hw : isws c = false) by (unfold isws; rewrite Eb, En, Ec; reflexivity).
           cbn [drop_while take_while]. rewrite Hw. change (count_nl []) with 0%N. rewrite add_lines_0. reflexivity.
Qed.

Lemma set_bufs_self st id inp others : l_bufs st = (id, inp) :: others -> set_bufs st ((id, inp) :: others) = st.
Proof. intros H. destruct st; cbn in *. subst. reflexivity. Qed.

(* cfg_yylex: a run of white space in front of `rest` is skipped, counting its newlines *)
Theorem ws_silent_lexL (ws rest : str) st p (id : nat) (others : list (nat * str)) :
  Forall (fun c => isws c = true) ws -> l_sc st = INITIAL -> l_bufs st = (id, ws ++ rest) :: others ->
  lexL e st p = lexL e (set_bufs st ((id, rest) :: others)) (add_lines p (count_nl ws)).
Proof.
  intros Hws Hsc Hb.
  rewrite <- (set_bufs_self st id (ws ++ rest) others Hb) at 1.
  etransitivity; [apply (ws_normal_form id others _ (ws ++ rest) st p (le_n _) Hsc)|].
  symmetry.
  etransitivity; [apply (ws_normal_form id others _ rest st (add_lines p (count_nl ws)) (le_n _) Hsc)|].
  rewrite (take_while_app isws ws rest Hws), (drop_while_app isws ws rest Hws).
  rewrite count_nl_app, add_lines_add. reflexivity.
Qed.

(* the whole token list *)
Theorem ws_silent_lex_all (ws rest : str) st p (id : nat) (others : list (nat * str)) fuel acc dacc :
  Forall (fun c => isws c = true) ws -> l_sc st = INITIAL -> l_bufs st = (id, ws ++ rest) :: others ->
  lex_all e fuel st p acc dacc =
  match fuel with
  | O => (rev acc, TErr, st, p, dacc)
  | S _ => lex_all e fuel (set_bufs st ((id, rest) :: others)) (add_lines p (count_nl ws)) acc dacc
  end.
Proof.
  intros Hws Hsc Hb. destruct fuel as [|fuel]; [reflexivity|].
  apply lex_all_lexL_eq. apply ws_silent_lexL; assumption.
Qed.
End WS.

(* ================================================================== *)
(* 2. one-line comments: '#'{1,}.* and '/'{2,}.* *)

Definition hash : byte := x23.
Definition notnl (c : byte) : bool := negb (Byte.eqb c nl).
Definition isnl (c : byte) : bool := Byte.eqb c nl.

(* closure of a set of residual vectors under the bytes of K *)
Fixpoint kclose (K : byte -> bool) (fuel : nat) (todo seen : list (list re)) : list (list re) :=
  match fuel with
  | O => seen
  | S f =>
    match todo with
    | [] => seen
    | V :: t => if existsb (vec_eqb V) seen then kclose K f t seen
                else kclose K f (map (fun c => map (deriv c) V) (filter K all_bytes) ++ t) (V :: seen)
    end
  end.

Definition hash_states : list (list re) := kclose notnl 4000 [map (deriv hash) (active_res INITIAL)] [].
Definition hash_idx : nat := 2.
Notation sl1 := (map (deriv slash) (active_res INITIAL)).
Definition ss_states : list (list re) := kclose notnl 4000 [map (deriv slash) sl1] [].
Definition ss_idx : nat := 3.

Lemma hash_loop : mloop hash_states notnl hash_idx = true.
Proof. vm_compute. reflexivity. Qed.
Lemma hash_enter : enters (active_res INITIAL) hash_states hash_idx hash = true.
Proof. vm_compute. reflexivity. Qed.
Lemma hash_act : act_is INITIAL hash_idx (A_qstr 35) = true.
Proof. vm_compute. reflexivity. Qed.
Lemma ss_loop : mloop ss_states notnl ss_idx = true.
Proof. vm_compute. reflexivity. Qed.
Lemma ss_enter : enters sl1 ss_states ss_idx slash = true.
Proof. vm_compute. reflexivity. Qed.
Lemma ss_act : act_is INITIAL ss_idx (A_qstr 47) = true.
Proof. vm_compute. reflexivity. Qed.
Lemma sl1_alive : forallb is_emp sl1 = false.
Proof. vm_compute. reflexivity. Qed.

Lemma follows_isnl_notnl rest : follows isnl rest -> follows (fun c => negb (notnl c)) rest.
Proof. destruct rest as [|c r]; cbn; [auto|]. unfold notnl, isnl. intros ->. reflexivity. Qed.

Lemma hash_munch (body rest : str) :
  Forall (fun c => notnl c = true) body -> follows isnl rest ->
  munch (active_res INITIAL) ((hash :: body) ++ rest) 0 None = Some (hash_idx, length (hash :: body)).
Proof.
  intros Hb Hf. cbn [app].
  rewrite (munch_enter _ hash_states notnl hash_idx hash hash_loop hash_enter body rest 0 None Hb (follows_isnl_notnl rest Hf)).
  reflexivity.
Qed.

Lemma pre1_then_loop (R : list re) (Vs : list (list re)) (K : byte -> bool) (i : nat) (c1 c2 : byte) :
  forallb is_emp (map (deriv c1) R) = false -> mloop Vs K i = true -> enters (map (deriv c1) R) Vs i c2 = true ->
  forall (body rest : str), Forall (fun c => K c = true) body -> follows (fun c => negb (K c)) rest ->
  munch R ((c1 :: c2 :: body) ++ rest) 0 None = Some (i, length (c1 :: c2 :: body)).
Proof.
  intros Hal Hl He body rest Hb Hf. cbn [app].
  rewrite (munch_cons_alive R c1 _ 0 None Hal).
  rewrite (munch_enter _ Vs K i c2 Hl He body rest 1 _ Hb Hf). reflexivity.
Qed.

Lemma ss_munch (body rest : str) :
  Forall (fun c => notnl c = true) body -> follows isnl rest ->
  munch (active_res INITIAL) ((slash :: slash :: body) ++ rest) 0 None = Some (ss_idx, length (slash :: slash :: body)).
Proof.
  intros Hb Hf.
  exact (pre1_then_loop (active_res INITIAL) ss_states notnl ss_idx slash slash sl1_alive ss_loop ss_enter
           body rest Hb (follows_isnl_notnl rest Hf)).
Qed.

(* the text stored for a comment: qstr() / qend() copy it into the scratch buffer and trim it *)
Definition qstr_val (skipc : byte) (text : str) (q : qbuf) : str :=
  trim_ws (q_data (PP_LexFrame.qmat (qputs (q_reset q) (cstr (drop_run skipc text))))).
Definition qstr_q (skipc : byte) (text : str) (q : qbuf) : qbuf :=
  PP_LexFrame.qmat (qputs (q_reset q) (cstr (drop_run skipc text))).

Lemma q_data_reset q : q_data (q_reset q) = [].
Proof. reflexivity. Qed.

Lemma qstr_val_inv skipc text q : q_inv q -> qstr_val skipc text q = trim_ws (cstr (drop_run skipc text)).
Proof.
  intros H. unfold qstr_val. f_equal. unfold q_data at 1.
  rewrite PP_LexFrame.qmat_rev by (apply q_inv_qputs, q_inv_reset, H).
  fold (q_data (qputs (q_reset q) (cstr (drop_run skipc text)))). rewrite q_data_qputs. reflexivity.
Qed.

Lemma run_qstr e skipc text st p :
  run_action e (A_qstr skipc) text st p =
  Return TComment (Some (qstr_val (Nb skipc) text (l_q st))) (set_q (set_sc st INITIAL) (qstr_q (Nb skipc) text (l_q st))) p [].
Proof. reflexivity. Qed.

Section LineComment.
Variable e : envt.

Theorem hash_comment_token (body rest : str) st p (id : nat) (others : list (nat * str)) :
  Forall (fun c => notnl c = true) body -> follows isnl rest ->
  l_sc st = INITIAL -> l_bufs st = (id, (hash :: body) ++ rest) :: others ->
  lexL e st p = mkres TComment (Some (qstr_val hash (hash :: body) (l_q st)))
                      (set_q (set_sc (set_bufs st ((id, rest) :: others)) INITIAL) (qstr_q hash (hash :: body) (l_q st))) p [] 0.
Proof.
  intros Hb Hf Hsc Hbuf.
  pose proof hash_act as Ha. unfold act_is in Ha.
  destruct (nth_error (active_rules INITIAL) hash_idx) as [r|] eqn:Hn; [|discriminate]. apply action_eqb_eq in Ha.
  erewrite lexL_ret; [reflexivity|].
  rewrite (lex_step_unit INITIAL e st p id (hash :: body) rest others hash_idx r Hsc Hbuf (hash_munch body rest Hb Hf) Hn), Ha.
  rewrite run_qstr. reflexivity.
Qed.

Theorem ss_comment_token (body rest : str) st p (id : nat) (others : list (nat * str)) :
  Forall (fun c => notnl c = true) body -> follows isnl rest ->
  l_sc st = INITIAL -> l_bufs st = (id, (slash :: slash :: body) ++ rest) :: others ->
  lexL e st p = mkres TComment (Some (qstr_val slash (slash :: slash :: body) (l_q st)))
                      (set_q (set_sc (set_bufs st ((id, rest) :: others)) INITIAL) (qstr_q slash (slash :: slash :: body) (l_q st))) p [] 0.
Proof.
  intros Hb Hf Hsc Hbuf.
  pose proof ss_act as Ha. unfold act_is in Ha.
  destruct (nth_error (active_rules INITIAL) ss_idx) as [r|] eqn:Hn; [|discriminate]. apply action_eqb_eq in Ha.
  erewrite lexL_ret; [reflexivity|].
  rewrite (lex_step_unit INITIAL e st p id (slash :: slash :: body) rest others ss_idx r Hsc Hbuf (ss_munch body rest Hb Hf) Hn), Ha.
  rewrite run_qstr. reflexivity.
Qed.
End LineComment.

(* ================================================================== *)
(* 3. C-style comments: the four <comment> rules on a body without the closing star-slash *)

Definition isstar (c : byte) : bool := Byte.eqb c star.
Definition isslash (c : byte) : bool := Byte.eqb c slash.
Definition k12 (c : byte) : bool := negb (isstar c) && negb (Byte.eqb c nl).                    (* [^*\n] *)
Definition k13 (c : byte) : bool := negb (isstar c) && negb (isslash c) && negb (Byte.eqb c nl). (* [^*/\n] *)

(* every byte of class P takes vector V to vector W / kills vector V *)
Definition goes (V W : list re) (P : byte -> bool) : bool :=
  forallb (fun c => implb (P c) (vec_eqb (map (deriv c) V) W)) all_bytes.
Definition diesif (V : list re) (P : byte -> bool) : bool :=
  forallb (fun c => implb (P c) (dies_on V c)) all_bytes.
Definition upd (W : list re) (n : nat) (best : option (nat * nat)) : option (nat * nat) :=
  match first_nullable W 0 with Some i => Some (i, n) | None => best end.

Lemma goes_eq V W P c : goes V W P = true -> P c = true -> map (deriv c) V = W.
Proof. intros H Hc. unfold goes in H. apply vec_eqb_eq. exact (sweep_impl _ _ H c Hc). Qed.
Lemma diesif_dies V P c : diesif V P = true -> P c = true -> dies_on V c = true.
Proof. intros H Hc. unfold diesif in H. exact (sweep_impl _ _ H c Hc). Qed.

Lemma munch_go V c W rest n best :
  map (deriv c) V = W -> forallb is_emp W = false ->
  munch V (c :: rest) n best = munch W rest (S n) (upd W (S n) best).
Proof. intros HW Hal. subst W. rewrite (munch_cons_alive _ _ _ _ _ Hal). reflexivity. Qed.

Lemma munch_go_loop V c W K run rest n best :
  map (deriv c) V = W -> forallb is_emp W = false -> goes W W K = true -> Forall (fun c => K c = true) run ->
  munch V (c :: run ++ rest) n best = munch W rest (S n + length run) (upd W (S n + length run) best).
Proof.
  intros HW Hal Hst Hrun. rewrite (munch_go V c W _ n best HW Hal).
  rewrite (munch_stable W K Hst Hal run rest (S n) _ Hrun).
  destruct run as [|d run']; [cbn [length]; rewrite Nat.add_0_r; reflexivity|].
  unfold upd. destruct (first_nullable W 0); reflexivity.
Qed.

Lemma munch_end V rest n best : dead V = true -> munch V rest n best = best.
Proof. apply munch_dead. Qed.

Lemma munch_stop V rest n best (P : byte -> bool) : diesif V P = true -> follows P rest -> munch V rest n best = best.
Proof.
  intros H Hf. destruct rest as [|c r]; [reflexivity|]. apply munch_dies. apply (diesif_dies V P c H). exact Hf.
Qed.

Section CommentCore.
Variables Rc vA vB vC vD vE vF vN : list re.
Hypothesis aA : forallb is_emp vA = false.
Hypothesis aB : forallb is_emp vB = false.
Hypothesis aC : forallb is_emp vC = false.
Hypothesis aD : forallb is_emp vD = false.
Hypothesis aE : forallb is_emp vE = false.
Hypothesis aF : forallb is_emp vF = false.
Hypothesis aN : forallb is_emp vN = false.
Hypothesis nA : first_nullable vA 0 = Some 0%nat.
Hypothesis nB : first_nullable vB 0 = Some 0%nat.
Hypothesis nC : first_nullable vC 0 = None.
Hypothesis nD : first_nullable vD 0 = Some 1%nat.
Hypothesis nE : first_nullable vE 0 = Some 1%nat.
Hypothesis nF : first_nullable vF 0 = Some 3%nat.
Hypothesis nN : first_nullable vN 0 = Some 2%nat.
Hypothesis dF : dead vF = true.
Hypothesis dN : dead vN = true.
Hypothesis g_R_B : goes Rc vB (fun c => k12 c && negb (isbl c)) = true.
Hypothesis g_R_A : goes Rc vA isbl = true.
Hypothesis g_R_D : goes Rc vD isstar = true.
Hypothesis g_R_N : goes Rc vN isnl = true.
Hypothesis g_B_B : goes vB vB k12 = true.
Hypothesis x_B : diesif vB (fun c => negb (k12 c)) = true.
Hypothesis g_A_A : goes vA vA isbl = true.
Hypothesis g_A_B : goes vA vB (fun c => k12 c && negb (isbl c)) = true.
Hypothesis g_A_C : goes vA vC isstar = true.
Hypothesis x_A : diesif vA isnl = true.
Hypothesis g_C_C : goes vC vC isstar = true.
Hypothesis g_C_F : goes vC vF isslash = true.
Hypothesis x_C : diesif vC (fun c => negb (isstar c) && negb (isslash c)) = true.
Hypothesis g_D_D : goes vD vD isstar = true.
Hypothesis g_D_F : goes vD vF isslash = true.
Hypothesis g_D_E : goes vD vE k13 = true.
Hypothesis x_D : diesif vD isnl = true.
Hypothesis g_E_E : goes vE vE k13 = true.
Hypothesis x_E : diesif vE (fun c => negb (k13 c)) = true.

Lemma T14 rest : munch Rc (nl :: rest) 0 None = Some (2, 1)%nat.
Proof.
  rewrite (munch_go Rc nl vN rest 0 None (goes_eq _ _ _ nl g_R_N eq_refl) aN).
  rewrite (munch_end vN _ _ _ dN). unfold upd. rewrite nN. reflexivity.
Qed.

Lemma T15 (bl st rest : str) :
  Forall (fun c => isbl c = true) bl -> Forall (fun c => isstar c = true) st -> st <> [] ->
  munch Rc (bl ++ st ++ slash :: rest) 0 None = Some (3, length bl + length st + 1)%nat.
Proof.
  intros Hbl Hst Hne. destruct st as [|s1 st']; [contradiction|]. inversion Hst as [|? ? Hs1 Hst']; subst.
  destruct bl as [|b1 bl'].
  - cbn [app length].
    rewrite (munch_go_loop Rc s1 vD isstar st' (slash :: rest) 0 None (goes_eq _ _ _ s1 g_R_D Hs1) aD g_D_D Hst').
    rewrite (munch_go vD slash vF rest _ _ (goes_eq _ _ _ slash g_D_F eq_refl) aF).
    rewrite (munch_end vF _ _ _ dF). unfold upd. rewrite nF. f_equal. f_equal. lia.
  - inversion Hbl as [|? ? Hb1 Hbl']; subst. cbn [app length].
    rewrite (munch_go_loop Rc b1 vA isbl bl' (s1 :: st' ++ slash :: rest) 0 None (goes_eq _ _ _ b1 g_R_A Hb1) aA g_A_A Hbl').
    rewrite (munch_go_loop vA s1 vC isstar st' (slash :: rest) _ _ (goes_eq _ _ _ s1 g_A_C Hs1) aC g_C_C Hst').
    rewrite (munch_go vC slash vF rest _ _ (goes_eq _ _ _ slash g_C_F eq_refl) aF).
    rewrite (munch_end vF _ _ _ dF). unfold upd. rewrite nF. f_equal. f_equal. lia.
Qed.

Definition t13_cond (run rest : str) : Prop :=
  match run with
  | [] => follows isnl rest
  | _ => follows (fun c => negb (k13 c)) rest
  end.

Lemma T13 (st run rest : str) :
  Forall (fun c => isstar c = true) st -> st <> [] -> Forall (fun c => k13 c = true) run -> t13_cond run rest ->
  munch Rc (st ++ run ++ rest) 0 None = Some (1, length st + length run)%nat.
Proof.
  intros Hst Hne Hrun Hc. destruct st as [|s1 st']; [contradiction|]. inversion Hst as [|? ? Hs1 Hst']; subst.
  cbn [app length].
  rewrite (munch_go_loop Rc s1 vD isstar st' (run ++ rest) 0 None (goes_eq _ _ _ s1 g_R_D Hs1) aD g_D_D Hst').
  destruct run as [|c run'].
  - cbn [app length t13_cond] in *. rewrite (munch_stop vD rest _ _ isnl x_D Hc).
    unfold upd. rewrite nD. f_equal. f_equal. lia.
  - inversion Hrun as [|? ? Hc1 Hrun']; subst. cbn [app length t13_cond] in *.
    rewrite (munch_go_loop vD c vE k13 run' rest _ _ (goes_eq _ _ _ c g_D_E Hc1) aE g_E_E Hrun').
    rewrite (munch_stop vE rest _ _ _ x_E Hc). unfold upd. rewrite nE. f_equal. f_equal. lia.
Qed.

Lemma T12a (bl tl rest : str) c :
  Forall (fun c => isbl c = true) bl -> (k12 c && negb (isbl c)) = true -> Forall (fun c => k12 c = true) tl ->
  follows (fun c => negb (k12 c)) rest ->
  munch Rc (bl ++ c :: tl ++ rest) 0 None = Some (0, length bl + S (length tl))%nat.
Proof.
  intros Hbl Hc Htl Hf. destruct bl as [|b1 bl'].
  - cbn [app length].
    rewrite (munch_go_loop Rc c vB k12 tl rest 0 None (goes_eq _ _ _ c g_R_B Hc) aB g_B_B Htl).
    rewrite (munch_stop vB rest _ _ _ x_B Hf). unfold upd. rewrite nB. reflexivity.
  - inversion Hbl as [|? ? Hb1 Hbl']; subst. cbn [app length].
    rewrite (munch_go_loop Rc b1 vA isbl bl' (c :: tl ++ rest) 0 None (goes_eq _ _ _ b1 g_R_A Hb1) aA g_A_A Hbl').
    rewrite (munch_go_loop vA c vB k12 tl rest _ _ (goes_eq _ _ _ c g_A_B Hc) aB g_B_B Htl).
    rewrite (munch_stop vB rest _ _ _ x_B Hf). unfold upd. rewrite nB. f_equal. f_equal. lia.
Qed.

Definition t12b_cond (st rest : str) : Prop :=
  match st with
  | [] => follows isnl rest
  | _ => follows (fun c => negb (isstar c) && negb (isslash c)) rest
  end.

Lemma T12b (bl st rest : str) :
  Forall (fun c => isbl c = true) bl -> bl <> [] -> Forall (fun c => isstar c = true) st -> t12b_cond st rest ->
  munch Rc (bl ++ st ++ rest) 0 None = Some (0, length bl)%nat.
Proof.
  intros Hbl Hne Hst Hc. destruct bl as [|b1 bl']; [contradiction|]. inversion Hbl as [|? ? Hb1 Hbl']; subst.
  cbn [app length].
  rewrite (munch_go_loop Rc b1 vA isbl bl' (st ++ rest) 0 None (goes_eq _ _ _ b1 g_R_A Hb1) aA g_A_A Hbl').
  destruct st as [|s1 st'].
  - cbn [app t12b_cond] in *. rewrite (munch_stop vA rest _ _ isnl x_A Hc). unfold upd. rewrite nA. reflexivity.
  - inversion Hst as [|? ? Hs1 Hst']; subst. cbn [app t12b_cond] in *.
    rewrite (munch_go_loop vA s1 vC isstar st' rest _ _ (goes_eq _ _ _ s1 g_A_C Hs1) aC g_C_C Hst').
    rewrite (munch_stop vC rest _ _ _ x_C Hc). unfold upd. rewrite nC, nA. reflexivity.
Qed.
End CommentCore.

Notation RcN := (active_res comment).
Notation vAN := (map (deriv x20) RcN).
Notation vBN := (map (deriv x61) RcN).
Notation vCN := (map (deriv star) vAN).
Notation vDN := (map (deriv star) RcN).
Notation vEN := (map (deriv x61) vDN).
Notation vFN := (map (deriv slash) vDN).
Notation vNN := (map (deriv nl) RcN).

Lemma cT14 (rest : str) : munch RcN (nl :: rest) 0 None = Some (2, 1)%nat.
Proof. apply (T14 RcN vNN); vm_compute; reflexivity. Qed.

Lemma cT15 (bl st rest : str) :
  Forall (fun c => isbl c = true) bl -> Forall (fun c => isstar c = true) st -> st <> [] ->
  munch RcN (bl ++ st ++ slash :: rest) 0 None = Some (3, length bl + length st + 1)%nat.
Proof. apply (T15 RcN vAN vCN vDN vFN); vm_compute; reflexivity. Qed.

Lemma cT13 (st run rest : str) :
  Forall (fun c => isstar c = true) st -> st <> [] -> Forall (fun c => k13 c = true) run -> t13_cond run rest ->
  munch RcN (st ++ run ++ rest) 0 None = Some (1, length st + length run)%nat.
Proof. apply (T13 RcN vDN vEN); vm_compute; reflexivity. Qed.

Lemma cT12a (bl tl rest : str) c :
  Forall (fun c => isbl c = true) bl -> (k12 c && negb (isbl c)) = true -> Forall (fun c => k12 c = true) tl ->
  follows (fun c => negb (k12 c)) rest ->
  munch RcN (bl ++ c :: tl ++ rest) 0 None = Some (0, length bl + S (length tl))%nat.
Proof. apply (T12a RcN vAN vBN); vm_compute; reflexivity. Qed.

Lemma cT12b (bl st rest : str) :
  Forall (fun c => isbl c = true) bl -> bl <> [] -> Forall (fun c => isstar c = true) st -> t12b_cond st rest ->
  munch RcN (bl ++ st ++ rest) 0 None = Some (0, length bl)%nat.
Proof. apply (T12b RcN vAN vCN); vm_compute; reflexivity. Qed.

(* the body of a C-style comment: no star immediately followed by a slash *)
Fixpoint nss (s : str) : bool :=
  match s with
  | [] => true
  | c :: r => negb (isstar c && match r with d :: _ => isslash d | [] => false end) && nss r
  end.

Lemma nss_app_r (u v : str) : nss (u ++ v) = true -> nss v = true.
Proof.
  induction u as [|c u IH]; [auto|]. cbn [app nss]. intros H. apply andb_prop in H as [_ H]. exact (IH H).
Qed.

Lemma nss_stars_next (st : str) d (r : str) :
  Forall (fun c => isstar c = true) st -> st <> [] -> nss (st ++ d :: r) = true -> isslash d = false.
Proof.
  induction st as [|c st IH]; intros Hst Hne H; [contradiction|].
  inversion Hst as [|? ? Hc Hst']; subst. cbn [app nss] in H. apply andb_prop in H as [H1 H2].
  destruct st as [|c2 st'].
  - cbn [app] in H1. rewrite Hc in H1. cbn [andb] in H1. apply negb_true_iff in H1. exact H1.
  - apply IH; [exact Hst'|discriminate|exact H2].
Qed.

Lemma forall_snoc {T} (P : T -> Prop) l x : Forall P l -> P x -> Forall P (l ++ [x]).
Proof. intros H Hx. apply Forall_app. split; [exact H|constructor; [exact Hx|constructor]]. Qed.

Lemma follows_app_tail (P : byte -> bool) (b : str) t (tl : str) :
  follows P b -> P t = true -> follows P (b ++ t :: tl).
Proof. destruct b as [|x b']; cbn; auto. Qed.

(* the next scanning step inside a comment body: either a piece of the body (rules 12-14), or the
   rest of the body together with the closing star-slash (rule 15) *)
Lemma cm_next (body rest : str) : nss body = true ->
  (exists (u body2 : str) j, body = u ++ body2 /\ u <> [] /\ (j < 3)%nat /\
        munch RcN (u ++ body2 ++ star :: slash :: rest) 0 None = Some (j, length u))
  \/ munch RcN (body ++ star :: slash :: rest) 0 None = Some (3, length body + 2)%nat.
Proof.
  intros Hn.
  pose proof (take_drop isbl body) as Hbl.
  pose proof (take_while_all isbl body) as Abl.
  pose proof (drop_while_head isbl body) as Fbl.
  remember (take_while isbl body) as bl eqn:Qbl. remember (drop_while isbl body) as b1 eqn:Qb1. clear Qbl Qb1.
  assert (Hn1 : nss b1 = true) by (apply (nss_app_r bl); rewrite Hbl; exact Hn).
  destruct b1 as [|d b1'] eqn:Eb1.
  - (* A: only blanks are left: they go with the closing star-slash *)
    right. rewrite app_nil_r in Hbl. subst body.
    change (bl ++ star :: slash :: rest) with (bl ++ [star] ++ slash :: rest).
    rewrite (cT15 bl [star] rest Abl); [f_equal; f_equal; cbn [length]; lia|repeat constructor|discriminate].
  - cbn [follows] in Fbl. apply negb_true_iff in Fbl.
    destruct (Byte.eqb d nl) eqn:Ednl.
    + apply byte_eqb_eq in Ednl. subst d.
      destruct bl as [|x bl'] eqn:Ebl.
      * (* B: a newline *)
        left. exists [nl], b1', 2%nat. cbn [app] in Hbl. split; [symmetry; exact Hbl|].
        split; [discriminate|]. split; [lia|]. cbn [app length]. apply cT14.
      * (* C: blanks before a newline *)
        left. exists bl, (nl :: b1'), 0%nat. rewrite Ebl. split; [symmetry; exact Hbl|].
        split; [discriminate|]. split; [lia|].
        change ((x :: bl') ++ (nl :: b1') ++ star :: slash :: rest)
          with ((x :: bl') ++ [] ++ (nl :: b1' ++ star :: slash :: rest)).
        apply cT12b; [exact Abl|discriminate|constructor|reflexivity].
    + destruct (isstar d) eqn:Eds.
      * (* a run of stars *)
        pose proof (take_drop isstar (d :: b1')) as Hst.
        pose proof (take_while_all isstar (d :: b1')) as Ast.
        pose proof (drop_while_head isstar (d :: b1')) as Fst.
        assert (Est : take_while isstar (d :: b1') <> []) by (cbn [take_while]; rewrite Eds; discriminate).
        remember (take_while isstar (d :: b1')) as st eqn:Qst. remember (drop_while isstar (d :: b1')) as b2 eqn:Qb2. clear Qst Qb2.
        destruct b2 as [|d2 b2'] eqn:Eb2.
        -- (* D: the stars reach the end of the body: rule 15 *)
           right. rewrite app_nil_r in Hst. rewrite <- Hbl, <- Hst.
           replace ((bl ++ st) ++ star :: slash :: rest) with (bl ++ (st ++ [star]) ++ slash :: rest)
             by (rewrite <- !app_assoc; reflexivity).
           rewrite (cT15 bl (st ++ [star]) rest Abl (forall_snoc (fun c => isstar c = true) st star Ast eq_refl)).
           ++ f_equal. f_equal. rewrite !app_length. cbn [length]. lia.
           ++ destruct st; discriminate.
        -- cbn [follows] in Fst. apply negb_true_iff in Fst.
           assert (Hsl : isslash d2 = false).
           { apply (nss_stars_next st d2 b2' Ast Est). rewrite Hst. exact Hn1. }
           destruct bl as [|x bl'] eqn:Ebl.
           ++ (* E: stars, then bytes that are neither star nor slash nor newline: rule 13 *)
              pose proof (take_drop k13 (d2 :: b2')) as Hr.
              pose proof (take_while_all k13 (d2 :: b2')) as Ar.
              pose proof (drop_while_head k13 (d2 :: b2')) as Fr.
              remember (take_while k13 (d2 :: b2')) as run eqn:Qrun. remember (drop_while k13 (d2 :: b2')) as b3 eqn:Qb3. clear Qb3.
              left. exists (st ++ run), b3, 1%nat.
              split; [cbn [app] in Hbl; rewrite <- Hbl, <- Hst, <- Hr, <- app_assoc; reflexivity|].
              split; [destruct st; [contradiction|discriminate]|]. split; [lia|].
              rewrite <- app_assoc, app_length.
              apply cT13; [exact Ast|exact Est|exact Ar|].
              destruct run as [|r1 run'] eqn:Erun.
              ** cbn [t13_cond]. cbn [app] in Hr. subst b3. cbn [app follows].
                 cbn [take_while] in Qrun.
                 destruct (k13 d2) eqn:Ek; [discriminate|]. unfold k13 in Ek. rewrite Fst, Hsl in Ek. cbn in Ek.
                 apply negb_false_iff in Ek. exact Ek.
              ** cbn [t13_cond]. apply follows_app_tail; [exact Fr|reflexivity].
           ++ (* F: blanks, stars, something else: the blanks alone (rule 12) *)
              left. exists bl, (d :: b1'), 0%nat. rewrite Ebl. split; [symmetry; exact Hbl|].
              split; [discriminate|]. split; [lia|].
              rewrite <- Hst, <- app_assoc. cbn [app].
              apply (cT12b (x :: bl') st (d2 :: b2' ++ star :: slash :: rest)); [exact Abl|discriminate|exact Ast|].
              destruct st as [|s1 st']; [contradiction|]. cbn [t12b_cond app follows]. rewrite Fst, Hsl. reflexivity.
      * (* G: an ordinary byte: rule 12 takes the blanks before it and the ordinary bytes after it *)
        pose proof (take_drop k12 b1') as Ht.
        pose proof (take_while_all k12 b1') as At.
        pose proof (drop_while_head k12 b1') as Ft.
        remember (take_while k12 b1') as tl eqn:Qtl. remember (drop_while k12 b1') as b4 eqn:Qb4. clear Qtl Qb4.
        left. exists (bl ++ d :: tl), b4, 0%nat.
        split; [rewrite <- Hbl, <- Ht, <- app_assoc; reflexivity|].
        split; [destruct bl; discriminate|]. split; [lia|].
        rewrite <- app_assoc, app_length. cbn [app length].
        apply cT12a; [exact Abl| |exact At|].
        -- unfold k12. rewrite Eds, Ednl, Fbl. reflexivity.
        -- apply follows_app_tail; [exact Ft|reflexivity].
Qed.

Lemma cm_acts : act_is comment 0 A_qput && act_is comment 1 A_qput && act_is comment 2 A_qput_nl
                && act_is comment 3 A_qend_comment = true.
Proof. vm_compute. reflexivity. Qed.

Lemma cm_rule_lt3 j : (j < 3)%nat ->
  exists r, nth_error (active_rules comment) j = Some r /\ (r_act r = A_qput \/ r_act r = A_qput_nl).
Proof.
  intros Hj. pose proof cm_acts as H. apply andb_prop in H as [H _]. apply andb_prop in H as [H H2].
  apply andb_prop in H as [H0 H1]. unfold act_is in H0, H1, H2.
  destruct j as [|[|[|j]]]; [| | |lia].
  - destruct (nth_error (active_rules comment) 0) as [r|]; [|discriminate]. apply action_eqb_eq in H0. eauto.
  - destruct (nth_error (active_rules comment) 1) as [r|]; [|discriminate]. apply action_eqb_eq in H1. eauto.
  - destruct (nth_error (active_rules comment) 2) as [r|]; [|discriminate]. apply action_eqb_eq in H2. eauto.
Qed.

Lemma cm_rule_3 : exists r, nth_error (active_rules comment) 3 = Some r /\ r_act r = A_qend_comment.
Proof.
  pose proof cm_acts as H. apply andb_prop in H as [_ H]. unfold act_is in H.
  destruct (nth_error (active_rules comment) 3) as [r|]; [|discriminate]. apply action_eqb_eq in H. eauto.
Qed.

Section BlockComment.
Variable e : envt.

Lemma block_body_scan (id : nat) (others : list (nat * str)) (rest : str) : forall n (body : str) st p,
  (length body <= n)%nat -> nss body = true -> l_sc st = comment ->
  l_bufs st = (id, body ++ star :: slash :: rest) :: others ->
  exists v q' p', lexL e st p =
    mkres TComment (Some v) (set_q (set_sc (set_bufs st ((id, rest) :: others)) INITIAL) q') p' [] 0.
Proof.
  induction n as [|n IH]; intros body st p Hlen Hn Hsc Hb.
  - destruct body; [|cbn in Hlen; lia].
    destruct (cm_next [] rest Hn) as [(u & body2 & j & E & Hu & _)|Hm].
    { destruct u; [contradiction|discriminate]. }
    destruct cm_rule_3 as (r & Hr & Ha).
    change ([] ++ star :: slash :: rest) with ([star; slash] ++ rest) in Hb, Hm.
    eexists. eexists. eexists. erewrite lexL_ret; [reflexivity|].
    rewrite (lex_step_unit comment e st p id [star; slash] rest others 3 r Hsc Hb Hm Hr), Ha.
    cbn [run_action]. rewrite qend_trim_eq. reflexivity.
  - destruct (cm_next body rest Hn) as [(u & body2 & j & E & Hu & Hj & Hm)|Hm].
    + destruct (cm_rule_lt3 j Hj) as (r & Hr & Ha).
      subst body. rewrite <- app_assoc in Hb.
      assert (Hl2 : (length body2 <= n)%nat).
      { rewrite app_length in Hlen. destruct u; [contradiction|]. cbn [length] in Hlen. lia. }
      pose proof (nss_app_r u body2 Hn) as Hn2.
      pose proof (lex_step_unit comment e st p id u (body2 ++ star :: slash :: rest) others j r Hsc Hb Hm Hr) as Hs.
      destruct Ha as [Ha|Ha]; rewrite Ha in Hs; cbn [run_action] in Hs.
      * set (st2 := set_q (set_bufs st ((id, body2 ++ star :: slash :: rest) :: others)) (qputs (l_q st) (cstr u))).
        destruct (IH body2 st2 p Hl2 Hn2 Hsc eq_refl) as (v & q' & p' & Hr').
        exists v, q', p'. rewrite (lexL_cont e st p st2 p Hs). exact Hr'.
      * set (st2 := set_q (set_bufs st ((id, body2 ++ star :: slash :: rest) :: others)) (qputs (l_q st) (cstr u))).
        destruct (IH body2 st2 (line_incr p) Hl2 Hn2 Hsc eq_refl) as (v & q' & p' & Hr').
        exists v, q', p'. rewrite (lexL_cont e st p st2 (line_incr p) Hs). exact Hr'.
    + destruct cm_rule_3 as (r & Hr & Ha).
      replace (body ++ star :: slash :: rest) with ((body ++ [star; slash]) ++ rest) in Hb, Hm
        by (rewrite <- app_assoc; reflexivity).
      replace (length body + 2)%nat with (length (body ++ [star; slash])) in Hm by (rewrite app_length; reflexivity).
      eexists. eexists. eexists. erewrite lexL_ret; [reflexivity|].
      rewrite (lex_step_unit comment e st p id (body ++ [star; slash]) rest others 3 r Hsc Hb Hm Hr), Ha.
      cbn [run_action]. rewrite qend_trim_eq. reflexivity.
Qed.
End BlockComment.

Lemma cm_open_ok : unit_ok INITIAL [slash; star] A_begin_comment any = true.
Proof. vm_compute. reflexivity. Qed.

Lemma count_nl_block (body : str) : count_nl (slash :: star :: body ++ [star; slash]) = count_nl body.
Proof.
  rewrite !count_nl_cons, count_nl_app, !count_nl_cons. change (count_nl []) with 0%N.
  change (Byte.eqb slash nl) with false. change (Byte.eqb star nl) with false. cbv iota. lia.
Qed.

Lemma pos_eq (p q : pos) : p_file p = p_file q -> p_line p = p_line q -> p = q.
Proof. destruct p, q; cbn; intros -> ->; reflexivity. Qed.

(* slash-star, a body without star-slash (any bytes: newlines, stars, slashes, empty), star-slash: ONE comment token;
   the scanner is back in INITIAL in front of `rest`, the line counter advanced by the newlines of the body *)
Theorem block_comment_token e (body rest : str) st p (id : nat) (others : list (nat * str)) :
  nss body = true -> l_sc st = INITIAL -> l_inc st = [] ->
  l_bufs st = (id, (slash :: star :: body ++ [star; slash]) ++ rest) :: others ->
  exists v q', lexL e st p =
    mkres TComment (Some v) (set_q (set_sc (set_bufs st ((id, rest) :: others)) INITIAL) q') (add_lines p (count_nl body)) [] 0.
Proof.
  intros Hn Hsc Hi Hb.
  assert (Hb' : l_bufs st = (id, [slash; star] ++ (body ++ star :: slash :: rest)) :: others).
  { rewrite Hb. cbn [app]. rewrite <- app_assoc. reflexivity. }
  destruct (unit_ok_munch INITIAL [slash; star] A_begin_comment any (body ++ star :: slash :: rest) cm_open_ok (follows_any _))
    as (j & r & Hm & Hr & Ha).
  pose proof (lex_step_unit INITIAL e st p id [slash; star] _ others j r Hsc Hb' Hm Hr) as Hs.
  rewrite Ha in Hs. cbn [run_action] in Hs.
  set (st1 := qbeg (set_bufs st ((id, body ++ star :: slash :: rest) :: others)) comment) in Hs.
  destruct (block_body_scan e id others rest (length body) body st1 p (le_n _) Hn eq_refl eq_refl) as (v & q' & p' & Hr').
  assert (HL : lexL e st p = mkres TComment (Some v) (set_q (set_sc (set_bufs st ((id, rest) :: others)) INITIAL) q') p' [] 0).
  { rewrite (lexL_cont e st p st1 p Hs). exact Hr'. }
  exists v, q'. rewrite HL. f_equal.
  destruct (yylex_line_invariant e (lex_fuel st) st p 0 id _ others Hb Hi) as (u & rest' & E & B & _ & Fp & Lp & _).
  fold (lexL e st p) in B, Fp, Lp. rewrite HL in B, Fp, Lp. cbn [mkres r_st r_pos set_q set_sc set_bufs l_bufs] in B, Fp, Lp.
  injection B as B. subst rest'. apply app_inv_tail in E. subst u.
  apply pos_eq; [exact Fp|]. rewrite Lp, count_nl_block. reflexivity.
Qed.
