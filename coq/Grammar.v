(* Grammar.v — SPEC for C01: the reference meaning of a configuration text.
   A text is a list of tokens; its meaning is defined by a schema-directed recursive descent over
   items (assignment, append, braced list, section with optional title, unknown item to skip,
   free-form key) that transforms the tree with whole-value operations: replace, append, open /
   replace / merge a section instance.  No state numbers, no RESET bit, no counters.
   Scope: no function options, no user pointers, no callbacks (those are C14), comments removed (C15). *)
From Coq Require Import List Arith NArith ZArith Bool.
From Coq.Strings Require Import Byte.
From LC Require Import Bytes Consts Conv Flex LexAct Lexer Files Store.
Import ListNotations.

Section WithOracles.
Variable strtod_o : str -> strtod_res.

(* a token of the language: a string or a punctuation mark *)
Inductive gtok := GS (s : str) | GP (c : N).

Definition gtok_of (t : ltok) : option gtok :=
  match lt_tok t with
  | TStr => Some (GS (match lt_val t with Some v => v | None => [] end))
  | TPunct c => Some (GP c)
  | _ => None                      (* comments carry no meaning *)
  end.
Definition gtoks (ts : list ltok) : list gtok :=
  flat_map (fun t => match gtok_of t with Some g => [g] | None => [] end) ts.

Definition is_p (t : gtok) (c : N) : bool := match t with GP x => (x =? c)%N | _ => false end.

(* text -> typed value *)
Definition conv_value (k : kind) (v : str) : option value :=
  match k with
  | KInt => match conv_int v with COk z => Some (VInt z) | _ => None end
  | KFloat => match conv_float strtod_o v with COk b => Some (VFloat b) | _ => None end
  | KBool => option_map VBool (conv_bool v)
  | KStr => Some (VStr (Some v))
  | _ => None
  end.

(* the inside of a braced list, after '{':   '}'  |  v (',' v)* [','] '}' *)
Fixpoint braced (fuel : nat) (k : kind) (ts : list gtok) (acc : list value) : option (list value * list gtok) :=
  match fuel with
  | O => None
  | S f =>
    match ts with
    | GP 125 :: r => Some (acc, r)
    | GS v :: r =>
        match conv_value k v with
        | None => None
        | Some x =>
            match r with
            | GP 44 :: r' => braced f k r' (acc ++ [x])
            | GP 125 :: r' => Some (acc ++ [x], r')
            | _ => None
            end
        end
    | _ => None
    end
  end.

(* ---- declared defaults ---- *)
Definition default_scalar (o : opt) : list value :=
  match o_kind o with
  | KInt => [VInt (d_num (o_def o))]
  | KFloat => [VFloat (d_fp (o_def o))]
  | KBool => [VBool (d_bool (o_def o))]
  | KStr => [VStr (d_str (o_def o))]
  | _ => []
  end.

(* the value list a default text such as "{1, 2}" or "5" denotes *)
Definition default_list (o : opt) : list value :=
  match d_parsed (o_def o) with
  | None | Some [] => []
  | Some text =>
      let '(toks, _, _, _, _) := lex_all [] (S (length text)) (scan_begin lex_init (cstr text)) {| p_file := None; p_line := 1 |} [] [] in
      match gtoks toks with
      | GP 123 :: r => match braced (S (length r)) (o_kind o) r [] with Some (vs, _) => vs | None => [] end
      | GS v :: _ => match conv_value (o_kind o) v with Some x => [x] | None => [] end
      | _ => []
      end
  end.

(* a fresh instance of a section declaration, and the initial value list of every option *)
Fixpoint instance (ctxflags : N) (decl : opt) (title : option str) {struct decl} : cfg :=
  match decl with
  | Opt name k flags vals sub def cm0 cbs =>
      let fl := if has flags CFGF_KEYSTRVAL then setf ctxflags CFGF_KEYSTRVAL else ctxflags in
      Cfg name title fl
          ((fix each (l : list opt) : list opt :=
              match l with
              | [] => []
              | d :: r =>
                  (match d with
                   | Opt n kd f _ sb df cm cb =>
                       let vs :=
                         if has f CFGF_NODEFAULT then []
                         else match kd with
                              | KSec => if has f CFGF_MULTI then [] else [VSec (Some (instance fl d None))]   (* sub-sections inherit the section's flags *)
                              | KFunc | KPtr | KNone => []
                              | _ => if has f CFGF_LIST
                                     then (* a list default is read by the parser, so a DEPRECATED|DROP list loses it at once *)
                                          (if has f CFGF_DEPRECATED && has f CFGF_DROP then [] else default_list d)
                                     else default_scalar d
                              end in
                       Opt n kd f vs sb df cm cb
                   end) :: each r
              end) sub)
          None 0 false None
  end.

(* ---- what an accepted parse leaves observable: values, titles, shape — not flags or positions ---- *)
Definition decl_flags (f : N) : N :=
  clrf (clrf (clrf (clrf f CFGF_RESET) CFGF_MODIFIED) CFGF_DEFINIT) CFGF_COMMENTS.

Fixpoint obs_v (v : value) : value :=
  match v with VSec (Some c) => VSec (Some (obs_c c)) | x => x end
with obs_o (o : opt) : opt :=
  match o with
  | Opt n k f vals sub def cm cb =>
      Opt n k (decl_flags f) ((fix go (l : list value) := match l with [] => [] | v :: r => obs_v v :: go r end) vals) sub def None cb
  end
with obs_c (c : cfg) : cfg :=
  match c with
  | Cfg n t f opts _ _ _ _ =>
      Cfg n t f ((fix go (l : list opt) := match l with [] => [] | o :: r => obs_o o :: go r end) opts) None 0 false None
  end.

(* ---- unknown items (CFGF_IGNORE_UNKNOWN) ---- *)
Fixpoint skip_until (c : N) (ts : list gtok) : option (list gtok) :=
  match ts with [] => None | t :: r => if is_p t c then Some r else skip_until c r end.

Fixpoint skip_braces (depth : nat) (ts : list gtok) : option (list gtok) :=
  match ts with
  | [] => None
  | t :: r => if is_p t 123 then skip_braces (S depth) r
              else if is_p t 125 then match depth with O => Some r | S d => skip_braces d r end
              else skip_braces depth r
  end.

(* the rest after an unknown item whose name has just been read *)
Definition skip_unknown (ts : list gtok) : option (list gtok) :=
  match ts with
  | t :: r =>
      if is_p t 61 || is_p t 43 then
        match r with
        | GS _ :: r' => Some r'
        | t' :: r' => if is_p t' 123 then skip_until 125 r' else None
        | [] => None
        end
      else if is_p t 40 then skip_until 41 r
      else if is_p t 123 then skip_braces 0 r
      else match t, r with
           | GS _, t' :: r' => if is_p t' 123 then skip_braces 0 r' else None
           | _, _ => None
           end
  | [] => None
  end.

(* ---- which instance a section item opens: (updated value list, index), None = rejected ---- *)
Definition open_instance (ctxflags : N) (nocase : bool) (o : opt) (title : option str) : option (list value * nat) :=
  let vals := o_vals o in
  let fresh := VSec (Some (instance ctxflags o title)) in
  if negb (oflag o CFGF_MULTI) then
    match vals with
    | [] => Some ([fresh], 0%nat)
    | _ => Some (vals, 0%nat)                       (* merge into the existing instance; a title is ignored *)
    end
  else if negb (oflag o CFGF_TITLE) then Some (vals ++ [fresh], length vals)
  else
    match title with
    | None => None
    | Some t =>
        match find_idx (fun v => match v with
                                 | VSec (Some s) => match c_title s with Some t' => name_eqb nocase t t' | None => false end
                                 | _ => false end) vals 0 with
        | Some i => if oflag o CFGF_NO_TITLE_DUPES then None
                    else Some (upd_nth vals i (fun _ => fresh), i)   (* a repeated title replaces that section in place *)
        | None => Some (vals ++ [fresh], length vals)
        end
    end.

Definition after_item (o : opt) : opt :=
  if oflag o CFGF_DEPRECATED && oflag o CFGF_DROP then set_vals o [] else o.

(* ---- the meaning of a token list inside context c; top = not inside braces ---- *)
Fixpoint meaning (fuel : nat) (c : cfg) (top : bool) (ts : list gtok) : option (cfg * list gtok) :=
  match fuel with
  | O => None
  | S f =>
    match ts with
    | [] => if top then Some (c, []) else None
    | GP 125 :: r => if top then None else Some (c, r)
    | GP _ :: _ => None
    | GS name :: r =>
        match fst (cfg_getopt c name) with
        | None =>
            if cflag c CFGF_IGNORE_UNKNOWN then
              match skip_unknown r with Some r' => meaning f c top r' | None => None end
            else if cflag c CFGF_KEYSTRVAL then
              match name, r with
              | _ :: _, GP 61 :: GS v :: r' =>
                  meaning f (set_opts c (c_opts c ++ [Opt name KStr 0 [VStr (Some v)] [] defv0 None cbset0])) top r'
              | _, _ => None
              end
            else None
        | Some ref =>
            match get_opt c ref with
            | None => None
            | Some o =>
                match o_kind o with
                | KSec =>
                    let '(title, r1) := if oflag o CFGF_TITLE
                                        then match r with GS t :: r1 => (Some (Some t), r1) | _ => (None, r) end
                                        else (Some None, r) in
                    match title, r1 with
                    | Some ti, GP 123 :: r2 =>
                        match open_instance (c_flags c) (cflag c CFGF_NOCASE) o ti with
                        | None => None
                        | Some (vals', idx) =>
                            match nth_error vals' idx with
                            | Some (VSec (Some sec)) =>
                                match meaning f sec false r2 with
                                | None => None
                                | Some (sec', r3) =>
                                    let o' := after_item (set_vals o (upd_nth vals' idx (fun _ => VSec (Some sec')))) in
                                    meaning f (put_opt c ref o') top r3
                                end
                            | _ => None
                            end
                        end
                    | _, _ => None
                    end
                | KInt | KFloat | KBool | KStr =>
                    let k := o_kind o in
                    let islist := oflag o CFGF_LIST in
                    match r with
                    | GP 61 :: GP 123 :: r1 =>
                        if islist then
                          match braced (S (length r1)) k r1 [] with
                          | Some (vs, r2) => meaning f (put_opt c ref (after_item (set_vals o vs))) top r2
                          | None => None
                          end
                        else None
                    | GP 61 :: GS v :: r1 =>
                        match conv_value k v with
                        | Some x => meaning f (put_opt c ref (after_item (set_vals o [x]))) top r1
                        | None => None
                        end
                    | GP 43 :: GP 123 :: r1 =>
                        if islist then
                          match braced (S (length r1)) k r1 [] with
                          | Some (vs, r2) => meaning f (put_opt c ref (after_item (set_vals o (o_vals o ++ vs)))) top r2
                          | None => None
                          end
                        else None
                    | GP 43 :: GS v :: r1 =>
                        if islist then
                          match conv_value k v with
                          | Some x => meaning f (put_opt c ref (after_item (set_vals o (o_vals o ++ [x])))) top r1
                          | None => None
                          end
                        else None
                    | _ => None
                    end
                | _ => None            (* functions and user pointers: outside this specification *)
                end
            end
        end
    end
  end.

(* the meaning of a whole text parsed into context c *)
Definition text_meaning (c : cfg) (ts : list ltok) : option cfg :=
  let g := gtoks ts in
  match meaning (S (length g)) c true g with
  | Some (c', _) => Some (obs_c c')
  | None => None
  end.

End WithOracles.
