(* PP_Inv.v — C01: the tree invariant (depth-indexed, decidable), and what cfg_setopt does to one
   option for a scalar / list value. *)
From Coq Require String.
From Coq Require Import List Arith NArith ZArith Bool Lia.
From Coq.Strings Require Import Byte.
From LC Require Import Bytes Consts Conv Flex LexAct Lexer Files Store Parser Grammar PP_Base PP_Step PP_Tok PP_Setopt.
Import ListNotations.

Definition is_none {A} (x : option A) : bool := match x with None => true | Some _ => false end.
Definition is_some {A} (x : option A) : bool := match x with None => false | Some _ => true end.
Definition is_nil {A} (x : list A) : bool := match x with [] => true | _ => false end.

Definition scalar_kind (k : kind) : bool := match k with KInt | KFloat | KBool | KStr => true | _ => false end.
Definition is_sec (k : kind) : bool := match k with KSec => true | _ => false end.

(* what every option, live or template, must satisfy: a kind the SPEC covers, no parse / validate
   callbacks; a section option carries neither the (internal) RESET bit nor CFGF_LIST *)
Definition base_ok (o : opt) : bool :=
  (scalar_kind (o_kind o) || is_sec (o_kind o)) && is_none (cb_parse (o_cbs o)) && is_none (cb_valid (o_cbs o))
  && (if is_sec (o_kind o) then negb (oflag o CFGF_RESET) && negb (oflag o CFGF_LIST) else true).

(* default texts: only list options have one; it is absent or empty, or the declaration passes the check sc *)
Definition nosc : opt -> bool := fun _ => false.
Definition dflt_ok (sc : opt -> bool) (o : opt) : bool :=
  if is_sec (o_kind o) then true
  else if oflag o CFGF_LIST then sc o || match d_parsed (o_def o) with None | Some [] => true | _ => false end
  else is_none (d_parsed (o_def o)).

(* a declaration (template): no values yet *)
Fixpoint tmplO (sc : opt -> bool) (k : nat) (d : opt) : bool :=
  base_ok d && dflt_ok sc d && is_nil (o_vals d) &&
  (if is_sec (o_kind d) then match k with O => false | S k' => forallb (tmplO sc k') (o_sub d) end else true).

Definition title_ok (o : opt) (s : cfg) : bool :=
  if oflag o CFGF_MULTI && oflag o CFGF_TITLE then is_some (c_title s) else true.

Definition plainv (v : value) : bool := match v with VSec _ => false | _ => true end.

(* a live option *)
Fixpoint invO (sc : opt -> bool) (k : nat) (o : opt) : bool :=
  base_ok o &&
  (if is_sec (o_kind o) then
     match k with
     | O => false
     | S k' => forallb (tmplO sc k') (o_sub o) &&
               forallb (fun v => match v with
                                 | VSec (Some s) => title_ok o s && forallb (invO sc k') (c_opts s)
                                 | _ => false end) (o_vals o)
     end
   else forallb plainv (o_vals o)).

Definition invC (sc : opt -> bool) (k : nat) (c : cfg) : bool := forallb (invO sc k) (c_opts c).

Lemma ceq_invC sc k a b : ceq a b -> invC sc k a = invC sc k b.
Proof. intros H. unfold invC. rewrite (ceq_c_opts _ _ H). reflexivity. Qed.

Lemma invO_base sc k o : invO sc k o = true -> base_ok o = true.
Proof. destruct k; cbn; intros H; apply andb_prop in H; tauto. Qed.

Lemma base_ok_parts o : base_ok o = true ->
  (scalar_kind (o_kind o) = true \/ o_kind o = KSec) /\ cb_parse (o_cbs o) = None /\ cb_valid (o_cbs o) = None /\
  (o_kind o = KSec -> oflag o CFGF_RESET = false /\ oflag o CFGF_LIST = false).
Proof.
  unfold base_ok. intros H. apply andb_prop in H as [H H4]. apply andb_prop in H as [H H3]. apply andb_prop in H as [H1 H2].
  destruct (cb_parse (o_cbs o)); [discriminate|]. destruct (cb_valid (o_cbs o)); [discriminate|].
  split; [|split; [reflexivity|split; [reflexivity|]]].
  - destruct (o_kind o); cbn in *; auto; discriminate.
  - intros K. rewrite K in H4. cbn in H4. apply andb_prop in H4 as [A B].
    apply negb_true_iff in A. apply negb_true_iff in B. auto.
Qed.

Lemma base_ok_shape o o' : shape o = shape o' -> oflag o CFGF_RESET = oflag o' CFGF_RESET \/ is_sec (o_kind o) = false ->
  base_ok o = base_ok o'.
Proof.
  intros H HR. unfold base_ok. rewrite <- (shape_kind _ _ H), <- (shape_cbs _ _ H).
  destruct (is_sec (o_kind o)) eqn:K; [|reflexivity].
  destruct HR as [HR|HR]; [|discriminate]. rewrite HR, (shape_oflag _ _ CFGF_LIST H eq_refl). reflexivity.
Qed.

(* ---------- world bookkeeping ---------- *)
Definition wkeep (w w' : pw) : Prop := forall e L, wst w e L -> wst w' e L.
Lemma wkeep_refl w : wkeep w w. Proof. intros e L H; exact H. Qed.
Lemma wkeep_trans a b c : wkeep a b -> wkeep b c -> wkeep a c. Proof. unfold wkeep; auto. Qed.
Lemma wkeep_diags w d : wkeep w (add_diags w d). Proof. intros e L H. apply wst_add_diags, H. Qed.
Lemma wkeep_frees w d : wkeep w (log_frees w d). Proof. intros e L H. apply wst_log_frees, H. Qed.

(* ---------- free_value ---------- *)
Lemma free_value_fst o : exists o1, fst (free_value o) = set_vals o1 [] /\ shape o1 = shape o /\ (forall m, oflag o1 m = oflag o m).
Proof.
  unfold free_value. cbn [fst].
  destruct (match o_comment o with Some _ => negb (oflag o CFGF_RESET) | None => false end).
  - exists (set_comment o None). repeat split. apply shape_set_comment. intros; apply oflag_set_comment.
  - exists o. auto.
Qed.

Lemma free_value_props o : o_vals (fst (free_value o)) = [] /\ shape (fst (free_value o)) = shape o /\
  (forall m, oflag (fst (free_value o)) m = oflag o m).
Proof.
  destruct (free_value_fst o) as (o1 & E & S & F). rewrite E. repeat split.
  - apply o_vals_set_vals.
  - rewrite shape_set_vals. exact S.
  - intros m. rewrite oflag_set_vals. apply F.
Qed.

Section WithOracles.
Variable strtod_o : str -> strtod_res.
Notation SO := (setopt strtod_o).

Lemma scalar_not_sec k : scalar_kind k = true -> kind_eqb k KSec = false.
Proof. destruct k; cbn; auto; discriminate. Qed.

Lemma so_kind_scalar f c v w1 o1 vals0 :
  scalar_kind (o_kind o1) = true -> cb_parse (o_cbs o1) = None -> o_vals o1 = vals0 ++ [zero_value (o_kind o1)] ->
  exists w' o' res, so_kind strtod_o f c (Some v) w1 o1 (length vals0) = (w', o', res) /\ wkeep w1 w' /\
    match conv_value strtod_o (o_kind o1) v with
    | Some x => res <> None /\ o' = o_setf (set_vals o1 (vals0 ++ [x])) CFGF_MODIFIED
    | None => res = None
    end.
Proof.
  intros K CB V. unfold so_kind, so_store. rewrite CB, V.
  destruct (o_kind o1) eqn:HK; try discriminate K; cbn [conv_value].
  - destruct (conv_int v); cbv beta; rewrite ?upd_nth_app_last; do 3 eexists; (split; [reflexivity|]); split;
      try apply wkeep_refl; try apply wkeep_diags; try reflexivity. split; [discriminate|reflexivity].
  - destruct (conv_float strtod_o v); cbv beta; rewrite ?upd_nth_app_last; do 3 eexists; (split; [reflexivity|]); split;
      try apply wkeep_refl; try apply wkeep_diags; try reflexivity. split; [discriminate|reflexivity].
  - cbv beta; rewrite ?upd_nth_app_last; do 3 eexists; (split; [reflexivity|]); split; [apply wkeep_refl|]. split; [discriminate|reflexivity].
  - destruct (conv_bool v); cbn [option_map]; cbv beta; rewrite ?upd_nth_app_last; do 3 eexists; (split; [reflexivity|]); split;
      try apply wkeep_refl; try apply wkeep_diags; try reflexivity. split; [discriminate|reflexivity].
Qed.

Lemma shape_addval o : shape (addval o) = shape o.
Proof. unfold addval. rewrite shape_setf, shape_set_vals; reflexivity. Qed.

(* cfg_setopt for one value of a scalar or list option (the option has just been RESET, or is a list) *)
Lemma so_value f w c o v :
  scalar_kind (o_kind o) = true -> cb_parse (o_cbs o) = None ->
  (oflag o CFGF_RESET = true \/ oflag o CFGF_LIST = true) ->
  exists w' o' res, SO (S f) w c o (Some v) = (w', o', res) /\ wkeep w w' /\
    match conv_value strtod_o (o_kind o) v with
    | Some x => res <> None /\ o_vals o' = (if oflag o CFGF_RESET then [] else o_vals o) ++ [x] /\
                shape o' = shape o /\ oflag o' CFGF_RESET = false
    | None => res = None
    end.
Proof.
  intros K CB HRL. rewrite so_unfold. unfold so_body, so_reset.
  destruct (oflag o CFGF_RESET) eqn:HR.
  - destruct (free_value o) as [x fr] eqn:Hfv.
    pose proof (free_value_props o) as (V & S & F). rewrite Hfv in V, S, F. cbn [fst] in V, S, F.
    set (o0 := o_clrf x CFGF_RESET).
    assert (V0 : o_vals o0 = []) by (unfold o0; rewrite o_vals_clrf; exact V).
    assert (K0 : o_kind o0 = o_kind o) by (unfold o0; rewrite o_kind_clrf; apply shape_kind, S).
    unfold so_slot. rewrite V0. cbn [length Nat.eqb orb]. rewrite K0, (scalar_not_sec _ K). cbn [andb].
    destruct (so_kind_scalar f c v (log_frees w fr) (addval o0) []) as (w' & o' & res & E & Wk & R).
    + unfold addval. rewrite o_kind_setf, o_kind_set_vals, K0. exact K.
    + unfold addval. rewrite o_cbs_setf, o_cbs_set_vals. unfold o0. rewrite o_cbs_clrf, (shape_cbs _ _ S). exact CB.
    + unfold addval. rewrite o_vals_setf, o_vals_set_vals, V0, o_kind_setf, o_kind_set_vals. reflexivity.
    + cbn [length] in E. exists w', o', res. split; [exact E|]. split.
      * eapply wkeep_trans; [apply wkeep_frees|exact Wk].
      * assert (KA : o_kind (addval o0) = o_kind o) by (unfold addval; rewrite o_kind_setf, o_kind_set_vals; exact K0).
        rewrite KA in R. destruct (conv_value strtod_o (o_kind o) v) as [y|]; [|exact R].
        destruct R as [R1 R2]. split; [exact R1|]. subst o'. rewrite o_vals_setf, o_vals_set_vals. split; [reflexivity|]. split.
        -- rewrite shape_setf, shape_set_vals, shape_addval by reflexivity. unfold o0. rewrite shape_clrf by reflexivity. exact S.
        -- rewrite oflag_setf, oflag_set_vals. unfold addval. rewrite oflag_setf, oflag_set_vals. unfold o0.
           rewrite oflag_clrf_same. reflexivity.
  - destruct HRL as [HRL|HL]; [discriminate|].
    unfold so_slot. rewrite HL, orb_true_r. rewrite (scalar_not_sec _ K). cbn [andb].
    destruct (so_kind_scalar f c v w (addval o) (o_vals o)) as (w' & o' & res & E & Wk & R).
    + unfold addval. rewrite o_kind_setf, o_kind_set_vals. exact K.
    + unfold addval. rewrite o_cbs_setf, o_cbs_set_vals. exact CB.
    + unfold addval. rewrite o_vals_setf, o_vals_set_vals, o_kind_setf, o_kind_set_vals. reflexivity.
    + exists w', o', res. split; [exact E|]. split; [exact Wk|].
      assert (KA : o_kind (addval o) = o_kind o) by (unfold addval; rewrite o_kind_setf, o_kind_set_vals; reflexivity).
      rewrite KA in R. destruct (conv_value strtod_o (o_kind o) v) as [y|]; [|exact R].
      destruct R as [R1 R2]. split; [exact R1|]. subst o'. rewrite o_vals_setf, o_vals_set_vals. split; [reflexivity|]. split.
      * rewrite shape_setf, shape_set_vals, shape_addval by reflexivity. reflexivity.
      * rewrite oflag_setf, oflag_set_vals. unfold addval. rewrite oflag_setf, oflag_set_vals, HR. reflexivity.
Qed.

End WithOracles.
