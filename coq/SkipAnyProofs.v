(* SkipAnyProofs.v — C12 lifted from "insertion at the head" (SkipProofs.v) to "insertion at any item boundary,
   at any nesting depth", on the reference meaning (Grammar.v), and down to the parser model through the C01
   refinement (ParserProofs.v).

   Contents
     ign_c / ignoring     the ignore flag is set on a context and on every section instance nested in it
                          (fresh instances inherit the context's flags, so it then holds for every context the
                          descent ever enters); established by cfg_init, preserved by meaning
     item / opens / close the meaning of ONE item (meaning = iterate item), the section an item header opens,
                          and the context after that section's body
     meaning_fuel         the meaning does not depend on the fuel once it exceeds the number of tokens
     meaning_prefix       a section body that is accepted is accepted the same way whatever follows its '}'
     Ins                  t' is t with  name <unknown item u>  inserted at an item boundary, at any depth
     meaning_insertion    Ins-related token lists have the same meaning
     c12_parser_insertion the parser model returns the same code and observably equal trees on both *)
From Coq Require String.
From Coq Require Import List Arith NArith ZArith Bool Lia.
From Coq.Strings Require Import Byte.
From LC Require Import Bytes Consts Conv Flex LexAct Lexer LexLemmas LexAll Files Store Parser Grammar
  PP_Base PP_Step PP_Tok PP_Setopt PP_Inv PP_Machine PP_Default PP_Inst PP_Spec PP_InvLemmas PP_GetoptObs PP_SpecLemmas PP_Loop
  PP_LexYields PP_LexFrame ParserProofs SkipProofs IncludeSim.
Import ListNotations.
Local Open Scope list_scope.
Local Open Scope nat_scope.

(* ====================================================================================================
   1. the ignore flag everywhere
   ==================================================================================================== *)
Fixpoint ign_v (v : value) : bool :=
  match v with VSec (Some c) => ign_c c | _ => true end
with ign_o (o : opt) : bool :=
  match o with
  | Opt _ _ _ vals _ _ _ _ => (fix go (l : list value) : bool := match l with [] => true | v :: r => ign_v v && go r end) vals
  end
with ign_c (c : cfg) : bool :=
  match c with
  | Cfg _ _ f opts _ _ _ _ =>
      has f CFGF_IGNORE_UNKNOWN && (fix go (l : list opt) : bool := match l with [] => true | o :: r => ign_o o && go r end) opts
  end.

(* c and every section instance below it carry CFGF_IGNORE_UNKNOWN *)
Definition ignoring (c : cfg) : Prop := ign_c c = true.

Lemma ign_o_eq o : ign_o o = forallb ign_v (o_vals o).
Proof. destruct o as [n k f vals sub d cm cb]. cbn [ign_o o_vals]. induction vals as [|v r IH]; [reflexivity|]. cbn [forallb]. rewrite IH. reflexivity. Qed.

Lemma ign_c_eq c : ign_c c = cflag c CFGF_IGNORE_UNKNOWN && forallb ign_o (c_opts c).
Proof.
  destruct c as [n t f opts fi l e p]. cbn [ign_c c_opts]. unfold cflag. cbn [c_flags]. reflexivity.
Qed.

Lemma ign_flag c : ign_c c = true -> cflag c CFGF_IGNORE_UNKNOWN = true.
Proof. rewrite ign_c_eq. intros H. apply andb_prop in H. tauto. Qed.

Lemma ign_opts c : ign_c c = true -> forallb ign_o (c_opts c) = true.
Proof. rewrite ign_c_eq. intros H. apply andb_prop in H. tauto. Qed.

Lemma ign_set_vals o vs : ign_o (set_vals o vs) = forallb ign_v vs.
Proof. rewrite ign_o_eq, o_vals_set_vals. reflexivity. Qed.

Lemma ign_set_opts c os : ign_c (set_opts c os) = cflag c CFGF_IGNORE_UNKNOWN && forallb ign_o os.
Proof. rewrite ign_c_eq, c_opts_set_opts. destruct c; reflexivity. Qed.

Lemma ign_after_item o : ign_o o = true -> ign_o (after_item o) = true.
Proof. intros H. unfold after_item. destruct (_ && _); [rewrite ign_set_vals; reflexivity|exact H]. Qed.

Lemma plain_ign vs : forallb plainv vs = true -> forallb ign_v vs = true.
Proof.
  induction vs as [|v r IH]; [reflexivity|]. cbn [forallb]. intros H. apply andb_prop in H as [A B].
  rewrite (IH B), andb_true_r. destruct v as [| | | |s|]; try reflexivity. discriminate A.
Qed.

(* ---- along references ---- *)
Lemma ign_nth_sec o v s : ign_o o = true -> nth_sec o v = Some s -> ign_c s = true.
Proof.
  rewrite ign_o_eq. unfold nth_sec. intros H N. destruct (nth_error (o_vals o) v) as [x|] eqn:E; [|discriminate].
  pose proof (forallb_nth_error _ _ _ _ H E) as P. destruct x as [| | | |[s'|]|]; try discriminate. injection N as <-. exact P.
Qed.

Lemma ign_get_sec : forall steps c s, ign_c c = true -> get_sec c steps = Some s -> ign_c s = true.
Proof.
  induction steps as [|[i v] r IH]; intros c s H G; cbn [get_sec] in G; [injection G as <-; exact H|].
  destruct (nth_error (c_opts c) i) as [o|] eqn:E; [|discriminate].
  destruct (nth_sec o v) as [s0|] eqn:N; [|discriminate].
  eapply IH; [|exact G]. eapply ign_nth_sec; [|exact N]. eapply forallb_nth_error; [apply ign_opts, H|exact E].
Qed.

Lemma ign_get_opt c r o : ign_c c = true -> get_opt c r = Some o -> ign_o o = true.
Proof.
  unfold get_opt. intros H G. destruct (get_sec c (fst r)) as [s|] eqn:E; [|discriminate].
  eapply forallb_nth_error; [apply ign_opts; eapply ign_get_sec; eauto|exact G].
Qed.

Lemma ign_upd_sec : forall steps c g, ign_c c = true -> (forall s, ign_c s = true -> ign_c (g s) = true) ->
  ign_c (upd_sec c steps g) = true.
Proof.
  induction steps as [|[i v] r IH]; intros c g H G; cbn [upd_sec]; [apply G, H|].
  rewrite ign_set_opts, (ign_flag _ H). cbn [andb].
  apply forallb_upd_nth; [apply ign_opts, H|]. intros o E.
  assert (IO : ign_o o = true) by (eapply forallb_nth_error; [apply ign_opts, H|exact E]).
  rewrite ign_set_vals. rewrite ign_o_eq in IO. apply forallb_upd_nth; [exact IO|]. intros x X.
  pose proof (forallb_nth_error _ _ _ _ IO X) as P. destruct x as [| | | |[s|]|]; try exact P.
  cbn [ign_v] in *. apply IH; auto.
Qed.

Lemma ign_put_opt c r o : ign_c c = true -> ign_o o = true -> ign_c (put_opt c r o) = true.
Proof.
  intros H O. unfold put_opt, upd_opt. apply ign_upd_sec; [exact H|]. intros s S.
  rewrite ign_set_opts, (ign_flag _ S). cbn [andb]. apply forallb_upd_nth; [apply ign_opts, S|]. intros; exact O.
Qed.

(* ---- it only depends on the observation ---- *)
Lemma forallb_map {A B} (P : B -> bool) (h : A -> B) l : forallb P (map h l) = forallb (fun x => P (h x)) l.
Proof. induction l as [|x l IH]; [reflexivity|]. cbn. rewrite IH. reflexivity. Qed.

Lemma forallb_ext_Forall {A} (P Q : A -> bool) l : Forall (fun x => P x = Q x) l -> forallb P l = forallb Q l.
Proof. induction 1 as [|x l H _ IH]; [reflexivity|]. cbn. rewrite H, IH. reflexivity. Qed.

Lemma ign_obs_all : (forall c, ign_c (obs_c c) = ign_c c) /\ (forall o, ign_o (obs_o o) = ign_o o) /\ (forall v, ign_v (obs_v v) = ign_v v).
Proof.
  apply tree_ind_all.
  - intros c H. cbn [obs_v ign_v]. exact H.
  - intros v H. destruct v as [z|b|b|s|[c|]|i]; try reflexivity. exfalso. apply (H c). reflexivity.
  - intros n k f vals sub d cm cb H. rewrite obs_o_eq, !ign_o_eq. cbn [o_vals]. rewrite forallb_map. apply forallb_ext_Forall, H.
  - intros n t f opts fi l e p H. rewrite obs_c_eq, !ign_c_eq. cbn [c_opts c_flags cflag]. unfold cflag. cbn [c_flags]. f_equal.
    rewrite forallb_map. apply forallb_ext_Forall, H.
Qed.

Lemma ign_obs c c' : obs_c c = obs_c c' -> ign_c c = ign_c c'.
Proof. intros H. destruct ign_obs_all as (A & _). rewrite <- (A c), H, A. reflexivity. Qed.

Section WithOracles.
Variable strtod_o : str -> strtod_res.
Notation meaning := (meaning strtod_o).
Notation instance := (instance strtod_o).
Notation open_instance := (open_instance strtod_o).

(* ---- fresh instances inherit the flag ---- *)
Lemma conv_value_ign k v x : conv_value strtod_o k v = Some x -> ign_v x = true.
Proof. intros H. apply conv_value_plain in H. destruct x as [| | | |s|]; try reflexivity. discriminate H. Qed.

Lemma default_list_plain d : forallb plainv (default_list strtod_o d) = true.
Proof.
  unfold default_list. destruct (d_parsed (o_def d)) as [[|b t]|]; try reflexivity.
  destruct (lex_all _ _ _ _ _ _) as [[[[toks t0] s0] p0] d0].
  destruct (gtoks toks) as [|[v|y] r]; try reflexivity.
  - destruct (conv_value strtod_o (o_kind d) v) as [x|] eqn:CV; [|reflexivity]. cbn. rewrite (conv_value_plain _ _ _ _ CV). reflexivity.
  - assert (G : forall y, match y with 123%N => true | _ => false end = (y =? 123)%N).
    { intros z. destruct (z =? 123)%N eqn:Z; [apply N.eqb_eq in Z; subst z; reflexivity|].
      destruct z as [|z]; [reflexivity|]. do 8 (try (destruct z as [z|z|]; try reflexivity)). discriminate Z. }
    destruct (y =? 123)%N eqn:Y.
    + apply N.eqb_eq in Y. subst y.
      destruct (braced strtod_o (S (length r)) (o_kind d) r []) as [[vs r']|] eqn:B; [|reflexivity].
      eapply braced_plain; eauto.
    + destruct y as [|y]; [reflexivity|]. do 8 (try (destruct y as [y|y|]; try reflexivity)). discriminate Y.
Qed.

Lemma default_scalar_plain d : forallb plainv (default_scalar d) = true.
Proof. unfold default_scalar. destruct (o_kind d); reflexivity. Qed.

Lemma instance_ign : forall d fl t, has fl CFGF_IGNORE_UNKNOWN = true -> ign_c (instance fl d t) = true.
Proof.
  fix IH 1. intros [name k flags vals sub def cm cbs] fl t H.
  rewrite instance_eq, ign_c_eq. cbn [c_opts c_flags cflag o_sub]. unfold cflag. cbn [c_flags].
  set (fl' := inst_fl fl (Opt name k flags vals sub def cm cbs)).
  assert (H' : has fl' CFGF_IGNORE_UNKNOWN = true).
  { unfold fl', inst_fl. destruct (oflag _ CFGF_KEYSTRVAL); [rewrite has_setf, H; reflexivity|exact H]. }
  rewrite H'. cbn [andb]. clearbody fl'. clear H.
  induction sub as [|a sub IHs]; [reflexivity|]. cbn [map forallb]. rewrite IHs, andb_true_r.
  unfold inst_opt. rewrite ign_set_vals. unfold inst_vals.
  destruct (oflag a CFGF_NODEFAULT); [reflexivity|].
  destruct (o_kind a); try reflexivity.
  1-4: destruct (oflag a CFGF_LIST);
       [destruct (_ && _); [reflexivity|apply plain_ign, default_list_plain]|apply plain_ign, default_scalar_plain].
  destruct (oflag a CFGF_MULTI); [reflexivity|]. cbn [forallb ign_v]. rewrite (IH a fl' None H'). reflexivity.
Qed.

Lemma open_instance_ign ctx nocase o ti vals' idx :
  has ctx CFGF_IGNORE_UNKNOWN = true -> ign_o o = true ->
  open_instance ctx nocase o ti = Some (vals', idx) -> forallb ign_v vals' = true.
Proof.
  intros H O. rewrite ign_o_eq in O. unfold open_instance.
  assert (FR : ign_v (VSec (Some (instance ctx o ti))) = true) by (cbn [ign_v]; apply instance_ign, H).
  assert (APP : forallb ign_v (o_vals o ++ [VSec (Some (instance ctx o ti))]) = true).
  { rewrite forallb_app, O. cbn [forallb]. rewrite FR. reflexivity. }
  destruct (negb (oflag o CFGF_MULTI)).
  - destruct (o_vals o) as [|x l] eqn:E; intros X; injection X as <- <-; [cbn [forallb]; rewrite FR; reflexivity|exact O].
  - destruct (negb (oflag o CFGF_TITLE)); [intros X; injection X as <- <-; exact APP|].
    destruct ti as [t|]; [|discriminate].
    destruct (find_idx _ (o_vals o) 0) as [i|].
    + destruct (oflag o CFGF_NO_TITLE_DUPES); [discriminate|]. intros X; injection X as <- <-.
      apply forallb_upd_nth; [exact O|]. intros; exact FR.
    + intros X; injection X as <- <-. exact APP.
Qed.


(* ====================================================================================================
   2. one item of the descent
   ==================================================================================================== *)
(* the meaning of the item  name r...  in context c: the context after it and what follows it.
   rec gives the meaning of a section body *)
Definition item_with (rec : cfg -> bool -> list gtok -> option (cfg * list gtok)) (c : cfg) (name : str) (r : list gtok)
  : option (cfg * list gtok) :=
  match fst (cfg_getopt c name) with
  | None =>
      if cflag c CFGF_IGNORE_UNKNOWN then
        match skip_unknown r with Some r' => Some (c, r') | None => None end
      else if cflag c CFGF_KEYSTRVAL then
        match kv_item name r with
        | Some (v, r') => Some (set_opts c (c_opts c ++ [Opt name KStr 0 [VStr (Some v)] [] defv0 None cbset0]), r')
        | None => None
        end
      else None
  | Some ref =>
      match get_opt c ref with
      | None => None
      | Some o =>
          if is_sec (o_kind o) then
            match sec_head o r with
            | Some (ti, r2) =>
                match open_instance (c_flags c) (cflag c CFGF_NOCASE) o ti with
                | None => None
                | Some (vals', idx) =>
                    match nth_error vals' idx with
                    | Some (VSec (Some sec)) =>
                        match rec sec false r2 with
                        | None => None
                        | Some (sec', r3) =>
                            Some (put_opt c ref (after_item (set_vals o (upd_nth vals' idx (fun _ => VSec (Some sec'))))), r3)
                        end
                    | _ => None
                    end
                end
            | None => None
            end
          else if scalar_kind (o_kind o) then
            match val_res strtod_o (o_kind o) (oflag o CFGF_LIST) r with
            | Some (app, vs, r2) => Some (put_opt c ref (after_item (set_vals o ((if app then o_vals o else []) ++ vs))), r2)
            | None => None
            end
          else None
      end
  end.

Definition item (F : nat) : cfg -> str -> list gtok -> option (cfg * list gtok) := item_with (meaning F).

Lemma mbody_item rec c top name r :
  mbody strtod_o rec c top (GS name :: r) = match item_with rec c name r with Some (c1, r1) => rec c1 top r1 | None => None end.
Proof.
  unfold mbody, item_with. destruct (fst (cfg_getopt c name)) as [ref|].
  - destruct (get_opt c ref) as [o|]; [|reflexivity]. destruct (is_sec (o_kind o)).
    + destruct (sec_head o r) as [[ti r2]|]; [|reflexivity].
      destruct (open_instance _ _ o ti) as [[vals' idx]|]; [|reflexivity].
      destruct (nth_error vals' idx) as [[| | | |[sec|]|]|]; try reflexivity.
      destruct (rec sec false r2) as [[sec' r3]|]; reflexivity.
    + destruct (scalar_kind (o_kind o)); [|reflexivity].
      destruct (val_res _ _ _ r) as [[[app vs] r2]|]; reflexivity.
  - destruct (cflag c CFGF_IGNORE_UNKNOWN); [destruct (skip_unknown r); reflexivity|].
    destruct (cflag c CFGF_KEYSTRVAL); [|reflexivity]. destruct (kv_item name r) as [[v r']|]; reflexivity.
Qed.

(* meaning = iterate item *)
Theorem meaning_item f c top name r :
  meaning (S f) c top (GS name :: r) = match item f c name r with Some (c1, r1) => meaning f c1 top r1 | None => None end.
Proof. rewrite meaning_unfold. apply mbody_item. Qed.

Lemma meaning_nil f c top : meaning (S f) c top [] = if top then Some (c, []) else None.
Proof. reflexivity. Qed.

Lemma meaning_GP f c top x r : meaning (S f) c top (GP x :: r) = if (x =? 125)%N then (if top then None else Some (c, r)) else None.
Proof. rewrite meaning_unfold. reflexivity. Qed.

(* the rest of a meaning is no longer than its input *)
Lemma meaning_len F c top g c' rest : meaning F c top g = Some (c', rest) -> length rest <= length g.
Proof.
  intros H. apply meaning_props in H as (A & B & _). destruct g as [|x g]; [rewrite (B eq_refl); apply le_n|].
  apply Nat.lt_le_incl, psfx_len, A. discriminate.
Qed.

Lemma item_with_psfx rec c name r c1 r1 :
  (forall s g s' rest, rec s false g = Some (s', rest) -> length rest <= length g) ->
  item_with rec c name r = Some (c1, r1) -> length r1 < length r.
Proof.
  intros REC. unfold item_with. destruct (fst (cfg_getopt c name)) as [ref|].
  - destruct (get_opt c ref) as [o|]; [|discriminate]. destruct (is_sec (o_kind o)).
    + destruct (sec_head o r) as [[ti r2]|] eqn:SH; [|discriminate]. apply sec_head_psfx, psfx_len in SH.
      destruct (open_instance _ _ o ti) as [[vals' idx]|]; [|discriminate].
      destruct (nth_error vals' idx) as [[| | | |[sec|]|]|]; try discriminate.
      destruct (rec sec false r2) as [[sec' r3]|] eqn:M; [|discriminate]. apply REC in M.
      intros X; injection X as _ <-. lia.
    + destruct (scalar_kind (o_kind o)); [|discriminate].
      destruct (val_res _ _ _ r) as [[[app vs] r2]|] eqn:V; [|discriminate]. apply val_res_psfx, psfx_len in V.
      intros X; injection X as _ <-. exact V.
  - destruct (cflag c CFGF_IGNORE_UNKNOWN).
    + destruct (skip_unknown r) as [r'|] eqn:SK; [|discriminate]. apply skip_unknown_psfx, psfx_len in SK.
      intros X; injection X as _ <-. exact SK.
    + destruct (cflag c CFGF_KEYSTRVAL); [|discriminate]. destruct (kv_item name r) as [[v r']|] eqn:KV; [|discriminate].
      apply kv_item_psfx, psfx_len in KV. intros X; injection X as _ <-. exact KV.
Qed.

Lemma item_psfx F c name r c1 r1 : item F c name r = Some (c1, r1) -> length r1 < length r.
Proof. apply item_with_psfx. intros s g s' rest. apply meaning_len. Qed.

(* an item only asks rec about section bodies that are shorter than the item *)
Lemma item_with_ext rec1 rec2 c name r :
  (forall s g, length g < length r -> rec1 s false g = rec2 s false g) -> item_with rec1 c name r = item_with rec2 c name r.
Proof.
  intros E. unfold item_with. destruct (fst (cfg_getopt c name)) as [ref|]; [|reflexivity].
  destruct (get_opt c ref) as [o|]; [|reflexivity]. destruct (is_sec (o_kind o)); [|reflexivity].
  destruct (sec_head o r) as [[ti r2]|] eqn:SH; [|reflexivity]. apply sec_head_psfx, psfx_len in SH.
  destruct (open_instance _ _ o ti) as [[vals' idx]|]; [|reflexivity].
  destruct (nth_error vals' idx) as [[| | | |[sec|]|]|]; try reflexivity.
  rewrite (E sec r2 SH). reflexivity.
Qed.

(* ====================================================================================================
   3. fuel: beyond the number of tokens it does not matter
   ==================================================================================================== *)
Theorem meaning_fuel : forall F1 F2 c top g, length g < F1 -> length g < F2 -> meaning F1 c top g = meaning F2 c top g.
Proof.
  induction F1 as [|F1 IH]; intros F2 c top g H1 H2; [lia|]. destruct F2 as [|F2]; [lia|].
  destruct g as [|[name|x] r]; [reflexivity| |rewrite !meaning_GP; reflexivity].
  cbn [length] in H1, H2. rewrite !meaning_item. unfold item.
  rewrite (item_with_ext (meaning F1) (meaning F2) c name r) by (intros s g L; apply IH; lia).
  destruct (item_with (meaning F2) c name r) as [[c1 r1]|] eqn:I; [|reflexivity].
  apply item_psfx in I. apply IH; lia.
Qed.

Lemma item_fuel F1 F2 c name r : length r <= F1 -> length r <= F2 -> item F1 c name r = item F2 c name r.
Proof. intros H1 H2. apply item_with_ext. intros s g L. apply meaning_fuel; lia. Qed.


(* ====================================================================================================
   4. what an accepted item / section body consumed does not depend on what follows it
   ==================================================================================================== *)
Lemma skip_until_prefix c : forall g r, skip_until c g = Some r ->
  exists pre, g = pre ++ r /\ forall r', skip_until c (pre ++ r') = Some r'.
Proof.
  induction g as [|t g IH]; intros r H; cbn [skip_until] in H; [discriminate|].
  destruct (is_p t c) eqn:P.
  - injection H as <-. exists [t]. split; [reflexivity|]. intros r'. cbn [app skip_until]. rewrite P. reflexivity.
  - destruct (IH r H) as (pre & -> & A). exists (t :: pre). split; [reflexivity|]. intros r'. cbn [app skip_until]. rewrite P. apply A.
Qed.

Lemma skip_braces_prefix : forall g d r, skip_braces d g = Some r ->
  exists pre, g = pre ++ r /\ forall r', skip_braces d (pre ++ r') = Some r'.
Proof.
  induction g as [|t g IH]; intros d r H; cbn [skip_braces] in H; [discriminate|].
  destruct (is_p t 123) eqn:P1.
  - destruct (IH _ r H) as (pre & -> & A). exists (t :: pre). split; [reflexivity|]. intros r'. cbn [app skip_braces]. rewrite P1. apply A.
  - destruct (is_p t 125) eqn:P2.
    + destruct d as [|d].
      * injection H as <-. exists [t]. split; [reflexivity|]. intros r'. cbn [app skip_braces]. rewrite P1, P2. reflexivity.
      * destruct (IH _ r H) as (pre & -> & A). exists (t :: pre). split; [reflexivity|]. intros r'. cbn [app skip_braces]. rewrite P1, P2. apply A.
    + destruct (IH _ r H) as (pre & -> & A). exists (t :: pre). split; [reflexivity|]. intros r'. cbn [app skip_braces]. rewrite P1, P2. apply A.
Qed.

Lemma skip_unknown_prefix g r : skip_unknown g = Some r ->
  exists pre, g = pre ++ r /\ forall r', skip_unknown (pre ++ r') = Some r'.
Proof.
  unfold skip_unknown. destruct g as [|t g]; [discriminate|].
  destruct (is_p t 61 || is_p t 43) eqn:P1.
  - destruct g as [|[s|x] g']; [discriminate| |].
    + intros H; injection H as <-. exists [t; GS s]. split; [reflexivity|]. intros r'. cbn [app]. rewrite P1. reflexivity.
    + destruct (is_p (GP x) 123) eqn:P2; [|discriminate]. intros H. destruct (skip_until_prefix _ _ _ H) as (pre & -> & A).
      exists (t :: GP x :: pre). split; [reflexivity|]. intros r'. cbn [app]. rewrite P1, P2. apply A.
  - destruct (is_p t 40) eqn:P2.
    + intros H. destruct (skip_until_prefix _ _ _ H) as (pre & -> & A).
      exists (t :: pre). split; [reflexivity|]. intros r'. cbn [app]. rewrite P1, P2. apply A.
    + destruct (is_p t 123) eqn:P3.
      * intros H. destruct (skip_braces_prefix _ _ _ H) as (pre & -> & A).
        exists (t :: pre). split; [reflexivity|]. intros r'. cbn [app]. rewrite P1, P2, P3. apply A.
      * destruct t as [s|x]; [|discriminate]. destruct g as [|t' g']; [discriminate|].
        destruct (is_p t' 123) eqn:P4; [|discriminate]. intros H. destruct (skip_braces_prefix _ _ _ H) as (pre & -> & A).
        exists (GS s :: t' :: pre). split; [reflexivity|]. intros r'. cbn [app]. rewrite P4. apply A.
Qed.

Lemma braced_prefix : forall F k g acc vs rest, braced strtod_o F k g acc = Some (vs, rest) ->
  exists pre, g = pre ++ rest /\ forall F' rest', length pre <= F' -> braced strtod_o F' k (pre ++ rest') acc = Some (vs, rest').
Proof.
  induction F as [|F IH]; intros k g acc vs rest H; [discriminate|].
  destruct g as [|[v|x] r]; [discriminate| |].
  - rewrite braced_GS in H. destruct (conv_value strtod_o k v) as [xv|] eqn:CV; [|discriminate].
    destruct r as [|[s|y] r']; try discriminate.
    destruct (y =? 44)%N eqn:Y1.
    + destruct (IH _ _ _ _ _ H) as (pre & -> & A). exists (GS v :: GP y :: pre). split; [reflexivity|].
      intros F' rest' L. cbn [length] in L. destruct F' as [|F']; [lia|]. cbn [app]. rewrite braced_GS, CV, Y1. apply A. lia.
    + destruct (y =? 125)%N eqn:Y2; [|discriminate]. injection H as <- <-. exists [GS v; GP y]. split; [reflexivity|].
      intros F' rest' L. cbn [length] in L. destruct F' as [|F']; [lia|]. cbn [app]. rewrite braced_GS, CV, Y1, Y2. reflexivity.
  - rewrite braced_GP in H. destruct (x =? 125)%N eqn:X; [|discriminate]. injection H as <- <-. exists [GP x]. split; [reflexivity|].
    intros F' rest' L. cbn [length] in L. destruct F' as [|F']; [lia|]. cbn [app]. rewrite braced_GP, X. reflexivity.
Qed.

Lemma val_res_prefix k l g app vs rest : val_res strtod_o k l g = Some (app, vs, rest) ->
  exists pre, g = pre ++ rest /\ forall rest', val_res strtod_o k l (pre ++ rest') = Some (app, vs, rest').
Proof.
  unfold val_res. destruct g as [|[s|x] g1]; try discriminate.
  destruct ((x =? 61)%N || (x =? 43)%N) eqn:X1; [|discriminate].
  destruct ((x =? 43)%N && negb l) eqn:X2; [discriminate|].
  destruct g1 as [|[v|y] g2]; try discriminate.
  - destruct (conv_value strtod_o k v) as [xv|] eqn:CV; [|discriminate]. intros H; injection H as <- <- <-.
    exists [GP x; GS v]. split; [reflexivity|]. intros rest'. cbn [app]. rewrite X1, X2, CV. reflexivity.
  - destruct ((y =? 123)%N && l) eqn:Y; [|discriminate].
    destruct (braced strtod_o (S (length g2)) k g2 []) as [[vs' r]|] eqn:B; [|discriminate].
    intros H; injection H as <- <- <-. destruct (braced_prefix _ _ _ _ _ _ B) as (pre & -> & A).
    exists (GP x :: GP y :: pre). split; [reflexivity|]. intros rest'. cbn [app]. rewrite X1, X2, Y.
    rewrite A by (rewrite app_length; lia). reflexivity.
Qed.

Lemma kv_item_prefix name g v r : kv_item name g = Some (v, r) ->
  exists pre, g = pre ++ r /\ forall r', kv_item name (pre ++ r') = Some (v, r').
Proof.
  unfold kv_item. destruct name; [discriminate|]. destruct g as [|[s|x] [|[s'|y] g']]; try discriminate.
  destruct (x =? 61)%N eqn:X; [|discriminate]. intros H; injection H as <- <-.
  exists [GP x; GS s']. split; [reflexivity|]. intros r'. cbn [app]. rewrite X. reflexivity.
Qed.

Lemma sec_head_prefix o g ti r : sec_head o g = Some (ti, r) ->
  exists pre, g = pre ++ r /\ forall r', sec_head o (pre ++ r') = Some (ti, r').
Proof.
  unfold sec_head. destruct (oflag o CFGF_TITLE).
  - destruct g as [|[s|x] [|[s'|y] g']]; try discriminate. destruct (y =? 123)%N eqn:Y; [|discriminate].
    intros H; injection H as <- <-. exists [GS s; GP y]. split; [reflexivity|]. intros r'. cbn [app]. rewrite Y. reflexivity.
  - destruct g as [|[s|x] g']; try discriminate. destruct (x =? 123)%N eqn:X; [|discriminate].
    intros H; injection H as <- <-. exists [GP x]. split; [reflexivity|]. intros r'. cbn [app]. rewrite X. reflexivity.
Qed.

(* the property for section bodies, at one fuel *)
Definition body_prefix (F : nat) : Prop :=
  forall s g s' rest, meaning F s false g = Some (s', rest) ->
  exists pre, g = pre ++ rest /\ forall F' rest', length (pre ++ rest') < F' -> meaning F' s false (pre ++ rest') = Some (s', rest').

Lemma item_prefix_gen F c name r c1 r1 : body_prefix F -> item F c name r = Some (c1, r1) ->
  exists pre, r = pre ++ r1 /\ forall F' r1', length (pre ++ r1') <= F' -> item F' c name (pre ++ r1') = Some (c1, r1').
Proof.
  intros BP. unfold item, item_with. destruct (fst (cfg_getopt c name)) as [ref|].
  - destruct (get_opt c ref) as [o|]; [|discriminate]. destruct (is_sec (o_kind o)).
    + destruct (sec_head o r) as [[ti r2]|] eqn:SH; [|discriminate].
      destruct (open_instance _ _ o ti) as [[vals' idx]|] eqn:OI; [|discriminate].
      destruct (nth_error vals' idx) as [[| | | |[sec|]|]|] eqn:NE; try discriminate.
      destruct (meaning F sec false r2) as [[sec' r3]|] eqn:M; [|discriminate].
      intros X; injection X as <- <-.
      destruct (sec_head_prefix _ _ _ _ SH) as (p1 & -> & A1). destruct (BP _ _ _ _ M) as (p2 & -> & A2).
      exists (p1 ++ p2). split; [apply app_assoc|]. intros F' r1' L. rewrite <- app_assoc, A1, OI, NE.
      rewrite A2; [reflexivity|]. rewrite <- app_assoc, app_length in L.
      assert (p1 <> []) by (intros ->; specialize (A1 []); cbn in A1; apply sec_head_psfx, psfx_len in A1; cbn in A1; lia).
      destruct p1; [congruence|cbn [length] in L; lia].
    + destruct (scalar_kind (o_kind o)); [|discriminate].
      destruct (val_res _ _ _ r) as [[[app vs] r2]|] eqn:V; [|discriminate]. intros X; injection X as <- <-.
      destruct (val_res_prefix _ _ _ _ _ _ V) as (pre & -> & A). exists pre. split; [reflexivity|]. intros F' r1' _. rewrite A. reflexivity.
  - destruct (cflag c CFGF_IGNORE_UNKNOWN).
    + destruct (skip_unknown r) as [r'|] eqn:SK; [|discriminate]. intros X; injection X as <- <-.
      destruct (skip_unknown_prefix _ _ SK) as (pre & -> & A). exists pre. split; [reflexivity|]. intros F' r1' _. rewrite A. reflexivity.
    + destruct (cflag c CFGF_KEYSTRVAL); [|discriminate]. destruct (kv_item name r) as [[v r']|] eqn:KV; [|discriminate].
      intros X; injection X as <- <-.
      destruct (kv_item_prefix _ _ _ _ KV) as (pre & -> & A). exists pre. split; [reflexivity|]. intros F' r1' _. rewrite A. reflexivity.
Qed.

Theorem meaning_prefix : forall F, body_prefix F.
Proof.
  induction F as [|F IH]; intros s g s' rest H; [discriminate|].
  destruct g as [|[name|x] r]; [discriminate| |].
  - rewrite meaning_item in H. destruct (item F s name r) as [[c1 r1]|] eqn:I; [|discriminate].
    destruct (item_prefix_gen _ _ _ _ _ _ IH I) as (p1 & -> & A1). destruct (IH _ _ _ _ H) as (p2 & -> & A2).
    exists (GS name :: p1 ++ p2). split; [cbn [app]; rewrite app_assoc; reflexivity|].
    intros F' rest' L. destruct F' as [|F']; [lia|]. cbn [app length] in L |- *. rewrite <- app_assoc in L |- *.
    rewrite meaning_item, A1 by lia. apply A2. rewrite app_length in L. lia.
  - rewrite meaning_GP in H. destruct (x =? 125)%N eqn:X; [|discriminate]. injection H as <- <-.
    exists [GP x]. split; [reflexivity|]. intros F' rest' L. destruct F' as [|F']; [lia|]. cbn [app]. rewrite meaning_GP, X. reflexivity.
Qed.

Theorem item_prefix F c name pre r c1 : item F c name (pre ++ r) = Some (c1, r) ->
  forall F' r', length (pre ++ r') <= F' -> item F' c name (pre ++ r') = Some (c1, r').
Proof.
  intros I. destruct (item_prefix_gen _ _ _ _ _ _ (meaning_prefix F) I) as (p & E & A).
  apply app_inv_tail in E. subst p. exact A.
Qed.


(* ====================================================================================================
   5. `ignoring` is preserved along the descent
   ==================================================================================================== *)
Lemma val_res_ign k l g app vs rest : val_res strtod_o k l g = Some (app, vs, rest) -> forallb ign_v vs = true.
Proof. intros H. apply plain_ign. eapply val_res_plain; eauto. Qed.

Lemma item_ign_gen F c name r c1 r1 :
  (forall s g s' rest, meaning F s false g = Some (s', rest) -> ign_c s = true -> ign_c s' = true) ->
  item F c name r = Some (c1, r1) -> ign_c c = true -> ign_c c1 = true.
Proof.
  intros BP. unfold item, item_with. destruct (fst (cfg_getopt c name)) as [ref|].
  - destruct (get_opt c ref) as [o|] eqn:GO; [|discriminate]. destruct (is_sec (o_kind o)).
    + destruct (sec_head o r) as [[ti r2]|]; [|discriminate].
      destruct (open_instance _ _ o ti) as [[vals' idx]|] eqn:OI; [|discriminate].
      destruct (nth_error vals' idx) as [[| | | |[sec|]|]|] eqn:NE; try discriminate.
      destruct (meaning F sec false r2) as [[sec' r3]|] eqn:M; [|discriminate].
      intros X IC; injection X as <- <-.
      pose proof (ign_get_opt _ _ _ IC GO) as IO.
      pose proof (open_instance_ign _ _ _ _ _ _ (ign_flag _ IC) IO OI) as IV.
      pose proof (forallb_nth_error _ _ _ _ IV NE) as IS. cbn [ign_v] in IS.
      apply ign_put_opt; [exact IC|]. apply ign_after_item. rewrite ign_set_vals.
      apply forallb_upd_nth; [exact IV|]. intros _ _. cbn [ign_v]. eapply BP; eauto.
    + destruct (scalar_kind (o_kind o)); [|discriminate].
      destruct (val_res _ _ _ r) as [[[app vs] r2]|] eqn:V; [|discriminate]. intros X IC; injection X as <- <-.
      pose proof (ign_get_opt _ _ _ IC GO) as IO.
      apply ign_put_opt; [exact IC|]. apply ign_after_item. rewrite ign_set_vals, forallb_app, (val_res_ign _ _ _ _ _ _ V), andb_true_r.
      destruct app; [rewrite <- ign_o_eq; exact IO|reflexivity].
  - destruct (cflag c CFGF_IGNORE_UNKNOWN).
    + destruct (skip_unknown r) as [r'|]; [|discriminate]. intros X IC; injection X as <- <-. exact IC.
    + destruct (cflag c CFGF_KEYSTRVAL); [|discriminate]. destruct (kv_item name r) as [[v r']|]; [|discriminate].
      intros X IC; injection X as <- <-. rewrite ign_set_opts, (ign_flag _ IC), forallb_app, (ign_opts _ IC). reflexivity.
Qed.

Theorem meaning_ign : forall F c top g c' rest, meaning F c top g = Some (c', rest) -> ign_c c = true -> ign_c c' = true.
Proof.
  induction F as [|F IH]; intros c top g c' rest H IC; [discriminate|].
  destruct g as [|[name|x] r].
  - rewrite meaning_nil in H. destruct top; [|discriminate]. injection H as <- <-. exact IC.
  - rewrite meaning_item in H. destruct (item F c name r) as [[c1 r1]|] eqn:I; [|discriminate].
    eapply IH; [exact H|]. eapply item_ign_gen; [|exact I|exact IC]. intros s g s' rest'. apply IH.
  - rewrite meaning_GP in H. destruct (x =? 125)%N; [|discriminate]. destruct top; [discriminate|]. injection H as <- <-. exact IC.
Qed.

Lemma item_ign F c name r c1 r1 : item F c name r = Some (c1, r1) -> ign_c c = true -> ign_c c1 = true.
Proof. apply item_ign_gen. intros s g s' rest. apply meaning_ign. Qed.

(* ====================================================================================================
   6. the section an item header opens
   ==================================================================================================== *)
(* the tokens between a section name and its body *)
Definition sec_hdr (ti : option str) : list gtok := match ti with Some t => [GS t; GP 123] | None => [GP 123] end.

(* name r...  is a section item of c:  its title, the instance it opens (existing, re-opened or fresh), its body *)
Definition opens (c : cfg) (name : str) (r : list gtok) : option (option str * cfg * list gtok) :=
  match fst (cfg_getopt c name) with
  | Some ref =>
      match get_opt c ref with
      | Some o =>
          if is_sec (o_kind o) then
            match sec_head o r with
            | Some (ti, r2) =>
                match open_instance (c_flags c) (cflag c CFGF_NOCASE) o ti with
                | Some (vals', idx) => match nth_error vals' idx with Some (VSec (Some sec)) => Some (ti, sec, r2) | _ => None end
                | None => None
                end
            | None => None
            end
          else None
      | None => None
      end
  | None => None
  end.

(* the context once the body has turned that instance into sec' *)
Definition close (c : cfg) (name : str) (ti : option str) (sec' : cfg) : cfg :=
  match fst (cfg_getopt c name) with
  | Some ref =>
      match get_opt c ref with
      | Some o =>
          match open_instance (c_flags c) (cflag c CFGF_NOCASE) o ti with
          | Some (vals', idx) => put_opt c ref (after_item (set_vals o (upd_nth vals' idx (fun _ => VSec (Some sec')))))
          | None => c
          end
      | None => c
      end
  | None => c
  end.

Lemma item_opens c name r ti sec r2 : opens c name r = Some (ti, sec, r2) ->
  forall F, item F c name r = match meaning F sec false r2 with Some (sec', r3) => Some (close c name ti sec', r3) | None => None end.
Proof.
  unfold opens, close, item, item_with. destruct (fst (cfg_getopt c name)) as [ref|]; [|discriminate].
  destruct (get_opt c ref) as [o|]; [|discriminate]. destruct (is_sec (o_kind o)); [|discriminate].
  destruct (sec_head o r) as [[ti0 r20]|]; [|discriminate].
  destruct (open_instance _ _ o ti0) as [[vals' idx]|] eqn:OI; [|discriminate].
  destruct (nth_error vals' idx) as [[| | | |[sec0|]|]|]; try discriminate.
  intros X; injection X as -> -> ->. rewrite OI. reflexivity.
Qed.

Lemma opens_hdr c name ti sec r2 : opens c name (sec_hdr ti ++ r2) = Some (ti, sec, r2) ->
  forall r2', opens c name (sec_hdr ti ++ r2') = Some (ti, sec, r2').
Proof.
  unfold opens. destruct (fst (cfg_getopt c name)) as [ref|]; [|discriminate].
  destruct (get_opt c ref) as [o|]; [|discriminate]. destruct (is_sec (o_kind o)); [|discriminate].
  destruct (sec_head o (sec_hdr ti ++ r2)) as [[ti0 r20]|] eqn:SH; [|discriminate].
  destruct (open_instance _ _ o ti0) as [[vals' idx]|] eqn:OI; [|discriminate].
  destruct (nth_error vals' idx) as [[| | | |[sec0|]|]|] eqn:NE; try discriminate.
  intros X; injection X as -> -> ->. intros r2'.
  destruct (sec_head_prefix _ _ _ _ SH) as (p & E & A). apply app_inv_tail in E. rewrite E, A, OI, NE. reflexivity.
Qed.

Lemma opens_ign c name r ti sec r2 : opens c name r = Some (ti, sec, r2) -> ign_c c = true -> ign_c sec = true.
Proof.
  unfold opens. destruct (fst (cfg_getopt c name)) as [ref|]; [|discriminate].
  destruct (get_opt c ref) as [o|] eqn:GO; [|discriminate]. destruct (is_sec (o_kind o)); [|discriminate].
  destruct (sec_head o r) as [[ti0 r20]|]; [|discriminate].
  destruct (open_instance _ _ o ti0) as [[vals' idx]|] eqn:OI; [|discriminate].
  destruct (nth_error vals' idx) as [[| | | |[sec0|]|]|] eqn:NE; try discriminate.
  intros X IC; injection X as -> -> ->.
  pose proof (open_instance_ign _ _ _ _ _ _ (ign_flag _ IC) (ign_get_opt _ _ _ IC GO) OI) as IV.
  exact (forallb_nth_error _ _ _ _ IV NE).
Qed.

(* ====================================================================================================
   7. insertion of an unknown item at an item boundary, at any depth
   ==================================================================================================== *)
(* Ins name u c top t t' :  relative to context c (top = not inside braces), t' is t with the item
   `name <utoks u>` inserted in front of one of its items (or at its end), at this level or inside the body of a
   section item at any depth; name is not declared in the context in force at the insertion point.
   The item boundaries are those of the descent itself:
     Ins_here    the insertion point is the head of the list (post may be empty, or start with '}' inside braces)
     Ins_later   the list starts with one complete item `n pre` (assignment, append, list, known or unknown, a whole
                 section with its body, a free-form key) that takes c to c1; the insertion is in what follows, relative to c1
     Ins_inside  the list starts with a section header `n [title] {` opening instance sec (a fresh one, the existing
                 one of a plain section, or a re-opened titled one); the insertion is in its body, relative to sec;
                 what follows the body's '}' is untouched *)
Section Insertion.
Variable name : str.
Variable u : uitem.

Inductive Ins : cfg -> bool -> list gtok -> list gtok -> Prop :=
| Ins_here c top post :
    fst (cfg_getopt c name) = None -> Ins c top post (GS name :: utoks u ++ post)
| Ins_later c top n pre r r' c1 f :
    item f c n (pre ++ r) = Some (c1, r) -> Ins c1 top r r' -> Ins c top (GS n :: pre ++ r) (GS n :: pre ++ r')
| Ins_inside c top n ti sec r2 r2' :
    opens c n (sec_hdr ti ++ r2) = Some (ti, sec, r2) -> Ins sec false r2 r2' ->
    Ins c top (GS n :: sec_hdr ti ++ r2) (GS n :: sec_hdr ti ++ r2').

Lemma ins_longer c top t t' : Ins c top t t' -> length t < length t'.
Proof.
  induction 1 as [c top post _|c top n pre r r' c1 f _ _ IH|c top n ti sec r2 r2' _ _ IH]; cbn [length]; rewrite ?app_length in *; lia.
Qed.

Theorem meaning_insertion c top t t' : uwf u -> Ins c top t t' -> ign_c c = true ->
  forall F F', length t < F -> length t' < F' -> meaning F' c top t' = meaning F c top t.
Proof.
  intros WF H. induction H as [c top post UN|c top n pre r r' c1 f I _ IH|c top n ti sec r2 r2' OP _ IH]; intros IC F F' L L'.
  - destruct F' as [|F']; [lia|]. cbn [length] in L'. rewrite app_length in L'.
    rewrite (meaning_skips_unknown strtod_o F' c top name u post UN (ign_flag _ IC) WF). apply meaning_fuel; lia.
  - destruct F as [|F]; [lia|]. destruct F' as [|F']; [lia|]. cbn [length] in L, L'. rewrite !meaning_item.
    rewrite (item_prefix _ _ _ _ _ _ I F r) by lia. rewrite (item_prefix _ _ _ _ _ _ I F' r') by lia.
    rewrite app_length in L, L'. apply IH; [eapply item_ign; eauto|lia|lia].
  - destruct F as [|F]; [lia|]. destruct F' as [|F']; [lia|]. cbn [length] in L, L'. rewrite !meaning_item.
    rewrite (item_opens _ _ _ _ _ _ OP F), (item_opens _ _ _ _ _ _ (opens_hdr _ _ _ _ _ OP r2') F').
    rewrite app_length in L, L'.
    rewrite (IH (opens_ign _ _ _ _ _ _ OP IC) F F') by lia.
    destruct (meaning F sec false r2) as [[sec' r3]|] eqn:M; [|reflexivity].
    pose proof (meaning_len _ _ _ _ _ _ M) as L3.
    assert (M' : meaning F' sec false r2' = Some (sec', r3)) by (rewrite (IH (opens_ign _ _ _ _ _ _ OP IC) F F') by lia; exact M).
    pose proof (meaning_len _ _ _ _ _ _ M') as L3'.
    apply meaning_fuel; lia.
Qed.

(* with the canonical fuel of text_meaning *)
Corollary meaning_insertion_text c t t' : uwf u -> Ins c true t t' -> ign_c c = true ->
  meaning (S (length t')) c true t' = meaning (S (length t)) c true t.
Proof. intros WF H IC. apply meaning_insertion; auto. Qed.

(* the tree after an accepted text is again `ignoring`, so insertions compose over a sequence of texts *)

(* ---- computational forms of the two recursive constructors (for concrete texts) ---- *)
Lemma Ins_later_at (k f : nat) c top n rest rest' :
  match item f c n rest with
  | Some (c1, r1) => r1 = skipn k rest /\ firstn k rest' = firstn k rest /\ Ins c1 top (skipn k rest) (skipn k rest')
  | None => False
  end -> Ins c top (GS n :: rest) (GS n :: rest').
Proof.
  destruct (item f c n rest) as [[c1 r1]|] eqn:I; [|contradiction]. intros (-> & E & H).
  rewrite <- (firstn_skipn k rest), <- (firstn_skipn k rest'), E.
  rewrite <- (firstn_skipn k rest) in I at 1. eapply Ins_later; eauto.
Qed.

Lemma Ins_inside_at c top n rest rest' :
  match opens c n rest with
  | Some (ti, sec, r2) => firstn (length (sec_hdr ti)) rest' = sec_hdr ti /\ Ins sec false r2 (skipn (length (sec_hdr ti)) rest')
  | None => False
  end -> Ins c top (GS n :: rest) (GS n :: rest').
Proof.
  destruct (opens c n rest) as [[[ti sec] r2]|] eqn:O; [|contradiction]. intros (E & H).
  assert (R : rest = sec_hdr ti ++ r2).
  { revert O. unfold opens. destruct (fst (cfg_getopt c n)) as [ref|]; [|discriminate].
    destruct (get_opt c ref) as [o|]; [|discriminate]. destruct (is_sec (o_kind o)); [|discriminate].
    destruct (sec_head o rest) as [[ti0 r20]|] eqn:SH; [|discriminate].
    destruct (open_instance _ _ o ti0) as [[vals' idx]|]; [|discriminate].
    destruct (nth_error vals' idx) as [[| | | |[sec0|]|]|]; try discriminate.
    intros X; injection X as -> -> ->. revert SH. unfold sec_head, sec_hdr. destruct (oflag o CFGF_TITLE).
    - destruct rest as [|[s|x] [|[s'|y] g']]; try discriminate. destruct (y =? 123)%N eqn:Y; [|discriminate].
      apply N.eqb_eq in Y. subst y. intros X; injection X as <- <-. reflexivity.
    - destruct rest as [|[s|x] g']; try discriminate. destruct (x =? 123)%N eqn:X; [|discriminate].
      apply N.eqb_eq in X. subst x. intros X; injection X as <- <-. reflexivity. }
  rewrite <- (firstn_skipn (length (sec_hdr ti)) rest'), E. subst rest. eapply Ins_inside; eassumption.
Qed.

End Insertion.


(* ====================================================================================================
   8. `ignoring` is established by cfg_init
   ==================================================================================================== *)
Lemma ign_set_err c b : ign_c (set_err c b) = ign_c c. Proof. destruct c; reflexivity. Qed.

Lemma inst_opt_ign fl d : has fl CFGF_IGNORE_UNKNOWN = true -> ign_o (inst_opt strtod_o fl d) = true.
Proof.
  intros H. unfold inst_opt. rewrite ign_set_vals. unfold inst_vals.
  destruct (oflag d CFGF_NODEFAULT); [reflexivity|].
  destruct (o_kind d); try reflexivity.
  1-4: destruct (oflag d CFGF_LIST);
       [destruct (_ && _); [reflexivity|apply plain_ign, default_list_plain]|apply plain_ign, default_scalar_plain].
  destruct (oflag d CFGF_MULTI); [reflexivity|]. cbn [forallb ign_v]. rewrite (instance_ign d fl None H). reflexivity.
Qed.

(* Under the hypotheses of the C01 refinement on the declarations (templates without values, kinds and default texts
   in the SPEC's scope, nesting at most k) and with enough fuel, the tree cfg_init builds with CFGF_IGNORE_UNKNOWN
   is `ignoring`, and it meets the C01 invariant. *)
Theorem cfg_init_ignoring e DC k w L decls flags fuel :
  wst w e L -> forallb (tmplO (dtext_okb strtod_o (fst e) DC) k) decls = true -> measure L + DC + 2 * k + 1 <= fuel ->
  has flags CFGF_IGNORE_UNKNOWN = true ->
  ign_c (snd (cfg_init strtod_o fuel w decls flags)) = true /\ Inv strtod_o (fst e) DC k (snd (cfg_init strtod_o fuel w decls flags)).
Proof.
  intros Hw Ht Hf HF. unfold cfg_init.
  match goal with |- context [Cfg ?n None flags decls None 0%N false None] =>
    destruct (id_sim strtod_o (dtext_okb strtod_o (fst e) DC) (fst e) DC (dtext_okb_spec strtod_o (fst e) DC) k fuel e w L
                n None flags decls None 0%N false None eq_refl Hw Ht Hf) as (w' & c' & E & _ & _ & _ & FL & O & I) end.
  rewrite E. cbn [snd]. split.
  - rewrite ign_set_err, ign_c_eq. unfold cflag. rewrite FL, HF. cbn [andb].
    destruct ign_obs_all as (_ & AO & _).
    rewrite <- (forallb_ext_Forall (fun o => ign_o (obs_o o)) ign_o) by (apply Forall_forall; intros; apply AO).
    rewrite <- forallb_map, O, forallb_map.
    rewrite (forallb_ext_Forall _ ign_o) by (apply Forall_forall; intros; apply AO).
    rewrite forallb_map. apply forallb_forall. intros d _. apply inst_opt_ign, HF.
  - unfold Inv, invC in *. destruct c'; exact I.
Qed.

(* ====================================================================================================
   9. down to the parser model
   ==================================================================================================== *)
Notation PI := (parse_internal strtod_o).

(* the machine runs on tree cm, the insertion relation is stated on any tree cs with the same observation *)
Theorem c12_parser_insertion2 e DC k name u ts ts' L L' w w' cm cs fuel fuel' :
  uwf u -> Ins name u cs true (gtoks ts) (gtoks ts') -> ign_c cs = true ->
  Inv strtod_o (fst e) DC k cm -> obs_c cm = obs_c cs ->
  wst w e L -> yieldsc e L ts -> enough DC k L ts fuel ->
  wst w' e L' -> yieldsc e L' ts' -> enough DC k L' ts' fuel' ->
  exists w1 c1 w2 c2 rc,
    PI fuel w cm 0 (pst0 0 None) = (w1, c1, rc) /\ PI fuel' w' cm 0 (pst0 0 None) = (w2, c2, rc) /\
    w_oof w1 = false /\ w_oof w2 = false /\ (rc = PEOF \/ rc = PERR) /\
    (rc = PEOF -> obs_c c2 = obs_c c1 /\ ign_c c2 = true /\ Inv strtod_o (fst e) DC k c2).
Proof.
  intros WF IN IC HI HO Hw Hy Hf Hw' Hy' Hf'.
  destruct (c01_machine2 strtod_o e DC k ts L w cm cs fuel (S (length (gtoks ts))) Hw Hy HI HO Hf (le_n _)) as (w1 & c1 & rc1 & E1 & O1 & M1).
  destruct (c01_machine2 strtod_o e DC k ts' L' w' cm cs fuel' (S (length (gtoks ts'))) Hw' Hy' HI HO Hf' (le_n _)) as (w2 & c2 & rc2 & E2 & O2 & M2).
  rewrite (meaning_insertion_text name u cs _ _ WF IN IC) in M2.
  destruct (meaning (S (length (gtoks ts))) cs true (gtoks ts)) as [[c'' rest]|] eqn:MM.
  - destruct M1 as (-> & OB1 & _). destruct M2 as (-> & OB2 & I2 & _).
    exists w1, c1, w2, c2, PEOF. spl; auto. intros _. spl; auto; [congruence|].
    rewrite (ign_obs _ _ OB2). eapply meaning_ign; eauto.
  - subst rc1 rc2. exists w1, c1, w2, c2, PERR. spl; auto. discriminate.
Qed.

Theorem c12_parser_insertion e DC k name u ts ts' L L' w w' c fuel fuel' :
  uwf u -> Ins name u c true (gtoks ts) (gtoks ts') -> ign_c c = true -> Inv strtod_o (fst e) DC k c ->
  wst w e L -> yieldsc e L ts -> enough DC k L ts fuel ->
  wst w' e L' -> yieldsc e L' ts' -> enough DC k L' ts' fuel' ->
  exists w1 c1 w2 c2 rc,
    PI fuel w c 0 (pst0 0 None) = (w1, c1, rc) /\ PI fuel' w' c 0 (pst0 0 None) = (w2, c2, rc) /\
    w_oof w1 = false /\ w_oof w2 = false /\ (rc = PEOF \/ rc = PERR) /\
    (rc = PEOF -> obs_c c2 = obs_c c1 /\ ign_c c2 = true /\ Inv strtod_o (fst e) DC k c2).
Proof. intros. eapply c12_parser_insertion2; eauto. Qed.

(* byte level: cfg_parse_buf on two texts whose token lists are Ins-related *)
Theorem c12_parse_buf_insertion DC k name u w c b b' ts ts' lf lf' p0 p0' s1 s1' p1 p1' d1 d1' fuel :
  uwf u -> wready w -> Inv strtod_o (w_env w) DC k c -> ign_c c = true ->
  lex_all (w_env w) lf (scan_begin lex_init (cstr b)) p0 [] [] = (ts, TEof, s1, p1, d1) ->
  lex_all (w_env w) lf' (scan_begin lex_init (cstr b')) p0' [] [] = (ts', TEof, s1', p1', d1') ->
  Ins name u c true (gtoks ts) (gtoks ts') ->
  length (cstr b) + measure (w_lex w) + length ts + 2 * k + 4 + DC < fuel ->
  length (cstr b') + measure (w_lex w) + length ts' + 2 * k + 4 + DC < fuel ->
  let '(w1, c1, rc1) := parse_buf strtod_o fuel w c (Some b) in
  let '(w2, c2, rc2) := parse_buf strtod_o fuel w c (Some b') in
  rc2 = rc1 /\ w_oof w1 = false /\ w_oof w2 = false /\ (rc1 = CFG_SUCCESS \/ rc1 = CFG_PARSE_ERROR) /\
  (rc1 = CFG_SUCCESS -> obs_c c2 = obs_c c1 /\ ign_c c2 = true /\ Inv strtod_o (w_env w) DC k c2).
Proof.
  intros WF WR HI IC LX LX' IN Hf Hf'.
  pose proof (c01_parse_buf2 strtod_o DC k w c c b ts lf p0 s1 p1 d1 fuel WR HI eq_refl LX Hf) as H1.
  pose proof (c01_parse_buf2 strtod_o DC k w c c b' ts' lf' p0' s1' p1' d1' fuel WR HI eq_refl LX' Hf') as H2.
  destruct (parse_buf strtod_o fuel w c (Some b)) as [[w1 c1] rc1]. destruct (parse_buf strtod_o fuel w c (Some b')) as [[w2 c2] rc2].
  destruct H1 as (O1 & M1). destruct H2 as (O2 & M2).
  rewrite (meaning_insertion_text name u c _ _ WF IN IC) in M2.
  destruct (meaning (S (length (gtoks ts))) c true (gtoks ts)) as [[c'' rest]|] eqn:MM.
  - destruct M1 as (-> & OB1 & _). destruct M2 as (-> & OB2 & I2 & _). spl; auto. intros _. spl; auto; [congruence|].
    rewrite (ign_obs _ _ OB2). eapply meaning_ign; eauto.
  - subst rc1 rc2. spl; auto. discriminate.
Qed.

End WithOracles.

(* without the hypothesis on the declarations the first statement fails: a declaration that already holds a section
   instance created without the flag keeps it (cfg_init merges into an existing instance of a plain section) *)
Example cfg_init_ignoring_needs_templates :
  exists sd w decls, ign_c (snd (cfg_init sd 100 w decls 256)) = false.
Proof.
  exists (fun _ => {| sd_bits := 0; sd_consumed := 0; sd_erange := false |}).
  exists {| w_lex := lex_init; w_env := []; w_fs := {| fs_root := []; fs_ents := [] |};
            w_pw := {| pw_tab := []; pw_self := None |}; w_path := []; w_cbs := []; w_cnt := 0; w_failat := 0; w_nextptr := 1;
            w_diags := []; w_open := 0; w_crash := None; w_oof := false |}.
  exists [Opt [x73] KSec 0 [VSec (Some (Cfg [x73] None 0 [] None 0 false None))] [] defv0 None cbset0].
  vm_compute. reflexivity.
Qed.
