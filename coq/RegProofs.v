(* RegProofs.v — C14, callback registration by schema path: cfg_getopt_array (Api.array_upd),
   cfg_set_validate_func, cfg_set_validate_func2.

   Contents
     1. array_upd on the basic path shapes (plain name, single section with an instance, template),
        the separator-only segment, and the failures
     2. the general statement: the designated place is a `loc` computed by `resolve` independently of
        the update f; array_upd = upd_loc at that place; fuel S (length name) is always enough
     3. declarations (name, kind, template, default, callbacks) survive cfg_setopt / cfg_init_defaults /
        cfg_parse_internal: a section instance carries the callbacks of its template
     4. registration through a multi section binds the template; existing instances keep their
        callbacks, instances created afterwards have the new one
     5. registration by plain name / through single sections hits the live option
     6. idempotence and independence
     7. one parser step: a value parsed for an option with validate callback k runs k *)
From Coq Require String.
Import String.StringSyntax.
From Coq Require Import List Arith NArith ZArith Bool Lia.
From Coq.Strings Require Import Byte.
From LC Require Import Bytes Consts Conv Flex LexAct Lexer Files Store Parser Api Grammar PP_Inst
  HdrProofs ApiProofs TreeProofs CallbackProofs GetterProofs.
Import ListNotations.
Local Open Scope string_scope.
Local Open Scope list_scope.

(* ================================================================== *)
(* 0. small list facts                                                  *)
(* ================================================================== *)

Lemma upd_nth_ext {A} (f g : A -> A) : forall (l : list A) i,
  (forall x, nth_error l i = Some x -> f x = g x) -> upd_nth l i f = upd_nth l i g.
Proof.
  induction l as [|x l IH]; intros i H; [reflexivity|].
  destruct i as [|i]; cbn [upd_nth].
  - rewrite (H x) by reflexivity. reflexivity.
  - rewrite (IH i) by (intros y Hy; apply H; exact Hy). reflexivity.
Qed.

Lemma upd_nth_length {A} (f : A -> A) : forall (l : list A) i, length (upd_nth l i f) = length l.
Proof. induction l as [|x l IH]; intros [|i]; cbn [upd_nth length]; auto. Qed.

Lemma upd_nth_id {A} (f : A -> A) : forall (l : list A) i,
  (forall x, nth_error l i = Some x -> f x = x) -> upd_nth l i f = l.
Proof.
  induction l as [|x l IH]; intros i H; [reflexivity|].
  destruct i as [|i]; cbn [upd_nth].
  - rewrite (H x) by reflexivity. reflexivity.
  - rewrite (IH i) by (intros y Hy; apply H; exact Hy). reflexivity.
Qed.

Lemma upd_nth_upd_nth {A} (f g : A -> A) : forall (l : list A) i,
  upd_nth (upd_nth l i f) i g = upd_nth l i (fun x => g (f x)).
Proof. induction l as [|x l IH]; intros [|i]; cbn [upd_nth]; try reflexivity. rewrite IH. reflexivity. Qed.

Lemma upd_nth_comm {A} (f g : A -> A) : forall (l : list A) i j, i <> j ->
  upd_nth (upd_nth l i f) j g = upd_nth (upd_nth l j g) i f.
Proof.
  induction l as [|x l IH]; intros i j D; [reflexivity|].
  destruct i as [|i], j as [|j]; cbn [upd_nth]; try reflexivity; [congruence|].
  rewrite IH by congruence. reflexivity.
Qed.

Lemma upd_nth_map {A B} (h : A -> B) (f : A -> A) (g : B -> B) : forall (l : list A) i,
  (forall x, h (f x) = g (h x)) -> map h (upd_nth l i f) = upd_nth (map h l) i g.
Proof.
  intros l i H. revert i. induction l as [|x l IH]; intros [|i]; cbn [upd_nth map]; try reflexivity.
  - rewrite H. reflexivity.
  - rewrite IH. reflexivity.
Qed.

(* the first index satisfying p *)
Lemma find_idx_spec {A} (p : A -> bool) : forall (l : list A) b i,
  find_idx p l b = Some i ->
  b <= i /\ (exists x, nth_error l (i - b) = Some x /\ p x = true) /\
  (forall j y, j < i - b -> nth_error l j = Some y -> p y = false).
Proof.
  induction l as [|x l IH]; intros b i H; [discriminate|].
  cbn [find_idx] in H. destruct (p x) eqn:P.
  - injection H as <-. rewrite Nat.sub_diag. split; [lia|]. split; [exists x; auto|]. intros j y Hj. lia.
  - apply IH in H. destruct H as [B [[y [N Py]] F]].
    split; [lia|]. replace (i - b) with (S (i - S b)) by lia.
    split; [exists y; auto|].
    intros j z Hj Nz. destruct j as [|j]; cbn [nth_error] in Nz.
    + injection Nz as <-. exact P.
    + apply (F j z); [lia|exact Nz].
Qed.

Lemma find_idx_first {A} (p : A -> bool) (l : list A) i :
  find_idx p l 0 = Some i ->
  (exists x, nth_error l i = Some x /\ p x = true) /\
  (forall j y, j < i -> nth_error l j = Some y -> p y = false).
Proof. intro H. apply find_idx_spec in H. rewrite Nat.sub_0_r in H. tauto. Qed.

Lemma find_idx_none {A} (p : A -> bool) : forall (l : list A) b,
  find_idx p l b = None <-> forallb (fun x => negb (p x)) l = true.
Proof.
  induction l as [|x l IH]; intros b; cbn [find_idx forallb]; [tauto|].
  destruct (p x); cbn [negb andb]; [split; discriminate|apply IH].
Qed.

Lemma find_idx_shift {A} (p : A -> bool) : forall (l : list A) b,
  find_idx p l (S b) = option_map S (find_idx p l b).
Proof.
  induction l as [|x l IH]; intros b; cbn [find_idx]; [reflexivity|].
  destruct (p x); [reflexivity|apply IH].
Qed.

(* the answer only depends on the values of p along the list *)
Lemma find_idx_map {A B} (h : A -> B) (p : A -> bool) (q : B -> bool) : forall (l : list A) b,
  (forall x, q (h x) = p x) -> find_idx q (map h l) b = find_idx p l b.
Proof.
  intros l b H. revert b. induction l as [|x l IH]; intros b; cbn [find_idx map]; [reflexivity|].
  rewrite H. destruct (p x); [reflexivity|apply IH].
Qed.

Lemma find_idx_upd_nth {A} (p : A -> bool) (f : A -> A) : forall (l : list A) i b,
  (forall x, p (f x) = p x) -> find_idx p (upd_nth l i f) b = find_idx p l b.
Proof.
  intros l i b H. revert i b. induction l as [|x l IH]; intros [|i] b; cbn [find_idx upd_nth]; try reflexivity.
  - rewrite H. reflexivity.
  - rewrite IH. reflexivity.
Qed.

(* ================================================================== *)
(* 1. the path mini-language of cfg_getopt_array                        *)
(* ================================================================== *)

Definition set_sub (o : opt) (s : list opt) : opt :=
  match o with Opt n kd fl v _ d cm cb => Opt n kd fl v s d cm cb end.

(* a segment: no separator in it *)
Definition nobar (s : str) : bool := negb (existsb is_bar s).
(* what follows a separator, further separators dropped *)
Definition strip_bars (s : str) : str := skipn (strspn s is_bar) s.

Lemma is_bar_x7c : is_bar x7c = true. Proof. reflexivity. Qed.

Lemma strcspn_nobar s : nobar s = true -> strcspn s is_bar = length s.
Proof.
  unfold nobar. induction s as [|c s IH]; [reflexivity|].
  cbn [existsb strcspn length]. destruct (is_bar c); [discriminate|]. cbn [orb]. intro H. rewrite IH; auto.
Qed.

Lemma strcspn_app_bar s c rest : nobar s = true -> is_bar c = true ->
  strcspn (s ++ c :: rest) is_bar = length s.
Proof.
  unfold nobar. intros H B. induction s as [|d s IH]; cbn [app strcspn length].
  - rewrite B. reflexivity.
  - cbn [existsb] in H. destruct (is_bar d); [discriminate|]. rewrite IH; auto.
Qed.

Lemma skipn_length_app {A} (a b : list A) : skipn (length a) (a ++ b) = b.
Proof. induction a; cbn; auto. Qed.
Lemma firstn_length_app {A} (a b : list A) : firstn (length a) (a ++ b) = a.
Proof. induction a; cbn; congruence. Qed.

(* the head of what strcspn stops at is a separator *)
Lemma strcspn_stop s : forall c r, skipn (strcspn s is_bar) s = c :: r -> is_bar c = true.
Proof.
  induction s as [|d s IH]; intros c r H; [discriminate|].
  cbn [strcspn] in H. destruct (is_bar d) eqn:B.
  - cbn [skipn] in H. injection H as <- _. exact B.
  - cbn [skipn] in H. eapply IH; exact H.
Qed.

Lemma skipn_length_le {A} : forall n (l : list A), length (skipn n l) <= length l.
Proof. induction n as [|n IH]; intros [|x l]; cbn [skipn length]; try lia. specialize (IH l). lia. Qed.

(* the remainder after a separator is strictly shorter: why fuel S (length name) suffices *)
Lemma rest_shorter name c r :
  skipn (strcspn name is_bar) name = c :: r ->
  length (strip_bars (c :: r)) < length name.
Proof.
  intro H. pose proof (strcspn_stop _ _ _ H) as B.
  unfold strip_bars. cbn [strspn]. rewrite B. cbn [skipn].
  pose proof (skipn_length_le (strspn r is_bar) r) as L1.
  pose proof (skipn_length_le (strcspn name is_bar) name) as L2. rewrite H in L2. cbn [length] in L2. lia.
Qed.

(* ---------- 1a. a plain name ---------- *)
Lemma array_upd_plain fuel opts nocase n f :
  nobar n = true ->
  array_upd (S fuel) opts nocase n f =
  match find_idx (fun o => name_eqb nocase (o_name o) n) opts 0 with
  | Some i => Some (upd_nth opts i f)
  | None => None
  end.
Proof.
  intro NB. cbn [array_upd]. cbv zeta. rewrite (strcspn_nobar _ NB), skipn_all. reflexivity.
Qed.

Lemma array_upd_plain_some fuel opts nocase n f i :
  nobar n = true -> find_idx (fun o => name_eqb nocase (o_name o) n) opts 0 = Some i ->
  array_upd (S fuel) opts nocase n f = Some (upd_nth opts i f).
Proof. intros NB F. rewrite array_upd_plain by exact NB. rewrite F. reflexivity. Qed.

Lemma array_upd_plain_none fuel opts nocase n f :
  nobar n = true -> forallb (fun o => negb (name_eqb nocase (o_name o) n)) opts = true ->
  array_upd (S fuel) opts nocase n f = None.
Proof.
  intros NB F. rewrite array_upd_plain by exact NB.
  apply (find_idx_none (fun o => name_eqb nocase (o_name o) n) opts 0) in F. rewrite F. reflexivity.
Qed.

(* ---------- the shape of one step on  seg | rest ---------- *)
Lemma array_upd_step fuel opts nocase s c rest f :
  nobar s = true -> s <> [] -> is_bar c = true ->
  array_upd (S fuel) opts nocase (s ++ c :: rest) f =
  match find_idx (fun o => name_eqb nocase (o_name o) s) opts 0 with
  | None => None
  | Some k =>
      match nth_error opts k with
      | None => None
      | Some so =>
          if negb (kind_eqb (o_kind so) KSec) then None
          else
            match (if oflag so CFGF_MULTI then None else nth_sec so 0) with
            | Some inst =>
                match array_upd fuel (c_opts inst) nocase (strip_bars rest) f with
                | Some opts' =>
                    Some (upd_nth opts k (fun o => set_vals o (upd_nth (o_vals o) 0 (fun _ => VSec (Some (set_opts inst opts'))))))
                | None => None
                end
            | None =>
                match array_upd fuel (o_sub so) nocase (strip_bars rest) f with
                | Some sub' => Some (upd_nth opts k (fun o => set_sub o sub'))
                | None => None
                end
            end
      end
  end.
Proof.
  intros NB NE B. cbn [array_upd]. cbv zeta.
  rewrite (strcspn_app_bar _ _ _ NB B), skipn_length_app, firstn_length_app.
  cbn [strspn]. rewrite B. cbn [skipn]. fold (strip_bars rest).
  destruct s as [|d s]; [congruence|]. cbn [length Nat.eqb]. reflexivity.
Qed.

(* ---------- 1b. through a single section that holds an instance ---------- *)
Lemma array_upd_single fuel opts nocase s rest f k so inst :
  nobar s = true -> s <> [] ->
  find_idx (fun o => name_eqb nocase (o_name o) s) opts 0 = Some k ->
  nth_error opts k = Some so -> o_kind so = KSec ->
  oflag so CFGF_MULTI = false -> nth_sec so 0 = Some inst ->
  array_upd (S fuel) opts nocase (s ++ x7c :: rest) f =
  match array_upd fuel (c_opts inst) nocase (strip_bars rest) f with
  | Some opts' =>
      Some (upd_nth opts k (fun o => set_vals o (upd_nth (o_vals o) 0 (fun _ => VSec (Some (set_opts inst opts'))))))
  | None => None
  end.
Proof.
  intros NB NE F N K M I. rewrite array_upd_step by (auto using is_bar_x7c).
  rewrite F, N, K, M, I. reflexivity.
Qed.

(* ---------- 1c. through a multi section, or a single section without instance: the template ---------- *)
Lemma array_upd_template fuel opts nocase s rest f k so :
  nobar s = true -> s <> [] ->
  find_idx (fun o => name_eqb nocase (o_name o) s) opts 0 = Some k ->
  nth_error opts k = Some so -> o_kind so = KSec ->
  (oflag so CFGF_MULTI = true \/ nth_sec so 0 = None) ->
  array_upd (S fuel) opts nocase (s ++ x7c :: rest) f =
  match array_upd fuel (o_sub so) nocase (strip_bars rest) f with
  | Some sub' => Some (upd_nth opts k (fun o => set_sub o sub'))
  | None => None
  end.
Proof.
  intros NB NE F N K M. rewrite array_upd_step by (auto using is_bar_x7c).
  rewrite F, N, K. cbn [kind_eqb negb].
  destruct M as [M|M]; [rewrite M; reflexivity|].
  destruct (oflag so CFGF_MULTI); [reflexivity|rewrite M; reflexivity].
Qed.

(* the live values of the section option are untouched by a template update *)
Lemma o_vals_set_sub o s : o_vals (set_sub o s) = o_vals o. Proof. destruct o; reflexivity. Qed.
Lemma o_sub_set_sub o s : o_sub (set_sub o s) = s. Proof. destruct o; reflexivity. Qed.
Lemma o_name_set_sub o s : o_name (set_sub o s) = o_name o. Proof. destruct o; reflexivity. Qed.
Lemma o_kind_set_sub o s : o_kind (set_sub o s) = o_kind o. Proof. destruct o; reflexivity. Qed.
Lemma o_flags_set_sub o s : o_flags (set_sub o s) = o_flags o. Proof. destruct o; reflexivity. Qed.
Lemma o_def_set_sub o s : o_def (set_sub o s) = o_def o. Proof. destruct o; reflexivity. Qed.
Lemma o_comment_set_sub o s : o_comment (set_sub o s) = o_comment o. Proof. destruct o; reflexivity. Qed.
Lemma o_cbs_set_sub o s : o_cbs (set_sub o s) = o_cbs o. Proof. destruct o; reflexivity. Qed.
Lemma set_sub_same o : set_sub o (o_sub o) = o. Proof. destruct o; reflexivity. Qed.
Lemma set_sub_set_sub o a b : set_sub (set_sub o a) b = set_sub o b. Proof. destruct o; reflexivity. Qed.

(* ---------- the failures of a section step ---------- *)
Lemma array_upd_no_section fuel opts nocase s rest f :
  nobar s = true -> s <> [] ->
  forallb (fun o => negb (name_eqb nocase (o_name o) s)) opts = true ->
  array_upd (S fuel) opts nocase (s ++ x7c :: rest) f = None.
Proof.
  intros NB NE F. rewrite array_upd_step by (auto using is_bar_x7c).
  apply (find_idx_none (fun o => name_eqb nocase (o_name o) s) opts 0) in F. rewrite F. reflexivity.
Qed.

Lemma array_upd_not_a_section fuel opts nocase s rest f k so :
  nobar s = true -> s <> [] ->
  find_idx (fun o => name_eqb nocase (o_name o) s) opts 0 = Some k ->
  nth_error opts k = Some so -> o_kind so <> KSec ->
  array_upd (S fuel) opts nocase (s ++ x7c :: rest) f = None.
Proof.
  intros NB NE F N K. rewrite array_upd_step by (auto using is_bar_x7c).
  rewrite F, N. destruct (o_kind so); try reflexivity. congruence.
Qed.

(* ---------- 1d. a segment of length 0: leading or repeated separators are skipped ---------- *)
Lemma array_upd_leading_bar fuel opts nocase rest f :
  array_upd (S fuel) opts nocase (x7c :: rest) f = array_upd fuel opts nocase (strip_bars rest) f.
Proof. reflexivity. Qed.

Lemma strip_bars_bar rest : strip_bars (x7c :: rest) = strip_bars rest.
Proof. reflexivity. Qed.

Lemma strip_bars_nobar_head c rest : is_bar c = false -> strip_bars (c :: rest) = c :: rest.
Proof. intro H. unfold strip_bars. cbn [strspn]. rewrite H. reflexivity. Qed.

Lemma strip_bars_nil : strip_bars [] = []. Proof. reflexivity. Qed.

Lemma strip_bars_nobar s : nobar s = true -> strip_bars s = s.
Proof.
  destruct s as [|c s]; [reflexivity|]. unfold nobar. cbn [existsb].
  destruct (is_bar c) eqn:B; [discriminate|]. intros _. apply strip_bars_nobar_head. exact B.
Qed.

(* ================================================================== *)
(* 2. the general statement                                             *)
(* ================================================================== *)

(* the place a path designates: an option of this list, or one inside instance 0 of the single section
   at index k, or one inside the template of the section option at index k *)
Inductive loc :=
| LHere (i : nat)
| LInst (k : nat) (l : loc)
| LTmpl (k : nat) (l : loc).

Fixpoint upd_loc (opts : list opt) (l : loc) (f : opt -> opt) : list opt :=
  match l with
  | LHere i => upd_nth opts i f
  | LInst k l' =>
      upd_nth opts k (fun o => set_vals o (upd_nth (o_vals o) 0 (fun v =>
        match v with VSec (Some s) => VSec (Some (set_opts s (upd_loc (c_opts s) l' f))) | x => x end)))
  | LTmpl k l' => upd_nth opts k (fun o => set_sub o (upd_loc (o_sub o) l' f))
  end.

Fixpoint get_loc (opts : list opt) (l : loc) : option opt :=
  match l with
  | LHere i => nth_error opts i
  | LInst k l' =>
      match nth_error opts k with
      | Some o => match nth_sec o 0 with Some s => get_loc (c_opts s) l' | None => None end
      | None => None
      end
  | LTmpl k l' =>
      match nth_error opts k with Some o => get_loc (o_sub o) l' | None => None end
  end.

(* cfg_getopt_array as a pure lookup: it does not depend on what is done with the result *)
Fixpoint resolve (fuel : nat) (opts : list opt) (nocase : bool) (name : str) : option loc :=
  match fuel with
  | O => None
  | S fuel' =>
    let len := strcspn name is_bar in
    match skipn len name with
    | [] => option_map LHere (find_idx (fun o => name_eqb nocase (o_name o) name) opts 0)
    | _ :: _ =>
        let rest := strip_bars (skipn len name) in
        if Nat.eqb len 0 then resolve fuel' opts nocase rest
        else
          match find_idx (fun o => name_eqb nocase (o_name o) (firstn len name)) opts 0 with
          | None => None
          | Some k =>
              match nth_error opts k with
              | None => None
              | Some so =>
                  if negb (kind_eqb (o_kind so) KSec) then None
                  else
                    match (if oflag so CFGF_MULTI then None else nth_sec so 0) with
                    | Some inst => option_map (LInst k) (resolve fuel' (c_opts inst) nocase rest)
                    | None => option_map (LTmpl k) (resolve fuel' (o_sub so) nocase rest)
                    end
              end
          end
    end
  end.

Lemma upd_nth_here {A} (l : list A) k x (f g : A -> A) :
  nth_error l k = Some x -> f x = g x -> upd_nth l k f = upd_nth l k g.
Proof. intros N E. apply upd_nth_ext. intros y Hy. congruence. Qed.

Theorem array_upd_resolve : forall fuel opts nocase name f,
  array_upd fuel opts nocase name f =
  option_map (fun l => upd_loc opts l f) (resolve fuel opts nocase name).
Proof.
  induction fuel as [|fuel IH]; intros opts nocase name f; [reflexivity|].
  cbn [array_upd resolve]. cbv zeta.
  destruct (skipn (strcspn name is_bar) name) as [|c r] eqn:SK.
  - destruct (find_idx _ opts 0); reflexivity.
  - fold (strip_bars (c :: r)).
    destruct (Nat.eqb (strcspn name is_bar) 0); [apply IH|].
    destruct (find_idx _ opts 0) as [k|]; [|reflexivity].
    destruct (nth_error opts k) as [so|] eqn:N; [|reflexivity].
    destruct (negb (kind_eqb (o_kind so) KSec)); [reflexivity|].
    destruct (if oflag so CFGF_MULTI then None else nth_sec so 0) as [inst|] eqn:I.
    + rewrite IH. destruct (resolve fuel (c_opts inst) nocase (strip_bars (c :: r))) as [l|]; [|reflexivity].
      cbn [option_map upd_loc]. f_equal.
      apply (upd_nth_here _ _ so); [exact N|]. f_equal.
      destruct (oflag so CFGF_MULTI); [discriminate|].
      unfold nth_sec in I. destruct (o_vals so) as [|v vs]; [discriminate|].
      cbn [nth_error] in I. destruct v as [| | | |[s|]|]; try discriminate.
      injection I as ->. reflexivity.
    + rewrite IH. destruct (resolve fuel (o_sub so) nocase (strip_bars (c :: r))) as [l|]; [|reflexivity].
      cbn [option_map upd_loc]. f_equal.
      apply (upd_nth_here _ _ so); [exact N|]. destruct so; reflexivity.
Qed.

(* the designated place does not depend on the update: two updates succeed or fail together *)
Corollary array_upd_defined fuel opts nocase name f g :
  array_upd fuel opts nocase name f = None <-> array_upd fuel opts nocase name g = None.
Proof. rewrite !array_upd_resolve. destruct (resolve fuel opts nocase name); cbn; split; congruence. Qed.

(* more fuel than the length of the path never changes the answer: the model never runs out *)
Lemma resolve_fuel nocase : forall fuel1 fuel2 name opts,
  length name < fuel1 -> length name < fuel2 ->
  resolve fuel1 opts nocase name = resolve fuel2 opts nocase name.
Proof.
  induction fuel1 as [|fuel1 IH]; intros fuel2 name opts H1 H2; [lia|].
  destruct fuel2 as [|fuel2]; [lia|].
  cbn [resolve]. cbv zeta.
  destruct (skipn (strcspn name is_bar) name) as [|c r] eqn:SK; [reflexivity|].
  pose proof (rest_shorter _ _ _ SK) as L.
  assert (E : forall o, resolve fuel1 o nocase (strip_bars (c :: r)) = resolve fuel2 o nocase (strip_bars (c :: r))).
  { intro o. apply IH; lia. }
  rewrite E. destruct (Nat.eqb (strcspn name is_bar) 0); [reflexivity|].
  destruct (find_idx _ opts 0) as [k|]; [|reflexivity].
  destruct (nth_error opts k) as [so|]; [|reflexivity].
  destruct (negb (kind_eqb (o_kind so) KSec)); [reflexivity|].
  destruct (if oflag so CFGF_MULTI then None else nth_sec so 0) as [inst|]; rewrite E; reflexivity.
Qed.

Theorem array_upd_fuel fuel opts nocase name f :
  length name < fuel ->
  array_upd fuel opts nocase name f = array_upd (S (length name)) opts nocase name f.
Proof. intro H. rewrite !array_upd_resolve. rewrite (resolve_fuel nocase fuel (S (length name))) by lia. reflexivity. Qed.

(* the fuel-free lookup *)
Definition resolve_path (opts : list opt) (nocase : bool) (name : str) : option loc :=
  resolve (S (length name)) opts nocase name.

Lemma resolve_path_fuel fuel opts nocase name :
  length name < fuel -> resolve fuel opts nocase name = resolve_path opts nocase name.
Proof. intro H. apply resolve_fuel; [exact H|lia]. Qed.

(* one step of the fuel-free lookup *)
Lemma resolve_path_plain opts nocase n :
  nobar n = true ->
  resolve_path opts nocase n = option_map LHere (find_idx (fun o => name_eqb nocase (o_name o) n) opts 0).
Proof. intro NB. unfold resolve_path. cbn [resolve]. cbv zeta. rewrite (strcspn_nobar _ NB), skipn_all. reflexivity. Qed.

Lemma resolve_path_leading_bar opts nocase rest :
  resolve_path opts nocase (x7c :: rest) = resolve_path opts nocase (strip_bars rest).
Proof.
  unfold resolve_path at 1.
  change (resolve (S (length (x7c :: rest))) opts nocase (x7c :: rest))
    with (resolve (length (x7c :: rest)) opts nocase (strip_bars rest)).
  apply resolve_path_fuel. cbn [length]. unfold strip_bars. pose proof (skipn_length_le (strspn rest is_bar) rest). lia.
Qed.

Lemma resolve_path_step opts nocase s rest :
  nobar s = true -> s <> [] ->
  resolve_path opts nocase (s ++ x7c :: rest) =
  match find_idx (fun o => name_eqb nocase (o_name o) s) opts 0 with
  | None => None
  | Some k =>
      match nth_error opts k with
      | None => None
      | Some so =>
          if negb (kind_eqb (o_kind so) KSec) then None
          else match (if oflag so CFGF_MULTI then None else nth_sec so 0) with
               | Some inst => option_map (LInst k) (resolve_path (c_opts inst) nocase (strip_bars rest))
               | None => option_map (LTmpl k) (resolve_path (o_sub so) nocase (strip_bars rest))
               end
      end
  end.
Proof.
  intros NB NE. unfold resolve_path at 1. cbn [resolve]. cbv zeta.
  rewrite (strcspn_app_bar _ _ _ NB is_bar_x7c), skipn_length_app, firstn_length_app, strip_bars_bar.
  assert (L : length (strip_bars rest) < length (s ++ x7c :: rest)).
  { rewrite app_length. cbn [length]. unfold strip_bars. pose proof (skipn_length_le (strspn rest is_bar) rest). lia. }
  assert (Z : Nat.eqb (length s) 0 = false) by (destruct s; [congruence|reflexivity]).
  rewrite Z.
  destruct (find_idx _ opts 0) as [k|]; [|reflexivity].
  destruct (nth_error opts k) as [so|]; [|reflexivity].
  destruct (negb (kind_eqb (o_kind so) KSec)); [reflexivity|].
  destruct (if oflag so CFGF_MULTI then None else nth_sec so 0) as [inst|];
    rewrite (resolve_path_fuel _ _ _ _ L); reflexivity.
Qed.

(* ---------- reading the designated place ---------- *)
Lemma nth_sec_set_vals0 o g :
  nth_sec (set_vals o (upd_nth (o_vals o) 0 g)) 0 =
  match nth_error (o_vals o) 0 with Some v => match g v with VSec (Some s) => Some s | _ => None end | None => None end.
Proof.
  unfold nth_sec. rewrite o_vals_set_vals. destruct (o_vals o) as [|v vs]; reflexivity.
Qed.

Theorem get_upd_loc f : forall l opts, get_loc (upd_loc opts l f) l = option_map f (get_loc opts l).
Proof.
  induction l as [i|k l IH|k l IH]; intros opts; cbn [get_loc upd_loc].
  - apply nth_upd_nth_eq.
  - rewrite nth_upd_nth_eq. destruct (nth_error opts k) as [o|]; [|reflexivity]. cbn [option_map].
    rewrite nth_sec_set_vals0. unfold nth_sec.
    destruct (nth_error (o_vals o) 0) as [v|]; [|reflexivity].
    destruct v as [| | | |[s|]|]; try reflexivity.
    rewrite c_opts_set_opts. apply IH.
  - rewrite nth_upd_nth_eq. destruct (nth_error opts k) as [o|]; [|reflexivity]. cbn [option_map].
    rewrite o_sub_set_sub. apply IH.
Qed.

(* the lookup designates an existing option *)
Lemma resolve_get nocase : forall fuel opts name l,
  resolve fuel opts nocase name = Some l -> exists o, get_loc opts l = Some o.
Proof.
  induction fuel as [|fuel IH]; intros opts name l H; [discriminate|].
  cbn [resolve] in H. cbv zeta in H.
  destruct (skipn (strcspn name is_bar) name) as [|c r].
  - destruct (find_idx _ opts 0) as [i|] eqn:F; [|discriminate]. injection H as <-.
    apply find_idx_first in F. destruct F as [[x [N _]] _]. exists x. exact N.
  - destruct (Nat.eqb (strcspn name is_bar) 0); [eapply IH; exact H|].
    destruct (find_idx _ opts 0) as [k|]; [|discriminate].
    destruct (nth_error opts k) as [so|] eqn:N; [|discriminate].
    destruct (negb (kind_eqb (o_kind so) KSec)); [discriminate|].
    destruct (oflag so CFGF_MULTI) eqn:M.
    + destruct (resolve fuel (o_sub so) nocase _) as [l'|] eqn:R; [|discriminate]. injection H as <-.
      cbn [get_loc]. rewrite N. eapply IH; exact R.
    + destruct (nth_sec so 0) as [inst|] eqn:I.
      * destruct (resolve fuel (c_opts inst) nocase _) as [l'|] eqn:R; [|discriminate]. injection H as <-.
        cbn [get_loc]. rewrite N, I. eapply IH; exact R.
      * destruct (resolve fuel (o_sub so) nocase _) as [l'|] eqn:R; [|discriminate]. injection H as <-.
        cbn [get_loc]. rewrite N. eapply IH; exact R.
Qed.

(* ---------- the frame: nothing but the designated option changes ---------- *)
Lemma upd_loc_length f : forall l opts, length (upd_loc opts l f) = length opts.
Proof. destruct l; intros; cbn [upd_loc]; apply upd_nth_length. Qed.

Definition loc_head (l : loc) : nat := match l with LHere i => i | LInst k _ => k | LTmpl k _ => k end.

(* every other option of the list is untouched *)
Lemma upd_loc_other f l opts j : j <> loc_head l -> nth_error (upd_loc opts l f) j = nth_error opts j.
Proof. intro D. destruct l; cbn [upd_loc loc_head] in *; apply nth_upd_nth_neq; congruence. Qed.

(* a place in the template leaves the live values of its section option alone; a place in an instance
   leaves the template alone *)
Lemma upd_loc_tmpl_vals f k l opts o :
  nth_error opts k = Some o ->
  exists o', nth_error (upd_loc opts (LTmpl k l) f) k = Some o' /\
             o_vals o' = o_vals o /\ o_sub o' = upd_loc (o_sub o) l f /\
             o_name o' = o_name o /\ o_kind o' = o_kind o /\ o_flags o' = o_flags o /\
             o_def o' = o_def o /\ o_comment o' = o_comment o /\ o_cbs o' = o_cbs o.
Proof.
  intro N. cbn [upd_loc]. rewrite nth_upd_nth_eq, N. cbn [option_map]. eexists. split; [reflexivity|].
  destruct o; cbn. repeat split; reflexivity.
Qed.

Lemma upd_loc_inst_sub f k l opts o :
  nth_error opts k = Some o ->
  exists o', nth_error (upd_loc opts (LInst k l) f) k = Some o' /\
             o_sub o' = o_sub o /\
             o_name o' = o_name o /\ o_kind o' = o_kind o /\ o_flags o' = o_flags o /\
             o_def o' = o_def o /\ o_comment o' = o_comment o /\ o_cbs o' = o_cbs o /\
             (forall v, v <> 0 -> nth_error (o_vals o') v = nth_error (o_vals o) v).
Proof.
  intro N. cbn [upd_loc]. rewrite nth_upd_nth_eq, N. cbn [option_map]. eexists. split; [reflexivity|].
  destruct o; cbn [set_vals o_sub o_name o_kind o_flags o_def o_comment o_cbs o_vals]. repeat split; try reflexivity.
  intros v D. apply nth_upd_nth_neq. congruence.
Qed.

(* an update that is the identity on the designated option changes nothing *)
Lemma upd_loc_id f : forall l opts, (forall o, get_loc opts l = Some o -> f o = o) -> upd_loc opts l f = opts.
Proof.
  induction l as [i|k l IH|k l IH]; intros opts H; cbn [upd_loc get_loc] in *.
  - apply upd_nth_id. exact H.
  - apply upd_nth_id. intros o N. rewrite N in H.
    rewrite (upd_nth_id _ (o_vals o)); [destruct o; reflexivity|].
    intros v Nv. destruct v as [| | | |[s|]|]; try reflexivity.
    rewrite IH; [destruct s; reflexivity|]. intros u G. apply H. unfold nth_sec. rewrite Nv. exact G.
  - apply upd_nth_id. intros o N. rewrite N in H. rewrite IH by exact H. apply set_sub_same.
Qed.

(* two updates at the same place compose; at the place itself *)
Lemma upd_loc_upd_loc f g : forall l opts,
  upd_loc (upd_loc opts l f) l g = upd_loc opts l (fun o => g (f o)).
Proof.
  induction l as [i|k l IH|k l IH]; intros opts; cbn [upd_loc].
  - apply upd_nth_upd_nth.
  - rewrite upd_nth_upd_nth. apply upd_nth_ext. intros o _.
    rewrite o_vals_set_vals, upd_nth_upd_nth. destruct o as [n kd fl vals sub d cm cb]. cbn [set_vals o_vals]. f_equal.
    apply upd_nth_ext. intros v _. destruct v as [| | | |[s|]|]; try reflexivity.
    rewrite c_opts_set_opts, IH. destruct s; reflexivity.
  - rewrite upd_nth_upd_nth. apply upd_nth_ext. intros o _.
    rewrite o_sub_set_sub, IH. apply set_sub_set_sub.
Qed.

(* ================================================================== *)
(* 3. declarations survive the parser                                   *)
(* ================================================================== *)

(* what an option is declared as: everything but its flag word, values and annotation *)
Definition decl (o : opt) : str * kind * list opt * defv * cbset :=
  (o_name o, o_kind o, o_sub o, o_def o, o_cbs o).

Definition dm (c : cfg) : list (str * kind * list opt * defv * cbset) := map decl (c_opts c).

(* the context still starts with the declarations d (free-form keys may have been appended) *)
Definition DE (d : list (str * kind * list opt * defv * cbset)) (c : cfg) : Prop :=
  exists extra, dm c = d ++ extra.

Lemma decl_frame o o' : frame o o' -> decl o' = decl o.
Proof. intros []. unfold decl. congruence. Qed.

Lemma decl_set_vals o v : decl (set_vals o v) = decl o. Proof. destruct o; reflexivity. Qed.
Lemma decl_set_flags o v : decl (set_flags o v) = decl o. Proof. destruct o; reflexivity. Qed.
Lemma decl_set_comment o v : decl (set_comment o v) = decl o. Proof. destruct o; reflexivity. Qed.
Lemma decl_setf o m : decl (o_setf o m) = decl o. Proof. apply decl_set_flags. Qed.
Lemma decl_clrf o m : decl (o_clrf o m) = decl o. Proof. apply decl_set_flags. Qed.
Lemma decl_opt_setcomment o cm : decl (opt_setcomment o cm) = decl o.
Proof. unfold opt_setcomment. rewrite !decl_setf. apply decl_set_comment. Qed.
Lemma decl_free_value o : decl (fst (free_value o)) = decl o.
Proof. apply decl_frame. apply frame_free_value. Qed.
Lemma decl_addval o : decl (addval o) = decl o.
Proof. apply decl_frame. apply frame_addval. Qed.
Lemma decl_opt_getval o index o1 idx fr : opt_getval o index = Some (o1, idx, fr) -> decl o1 = decl o.
Proof.
  unfold opt_getval. destruct (negb (index =? 0)%N && _ && _); [discriminate|].
  destruct (oflag o CFGF_RESET).
  - pose proof (decl_free_value o) as F. destruct (free_value o) as [x f]. unfold fst in F. cbv zeta.
    destruct (_ <=? index)%N; intro H; injection H as <- _ _; rewrite ?decl_addval, decl_clrf; exact F.
  - cbv zeta. destruct (_ <=? index)%N; intro H; injection H as <- _ _; rewrite ?decl_addval; reflexivity.
Qed.

Lemma dm_set_opts c l : dm (set_opts c l) = map decl l. Proof. destruct c; reflexivity. Qed.
Lemma dm_set_line c x : dm (set_line c x) = dm c. Proof. destruct c; reflexivity. Qed.
Lemma dm_set_file c x : dm (set_file c x) = dm c. Proof. destruct c; reflexivity. Qed.
Lemma dm_set_err c x : dm (set_err c x) = dm c. Proof. destruct c; reflexivity. Qed.
Lemma dm_set_pos c x : dm (set_pos c x) = dm c. Proof. destruct c; reflexivity. Qed.

Lemma map_upd_nth_inv {A B} (h : A -> B) (f : A -> A) : forall (l : list A) i,
  (forall x, nth_error l i = Some x -> h (f x) = h x) -> map h (upd_nth l i f) = map h l.
Proof.
  induction l as [|x l IH]; intros i H; [reflexivity|].
  destruct i as [|i]; cbn [upd_nth map].
  - rewrite (H x) by reflexivity. reflexivity.
  - rewrite (IH i) by (intros y Hy; apply H; exact Hy). reflexivity.
Qed.

Lemma dm_upd_opt c r f :
  (forall o, get_opt c r = Some o -> decl (f o) = decl o) -> dm (upd_opt c r f) = dm c.
Proof.
  destruct r as [[|[i v] st] j]; intro H; unfold upd_opt; cbn [fst snd upd_sec]; rewrite dm_set_opts.
  - apply map_upd_nth_inv. exact H.
  - apply map_upd_nth_inv. intros x _. apply decl_set_vals.
Qed.

Lemma dm_put_opt c r o o' : get_opt c r = Some o -> decl o' = decl o -> dm (put_opt c r o') = dm c.
Proof. intros G E. apply dm_upd_opt. intros x Hx. congruence. Qed.

Lemma DE_same d c c' : dm c' = dm c -> DE d c -> DE d c'.
Proof. intros E [x H]. exists x. congruence. Qed.

Lemma DE_set_line d c x : DE d c -> DE d (set_line c x). Proof. apply DE_same, dm_set_line. Qed.
Lemma DE_set_file d c x : DE d c -> DE d (set_file c x). Proof. apply DE_same, dm_set_file. Qed.
Lemma DE_set_err d c x : DE d c -> DE d (set_err c x). Proof. apply DE_same, dm_set_err. Qed.
Lemma DE_set_pos d c x : DE d c -> DE d (set_pos c x). Proof. apply DE_same, dm_set_pos. Qed.
Lemma DE_put d c r o o' : DE d c -> get_opt c r = Some o -> decl o' = decl o -> DE d (put_opt c r o').
Proof. intros D G E. eapply DE_same; [|exact D]. eapply dm_put_opt; eassumption. Qed.
Lemma DE_upd d c r f : (forall o, decl (f o) = decl o) -> DE d c -> DE d (upd_opt c r f).
Proof. intros E D. eapply DE_same; [|exact D]. apply dm_upd_opt. intros o _. apply E. Qed.

Lemma DE_hd d w c r : DE d c -> DE d (snd (handle_deprecated w c r)).
Proof.
  intro D. unfold handle_deprecated. destruct (get_opt c r) as [o|] eqn:G; [|exact D].
  destruct (oflag o CFGF_DEPRECATED); [|exact D].
  destruct (oflag o CFGF_DROP); [|exact D].
  pose proof (decl_free_value o) as F. destruct (free_value o) as [o1 fr]. unfold fst in F. unfold snd.
  eapply DE_put; eassumption.
Qed.

Lemma DE_li d w c a : DE d c -> DE d (snd (fst (lexer_include w c a))).
Proof.
  intro D. unfold lexer_include. destruct (Nat.leb _ _); [exact D|].
  destruct (match w_path w with [] => _ | _ => _ end); [|exact D].
  destruct (open_input _ _); [|exact D].
  unfold fst, snd. apply DE_set_line, DE_set_file, D.
Qed.

Lemma DE_nt d fl w c : DE d c -> DE d (snd (fst (fst (next_token fl w c)))).
Proof. intro D. unfold next_token. cbv zeta. unfold fst, snd. apply DE_set_pos, D. Qed.

Lemma DE_addopt d c k : DE d c -> DE d (fst (addopt c k)).
Proof.
  intros [x H]. unfold addopt, fst. eexists. rewrite dm_set_opts, map_app. unfold dm in H. rewrite H, <- app_assoc. reflexivity.
Qed.

Ltac dcl :=
  repeat first [rewrite decl_setf | rewrite decl_clrf | rewrite decl_set_vals | rewrite decl_set_comment
               | rewrite decl_opt_setcomment | rewrite decl_set_flags | rewrite decl_addval];
  first [reflexivity | assumption | congruence].

Ltac getc := first [eassumption | eapply get_opt_put_same; getc].

Ltac dec :=
  first
  [ eassumption
  | apply DE_set_line; dec
  | apply DE_set_file; dec
  | apply DE_set_err; dec
  | apply DE_set_pos; dec
  | eapply DE_put; [dec | getc | dcl] ].

Section DeclBodies.
Variable so : pw -> cfg -> opt -> option str -> pw * opt * option nat.
Variable pi : pw -> cfg -> nat -> pst -> pw * cfg * prc.
Hypothesis Hso : forall w c o t, decl (snd (fst (so w c o t))) = decl o.
Hypothesis Hpi : forall d w c l p, DE d c -> DE d (snd (fst (pi w c l p))).

Lemma id_loop_DE d todo : forall i w c, DE d c -> DE d (snd (id_loop so pi todo i w c)).
Proof.
  induction todo as [|x todo IH]; intros i w c D; [exact D|].
  cbn [id_loop]. fold (id_loop so pi).
  destruct (nth_error (c_opts c) i) as [o|] eqn:N; [|exact D].
  cbv zeta.
  match goal with |- context [if ?dd then add_diags w _ else w] =>
    generalize (if dd then add_diags w (cfg_diag c "duplicate option '%s' not allowed") else w) end.
  intro w1.
  assert (G : get_opt c ([], i) = Some o) by exact N.
  destruct (oflag o CFGF_NODEFAULT); [apply IH; exact D|].
  destruct (negb (kind_eqb (o_kind o) KSec)).
  - assert (D1 : DE d (put_opt c ([], i) (o_setf o CFGF_DEFINIT))) by dec.
    destruct (oflag (o_setf o CFGF_DEFINIT) CFGF_LIST || _).
    + destruct (d_parsed (o_def (o_setf o CFGF_DEFINIT))) as [[|b buf]|].
      * apply IH. exact D1.
      * match goal with |- context [pi ?a ?b ?cc ?dd] =>
          pose proof (Hpi d a b cc dd D1) as H; destruct (pi a b cc dd) as [[w2 c2] rc] end.
        unfold fst, snd in H.
        destruct rc; try exact H; apply IH; apply DE_upd; try exact H; intro y; dcl.
      * apply IH. exact D1.
    + apply IH. eapply DE_put; [exact D|exact G|].
      rewrite decl_clrf, decl_setf.
      assert (S1 : forall v, decl (match opt_getval (o_setf o CFGF_DEFINIT) 0 with
                                   | Some (o2, idx, _) => o_setf (set_vals o2 (upd_nth (o_vals o2) idx (fun _ => v))) CFGF_MODIFIED
                                   | None => o_setf o CFGF_DEFINIT end) = decl o).
      { intro v. destruct (opt_getval (o_setf o CFGF_DEFINIT) 0) as [[[o2 idx] fr]|] eqn:GV; [|dcl].
        apply decl_opt_getval in GV. rewrite decl_setf, decl_set_vals, GV. dcl. }
      destruct (o_kind (o_setf o CFGF_DEFINIT)); try apply S1; dcl.
  - destruct (negb (oflag o CFGF_MULTI)); [|apply IH; exact D].
    pose proof (Hso w1 c o None) as H.
    destruct (so w1 c o None) as [[w2 o1] res]. unfold fst, snd in H. apply IH. dec.
Qed.

Ltac dleaf :=
  lazymatch goal with
  | |- DE _ (snd (fst (pi _ _ _ _))) => apply Hpi; dec
  | |- DE _ (snd (fst (_, _, _))) => unfold fst, snd; dec
  end.

Ltac dstep :=
  first
  [ dleaf
  | match goal with
    | |- context [handle_deprecated ?w ?c ?r] =>
        lazymatch goal with |- DE ?d _ =>
          let H := fresh "HD" in
          assert (H : DE d (snd (handle_deprecated w c r))) by (apply DE_hd; dec);
          destruct (handle_deprecated w c r) as [? ?]; unfold snd in H end
    | |- context [lexer_include ?w ?c ?a] =>
        lazymatch goal with |- DE ?d _ =>
          let H := fresh "LI" in
          assert (H : DE d (snd (fst (lexer_include w c a)))) by (apply DE_li; dec);
          destruct (lexer_include w c a) as [[? ?] ?]; unfold fst, snd in H end
    | |- context [addopt ?c ?k] =>
        lazymatch goal with |- DE ?d _ =>
          let H := fresh "AO" in
          assert (H : DE d (fst (addopt c k))) by (apply DE_addopt; dec);
          destruct (addopt c k) as [? ?]; unfold fst in H end
    | |- context [so ?w ?c ?o ?t] =>
        let H := fresh "SO" in
        pose proof (Hso w c o t) as H;
        destruct (so w c o t) as [[? ?] ?]; unfold fst, snd in H
    | |- context [free_value ?o] =>
        let H := fresh "FV" in
        pose proof (decl_free_value o) as H;
        destruct (free_value o) as [? ?]; unfold fst in H
    end
  | match goal with
    | |- context [match ?x with _ => _ end] => destruct x eqn:?
    end ].

Lemma pi_body_DE d fl w c level p : DE d c -> DE d (snd (fst (pi_body so pi fl w c level p))).
Proof.
  intro D. unfold pi_body.
  pose proof (DE_nt d fl w c D) as NT.
  destruct (next_token fl w c) as [[[w1 c1] t] yylval]. unfold fst, snd in NT.
  cbv zeta. clear D.
  destruct (s_opt p) as [r0|].
  all: repeat dstep.
Qed.
End DeclBodies.

Lemma decl_setopt sd fuel w c o t : decl (snd (fst (setopt sd fuel w c o t))) = decl o.
Proof. apply decl_frame, setopt_frame. Qed.

(* cfg_init_defaults and cfg_parse_internal keep the declarations of their context, in place *)
Lemma init_parse_DE sd fuel :
  (forall d w c, DE d c -> DE d (snd (init_defaults sd fuel w c))) /\
  (forall d w c l p, DE d c -> DE d (snd (fst (parse_internal sd fuel w c l p)))).
Proof.
  induction fuel as [|fuel [IHi IHp]].
  - split; intros; assumption.
  - split.
    + intros d w c D. rewrite init_defaults_S. apply id_loop_DE; [intros; apply decl_setopt|exact IHp|exact D].
    + intros d w c l p D. rewrite parse_internal_S. apply pi_body_DE; [intros; apply decl_setopt|exact IHp|exact D].
Qed.

Lemma DE_refl c : DE (dm c) c. Proof. exists []. symmetry. apply app_nil_r. Qed.

Lemma DE_nth d c j x :
  DE d c -> nth_error d j = Some x -> exists u', nth_error (c_opts c) j = Some u' /\ decl u' = x.
Proof.
  intros [extra H] N.
  assert (N2 : nth_error (dm c) j = Some x).
  { rewrite H, nth_error_app1; [exact N|]. apply nth_error_Some. congruence. }
  unfold dm in N2. rewrite nth_error_map in N2.
  destruct (nth_error (c_opts c) j) as [u'|]; [|discriminate]. injection N2 as N2. eauto.
Qed.

(* option j of the context is still declared the way it was *)
Theorem init_defaults_decl sd fuel w c j u :
  nth_error (c_opts c) j = Some u ->
  exists u', nth_error (c_opts (snd (init_defaults sd fuel w c))) j = Some u' /\ decl u' = decl u.
Proof.
  intro N. eapply DE_nth; [apply init_parse_DE, DE_refl|].
  unfold dm. rewrite nth_error_map, N. reflexivity.
Qed.

Theorem parse_internal_decl sd fuel w c l p j u :
  nth_error (c_opts c) j = Some u ->
  exists u', nth_error (c_opts (snd (fst (parse_internal sd fuel w c l p)))) j = Some u' /\ decl u' = decl u.
Proof.
  intro N. eapply DE_nth; [apply init_parse_DE, DE_refl|].
  unfold dm. rewrite nth_error_map, N. reflexivity.
Qed.

(* ================================================================== *)
(* 4. a new section instance carries the declarations of its template   *)
(* ================================================================== *)

(* ---------- the reference meaning: Grammar.instance / open_instance ---------- *)
Lemma instance_opts sd fl m title :
  c_opts (instance sd fl m title) = map (inst_opt sd (inst_fl fl m)) (o_sub m).
Proof. rewrite (instance_eq sd). reflexivity. Qed.

Lemma instance_nth sd fl m title j u :
  nth_error (o_sub m) j = Some u ->
  nth_error (c_opts (instance sd fl m title)) j = Some (set_vals u (inst_vals sd (inst_fl fl m) u)).
Proof. intro N. rewrite instance_opts, nth_error_map, N. reflexivity. Qed.

Theorem instance_decl sd fl m title j u :
  nth_error (o_sub m) j = Some u ->
  exists u', nth_error (c_opts (instance sd fl m title)) j = Some u' /\
             decl u' = decl u /\ o_flags u' = o_flags u /\ o_comment u' = o_comment u.
Proof.
  intro N. eexists. split; [apply instance_nth; exact N|].
  destruct u; repeat split; reflexivity.
Qed.

(* on a multi section an accepted item always opens a FRESH instance (appended, or put in the place of
   the instance of the same title); the other instances stay *)
Theorem open_instance_multi_fresh sd ctx nocase o title vals' idx :
  oflag o CFGF_MULTI = true ->
  open_instance sd ctx nocase o title = Some (vals', idx) ->
  nth_error vals' idx = Some (VSec (Some (instance sd ctx o title))) /\
  (forall v, v <> idx -> v < length (o_vals o) -> nth_error vals' v = nth_error (o_vals o) v).
Proof.
  intros M. unfold open_instance. rewrite M. cbn [negb]. cbv zeta.
  destruct (negb (oflag o CFGF_TITLE)).
  - intro H. injection H as <- <-. split; [apply nth_error_app_last|].
    intros v _ L. apply nth_error_app1. exact L.
  - destruct title as [t|]; [|discriminate].
    destruct (find_idx _ (o_vals o) 0) as [i|] eqn:F.
    + destruct (oflag o CFGF_NO_TITLE_DUPES); [discriminate|].
      intro H. injection H as <- <-.
      apply find_idx_first in F. destruct F as [[x [N _]] _].
      split; [rewrite nth_upd_nth_eq, N; reflexivity|].
      intros v D _. apply nth_upd_nth_neq. congruence.
    + intro H. injection H as <- <-. split; [apply nth_error_app_last|].
      intros v _ L. apply nth_error_app1. exact L.
Qed.

(* a single section without instance gets a fresh one as well *)
Lemma open_instance_single_fresh sd ctx nocase o title :
  oflag o CFGF_MULTI = false -> o_vals o = [] ->
  open_instance sd ctx nocase o title = Some ([VSec (Some (instance sd ctx o title))], 0).
Proof. intros M V. unfold open_instance. rewrite M, V. reflexivity. Qed.

(* ---------- the model: cfg_setopt on a section option ---------- *)
Lemma so_reset_vals_nil w o : o_vals o = [] -> o_vals (snd (so_reset w o)) = [].
Proof.
  intro H. unfold so_reset. destruct (oflag o CFGF_RESET); [|exact H].
  unfold free_value. cbv beta iota zeta. unfold snd. rewrite o_vals_clrf. apply o_vals_set_vals.
Qed.

Lemma so_body_newsec_gen sd initd w c o txt w' o' idx :
  o_kind o = KSec -> (oflag o CFGF_MULTI = true \/ o_vals o = []) ->
  so_body sd initd w c o txt = (w', o', Some idx) ->
  exists w1, nth_sec o' idx =
    Some (snd (initd w1 (Cfg (o_name o) txt
                             (if oflag o CFGF_KEYSTRVAL then setf (c_flags c) CFGF_KEYSTRVAL else c_flags c)
                             (o_sub o) (c_file c) (c_line c) (c_err c) None))).
Proof.
  intros K H. unfold so_body.
  pose proof (frame_so_reset w o) as F0. pose proof (so_reset_vals_nil w o) as V0.
  destruct (so_reset w o) as [w0 o0]. unfold snd in F0, V0.
  destruct (so_slot c w0 o0 txt) as [[[w1 o1] idx1]|] eqn:SL; [|intro X; discriminate].
  pose proof (so_slot_frame _ _ _ _ _ _ _ SL) as F1.
  pose proof (frame_trans _ _ _ F0 F1) as F.
  pose proof (so_slot_cases _ _ _ _ _ _ _ SL) as CS.
  assert (B : idx1 < length (o_vals o1)).
  { destruct CS as [[-> L]|[-> ->]]; [exact L|].
    unfold addval. rewrite o_vals_setf, o_vals_set_vals, app_length. cbn [length]. lia. }
  unfold so_conv. rewrite (fr_kind _ _ F), K. cbv beta iota zeta.
  match goal with |- context [if (oflag o1 CFGF_MULTI || ?e) then _ else _] =>
    assert (C : oflag o1 CFGF_MULTI || e = true) end.
  { destruct H as [M|E].
    - rewrite (frame_oflag _ _ CFGF_MULTI F) by reflexivity. rewrite M. reflexivity.
    - apply orb_true_iff. right. specialize (V0 E).
      destruct CS as [[-> L]|[-> ->]]; [rewrite V0 in L; cbn [length] in L; lia|].
      unfold addval. rewrite o_vals_setf, o_vals_set_vals, V0. cbn [app length nth_error].
      rewrite (fr_kind _ _ F0), K. reflexivity. }
  rewrite C.
  rewrite (fr_name _ _ F), (fr_sub _ _ F), (frame_oflag _ _ CFGF_KEYSTRVAL F) by reflexivity.
  match goal with |- context [initd ?a ?b] => intro X; exists a; revert X; destruct (initd a b) as [w3 sec'] end.
  unfold so_store, snd. intro X. injection X as _ <- <-.
  unfold nth_sec. rewrite o_vals_setf, o_vals_set_vals, nth_upd_nth_eq.
  destruct (nth_error (o_vals o1) idx1) eqn:N; [reflexivity|]. apply nth_error_None in N. lia.
Qed.

(* cfg_setopt on a multi section (or a single section without instance) that answers a slot: the slot
   holds an instance built by cfg_init_defaults from the template, so option j of the instance is declared
   like option j of the template — callbacks included *)
Theorem setopt_newsec_decl sd fuel w c o txt w' o' idx j u :
  o_kind o = KSec -> (oflag o CFGF_MULTI = true \/ o_vals o = []) ->
  setopt sd (S fuel) w c o txt = (w', o', Some idx) ->
  nth_error (o_sub o) j = Some u ->
  exists sec u', nth_sec o' idx = Some sec /\ c_title sec = txt /\
                 nth_error (c_opts sec) j = Some u' /\ decl u' = decl u.
Proof.
  intros K H E N. rewrite setopt_S in E.
  destruct (so_body_newsec_gen _ _ _ _ _ _ _ _ _ K H E) as [w1 S].
  match type of S with _ = Some (snd (init_defaults sd fuel w1 ?c0)) =>
    destruct (init_defaults_decl sd fuel w1 c0 j u N) as [u' [N' D']];
    pose proof (init_defaults_title sd fuel w1 c0) as T end.
  eexists. exists u'. split; [exact S|]. split; [exact T|]. split; assumption.
Qed.

(* ================================================================== *)
(* 5. registration                                                      *)
(* ================================================================== *)

(* cfg_getopt_array + assignment of f through the pointer, on a context *)
Definition reg (f : opt -> opt) (c : cfg) (name : str) : cfg :=
  match array_upd (S (length name)) (c_opts c) (cflag c CFGF_NOCASE) name f with
  | Some opts => set_opts c opts
  | None => c
  end.

Definition setv (k : N) (o : opt) : opt :=
  let cb := o_cbs o in
  set_cbs o {| cb_parse := cb_parse cb; cb_valid := Some k; cb_valid2 := cb_valid2 cb;
               cb_print := cb_print cb; cb_free := cb_free cb; cb_func := cb_func cb |}.
Definition setv2 (k : N) (o : opt) : opt :=
  let cb := o_cbs o in
  set_cbs o {| cb_parse := cb_parse cb; cb_valid := cb_valid cb; cb_valid2 := Some k;
               cb_print := cb_print cb; cb_free := cb_free cb; cb_func := cb_func cb |}.

Lemma cfg_set_validate_func_reg c name k : cfg_set_validate_func c name k = reg (setv k) c name.
Proof. reflexivity. Qed.
Lemma cfg_set_validate_func2_reg c name k : cfg_set_validate_func2 c name k = reg (setv2 k) c name.
Proof. reflexivity. Qed.

(* what the two assignments do to the option they reach *)
Lemma setv_fields k o :
  cb_valid (o_cbs (setv k o)) = Some k /\
  cb_parse (o_cbs (setv k o)) = cb_parse (o_cbs o) /\ cb_valid2 (o_cbs (setv k o)) = cb_valid2 (o_cbs o) /\
  cb_print (o_cbs (setv k o)) = cb_print (o_cbs o) /\ cb_free (o_cbs (setv k o)) = cb_free (o_cbs o) /\
  cb_func (o_cbs (setv k o)) = cb_func (o_cbs o) /\
  o_name (setv k o) = o_name o /\ o_kind (setv k o) = o_kind o /\ o_flags (setv k o) = o_flags o /\
  o_vals (setv k o) = o_vals o /\ o_sub (setv k o) = o_sub o /\ o_def (setv k o) = o_def o /\
  o_comment (setv k o) = o_comment o.
Proof. destruct o; cbn. repeat split; reflexivity. Qed.

Lemma setv2_fields k o :
  cb_valid2 (o_cbs (setv2 k o)) = Some k /\
  cb_parse (o_cbs (setv2 k o)) = cb_parse (o_cbs o) /\ cb_valid (o_cbs (setv2 k o)) = cb_valid (o_cbs o) /\
  cb_print (o_cbs (setv2 k o)) = cb_print (o_cbs o) /\ cb_free (o_cbs (setv2 k o)) = cb_free (o_cbs o) /\
  cb_func (o_cbs (setv2 k o)) = cb_func (o_cbs o) /\
  o_name (setv2 k o) = o_name o /\ o_kind (setv2 k o) = o_kind o /\ o_flags (setv2 k o) = o_flags o /\
  o_vals (setv2 k o) = o_vals o /\ o_sub (setv2 k o) = o_sub o /\ o_def (setv2 k o) = o_def o /\
  o_comment (setv2 k o) = o_comment o.
Proof. destruct o; cbn. repeat split; reflexivity. Qed.

(* the general form: the place is found by the pure lookup, the tree is updated there *)
Theorem reg_resolve f c name :
  reg f c name =
  match resolve_path (c_opts c) (cflag c CFGF_NOCASE) name with
  | Some l => set_opts c (upd_loc (c_opts c) l f)
  | None => c
  end.
Proof.
  unfold reg, resolve_path. rewrite array_upd_resolve.
  destruct (resolve (S (length name)) (c_opts c) (cflag c CFGF_NOCASE) name); reflexivity.
Qed.

(* registration never touches the header of the context, nor the number of its options *)
Lemma reg_header f c name :
  c_name (reg f c name) = c_name c /\ c_title (reg f c name) = c_title c /\ c_flags (reg f c name) = c_flags c /\
  c_file (reg f c name) = c_file c /\ c_line (reg f c name) = c_line c /\ c_err (reg f c name) = c_err c /\
  c_pff (reg f c name) = c_pff c /\ length (c_opts (reg f c name)) = length (c_opts c).
Proof.
  rewrite reg_resolve. destruct (resolve_path _ _ name) as [l|]; [|repeat split; reflexivity].
  rewrite c_opts_set_opts, upd_loc_length. destruct c; repeat split; reflexivity.
Qed.

(* ---------- 5a. an undeclared name, or a path through something that is not a section ---------- *)
Theorem reg_unresolved f c name :
  resolve_path (c_opts c) (cflag c CFGF_NOCASE) name = None -> reg f c name = c.
Proof. intro H. rewrite reg_resolve, H. reflexivity. Qed.

Theorem reg_undeclared f c n :
  nobar n = true ->
  forallb (fun o => negb (name_eqb (cflag c CFGF_NOCASE) (o_name o) n)) (c_opts c) = true ->
  reg f c n = c.
Proof.
  intros NB F. apply reg_unresolved. rewrite resolve_path_plain by exact NB.
  apply (find_idx_none (fun o => name_eqb (cflag c CFGF_NOCASE) (o_name o) n) (c_opts c) 0) in F. rewrite F. reflexivity.
Qed.

Theorem reg_undeclared_section f c s rest :
  nobar s = true -> s <> [] ->
  forallb (fun o => negb (name_eqb (cflag c CFGF_NOCASE) (o_name o) s)) (c_opts c) = true ->
  reg f c (s ++ x7c :: rest) = c.
Proof.
  intros NB NE F. apply reg_unresolved. rewrite resolve_path_step by assumption.
  apply (find_idx_none (fun o => name_eqb (cflag c CFGF_NOCASE) (o_name o) s) (c_opts c) 0) in F. rewrite F. reflexivity.
Qed.

Theorem reg_through_non_section f c s rest i o :
  nobar s = true -> s <> [] ->
  find_idx (fun o => name_eqb (cflag c CFGF_NOCASE) (o_name o) s) (c_opts c) 0 = Some i ->
  nth_error (c_opts c) i = Some o -> o_kind o <> KSec ->
  reg f c (s ++ x7c :: rest) = c.
Proof.
  intros NB NE F N K. apply reg_unresolved. rewrite resolve_path_step by assumption.
  rewrite F, N. destruct (o_kind o); try reflexivity. congruence.
Qed.

Theorem reg_undeclared_in_template f c s u i m :
  nobar s = true -> s <> [] -> nobar u = true ->
  find_idx (fun o => name_eqb (cflag c CFGF_NOCASE) (o_name o) s) (c_opts c) 0 = Some i ->
  nth_error (c_opts c) i = Some m -> o_kind m = KSec -> oflag m CFGF_MULTI = true ->
  forallb (fun o => negb (name_eqb (cflag c CFGF_NOCASE) (o_name o) u)) (o_sub m) = true ->
  reg f c (s ++ x7c :: u) = c.
Proof.
  intros NB NE NU F N K M FU. apply reg_unresolved. rewrite resolve_path_step by assumption.
  rewrite F, N, K, M. cbn [kind_eqb negb]. rewrite strip_bars_nobar by exact NU.
  rewrite resolve_path_plain by exact NU.
  apply (find_idx_none (fun o => name_eqb (cflag c CFGF_NOCASE) (o_name o) u) (o_sub m) 0) in FU. rewrite FU. reflexivity.
Qed.

(* ---------- 5b. a plain name: the live option at the root ---------- *)
Theorem reg_plain f c n i :
  nobar n = true ->
  find_idx (fun o => name_eqb (cflag c CFGF_NOCASE) (o_name o) n) (c_opts c) 0 = Some i ->
  reg f c n = upd_opt c ([], i) f.
Proof.
  intros NB F. rewrite reg_resolve, resolve_path_plain by exact NB. rewrite F. reflexivity.
Qed.

(* ---------- 5c. through a multi section: the template ---------- *)
Section RegMulti.
Variables (f : opt -> opt) (c : cfg) (mname uname : str) (i j : nat) (m u : opt).
Hypothesis NBm : nobar mname = true.
Hypothesis NEm : mname <> [].
Hypothesis NBu : nobar uname = true.
Hypothesis Fi : find_idx (fun o => name_eqb (cflag c CFGF_NOCASE) (o_name o) mname) (c_opts c) 0 = Some i.
Hypothesis Ni : nth_error (c_opts c) i = Some m.
Hypothesis Km : o_kind m = KSec.
Hypothesis Mm : oflag m CFGF_MULTI = true.
Hypothesis Fj : find_idx (fun o => name_eqb (cflag c CFGF_NOCASE) (o_name o) uname) (o_sub m) 0 = Some j.
Hypothesis Nj : nth_error (o_sub m) j = Some u.

Let c' := reg f c (mname ++ x7c :: uname).
Let m' := set_sub m (upd_nth (o_sub m) j f).

Lemma reg_multi_eq :
  c' = set_opts c (upd_nth (c_opts c) i (fun o => set_sub o (upd_nth (o_sub o) j f))).
Proof.
  unfold c'. rewrite reg_resolve, resolve_path_step by assumption.
  rewrite Fi, Ni, Km, Mm. cbn [kind_eqb negb]. rewrite strip_bars_nobar by exact NBu.
  rewrite resolve_path_plain by exact NBu. rewrite Fj. reflexivity.
Qed.

(* the section option afterwards: only its template changed, and there only sub-option j *)
Lemma reg_multi_option : nth_error (c_opts c') i = Some m'.
Proof. rewrite reg_multi_eq, c_opts_set_opts, nth_upd_nth_eq, Ni. reflexivity. Qed.

Lemma reg_multi_template :
  nth_error (o_sub m') j = Some (f u) /\
  (forall j', j' <> j -> nth_error (o_sub m') j' = nth_error (o_sub m) j') /\
  length (o_sub m') = length (o_sub m).
Proof.
  unfold m'. rewrite o_sub_set_sub. split; [rewrite nth_upd_nth_eq, Nj; reflexivity|].
  split; [intros j' D; apply nth_upd_nth_neq; congruence|apply upd_nth_length].
Qed.

Lemma reg_multi_live :
  o_vals m' = o_vals m /\ o_name m' = o_name m /\ o_kind m' = o_kind m /\ o_flags m' = o_flags m /\
  o_def m' = o_def m /\ o_comment m' = o_comment m /\ o_cbs m' = o_cbs m.
Proof.
  unfold m'. rewrite o_vals_set_sub, o_name_set_sub, o_kind_set_sub, o_flags_set_sub, o_def_set_sub,
    o_comment_set_sub, o_cbs_set_sub. repeat split; reflexivity.
Qed.

(* every other option of the context is untouched *)
Lemma reg_multi_others i' : i' <> i -> nth_error (c_opts c') i' = nth_error (c_opts c) i'.
Proof. intro D. rewrite reg_multi_eq, c_opts_set_opts. apply nth_upd_nth_neq. congruence. Qed.

(* the instances that exist are the same contexts as before — hence every option inside them, the
   sub-option of the registered name included, keeps the callbacks it had *)
Lemma reg_multi_instances v : nth_sec m' v = nth_sec m v.
Proof. unfold nth_sec, m'. rewrite o_vals_set_sub. reflexivity. Qed.

Lemma reg_multi_get_sec v st : get_sec c' ((i, v) :: st) = get_sec c ((i, v) :: st).
Proof. cbn [get_sec]. rewrite reg_multi_option, Ni, reg_multi_instances. reflexivity. Qed.

Lemma reg_multi_get_opt v st x : get_opt c' ((i, v) :: st, x) = get_opt c ((i, v) :: st, x).
Proof. unfold get_opt. cbn [fst snd]. rewrite reg_multi_get_sec. reflexivity. Qed.

(* every live option outside the section is the same as well *)
Lemma reg_multi_get_opt_other i' v st x : i' <> i -> get_opt c' ((i', v) :: st, x) = get_opt c ((i', v) :: st, x).
Proof. intro D. unfold get_opt. cbn [fst snd get_sec]. rewrite reg_multi_others by exact D. reflexivity. Qed.

(* instances created afterwards, reference meaning: Grammar.instance from the new template *)
Lemma reg_multi_instance sd fl title :
  exists u', nth_error (c_opts (instance sd fl m' title)) j = Some u' /\
             decl u' = decl (f u) /\ o_flags u' = o_flags (f u) /\ o_comment u' = o_comment (f u).
Proof. apply instance_decl. apply reg_multi_template. Qed.

Lemma reg_multi_open_instance sd ctx nocase title vals' idx :
  open_instance sd ctx nocase m' title = Some (vals', idx) ->
  exists sec u', nth_error vals' idx = Some (VSec (Some sec)) /\ sec = instance sd ctx m' title /\
                 nth_error (c_opts sec) j = Some u' /\ decl u' = decl (f u) /\
                 (forall v, v <> idx -> v < length (o_vals m) -> nth_error vals' v = nth_error (o_vals m) v).
Proof.
  intro H. apply open_instance_multi_fresh in H.
  - destruct H as [A B]. destruct (reg_multi_instance sd ctx title) as [u' [N [D _]]].
    eexists. exists u'. split; [exact A|]. split; [reflexivity|]. split; [exact N|]. split; [exact D|].
    destruct reg_multi_live as [V _]. rewrite V in B. exact B.
  - unfold oflag. destruct reg_multi_live as [_ [_ [_ [Fl _]]]]. rewrite Fl. exact Mm.
Qed.

(* instances created afterwards, model: cfg_setopt on the section option *)
Lemma reg_multi_setopt sd fuel w c0 txt w' o' idx :
  setopt sd (S fuel) w c0 m' txt = (w', o', Some idx) ->
  exists sec u', nth_sec o' idx = Some sec /\ c_title sec = txt /\
                 nth_error (c_opts sec) j = Some u' /\ decl u' = decl (f u).
Proof.
  intro H. eapply setopt_newsec_decl; [| |exact H|apply reg_multi_template].
  - destruct reg_multi_live as [_ [_ [Kd _]]]. rewrite Kd. exact Km.
  - left. unfold oflag. destruct reg_multi_live as [_ [_ [_ [Fl _]]]]. rewrite Fl. exact Mm.
Qed.
End RegMulti.

(* ---------- 5d. through a single section with an instance: the live option ---------- *)
Section RegSingle.
Variables (f : opt -> opt) (c : cfg) (sname uname : str) (i j : nat) (s u : opt) (inst : cfg).
Hypothesis NBs : nobar sname = true.
Hypothesis NEs : sname <> [].
Hypothesis NBu : nobar uname = true.
Hypothesis Fi : find_idx (fun o => name_eqb (cflag c CFGF_NOCASE) (o_name o) sname) (c_opts c) 0 = Some i.
Hypothesis Ni : nth_error (c_opts c) i = Some s.
Hypothesis Ks : o_kind s = KSec.
Hypothesis Ms : oflag s CFGF_MULTI = false.
Hypothesis Is : nth_sec s 0 = Some inst.
Hypothesis Fj : find_idx (fun o => name_eqb (cflag c CFGF_NOCASE) (o_name o) uname) (c_opts inst) 0 = Some j.
Hypothesis Nj : nth_error (c_opts inst) j = Some u.

Let c' := reg f c (sname ++ x7c :: uname).

Lemma reg_single_eq : c' = upd_opt c ([(i, 0)], j) f.
Proof.
  unfold c'. rewrite reg_resolve, resolve_path_step by assumption.
  rewrite Fi, Ni, Ks, Ms, Is. cbn [kind_eqb negb]. rewrite strip_bars_nobar by exact NBu.
  rewrite resolve_path_plain by exact NBu. rewrite Fj. reflexivity.
Qed.

Lemma reg_single_ref : get_opt c ([(i, 0)], j) = Some u.
Proof. unfold get_opt. cbn [fst snd get_sec]. rewrite Ni, Is. exact Nj. Qed.

(* the live option in the instance gets the assignment *)
Lemma reg_single_live : get_opt c' ([(i, 0)], j) = Some (f u).
Proof. rewrite reg_single_eq. apply get_opt_upd_same. exact reg_single_ref. Qed.

(* the section option afterwards: same template (cfg_getopt_array followed the instance), same
   declaration; only instance 0 changed, and in it only option j *)
Lemma reg_single_option :
  exists s', nth_error (c_opts c') i = Some s' /\
    o_sub s' = o_sub s /\ decl s' = decl s /\ o_flags s' = o_flags s /\ o_comment s' = o_comment s /\
    nth_sec s' 0 = Some (set_opts inst (upd_nth (c_opts inst) j f)) /\
    (forall v, v <> 0 -> nth_error (o_vals s') v = nth_error (o_vals s) v).
Proof.
  rewrite reg_single_eq. unfold upd_opt. cbn [fst snd upd_sec]. rewrite c_opts_set_opts, nth_upd_nth_eq, Ni.
  cbn [option_map]. eexists. split; [reflexivity|].
  unfold nth_sec in Is. destruct s as [n kd fl vals sub d cm cb]. cbn [o_vals] in Is.
  destruct vals as [|v0 vs]; [discriminate|]. cbn [nth_error] in Is.
  destruct v0 as [| | | |[s0|]|]; try discriminate. injection Is as ->.
  cbn. repeat split; try reflexivity.
  intros v D. destruct v; [congruence|reflexivity].
Qed.

Lemma reg_single_others i' : i' <> i -> nth_error (c_opts c') i' = nth_error (c_opts c) i'.
Proof.
  intro D. rewrite reg_single_eq. unfold upd_opt. cbn [fst snd upd_sec]. rewrite c_opts_set_opts.
  apply nth_upd_nth_neq. congruence.
Qed.

Lemma reg_single_instance_others j' : j' <> j -> get_opt c' ([(i, 0)], j') = get_opt c ([(i, 0)], j').
Proof.
  intro D. destruct reg_single_option as [s' [N [_ [_ [_ [_ [I _]]]]]]].
  unfold get_opt. cbn [fst snd get_sec]. rewrite N, I, Ni, Is, c_opts_set_opts.
  apply nth_upd_nth_neq. congruence.
Qed.
End RegSingle.

(* a single section WITHOUT instance behaves like a multi section: the template is reached *)
Theorem reg_single_no_instance f c sname uname i j s :
  nobar sname = true -> sname <> [] -> nobar uname = true ->
  find_idx (fun o => name_eqb (cflag c CFGF_NOCASE) (o_name o) sname) (c_opts c) 0 = Some i ->
  nth_error (c_opts c) i = Some s -> o_kind s = KSec -> nth_sec s 0 = None ->
  find_idx (fun o => name_eqb (cflag c CFGF_NOCASE) (o_name o) uname) (o_sub s) 0 = Some j ->
  reg f c (sname ++ x7c :: uname) =
  set_opts c (upd_nth (c_opts c) i (fun o => set_sub o (upd_nth (o_sub o) j f))).
Proof.
  intros NB NE NU Fi Ni K I Fj. rewrite reg_resolve, resolve_path_step by assumption.
  rewrite Fi, Ni, K, I. cbn [kind_eqb negb]. rewrite strip_bars_nobar by exact NU.
  rewrite resolve_path_plain by exact NU. rewrite Fj.
  destruct (oflag s CFGF_MULTI); reflexivity.
Qed.

(* ================================================================== *)
(* 6. idempotence and independence                                      *)
(* ================================================================== *)

(* an assignment that leaves alone everything cfg_getopt_array looks at *)
Definition keeps (f : opt -> opt) : Prop :=
  forall o, o_name (f o) = o_name o /\ o_kind (f o) = o_kind o /\ o_flags (f o) = o_flags o /\
            o_vals (f o) = o_vals o /\ o_sub (f o) = o_sub o.

Lemma keeps_setv k : keeps (setv k). Proof. intro o. destruct o; repeat split; reflexivity. Qed.
Lemma keeps_setv2 k : keeps (setv2 k). Proof. intro o. destruct o; repeat split; reflexivity. Qed.
Lemma keeps_comp f g : keeps f -> keeps g -> keeps (fun o => g (f o)).
Proof.
  intros Hf Hg o. destruct (Hf o) as [A [B [C [D E]]]]. destruct (Hg (f o)) as [A' [B' [C' [D' E']]]].
  repeat split; congruence.
Qed.

Definition loc_fun (f : opt -> opt) (l : loc) : opt -> opt :=
  match l with
  | LHere _ => f
  | LInst _ l' => fun o => set_vals o (upd_nth (o_vals o) 0 (fun v =>
        match v with VSec (Some s) => VSec (Some (set_opts s (upd_loc (c_opts s) l' f))) | x => x end))
  | LTmpl _ l' => fun o => set_sub o (upd_loc (o_sub o) l' f)
  end.

Lemma upd_loc_as_nth f l opts : upd_loc opts l f = upd_nth opts (loc_head l) (loc_fun f l).
Proof. destruct l; reflexivity. Qed.

Lemma loc_fun_hdr f l o : keeps f ->
  o_name (loc_fun f l o) = o_name o /\ o_kind (loc_fun f l o) = o_kind o /\ o_flags (loc_fun f l o) = o_flags o.
Proof.
  intro K. destruct l; cbn [loc_fun].
  - destruct (K o) as [A [B [C _]]]. auto.
  - destruct o; repeat split; reflexivity.
  - destruct o; repeat split; reflexivity.
Qed.

(* the lookup of ANY path is blind to such an assignment made at ANY place *)
Lemma resolve_upd_loc f nocase : keeps f -> forall fuel opts l name,
  resolve fuel (upd_loc opts l f) nocase name = resolve fuel opts nocase name.
Proof.
  intros Kf. induction fuel as [|fuel IH]; intros opts l name; [reflexivity|].
  cbn [resolve]. cbv zeta. rewrite upd_loc_as_nth.
  assert (FI : forall n, find_idx (fun o => name_eqb nocase (o_name o) n) (upd_nth opts (loc_head l) (loc_fun f l)) 0 =
                         find_idx (fun o => name_eqb nocase (o_name o) n) opts 0).
  { intro n. apply find_idx_upd_nth. intro x. destruct (loc_fun_hdr f l x Kf) as [-> _]. reflexivity. }
  destruct (skipn (strcspn name is_bar) name) as [|c r]; [rewrite FI; reflexivity|].
  destruct (Nat.eqb (strcspn name is_bar) 0); [rewrite <- upd_loc_as_nth; apply IH|].
  rewrite FI. destruct (find_idx _ opts 0) as [k|]; [|reflexivity].
  destruct (Nat.eq_dec k (loc_head l)) as [->|D].
  - rewrite nth_upd_nth_eq. destruct (nth_error opts (loc_head l)) as [so|]; [|reflexivity]. cbn [option_map].
    destruct (loc_fun_hdr f l so Kf) as [_ [Hk Hf]]. rewrite Hk. unfold oflag. rewrite Hf.
    destruct (negb (kind_eqb (o_kind so) KSec)); [reflexivity|].
    destruct l as [i|k l|k l]; cbn [loc_fun].
    + destruct (Kf so) as [_ [_ [_ [Hv Hs]]]]. unfold nth_sec. rewrite Hv, Hs. reflexivity.
    + rewrite nth_sec_set_vals0. replace (o_sub (set_vals so _)) with (o_sub so) by (destruct so; reflexivity).
      destruct (has (o_flags so) CFGF_MULTI); [reflexivity|].
      unfold nth_sec. destruct (nth_error (o_vals so) 0) as [v|]; [|reflexivity].
      destruct v as [| | | |[s|]|]; try reflexivity.
      rewrite c_opts_set_opts, IH. reflexivity.
    + unfold nth_sec. rewrite o_vals_set_sub, o_sub_set_sub.
      destruct (if has (o_flags so) CFGF_MULTI then None else _); [reflexivity|]. rewrite IH. reflexivity.
  - rewrite nth_upd_nth_neq by congruence. reflexivity.
Qed.

Lemma upd_loc_ext f g : (forall o, f o = g o) -> forall l opts, upd_loc opts l f = upd_loc opts l g.
Proof.
  intros E. induction l as [i|k l IH|k l IH]; intros opts; cbn [upd_loc].
  - apply upd_nth_ext. intros; apply E.
  - apply upd_nth_ext. intros o _. f_equal. apply upd_nth_ext. intros v _.
    destruct v as [| | | |[s|]|]; try reflexivity. rewrite IH. reflexivity.
  - apply upd_nth_ext. intros o _. rewrite IH. reflexivity.
Qed.

Lemma reg_ext f g c name : (forall o, f o = g o) -> reg f c name = reg g c name.
Proof.
  intro E. rewrite !reg_resolve. destruct (resolve_path _ _ name) as [l|]; [|reflexivity].
  rewrite (upd_loc_ext f g E). reflexivity.
Qed.

Lemma cflag_set_opts c l m : cflag (set_opts c l) m = cflag c m. Proof. destruct c; reflexivity. Qed.
Lemma set_opts_set_opts c a b : set_opts (set_opts c a) b = set_opts c b. Proof. destruct c; reflexivity. Qed.

(* after a registration, ANY path designates the place it designated before *)
Theorem resolve_after_reg f c name name2 : keeps f ->
  resolve_path (c_opts (reg f c name)) (cflag (reg f c name) CFGF_NOCASE) name2 =
  resolve_path (c_opts c) (cflag c CFGF_NOCASE) name2.
Proof.
  intro K. rewrite reg_resolve. destruct (resolve_path (c_opts c) _ name) as [l|]; [|reflexivity].
  rewrite c_opts_set_opts, cflag_set_opts. unfold resolve_path. apply resolve_upd_loc. exact K.
Qed.

(* two registrations by the same path compose at the place *)
Theorem reg_reg_same f g c name : keeps f ->
  reg g (reg f c name) name = reg (fun o => g (f o)) c name.
Proof.
  intro K. rewrite (reg_resolve g), resolve_after_reg by exact K.
  rewrite !reg_resolve. destruct (resolve_path (c_opts c) _ name) as [l|]; [|reflexivity].
  rewrite c_opts_set_opts, set_opts_set_opts, upd_loc_upd_loc. reflexivity.
Qed.

(* the place reads back the assignment *)
Theorem reg_get f c name l :
  resolve_path (c_opts c) (cflag c CFGF_NOCASE) name = Some l ->
  get_loc (c_opts (reg f c name)) l = option_map f (get_loc (c_opts c) l) /\
  exists o, get_loc (c_opts c) l = Some o.
Proof.
  intro R. rewrite reg_resolve, R, c_opts_set_opts. split; [apply get_upd_loc|].
  eapply resolve_get. exact R.
Qed.

Lemma setv_setv k1 k2 o : setv k2 (setv k1 o) = setv k2 o. Proof. destruct o; reflexivity. Qed.
Lemma setv2_setv2 k1 k2 o : setv2 k2 (setv2 k1 o) = setv2 k2 o. Proof. destruct o; reflexivity. Qed.
Lemma setv_setv2_comm k1 k2 o : setv2 k2 (setv k1 o) = setv k1 (setv2 k2 o). Proof. destruct o; reflexivity. Qed.

(* registering k1 and then k2: k2 is what is left, as if k1 had never been registered *)
Theorem set_validate_func_twice c name k1 k2 :
  cfg_set_validate_func (cfg_set_validate_func c name k1) name k2 = cfg_set_validate_func c name k2.
Proof.
  rewrite !cfg_set_validate_func_reg, reg_reg_same by apply keeps_setv.
  apply reg_ext. intro o. apply setv_setv.
Qed.

Theorem set_validate_func2_twice c name k1 k2 :
  cfg_set_validate_func2 (cfg_set_validate_func2 c name k1) name k2 = cfg_set_validate_func2 c name k2.
Proof.
  rewrite !cfg_set_validate_func2_reg, reg_reg_same by apply keeps_setv2.
  apply reg_ext. intro o. apply setv2_setv2.
Qed.

(* the two kinds of callback are registered independently: the order does not matter *)
Theorem set_validate_func_func2_commute c name k1 k2 :
  cfg_set_validate_func2 (cfg_set_validate_func c name k1) name k2 =
  cfg_set_validate_func (cfg_set_validate_func2 c name k2) name k1.
Proof.
  rewrite !cfg_set_validate_func_reg, !cfg_set_validate_func2_reg.
  rewrite reg_reg_same by apply keeps_setv. rewrite reg_reg_same by apply keeps_setv2.
  apply reg_ext. intro o. apply setv_setv2_comm.
Qed.

(* ... and at the designated option each leaves the other's field as it was *)
Theorem set_validate_func_at c name k l :
  resolve_path (c_opts c) (cflag c CFGF_NOCASE) name = Some l ->
  exists o, get_loc (c_opts c) l = Some o /\
            get_loc (c_opts (cfg_set_validate_func c name k)) l = Some (setv k o) /\
            cb_valid (o_cbs (setv k o)) = Some k /\ cb_valid2 (o_cbs (setv k o)) = cb_valid2 (o_cbs o).
Proof.
  intro R. rewrite cfg_set_validate_func_reg. destruct (reg_get (setv k) c name l R) as [G [o Go]].
  exists o. rewrite G, Go. split; [reflexivity|]. split; [reflexivity|]. destruct o; split; reflexivity.
Qed.

Theorem set_validate_func2_at c name k l :
  resolve_path (c_opts c) (cflag c CFGF_NOCASE) name = Some l ->
  exists o, get_loc (c_opts c) l = Some o /\
            get_loc (c_opts (cfg_set_validate_func2 c name k)) l = Some (setv2 k o) /\
            cb_valid2 (o_cbs (setv2 k o)) = Some k /\ cb_valid (o_cbs (setv2 k o)) = cb_valid (o_cbs o).
Proof.
  intro R. rewrite cfg_set_validate_func2_reg. destruct (reg_get (setv2 k) c name l R) as [G [o Go]].
  exists o. rewrite G, Go. split; [reflexivity|]. split; [reflexivity|]. destruct o; split; reflexivity.
Qed.

(* two sub-options of the same multi section, one after the other: both assignments are in the template *)
Theorem reg_multi_two f g c mname uname vname i j j2 m :
  keeps f ->
  nobar mname = true -> mname <> [] -> nobar uname = true -> nobar vname = true ->
  find_idx (fun o => name_eqb (cflag c CFGF_NOCASE) (o_name o) mname) (c_opts c) 0 = Some i ->
  nth_error (c_opts c) i = Some m -> o_kind m = KSec -> oflag m CFGF_MULTI = true ->
  find_idx (fun o => name_eqb (cflag c CFGF_NOCASE) (o_name o) uname) (o_sub m) 0 = Some j ->
  find_idx (fun o => name_eqb (cflag c CFGF_NOCASE) (o_name o) vname) (o_sub m) 0 = Some j2 ->
  reg g (reg f c (mname ++ x7c :: uname)) (mname ++ x7c :: vname) =
  set_opts c (upd_nth (c_opts c) i (fun o => set_sub o (upd_nth (upd_nth (o_sub o) j f) j2 g))).
Proof.
  intros Kf NBm NEm NBu NBv Fi Ni Km Mm Fj Fj2.
  rewrite (reg_multi_eq f c mname uname i j m) by assumption.
  set (m1 := set_sub m (upd_nth (o_sub m) j f)).
  rewrite (reg_multi_eq g _ mname vname i j2 m1).
  - rewrite c_opts_set_opts, set_opts_set_opts, upd_nth_upd_nth. f_equal.
    apply upd_nth_ext. intros o _. rewrite o_sub_set_sub. apply set_sub_set_sub.
  - exact NBm.
  - exact NEm.
  - exact NBv.
  - rewrite cflag_set_opts, c_opts_set_opts, find_idx_upd_nth; [exact Fi|].
    intro x. rewrite o_name_set_sub. reflexivity.
  - rewrite c_opts_set_opts, nth_upd_nth_eq, Ni. reflexivity.
  - unfold m1. rewrite o_kind_set_sub. exact Km.
  - unfold m1, oflag. rewrite o_flags_set_sub. exact Mm.
  - rewrite cflag_set_opts. unfold m1. rewrite o_sub_set_sub, find_idx_upd_nth; [exact Fj2|].
    intro x. destruct (Kf x) as [-> _]. reflexivity.
Qed.

(* ... so each sub-option of the template has its own, and the order is immaterial *)
Corollary reg_multi_two_template f g (sub : list opt) j j2 u v :
  j <> j2 -> nth_error sub j = Some u -> nth_error sub j2 = Some v ->
  nth_error (upd_nth (upd_nth sub j f) j2 g) j = Some (f u) /\
  nth_error (upd_nth (upd_nth sub j f) j2 g) j2 = Some (g v) /\
  upd_nth (upd_nth sub j f) j2 g = upd_nth (upd_nth sub j2 g) j f.
Proof.
  intros D Nu Nv. split; [|split].
  - rewrite nth_upd_nth_neq by congruence. rewrite nth_upd_nth_eq, Nu. reflexivity.
  - rewrite nth_upd_nth_eq, nth_upd_nth_neq by congruence. rewrite Nv. reflexivity.
  - apply upd_nth_comm. exact D.
Qed.

(* ================================================================== *)
(* 7. the name of the designated option                                 *)
(* ================================================================== *)

(* what follows the last separator *)
Fixpoint last_seg (s : str) : str :=
  match s with
  | [] => []
  | _ :: r => if existsb is_bar s then last_seg r else s
  end.

Lemma last_seg_nobar s : nobar s = true -> last_seg s = s.
Proof.
  unfold nobar. destruct s as [|c r]; [reflexivity|]. intro H. cbn [last_seg].
  destruct (existsb is_bar (c :: r)); [discriminate|reflexivity].
Qed.

Lemma last_seg_strip s : last_seg (strip_bars s) = last_seg s.
Proof.
  induction s as [|c r IH]; [reflexivity|].
  destruct (is_bar c) eqn:B.
  - replace (strip_bars (c :: r)) with (strip_bars r) by (unfold strip_bars; cbn [strspn]; rewrite B; reflexivity).
    rewrite IH. cbn [last_seg existsb]. rewrite B. reflexivity.
  - rewrite strip_bars_nobar_head by exact B. reflexivity.
Qed.

Lemma existsb_skipn {A} (p : A -> bool) : forall n l, existsb p (skipn n l) = true -> existsb p l = true.
Proof.
  induction n as [|n IH]; intros l H; [exact H|]. destruct l as [|x l]; [discriminate|].
  cbn [skipn] in H. cbn [existsb]. rewrite (IH _ H). apply orb_true_r.
Qed.

Lemma last_seg_stop : forall name c r,
  skipn (strcspn name is_bar) name = c :: r -> last_seg name = last_seg (c :: r).
Proof.
  induction name as [|d name IH]; intros c r H; [discriminate|].
  cbn [strcspn] in H. destruct (is_bar d) eqn:B.
  - cbn [skipn] in H. rewrite H. reflexivity.
  - cbn [skipn] in H. cbn [last_seg existsb]. rewrite B. cbn [orb].
    assert (E : existsb is_bar name = true).
    { apply (existsb_skipn _ (strcspn name is_bar)). rewrite H. cbn [existsb].
      rewrite (strcspn_stop _ _ _ H). reflexivity. }
    rewrite E. eapply IH. exact H.
Qed.

Lemma strcspn_all_nobar s : skipn (strcspn s is_bar) s = [] -> nobar s = true.
Proof.
  unfold nobar. induction s as [|d s IH]; [reflexivity|]. cbn [strcspn existsb].
  destruct (is_bar d); [discriminate|]. cbn [skipn orb]. exact IH.
Qed.

(* the designated option exists and bears the last segment of the path as its name *)
Theorem resolve_named nocase : forall fuel opts name l,
  resolve fuel opts nocase name = Some l ->
  exists o, get_loc opts l = Some o /\ name_eqb nocase (o_name o) (last_seg name) = true.
Proof.
  induction fuel as [|fuel IH]; intros opts name l H; [discriminate|].
  cbn [resolve] in H. cbv zeta in H.
  destruct (skipn (strcspn name is_bar) name) as [|c r] eqn:SK.
  - destruct (find_idx _ opts 0) as [i|] eqn:F; [|discriminate]. injection H as <-.
    apply find_idx_first in F. destruct F as [[x [N P]] _]. exists x. split; [exact N|].
    rewrite last_seg_nobar by (apply strcspn_all_nobar; exact SK). exact P.
  - assert (LS : last_seg (strip_bars (c :: r)) = last_seg name).
    { rewrite last_seg_strip. symmetry. apply last_seg_stop. exact SK. }
    rewrite <- LS.
    destruct (Nat.eqb (strcspn name is_bar) 0); [eapply IH; exact H|].
    destruct (find_idx _ opts 0) as [k|]; [|discriminate].
    destruct (nth_error opts k) as [so|] eqn:N; [|discriminate].
    destruct (negb (kind_eqb (o_kind so) KSec)); [discriminate|].
    destruct (oflag so CFGF_MULTI) eqn:M.
    + destruct (resolve fuel (o_sub so) nocase _) as [l'|] eqn:R; [|discriminate]. injection H as <-.
      cbn [get_loc]. rewrite N. eapply IH; exact R.
    + destruct (nth_sec so 0) as [inst|] eqn:I.
      * destruct (resolve fuel (c_opts inst) nocase _) as [l'|] eqn:R; [|discriminate]. injection H as <-.
        cbn [get_loc]. rewrite N, I. eapply IH; exact R.
      * destruct (resolve fuel (o_sub so) nocase _) as [l'|] eqn:R; [|discriminate]. injection H as <-.
        cbn [get_loc]. rewrite N. eapply IH; exact R.
Qed.

(* ================================================================== *)
(* 8. one parser step: the value of an option with validate callback k  *)
(* ================================================================== *)

Section ValueStep.
Variable so : pw -> cfg -> opt -> option str -> pw * opt * option nat.
Variable pi : pw -> cfg -> nat -> pst -> pw * cfg * prc.

(* state 2 (a value is expected) and a string token arrives: cfg_setopt, then the validate callback of
   the option, whose verdict decides between STATE_ERROR and going on *)
Lemma pi_body_value fl w c level p w1 c1 yylval r o w2 o1 idx k :
  next_token fl w c = (w1, c1, TStr, yylval) ->
  s_state p = 2 -> s_opt p = Some r -> get_opt c1 r = Some o ->
  so w1 c1 o yylval = (w2, o1, Some idx) -> cb_valid (o_cbs o1) = Some k ->
  let f := snd (tick w2) in
  let w3 := add_cb (fst (tick w2)) (CbValid k (o_name o1) (length (o_vals o1)) f) in
  let c2 := put_opt c1 r o1 in
  let o2 := match s_comment p with Some cm => opt_setcomment o1 cm | None => o1 end in
  let p1 := st_comment p None in
  pi_body so pi fl w c level p =
  if f then (w3, c2, PERR)
  else if oflag o2 CFGF_LIST then pi w3 (put_opt c2 r o2) level (st_state (st_num p1 (S (s_num p1))) 4)
       else pi w3 (put_opt c2 r o2) level (st_state p1 0).
Proof.
  intros NT ST SO GO E V. unfold pi_body. rewrite NT. cbv zeta. rewrite ST, SO, GO.
  cbv beta iota. cbn [tok_is tok_is_str andb negb]. rewrite E.
  unfold run_validcb. rewrite V. destruct (tick w2) as [wt f]. cbn [fst snd].
  destruct f; reflexivity.
Qed.
End ValueStep.

Theorem parse_value_runs_validcb sd fuel w c level p w1 c1 yylval r o w2 o1 idx k :
  next_token fuel w c = (w1, c1, TStr, yylval) ->
  s_state p = 2 -> s_opt p = Some r -> get_opt c1 r = Some o ->
  cb_valid (o_cbs o) = Some k ->
  setopt sd fuel w1 c1 o yylval = (w2, o1, Some idx) ->
  let f := snd (tick w2) in
  let w3 := add_cb (fst (tick w2)) (CbValid k (o_name o) (length (o_vals o1)) f) in
  let c2 := put_opt c1 r o1 in
  let o2 := match s_comment p with Some cm => opt_setcomment o1 cm | None => o1 end in
  let p1 := st_comment p None in
  parse_internal sd (S fuel) w c level p =
  if f then (w3, c2, PERR)
  else if oflag o2 CFGF_LIST then parse_internal sd fuel w3 (put_opt c2 r o2) level (st_state (st_num p1 (S (s_num p1))) 4)
       else parse_internal sd fuel w3 (put_opt c2 r o2) level (st_state p1 0).
Proof.
  intros NT ST SO GO V E. rewrite parse_internal_S.
  pose proof (setopt_frame sd fuel w1 c1 o yylval) as F. rewrite E in F. unfold fst, snd in F.
  rewrite <- (fr_name _ _ F).
  apply (pi_body_value (setopt sd fuel) (parse_internal sd fuel) fuel w c level p w1 c1 yylval r o w2 o1 idx k NT ST SO GO E).
  rewrite (fr_cbs _ _ F). exact V.
Qed.

(* ================================================================== *)
(* 9. the statements assembled for cfg_set_validate_func / func2        *)
(* ================================================================== *)

(* u' is u with the validate (resp. validate2) callback k and nothing else changed *)
Definition only_valid_changed (k : N) (u u' : opt) : Prop :=
  cb_valid (o_cbs u') = Some k /\
  cb_parse (o_cbs u') = cb_parse (o_cbs u) /\ cb_valid2 (o_cbs u') = cb_valid2 (o_cbs u) /\
  cb_print (o_cbs u') = cb_print (o_cbs u) /\ cb_free (o_cbs u') = cb_free (o_cbs u) /\
  cb_func (o_cbs u') = cb_func (o_cbs u) /\
  o_name u' = o_name u /\ o_kind u' = o_kind u /\ o_flags u' = o_flags u /\
  o_vals u' = o_vals u /\ o_sub u' = o_sub u /\ o_def u' = o_def u /\ o_comment u' = o_comment u.

Definition only_valid2_changed (k : N) (u u' : opt) : Prop :=
  cb_valid2 (o_cbs u') = Some k /\
  cb_parse (o_cbs u') = cb_parse (o_cbs u) /\ cb_valid (o_cbs u') = cb_valid (o_cbs u) /\
  cb_print (o_cbs u') = cb_print (o_cbs u) /\ cb_free (o_cbs u') = cb_free (o_cbs u) /\
  cb_func (o_cbs u') = cb_func (o_cbs u) /\
  o_name u' = o_name u /\ o_kind u' = o_kind u /\ o_flags u' = o_flags u /\
  o_vals u' = o_vals u /\ o_sub u' = o_sub u /\ o_def u' = o_def u /\ o_comment u' = o_comment u.

(* the section option m' is m with another template and nothing else changed *)
Definition only_template_changed (m m' : opt) : Prop :=
  o_vals m' = o_vals m /\ o_name m' = o_name m /\ o_kind m' = o_kind m /\ o_flags m' = o_flags m /\
  o_def m' = o_def m /\ o_comment m' = o_comment m /\ o_cbs m' = o_cbs m.

Lemma setv_only k u : only_valid_changed k u (setv k u). Proof. apply setv_fields. Qed.
Lemma setv2_only k u : only_valid2_changed k u (setv2 k u). Proof. apply setv2_fields. Qed.

Lemma decl_cb_valid n u' k : decl n = decl u' -> cb_valid (o_cbs u') = Some k -> cb_valid (o_cbs n) = Some k.
Proof. unfold decl. intros H V. injection H as _ _ _ _ ->. exact V. Qed.
Lemma decl_cb_valid2 n u' k : decl n = decl u' -> cb_valid2 (o_cbs u') = Some k -> cb_valid2 (o_cbs n) = Some k.
Proof. unfold decl. intros H V. injection H as _ _ _ _ ->. exact V. Qed.

(* ---------- through a multi section, any assignment f ---------- *)
Theorem reg_multi_all f c mname uname i j m u :
  nobar mname = true -> mname <> [] -> nobar uname = true ->
  find_idx (fun o => name_eqb (cflag c CFGF_NOCASE) (o_name o) mname) (c_opts c) 0 = Some i ->
  nth_error (c_opts c) i = Some m -> o_kind m = KSec -> oflag m CFGF_MULTI = true ->
  find_idx (fun o => name_eqb (cflag c CFGF_NOCASE) (o_name o) uname) (o_sub m) 0 = Some j ->
  nth_error (o_sub m) j = Some u ->
  let c' := reg f c (mname ++ x7c :: uname) in
  exists m',
    nth_error (c_opts c') i = Some m' /\ nth_error (o_sub m') j = Some (f u) /\
    (forall j', j' <> j -> nth_error (o_sub m') j' = nth_error (o_sub m) j') /\
    length (o_sub m') = length (o_sub m) /\
    only_template_changed m m' /\
    (forall i', i' <> i -> nth_error (c_opts c') i' = nth_error (c_opts c) i') /\
    (forall v, nth_sec m' v = nth_sec m v) /\
    (forall v st, get_sec c' ((i, v) :: st) = get_sec c ((i, v) :: st)) /\
    (forall v st x, get_opt c' ((i, v) :: st, x) = get_opt c ((i, v) :: st, x)) /\
    (forall sd fl title, exists n,
       nth_error (c_opts (instance sd fl m' title)) j = Some n /\ decl n = decl (f u)) /\
    (forall sd ctx nocase title vals' idx,
       open_instance sd ctx nocase m' title = Some (vals', idx) ->
       exists sec n, nth_error vals' idx = Some (VSec (Some sec)) /\ sec = instance sd ctx m' title /\
                     nth_error (c_opts sec) j = Some n /\ decl n = decl (f u) /\
                     (forall v, v <> idx -> v < length (o_vals m) -> nth_error vals' v = nth_error (o_vals m) v)) /\
    (forall sd fuel w c0 txt w' o' idx,
       setopt sd (S fuel) w c0 m' txt = (w', o', Some idx) ->
       exists sec n, nth_sec o' idx = Some sec /\ c_title sec = txt /\
                     nth_error (c_opts sec) j = Some n /\ decl n = decl (f u)).
Proof.
  intros NBm NEm NBu Fi Ni Km Mm Fj Nj. cbv zeta.
  exists (set_sub m (upd_nth (o_sub m) j f)).
  split; [apply reg_multi_option; assumption|].
  destruct (reg_multi_template f j m u Nj) as [T1 [T2 T3]].
  split; [exact T1|]. split; [exact T2|]. split; [exact T3|].
  split; [apply reg_multi_live|].
  split; [apply (reg_multi_others f c mname uname i j m); assumption|].
  split; [apply reg_multi_instances|].
  split; [apply (reg_multi_get_sec f c mname uname i j m); assumption|].
  split; [apply (reg_multi_get_opt f c mname uname i j m); assumption|].
  split.
  { intros sd fl title. destruct (reg_multi_instance f j m u Nj sd fl title) as [n [A [B _]]]. eauto. }
  split.
  { intros sd ctx nocase title vals' idx H.
    eapply reg_multi_open_instance in H; [exact H|exact Mm|exact Nj]. }
  intros sd fuel w c0 txt w' o' idx H.
  eapply reg_multi_setopt in H; [exact H|exact Km|exact Mm|exact Nj].
Qed.

(* ---------- cfg_set_validate_func / func2 through a multi section ---------- *)
Theorem set_validate_func_multi c mname uname i j m u k :
  nobar mname = true -> mname <> [] -> nobar uname = true ->
  find_idx (fun o => name_eqb (cflag c CFGF_NOCASE) (o_name o) mname) (c_opts c) 0 = Some i ->
  nth_error (c_opts c) i = Some m -> o_kind m = KSec -> oflag m CFGF_MULTI = true ->
  find_idx (fun o => name_eqb (cflag c CFGF_NOCASE) (o_name o) uname) (o_sub m) 0 = Some j ->
  nth_error (o_sub m) j = Some u ->
  let c' := cfg_set_validate_func c (mname ++ x7c :: uname) k in
  exists m' u',
    nth_error (c_opts c') i = Some m' /\ nth_error (o_sub m') j = Some u' /\
    only_valid_changed k u u' /\
    (forall j', j' <> j -> nth_error (o_sub m') j' = nth_error (o_sub m) j') /\
    length (o_sub m') = length (o_sub m) /\
    only_template_changed m m' /\
    (forall i', i' <> i -> nth_error (c_opts c') i' = nth_error (c_opts c) i') /\
    (forall v, nth_sec m' v = nth_sec m v) /\
    (forall v st, get_sec c' ((i, v) :: st) = get_sec c ((i, v) :: st)) /\
    (forall v st x, get_opt c' ((i, v) :: st, x) = get_opt c ((i, v) :: st, x)) /\
    (forall sd fl title, exists n,
       nth_error (c_opts (instance sd fl m' title)) j = Some n /\ decl n = decl u' /\ cb_valid (o_cbs n) = Some k) /\
    (forall sd ctx nocase title vals' idx,
       open_instance sd ctx nocase m' title = Some (vals', idx) ->
       exists sec n, nth_error vals' idx = Some (VSec (Some sec)) /\ sec = instance sd ctx m' title /\
                     nth_error (c_opts sec) j = Some n /\ decl n = decl u' /\ cb_valid (o_cbs n) = Some k /\
                     (forall v, v <> idx -> v < length (o_vals m) -> nth_error vals' v = nth_error (o_vals m) v)) /\
    (forall sd fuel w c0 txt w' o' idx,
       setopt sd (S fuel) w c0 m' txt = (w', o', Some idx) ->
       exists sec n, nth_sec o' idx = Some sec /\ c_title sec = txt /\
                     nth_error (c_opts sec) j = Some n /\ decl n = decl u' /\ cb_valid (o_cbs n) = Some k).
Proof.
  intros NBm NEm NBu Fi Ni Km Mm Fj Nj. cbv zeta. rewrite cfg_set_validate_func_reg.
  destruct (reg_multi_all (setv k) c mname uname i j m u NBm NEm NBu Fi Ni Km Mm Fj Nj)
    as [m' [A1 [A2 [A3 [A4 [A5 [A6 [A7 [A8 [A9 [A10 [A11 A12]]]]]]]]]]]].
  pose proof (setv_only k u) as SO. assert (V : cb_valid (o_cbs (setv k u)) = Some k) by apply SO.
  exists m', (setv k u). repeat (split; [assumption|]).
  split; [|split].
  - intros sd fl title. destruct (A10 sd fl title) as [n [B1 B2]]. exists n. eauto using decl_cb_valid.
  - intros sd ctx nocase title vals' idx H. destruct (A11 _ _ _ _ _ _ H) as [sec [n [B1 [B2 [B3 [B4 B5]]]]]].
    exists sec, n. eauto 10 using decl_cb_valid.
  - intros sd fuel w c0 txt w' o' idx H. destruct (A12 _ _ _ _ _ _ _ _ H) as [sec [n [B1 [B2 [B3 B4]]]]].
    exists sec, n. eauto 10 using decl_cb_valid.
Qed.

Theorem set_validate_func2_multi c mname uname i j m u k :
  nobar mname = true -> mname <> [] -> nobar uname = true ->
  find_idx (fun o => name_eqb (cflag c CFGF_NOCASE) (o_name o) mname) (c_opts c) 0 = Some i ->
  nth_error (c_opts c) i = Some m -> o_kind m = KSec -> oflag m CFGF_MULTI = true ->
  find_idx (fun o => name_eqb (cflag c CFGF_NOCASE) (o_name o) uname) (o_sub m) 0 = Some j ->
  nth_error (o_sub m) j = Some u ->
  let c' := cfg_set_validate_func2 c (mname ++ x7c :: uname) k in
  exists m' u',
    nth_error (c_opts c') i = Some m' /\ nth_error (o_sub m') j = Some u' /\
    only_valid2_changed k u u' /\
    (forall j', j' <> j -> nth_error (o_sub m') j' = nth_error (o_sub m) j') /\
    length (o_sub m') = length (o_sub m) /\
    only_template_changed m m' /\
    (forall i', i' <> i -> nth_error (c_opts c') i' = nth_error (c_opts c) i') /\
    (forall v, nth_sec m' v = nth_sec m v) /\
    (forall v st, get_sec c' ((i, v) :: st) = get_sec c ((i, v) :: st)) /\
    (forall v st x, get_opt c' ((i, v) :: st, x) = get_opt c ((i, v) :: st, x)) /\
    (forall sd fl title, exists n,
       nth_error (c_opts (instance sd fl m' title)) j = Some n /\ decl n = decl u' /\ cb_valid2 (o_cbs n) = Some k) /\
    (forall sd ctx nocase title vals' idx,
       open_instance sd ctx nocase m' title = Some (vals', idx) ->
       exists sec n, nth_error vals' idx = Some (VSec (Some sec)) /\ sec = instance sd ctx m' title /\
                     nth_error (c_opts sec) j = Some n /\ decl n = decl u' /\ cb_valid2 (o_cbs n) = Some k /\
                     (forall v, v <> idx -> v < length (o_vals m) -> nth_error vals' v = nth_error (o_vals m) v)) /\
    (forall sd fuel w c0 txt w' o' idx,
       setopt sd (S fuel) w c0 m' txt = (w', o', Some idx) ->
       exists sec n, nth_sec o' idx = Some sec /\ c_title sec = txt /\
                     nth_error (c_opts sec) j = Some n /\ decl n = decl u' /\ cb_valid2 (o_cbs n) = Some k).
Proof.
  intros NBm NEm NBu Fi Ni Km Mm Fj Nj. cbv zeta. rewrite cfg_set_validate_func2_reg.
  destruct (reg_multi_all (setv2 k) c mname uname i j m u NBm NEm NBu Fi Ni Km Mm Fj Nj)
    as [m' [A1 [A2 [A3 [A4 [A5 [A6 [A7 [A8 [A9 [A10 [A11 A12]]]]]]]]]]]].
  pose proof (setv2_only k u) as SO. assert (V : cb_valid2 (o_cbs (setv2 k u)) = Some k) by apply SO.
  exists m', (setv2 k u). repeat (split; [assumption|]).
  split; [|split].
  - intros sd fl title. destruct (A10 sd fl title) as [n [B1 B2]]. exists n. eauto using decl_cb_valid2.
  - intros sd ctx nocase title vals' idx H. destruct (A11 _ _ _ _ _ _ H) as [sec [n [B1 [B2 [B3 [B4 B5]]]]]].
    exists sec, n. eauto 10 using decl_cb_valid2.
  - intros sd fuel w c0 txt w' o' idx H. destruct (A12 _ _ _ _ _ _ _ _ H) as [sec [n [B1 [B2 [B3 B4]]]]].
    exists sec, n. eauto 10 using decl_cb_valid2.
Qed.

(* ---------- through a single section with an instance, any assignment f ---------- *)
Theorem reg_single_all f c sname uname i j s u inst :
  nobar sname = true -> sname <> [] -> nobar uname = true ->
  find_idx (fun o => name_eqb (cflag c CFGF_NOCASE) (o_name o) sname) (c_opts c) 0 = Some i ->
  nth_error (c_opts c) i = Some s -> o_kind s = KSec -> oflag s CFGF_MULTI = false ->
  nth_sec s 0 = Some inst ->
  find_idx (fun o => name_eqb (cflag c CFGF_NOCASE) (o_name o) uname) (c_opts inst) 0 = Some j ->
  nth_error (c_opts inst) j = Some u ->
  let c' := reg f c (sname ++ x7c :: uname) in
  c' = upd_opt c ([(i, 0)], j) f /\
  get_opt c ([(i, 0)], j) = Some u /\ get_opt c' ([(i, 0)], j) = Some (f u) /\
  (exists s', nth_error (c_opts c') i = Some s' /\
     o_sub s' = o_sub s /\ decl s' = decl s /\ o_flags s' = o_flags s /\ o_comment s' = o_comment s /\
     nth_sec s' 0 = Some (set_opts inst (upd_nth (c_opts inst) j f)) /\
     (forall v, v <> 0 -> nth_error (o_vals s') v = nth_error (o_vals s) v)) /\
  (forall j', j' <> j -> get_opt c' ([(i, 0)], j') = get_opt c ([(i, 0)], j')) /\
  (forall i', i' <> i -> nth_error (c_opts c') i' = nth_error (c_opts c) i').
Proof.
  intros NBs NEs NBu Fi Ni Ks Ms Is Fj Nj. cbv zeta.
  split; [apply (reg_single_eq f c sname uname i j s inst); assumption|].
  split; [apply (reg_single_ref c i j s u inst); assumption|].
  split; [apply (reg_single_live f c sname uname i j s u inst); assumption|].
  split; [apply (reg_single_option f c sname uname i j s inst); assumption|].
  split; [apply (reg_single_instance_others f c sname uname i j s inst); assumption|].
  apply (reg_single_others f c sname uname i j s inst); assumption.
Qed.

Theorem set_validate_func_single c sname uname i j s u inst k :
  nobar sname = true -> sname <> [] -> nobar uname = true ->
  find_idx (fun o => name_eqb (cflag c CFGF_NOCASE) (o_name o) sname) (c_opts c) 0 = Some i ->
  nth_error (c_opts c) i = Some s -> o_kind s = KSec -> oflag s CFGF_MULTI = false ->
  nth_sec s 0 = Some inst ->
  find_idx (fun o => name_eqb (cflag c CFGF_NOCASE) (o_name o) uname) (c_opts inst) 0 = Some j ->
  nth_error (c_opts inst) j = Some u ->
  let c' := cfg_set_validate_func c (sname ++ x7c :: uname) k in
  get_opt c ([(i, 0)], j) = Some u /\
  (exists u', get_opt c' ([(i, 0)], j) = Some u' /\ only_valid_changed k u u') /\
  (exists s', nth_error (c_opts c') i = Some s' /\
     o_sub s' = o_sub s /\ decl s' = decl s /\ o_flags s' = o_flags s /\ o_comment s' = o_comment s /\
     (forall v, v <> 0 -> nth_error (o_vals s') v = nth_error (o_vals s) v)) /\
  (forall j', j' <> j -> get_opt c' ([(i, 0)], j') = get_opt c ([(i, 0)], j')) /\
  (forall i', i' <> i -> nth_error (c_opts c') i' = nth_error (c_opts c) i').
Proof.
  intros NBs NEs NBu Fi Ni Ks Ms Is Fj Nj. cbv zeta. rewrite cfg_set_validate_func_reg.
  destruct (reg_single_all (setv k) c sname uname i j s u inst NBs NEs NBu Fi Ni Ks Ms Is Fj Nj)
    as [_ [A2 [A3 [[s' [B1 [B2 [B3 [B4 [B5 [_ B7]]]]]]] [A5 A6]]]]].
  split; [exact A2|]. split; [exists (setv k u); split; [exact A3|apply setv_only]|].
  split; [exists s'; auto 10|]. split; assumption.
Qed.

Theorem set_validate_func2_single c sname uname i j s u inst k :
  nobar sname = true -> sname <> [] -> nobar uname = true ->
  find_idx (fun o => name_eqb (cflag c CFGF_NOCASE) (o_name o) sname) (c_opts c) 0 = Some i ->
  nth_error (c_opts c) i = Some s -> o_kind s = KSec -> oflag s CFGF_MULTI = false ->
  nth_sec s 0 = Some inst ->
  find_idx (fun o => name_eqb (cflag c CFGF_NOCASE) (o_name o) uname) (c_opts inst) 0 = Some j ->
  nth_error (c_opts inst) j = Some u ->
  let c' := cfg_set_validate_func2 c (sname ++ x7c :: uname) k in
  get_opt c ([(i, 0)], j) = Some u /\
  (exists u', get_opt c' ([(i, 0)], j) = Some u' /\ only_valid2_changed k u u') /\
  (exists s', nth_error (c_opts c') i = Some s' /\
     o_sub s' = o_sub s /\ decl s' = decl s /\ o_flags s' = o_flags s /\ o_comment s' = o_comment s /\
     (forall v, v <> 0 -> nth_error (o_vals s') v = nth_error (o_vals s) v)) /\
  (forall j', j' <> j -> get_opt c' ([(i, 0)], j') = get_opt c ([(i, 0)], j')) /\
  (forall i', i' <> i -> nth_error (c_opts c') i' = nth_error (c_opts c) i').
Proof.
  intros NBs NEs NBu Fi Ni Ks Ms Is Fj Nj. cbv zeta. rewrite cfg_set_validate_func2_reg.
  destruct (reg_single_all (setv2 k) c sname uname i j s u inst NBs NEs NBu Fi Ni Ks Ms Is Fj Nj)
    as [_ [A2 [A3 [[s' [B1 [B2 [B3 [B4 [B5 [_ B7]]]]]]] [A5 A6]]]]].
  split; [exact A2|]. split; [exists (setv2 k u); split; [exact A3|apply setv2_only]|].
  split; [exists s'; auto 10|]. split; assumption.
Qed.

(* ---------- by plain name ---------- *)
Theorem set_validate_func_plain c n i o k :
  nobar n = true ->
  find_idx (fun o => name_eqb (cflag c CFGF_NOCASE) (o_name o) n) (c_opts c) 0 = Some i ->
  nth_error (c_opts c) i = Some o ->
  let c' := cfg_set_validate_func c n k in
  c' = upd_opt c ([], i) (setv k) /\
  (exists o', nth_error (c_opts c') i = Some o' /\ only_valid_changed k o o') /\
  (forall i', i' <> i -> nth_error (c_opts c') i' = nth_error (c_opts c) i').
Proof.
  intros NB F N. cbv zeta. rewrite cfg_set_validate_func_reg, (reg_plain _ _ _ _ NB F).
  split; [reflexivity|]. unfold upd_opt. cbn [fst snd upd_sec]. rewrite c_opts_set_opts.
  split.
  - exists (setv k o). split; [rewrite nth_upd_nth_eq, N; reflexivity|apply setv_only].
  - intros i' D. apply nth_upd_nth_neq. congruence.
Qed.

Theorem set_validate_func2_plain c n i o k :
  nobar n = true ->
  find_idx (fun o => name_eqb (cflag c CFGF_NOCASE) (o_name o) n) (c_opts c) 0 = Some i ->
  nth_error (c_opts c) i = Some o ->
  let c' := cfg_set_validate_func2 c n k in
  c' = upd_opt c ([], i) (setv2 k) /\
  (exists o', nth_error (c_opts c') i = Some o' /\ only_valid2_changed k o o') /\
  (forall i', i' <> i -> nth_error (c_opts c') i' = nth_error (c_opts c) i').
Proof.
  intros NB F N. cbv zeta. rewrite cfg_set_validate_func2_reg, (reg_plain _ _ _ _ NB F).
  split; [reflexivity|]. unfold upd_opt. cbn [fst snd upd_sec]. rewrite c_opts_set_opts.
  split.
  - exists (setv2 k o). split; [rewrite nth_upd_nth_eq, N; reflexivity|apply setv2_only].
  - intros i' D. apply nth_upd_nth_neq. congruence.
Qed.

(* ---------- nothing designated: the tree is handed back ---------- *)
Theorem set_validate_func_unresolved c name k :
  resolve_path (c_opts c) (cflag c CFGF_NOCASE) name = None ->
  cfg_set_validate_func c name k = c /\ cfg_set_validate_func2 c name k = c.
Proof. intro H. split; apply reg_unresolved; exact H. Qed.

(* two sub-options of one multi section, validate on the first and then on the second *)
Theorem set_validate_func_two c mname uname vname i j j2 m u v k1 k2 :
  nobar mname = true -> mname <> [] -> nobar uname = true -> nobar vname = true ->
  find_idx (fun o => name_eqb (cflag c CFGF_NOCASE) (o_name o) mname) (c_opts c) 0 = Some i ->
  nth_error (c_opts c) i = Some m -> o_kind m = KSec -> oflag m CFGF_MULTI = true ->
  find_idx (fun o => name_eqb (cflag c CFGF_NOCASE) (o_name o) uname) (o_sub m) 0 = Some j ->
  find_idx (fun o => name_eqb (cflag c CFGF_NOCASE) (o_name o) vname) (o_sub m) 0 = Some j2 ->
  nth_error (o_sub m) j = Some u -> nth_error (o_sub m) j2 = Some v -> j <> j2 ->
  let c2 := cfg_set_validate_func (cfg_set_validate_func c (mname ++ x7c :: uname) k1) (mname ++ x7c :: vname) k2 in
  c2 = cfg_set_validate_func (cfg_set_validate_func c (mname ++ x7c :: vname) k2) (mname ++ x7c :: uname) k1 /\
  exists m' u' v',
    nth_error (c_opts c2) i = Some m' /\ only_template_changed m m' /\
    nth_error (o_sub m') j = Some u' /\ only_valid_changed k1 u u' /\
    nth_error (o_sub m') j2 = Some v' /\ only_valid_changed k2 v v'.
Proof.
  intros NBm NEm NBu NBv Fi Ni Km Mm Fj Fj2 Nu Nv D. cbv zeta. rewrite !cfg_set_validate_func_reg.
  rewrite (reg_multi_two (setv k1) (setv k2) c mname uname vname i j j2 m) by (auto using keeps_setv).
  rewrite (reg_multi_two (setv k2) (setv k1) c mname vname uname i j2 j m) by (auto using keeps_setv).
  destruct (reg_multi_two_template (setv k1) (setv k2) (o_sub m) j j2 u v D Nu Nv) as [T1 [T2 T3]].
  split.
  - f_equal. apply upd_nth_ext. intros o No. rewrite Ni in No. injection No as <-. rewrite T3. reflexivity.
  - exists (set_sub m (upd_nth (upd_nth (o_sub m) j (setv k1)) j2 (setv k2))), (setv k1 u), (setv k2 v).
    rewrite c_opts_set_opts, nth_upd_nth_eq, Ni, o_sub_set_sub. cbn [option_map].
    split; [reflexivity|].
    split.
    { unfold only_template_changed. rewrite o_vals_set_sub, o_name_set_sub, o_kind_set_sub, o_flags_set_sub,
        o_def_set_sub, o_comment_set_sub, o_cbs_set_sub. repeat split; reflexivity. }
    split; [exact T1|]. split; [apply setv_only|]. split; [exact T2|apply setv_only].
Qed.

(* ---------- bundles for Properties_C14b.v ---------- *)
Lemma path_separators :
  (forall fuel opts nocase rest f,
     array_upd (S fuel) opts nocase (x7c :: rest) f = array_upd fuel opts nocase (strip_bars rest) f) /\
  (forall rest, strip_bars (x7c :: rest) = strip_bars rest) /\
  (forall s, nobar s = true -> strip_bars s = s) /\
  strip_bars [] = [].
Proof.
  split; [exact array_upd_leading_bar|]. split; [exact strip_bars_bar|]. split; [exact strip_bars_nobar|reflexivity].
Qed.

Lemma path_failures fuel opts nocase s rest f :
  nobar s = true -> s <> [] ->
  (forallb (fun o => negb (name_eqb nocase (o_name o) s)) opts = true ->
   array_upd (S fuel) opts nocase (s ++ x7c :: rest) f = None) /\
  (forall k so, find_idx (fun o => name_eqb nocase (o_name o) s) opts 0 = Some k ->
                nth_error opts k = Some so -> o_kind so <> KSec ->
                array_upd (S fuel) opts nocase (s ++ x7c :: rest) f = None) /\
  (array_upd 0 opts nocase (s ++ x7c :: rest) f = None).
Proof.
  intros NB NE. split; [apply array_upd_no_section; assumption|].
  split; [intros; eapply array_upd_not_a_section; eassumption|reflexivity].
Qed.

Lemma path_general fuel opts nocase name f :
  array_upd fuel opts nocase name f = option_map (fun l => upd_loc opts l f) (resolve fuel opts nocase name) /\
  (forall g, array_upd fuel opts nocase name f = None <-> array_upd fuel opts nocase name g = None) /\
  (length name < fuel ->
   array_upd fuel opts nocase name f = array_upd (S (length name)) opts nocase name f /\
   resolve fuel opts nocase name = resolve_path opts nocase name).
Proof.
  split; [apply array_upd_resolve|]. split; [intro g; apply array_upd_defined|].
  intro H. split; [apply array_upd_fuel; exact H|apply (resolve_path_fuel fuel opts nocase name); exact H].
Qed.

Lemma place_read_back nocase fuel opts name l f :
  resolve fuel opts nocase name = Some l ->
  (exists o, get_loc opts l = Some o /\ name_eqb nocase (o_name o) (last_seg name) = true /\
             get_loc (upd_loc opts l f) l = Some (f o)) /\
  length (upd_loc opts l f) = length opts /\
  (forall j, j <> loc_head l -> nth_error (upd_loc opts l f) j = nth_error opts j).
Proof.
  intro R. destruct (resolve_named nocase fuel opts name l R) as [o [G Nm]].
  split; [exists o; split; [exact G|split; [exact Nm|rewrite get_upd_loc, G; reflexivity]]|].
  split; [apply upd_loc_length|intros; apply upd_loc_other; assumption].
Qed.

Lemma place_frame f k l opts o :
  nth_error opts k = Some o ->
  (exists o', nth_error (upd_loc opts (LTmpl k l) f) k = Some o' /\
              o_vals o' = o_vals o /\ o_sub o' = upd_loc (o_sub o) l f /\
              o_name o' = o_name o /\ o_kind o' = o_kind o /\ o_flags o' = o_flags o /\
              o_def o' = o_def o /\ o_comment o' = o_comment o /\ o_cbs o' = o_cbs o) /\
  (exists o', nth_error (upd_loc opts (LInst k l) f) k = Some o' /\
              o_sub o' = o_sub o /\
              o_name o' = o_name o /\ o_kind o' = o_kind o /\ o_flags o' = o_flags o /\
              o_def o' = o_def o /\ o_comment o' = o_comment o /\ o_cbs o' = o_cbs o /\
              (forall v, v <> 0 -> nth_error (o_vals o') v = nth_error (o_vals o) v)).
Proof. intro N. split; [apply upd_loc_tmpl_vals; exact N|apply upd_loc_inst_sub; exact N]. Qed.

Lemma declarations_survive sd fuel :
  (forall w c o t, decl (snd (fst (setopt sd fuel w c o t))) = decl o) /\
  (forall w c j u, nth_error (c_opts c) j = Some u ->
     exists u', nth_error (c_opts (snd (init_defaults sd fuel w c))) j = Some u' /\ decl u' = decl u) /\
  (forall w c l p j u, nth_error (c_opts c) j = Some u ->
     exists u', nth_error (c_opts (snd (fst (parse_internal sd fuel w c l p)))) j = Some u' /\ decl u' = decl u).
Proof.
  split; [intros; apply decl_setopt|].
  split; [intros; apply init_defaults_decl; assumption|intros; apply parse_internal_decl; assumption].
Qed.

Lemma new_instance_declared sd m j u :
  nth_error (o_sub m) j = Some u ->
  (forall fl title, exists u', nth_error (c_opts (instance sd fl m title)) j = Some u' /\
                               decl u' = decl u /\ o_flags u' = o_flags u /\ o_comment u' = o_comment u) /\
  (forall ctx nocase title vals' idx,
     oflag m CFGF_MULTI = true -> open_instance sd ctx nocase m title = Some (vals', idx) ->
     nth_error vals' idx = Some (VSec (Some (instance sd ctx m title))) /\
     (forall v, v <> idx -> v < length (o_vals m) -> nth_error vals' v = nth_error (o_vals m) v)) /\
  (forall fuel w c txt w' o' idx,
     o_kind m = KSec -> (oflag m CFGF_MULTI = true \/ o_vals m = []) ->
     setopt sd (S fuel) w c m txt = (w', o', Some idx) ->
     exists sec u', nth_sec o' idx = Some sec /\ c_title sec = txt /\
                    nth_error (c_opts sec) j = Some u' /\ decl u' = decl u).
Proof.
  intro N. split; [intros; apply instance_decl; exact N|].
  split; [intros; eapply open_instance_multi_fresh; eassumption|].
  intros. eapply setopt_newsec_decl; eassumption.
Qed.

Lemma unresolved_all c k :
  (forall name, resolve_path (c_opts c) (cflag c CFGF_NOCASE) name = None ->
     cfg_set_validate_func c name k = c /\ cfg_set_validate_func2 c name k = c) /\
  (forall n, nobar n = true ->
     forallb (fun o => negb (name_eqb (cflag c CFGF_NOCASE) (o_name o) n)) (c_opts c) = true ->
     cfg_set_validate_func c n k = c /\ cfg_set_validate_func2 c n k = c) /\
  (forall s rest, nobar s = true -> s <> [] ->
     forallb (fun o => negb (name_eqb (cflag c CFGF_NOCASE) (o_name o) s)) (c_opts c) = true ->
     cfg_set_validate_func c (s ++ x7c :: rest) k = c /\ cfg_set_validate_func2 c (s ++ x7c :: rest) k = c) /\
  (forall s rest i o, nobar s = true -> s <> [] ->
     find_idx (fun o => name_eqb (cflag c CFGF_NOCASE) (o_name o) s) (c_opts c) 0 = Some i ->
     nth_error (c_opts c) i = Some o -> o_kind o <> KSec ->
     cfg_set_validate_func c (s ++ x7c :: rest) k = c /\ cfg_set_validate_func2 c (s ++ x7c :: rest) k = c) /\
  (forall s u i m, nobar s = true -> s <> [] -> nobar u = true ->
     find_idx (fun o => name_eqb (cflag c CFGF_NOCASE) (o_name o) s) (c_opts c) 0 = Some i ->
     nth_error (c_opts c) i = Some m -> o_kind m = KSec -> oflag m CFGF_MULTI = true ->
     forallb (fun o => negb (name_eqb (cflag c CFGF_NOCASE) (o_name o) u)) (o_sub m) = true ->
     cfg_set_validate_func c (s ++ x7c :: u) k = c /\ cfg_set_validate_func2 c (s ++ x7c :: u) k = c).
Proof.
  split; [intros; apply set_validate_func_unresolved; assumption|].
  split; [intros; split; apply reg_undeclared; assumption|].
  split; [intros; split; apply reg_undeclared_section; assumption|].
  split; [intros; split; eapply reg_through_non_section; eassumption|].
  intros; split; eapply reg_undeclared_in_template; eassumption.
Qed.

Lemma lookup_blind c name name2 k :
  resolve_path (c_opts (cfg_set_validate_func c name k)) (cflag (cfg_set_validate_func c name k) CFGF_NOCASE) name2 =
    resolve_path (c_opts c) (cflag c CFGF_NOCASE) name2 /\
  resolve_path (c_opts (cfg_set_validate_func2 c name k)) (cflag (cfg_set_validate_func2 c name k) CFGF_NOCASE) name2 =
    resolve_path (c_opts c) (cflag c CFGF_NOCASE) name2.
Proof.
  split; [apply (resolve_after_reg (setv k)), keeps_setv|apply (resolve_after_reg (setv2 k)), keeps_setv2].
Qed.

Lemma registration_is_reg c name k :
  cfg_set_validate_func c name k = reg (setv k) c name /\
  cfg_set_validate_func2 c name k = reg (setv2 k) c name.
Proof. split; reflexivity. Qed.
