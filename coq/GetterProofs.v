(* GetterProofs.v — C09, the getter side: the by-name getters of Getters.v (cfg_getn*, cfg_gettsec)
   read back what the setters of Api.v stored.

   Contents
     1. the lookup skeleton sk_c: cfg_getopt_secidx reads only the skeleton of the tree
        (names, kinds, flag words outside RESET|MODIFIED, titles / flags / positions of contexts,
        and the instances of KSec options); updating a non-section option in place keeps it
     2. get_opt after upd_opt: same reference, disjoint reference, reference to an enclosing section option
     3. a reference found by the lookup only walks through KSec options
     4. what the getters read (cfg_getn_read), the zeros
     5. get-after-set for cfg_setn{int,float,bool,str}
     6. the frame: other names read the same; a failed setter changes nothing
     7. cfg_gettsec *)
From Coq Require String.
From Coq Require Import List Arith NArith ZArith Bool Lia.
From Coq.Strings Require Import Byte.
From LC Require Import Bytes Consts Conv Lexer Files Store Parser Api Getters ApiProofs PathProofs.
Import ListNotations.

Local Opaque strtol.

(* ================================================================== *)
(* 1. the lookup skeleton                                               *)
(* ================================================================== *)

Fixpoint sk_v (v : value) : value :=
  match v with
  | VSec (Some c) => VSec (Some (sk_c c))
  | _ => VSec None
  end
with sk_o (o : opt) : opt :=
  match o with
  | Opt n k f vals _ _ _ _ =>
      Opt n k (N.ldiff f RM)
          (match k with
           | KSec => (fix go (l : list value) : list value :=
                        match l with [] => [] | v :: r => sk_v v :: go r end) vals
           | _ => []
           end)
          [] defv0 None cbset0
  end
with sk_c (c : cfg) : cfg :=
  match c with
  | Cfg _ t f opts fi l e _ =>
      Cfg [] t f ((fix go (l : list opt) : list opt :=
                     match l with [] => [] | o :: r => sk_o o :: go r end) opts) fi l e None
  end.

Lemma sk_o_eq o :
  sk_o o = Opt (o_name o) (o_kind o) (N.ldiff (o_flags o) RM)
               (match o_kind o with KSec => map sk_v (o_vals o) | _ => [] end) [] defv0 None cbset0.
Proof.
  destruct o as [n k f vals sub d cm cb]. cbn [sk_o o_name o_kind o_flags o_vals].
  destruct k; reflexivity.
Qed.

Lemma sk_c_eq c :
  sk_c c = Cfg [] (c_title c) (c_flags c) (map sk_o (c_opts c)) (c_file c) (c_line c) (c_err c) None.
Proof.
  destruct c as [n t f opts fi l e p]. cbn [sk_c c_title c_flags c_opts c_file c_line c_err].
  reflexivity.
Qed.

Lemma sk_v_sec s : sk_v (VSec (Some s)) = VSec (Some (sk_c s)).
Proof. reflexivity. Qed.

(* --- fields of the skeleton --- *)
Lemma sk_o_name o : o_name (sk_o o) = o_name o.
Proof. rewrite sk_o_eq. reflexivity. Qed.
Lemma sk_o_kind o : o_kind (sk_o o) = o_kind o.
Proof. rewrite sk_o_eq. reflexivity. Qed.
Lemma sk_o_flags o : o_flags (sk_o o) = N.ldiff (o_flags o) RM.
Proof. rewrite sk_o_eq. reflexivity. Qed.
Lemma sk_o_vals o : o_kind o = KSec -> o_vals (sk_o o) = map sk_v (o_vals o).
Proof. intro K. rewrite sk_o_eq. cbn [o_vals]. rewrite K. reflexivity. Qed.

Lemma sk_o_oflag o m : N.land m RM = 0%N -> oflag (sk_o o) m = oflag o m.
Proof.
  intro D. unfold oflag. rewrite sk_o_flags. eapply has_frame_disj; [|exact D].
  rewrite N.ldiff_ldiff_l, N.lor_diag. reflexivity.
Qed.

Lemma sk_c_title c : c_title (sk_c c) = c_title c.
Proof. rewrite sk_c_eq. reflexivity. Qed.
Lemma sk_c_flags c : c_flags (sk_c c) = c_flags c.
Proof. rewrite sk_c_eq. reflexivity. Qed.
Lemma sk_c_cflag c m : cflag (sk_c c) m = cflag c m.
Proof. unfold cflag. rewrite sk_c_flags. reflexivity. Qed.
Lemma sk_c_opts c : c_opts (sk_c c) = map sk_o (c_opts c).
Proof. rewrite sk_c_eq. reflexivity. Qed.
Lemma sk_c_diag c fmt : cfg_diag (sk_c c) fmt = cfg_diag c fmt.
Proof. rewrite sk_c_eq. destruct c; reflexivity. Qed.

(* --- the reading functions of the loop on the skeleton --- *)
Lemma find_idx_map_sk {A B} (h : A -> B) (f : A -> bool) (g : B -> bool) l :
  (forall x, f x = g (h x)) -> forall i, find_idx f l i = find_idx g (map h l) i.
Proof.
  intros H. induction l as [|x l IH]; intros i; cbn [find_idx map]; [reflexivity|].
  rewrite <- H. destruct (f x); [reflexivity|apply IH].
Qed.

Lemma sk_getopt_leaf c n : getopt_leaf (sk_c c) n = getopt_leaf c n.
Proof.
  unfold getopt_leaf. rewrite sk_c_cflag, sk_c_opts. symmetry.
  apply find_idx_map_sk. intro x. rewrite sk_o_name. reflexivity.
Qed.

Lemma sk_nth_opts c k : nth_error (c_opts (sk_c c)) k = option_map sk_o (nth_error (c_opts c) k).
Proof. rewrite sk_c_opts. apply nth_error_map. Qed.

Lemma sk_gettsecidx_from nocase t : forall l i,
  gettsecidx_from nocase (map sk_v l) t i = gettsecidx_from nocase l t i.
Proof.
  induction l as [|v l IH]; intro i; [reflexivity|].
  cbn [map]. destruct v as [| | | |[s|]|]; try reflexivity.
  rewrite sk_v_sec. cbn [gettsecidx_from]. rewrite sk_c_title, sk_c_cflag.
  destruct (c_title s) as [tt|]; [|reflexivity].
  destruct (name_eqb (nocase || cflag s CFGF_NOCASE) t tt); [reflexivity|apply IH].
Qed.

Lemma sk_gettsecidx o t : o_kind o = KSec -> gettsecidx (sk_o o) t = gettsecidx o t.
Proof.
  intro K. unfold gettsecidx. rewrite (sk_o_oflag o CFGF_NOCASE eq_refl), (sk_o_vals o K).
  apply sk_gettsecidx_from.
Qed.

Lemma sk_nth_sec o v : o_kind o = KSec -> nth_sec (sk_o o) v = option_map sk_c (nth_sec o v).
Proof.
  intro K. unfold nth_sec. rewrite (sk_o_vals o K), nth_error_map.
  destruct (nth_error (o_vals o) v) as [[| | | |[s|]|]|]; reflexivity.
Qed.

Lemma sk_opt_getnsec o i : opt_getnsec (sk_o o) i = option_map sk_c (opt_getnsec o i).
Proof.
  unfold opt_getnsec. rewrite sk_o_kind.
  destruct (o_kind o) eqn:K; try reflexivity.
  rewrite (sk_o_vals o K), map_length.
  destruct (i <? N.of_nat (length (o_vals o)))%N; [apply sk_nth_sec; exact K|reflexivity].
Qed.

Lemma sk_mtuple sec name len after secname :
  mtuple (sk_c sec) name len after secname = mtuple sec name len after secname.
Proof.
  unfold mtuple. rewrite sk_getopt_leaf.
  destruct (getopt_leaf sec secname) as [k|]; [|reflexivity].
  rewrite sk_nth_opts. destruct (nth_error (c_opts sec) k) as [o|]; [|reflexivity].
  cbn [option_map]. rewrite sk_o_kind.
  destruct (kind_eqb (o_kind o) KSec) eqn:K; [|reflexivity]. cbn [negb].
  apply kind_eqb_eq in K.
  rewrite (sk_o_oflag o CFGF_MULTI eq_refl), (sk_o_oflag o CFGF_TITLE eq_refl).
  destruct after as [|c after']; [reflexivity|].
  destruct (negb (Byte.eqb c x3d)); [reflexivity|].
  destruct (negb (oflag o CFGF_MULTI)); [reflexivity|].
  destruct (parse_title after') as [[t l]|]; [|reflexivity].
  rewrite (sk_gettsecidx o t K). reflexivity.
Qed.

Lemma sk_msec sec oi i :
  msec (sk_c sec) oi i = option_map (fun x => (fst (fst x), snd (fst x), sk_c (snd x))) (msec sec oi i).
Proof.
  unfold msec. destruct oi as [k|]; [|reflexivity].
  destruct (0 <=? i)%Z; [|reflexivity].
  rewrite sk_nth_opts. destruct (nth_error (c_opts sec) k) as [o|]; [|reflexivity].
  cbn [option_map]. rewrite sk_opt_getnsec.
  destruct (opt_getnsec o (to_uint i)); reflexivity.
Qed.

Lemma sk_mdiag root sec oi title : mdiag (sk_c root) (sk_c sec) oi title = mdiag root sec oi title.
Proof.
  unfold mdiag. rewrite sk_c_cflag, !sk_c_diag.
  destruct (cflag root CFGF_IGNORE_UNKNOWN); [reflexivity|].
  destruct oi as [k|]; [|reflexivity].
  rewrite sk_nth_opts. destruct (nth_error (c_opts sec) k) as [o|]; [|reflexivity].
  cbn [option_map]. rewrite (sk_o_oflag o CFGF_MULTI eq_refl). reflexivity.
Qed.

Lemma sk_finish root sec steps wi last index name :
  finish_r (sk_c root) (sk_c sec) steps wi last index name = finish_r root sec steps wi last index name.
Proof.
  unfold finish_r. rewrite !sk_c_cflag, sk_getopt_leaf, sk_c_diag. reflexivity.
Qed.

Lemma sk_loop : forall fuel root sec steps name wi last index,
  secidx_loop fuel (sk_c root) (sk_c sec) steps name wi last index =
  secidx_loop fuel root sec steps name wi last index.
Proof.
  induction fuel as [|fuel IH]; intros root sec steps name wi last index; [reflexivity|].
  rewrite !secidx_loop_eq.
  destruct name as [|c n]; [apply sk_finish|].
  cbv beta iota zeta. set (nm := c :: n). set (len := strcspn nm is_bar_eq).
  rewrite sk_finish, sk_c_cflag, sk_c_diag, sk_mtuple.
  destruct (negb wi && match skipn len nm with [] => true | _ :: _ => false end); [reflexivity|].
  destruct (Nat.eqb len 0); [reflexivity|].
  destruct (mtuple sec nm len (skipn len nm) (firstn len nm)) as [[[[oi i] title] name1] len1].
  rewrite sk_msec, sk_mdiag.
  destruct (msec sec oi i) as [[[k v] s]|]; [|reflexivity].
  cbn [option_map fst snd].
  match goal with |- (if ?b then _ else _) = _ => destruct b end; [reflexivity|].
  apply IH.
Qed.

Lemma sk_getopt_secidx c name wi : getopt_secidx (sk_c c) name wi = getopt_secidx c name wi.
Proof. unfold getopt_secidx. destruct name; [reflexivity|apply sk_loop]. Qed.

(* the lookup (reference, index and diagnostics) is a function of the skeleton *)
Lemma lookup_skeleton c1 c2 : sk_c c1 = sk_c c2 ->
  forall name wi, getopt_secidx c1 name wi = getopt_secidx c2 name wi.
Proof. intros H name wi. rewrite <- (sk_getopt_secidx c1), H. apply sk_getopt_secidx. Qed.

Lemma cfg_getopt_skeleton c1 c2 : sk_c c1 = sk_c c2 -> forall name, cfg_getopt c1 name = cfg_getopt c2 name.
Proof. intros H name. unfold cfg_getopt. rewrite (lookup_skeleton c1 c2 H). reflexivity. Qed.

(* --- in-place updates that keep the skeleton --- *)
Lemma map_upd_nth_id {A B} (h : A -> B) (l : list A) i f :
  (forall x, nth_error l i = Some x -> h (f x) = h x) -> map h (upd_nth l i f) = map h l.
Proof.
  revert i. induction l as [|a l IH]; intros i H; [destruct i; reflexivity|].
  destruct i; cbn [upd_nth map].
  - rewrite (H a); reflexivity.
  - f_equal. apply IH. intros x Hx. apply H. exact Hx.
Qed.

Lemma sk_c_set_opts c l : map sk_o l = map sk_o (c_opts c) -> sk_c (set_opts c l) = sk_c c.
Proof. intro H. rewrite !sk_c_eq. destruct c; cbn [set_opts c_title c_flags c_opts c_file c_line c_err] in *. rewrite H. reflexivity. Qed.

Lemma sk_o_set_vals o l :
  (o_kind o = KSec -> map sk_v l = map sk_v (o_vals o)) -> sk_o (set_vals o l) = sk_o o.
Proof.
  intro H. rewrite !sk_o_eq. destruct o as [n k f vals sub d cm cb].
  cbn [set_vals o_name o_kind o_flags o_vals] in *. f_equal.
  destruct k; try reflexivity. apply H. reflexivity.
Qed.

Lemma sk_upd_sec : forall steps c s g,
  get_sec c steps = Some s -> sk_c (g s) = sk_c s -> sk_c (upd_sec c steps g) = sk_c c.
Proof.
  induction steps as [|[i v] r IH]; intros c s g G Hg.
  - cbn [get_sec] in G. injection G as <-. exact Hg.
  - cbn [get_sec] in G. cbn [upd_sec].
    destruct (nth_error (c_opts c) i) as [o|] eqn:No; [|discriminate].
    unfold nth_sec in G.
    destruct (nth_error (o_vals o) v) as [x|] eqn:Nv; [|discriminate].
    destruct x as [| | | |[s0|]|]; try discriminate.
    apply sk_c_set_opts. apply map_upd_nth_id.
    intros o' Ho'. rewrite No in Ho'. injection Ho' as <-.
    apply sk_o_set_vals. intros _. apply map_upd_nth_id.
    intros x Hx. rewrite Nv in Hx. injection Hx as <-.
    rewrite !sk_v_sec. rewrite (IH s0 s g G Hg). reflexivity.
Qed.

Lemma sk_upd_opt c r f o :
  get_opt c r = Some o -> sk_o (f o) = sk_o o -> sk_c (upd_opt c r f) = sk_c c.
Proof.
  unfold get_opt, upd_opt. intros H Hf.
  destruct (get_sec c (fst r)) as [s|] eqn:G; [|discriminate].
  eapply sk_upd_sec; [exact G|].
  apply sk_c_set_opts. apply map_upd_nth_id.
  intros x Hx. rewrite H in Hx. injection Hx as <-. exact Hf.
Qed.

(* a non-section option: the skeleton is its name, kind and flag word outside RESET|MODIFIED *)
Lemma sk_o_nonsec o o' :
  o_kind o <> KSec -> o_name o' = o_name o -> o_kind o' = o_kind o ->
  N.ldiff (o_flags o') RM = N.ldiff (o_flags o) RM -> sk_o o' = sk_o o.
Proof.
  intros K Hn Hk Hf. rewrite !sk_o_eq, Hn, Hk, Hf.
  destruct (o_kind o); try reflexivity. contradiction.
Qed.

Lemma frame_sk_o o o' : o_kind o <> KSec -> frame o o' -> sk_o o' = sk_o o.
Proof. intros K [Fn Fk _ _ _ Ff _]. apply sk_o_nonsec; assumption. Qed.

(* (1) lookup stability *)
Lemma lookup_stable_sk c r o o' :
  get_opt c r = Some o -> sk_o o' = sk_o o ->
  forall name, cfg_getopt (put_opt c r o') name = cfg_getopt c name.
Proof.
  intros G H name. apply cfg_getopt_skeleton. unfold put_opt. eapply sk_upd_opt; [exact G|exact H].
Qed.

Lemma lookup_stable c r o o' :
  get_opt c r = Some o -> o_kind o <> KSec ->
  o_name o' = o_name o -> o_kind o' = o_kind o ->
  N.ldiff (o_flags o') RM = N.ldiff (o_flags o) RM ->
  forall name, cfg_getopt (put_opt c r o') name = cfg_getopt c name.
Proof.
  intros G K Hn Hk Hf. eapply lookup_stable_sk; [exact G|]. apply sk_o_nonsec; assumption.
Qed.

Lemma lookup_stable_secidx c r o o' :
  get_opt c r = Some o -> o_kind o <> KSec ->
  o_name o' = o_name o -> o_kind o' = o_kind o ->
  N.ldiff (o_flags o') RM = N.ldiff (o_flags o) RM ->
  forall name wi, getopt_secidx (put_opt c r o') name wi = getopt_secidx c name wi.
Proof.
  intros G K Hn Hk Hf. apply lookup_skeleton. unfold put_opt. eapply sk_upd_opt; [exact G|].
  apply sk_o_nonsec; assumption.
Qed.

(* ================================================================== *)
(* 2. get_opt after upd_opt                                             *)
(* ================================================================== *)

Lemma nth_error_upd_nth_same {A} (l : list A) i f :
  nth_error (upd_nth l i f) i = option_map f (nth_error l i).
Proof.
  revert i. induction l as [|a l IH]; intro i; destruct i; cbn [upd_nth nth_error option_map]; auto.
Qed.

Lemma nth_error_upd_nth_other {A} (l : list A) i j f :
  j <> i -> nth_error (upd_nth l i f) j = nth_error l j.
Proof.
  revert i j. induction l as [|a l IH]; intros i j H; destruct i, j; cbn [upd_nth nth_error]; auto.
  contradiction.
Qed.

Lemma c_opts_set_opts c l : c_opts (set_opts c l) = l.
Proof. destruct c; reflexivity. Qed.
Lemma o_vals_set_vals o l : o_vals (set_vals o l) = l.
Proof. destruct o; reflexivity. Qed.

Lemma get_sec_upd_sec_same : forall steps c s g,
  get_sec c steps = Some s -> get_sec (upd_sec c steps g) steps = Some (g s).
Proof.
  induction steps as [|[i v] r IH]; intros c s g G.
  - cbn [get_sec] in *. injection G as <-. reflexivity.
  - cbn [get_sec] in G. cbn [upd_sec get_sec].
    destruct (nth_error (c_opts c) i) as [o|] eqn:No; [|discriminate].
    unfold nth_sec in G.
    destruct (nth_error (o_vals o) v) as [x|] eqn:Nv; [|discriminate].
    destruct x as [| | | |[s0|]|]; try discriminate.
    rewrite c_opts_set_opts, nth_error_upd_nth_same, No. cbn [option_map].
    unfold nth_sec. rewrite o_vals_set_vals, nth_error_upd_nth_same, Nv. cbn [option_map].
    apply IH. exact G.
Qed.

(* the reference that was updated *)
Lemma get_opt_upd_same c r f o : get_opt c r = Some o -> get_opt (upd_opt c r f) r = Some (f o).
Proof.
  unfold get_opt, upd_opt. intro H.
  destruct (get_sec c (fst r)) as [s|] eqn:G; [|discriminate].
  rewrite (get_sec_upd_sec_same _ _ _ _ G), c_opts_set_opts, nth_error_upd_nth_same, H. reflexivity.
Qed.

Lemma get_opt_put_same c r o o' : get_opt c r = Some o -> get_opt (put_opt c r o') r = Some o'.
Proof. intro H. unfold put_opt. rewrite (get_opt_upd_same c r _ o H). reflexivity. Qed.

(* b lies below the option a: its section path walks through an instance of a *)
Definition through (a b : optref) : Prop := exists v rest, fst b = fst a ++ (snd a, v) :: rest.

Lemma through_dec a b : through a b \/ ~ through a b.
Proof.
  destruct a as [pa ia], b as [pb ib]. unfold through. cbn [fst snd].
  revert pb. induction pa as [|[k v] pa IH]; intro pb.
  - destruct pb as [|[k2 v2] rest].
    + right. intros (v & rest & H). discriminate.
    + destruct (Nat.eq_dec k2 ia) as [->|D].
      * left. exists v2, rest. reflexivity.
      * right. intros (v & rest' & H). cbn [app] in H. injection H as H _ _. contradiction.
  - destruct pb as [|[k2 v2] pb'].
    + right. intros (v' & rest & H). discriminate.
    + destruct (Nat.eq_dec k k2) as [->|Dk].
      * destruct (Nat.eq_dec v v2) as [->|Dv].
        -- destruct (IH pb') as [(v' & rest & H)|N].
           ++ left. exists v', rest. cbn [app]. rewrite H. reflexivity.
           ++ right. intros (v' & rest & H). cbn [app] in H. injection H as H. apply N. exists v', rest. exact H.
        -- right. intros (v' & rest & H). cbn [app] in H. injection H as H _. symmetry in H. contradiction.
      * right. intros (v' & rest & H). cbn [app] in H. injection H as H _ _. symmetry in H. contradiction.
Qed.

(* a reference that is neither the updated one, nor below it, nor an enclosing section option *)
Lemma get_opt_upd_disjoint : forall p c i f p2 i2,
  (p2, i2) <> (p, i) -> ~ through (p, i) (p2, i2) -> ~ through (p2, i2) (p, i) ->
  get_opt (upd_opt c (p, i) f) (p2, i2) = get_opt c (p2, i2).
Proof.
  unfold through, get_opt, upd_opt. cbn [fst snd].
  induction p as [|[k0 v0] p IH]; intros c i f p2 i2 Hne Hb Ha.
  - cbn [upd_sec app] in *. destruct p2 as [|[k v] rest].
    + cbn [get_sec]. rewrite c_opts_set_opts. apply nth_error_upd_nth_other.
      intro E. apply Hne. subst. reflexivity.
    + cbn [get_sec]. rewrite c_opts_set_opts, nth_error_upd_nth_other; [reflexivity|].
      intro E. apply Hb. exists v, rest. subst. reflexivity.
  - cbn [upd_sec]. destruct p2 as [|[k v] rest].
    + cbn [get_sec]. rewrite c_opts_set_opts. apply nth_error_upd_nth_other.
      intro E. apply Ha. exists v0, p. subst. reflexivity.
    + cbn [get_sec]. rewrite c_opts_set_opts.
      destruct (Nat.eq_dec k k0) as [->|Dk]; [|rewrite nth_error_upd_nth_other by exact Dk; reflexivity].
      rewrite nth_error_upd_nth_same.
      destruct (nth_error (c_opts c) k0) as [o|]; [|reflexivity]. cbn [option_map].
      unfold nth_sec. rewrite o_vals_set_vals.
      destruct (Nat.eq_dec v v0) as [->|Dv]; [|rewrite nth_error_upd_nth_other by exact Dv; reflexivity].
      rewrite nth_error_upd_nth_same.
      destruct (nth_error (o_vals o) v0) as [x|]; [|reflexivity]. cbn [option_map].
      destruct x as [| | | |[s0|]|]; try reflexivity.
      apply IH.
      * intro E. apply Hne. injection E as -> ->. reflexivity.
      * intros (v' & rest' & H). apply Hb. exists v', rest'. cbn [app]. rewrite H. reflexivity.
      * intros (v' & rest' & H). apply Ha. exists v', rest'. cbn [app]. rewrite H. reflexivity.
Qed.

Lemma get_opt_upd_other c r f r2 :
  r2 <> r -> ~ through r r2 -> ~ through r2 r -> get_opt (upd_opt c r f) r2 = get_opt c r2.
Proof. destruct r as [p i], r2 as [p2 i2]. apply get_opt_upd_disjoint. Qed.

Lemma get_opt_put_other c r o' r2 :
  r2 <> r -> ~ through r r2 -> ~ through r2 r -> get_opt (put_opt c r o') r2 = get_opt c r2.
Proof. apply get_opt_upd_other. Qed.

(* an update below the section option r2 is an update of one instance of r2 *)
Definition inst_upd (v : nat) (g : cfg -> cfg) (o : opt) : opt :=
  set_vals o (upd_nth (o_vals o) v (fun x => match x with VSec (Some s) => VSec (Some (g s)) | _ => x end)).

Lemma upd_sec_app : forall a c b g, upd_sec c (a ++ b) g = upd_sec c a (fun s => upd_sec s b g).
Proof.
  induction a as [|[i v] a IH]; intros c b g; [reflexivity|].
  cbn [app upd_sec]. f_equal. 
  assert (E : forall l, upd_nth l i (fun o => set_vals o (upd_nth (o_vals o) v (fun x =>
                 match x with VSec (Some s) => VSec (Some (upd_sec s (a ++ b) g)) | _ => x end))) =
               upd_nth l i (fun o => set_vals o (upd_nth (o_vals o) v (fun x =>
                 match x with VSec (Some s) => VSec (Some (upd_sec s a (fun s0 => upd_sec s0 b g))) | _ => x end)))).
  { induction l as [|o l IHl] in i |- *; [destruct i; reflexivity|].
    destruct i; cbn [upd_nth]; [|f_equal; apply IHl].
    f_equal. f_equal.
    generalize (o_vals o) v. intro vl. induction vl as [|x vl IH0]; intro v1; [destruct v1; reflexivity|].
    destruct v1; cbn [upd_nth]; [|f_equal; apply IH0].
    f_equal. destruct x as [| | | |[s|]|]; try reflexivity. rewrite IH. reflexivity. }
  apply E.
Qed.

Lemma upd_opt_below c p k v rest i f :
  upd_opt c (p ++ (k, v) :: rest, i) f = upd_opt c (p, k) (inst_upd v (fun s => upd_opt s (rest, i) f)).
Proof.
  unfold upd_opt. cbn [fst snd]. rewrite upd_sec_app. reflexivity.
Qed.

(* ================================================================== *)
(* 3. what the lookup returns resolves, and walks only through KSec options *)
(* ================================================================== *)

Definition ksec_path (c : cfg) (p : list (nat * nat)) : Prop :=
  forall p1 k v p2, p = p1 ++ (k, v) :: p2 -> exists o, get_opt c (p1, k) = Some o /\ o_kind o = KSec.

Lemma ksec_path_nil c : ksec_path c [].
Proof. intros p1 k v p2 H. destruct p1; discriminate. Qed.

Lemma ksec_path_snoc c p k v s o :
  ksec_path c p -> get_sec c p = Some s -> nth_error (c_opts s) k = Some o -> o_kind o = KSec ->
  ksec_path c (p ++ [(k, v)]).
Proof.
  intros Hp Gs No Ko p1 k' v' p2 E.
  induction p2 as [|x p2' _] using rev_ind.
  - apply app_inj_tail in E. destruct E as [<- E]. injection E as <- <-.
    exists o. unfold get_opt. cbn [fst snd]. rewrite Gs. split; assumption.
  - change (p1 ++ (k', v') :: p2' ++ [x]) with (p1 ++ ((k', v') :: p2') ++ [x]) in E.
    rewrite app_assoc in E. apply app_inj_tail in E. destruct E as [E _].
    exact (Hp p1 k' v' p2' E).
Qed.

Lemma find_idx_lt {A} (f : A -> bool) l : forall i j, find_idx f l i = Some j -> i <= j < i + length l.
Proof.
  induction l as [|x l IH]; intros i j H; [discriminate|].
  cbn [find_idx] in H. cbn [length]. destruct (f x).
  - injection H as <-. lia.
  - apply IH in H. lia.
Qed.

Lemma opt_getnsec_kind o idx s : opt_getnsec o idx = Some s -> o_kind o = KSec.
Proof. unfold opt_getnsec. destruct (o_kind o); try discriminate. reflexivity. Qed.

Lemma loop_ksec : forall fuel root sec steps name last index res,
  get_sec root (rev steps) = Some sec -> ksec_path root (rev steps) ->
  rs_opt (secidx_loop fuel root sec steps name false last index) = Some res ->
  ksec_path root (fst res) /\ get_opt root res <> None.
Proof.
  induction fuel as [|fuel IH]; intros root sec steps name last index res Gs Ks; [discriminate|].
  assert (Fin : forall nm, rs_opt (finish_r root sec steps false last index nm) = Some res ->
                ksec_path root (fst res) /\ get_opt root res <> None).
  { intros nm. unfold finish_r. destruct nm as [|c0 n0]; [discriminate|].
    destruct (getopt_leaf sec (c0 :: n0)) as [i|] eqn:L; [|discriminate].
    cbn [rs_opt]. intro H. injection H as <-. cbn [fst]. split; [exact Ks|].
    unfold get_opt. cbn [fst snd]. rewrite Gs.
    unfold getopt_leaf in L. apply find_idx_lt in L.
    apply nth_error_Some. lia. }
  rewrite secidx_loop_eq.
  destruct name as [|c n]; [apply Fin|].
  cbv beta iota zeta. set (nm := c :: n). set (len := strcspn nm is_bar_eq).
  destruct (negb false && match skipn len nm with [] => true | _ :: _ => false end); [apply Fin|].
  destruct (Nat.eqb len 0); [discriminate|].
  destruct (mtuple sec nm len (skipn len nm) (firstn len nm)) as [[[[oi i] title] name1] len1].
  destruct (msec sec oi i) as [[[k v] s]|] eqn:Hms; [|discriminate].
  match goal with |- rs_opt (if ?b then _ else _) = _ -> _ => destruct b end; [discriminate|].
  destruct (msec_inv _ _ _ _ _ _ Hms) as [o [Hk [_ [Hget Hv]]]].
  apply IH.
  - cbn [rev]. rewrite get_sec_app, Gs. cbn [get_sec]. rewrite Hk.
    subst v. rewrite (opt_getnsec_nth _ _ _ Hget). reflexivity.
  - cbn [rev]. eapply ksec_path_snoc; [exact Ks|exact Gs|exact Hk|].
    eapply opt_getnsec_kind; exact Hget.
Qed.

Lemma cfg_getopt_ksec c name r :
  fst (cfg_getopt c name) = Some r -> ksec_path c (fst r) /\ get_opt c r <> None.
Proof.
  unfold cfg_getopt, getopt_secidx. cbn [fst]. destruct name as [|c0 n0]; [discriminate|].
  apply loop_ksec; [reflexivity|apply ksec_path_nil].
Qed.

(* the lookup never answers a reference below an option that is not a section option *)
Lemma cfg_getopt_not_below c name r2 r o :
  fst (cfg_getopt c name) = Some r2 -> get_opt c r = Some o -> o_kind o <> KSec -> ~ through r r2.
Proof.
  intros H G K (v & rest & E). apply cfg_getopt_ksec in H. destruct H as [Ks _].
  destruct (Ks _ _ _ _ E) as [o2 [G2 K2]].
  destruct r as [p i]. cbn [fst snd] in G2. rewrite G in G2. injection G2 as <-. contradiction.
Qed.

(* ================================================================== *)
(* 4. what the getters read                                             *)
(* ================================================================== *)

(* the answer for a slot content (None: no such slot / wrong kind) *)
Definition res_of (k : kind) (r : optref) (index : N) (v : option value) : gres :=
  match k with
  | KInt => GInt (match v with Some (VInt z) => z | _ => 0%Z end)
  | KFloat => GFloat (match v with Some (VFloat b) => b | _ => 0%N end)
  | KBool => GBool (match v with Some (VBool b) => b | _ => false end)
  | KStr => GStr (match v with Some (VStr s) => s | _ => None end)
  | KPtr => GPtr (match v with Some (VPtr id) => id | _ => 0%N end)
  | KSec => GSec (match v with
                  | Some (VSec (Some _)) => Some (fst r ++ [(snd r, N.to_nat index)])
                  | _ => None
                  end)
  | _ => GInt 0
  end.

(* the zero of each getter *)
Definition gzero (k : kind) : gres :=
  match k with
  | KInt => GInt 0 | KFloat => GFloat 0 | KBool => GBool false | KStr => GStr None
  | KPtr => GPtr 0 | KSec => GSec None | _ => GInt 0
  end.

(* the answer for a stored scalar *)
Definition gres_val (v : value) : gres :=
  match v with
  | VInt z => GInt z | VFloat b => GFloat b | VBool b => GBool b | VStr s => GStr s | VPtr id => GPtr id
  | VSec _ => GSec None
  end.

Lemma getn_of_some k r o i : getn_of k (Some (r, o)) i = res_of k r i (opt_getn o k i).
Proof. destruct k; reflexivity. Qed.

Lemma getn_of_none k i : getn_of k None i = gzero k.
Proof. destruct k; reflexivity. Qed.

Lemma res_of_none k r i : res_of k r i None = gzero k.
Proof. destruct k; reflexivity. Qed.

Lemma res_of_val v r i : val_kind v <> KSec -> res_of (val_kind v) r i (Some v) = gres_val v.
Proof. destruct v; try reflexivity. intro H. exfalso. apply H. reflexivity. Qed.

Lemma opt_getn_nth o k i :
  opt_getn o k i = if kind_eqb (o_kind o) k then nth_error (o_vals o) (N.to_nat i) else None.
Proof.
  unfold opt_getn. destruct (kind_eqb (o_kind o) k); [|reflexivity].
  destruct (N.ltb_spec i (N.of_nat (length (o_vals o)))) as [L|L]; [reflexivity|].
  symmetry. apply nth_error_None. lia.
Qed.

Lemma look_resolved w c name r o :
  fst (cfg_getopt c name) = Some r -> get_opt c r = Some o ->
  look w c name = (add_diags w (snd (cfg_getopt c name)), Some (r, o)).
Proof.
  unfold look. destruct (cfg_getopt c name) as [ro ds]. cbn [fst snd]. intros -> ->. reflexivity.
Qed.

Lemma look_unresolved w c name :
  fst (cfg_getopt c name) = None -> look w c name = (add_diags w (snd (cfg_getopt c name)), None).
Proof.
  unfold look. destruct (cfg_getopt c name) as [ro ds]. cbn [fst snd]. intros ->. reflexivity.
Qed.

Lemma cfg_getn_eq w c k name i :
  cfg_getn w c k name i = (fst (look w c name), getn_of k (snd (look w c name)) i).
Proof. unfold cfg_getn. destruct (look w c name). reflexivity. Qed.

(* the getter answers from the value list of the option the name resolves to *)
Lemma cfg_getn_read w c k name i r o :
  fst (cfg_getopt c name) = Some r -> get_opt c r = Some o ->
  snd (cfg_getn w c k name i) =
  res_of k r i (if kind_eqb (o_kind o) k then nth_error (o_vals o) (N.to_nat i) else None).
Proof.
  intros Hr Hg. rewrite cfg_getn_eq, (look_resolved w c name r o Hr Hg). cbn [snd].
  rewrite getn_of_some, opt_getn_nth. reflexivity.
Qed.

Lemma cfg_getn_value w c name j r o v :
  fst (cfg_getopt c name) = Some r -> get_opt c r = Some o ->
  nth_error (o_vals o) j = Some v -> val_kind v = o_kind o -> o_kind o <> KSec ->
  snd (cfg_getn w c (o_kind o) name (N.of_nat j)) = gres_val v.
Proof.
  intros Hr Hg Hn Hk Hs. rewrite (cfg_getn_read w c _ name _ r o Hr Hg).
  rewrite (proj2 (kind_eqb_eq _ _) eq_refl), Nat2N.id, Hn, <- Hk. apply res_of_val. rewrite Hk. exact Hs.
Qed.

(* the zeros *)
Lemma cfg_getn_wrong_kind w c k name i r o :
  fst (cfg_getopt c name) = Some r -> get_opt c r = Some o -> o_kind o <> k ->
  snd (cfg_getn w c k name i) = gzero k.
Proof.
  intros Hr Hg K. rewrite (cfg_getn_read w c k name i r o Hr Hg), (kind_eqb_neq _ _ K). apply res_of_none.
Qed.

Lemma cfg_getn_beyond w c k name i r o :
  fst (cfg_getopt c name) = Some r -> get_opt c r = Some o ->
  (N.of_nat (length (o_vals o)) <= i)%N ->
  snd (cfg_getn w c k name i) = gzero k.
Proof.
  intros Hr Hg L. rewrite (cfg_getn_read w c k name i r o Hr Hg).
  assert (E : nth_error (o_vals o) (N.to_nat i) = None) by (apply nth_error_None; lia).
  rewrite E. destruct (kind_eqb (o_kind o) k); apply res_of_none.
Qed.

Lemma cfg_getn_unknown w c k name i :
  fst (cfg_getopt c name) = None -> snd (cfg_getn w c k name i) = gzero k.
Proof.
  intro Hr. rewrite cfg_getn_eq, (look_unresolved w c name Hr). cbn [snd]. apply getn_of_none.
Qed.

(* ================================================================== *)
(* 5. get-after-set                                                     *)
(* ================================================================== *)

(* what the scripted validcb2 lets through when it does not fail *)
Definition v2_through (o : opt) (a : v2arg) : v2arg :=
  match cb_valid2 (o_cbs o) with
  | None => a
  | Some k => if (k =? 1)%N then
                match a with
                | V2Int z => V2Int (Z.abs z)
                | V2Float b => V2Float (N.land b 9223372036854775807)
                | x => x
                end
              else a
  end.

Definition int_through (o : opt) (z : Z) : Z := match v2_through o (V2Int z) with V2Int x => x | _ => z end.
Definition float_through (o : opt) (b : N) : N := match v2_through o (V2Float b) with V2Float x => x | _ => b end.

Lemma run_validcb2_pass w o a w1 a1 : run_validcb2 w o a = (w1, a1, false) -> a1 = v2_through o a.
Proof.
  unfold run_validcb2, v2_through. destruct (cb_valid2 (o_cbs o)) as [k|].
  - destruct (tick w) as [w2 f]. intro H. injection H as _ Ha Hf. subst f. symmetry. exact Ha.
  - intro H. injection H as _ Ha. symmetry. exact Ha.
Qed.

Lemma int_through_nocb o z : cb_valid2 (o_cbs o) = None -> int_through o z = z.
Proof. unfold int_through, v2_through. intros ->. reflexivity. Qed.
Lemma float_through_nocb o b : cb_valid2 (o_cbs o) = None -> float_through o b = b.
Proof. unfold float_through, v2_through. intros ->. reflexivity. Qed.

Lemma through_nocb o : cb_valid2 (o_cbs o) = None ->
  (forall z, int_through o z = z) /\ (forall b, float_through o b = b).
Proof. intro H. split; intro x; [apply int_through_nocb|apply float_through_nocb]; exact H. Qed.

(* the slot a successful cfg_opt_setn* writes: 0 on a pristine option, the index if it exists, else the end *)
Definition slot_of (o : opt) (index : N) : nat :=
  if oflag o CFGF_RESET then 0
  else if (index <? N.of_nat (length (o_vals o)))%N then N.to_nat index else length (o_vals o).

Lemma setn_vals_slot o v index : nth_error (setn_vals o v index) (slot_of o index) = Some v.
Proof.
  unfold setn_vals, slot_of. destruct (oflag o CFGF_RESET); [reflexivity|].
  destruct (N.ltb_spec index (N.of_nat (length (o_vals o)))) as [L|L].
  - rewrite nth_error_upd_nth_same.
    destruct (nth_error (o_vals o) (N.to_nat index)) eqn:E; [reflexivity|].
    apply nth_error_None in E. lia.
  - apply nth_error_app_last.
Qed.

Lemma setn_vals_other o v index j : j <> slot_of o index ->
  nth_error (setn_vals o v index) j = if oflag o CFGF_RESET then None else nth_error (o_vals o) j.
Proof.
  unfold setn_vals, slot_of. destruct (oflag o CFGF_RESET).
  - intro H. destruct j as [|j]; [contradiction|]. destruct j; reflexivity.
  - destruct (N.ltb_spec index (N.of_nat (length (o_vals o)))) as [L|L]; intro H.
    + apply nth_error_upd_nth_other. exact H.
    + destruct (Nat.lt_ge_cases j (length (o_vals o))) as [Lt|Ge].
      * apply nth_error_app1. exact Lt.
      * assert (E1 : nth_error (o_vals o ++ [v]) j = None).
        { apply nth_error_None. rewrite app_length. cbn [length]. lia. }
        assert (E2 : nth_error (o_vals o) j = None) by (apply nth_error_None; lia).
        rewrite E1, E2. reflexivity.
Qed.

Lemma with_opt_resolved w c name f r o :
  fst (cfg_getopt c name) = Some r -> get_opt c r = Some o ->
  with_opt w c name f =
  (fst (fst (f (add_diags w (snd (cfg_getopt c name))) r o)),
   put_opt c r (snd (fst (f (add_diags w (snd (cfg_getopt c name))) r o))),
   snd (f (add_diags w (snd (cfg_getopt c name))) r o)).
Proof.
  unfold with_opt. destruct (cfg_getopt c name) as [ro ds]. cbn [fst snd]. intros -> ->.
  destruct (f (add_diags w ds) r o) as [[w1 o1] rc]. reflexivity.
Qed.

Section GetAfterSet.
Variables (c : cfg) (name : str) (r : optref) (o : opt).
Hypothesis Hres : fst (cfg_getopt c name) = Some r.
Hypothesis Hget : get_opt c r = Some o.

(* reading the tree after a successful cfg_opt_setn* on the option the name resolves to *)
Lemma get_after_opt_setn w1 k v index w1' o1 :
  opt_setn w1 o k v index = (w1', o1, OK) -> k <> KSec ->
  forall w2 kk i,
  snd (cfg_getn w2 (put_opt c r o1) kk name i) =
  res_of kk r i (if kind_eqb k kk then nth_error (setn_vals o v index) (N.to_nat i) else None).
Proof.
  intros H Kn w2 kk i.
  pose proof (opt_setn_ok_frame _ _ _ _ _ _ _ H) as [F _].
  apply opt_setn_ok in H. destruct H as [K [_ E]].
  assert (Ks : o_kind o <> KSec) by (rewrite K; exact Kn).
  assert (L : fst (cfg_getopt (put_opt c r o1) name) = Some r).
  { rewrite (lookup_stable_sk c r o o1 Hget (frame_sk_o o o1 Ks F)). exact Hres. }
  rewrite (cfg_getn_read w2 _ kk name i r o1 L (get_opt_put_same c r o o1 Hget)).
  rewrite (fr_kind _ _ F), K. subst o1. rewrite o_vals_set_vals. reflexivity.
Qed.

Lemma get_after_set_core w1 k v index w1' o1 :
  opt_setn w1 o k v index = (w1', o1, OK) -> val_kind v = k -> k <> KSec ->
  forall w2,
  snd (cfg_getn w2 (put_opt c r o1) k name (N.of_nat (slot_of o index))) = gres_val v /\
  (forall j, j <> slot_of o index ->
     snd (cfg_getn w2 (put_opt c r o1) k name (N.of_nat j)) =
     if oflag o CFGF_RESET then gzero k else snd (cfg_getn w2 c k name (N.of_nat j))) /\
  (forall kk i, kk <> k -> snd (cfg_getn w2 (put_opt c r o1) kk name i) = gzero kk).
Proof.
  intros H Vk Kn w2.
  pose proof (get_after_opt_setn _ _ _ _ _ _ H Kn w2) as R.
  assert (K : o_kind o = k) by (apply opt_setn_ok in H; tauto).
  assert (KK : kind_eqb k k = true) by (apply kind_eqb_eq; reflexivity).
  split; [|split].
  - rewrite R, KK, Nat2N.id, setn_vals_slot. subst k. apply res_of_val. exact Kn.
  - intros j Hj. rewrite R, KK, Nat2N.id, (setn_vals_other o v index j Hj).
    destruct (oflag o CFGF_RESET); [apply res_of_none|].
    rewrite (cfg_getn_read w2 c k name _ r o Hres Hget), K, KK, Nat2N.id. reflexivity.
  - intros kk i Hk. rewrite R, (kind_eqb_neq k kk) by congruence. apply res_of_none.
Qed.

(* --- the four typed setters reduce to cfg_opt_setn* on the resolved option --- *)
Lemma cfg_setnint_ok_inv w z index w' c' :
  cfg_setnint w c name z index = (w', c', OK) ->
  exists w1 o1, opt_setn w1 o KInt (VInt (int_through o z)) index = (w', o1, OK) /\ c' = put_opt c r o1.
Proof.
  unfold cfg_setnint. rewrite (with_opt_resolved _ _ _ _ r o Hres Hget).
  destruct (run_validcb2 _ o (V2Int z)) as [[w1 a] f] eqn:V. destruct f.
  - cbn [fst snd]. intro H. exfalso. injection H as _ _ H. exact (FAIL_ne_OK H).
  - apply run_validcb2_pass in V. unfold int_through. rewrite <- V.
    destruct (opt_setn w1 o KInt _ index) as [[w2 o1] rc] eqn:E. cbn [fst snd].
    intro H. injection H as <- <- ->. exists w1, o1. split; [exact E|reflexivity].
Qed.

Lemma cfg_setnfloat_ok_inv w b index w' c' :
  cfg_setnfloat w c name b index = (w', c', OK) ->
  exists w1 o1, opt_setn w1 o KFloat (VFloat (float_through o b)) index = (w', o1, OK) /\ c' = put_opt c r o1.
Proof.
  unfold cfg_setnfloat. rewrite (with_opt_resolved _ _ _ _ r o Hres Hget).
  destruct (run_validcb2 _ o (V2Float b)) as [[w1 a] f] eqn:V. destruct f.
  - cbn [fst snd]. intro H. exfalso. injection H as _ _ H. exact (FAIL_ne_OK H).
  - apply run_validcb2_pass in V. unfold float_through. rewrite <- V.
    destruct (opt_setn w1 o KFloat _ index) as [[w2 o1] rc] eqn:E. cbn [fst snd].
    intro H. injection H as <- <- ->. exists w1, o1. split; [exact E|reflexivity].
Qed.

Lemma cfg_setnbool_ok_inv w b index w' c' :
  cfg_setnbool w c name b index = (w', c', OK) ->
  exists w1 o1, opt_setn w1 o KBool (VBool b) index = (w', o1, OK) /\ c' = put_opt c r o1.
Proof.
  unfold cfg_setnbool. rewrite (with_opt_resolved _ _ _ _ r o Hres Hget).
  destruct (opt_setn _ o KBool _ index) as [[w2 o1] rc] eqn:E. cbn [fst snd].
  intro H. injection H as <- <- ->. eexists _, o1. split; [exact E|reflexivity].
Qed.

Lemma cfg_setnstr_ok_inv w s index w' c' :
  cfg_setnstr w c name s index = (w', c', OK) ->
  exists w1 o1, opt_setn w1 o KStr (VStr s) index = (w', o1, OK) /\ c' = put_opt c r o1.
Proof.
  unfold cfg_setnstr. rewrite (with_opt_resolved _ _ _ _ r o Hres Hget).
  destruct (run_validcb2 _ o (V2Str s)) as [[w1 a] f] eqn:V. destruct f.
  - cbn [fst snd]. intro H. exfalso. injection H as _ _ H. exact (FAIL_ne_OK H).
  - destruct (opt_setn w1 o KStr _ index) as [[w2 o1] rc] eqn:E. cbn [fst snd].
    intro H. injection H as <- <- ->. exists w1, o1. split; [exact E|reflexivity].
Qed.

(* (2) the store law, per setter *)
Lemma get_after_setnint w z index w' c' :
  cfg_setnint w c name z index = (w', c', OK) ->
  forall w2,
  snd (cfg_getn w2 c' KInt name (N.of_nat (slot_of o index))) = GInt (int_through o z) /\
  (forall j, j <> slot_of o index ->
     snd (cfg_getn w2 c' KInt name (N.of_nat j)) =
     if oflag o CFGF_RESET then GInt 0 else snd (cfg_getn w2 c KInt name (N.of_nat j))) /\
  (forall kk i, kk <> KInt -> snd (cfg_getn w2 c' kk name i) = gzero kk).
Proof.
  intro H. destruct (cfg_setnint_ok_inv _ _ _ _ _ H) as [w1 [o1 [E ->]]].
  exact (get_after_set_core _ _ _ _ _ _ E eq_refl ltac:(discriminate)).
Qed.

Lemma get_after_setnfloat w b index w' c' :
  cfg_setnfloat w c name b index = (w', c', OK) ->
  forall w2,
  snd (cfg_getn w2 c' KFloat name (N.of_nat (slot_of o index))) = GFloat (float_through o b) /\
  (forall j, j <> slot_of o index ->
     snd (cfg_getn w2 c' KFloat name (N.of_nat j)) =
     if oflag o CFGF_RESET then GFloat 0 else snd (cfg_getn w2 c KFloat name (N.of_nat j))) /\
  (forall kk i, kk <> KFloat -> snd (cfg_getn w2 c' kk name i) = gzero kk).
Proof.
  intro H. destruct (cfg_setnfloat_ok_inv _ _ _ _ _ H) as [w1 [o1 [E ->]]].
  exact (get_after_set_core _ _ _ _ _ _ E eq_refl ltac:(discriminate)).
Qed.

Lemma get_after_setnbool w b index w' c' :
  cfg_setnbool w c name b index = (w', c', OK) ->
  forall w2,
  snd (cfg_getn w2 c' KBool name (N.of_nat (slot_of o index))) = GBool b /\
  (forall j, j <> slot_of o index ->
     snd (cfg_getn w2 c' KBool name (N.of_nat j)) =
     if oflag o CFGF_RESET then GBool false else snd (cfg_getn w2 c KBool name (N.of_nat j))) /\
  (forall kk i, kk <> KBool -> snd (cfg_getn w2 c' kk name i) = gzero kk).
Proof.
  intro H. destruct (cfg_setnbool_ok_inv _ _ _ _ _ H) as [w1 [o1 [E ->]]].
  exact (get_after_set_core _ _ _ _ _ _ E eq_refl ltac:(discriminate)).
Qed.

Lemma get_after_setnstr w s index w' c' :
  cfg_setnstr w c name s index = (w', c', OK) ->
  forall w2,
  snd (cfg_getn w2 c' KStr name (N.of_nat (slot_of o index))) = GStr s /\
  (forall j, j <> slot_of o index ->
     snd (cfg_getn w2 c' KStr name (N.of_nat j)) =
     if oflag o CFGF_RESET then GStr None else snd (cfg_getn w2 c KStr name (N.of_nat j))) /\
  (forall kk i, kk <> KStr -> snd (cfg_getn w2 c' kk name i) = gzero kk).
Proof.
  intro H. destruct (cfg_setnstr_ok_inv _ _ _ _ _ H) as [w1 [o1 [E ->]]].
  exact (get_after_set_core _ _ _ _ _ _ E eq_refl ltac:(discriminate)).
Qed.

End GetAfterSet.

(* ================================================================== *)
(* 6. the frame                                                         *)
(* ================================================================== *)

(* cfg_gettsec on a looked-up option *)
Definition gettsec_of (ro : option (optref * opt)) (title : str) : option (list (nat * nat)) :=
  match ro with
  | Some (r, o) =>
      if oflag o CFGF_TITLE then
        match gettsecidx o title with
        | Some j => match opt_getnsec o (N.of_nat j) with Some _ => Some (fst r ++ [(snd r, j)]) | None => None end
        | None => None
        end
      else None
  | None => None
  end.

Lemma cfg_gettsec_eq w c name t :
  cfg_gettsec w c name t = (fst (look w c name), gettsec_of (snd (look w c name)) t).
Proof. unfold cfg_gettsec. destruct (look w c name) as [w1 [[r o]|]]; reflexivity. Qed.

(* an update inside one instance of a section option is invisible to the getters reading that option *)
Section InstUpd.
Variables (v : nat) (g : cfg -> cfg).
Hypothesis g_title : forall s, c_title (g s) = c_title s.
Hypothesis g_flags : forall s, c_flags (g s) = c_flags s.

Let h := fun x => match x with VSec (Some s) => VSec (Some (g s)) | _ => x end.

Lemma inst_upd_kind o : o_kind (inst_upd v g o) = o_kind o.
Proof. destruct o; reflexivity. Qed.
Lemma inst_upd_flags o : o_flags (inst_upd v g o) = o_flags o.
Proof. destruct o; reflexivity. Qed.
Lemma inst_upd_vals o : o_vals (inst_upd v g o) = upd_nth (o_vals o) v h.
Proof. destruct o; reflexivity. Qed.

Lemma inst_upd_getn o k r i : res_of k r i (opt_getn (inst_upd v g o) k i) = res_of k r i (opt_getn o k i).
Proof.
  rewrite !opt_getn_nth, inst_upd_kind, inst_upd_vals.
  destruct (kind_eqb (o_kind o) k); [|reflexivity].
  destruct (Nat.eq_dec (N.to_nat i) v) as [E|D].
  - rewrite E, nth_error_upd_nth_same.
    destruct (nth_error (o_vals o) v) as [x|]; [|reflexivity].
    cbn [option_map]. destruct x as [| | | |[s|]|], k; reflexivity.
  - rewrite nth_error_upd_nth_other by exact D. reflexivity.
Qed.

Lemma inst_upd_gettsecidx_from nocase t : forall l v0 i,
  gettsecidx_from nocase (upd_nth l v0 h) t i = gettsecidx_from nocase l t i.
Proof.
  induction l as [|x l IH]; intros v0 i; [destruct v0; reflexivity|].
  destruct v0 as [|v0]; cbn [upd_nth].
  - destruct x as [| | | |[s|]|]; try reflexivity.
    cbn [h gettsecidx_from]. unfold cflag. rewrite g_title, g_flags. reflexivity.
  - destruct x as [| | | |[s|]|]; try reflexivity.
    cbn [gettsecidx_from]. destruct (c_title s) as [tt|]; [|reflexivity].
    destruct (name_eqb (nocase || cflag s CFGF_NOCASE) t tt); [reflexivity|apply IH].
Qed.

Lemma inst_upd_gettsecidx o t : gettsecidx (inst_upd v g o) t = gettsecidx o t.
Proof.
  unfold gettsecidx, oflag. rewrite inst_upd_flags, inst_upd_vals. apply inst_upd_gettsecidx_from.
Qed.

Lemma inst_upd_getnsec o i A (a : A) (b : A) :
  match opt_getnsec (inst_upd v g o) i with Some _ => a | None => b end =
  match opt_getnsec o i with Some _ => a | None => b end.
Proof.
  unfold opt_getnsec. rewrite inst_upd_kind, inst_upd_vals, upd_nth_length.
  destruct (o_kind o); try reflexivity.
  destruct (i <? N.of_nat (length (o_vals o)))%N; [|reflexivity].
  unfold nth_sec. rewrite inst_upd_vals.
  destruct (Nat.eq_dec (N.to_nat i) v) as [E|D].
  - rewrite E, nth_error_upd_nth_same.
    destruct (nth_error (o_vals o) v) as [x|]; [|reflexivity].
    cbn [option_map]. destruct x as [| | | |[s|]|]; reflexivity.
  - rewrite nth_error_upd_nth_other by exact D. reflexivity.
Qed.

Lemma inst_upd_getn_of o k r i : getn_of k (Some (r, inst_upd v g o)) i = getn_of k (Some (r, o)) i.
Proof. rewrite !getn_of_some. apply inst_upd_getn. Qed.

Lemma inst_upd_gettsec_of o r t : gettsec_of (Some (r, inst_upd v g o)) t = gettsec_of (Some (r, o)) t.
Proof.
  unfold gettsec_of, oflag. rewrite inst_upd_flags, inst_upd_gettsecidx.
  destruct (has (o_flags o) CFGF_TITLE); [|reflexivity].
  destruct (gettsecidx o t) as [j|]; [|reflexivity].
  apply inst_upd_getnsec.
Qed.
End InstUpd.

Lemma upd_opt_title c r f : c_title (upd_opt c r f) = c_title c.
Proof. destruct r as [[|[i v] p] k]; destruct c; reflexivity. Qed.
Lemma upd_opt_flags c r f : c_flags (upd_opt c r f) = c_flags c.
Proof. destruct r as [[|[i v] p] k]; destruct c; reflexivity. Qed.

(* what any other name reads after an in-place update of a non-section option that keeps its skeleton *)
Lemma put_frame_look c r o o' :
  get_opt c r = Some o -> o_kind o <> KSec -> sk_o o' = sk_o o ->
  forall n2, fst (cfg_getopt c n2) <> Some r ->
  forall w2 k i t,
    fst (look w2 (put_opt c r o') n2) = fst (look w2 c n2) /\
    getn_of k (snd (look w2 (put_opt c r o') n2)) i = getn_of k (snd (look w2 c n2)) i /\
    gettsec_of (snd (look w2 (put_opt c r o') n2)) t = gettsec_of (snd (look w2 c n2)) t.
Proof.
  intros G K S n2 Hne w2 k i t.
  unfold look. rewrite (lookup_stable_sk c r o o' G S n2).
  destruct (cfg_getopt c n2) as [[r2|] ds] eqn:E; [|repeat split].
  cbn [fst] in Hne.
  assert (E' : fst (cfg_getopt c n2) = Some r2) by (rewrite E; reflexivity).
  assert (Nb : ~ through r r2) by (eapply cfg_getopt_not_below; eassumption).
  assert (Ne : r2 <> r) by congruence.
  destruct (cfg_getopt_ksec c n2 r2 E') as [_ Gn].
  destruct (get_opt c r2) as [o2|] eqn:G2; [|contradiction].
  destruct (through_dec r2 r) as [(v & rest & Hb)|Na].
  - destruct r as [p ir], r2 as [p2 k2]. cbn [fst snd] in Hb. subst p.
    unfold put_opt. rewrite upd_opt_below, (get_opt_upd_same _ _ _ _ G2).
    cbn [fst snd]. split; [reflexivity|]. split.
    + apply inst_upd_getn_of.
    + apply inst_upd_gettsec_of; intro s; [apply upd_opt_title|apply upd_opt_flags].
  - rewrite (get_opt_put_other c r o' r2 Ne Nb Na), G2. repeat split.
Qed.

Lemma put_frame c r o o' :
  get_opt c r = Some o -> o_kind o <> KSec -> sk_o o' = sk_o o ->
  forall n2, fst (cfg_getopt c n2) <> Some r ->
  forall w2,
    (forall k i, cfg_getn w2 (put_opt c r o') k n2 i = cfg_getn w2 c k n2 i) /\
    (forall t, cfg_gettsec w2 (put_opt c r o') n2 t = cfg_gettsec w2 c n2 t).
Proof.
  intros G K S n2 Hne w2. split.
  - intros k i. rewrite !cfg_getn_eq.
    destruct (put_frame_look c r o o' G K S n2 Hne w2 k i []) as [H1 [H2 _]]. rewrite H1, H2. reflexivity.
  - intros t. rewrite !cfg_gettsec_eq.
    destruct (put_frame_look c r o o' G K S n2 Hne w2 KInt 0%N t) as [H1 [_ H3]]. rewrite H1, H3. reflexivity.
Qed.

(* the getter view of a name is the same in two trees *)
Definition same_reads (c' c : cfg) (n2 : str) : Prop :=
  forall w2, (forall k i, cfg_getn w2 c' k n2 i = cfg_getn w2 c k n2 i) /\
             (forall t, cfg_gettsec w2 c' n2 t = cfg_gettsec w2 c n2 t).

Lemma same_reads_refl c n2 : same_reads c c n2.
Proof. intro w2. split; reflexivity. Qed.

(* any with_opt call whose per-option step either leaves the option alone or changes a non-section
   option within its frame *)
Lemma with_opt_frame w c name f w' c' rc :
  with_opt w c name f = (w', c', rc) ->
  (forall w0 r o w1 o1 rc1, fst (cfg_getopt c name) = Some r -> get_opt c r = Some o ->
     f w0 r o = (w1, o1, rc1) -> o1 = o \/ (o_kind o <> KSec /\ frame o o1)) ->
  forall n2, (forall r, fst (cfg_getopt c name) = Some r -> fst (cfg_getopt c n2) <> Some r) ->
  same_reads c' c n2.
Proof.
  unfold with_opt. destruct (cfg_getopt c name) as [ro ds]. cbn [fst] in *.
  destruct ro as [r|]; [|intro H; injection H as _ <- _; intros; apply same_reads_refl].
  destruct (get_opt c r) as [o|] eqn:G; [|intro H; injection H as _ <- _; intros; apply same_reads_refl].
  destruct (f (add_diags w ds) r o) as [[w1 o1] rc1] eqn:E.
  intro H. injection H as _ <- _. intros Hf n2 Hn2.
  destruct (Hf _ _ _ _ _ _ eq_refl G E) as [->|[K F]].
  - rewrite (put_opt_same c r o G). apply same_reads_refl.
  - intro w2. apply (put_frame c r o o1 G K (frame_sk_o o o1 K F) n2 (Hn2 r eq_refl)).
Qed.

Lemma opt_setn_step w o k v i w1 o1 rc :
  k <> KSec -> opt_setn w o k v i = (w1, o1, rc) -> o1 = o \/ (o_kind o <> KSec /\ frame o o1).
Proof.
  intros Kn H. destruct (Z.eq_dec rc OK) as [->|Nrc].
  - right. pose proof (opt_setn_ok_frame _ _ _ _ _ _ _ H) as [F _].
    apply opt_setn_ok in H. destruct H as [K _]. split; [congruence|exact F].
  - left. revert H. unfold opt_setn. destruct (negb (kind_eqb (o_kind o) k)).
    + intro H; injection H as _ <- _; reflexivity.
    + destruct (opt_getval o i) as [[[o2 idx] fr]|].
      * intro H. exfalso. injection H as _ _ H. apply Nrc. symmetry. exact H.
      * intro H; injection H as _ <- _; reflexivity.
Qed.

Lemma opt_setn_frame_any w o k v i : frame o (snd (fst (opt_setn w o k v i))).
Proof.
  destruct (opt_setn w o k v i) as [[w1 o1] rc] eqn:E. cbn [fst snd].
  destruct (Z.eq_dec rc OK) as [->|Nrc].
  - exact (proj1 (opt_setn_ok_frame _ _ _ _ _ _ _ E)).
  - revert E. unfold opt_setn. destruct (negb (kind_eqb (o_kind o) k)).
    + intro H; injection H as _ <- _; apply frame_refl.
    + destruct (opt_getval o i) as [[[o2 idx] fr]|].
      * intro H. exfalso. injection H as _ _ H. apply Nrc. symmetry. exact H.
      * intro H; injection H as _ <- _; apply frame_refl.
Qed.

Lemma al_step_frame a v : frame (snd a) (snd (al_step a v)).
Proof.
  destruct a as [w o]. unfold al_step. cbn [snd].
  destruct (o_kind o); try apply frame_refl;
  match goal with |- context [opt_setn ?w ?o ?k ?v ?i] =>
    pose proof (opt_setn_frame_any w o k v i) as F; destruct (opt_setn w o k v i) as [[w1 o1] rc]; exact F end.
Qed.

Lemma addlist_internal_frame vs : forall w o, frame o (snd (addlist_internal w o vs)).
Proof.
  intros w o. rewrite addlist_internal_eq.
  change o with (snd (w, o)) at 1. generalize (w, o) as a.
  induction vs as [|v r IH]; intro a; [apply frame_refl|].
  cbn [fold_left]. eapply frame_trans; [apply al_step_frame|apply IH].
Qed.

(* (3) the frame of the setters: every name that does not resolve to the option written reads the same *)
Section SetterFrame.
Variables (w : pw) (c : cfg) (name : str) (w' : pw) (c' : cfg) (rc : Z) (n2 : str).
Hypothesis Hn2 : forall r, fst (cfg_getopt c name) = Some r -> fst (cfg_getopt c n2) <> Some r.

Lemma cfg_setnint_frame z index : cfg_setnint w c name z index = (w', c', rc) -> same_reads c' c n2.
Proof.
  intro H. eapply with_opt_frame; [exact H| |exact Hn2].
  intros w0 r o w1 o1 rc1 _ _. cbv beta. destruct (run_validcb2 w0 o (V2Int z)) as [[w2 a] f]. destruct f.
  - intro E; injection E as _ <- _; left; reflexivity.
  - apply opt_setn_step. discriminate.
Qed.

Lemma cfg_setnfloat_frame b index : cfg_setnfloat w c name b index = (w', c', rc) -> same_reads c' c n2.
Proof.
  intro H. eapply with_opt_frame; [exact H| |exact Hn2].
  intros w0 r o w1 o1 rc1 _ _. cbv beta. destruct (run_validcb2 w0 o (V2Float b)) as [[w2 a] f]. destruct f.
  - intro E; injection E as _ <- _; left; reflexivity.
  - apply opt_setn_step. discriminate.
Qed.

Lemma cfg_setnbool_frame b index : cfg_setnbool w c name b index = (w', c', rc) -> same_reads c' c n2.
Proof.
  intro H. eapply with_opt_frame; [exact H| |exact Hn2].
  intros w0 r o w1 o1 rc1 _ _. cbv beta. apply opt_setn_step. discriminate.
Qed.

Lemma cfg_setnstr_frame s index : cfg_setnstr w c name s index = (w', c', rc) -> same_reads c' c n2.
Proof.
  intro H. eapply with_opt_frame; [exact H| |exact Hn2].
  intros w0 r o w1 o1 rc1 _ _. cbv beta. destruct (run_validcb2 w0 o (V2Str s)) as [[w2 a] f]. destruct f.
  - intro E; injection E as _ <- _; left; reflexivity.
  - apply opt_setn_step. discriminate.
Qed.

(* the list setters, on an option that is not a section option *)
Hypothesis Hns : forall r o, fst (cfg_getopt c name) = Some r -> get_opt c r = Some o -> o_kind o <> KSec.

Lemma cfg_setlist_frame vs : cfg_setlist w c name vs = (w', c', rc) -> same_reads c' c n2.
Proof.
  intro H. eapply with_opt_frame; [exact H| |exact Hn2].
  intros w0 r o w1 o1 rc1 Hr Hg. cbv beta. destruct (negb (oflag o CFGF_LIST)).
  - intro E; injection E as _ <- _; left; reflexivity.
  - pose proof (frame_free_value o) as F1. destruct (free_value o) as [o2 fr]. cbn [fst] in F1.
    pose proof (addlist_internal_frame vs (log_frees w0 fr) (o_setf o2 CFGF_MODIFIED)) as F2.
    destruct (addlist_internal (log_frees w0 fr) (o_setf o2 CFGF_MODIFIED) vs) as [w2 o3]. cbn [snd] in F2.
    intro E; injection E as _ <- _. right. split; [exact (Hns r o Hr Hg)|].
    eapply frame_trans; [exact F1|]. eapply frame_trans; [apply frame_setf_modified|exact F2].
Qed.

Lemma cfg_addlist_frame vs : cfg_addlist w c name vs = (w', c', rc) -> same_reads c' c n2.
Proof.
  intro H. eapply with_opt_frame; [exact H| |exact Hn2].
  intros w0 r o w1 o1 rc1 Hr Hg. cbv beta. destruct (negb (oflag o CFGF_LIST)).
  - intro E; injection E as _ <- _; left; reflexivity.
  - pose proof (addlist_internal_frame vs w0 (o_clrf o CFGF_RESET)) as F2.
    destruct (addlist_internal w0 (o_clrf o CFGF_RESET) vs) as [w2 o3]. cbn [snd] in F2.
    intro E; injection E as _ <- _. right. split; [exact (Hns r o Hr Hg)|].
    eapply frame_trans; [apply frame_clrf_reset|exact F2].
Qed.
End SetterFrame.

(* (4) a failed setter changes nothing a getter can see *)
Lemma failed_setter_reads (w : pw) (c : cfg) (name : str) (w' : pw) (c' : cfg) :
  (exists z index, cfg_setnint w c name z index = (w', c', FAIL)) \/
  (exists b index, cfg_setnfloat w c name b index = (w', c', FAIL)) \/
  (exists b index, cfg_setnbool w c name b index = (w', c', FAIL)) \/
  (exists s index, cfg_setnstr w c name s index = (w', c', FAIL)) \/
  (exists vs, cfg_setlist w c name vs = (w', c', FAIL)) \/
  (exists vs, cfg_addlist w c name vs = (w', c', FAIL)) ->
  forall n2, same_reads c' c n2.
Proof.
  intros H n2.
  assert (E : c' = c).
  { destruct H as [[z [i H]]|[[b [i H]]|[[b [i H]]|[[s [i H]]|[[vs H]|[vs H]]]]]].
    - eapply cfg_setnint_fail_atomic; exact H.
    - eapply cfg_setnfloat_fail_atomic; exact H.
    - eapply cfg_setnbool_fail_atomic; exact H.
    - eapply cfg_setnstr_fail_atomic; exact H.
    - eapply cfg_setlist_fail_atomic; exact H.
    - eapply cfg_addlist_fail_atomic; exact H. }
  subst c'. apply same_reads_refl.
Qed.

(* ================================================================== *)
(* 7. cfg_gettsec                                                       *)
(* ================================================================== *)

(* the comparison cfg_opt_gettsecidx makes against one value of the option *)
Definition title_matchb (nocase : bool) (t : str) (v : value) : bool :=
  match v with
  | VSec (Some s) => match c_title s with
                     | Some tj => name_eqb (nocase || cflag s CFGF_NOCASE) t tj
                     | None => false
                     end
  | _ => false
  end.
Definition title_match (o : opt) (t : str) (v : value) : bool := title_matchb (oflag o CFGF_NOCASE) t v.

(* an instance that carries a title *)
Definition titled (v : value) : Prop := exists s tj, v = VSec (Some s) /\ c_title s = Some tj.

Lemma title_matchb_inst nocase t v : title_matchb nocase t v = true -> titled v.
Proof.
  destruct v as [| | | |[s|]|]; try discriminate. cbn [title_matchb].
  destruct (c_title s) as [tj|] eqn:T; [|discriminate]. intros _. exists s, tj. split; [reflexivity|exact T].
Qed.

Lemma gettsecidx_from_first nocase t : forall vals i m,
  (exists v, nth_error vals m = Some v /\ title_matchb nocase t v = true) ->
  (forall m', m' < m -> exists v, nth_error vals m' = Some v /\ titled v /\ title_matchb nocase t v = false) ->
  gettsecidx_from nocase vals t i = Some (i + m).
Proof.
  induction vals as [|x vals IH]; intros i m [v [Hn Hm]] Hbefore.
  - destruct m; discriminate.
  - destruct m as [|m].
    + cbn [nth_error] in Hn. injection Hn as ->.
      destruct v as [| | | |[s|]|]; try discriminate. cbn [title_matchb] in Hm. cbn [gettsecidx_from].
      destruct (c_title s) as [tj|]; [|discriminate]. rewrite Hm. f_equal. lia.
    + destruct (Hbefore 0 ltac:(lia)) as [v0 [H0 [[s [tj [-> T]]] M0]]].
      cbn [nth_error] in H0. injection H0 as ->. cbn [title_matchb] in M0. rewrite T in M0.
      cbn [gettsecidx_from]. rewrite T, M0.
      replace (i + S m) with (S i + m) by lia. apply IH.
      * exists v. split; [exact Hn|exact Hm].
      * intros m' Hm'. destruct (Hbefore (S m') ltac:(lia)) as [v' [H' R]]. exists v'. split; [exact H'|exact R].
Qed.

Lemma gettsecidx_from_some nocase t : forall vals i j,
  gettsecidx_from nocase vals t i = Some j ->
  exists m, j = i + m /\
    (exists v, nth_error vals m = Some v /\ title_matchb nocase t v = true) /\
    (forall m', m' < m -> exists v, nth_error vals m' = Some v /\ titled v /\ title_matchb nocase t v = false).
Proof.
  induction vals as [|x vals IH]; intros i j H; [discriminate|].
  cbn [gettsecidx_from] in H.
  destruct x as [| | | |[s|]|]; try discriminate.
  destruct (c_title s) as [tj|] eqn:T; [|discriminate].
  destruct (name_eqb (nocase || cflag s CFGF_NOCASE) t tj) eqn:M.
  - injection H as <-. exists 0. split; [lia|]. split.
    + exists (VSec (Some s)). split; [reflexivity|]. cbn [title_matchb]. rewrite T. exact M.
    + intros m' Hm'. lia.
  - apply IH in H. destruct H as [m [-> [Hm Hb]]]. exists (S m). split; [lia|]. split; [exact Hm|].
    intros m' Hm'. destruct m' as [|m'].
    + exists (VSec (Some s)). split; [reflexivity|]. split; [exists s, tj; auto|].
      cbn [title_matchb]. rewrite T. exact M.
    + apply Hb. lia.
Qed.

Lemma gettsecidx_from_absent nocase t : forall vals i,
  (forall v, In v vals -> title_matchb nocase t v = false) -> gettsecidx_from nocase vals t i = None.
Proof.
  induction vals as [|x vals IH]; intros i H; [reflexivity|].
  cbn [gettsecidx_from]. destruct x as [| | | |[s|]|]; try reflexivity.
  destruct (c_title s) as [tj|] eqn:T; [|reflexivity].
  pose proof (H (VSec (Some s)) (or_introl eq_refl)) as M. cbn [title_matchb] in M. rewrite T in M. rewrite M.
  apply IH. intros v Hv. apply H. right. exact Hv.
Qed.

Section Gettsec.
Variables (w : pw) (c : cfg) (name : str) (r : optref) (o : opt) (t : str).
Hypothesis Hres : fst (cfg_getopt c name) = Some r.
Hypothesis Hget : get_opt c r = Some o.

Lemma cfg_gettsec_read : snd (cfg_gettsec w c name t) = gettsec_of (Some (r, o)) t.
Proof. rewrite cfg_gettsec_eq, (look_resolved w c name r o Hres Hget). reflexivity. Qed.

(* the instance cfg_opt_gettsecidx finds is the one cfg_gettsec returns and cfg_getnsec(name, j) reads *)
Lemma cfg_gettsec_found j :
  o_kind o = KSec -> oflag o CFGF_TITLE = true -> gettsecidx o t = Some j ->
  snd (cfg_gettsec w c name t) = Some (fst r ++ [(snd r, j)]) /\
  snd (cfg_getn w c KSec name (N.of_nat j)) = GSec (Some (fst r ++ [(snd r, j)])).
Proof.
  intros K T G.
  destruct (gettsecidx_from_some _ _ _ _ _ G) as [m [E [[v [Hn Hm]] _]]]. cbn [plus] in E. subst m.
  destruct (title_matchb_inst _ _ _ Hm) as [s [tj [-> _]]].
  split.
  - rewrite cfg_gettsec_read. unfold gettsec_of. rewrite T, G.
    unfold opt_getnsec. rewrite K.
    assert (L : (N.of_nat j <? N.of_nat (length (o_vals o)))%N = true).
    { apply N.ltb_lt. assert (j < length (o_vals o)) by (apply nth_error_Some; congruence). lia. }
    rewrite L. unfold nth_sec. rewrite Nat2N.id, Hn. reflexivity.
  - rewrite (cfg_getn_read w c KSec name _ r o Hres Hget), K. cbn [kind_eqb res_of].
    rewrite Nat2N.id, Hn. reflexivity.
Qed.

(* stated on the values: the first instance whose title matches, all earlier ones titled *)
Lemma cfg_gettsec_first j v :
  o_kind o = KSec -> oflag o CFGF_TITLE = true ->
  nth_error (o_vals o) j = Some v -> title_match o t v = true ->
  (forall m, m < j -> exists v', nth_error (o_vals o) m = Some v' /\ titled v' /\ title_match o t v' = false) ->
  snd (cfg_gettsec w c name t) = Some (fst r ++ [(snd r, j)]) /\
  snd (cfg_getn w c KSec name (N.of_nat j)) = GSec (Some (fst r ++ [(snd r, j)])).
Proof.
  intros K T Hn Hm Hb. apply cfg_gettsec_found; [exact K|exact T|].
  unfold gettsecidx. change j with (0 + j). apply gettsecidx_from_first.
  - exists v. split; [exact Hn|exact Hm].
  - exact Hb.
Qed.

Lemma cfg_gettsec_absent :
  (forall v, In v (o_vals o) -> title_match o t v = false) -> snd (cfg_gettsec w c name t) = None.
Proof.
  intro H. rewrite cfg_gettsec_read. unfold gettsec_of, gettsecidx.
  rewrite (gettsecidx_from_absent _ _ _ 0 H). destruct (oflag o CFGF_TITLE); reflexivity.
Qed.

Lemma cfg_gettsec_notitle : oflag o CFGF_TITLE = false -> snd (cfg_gettsec w c name t) = None.
Proof. intro H. rewrite cfg_gettsec_read. unfold gettsec_of. rewrite H. reflexivity. Qed.

(* whatever cfg_gettsec returns is such a first match *)
Lemma cfg_gettsec_some_inv pos :
  snd (cfg_gettsec w c name t) = Some pos ->
  o_kind o = KSec /\ oflag o CFGF_TITLE = true /\
  exists j v, pos = fst r ++ [(snd r, j)] /\ nth_error (o_vals o) j = Some v /\ title_match o t v = true /\
    (forall m, m < j -> exists v', nth_error (o_vals o) m = Some v' /\ titled v' /\ title_match o t v' = false) /\
    snd (cfg_getn w c KSec name (N.of_nat j)) = GSec (Some pos).
Proof.
  rewrite cfg_gettsec_read. unfold gettsec_of.
  destruct (oflag o CFGF_TITLE) eqn:T; [|discriminate].
  destruct (gettsecidx o t) as [j|] eqn:G; [|discriminate].
  destruct (opt_getnsec o (N.of_nat j)) as [s|] eqn:S; [|discriminate].
  intro H. injection H as <-.
  pose proof (opt_getnsec_kind _ _ _ S) as K. split; [exact K|]. split; [reflexivity|].
  destruct (gettsecidx_from_some _ _ _ _ _ G) as [m [E [[v [Hn Hm]] Hb]]]. cbn [plus] in E. subst m.
  exists j, v. split; [reflexivity|]. split; [exact Hn|]. split; [exact Hm|]. split; [exact Hb|].
  apply (cfg_gettsec_found j K T G).
Qed.
End Gettsec.

Lemma cfg_gettsec_unknown w c name t :
  fst (cfg_getopt c name) = None -> snd (cfg_gettsec w c name t) = None.
Proof. intro H. rewrite cfg_gettsec_eq, (look_unresolved w c name H). reflexivity. Qed.

(* ================================================================== *)
(* 8. complements                                                       *)
(* ================================================================== *)

(* an option none of whose values is an instance has nothing below it *)
Lemma not_through_nosec c r o r2 :
  get_opt c r = Some o -> (forall v, nth_sec o v = None) -> get_opt c r2 <> None -> ~ through r r2.
Proof.
  intros G Hn H2 (v & rest & E). apply H2. unfold get_opt in *. rewrite E, get_sec_app.
  destruct (get_sec c (fst r)) as [s|]; [|reflexivity].
  cbn [get_sec]. rewrite G, Hn. reflexivity.
Qed.

Lemma typed_nosec o : typed o -> o_kind o <> KSec -> forall v, nth_sec o v = None.
Proof.
  intros T K v. unfold nth_sec. destruct (nth_error (o_vals o) v) as [x|] eqn:E; [|reflexivity].
  apply nth_error_In in E. unfold typed in T. rewrite Forall_forall in T. specialize (T x E).
  destruct x as [| | | |[s|]|]; try reflexivity. cbn [val_kind] in T. congruence.
Qed.

(* reading the written option after any in-frame update of a non-section option *)
Lemma get_after_put c name r o o' :
  fst (cfg_getopt c name) = Some r -> get_opt c r = Some o -> o_kind o <> KSec -> frame o o' ->
  forall w2 k i,
  snd (cfg_getn w2 (put_opt c r o') k name i) =
  res_of k r i (if kind_eqb (o_kind o) k then nth_error (o_vals o') (N.to_nat i) else None).
Proof.
  intros Hr Hg K F w2 k i.
  assert (L : fst (cfg_getopt (put_opt c r o') name) = Some r).
  { rewrite (lookup_stable_sk c r o o' Hg (frame_sk_o o o' K F)). exact Hr. }
  rewrite (cfg_getn_read w2 _ k name i r o' L (get_opt_put_same c r o o' Hg)), (fr_kind _ _ F). reflexivity.
Qed.

Lemma scalar_kind_nonsec k : scalar_kind k -> k <> KSec.
Proof. intros [->|[->|[->| ->]]]; discriminate. Qed.

Section ListGet.
Variables (w : pw) (c : cfg) (name : str) (r : optref) (o : opt) (vs : list value).
Hypothesis Hres : fst (cfg_getopt c name) = Some r.
Hypothesis Hget : get_opt c r = Some o.
Hypothesis Hlist : oflag o CFGF_LIST = true.
Hypothesis Hkind : scalar_kind (o_kind o).
Hypothesis Hvs : Forall (fun v => val_kind v = o_kind o) vs.

Lemma get_after_setlist :
  exists w' c', cfg_setlist w c name vs = (w', c', OK) /\
  forall w2 i, snd (cfg_getn w2 c' (o_kind o) name i) =
               res_of (o_kind o) r i (nth_error (map trunc vs) (N.to_nat i)).
Proof.
  destruct (cfg_setlist_replaces w c name r o vs Hres Hget Hlist Hkind Hvs) as [w' [o' [E [V [F _]]]]].
  exists w', (put_opt c r o'). split; [exact E|]. intros w2 i.
  rewrite (get_after_put c name r o o' Hres Hget (scalar_kind_nonsec _ Hkind) F), V.
  rewrite (proj2 (kind_eqb_eq _ _) eq_refl). reflexivity.
Qed.

Lemma get_after_addlist :
  exists w' c', cfg_addlist w c name vs = (w', c', OK) /\
  forall w2 i, snd (cfg_getn w2 c' (o_kind o) name i) =
               res_of (o_kind o) r i (nth_error (o_vals o ++ map trunc vs) (N.to_nat i)).
Proof.
  destruct (cfg_addlist_appends w c name r o vs Hres Hget Hlist Hkind Hvs) as [w' [o' [E [V [F _]]]]].
  exists w', (put_opt c r o'). split; [exact E|]. intros w2 i.
  rewrite (get_after_put c name r o o' Hres Hget (scalar_kind_nonsec _ Hkind) F), V.
  rewrite (proj2 (kind_eqb_eq _ _) eq_refl). reflexivity.
Qed.
End ListGet.

(* the enclosing section options of the updated option do change: one instance is rewritten *)
Lemma get_opt_put_enclosing c r o' r2 o2 :
  through r2 r -> get_opt c r2 = Some o2 ->
  exists v rest, fst r = fst r2 ++ (snd r2, v) :: rest /\
    get_opt (put_opt c r o') r2 = Some (inst_upd v (fun s => put_opt s (rest, snd r) o') o2).
Proof.
  intros (v & rest & E) G. exists v, rest. split; [exact E|].
  destruct r as [p i], r2 as [p2 k2]. cbn [fst snd] in *. subst p.
  unfold put_opt. rewrite upd_opt_below. apply get_opt_upd_same. exact G.
Qed.

(* ... so "r2 <> r" alone is not the right side condition for get_opt (put_opt c r o') r2 = get_opt c r2 *)
Lemma get_put_other_needs_disjoint :
  exists (c : cfg) (r r2 : optref) (o o' : opt),
    get_opt c r = Some o /\ o_kind o <> KSec /\
    o_name o' = o_name o /\ o_kind o' = o_kind o /\ o_flags o' = o_flags o /\
    r2 <> r /\ ~ through r r2 /\
    get_opt (put_opt c r o') r2 <> get_opt c r2.
Proof.
  set (a := Opt [x61] KInt 0 [VInt 1] [] defv0 None cbset0).
  set (a' := Opt [x61] KInt 0 [VInt 2] [] defv0 None cbset0).
  set (s := Cfg [x73] None 0 [a] None 0 false None).
  exists (Cfg [] None 0 [Opt [x73] KSec 0 [VSec (Some s)] [a] defv0 None cbset0] None 0 false None).
  exists ([(0, 0)], 0), ([], 0), a, a'.
  split; [reflexivity|]. split; [discriminate|]. split; [reflexivity|]. split; [reflexivity|].
  split; [reflexivity|]. split; [discriminate|]. split.
  - intros (v & rest & H). discriminate.
  - vm_compute. discriminate.
Qed.

(* (3) assembled *)
Lemma setters_frame (w : pw) (c : cfg) (name : str) (w' : pw) (c' : cfg) (rc : Z) (n2 : str) :
  (forall r, fst (cfg_getopt c name) = Some r -> fst (cfg_getopt c n2) <> Some r) ->
  (forall z index, cfg_setnint w c name z index = (w', c', rc) -> same_reads c' c n2) /\
  (forall b index, cfg_setnfloat w c name b index = (w', c', rc) -> same_reads c' c n2) /\
  (forall b index, cfg_setnbool w c name b index = (w', c', rc) -> same_reads c' c n2) /\
  (forall s index, cfg_setnstr w c name s index = (w', c', rc) -> same_reads c' c n2) /\
  ((forall r o, fst (cfg_getopt c name) = Some r -> get_opt c r = Some o -> o_kind o <> KSec) ->
   (forall vs, cfg_setlist w c name vs = (w', c', rc) -> same_reads c' c n2) /\
   (forall vs, cfg_addlist w c name vs = (w', c', rc) -> same_reads c' c n2)).
Proof.
  intro Hn2.
  split; [intros; eapply cfg_setnint_frame; eassumption|].
  split; [intros; eapply cfg_setnfloat_frame; eassumption|].
  split; [intros; eapply cfg_setnbool_frame; eassumption|].
  split; [intros; eapply cfg_setnstr_frame; eassumption|].
  intro Hns. split; intros.
  - eapply cfg_setlist_frame; eassumption.
  - eapply cfg_addlist_frame; eassumption.
Qed.

(* the zeros, assembled *)
Lemma getn_zeros w c k name i :
  (fst (cfg_getopt c name) = None -> snd (cfg_getn w c k name i) = gzero k) /\
  (forall r o, fst (cfg_getopt c name) = Some r -> get_opt c r = Some o ->
     (o_kind o <> k -> snd (cfg_getn w c k name i) = gzero k) /\
     ((N.of_nat (length (o_vals o)) <= i)%N -> snd (cfg_getn w c k name i) = gzero k)).
Proof.
  split; [apply cfg_getn_unknown|]. intros r o Hr Hg. split.
  - apply (cfg_getn_wrong_kind w c k name i r o Hr Hg).
  - apply (cfg_getn_beyond w c k name i r o Hr Hg).
Qed.
