(* AnnotLexProofs.v — C15 annotations, lexical side: the VALUE of a block-comment token.
   LexComments.block_comment_token gives the token with its value stated existentially; here the value is computed:
   the scratch buffer collects the body except a final run of blanks and stars in front of the closing star-slash,
   and qend() trims it.  In particular the text print writes for an annotation cm, slash-star SP cm SP star-slash,
   scans to a comment token with value cm (cm not empty, no white space at its ends, no NUL, no star-slash). *)
From Coq Require Import List Arith NArith Bool Lia.
From Coq.Strings Require Import Byte.
From LC Require Import Bytes Flex LexAct LexRules Consts Lexer LexSpec LexLemmas DqProofs SqProofs LexAll
                       Files Store Parser Grammar PP_Step PP_Tok PP_LexYields PP_LexFrame LineProofs
                       LexComments LexClasses LexCompose.
Import ListNotations.

(* LexComments.cm_next with the final case spelled out: what is left in front of the closing star-slash
   when rule 15 fires is blanks, then stars *)
Lemma cm_next_v (body rest : str) : nss body = true ->
  (exists (u body2 : str) j, body = u ++ body2 /\ u <> [] /\ (j < 3)%nat /\
        munch RcN (u ++ body2 ++ star :: slash :: rest) 0 None = Some (j, length u))
  \/ (exists bl sts : str, body = bl ++ sts /\ Forall (fun c => isbl c = true) bl /\ Forall (fun c => isstar c = true) sts /\
        munch RcN (body ++ star :: slash :: rest) 0 None = Some (3, length body + 2)%nat).
Proof.
  intros Hn.
  pose proof (take_drop isbl body) as Hbl.
  pose proof (take_while_all isbl body) as Abl.
  pose proof (drop_while_head isbl body) as Fbl.
  remember (take_while isbl body) as bl eqn:Qbl. remember (drop_while isbl body) as b1 eqn:Qb1. clear Qbl Qb1.
  assert (Hn1 : nss b1 = true) by (apply (nss_app_r bl); rewrite Hbl; exact Hn).
  destruct b1 as [|d b1'] eqn:Eb1.
  - (* A: only blanks are left: they go with the closing star-slash *)
    right. rewrite app_nil_r in Hbl. subst body.
    exists bl, []. split; [rewrite app_nil_r; reflexivity|]. split; [exact Abl|]. split; [constructor|].
    change (bl ++ star :: slash :: rest) with (bl ++ [star] ++ slash :: rest).
    rewrite (cT15 bl [star] rest Abl); [f_equal; f_equal; cbn [length]; lia|repeat constructor|discriminate].
  - cbn [follows] in Fbl. apply negb_true_iff in Fbl.
    destruct (Byte.eqb d nl) eqn:Ednl.
    + apply byte_eqb_eq in Ednl. subst d.
      destruct bl as [|x bl'] eqn:Ebl.
      * (* B: a newline *)
        left. exists [nl], b1', 2%nat. cbn [app] in Hbl. split; [symmetry; exact Hbl|].
        split; [discriminate|]. split; [lia|]. cbn [app length]. apply cT14.
      * (* C: blanks before a newline *)
        left. exists bl, (nl :: b1'), 0%nat. rewrite Ebl. split; [symmetry; exact Hbl|].
        split; [discriminate|]. split; [lia|].
        change ((x :: bl') ++ (nl :: b1') ++ star :: slash :: rest)
          with ((x :: bl') ++ [] ++ (nl :: b1' ++ star :: slash :: rest)).
        apply cT12b; [exact Abl|discriminate|constructor|reflexivity].
    + destruct (isstar d) eqn:Eds.
      * (* a run of stars *)
        pose proof (take_drop isstar (d :: b1')) as Hst.
        pose proof (take_while_all isstar (d :: b1')) as Ast.
        pose proof (drop_while_head isstar (d :: b1')) as Fst.
        assert (Est : take_while isstar (d :: b1') <> []) by (cbn [take_while]; rewrite Eds; discriminate).
        remember (take_while isstar (d :: b1')) as st eqn:Qst. remember (drop_while isstar (d :: b1')) as b2 eqn:Qb2. clear Qst Qb2.
        destruct b2 as [|d2 b2'] eqn:Eb2.
        -- (* D: the stars reach the end of the body: rule 15 *)
           right. rewrite app_nil_r in Hst. rewrite <- Hbl, <- Hst.
           exists bl, st. split; [reflexivity|]. split; [exact Abl|]. split; [exact Ast|].
           replace ((bl ++ st) ++ star :: slash :: rest) with (bl ++ (st ++ [star]) ++ slash :: rest)
             by (rewrite <- !app_assoc; reflexivity).
           rewrite (cT15 bl (st ++ [star]) rest Abl (forall_snoc (fun c => isstar c = true) st star Ast eq_refl)).
           ++ f_equal. f_equal. rewrite !app_length. cbn [length]. lia.
           ++ destruct st; discriminate.
        -- cbn [follows] in Fst. apply negb_true_iff in Fst.
           assert (Hsl : isslash d2 = false).
           { apply (nss_stars_next st d2 b2' Ast Est). rewrite Hst. exact Hn1. }
           destruct bl as [|x bl'] eqn:Ebl.
           ++ (* E: stars, then bytes that are neither star nor slash nor newline: rule 13 *)
              pose proof (take_drop k13 (d2 :: b2')) as Hr.
              pose proof (take_while_all k13 (d2 :: b2')) as Ar.
              pose proof (drop_while_head k13 (d2 :: b2')) as Fr.
              remember (take_while k13 (d2 :: b2')) as run eqn:Qrun. remember (drop_while k13 (d2 :: b2')) as b3 eqn:Qb3. clear Qb3.
              left. exists (st ++ run), b3, 1%nat.
              split; [cbn [app] in Hbl; rewrite <- Hbl, <- Hst, <- Hr, <- app_assoc; reflexivity|].
              split; [destruct st; [contradiction|discriminate]|]. split; [lia|].
              rewrite <- app_assoc, app_length.
              apply cT13; [exact Ast|exact Est|exact Ar|].
              destruct run as [|r1 run'] eqn:Erun.
              ** cbn [t13_cond]. cbn [app] in Hr. subst b3. cbn [app follows].
                 cbn [take_while] in Qrun.
                 destruct (k13 d2) eqn:Ek; [discriminate|]. unfold k13 in Ek. rewrite Fst, Hsl in Ek. cbn in Ek.
                 apply negb_false_iff in Ek. exact Ek.
              ** cbn [t13_cond]. apply follows_app_tail; [exact Fr|reflexivity].
           ++ (* F: blanks, stars, something else: the blanks alone (rule 12) *)
              left. exists bl, (d :: b1'), 0%nat. rewrite Ebl. split; [symmetry; exact Hbl|].
              split; [discriminate|]. split; [lia|].
              rewrite <- Hst, <- app_assoc. cbn [app].
              apply (cT12b (x :: bl') st (d2 :: b2' ++ star :: slash :: rest)); [exact Abl|discriminate|exact Ast|].
              destruct st as [|s1 st']; [contradiction|]. cbn [t12b_cond app follows]. rewrite Fst, Hsl. reflexivity.
      * (* G: an ordinary byte: rule 12 takes the blanks before it and the ordinary bytes after it *)
        pose proof (take_drop k12 b1') as Ht.
        pose proof (take_while_all k12 b1') as At.
        pose proof (drop_while_head k12 b1') as Ft.
        remember (take_while k12 b1') as tl eqn:Qtl. remember (drop_while k12 b1') as b4 eqn:Qb4. clear Qtl Qb4.
        left. exists (bl ++ d :: tl), b4, 0%nat.
        split; [rewrite <- Hbl, <- Ht, <- app_assoc; reflexivity|].
        split; [destruct bl; discriminate|]. split; [lia|].
        rewrite <- app_assoc, app_length. cbn [app length].
        apply cT12a; [exact Abl| |exact At|].
        -- unfold k12. rewrite Eds, Ednl, Fbl. reflexivity.
        -- apply follows_app_tail; [exact Ft|reflexivity].
Qed.


Lemma qputs_app q a b : qputs (qputs q a) b = qputs q (a ++ b).
Proof. unfold qputs. rewrite fold_left_app. reflexivity. Qed.

Lemma no_nul_app a b : no_nul (a ++ b) -> no_nul a /\ no_nul b.
Proof. unfold no_nul. apply Forall_app. Qed.

Section BlockVal.
Variable e : envt.

(* the scan of a comment body, with the value: kept is what went into the scratch buffer *)
Lemma block_body_scan_val (id : nat) (others : list (nat * str)) (rest : str) : forall n (body : str) st p,
  (length body <= n)%nat -> nss body = true -> no_nul body -> l_sc st = comment ->
  l_bufs st = (id, body ++ star :: slash :: rest) :: others ->
  exists (kept bl sts : str) q' p', body = kept ++ bl ++ sts /\
    Forall (fun c => isbl c = true) bl /\ Forall (fun c => isstar c = true) sts /\
    lexL e st p =
    mkres TComment (Some (trim_ws (q_data (PP_LexFrame.qmat (qputs (l_q st) kept)))))
          (set_q (set_sc (set_bufs st ((id, rest) :: others)) INITIAL) q') p' [] 0.
Proof.
  induction n as [|n IH]; intros body st p Hlen Hn Hz Hsc Hb.
  - destruct body; [|cbn in Hlen; lia].
    destruct (cm_next_v [] rest Hn) as [(u & body2 & j & E & Hu & _)|(bl & sts & Eb & Abl & Asts & Hm)].
    { destruct u; [contradiction|discriminate]. }
    destruct cm_rule_3 as (r & Hr & Ha).
    change ([] ++ star :: slash :: rest) with ([star; slash] ++ rest) in Hb, Hm.
    exists [], bl, sts. eexists. eexists. split; [exact Eb|]. split; [exact Abl|]. split; [exact Asts|].
    erewrite lexL_ret; [reflexivity|].
    rewrite (lex_step_unit comment e st p id [star; slash] rest others 3 r Hsc Hb Hm Hr), Ha.
    cbn [run_action]. rewrite qend_trim_eq. reflexivity.
  - destruct (cm_next_v body rest Hn) as [(u & body2 & j & E & Hu & Hj & Hm)|(bl & sts & Eb & Abl & Asts & Hm)].
    + destruct (cm_rule_lt3 j Hj) as (r & Hr & Ha).
      subst body. rewrite <- app_assoc in Hb.
      assert (Hl2 : (length body2 <= n)%nat).
      { rewrite app_length in Hlen. destruct u; [contradiction|]. cbn [length] in Hlen. lia. }
      pose proof (nss_app_r u body2 Hn) as Hn2.
      destruct (no_nul_app u body2 Hz) as (Zu & Z2).
      pose proof (lex_step_unit comment e st p id u (body2 ++ star :: slash :: rest) others j r Hsc Hb Hm Hr) as Hs.
      destruct Ha as [Ha|Ha]; rewrite Ha in Hs; cbn [run_action] in Hs.
      * set (st2 := set_q (set_bufs st ((id, body2 ++ star :: slash :: rest) :: others)) (qputs (l_q st) (cstr u))).
        destruct (IH body2 st2 p Hl2 Hn2 Z2 Hsc eq_refl) as (kept & bl & sts & q' & p' & Eb & Abl & Asts & Hr').
        exists (u ++ kept), bl, sts, q', p'. split; [rewrite Eb, <- app_assoc; reflexivity|]. split; [exact Abl|]. split; [exact Asts|].
        rewrite (lexL_cont e st p st2 p Hs). rewrite Hr'. unfold st2. cbn [l_q set_q set_bufs].
        rewrite (cstr_no_nul u Zu), qputs_app. reflexivity.
      * set (st2 := set_q (set_bufs st ((id, body2 ++ star :: slash :: rest) :: others)) (qputs (l_q st) (cstr u))).
        destruct (IH body2 st2 (line_incr p) Hl2 Hn2 Z2 Hsc eq_refl) as (kept & bl & sts & q' & p' & Eb & Abl & Asts & Hr').
        exists (u ++ kept), bl, sts, q', p'. split; [rewrite Eb, <- app_assoc; reflexivity|]. split; [exact Abl|]. split; [exact Asts|].
        rewrite (lexL_cont e st p st2 (line_incr p) Hs). rewrite Hr'. unfold st2. cbn [l_q set_q set_bufs].
        rewrite (cstr_no_nul u Zu), qputs_app. reflexivity.
    + destruct cm_rule_3 as (r & Hr & Ha).
      replace (body ++ star :: slash :: rest) with ((body ++ [star; slash]) ++ rest) in Hb, Hm
        by (rewrite <- app_assoc; reflexivity).
      replace (length body + 2)%nat with (length (body ++ [star; slash])) in Hm by (rewrite app_length; reflexivity).
      exists [], bl, sts. eexists. eexists. split; [exact Eb|]. split; [exact Abl|]. split; [exact Asts|].
      erewrite lexL_ret; [reflexivity|].
      rewrite (lex_step_unit comment e st p id (body ++ [star; slash]) rest others 3 r Hsc Hb Hm Hr), Ha.
      cbn [run_action]. rewrite qend_trim_eq. reflexivity.
Qed.
End BlockVal.

(* slash-star body star-slash from INITIAL: the token and its value *)
Theorem block_comment_token_val e (body rest : str) st p (id : nat) (others : list (nat * str)) :
  nss body = true -> no_nul body -> l_sc st = INITIAL -> l_inc st = [] -> q_inv (l_q st) ->
  l_bufs st = (id, (slash :: star :: body ++ [star; slash]) ++ rest) :: others ->
  exists (kept bl sts : str) q', body = kept ++ bl ++ sts /\
    Forall (fun c => isbl c = true) bl /\ Forall (fun c => isstar c = true) sts /\
    lexL e st p =
    mkres TComment (Some (trim_ws kept)) (set_q (set_sc (set_bufs st ((id, rest) :: others)) INITIAL) q')
          (add_lines p (count_nl body)) [] 0.
Proof.
  intros Hn Hz Hsc Hi Hq Hb.
  assert (Hb' : l_bufs st = (id, [slash; star] ++ (body ++ star :: slash :: rest)) :: others).
  { rewrite Hb. cbn [app]. rewrite <- app_assoc. reflexivity. }
  destruct (unit_ok_munch INITIAL [slash; star] A_begin_comment any (body ++ star :: slash :: rest) cm_open_ok (follows_any _))
    as (j & r & Hm & Hr & Ha).
  pose proof (lex_step_unit INITIAL e st p id [slash; star] _ others j r Hsc Hb' Hm Hr) as Hs.
  rewrite Ha in Hs. cbn [run_action] in Hs.
  set (st1 := qbeg (set_bufs st ((id, body ++ star :: slash :: rest) :: others)) comment) in Hs.
  destruct (block_body_scan_val e id others rest (length body) body st1 p (le_n _) Hn Hz eq_refl eq_refl)
    as (kept & bl & sts & q' & p' & Eb & Abl & Asts & Hr').
  assert (HV : q_data (PP_LexFrame.qmat (qputs (l_q st1) kept)) = kept).
  { unfold st1, qbeg. cbn [l_q set_q set_sc set_bufs]. unfold q_data at 1.
    rewrite PP_LexFrame.qmat_rev by (apply q_inv_qputs, q_inv_reset, Hq).
    fold (q_data (qputs (q_reset (l_q st)) kept)). rewrite q_data_qputs. reflexivity. }
  rewrite HV in Hr'.
  assert (HL : lexL e st p = mkres TComment (Some (trim_ws kept)) (set_q (set_sc (set_bufs st ((id, rest) :: others)) INITIAL) q') p' [] 0).
  { rewrite (lexL_cont e st p st1 p Hs). exact Hr'. }
  exists kept, bl, sts, q'. split; [exact Eb|]. split; [exact Abl|]. split; [exact Asts|]. rewrite HL. f_equal.
  destruct (yylex_line_invariant e (lex_fuel st) st p 0 id _ others Hb Hi) as (u & rest' & E & B & _ & Fp & Lp & _).
  fold (lexL e st p) in B, Fp, Lp. rewrite HL in B, Fp, Lp. cbn [mkres r_st r_pos set_q set_sc set_bufs l_bufs] in B, Fp, Lp.
  injection B as B. subst rest'. apply app_inv_tail in E. subst u.
  apply pos_eq; [exact Fp|]. rewrite Lp, count_nl_block. reflexivity.
Qed.

(* ---------- the annotation text print writes ---------- *)
Definition sp : byte := x20.
(* not empty, no white space at either end *)
Definition clean (cm : str) : Prop :=
  match cm with [] => False | c :: _ => is_space c = false end /\
  match rev cm with [] => False | c :: _ => is_space c = false end.

Lemma isbl_space c : isbl c = true -> is_space c = true.
Proof.
  unfold isbl, is_space. intros H. apply orb_prop in H as [H|H].
  - rewrite H. reflexivity.
  - apply byte_eqb_eq in H. subst c. reflexivity.
Qed.

Lemma trim_ws_sp_cm cm : clean cm -> trim_ws (sp :: cm) = cm /\ trim_ws (sp :: cm ++ [sp]) = cm.
Proof.
  intros (H1 & H2).
  destruct (rev cm) as [|z r'] eqn:ER; [contradiction|].
  assert (DW : drop_while is_space (sp :: cm) = cm).
  { cbn [drop_while]. change (is_space sp) with true. cbv iota. destruct cm as [|c cm']; [contradiction|]. cbn [drop_while]. rewrite H1. reflexivity. }
  assert (RK : forall t, rtrim_keep1_rev (z :: t) = z :: t).
  { intros t. cbn [rtrim_keep1_rev]. rewrite H2. destruct t; reflexivity. }
  split.
  - unfold trim_ws. cbn [rev]. rewrite ER. cbn [app]. rewrite RK.
    change (z :: r' ++ [sp]) with ((z :: r') ++ [sp]). rewrite <- ER, rev_app_distr, rev_involutive. cbn [rev app]. exact DW.
  - assert (RK2 : forall t, rtrim_keep1_rev (sp :: z :: t) = z :: t).
    { intros t. change (rtrim_keep1_rev (sp :: z :: t)) with (if is_space sp then rtrim_keep1_rev (z :: t) else sp :: z :: t).
      change (is_space sp) with true. cbv iota. apply RK. }
    unfold trim_ws. cbn [rev]. rewrite rev_app_distr, ER. cbn [rev app]. rewrite RK2.
    change (z :: r' ++ [sp]) with ((z :: r') ++ [sp]). rewrite <- ER, rev_app_distr, rev_involutive. cbn [rev app]. exact DW.
Qed.

(* whatever final run of blanks and stars was left out, the trimmed value of  SP cm SP  is cm *)
Lemma kept_value cm (kept bl sts : str) : clean cm ->
  sp :: cm ++ [sp] = kept ++ bl ++ sts ->
  Forall (fun c => isbl c = true) bl -> Forall (fun c => isstar c = true) sts -> trim_ws kept = cm.
Proof.
  intros HC E Abl Asts. pose proof (trim_ws_sp_cm cm HC) as (T1 & T2). destruct HC as (H1 & H2).
  destruct (rev cm) as [|z r'] eqn:ER; [contradiction|].
  apply (f_equal (@rev byte)) in E. cbn [rev] in E. rewrite !rev_app_distr, ER in E. cbn [rev app] in E.
  apply Forall_rev in Abl. apply Forall_rev in Asts.
  destruct (rev sts) as [|s rs].
  - cbn [app] in E. destruct (rev bl) as [|b1 rb].
    + cbn [app] in E. apply (f_equal (@rev byte)) in E. rewrite rev_involutive in E. subst kept.
      replace (sp :: z :: r' ++ [sp]) with (rev (sp :: cm ++ [sp])) by (cbn [rev]; rewrite rev_app_distr, ER; reflexivity).
      rewrite rev_involutive. exact T2.
    + cbn [app] in E. injection E as E0 E. destruct rb as [|b2 rb'].
      * cbn [app] in E. apply (f_equal (@rev byte)) in E. rewrite rev_involutive in E. subst kept.
        replace (z :: r' ++ [sp]) with (rev (sp :: cm)) by (cbn [rev]; rewrite ER; reflexivity).
        rewrite rev_involutive. exact T1.
      * cbn [app] in E. injection E as E1 E. subst b2. inversion Abl as [|? ? _ Ab2]; subst. inversion Ab2 as [|? ? Hz _]; subst.
        apply isbl_space in Hz. congruence.
  - cbn [app] in E. injection E as E0 E. subst s. inversion Asts as [|? ? Hs _]; subst. discriminate Hs.
Qed.

(* the printed annotation as a comment form *)
Definition annot_body (cm : str) : str := sp :: cm ++ [sp].

Theorem annot_comment_value e cm rest st p id others :
  clean cm -> no_nul cm -> nss (annot_body cm) = true ->
  l_sc st = INITIAL -> l_inc st = [] -> q_inv (l_q st) ->
  l_bufs st = (id, (slash :: star :: annot_body cm ++ [star; slash]) ++ rest) :: others ->
  exists q', lexL e st p =
    mkres TComment (Some cm) (set_q (set_sc (set_bufs st ((id, rest) :: others)) INITIAL) q')
          (add_lines p (count_nl (annot_body cm))) [] 0.
Proof.
  intros HC HZ HN Hsc Hi Hq Hb.
  assert (Z : no_nul (annot_body cm)).
  { unfold annot_body, no_nul. constructor; [discriminate|]. apply Forall_app. split; [exact HZ|constructor; [discriminate|constructor]]. }
  destruct (block_comment_token_val e (annot_body cm) rest st p id others HN Z Hsc Hi Hq Hb)
    as (kept & bl & sts & q' & Eb & Abl & Asts & HL).
  exists q'. rewrite HL. rewrite (kept_value cm kept bl sts HC Eb Abl Asts). reflexivity.
Qed.

(* on the token list: the printed annotation in front of ANY text b is one comment token with value cm,
   followed by the tokens of b *)
Definition annot_text (cm : str) : str := slash :: star :: annot_body cm ++ [star; slash].

Theorem annot_comment_tokens e cm (b : str) p F tb x sb pb db :
  clean cm -> no_nul cm -> nss (annot_body cm) = true ->
  lex_all e (S F) (scan_begin lex_init b) (add_lines p (count_nl (annot_body cm))) [] [] = (tb, x, sb, pb, db) ->
  exists s',
    lex_all e (S (S F)) (scan_begin lex_init (annot_text cm ++ b)) p [] []
    = ({| lt_tok := TComment; lt_val := Some cm; lt_line := (p_line p + count_nl (annot_body cm))%N |} :: tb, x, s', pb, db).
Proof.
  intros HC HZ HN Hb. unfold annot_text.
  destruct (annot_comment_value e cm b (scan_begin lex_init ((slash :: star :: annot_body cm ++ [star; slash]) ++ b)) p 0%nat []
              HC HZ HN eq_refl eq_refl q_inv_empty eq_refl) as (q' & HL).
  assert (Hq : q_inv q').
  { pose proof (lexL_qinv e (scan_begin lex_init ((slash :: star :: annot_body cm ++ [star; slash]) ++ b)) p q_inv_empty) as K.
    rewrite HL in K. exact K. }
  destruct (token_then e (slash :: star :: annot_body cm ++ [star; slash]) b p _ _ _ (S F) tb x sb pb db HL eq_refl eq_refl eq_refl eq_refl Hq Hb)
    as (s' & H').
  exists s'. exact H'.
Qed.

(* an annotation on one line has no line feed: the line counter does not move *)
Lemma count_nl_annot_body cm : Forall (fun c => notnl c = true) cm -> count_nl (annot_body cm) = 0%N.
Proof.
  intros H. unfold annot_body. rewrite count_nl_cons, count_nl_app, (count_nl_notnl cm H), count_nl_cons.
  reflexivity.
Qed.
