(* ====================================================================== *)
(*  Oom.v  --  C18: an executable heap model of the allocation behaviour  *)
(*  (and of the hand-written unwind code) of seven functions of           *)
(*  libconfuse's src/confuse.c.   No proofs in this file.                 *)
(*  PART I  : heap, monad, the model functions (in C statement order)     *)
(*  PART II : specification vocabulary (ghost structures, Sep, Post, ...) *)
(*  PART III: fixed instances, the extracted fault table                  *)
(*                                                                        *)
(*  Heap      : list of cells, address = index; [alloc] appends, so the   *)
(*              next fresh address is [length h].                         *)
(*  Requests  : every malloc / calloc / strdup / realloc / reallocarray   *)
(*              is ONE request.  The state carries a fault countdown:     *)
(*              [run m h k] makes the k-th request of the run fail        *)
(*              (k = 0 : no fault).  Only one request fails per run.      *)
(*  realloc   : modelled as allocate - copy - free old (the address       *)
(*              always changes, which is the adversarial choice: every    *)
(*              stale copy of the old pointer becomes dangling).  When    *)
(*              the request fails the old block is left intact.           *)
(*              New cells of a grown block are UNDEFINED (reading one is  *)
(*              a Crash).  realloc(NULL,n) = malloc.                      *)
(*  Crash     : any load / store / free of an address that is not live    *)
(*              (this includes double free), any out-of-bounds or         *)
(*              undefined-cell read, any NULL dereference, any block of   *)
(*              the wrong shape.                                          *)
(* ====================================================================== *)
Require Import List Arith Bool.
Import ListNotations.

Definition addr := nat.
Definition ptr  := option addr.          (* None = NULL *)
Definition str  := list nat.             (* contents of a C string *)

(* a cell of a pointer array (of type cfg_value_t-pointer-pointer) *)
Inductive word := WUndef | WPtr (p : ptr).

(* the allocation-relevant fields of a cfg_opt_t *)
Record optrec := mkOpt {
  o_name    : ptr;      (* char *name        *)
  o_comment : ptr;      (* char *comment     *)
  o_parsed  : ptr;      (* char *def.parsed  *)
  o_dstring : ptr;      (* char *def.string  *)
  o_subopts : ptr;      (* cfg_opt_t *subopts *)
  o_values  : ptr;      (* cfg_value_t **values *)
  o_nvalues : nat       (* unsigned nvalues  *)
}.

Definition zero_opt : optrec := mkOpt None None None None None None 0.  (* CFG_END() / memset 0 *)

(* an element of a cfg_opt_t[] block: undefined (fresh realloc memory) or a record *)
Inductive slot := SUndef | SOpt (o : optrec).

Inductive block :=
| BStr  (s : str)                      (* a C string                         *)
| BRaw                                 (* malloc'ed, not yet written         *)
| BVal  (s : ptr)                      (* cfg_value_t, field .string         *)
| BArr  (ws : list word)               (* cfg_value_t *[]                    *)
| BOpts (ss : list slot)               (* cfg_opt_t []                       *)
| BCfg  (name opts path : ptr)         (* cfg_t : name, opts, path           *)
| BPath (dir next : ptr).              (* cfg_searchpath_t                   *)

Inductive cell := Unalloc | Freed | Live (b : block).

Definition heap := list cell.

Definition get (h : heap) (a : addr) : cell := nth a h Unalloc.

Fixpoint set_nth {A} (l : list A) (i : nat) (x : A) : list A :=
  match l, i with
  | [], _ => []
  | _ :: t, 0 => x :: t
  | y :: t, S i' => y :: set_nth t i' x
  end.

Definition upd (h : heap) (a : addr) (c : cell) : heap := set_nth h a c.

Definition is_live (c : cell) : bool := match c with Live _ => true | _ => false end.
Definition live (h : heap) (a : addr) : Prop := exists b, get h a = Live b.

(* ---------------------------------------------------------------------- *)
(*  state-and-fault monad                                                  *)
(* ---------------------------------------------------------------------- *)
Record st := mkst { heap_of : heap; fault : nat }.

Inductive res (A : Type) :=
| Ok (a : A) (s : st)
| Crash                  (* memory-safety violation *)
| Fuel.                  (* recursion fuel of the model exhausted (never a C behaviour) *)
Arguments Ok {A}. Arguments Crash {A}. Arguments Fuel {A}.

Definition M (A : Type) := st -> res A.

Definition ret {A} (a : A) : M A := fun s => Ok a s.
Definition bind {A B} (m : M A) (f : A -> M B) : M B :=
  fun s => match m s with Ok a s' => f a s' | Crash => Crash | Fuel => Fuel end.
Definition crash {A} : M A := fun _ => Crash.
Definition nofuel {A} : M A := fun _ => Fuel.

Notation "x <- m ;; k" := (bind m (fun x => k))
  (at level 61, m at next level, right associativity).
Notation "m ;;; k" := (bind m (fun _ => k))
  (at level 61, right associativity).

(* what a modelled C function reports *)
Inductive outcome (V : Type) := Done (v : V) | Failed.
Arguments Done {V}. Arguments Failed {V}.

Definition run {A} (m : M A) (h : heap) (k : nat) : res A := m (mkst h k).

(* ---------------------------------------------------------------------- *)
(*  primitive steps                                                        *)
(* ---------------------------------------------------------------------- *)

(* one allocation request: true = granted *)
Definition request : M bool := fun s =>
  match fault s with
  | 0 => Ok true s
  | 1 => Ok false (mkst (heap_of s) 0)
  | S (S k) => Ok true (mkst (heap_of s) (S k))
  end.

Definition alloc (b : block) : M addr := fun s =>
  Ok (length (heap_of s)) (mkst (heap_of s ++ [Live b]) (fault s)).

(* malloc/calloc with initial contents b *)
Definition malloc (b : block) : M ptr :=
  ok <- request ;; if ok then (a <- alloc b ;; ret (Some a)) else ret None.

Definition strdup (s : str) : M ptr := malloc (BStr s).

Definition load (a : addr) : M block := fun s =>
  match get (heap_of s) a with Live b => Ok b s | _ => Crash end.

Definition store (a : addr) (b : block) : M unit := fun s =>
  match get (heap_of s) a with
  | Live _ => Ok tt (mkst (upd (heap_of s) a (Live b)) (fault s))
  | _ => Crash end.

Definition free (a : addr) : M unit := fun s =>
  match get (heap_of s) a with
  | Live _ => Ok tt (mkst (upd (heap_of s) a Freed) (fault s))
  | _ => Crash end.

(* if (p) free(p);   -- also free(NULL) *)
Definition free_ptr (p : ptr) : M unit :=
  match p with Some a => free a | None => ret tt end.

(* a read access whose value is not needed: only liveness is checked *)
Definition touch (a : addr) : M unit := load a ;;; ret tt.

Definition resize_block (n : nat) (b : block) : block :=
  match b with
  | BArr ws  => BArr  (firstn n ws ++ repeat WUndef (n - length ws))
  | BOpts ss => BOpts (firstn n ss ++ repeat SUndef (n - length ss))
  | b => b
  end.

(* realloc(p, n cells); [empty] gives the shape of the block when p = NULL *)
Definition realloc (p : ptr) (n : nat) (empty : block) : M ptr :=
  match p with
  | None => malloc (resize_block n empty)
  | Some a =>
      old <- load a ;;                      (* p must be a live block           *)
      ok <- request ;;
      if ok then
        a' <- alloc (resize_block n old) ;; (* new block, common prefix copied  *)
        free a ;;;                          (* old block released               *)
        ret (Some a')
      else ret None                         (* failure: old block untouched     *)
  end.

(* typed loads: wrong shape = Crash *)
Definition load_str (a : addr) : M str :=
  b <- load a ;; match b with BStr s => ret s | _ => crash end.
Definition load_val (a : addr) : M ptr :=
  b <- load a ;; match b with BVal s => ret s | _ => crash end.
Definition load_arr (a : addr) : M (list word) :=
  b <- load a ;; match b with BArr ws => ret ws | _ => crash end.
Definition load_opts (a : addr) : M (list slot) :=
  b <- load a ;; match b with BOpts ss => ret ss | _ => crash end.

(* arr[i]  (read) *)
Definition load_word (arr : addr) (i : nat) : M ptr :=
  ws <- load_arr arr ;;
  match nth_error ws i with Some (WPtr p) => ret p | _ => crash end.

(* arr[i] = p *)
Definition store_word (arr : addr) (i : nat) (p : ptr) : M unit :=
  ws <- load_arr arr ;;
  if i <? length ws then store arr (BArr (set_nth ws i (WPtr p))) else crash.

(* opts[i].field = ...  : read-modify-write of one field of a defined slot *)
Definition upd_slot (arr : addr) (i : nat) (f : optrec -> optrec) : M unit :=
  ss <- load_opts arr ;;
  match nth_error ss i with
  | Some (SOpt o) => store arr (BOpts (set_nth ss i (SOpt (f o))))
  | _ => crash
  end.

(* memset(&opts[i], 0, sizeof(cfg_opt_t)) : whole-slot write, slot may be undefined *)
Definition zero_slot (arr : addr) (i : nat) : M unit :=
  ss <- load_opts arr ;;
  if i <? length ss then store arr (BOpts (set_nth ss i (SOpt zero_opt))) else crash.

Definition with_name (p : ptr) (o : optrec) :=
  mkOpt p (o_comment o) (o_parsed o) (o_dstring o) (o_subopts o) (o_values o) (o_nvalues o).
Definition with_comment (p : ptr) (o : optrec) :=
  mkOpt (o_name o) p (o_parsed o) (o_dstring o) (o_subopts o) (o_values o) (o_nvalues o).
Definition with_parsed (p : ptr) (o : optrec) :=
  mkOpt (o_name o) (o_comment o) p (o_dstring o) (o_subopts o) (o_values o) (o_nvalues o).
Definition with_dstring (p : ptr) (o : optrec) :=
  mkOpt (o_name o) (o_comment o) (o_parsed o) p (o_subopts o) (o_values o) (o_nvalues o).
Definition with_subopts (p : ptr) (o : optrec) :=
  mkOpt (o_name o) (o_comment o) (o_parsed o) (o_dstring o) p (o_values o) (o_nvalues o).
Definition with_values (p : ptr) (o : optrec) :=
  mkOpt (o_name o) (o_comment o) (o_parsed o) (o_dstring o) (o_subopts o) p (o_nvalues o).
Definition with_nvalues (n : nat) (o : optrec) :=
  mkOpt (o_name o) (o_comment o) (o_parsed o) (o_dstring o) (o_subopts o) (o_values o) n.

Definition is_some {A} (p : option A) : bool := match p with Some _ => true | None => false end.

(* ====================================================================== *)
(* (1) cfg_addval(opt)            -- opt is passed and returned by value   *)
(* ====================================================================== *)
Definition cfg_addval (o : optrec) : M (optrec * outcome addr) :=
  (* ptr = realloc(opt->values, (opt->nvalues + 1) * sizeof(cfg_value_t-ptr)); *)
  p <- realloc (o_values o) (o_nvalues o + 1) (BArr []) ;;
  match p with
  | None => ret (o, Failed)                          (* if (!ptr) return NULL; *)
  | Some arr =>
      let o1 := with_values (Some arr) o in          (* opt->values = ptr;     *)
      (* opt->values[opt->nvalues] = calloc(1, sizeof(cfg_value_t)); *)
      c <- malloc (BVal None) ;;
      store_word arr (o_nvalues o) c ;;;
      match c with
      | None => ret (o1, Failed)                     (* if (!...) return NULL; *)
      | Some _ =>
          (* return opt->values[opt->nvalues++]; *)
          v <- load_word arr (o_nvalues o) ;;
          match v with
          | Some cv => ret (with_nvalues (S (o_nvalues o)) o1, Done cv)
          | None => crash
          end
      end
  end.

(* ====================================================================== *)
(* (2) cfg_opt_getval / cfg_opt_setnstr                                    *)
(*     (simple_value.ptr == NULL, CFGF_RESET not set, no EINVAL exits)     *)
(* ====================================================================== *)
Definition cfg_opt_getval (o : optrec) (index : nat) : M (optrec * outcome addr) :=
  if o_nvalues o <=? index then cfg_addval o         (* if (index >= opt->nvalues) *)
  else match o_values o with
       | None => crash
       | Some arr =>                                  (* val = opt->values[index]   *)
           v <- load_word arr index ;;
           match v with Some cv => ret (o, Done cv) | None => crash end
       end.

(* the last three statements of cfg_opt_setnstr; val = cv, newstr = the copy (or NULL) *)
Definition set_val_string (o1 : optrec) (cv : addr) (newstr : ptr)
  : M (optrec * outcome unit) :=
  oldstr <- load_val cv ;;                           (* oldstr = val->string; *)
  store cv (BVal newstr) ;;;                         (* val->string = newstr; *)
  free_ptr oldstr ;;;                                (* free(oldstr); *)
  ret (o1, Done tt).                                 (* return CFG_SUCCESS; *)

(* cfg_opt_setnstr after the copy has been made: newstr = the copy, or NULL when value == NULL *)
Definition setnstr_after_copy (o : optrec) (newstr : ptr) (index : nat)
  : M (optrec * outcome unit) :=
  r <- cfg_opt_getval o index ;;                     (* val = cfg_opt_getval(opt, index); *)
  let (o1, v) := r in
  match v with
  | Failed => free_ptr newstr ;;; ret (o1, Failed)   (* if (!val) { free(newstr); return CFG_FAIL; } *)
  | Done cv => set_val_string o1 cv newstr
  end.

(* the copy is made FIRST (value may point into the option's current value,
   which cfg_opt_getval may release); request order: strdup, [realloc, calloc] *)
Definition cfg_opt_setnstr (o : optrec) (value : option str) (index : nat)
  : M (optrec * outcome unit) :=
  match value with
  | Some s =>                                        (* if (value) {              *)
      newstr <- strdup s ;;                          (*   newstr = strdup(value); *)
      match newstr with
      | None => ret (o, Failed)                      (*   if (!newstr) return CFG_FAIL; } *)
      | Some _ => setnstr_after_copy o newstr index
      end
  | None => setnstr_after_copy o None index          (* newstr = NULL *)
  end.

(* ====================================================================== *)
(* (3) cfg_opt_setcomment(opt, comment)                                    *)
(* ====================================================================== *)
Definition cfg_opt_setcomment (o : optrec) (comment : str) : M (optrec * outcome unit) :=
  let oldcomment := o_comment o in                   (* oldcomment = opt->comment; *)
  newcomment <- strdup comment ;;                    (* newcomment = strdup(comment); *)
  match newcomment with
  | None => ret (o, Failed)                          (* if (!newcomment) return CFG_FAIL; *)
  | Some _ =>
      free_ptr oldcomment ;;;                        (* if (oldcomment) free(oldcomment); *)
      ret (with_comment newcomment o, Done tt)       (* opt->comment = newcomment; *)
  end.

(* ====================================================================== *)
(* option arrays: cfg_numopts                                              *)
(* ====================================================================== *)
(* the records in front of the first slot whose name is NULL;
   None when the scan meets an undefined slot or runs off the block *)
Fixpoint named_prefix (ss : list slot) : option (list optrec) :=
  match ss with
  | [] => None
  | SUndef :: _ => None
  | SOpt o :: t =>
      match o_name o with
      | None => Some []
      | Some _ => match named_prefix t with Some l => Some (o :: l) | None => None end
      end
  end.

(* for (n = 0; opts && opts[n].name; n++) ; *)
Definition cfg_numopts (p : ptr) : M nat :=
  match p with
  | None => ret 0
  | Some a => ss <- load_opts a ;;
              match named_prefix ss with Some l => ret (length l) | None => crash end
  end.

Definition load_cfg (a : addr) : M (ptr * ptr * ptr) :=
  b <- load a ;; match b with BCfg n o p => ret (n, o, p) | _ => crash end.

(* ====================================================================== *)
(* (5) cfg_addopt(cfg, key)  -- CURRENT code; result = (array, index)      *)
(* ====================================================================== *)
Definition cfg_addopt (cfg : addr) (key : str) : M (outcome (addr * nat)) :=
  c <- load_cfg cfg ;;
  let '(cname, copts, cpath) := c in
  num <- cfg_numopts copts ;;                        (* int num = cfg_num(cfg); *)
  (* opts = reallocarray(cfg->opts, num + 2, sizeof(cfg_opt_t)); *)
  p <- realloc copts (num + 2) (BOpts []) ;;
  match p with
  | None => ret Failed                               (* if (!opts) return NULL; *)
  | Some opts =>
      store cfg (BCfg cname (Some opts) cpath) ;;;   (* cfg->opts = opts; *)
      nm <- strdup key ;;
      upd_slot opts num (with_name nm) ;;;           (* cfg->opts[num].name = strdup(key); *)
      match nm with
      | None => ret Failed                           (* return NULL; array kept *)
      | Some _ =>
          zero_slot opts (num + 1) ;;;               (* memset(&cfg->opts[num + 1], 0, ...); *)
          ret (Done (opts, num))                     (* return &cfg->opts[num]; *)
      end
  end.

(* the PREVIOUS version: on strdup failure it did free(opts) after cfg->opts = opts *)
Definition cfg_addopt_old (cfg : addr) (key : str) : M (outcome (addr * nat)) :=
  c <- load_cfg cfg ;;
  let '(cname, copts, cpath) := c in
  num <- cfg_numopts copts ;;
  p <- realloc copts (num + 2) (BOpts []) ;;
  match p with
  | None => ret Failed
  | Some opts =>
      store cfg (BCfg cname (Some opts) cpath) ;;;   (* cfg->opts = opts; *)
      nm <- strdup key ;;
      upd_slot opts num (with_name nm) ;;;
      match nm with
      | None => free opts ;;; ret Failed             (* free(opts); return NULL;  <-- defect *)
      | Some _ =>
          zero_slot opts (num + 1) ;;;
          ret (Done (opts, num))
      end
  end.

(* ====================================================================== *)
(* (6) cfg_free_opt_array / cfg_dupopt_array                               *)
(*     [fuel] bounds the nesting depth of sub-option arrays                *)
(* ====================================================================== *)
(* for (i = 0; opts[i].name; ++i) { free name, comment, parsed, string, subopts }.
   The block is read once at entry (the loop never writes it); every
   iteration still probes the block ([touch]) as the C re-reads opts[i]. *)
Fixpoint free_loop (rec : addr -> M unit) (a : addr) (ss : list slot) : M unit :=
  match ss with
  | [] => crash
  | SUndef :: _ => crash
  | SOpt o :: t =>
      touch a ;;;
      match o_name o with
      | None => ret tt
      | Some nm =>
          free nm ;;;                                (* free(opts[i].name);        *)
          free_ptr (o_comment o) ;;;                 (* if (comment) free(...);    *)
          free_ptr (o_parsed o) ;;;                  (* if (def.parsed) free(...); *)
          free_ptr (o_dstring o) ;;;                 (* if (def.string) free(...); *)
          match o_subopts o with                     (* if (subopts) recurse       *)
          | Some sa => rec sa | None => ret tt end ;;;
          free_loop rec a t
      end
  end.

Fixpoint cfg_free_opt_array (fuel : nat) (a : addr) : M unit :=
  match fuel with
  | 0 => nofuel
  | S fuel' =>
      ss <- load_opts a ;;
      free_loop (cfg_free_opt_array fuel') a ss ;;;
      free a                                          (* free(opts); *)
  end.

(* m1 >&> m2 : run m2 only if m1 did not "goto err" *)
Definition andthen (m1 m2 : M bool) : M bool :=
  ok <- m1 ;; if ok then m2 else ret false.
Notation "m1 >&> m2" := (andthen m1 m2) (at level 60, right associativity).

(* if (src) { dup[i].f = strdup(src); if (!dup[i].f) goto err; } *)
Definition dup_field (d : addr) (i : nat) (src : ptr) (setf : ptr -> optrec -> optrec) : M bool :=
  match src with
  | None => ret true
  | Some a =>
      s <- load_str a ;;
      p <- strdup s ;;
      upd_slot d i (setf p) ;;;
      ret (is_some p)
  end.

(* dup[i].name = strdup(opts[i].name); if (!dup[i].name) goto err;   (name is not optional) *)
Definition dup_name (d : addr) (i : nat) (src : ptr) : M bool :=
  match src with None => crash | Some _ => dup_field d i src with_name end.

Definition dup_sub (rec : addr -> M ptr) (d : addr) (i : nat) (src : ptr) : M bool :=
  match src with
  | None => ret true
  | Some sa => p <- rec sa ;; upd_slot d i (with_subopts p) ;;; ret (is_some p)
  end.

Fixpoint dup_loop (rec : addr -> M ptr) (d : addr) (i : nat) (srcs : list optrec) : M bool :=
  match srcs with
  | [] => ret true
  | so :: rest =>
      dup_name d i (o_name so) >&>
      dup_sub rec d i (o_subopts so) >&>
      dup_field d i (o_parsed so) with_parsed >&>
      dup_field d i (o_dstring so) with_dstring >&>
      dup_field d i (o_comment so) with_comment >&>
      dup_loop rec d (S i) rest
  end.

(* dupopts[i].name = NULL; .subopts = NULL; .def.parsed = NULL; .def.string = NULL; .comment = NULL;
   (values / nvalues are copied by the memcpy and stay) *)
Definition clear_dyn (o : optrec) : optrec :=
  mkOpt None None None None None (o_values o) (o_nvalues o).

Fixpoint cfg_dupopt_array (fuel : nat) (src : addr) : M ptr :=
  match fuel with
  | 0 => nofuel
  | S fuel' =>
      ss <- load_opts src ;;
      match named_prefix ss with                     (* int n = cfg_numopts(opts); *)
      | None => crash
      | Some os =>
          let n := length os in
          (* dupopts = calloc(n + 1, sizeof(cfg_opt_t)); *)
          p <- malloc (BOpts (repeat (SOpt zero_opt) (n + 1))) ;;
          match p with
          | None => ret None                         (* if (!dupopts) return NULL; *)
          | Some d =>
              (* memcpy(dupopts, opts, n * sizeof(cfg_opt_t)); *)
              store d (BOpts (map SOpt os ++ [SOpt zero_opt])) ;;;
              (* for (i = 0; i < n; i++) clear the dynamic pointers *)
              store d (BOpts (map (fun o => SOpt (clear_dyn o)) os ++ [SOpt zero_opt])) ;;;
              ok <- dup_loop (cfg_dupopt_array fuel') d 0 os ;;
              if ok then ret (Some d)                (* return dupopts; *)
              else cfg_free_opt_array fuel d ;;; ret None   (* err: cfg_free_opt_array(dupopts); *)
          end
      end
  end.

(* ====================================================================== *)
(* (7) cfg_init(opts, flags)   WITHOUT cfg_init_defaults                    *)
(* ====================================================================== *)
Definition root_name : str := [114; 111; 111; 116].   (* "root" *)

Definition cfg_init (fuel : nat) (opts : addr) : M (outcome addr) :=
  c <- malloc (BCfg None None None) ;;               (* cfg = calloc(1, sizeof(cfg_t)); *)
  match c with
  | None => ret Failed                               (* if (!cfg) return NULL; *)
  | Some cfg =>
      nm <- strdup root_name ;;
      store cfg (BCfg nm None None) ;;;              (* cfg->name = strdup("root"); *)
      match nm with
      | None => free cfg ;;; ret Failed              (* free(cfg); return NULL; *)
      | Some nma =>
          d <- cfg_dupopt_array fuel opts ;;
          store cfg (BCfg nm d None) ;;;             (* cfg->opts = cfg_dupopt_array(opts); *)
          match d with
          | None => free nma ;;; free cfg ;;; ret Failed   (* free(cfg->name); free(cfg); *)
          | Some _ => ret (Done cfg)
          end
      end
  end.

(* ====================================================================== *)
(* (4) cfg_tilde_expand (allocation skeleton) / cfg_add_searchpath         *)
(* ====================================================================== *)
Record texp := mkTexp {
  t_user   : option str;   (* Some u : the "~user..." form, u is copied into a malloc'ed buffer *)
  t_passwd : option str;   (* Some e : a passwd entry was found; e = pw_dir ++ file            *)
  t_plain  : str           (* the file name itself (strdup fallback)                            *)
}.

Definition cfg_tilde_expand (t : texp) : M ptr :=
  ok <- match t_user t with
        | None => ret true
        | Some u =>
            b <- malloc BRaw ;;                      (* user = malloc(file - filename); *)
            match b with
            | None => ret false                      (* if (!user) return NULL; *)
            | Some ua =>
                store ua (BStr u) ;;;                (* strncpy(user, ...); user[..] = 0; getpwnam(user) *)
                free ua ;;;                          (* free(user); *)
                ret true
            end
        end ;;
  if negb ok then ret None else
  match t_passwd t with
  | Some e =>
      x <- malloc BRaw ;;                            (* expanded = malloc(strlen(pw_dir)+strlen(file)+1); *)
      match x with
      | None => ret None                             (* if (!expanded) return NULL; *)
      | Some ea => store ea (BStr e) ;;; ret (Some ea)   (* strcpy; strcat *)
      end
  | None => strdup (t_plain t)                       (* if (!expanded) expanded = strdup(filename); *)
  end.

Definition cfg_add_searchpath (cfg : addr) (dir : texp) : M (outcome unit) :=
  d <- cfg_tilde_expand dir ;;                       (* d = cfg_tilde_expand(dir); *)
  match d with
  | None => ret Failed                               (* if (!d) return CFG_FAIL; *)
  | Some da =>
      p <- malloc BRaw ;;                            (* p = malloc(sizeof(cfg_searchpath_t)); *)
      match p with
      | None => free da ;;; ret Failed               (* free(d); return CFG_FAIL; *)
      | Some pa =>
          c <- load_cfg cfg ;;
          let '(cname, copts, cpath) := c in
          store pa (BPath (Some da) cpath) ;;;       (* p->next = cfg->path; p->dir = d; *)
          store cfg (BCfg cname copts (Some pa)) ;;; (* cfg->path = p; *)
          ret (Done tt)
      end
  end.

(* ---------------------------------------------------------------------- *)
(*  outcome classification (used by the enumeration examples / extraction) *)
(* ---------------------------------------------------------------------- *)
Inductive kind := KDone | KFailed | KCrash | KFuel.

Definition kind_of_outcome {V} (o : outcome V) : kind :=
  match o with Done _ => KDone | Failed => KFailed end.

Definition kind_res {A} (f : A -> kind) (r : res A) : kind :=
  match r with Ok a _ => f a | Crash => KCrash | Fuel => KFuel end.

Definition kind_ptr (p : ptr) : kind := if is_some p then KDone else KFailed.

(* ====================================================================== *)
(*  PART II : specification vocabulary (definitions only)                  *)
(*                                                                        *)
(*  A GHOST structure records, for a root structure, every block it owns  *)
(*  (address and expected contents).  [cells G] is that list; the root    *)
(*  record itself is a projection of G.  WF is : every owned block is live *)
(*  with exactly the recorded contents, and no address is owned twice.     *)
(* ====================================================================== *)
Definition cells := list (addr * block).
Definition addrs (L : cells) : list addr := map fst L.

Definition Holds (h : heap) (L : cells) : Prop :=
  Forall (fun ab => get h (fst ab) = Live (snd ab)) L.

(* well-formedness of an owned footprint *)
Definition Sep (h : heap) (L : cells) : Prop := Holds h L /\ NoDup (addrs L).

(* an owned string: address and contents *)
Definition gstr := (addr * str)%type.
Definition ptr_of (g : option gstr) : ptr := match g with Some x => Some (fst x) | None => None end.
Definition val_of (g : option gstr) : option str := match g with Some x => Some (snd x) | None => None end.
Definition cells_str (g : gstr) : cells := [(fst g, BStr (snd g))].
Definition cells_ostr (g : option gstr) : cells := match g with Some x => cells_str x | None => [] end.

(* a value cell and its string *)
Record gval := mkGVal { gv_addr : addr; gv_str : option gstr }.
Definition cells_gval (v : gval) : cells := (gv_addr v, BVal (ptr_of (gv_str v))) :: cells_ostr (gv_str v).

(* the pointer array: nvalues used cells, then spare cells with arbitrary contents *)
Record gvals := mkGVals { ga_addr : addr; ga_vals : list gval; ga_spare : list word }.
Definition words_of (vs : list gval) : list word := map (fun v => WPtr (Some (gv_addr v))) vs.
Definition cells_gvals (a : gvals) : cells :=
  (ga_addr a, BArr (words_of (ga_vals a) ++ ga_spare a)) :: flat_map cells_gval (ga_vals a).

(* an option without sub-options *)
Record gopt := mkGOpt {
  g_name : gstr; g_parsed : option gstr; g_dstring : option gstr; g_comment : option gstr;
  g_vals : option gvals }.

Definition cells_ovals (v : option gvals) : cells := match v with Some a => cells_gvals a | None => [] end.
Definition cells_gopt (g : gopt) : cells :=
  cells_str (g_name g) ++ cells_ostr (g_parsed g) ++ cells_ostr (g_dstring g) ++ cells_ostr (g_comment g)
  ++ cells_ovals (g_vals g).

Definition vals_ptr (v : option gvals) : ptr := match v with Some a => Some (ga_addr a) | None => None end.
Definition vals_len (v : option gvals) : nat := match v with Some a => length (ga_vals a) | None => 0 end.
Definition vals_list (v : option gvals) : list gval := match v with Some a => ga_vals a | None => [] end.

(* the cfg_opt_t record denoted by a ghost option *)
Definition rec_of_gopt (g : gopt) : optrec :=
  mkOpt (Some (fst (g_name g))) (ptr_of (g_comment g)) (ptr_of (g_parsed g)) (ptr_of (g_dstring g)) None
        (vals_ptr (g_vals g)) (vals_len (g_vals g)).

(* an option array: the options, the all-zero CFG_END() slot, then spare slots with arbitrary contents *)
Record gopts := mkGOpts { gs_addr : addr; gs_opts : list gopt; gs_spare : list slot }.
Definition slots_of (gs : list gopt) (spare : list slot) : list slot :=
  map (fun g => SOpt (rec_of_gopt g)) gs ++ SOpt zero_opt :: spare.
Definition cells_gopts (G : gopts) : cells :=
  (gs_addr G, BOpts (slots_of (gs_opts G) (gs_spare G))) :: flat_map cells_gopt (gs_opts G).

(* the search path list *)
Record gpath := mkGPath { gp_addr : addr; gp_dir : gstr }.
Definition head_ptr (l : list gpath) : ptr := match l with [] => None | p :: _ => Some (gp_addr p) end.
Fixpoint cells_path (l : list gpath) : cells :=
  match l with
  | [] => []
  | p :: t => (gp_addr p, BPath (Some (fst (gp_dir p))) (head_ptr t)) :: cells_str (gp_dir p) ++ cells_path t
  end.

(* a cfg_t *)
Record gcfg := mkGCfg { gc_addr : addr; gc_name : option gstr; gc_opts : gopts; gc_path : list gpath }.
Definition cells_gcfg (c : gcfg) : cells :=
  (gc_addr c, BCfg (ptr_of (gc_name c)) (Some (gs_addr (gc_opts c))) (head_ptr (gc_path c)))
  :: cells_ostr (gc_name c) ++ cells_gopts (gc_opts c) ++ cells_path (gc_path c).

(* ---- abstract values: what the structures denote, addresses forgotten ---- *)
Record aopt := mkAOpt {
  a_name : str; a_comment : option str; a_parsed : option str; a_dstring : option str;
  a_values : list (option str) }.

Definition abs_vals (v : option gvals) : list (option str) :=
  match v with Some a => map (fun x => val_of (gv_str x)) (ga_vals a) | None => [] end.
Definition abs_opt (g : gopt) : aopt :=
  mkAOpt (snd (g_name g)) (val_of (g_comment g)) (val_of (g_parsed g)) (val_of (g_dstring g)) (abs_vals (g_vals g)).

Record acfg := mkACfg { c_name : option str; c_opts : list aopt; c_path : list str }.
Definition abs_cfg (c : gcfg) : acfg :=
  mkACfg (val_of (gc_name c)) (map abs_opt (gs_opts (gc_opts c))) (map (fun p => snd (gp_dir p)) (gc_path c)).

(* a template array (argument of cfg_init / cfg_dupopt_array): no values *)
Definition template (G : gopts) : Prop := Forall (fun g => g_vals g = None) (gs_opts G).

(* ---- the heap part of the post-condition -------------------------------
   h, L : heap and owned footprint before;  h', L' : after.
   (1) the heap only grows;  (2) FRAME: blocks not owned are untouched;
   (3) NO LEAK: every live block is owned afterwards or is an old foreign block;
   (4) the new footprint consists of old owned blocks and fresh blocks only. *)
Definition Post (h : heap) (L : cells) (h' : heap) (L' : cells) : Prop :=
  length h <= length h' /\
  (forall a, a < length h -> ~ In a (addrs L) -> get h' a = get h a) /\
  (forall a, live h' a -> In a (addrs L') \/ (a < length h /\ ~ In a (addrs L))) /\
  (forall a, In a (addrs L') -> In a (addrs L) \/ length h <= a).

(* the k-th request is one of the n requests the call makes *)
Definition hits (k n : nat) : Prop := 1 <= k <= n.


(* ---- number of allocation requests of a fault-free call ---------------- *)
Definition nreq_value (value : option str) : nat := if value then 1 else 0.
(* cfg_opt_setnstr: [strdup if value] FIRST, then [realloc, calloc if index >= nvalues] *)
Definition nreq_setnstr (nv index : nat) (value : option str) : nat :=
  (if index <? nv then 0 else 2) + nreq_value value.
Definition nreq_src (src : option gstr) : nat := if src then 1 else 0.
Definition nreq_opt (g : gopt) : nat :=
  1 + nreq_src (g_parsed g) + nreq_src (g_dstring g) + nreq_src (g_comment g).
Fixpoint nreq_opts (l : list gopt) : nat :=
  match l with [] => 0 | g :: t => nreq_opt g + nreq_opts t end.
Definition nreq_init (gs : list gopt) : nat := 2 + (1 + nreq_opts gs).
Definition nreq_texp (t : texp) : nat := (if t_user t then 1 else 0) + 1.
Definition texp_result (t : texp) : str := match t_passwd t with Some e => e | None => t_plain t end.

(* ---- abstract effects --------------------------------------------------- *)
Definition add_value (a : aopt) (v : option str) : aopt :=
  mkAOpt (a_name a) (a_comment a) (a_parsed a) (a_dstring a) (a_values a ++ [v]).
Definition set_value (a : aopt) (i : nat) (v : option str) : aopt :=
  mkAOpt (a_name a) (a_comment a) (a_parsed a) (a_dstring a) (set_nth (a_values a) i v).
Definition set_comment (a : aopt) (s : str) : aopt :=
  mkAOpt (a_name a) (Some s) (a_parsed a) (a_dstring a) (a_values a).
Definition new_aopt (key : str) : aopt := mkAOpt key None None None [].
Definition add_opt (c : acfg) (o : aopt) : acfg := mkACfg (c_name c) (c_opts c ++ [o]) (c_path c).
Definition add_path (c : acfg) (d : str) : acfg := mkACfg (c_name c) (c_opts c) (d :: c_path c).

(* ====================================================================== *)
(*  PART III : fixed small instances (for the enumeration examples and     *)
(*  for the extracted table that is compared with the real library)        *)
(* ====================================================================== *)
Definition s_a : str := [97].            (* "a" *)
Definition s_b : str := [98].            (* "b" *)
Definition s_l : str := [108].           (* "l" *)
Definition s_x : str := [120].           (* "x" *)
Definition s_p : str := [123; 112; 125]. (* "{p}" *)
Definition s_k : str := [107].           (* "k" *)
Definition s_v : str := [118].           (* "v" *)
Definition s_c : str := [99].            (* "c" *)
Definition s_dir : str := [47; 101; 116; 99].        (* "/etc" *)
Definition s_user : str := [114; 111; 111; 116].     (* "root" *)
Definition s_home : str := [47; 114; 111; 111; 116; 47; 120].  (* "/root/x" *)

(* the template  { CFG_INT("a",..), CFG_STR("b","x",..), CFG_STR_LIST("l","{p}",..), CFG_END() }
   laid out in the heap: addresses 0..4 strings, 5 the array *)
Definition inst_template_heap : heap :=
  [ Live (BStr s_a); Live (BStr s_b); Live (BStr s_x); Live (BStr s_l); Live (BStr s_p);
    Live (BOpts [ SOpt (mkOpt (Some 0) None None None None None 0);
                  SOpt (mkOpt (Some 1) None None (Some 2) None None 0);
                  SOpt (mkOpt (Some 3) None (Some 4) None None None 0);
                  SOpt zero_opt ]) ].
Definition inst_template : addr := 5.

(* the heap after a successful cfg_init of the template; the cfg_t is at address 6 *)
Definition inst_cfg_heap : heap :=
  match run (cfg_init 1 inst_template) inst_template_heap 0 with
  | Ok _ s => heap_of s | _ => [] end.
Definition inst_cfg : addr := 6.

(* a string option without values, passed by value; its name is at address 0 *)
Definition inst_opt_heap : heap := [Live (BStr s_b)].
Definition inst_opt : optrec := mkOpt (Some 0) None None None None None 0.

(* the same option after cfg_opt_setnstr(opt, "x", 0) *)
Definition inst_opt1_state : heap * optrec :=
  match run (cfg_opt_setnstr inst_opt (Some s_x) 0) inst_opt_heap 0 with
  | Ok (o, _) s => (heap_of s, o) | _ => ([], inst_opt) end.

(* ---------------------------------------------------------------------- *)
(*  an executable reachability / leak check, used ONLY for the nested      *)
(*  (one level of sub-options) instance, which is checked by computation   *)
(*  and not by a general theorem                                           *)
(* ---------------------------------------------------------------------- *)
Definition olist (p : ptr) : list addr := match p with Some a => [a] | None => [] end.

Fixpoint reach_slots (rec : addr -> option (list addr)) (ss : list slot) : option (list addr) :=
  match ss with
  | [] => None
  | SUndef :: _ => None
  | SOpt o :: t =>
      match o_name o with
      | None => Some []
      | Some nm =>
          match (match o_subopts o with None => Some [] | Some sa => rec sa end), reach_slots rec t with
          | Some l1, Some l2 =>
              Some (nm :: olist (o_comment o) ++ olist (o_parsed o) ++ olist (o_dstring o) ++ l1 ++ l2)
          | _, _ => None
          end
      end
  end.

(* all blocks reachable from the option array at address a *)
Fixpoint reach_opts (fuel : nat) (h : heap) (a : addr) : option (list addr) :=
  match fuel with
  | 0 => None
  | S f =>
      match get h a with
      | Live (BOpts ss) =>
          match reach_slots (reach_opts f h) ss with Some l => Some (a :: l) | None => None end
      | _ => None
      end
  end.

Definition mem (l : list nat) (x : nat) : bool := existsb (Nat.eqb x) l.
Fixpoint nodupb (l : list nat) : bool :=
  match l with [] => true | x :: t => negb (mem t x) && nodupb t end.
Definition same_set (l1 l2 : list nat) : bool := forallb (mem l2) l1 && forallb (mem l1) l2.

(* live addresses of h' that did not exist in h0 *)
Definition fresh_live (h0 h' : heap) : list addr :=
  filter (fun a => is_live (get h' a)) (seq (length h0) (length h' - length h0)).
Definition old_untouched (h0 h' : heap) : bool :=
  forallb (fun a => match get h0 a, get h' a with
                    | Live _, Live _ => true | Freed, Freed => true | Unalloc, Unalloc => true
                    | _, _ => false end) (seq 0 (length h0)).

(* Failed: nothing new is live.  Done d: the new live blocks are exactly the
   blocks reachable from d, each reached once, all live. *)
Definition dup_result_ok (h0 : heap) (r : res ptr) : bool :=
  match r with
  | Ok None s => match fresh_live h0 (heap_of s) with [] => old_untouched h0 (heap_of s) | _ => false end
  | Ok (Some d) s =>
      match reach_opts 3 (heap_of s) d with
      | Some l => nodupb l && same_set l (fresh_live h0 (heap_of s)) && old_untouched h0 (heap_of s)
      | None => false
      end
  | _ => false
  end.

(* { CFG_SEC("s", { CFG_INT("i"), CFG_STR("t","x"), CFG_END() }), CFG_STR("b","x"), CFG_END() } *)
Definition s_s : str := [115].  Definition s_i : str := [105].  Definition s_t : str := [116].
Definition inst_nested_heap : heap :=
  [ Live (BStr s_i); Live (BStr s_t); Live (BStr s_x);
    Live (BOpts [ SOpt (mkOpt (Some 0) None None None None None 0);
                  SOpt (mkOpt (Some 1) None None (Some 2) None None 0);
                  SOpt zero_opt ]);
    Live (BStr s_s); Live (BStr s_b);
    Live (BOpts [ SOpt (mkOpt (Some 4) None None None (Some 3) None 0);
                  SOpt (mkOpt (Some 5) None None (Some 2) None None 0);
                  SOpt zero_opt ]) ].
Definition inst_nested : addr := 6.

Definition kind_pair {V} (x : optrec * outcome V) : kind := kind_of_outcome (snd x).

(* instance i, fault index k  |->  what the model reports *)
Definition inst_kind (i k : nat) : kind :=
  match i with
  | 1 => kind_res kind_pair (run (cfg_addval inst_opt) inst_opt_heap k)
  | 2 => kind_res kind_pair (run (cfg_opt_setnstr inst_opt (Some s_v) 0) inst_opt_heap k)
  | 21 => kind_res kind_pair (run (cfg_opt_setnstr (snd inst_opt1_state) (Some s_v) 0) (fst inst_opt1_state) k)
  | 3 => kind_res kind_pair (run (cfg_opt_setcomment inst_opt s_c) inst_opt_heap k)
  | 4 => kind_res kind_of_outcome
           (run (cfg_add_searchpath inst_cfg (mkTexp None None s_dir)) inst_cfg_heap k)
  | 41 => kind_res kind_of_outcome
           (run (cfg_add_searchpath inst_cfg (mkTexp (Some s_user) (Some s_home) s_dir)) inst_cfg_heap k)
  | 5 => kind_res kind_of_outcome (run (cfg_addopt inst_cfg s_k) inst_cfg_heap k)
  | 6 => kind_res kind_ptr (run (cfg_dupopt_array 1 inst_template) inst_template_heap k)
  | 7 => kind_res kind_of_outcome (run (cfg_init 1 inst_template) inst_template_heap k)
  | 61 => kind_res kind_ptr (run (cfg_dupopt_array 2 inst_nested) inst_nested_heap k)
  | 71 => kind_res kind_of_outcome (run (cfg_init 2 inst_nested) inst_nested_heap k)
  | _ => KCrash
  end.

Definition is_failed (x : kind) : bool := match x with KFailed => true | _ => false end.

(* fault indices 0..n-1 for which the model reports Failed *)
Definition failing (i n : nat) : list nat := filter (fun k => is_failed (inst_kind i k)) (seq 0 n).

(* (instance number, fault indices k in 0..13 with outcome Failed) *)
Definition oom_table (_ : unit) : list (nat * list nat) :=
  map (fun i => (i, failing i 14)) [1; 2; 21; 3; 4; 41; 5; 6; 61; 7; 71].

