(* Getters.v — the by-name getters: cfg_getn{int,float,bool,str,ptr,sec}(cfg, name, index), cfg_gettsec(cfg, name, title).
   Each is cfg_opt_getn*(cfg_getopt(cfg, name), index): a wrong kind, an option that is not found and an index beyond the
   values all answer the type's zero (0, 0.0, false, NULL).  CFG_SIMPLE_* storage is not modelled. *)
From Coq Require Import List NArith ZArith Bool.
From LC Require Import Bytes Consts Files Store Parser.
Import ListNotations.

(* cfg_getopt(cfg, name) as the getters use it: diagnostics of the lookup are delivered *)
Definition look (w : pw) (c : cfg) (name : str) : pw * option (optref * opt) :=
  let '(ro, ds) := cfg_getopt c name in
  let w := add_diags w ds in
  match ro with
  | None => (w, None)
  | Some r => match get_opt c r with Some o => (w, Some (r, o)) | None => (w, None) end
  end.

(* opt->values && index < opt->nvalues ? opt->values[index] : nothing, after the type test *)
Definition opt_getn (o : opt) (k : kind) (index : N) : option value :=
  if kind_eqb (o_kind o) k then
    if (index <? N.of_nat (length (o_vals o)))%N then nth_error (o_vals o) (N.to_nat index) else None
  else None.

Inductive gres :=
| GInt (z : Z) | GFloat (bits : N) | GBool (b : bool) | GStr (s : option str) | GPtr (id : N)
| GSec (pos : option (list (nat * nat))).     (* position of the instance below the context, None = NULL *)

Definition getn_of (k : kind) (ro : option (optref * opt)) (index : N) : gres :=
  let v := match ro with Some (_, o) => opt_getn o k index | None => None end in
  match k with
  | KInt => GInt (match v with Some (VInt z) => z | _ => 0%Z end)
  | KFloat => GFloat (match v with Some (VFloat b) => b | _ => 0%N end)
  | KBool => GBool (match v with Some (VBool b) => b | _ => false end)
  | KStr => GStr (match v with Some (VStr s) => s | _ => None end)
  | KPtr => GPtr (match v with Some (VPtr id) => id | _ => 0%N end)
  | KSec => GSec (match ro, v with
                  | Some (r, _), Some (VSec (Some _)) => Some (fst r ++ [(snd r, N.to_nat index)])
                  | _, _ => None
                  end)
  | _ => GInt 0
  end.

Definition cfg_getn (w : pw) (c : cfg) (k : kind) (name : str) (index : N) : pw * gres :=
  let '(w1, ro) := look w c name in (w1, getn_of k ro index).

(* cfg_gettsec(cfg, name, title): the option must carry CFGF_TITLE *)
Definition cfg_gettsec (w : pw) (c : cfg) (name : str) (title : str) : pw * option (list (nat * nat)) :=
  let '(w1, ro) := look w c name in
  (w1, match ro with
       | Some (r, o) =>
           if oflag o CFGF_TITLE then
             match gettsecidx o title with
             | Some j => match opt_getnsec o (N.of_nat j) with Some _ => Some (fst r ++ [(snd r, j)]) | None => None end
             | None => None
             end
           else None
       | None => None
       end).
