(* ConvProofs.v — proofs for C04: the model conversions (Conv.v: strtol, conv_int, conv_bool)
   agree with the numeral / boolean grammar of ConvSpec.v.  Statements are collected in Properties_C04.v. *)
From Coq Require String.
Import String.StringSyntax.
From Coq Require Import List Arith NArith ZArith Bool Lia.
From Coq.Strings Require Import Byte.
From LC Require Import Bytes Conv Lexer ConvSpec.
Import ListNotations.
Local Open Scope string_scope.
Local Open Scope list_scope.

(* ------------------------------------------------------------------ *)
(* byte-class facts, by sweeping the 256 byte values                    *)
(* ------------------------------------------------------------------ *)

(* c is a digit of the base *)
Definition dlt (base : N) (c : byte) : bool :=
  match digit_val c with Some d => (d <? base)%N | None => false end.

Definition step (base : N) (acc : N) (c : byte) : N :=
  match digit_val c with Some d => (acc * base + d)%N | None => acc end.

Lemma sweep_eq (f g : byte -> bool) :
  forallb (fun c => Bool.eqb (f c) (g c)) all_bytes = true -> forall c, f c = g c.
Proof. intros H c. apply eqb_prop. exact (sweep _ H c). Qed.

Lemma sweep_imp (f g : byte -> bool) :
  forallb (fun c => implb (f c) (g c)) all_bytes = true -> forall c, f c = true -> g c = true.
Proof. intros H c Hf. pose proof (sweep _ H c) as Hc. cbv beta in Hc. rewrite Hf in Hc. exact Hc. Qed.

Lemma is_hex_dlt c : is_hex c = dlt 16 c.
Proof. revert c. apply sweep_eq. vm_compute. reflexivity. Qed.
Lemma is_octal_dlt c : is_octal c = dlt 8 c.
Proof. revert c. apply sweep_eq. vm_compute. reflexivity. Qed.
Lemma is_digit_dlt c : is_digit c = dlt 10 c.
Proof. revert c. apply sweep_eq. vm_compute. reflexivity. Qed.
Lemma is_bin_dlt c : is_bin c = dlt 2 c.
Proof. revert c. apply sweep_eq. vm_compute. reflexivity. Qed.

Definition no_val (c : byte) : bool := match digit_val c with None => true | Some _ => false end.

Lemma no_val_dlt base c : no_val c = true -> dlt base c = false.
Proof. unfold no_val, dlt. destruct (digit_val c); [discriminate|reflexivity]. Qed.

Lemma space_no_val c : is_space c = true -> no_val c = true.
Proof. revert c. apply sweep_imp. vm_compute. reflexivity. Qed.

Lemma dlt_not_space base c : dlt base c = true -> is_space c = false.
Proof.
  intros H. destruct (is_space c) eqn:E; [|reflexivity].
  rewrite (no_val_dlt base c (space_no_val c E)) in H. discriminate.
Qed.

Lemma is_x_dlt base c : (base <= 16)%N -> is_x c = true -> dlt base c = false.
Proof.
  intros Hb H. unfold is_x in H. apply orb_prop in H.
  assert (digit_val c = Some 33%N) as E.
  { destruct H as [H|H]; apply byte_eqb_eq in H; subst c; vm_compute; reflexivity. }
  unfold dlt. rewrite E. apply N.ltb_ge. lia.
Qed.

Lemma dlt_not_x base c : (base <= 16)%N -> dlt base c = true -> is_x c = false.
Proof.
  intros Hb H. destruct (is_x c) eqn:E; [|reflexivity].
  rewrite (is_x_dlt base c Hb E) in H. discriminate.
Qed.

Lemma dlt_some base c : dlt base c = true -> exists d, digit_val c = Some d.
Proof. unfold dlt. destruct (digit_val c) as [d|]; [eauto|discriminate]. Qed.

Lemma forallb_ext' {A} (f g : A -> bool) : (forall a, f a = g a) -> forall l, forallb f l = forallb g l.
Proof. intros H l. induction l as [|a l IH]; cbn [forallb]; [reflexivity|]. rewrite H, IH. reflexivity. Qed.

Lemma pos_value_fold base ds : pos_value base ds = fold_left (step base) ds 0%N.
Proof. reflexivity. Qed.

Lemma pos_value_zero base tl : pos_value base (x30 :: tl) = pos_value base tl.
Proof. reflexivity. Qed.

(* ------------------------------------------------------------------ *)
(* digits                                                               *)
(* ------------------------------------------------------------------ *)

Lemma digit_in_dlt base c : digit_in base c = if dlt base c then digit_val c else None.
Proof. unfold digit_in, dlt. destruct (digit_val c); [destruct (_ <? _)%N|]; reflexivity. Qed.

(* all characters are digits: everything is consumed *)
Lemma digits_all base s : forall acc n,
  forallb (dlt base) s = true ->
  digits base s acc n = (fold_left (step base) s acc, [], (length s + n)%nat).
Proof.
  induction s as [|a s IH]; intros acc n H.
  - reflexivity.
  - cbn [forallb] in H. apply andb_prop in H as [Ha Hs].
    destruct (dlt_some _ _ Ha) as [d E].
    cbn [digits fold_left length]. rewrite digit_in_dlt, Ha, E.
    assert (step base acc a = (acc * base + d)%N) as -> by (unfold step; rewrite E; reflexivity).
    rewrite IH by exact Hs. f_equal. lia.
Qed.

(* some character is not a digit: the rest is not empty *)
Lemma digits_notall base s : forall acc n,
  forallb (dlt base) s = false ->
  exists m c r k, digits base s acc n = (m, c :: r, k).
Proof.
  induction s as [|a s IH]; intros acc n H.
  - discriminate.
  - cbn [forallb] in H. cbn [digits]. rewrite digit_in_dlt.
    destruct (dlt base a) eqn:Ha.
    + destruct (dlt_some _ _ Ha) as [d E]. rewrite E. apply IH. exact H.
    + exists acc, a, s, n. reflexivity.
Qed.

(* ------------------------------------------------------------------ *)
(* strtol, stage by stage                                               *)
(* ------------------------------------------------------------------ *)

Definition skip : str -> str :=
  fix skip (t : str) := match t with c :: r => if is_space c then skip r else t | [] => [] end.

Definition sign (s1 : str) : bool * str :=
  match s1 with
  | c :: r => if Byte.eqb c x2d then (true, r) else if Byte.eqb c x2b then (false, r) else (false, s1)
  | [] => (false, s1)
  end.

Definition prefix (base : N) (s2 : str) : N * str :=
  match s2 with
  | c0 :: c1 :: c2 :: r =>
      if Byte.eqb c0 x30 && is_x c1 && (base =? 0)%N || Byte.eqb c0 x30 && is_x c1 && (base =? 16)%N then
        match digit_in 16 c2 with
        | Some _ => (16%N, c2 :: r)
        | None => (if (base =? 0)%N then 8%N else base, s2)
        end
      else if (base =? 0)%N then (if Byte.eqb c0 x30 then 8%N else 10%N, s2) else (base, s2)
  | c0 :: _ => if (base =? 0)%N then (if Byte.eqb c0 x30 then 8%N else 10%N, s2) else (base, s2)
  | [] => (if (base =? 0)%N then 10%N else base, s2)
  end.

Definition sgn (neg : bool) (m : N) : Z := if neg then (- Z.of_N m)%Z else Z.of_N m.

Definition finish (s : str) (neg : bool) (b : N) (s3 : str) : strtol_res :=
  let '(mag, rest, n) := digits b s3 0%N 0%nat in
  match n with
  | O => {| sl_val := 0; sl_rest := s; sl_erange := false; sl_noconv := true |}
  | _ =>
    let z := if neg then (- Z.of_N mag)%Z else Z.of_N mag in
    if in_long z then {| sl_val := z; sl_rest := rest; sl_erange := false; sl_noconv := false |}
    else {| sl_val := if neg then LONG_MIN else LONG_MAX; sl_rest := rest; sl_erange := true; sl_noconv := false |}
  end.

Lemma strtol_eq s base :
  strtol s base =
  let '(neg, s2) := sign (skip s) in let '(b, s3) := prefix base s2 in finish s neg b s3.
Proof. reflexivity. Qed.

Lemma skip_nospace c r : is_space c = false -> skip (c :: r) = c :: r.
Proof. intros H. cbn [skip]. rewrite H. reflexivity. Qed.

(* what cfg_setopt makes of a strtol result *)
Definition conv_of (r : strtol_res) : conv_res Z :=
  match sl_rest r with
  | _ :: _ => CInvalid
  | [] => if sl_erange r then CRange else COk (sl_val r)
  end.

Definition clamp (z : Z) : conv_res Z := if in_long z then COk z else CRange.

Definition fin_res (neg : bool) (b : N) (s3 : str) : conv_res Z :=
  if nonempty s3 && forallb (dlt b) s3 then clamp (sgn neg (pos_value b s3)) else CInvalid.

Lemma finish_all orig neg b s3 :
  nonempty s3 = true -> forallb (dlt b) s3 = true ->
  sl_noconv (finish orig neg b s3) = false /\
  conv_of (finish orig neg b s3) = clamp (sgn neg (pos_value b s3)).
Proof.
  intros Hn Hf. unfold finish. rewrite (digits_all b s3 0%N 0%nat Hf).
  destruct s3 as [|c r]; [discriminate|].
  cbn [length Nat.add]. rewrite <- pos_value_fold.
  unfold clamp, sgn, conv_of.
  destruct (in_long (if neg then (- Z.of_N (pos_value b (c :: r)))%Z else Z.of_N (pos_value b (c :: r)))) eqn:E;
    cbn [sl_noconv sl_rest sl_erange sl_val]; split; reflexivity.
Qed.

Lemma finish_notall orig neg b s3 :
  nonempty s3 && forallb (dlt b) s3 = false ->
  (if sl_noconv (finish orig neg b s3) then CInvalid else conv_of (finish orig neg b s3)) = CInvalid.
Proof.
  intros H. destruct s3 as [|c r]; [reflexivity|].
  cbn [nonempty andb] in H.
  destruct (digits_notall b (c :: r) 0%N 0%nat H) as (m & c' & r' & k & E).
  unfold finish. rewrite E. destruct k as [|k]; [reflexivity|].
  cbv zeta. destruct (in_long _); reflexivity.
Qed.

Lemma finish_conv orig neg b s3 :
  (if sl_noconv (finish orig neg b s3) then CInvalid else conv_of (finish orig neg b s3)) = fin_res neg b s3.
Proof.
  unfold fin_res. destruct (nonempty s3 && forallb (dlt b) s3) eqn:H.
  - apply andb_prop in H as [Hn Hf]. destruct (finish_all orig neg b s3 Hn Hf) as [-> ->]. reflexivity.
  - apply finish_notall. exact H.
Qed.

(* ------------------------------------------------------------------ *)
(* conv_int, stage by stage                                             *)
(* ------------------------------------------------------------------ *)

Definition radix_of (value : str) : N * str :=
  match value with
  | c0 :: rest =>
      if Byte.eqb c0 x30 then
        match rest with
        | c1 :: rest' =>
            if Byte.eqb c1 x62 then (2%N, rest')
            else if Byte.eqb c1 x78 then (16%N, rest')
            else (8%N, value)
        | [] => (8%N, value)
        end
      else (0%N, value)
  | [] => (0%N, value)
  end.

Definition conv_fin (radix : N) (int_str : str) : conv_res Z :=
  let r := strtol int_str radix in
  if (if (radix =? 0)%N then sl_noconv r else negb (is_digits int_str radix)) then CInvalid
  else conv_of r.

Lemma conv_int_eq value :
  conv_int value = let '(radix, int_str) := radix_of value in conv_fin radix int_str.
Proof. reflexivity. Qed.

Lemma is_digits_eq s radix : is_digits s radix = nonempty s && forallb (dlt radix) s.
Proof. destruct s; reflexivity. Qed.

(* fixed radix (2, 8, 16): cfg_is_digits guards the call, so strtol sees digits only *)
Lemma sign_digit base c r : dlt base c = true -> sign (c :: r) = (false, c :: r).
Proof.
  intros H. unfold sign.
  destruct (Byte.eqb c x2d) eqn:E1.
  { apply byte_eqb_eq in E1. subst c. rewrite (no_val_dlt base x2d eq_refl) in H. discriminate. }
  destruct (Byte.eqb c x2b) eqn:E2.
  { apply byte_eqb_eq in E2. subst c. rewrite (no_val_dlt base x2b eq_refl) in H. discriminate. }
  reflexivity.
Qed.

Lemma prefix_fixed base s :
  (base =? 0)%N = false -> (base <= 16)%N -> forallb (dlt base) s = true -> prefix base s = (base, s).
Proof.
  intros Hb0 Hb16 Hf. destruct s as [|c0 [|c1 [|c2 r]]]; unfold prefix; rewrite Hb0; try reflexivity.
  cbn [forallb] in Hf. apply andb_prop in Hf as [_ Hf]. apply andb_prop in Hf as [H1 _].
  rewrite (dlt_not_x base c1 Hb16 H1). destruct (Byte.eqb c0 x30); reflexivity.
Qed.

Lemma conv_fin_fixed base s :
  (base =? 0)%N = false -> (base <= 16)%N -> conv_fin base s = fin_res false base s.
Proof.
  intros Hb0 Hb16. unfold conv_fin, fin_res. rewrite Hb0, is_digits_eq.
  destruct (nonempty s && forallb (dlt base) s) eqn:H; cbn [negb]; [|reflexivity].
  apply andb_prop in H as [Hn Hf].
  assert (strtol s base = finish s false base s) as ->.
  { rewrite strtol_eq. destruct s as [|c r]; [discriminate|].
    pose proof Hf as Hf'. cbn [forallb] in Hf'. apply andb_prop in Hf' as [Hc _].
    rewrite (skip_nospace c r (dlt_not_space base c Hc)), (sign_digit base c r Hc).
    rewrite (prefix_fixed base (c :: r) Hb0 Hb16 Hf). reflexivity. }
  destruct (finish_all s false base s Hn Hf) as [_ ->]. reflexivity.
Qed.

(* radix 0: strtol guesses; compare with the C numeral grammar *)
Lemma conv_fin_zero s : conv_fin 0 s = (if sl_noconv (strtol s 0) then CInvalid else conv_of (strtol s 0)).
Proof. reflexivity. Qed.

Definition spec_res (neg : bool) (o : option N) : conv_res Z :=
  match o with Some n => clamp (sgn neg n) | None => CInvalid end.

(* the non-hexadecimal readings: leading 0 means octal, otherwise decimal *)
Definition cu_simple (c0 : byte) (tl : str) : option N :=
  if Byte.eqb c0 x30 then (if forallb is_octal tl then Some (pos_value 8 tl) else None)
  else if forallb is_digit (c0 :: tl) then Some (pos_value 10 (c0 :: tl)) else None.

Lemma fin_res_simple neg c0 tl :
  fin_res neg (if Byte.eqb c0 x30 then 8%N else 10%N) (c0 :: tl) = spec_res neg (cu_simple c0 tl).
Proof.
  unfold fin_res, cu_simple. cbn [nonempty andb].
  destruct (Byte.eqb c0 x30) eqn:E.
  - apply byte_eqb_eq in E. subst c0.
    rewrite (forallb_ext' _ _ is_octal_dlt tl). cbn [forallb].
    replace (dlt 8 x30) with true by (vm_compute; reflexivity). cbn [andb].
    rewrite pos_value_zero. destruct (forallb (dlt 8) tl); reflexivity.
  - rewrite (forallb_ext' _ _ is_digit_dlt (c0 :: tl)).
    destruct (forallb (dlt 10) (c0 :: tl)); reflexivity.
Qed.

Lemma c_unsigned_one c0 : c_unsigned [c0] = cu_simple c0 [].
Proof.
  unfold cu_simple. destruct (Byte.eqb c0 x30) eqn:E.
  - apply byte_eqb_eq in E. subst c0. vm_compute. reflexivity.
  - cbn [c_unsigned forallb]. rewrite andb_true_r. reflexivity.
Qed.

Lemma c_unsigned_simple c0 c1 ds :
  Byte.eqb c0 x30 && is_x c1 && nonempty ds && forallb is_hex ds = false ->
  c_unsigned (c0 :: c1 :: ds) = cu_simple c0 (c1 :: ds).
Proof.
  intros H. unfold c_unsigned, cu_simple. fold (is_x c1). rewrite H. reflexivity.
Qed.

Lemma c_unsigned_hex c0 c1 ds :
  Byte.eqb c0 x30 && is_x c1 && nonempty ds && forallb is_hex ds = true ->
  c_unsigned (c0 :: c1 :: ds) = Some (pos_value 16 ds).
Proof.
  intros H. unfold c_unsigned. fold (is_x c1). rewrite H. reflexivity.
Qed.

(* "0x" not followed by hex digits only: no reading at all *)
Lemma cu_simple_x c1 ds : is_x c1 = true -> cu_simple x30 (c1 :: ds) = None.
Proof.
  intros H. unfold cu_simple. replace (Byte.eqb x30 x30) with true by reflexivity.
  cbn [forallb]. rewrite is_octal_dlt, (is_x_dlt 8 c1 ltac:(lia) H). reflexivity.
Qed.

Lemma fin_res_x neg c1 ds : is_x c1 = true -> fin_res neg 8 (x30 :: c1 :: ds) = CInvalid.
Proof.
  intros H. unfold fin_res. cbn [forallb nonempty]. rewrite (is_x_dlt 8 c1 ltac:(lia) H).
  rewrite andb_false_r. reflexivity.
Qed.

Lemma unsigned_conv orig neg body :
  (let '(b, s3) := prefix 0 body in
   if sl_noconv (finish orig neg b s3) then CInvalid else conv_of (finish orig neg b s3))
  = spec_res neg (c_unsigned body).
Proof.
  destruct body as [|c0 [|c1 [|c2 r]]].
  - (* empty *) cbn [prefix N.eqb]. rewrite finish_conv. reflexivity.
  - (* one character *)
    cbn [prefix N.eqb]. rewrite finish_conv, c_unsigned_one. apply fin_res_simple.
  - (* two characters: never hexadecimal *)
    cbn [prefix N.eqb]. rewrite finish_conv, c_unsigned_simple.
    + apply fin_res_simple.
    + cbn [nonempty]. rewrite andb_false_r. reflexivity.
  - (* three or more *)
    unfold prefix. cbn [N.eqb]. rewrite andb_false_r, orb_false_r, andb_true_r.
    destruct (Byte.eqb c0 x30 && is_x c1) eqn:P.
    + apply andb_prop in P as [P0 Px]. apply byte_eqb_eq in P0. subst c0.
      rewrite digit_in_dlt. destruct (dlt 16 c2) eqn:H2.
      * destruct (dlt_some _ _ H2) as [d ->]. rewrite finish_conv.
        unfold fin_res. cbn [nonempty andb].
        destruct (forallb (dlt 16) (c2 :: r)) eqn:F.
        -- rewrite c_unsigned_hex; [reflexivity|].
           rewrite Px, (forallb_ext' _ _ is_hex_dlt), F. reflexivity.
        -- rewrite c_unsigned_simple.
           ++ rewrite (cu_simple_x c1 (c2 :: r) Px). reflexivity.
           ++ rewrite (forallb_ext' _ _ is_hex_dlt), F. apply andb_false_r.
      * rewrite finish_conv, (fin_res_x neg c1 (c2 :: r) Px).
        rewrite c_unsigned_simple.
        -- rewrite (cu_simple_x c1 (c2 :: r) Px). reflexivity.
        -- cbn [forallb]. rewrite is_hex_dlt, H2. cbn [andb]. apply andb_false_r.
    + rewrite finish_conv, c_unsigned_simple.
      * apply fin_res_simple.
      * rewrite P. reflexivity.
Qed.

Lemma conv_zero_sign orig neg body :
  skip orig = orig -> sign orig = (neg, body) ->
  conv_fin 0 orig = spec_res neg (c_unsigned body).
Proof.
  intros Hs Hg. rewrite conv_fin_zero, strtol_eq, Hs, Hg. cbv beta iota.
  pose proof (unsigned_conv orig neg body) as U.
  destruct (prefix 0 body) as [b s3]. exact U.
Qed.

(* ------------------------------------------------------------------ *)
(* the spec side                                                        *)
(* ------------------------------------------------------------------ *)

Lemma int_spec_signed neg o :
  match option_map (sgn neg) o with
  | Some z => if in_long z then COk z else CRange
  | None => CInvalid
  end = spec_res neg o.
Proof. destruct o; reflexivity. Qed.

Definition no_lead_space (t : str) : Prop :=
  match t with c :: _ => is_space c = false | [] => True end.

Theorem conv_int_exact : forall t : str, no_lead_space t -> conv_int t = int_spec t.
Proof.
  intros t Hsp. rewrite conv_int_eq. destruct t as [|c0 rest].
  - reflexivity.
  - cbn [no_lead_space] in Hsp. unfold radix_of, int_spec, int_numeral.
    destruct (Byte.eqb c0 x30) eqn:E0.
    + apply byte_eqb_eq in E0. subst c0. destruct rest as [|c1 ds].
      * vm_compute. reflexivity.
      * destruct (Byte.eqb c1 x62) eqn:Eb.
        { (* 0b *)
          apply byte_eqb_eq in Eb. subst c1. replace (Byte.eqb x62 x78) with false by reflexivity.
          rewrite conv_fin_fixed by (reflexivity || lia). unfold fin_res.
          rewrite (forallb_ext' _ _ is_bin_dlt ds).
          destruct (nonempty ds && forallb (dlt 2) ds); reflexivity. }
        destruct (Byte.eqb c1 x78) eqn:Ex.
        { (* 0x *)
          rewrite conv_fin_fixed by (reflexivity || lia). unfold fin_res.
          rewrite (forallb_ext' _ _ is_hex_dlt ds).
          destruct (nonempty ds && forallb (dlt 16) ds); reflexivity. }
        (* 0 octal *)
        rewrite conv_fin_fixed by (reflexivity || lia). unfold fin_res.
        rewrite (forallb_ext' _ _ is_octal_dlt (c1 :: ds)).
        cbn [nonempty andb]. change (forallb (dlt 8) (x30 :: c1 :: ds)) with (dlt 8 x30 && forallb (dlt 8) (c1 :: ds)).
        replace (dlt 8 x30) with true by (vm_compute; reflexivity). cbn [andb].
        rewrite pos_value_zero.
        destruct (forallb (dlt 8) (c1 :: ds)); reflexivity.
    + (* radix 0: optional sign, then a C numeral *)
      assert (skip (c0 :: rest) = c0 :: rest) as Hs by (apply skip_nospace; exact Hsp).
      destruct (Byte.eqb c0 x2d) eqn:Em.
      { rewrite (conv_zero_sign (c0 :: rest) true rest Hs) by (unfold sign; rewrite Em; reflexivity).
        apply eq_sym, (int_spec_signed true). }
      destruct (Byte.eqb c0 x2b) eqn:Ep.
      { rewrite (conv_zero_sign (c0 :: rest) false rest Hs) by (unfold sign; rewrite Em, Ep; reflexivity).
        apply eq_sym, (int_spec_signed false). }
      rewrite (conv_zero_sign (c0 :: rest) false (c0 :: rest) Hs) by (unfold sign; rewrite Em, Ep; reflexivity).
      apply eq_sym, (int_spec_signed false).
Qed.

(* every byte of the numeral alphabet is not white space *)
Lemma alpha_not_space c : numeral_alpha c = true -> is_space c = false.
Proof.
  intros H. apply negb_true_iff. revert c H.
  apply (sweep_imp numeral_alpha (fun c => negb (is_space c))). vm_compute. reflexivity.
Qed.

Theorem conv_int_alphabet : forall t, forallb numeral_alpha t = true -> conv_int t = int_spec t.
Proof.
  intros t H. apply conv_int_exact. destruct t as [|c r]; [exact I|].
  cbn [forallb] in H. apply andb_prop in H as [H _]. apply alpha_not_space. exact H.
Qed.

Theorem conv_int_no_silent : forall t z,
  no_lead_space t -> conv_int t = COk z -> int_numeral t = Some z /\ in_long z = true.
Proof.
  intros t z Hsp H. rewrite (conv_int_exact t Hsp) in H. unfold int_spec in H.
  destruct (int_numeral t) as [z'|]; [|discriminate].
  destruct (in_long z') eqn:E; [|discriminate].
  injection H as ->. split; [reflexivity|exact E].
Qed.

(* the hypothesis cannot be dropped: strtol skips leading white space, the grammar has none *)
Lemma conv_int_space_counterexample :
  conv_int (bs_of_string " 1") = COk 1%Z /\ int_spec (bs_of_string " 1") = CInvalid.
Proof. vm_compute. split; reflexivity. Qed.

(* ------------------------------------------------------------------ *)
(* booleans                                                             *)
(* ------------------------------------------------------------------ *)

Lemma str_caseeqb_lower a : forall b, str_caseeqb a b = str_eqb (map to_lower a) (map to_lower b).
Proof.
  induction a as [|x a IH]; destruct b as [|y b]; cbn [str_caseeqb map str_eqb]; try reflexivity.
  rewrite IH. reflexivity.
Qed.

Lemma case_word t w : map to_lower w = w -> str_caseeqb t w = str_eqb (map to_lower t) w.
Proof. intros H. rewrite str_caseeqb_lower, H. reflexivity. Qed.

Theorem conv_bool_exact : forall t, conv_bool t = bool_spec t.
Proof.
  intros t. unfold conv_bool, bool_spec, M. cbn [existsb].
  rewrite (case_word t (bs_of_string "true") eq_refl), (case_word t (bs_of_string "on") eq_refl),
          (case_word t (bs_of_string "yes") eq_refl), (case_word t (bs_of_string "false") eq_refl),
          (case_word t (bs_of_string "off") eq_refl), (case_word t (bs_of_string "no") eq_refl).
  destruct (str_eqb (map to_lower t) (bs_of_string "true")),
           (str_eqb (map to_lower t) (bs_of_string "on")),
           (str_eqb (map to_lower t) (bs_of_string "yes")),
           (str_eqb (map to_lower t) (bs_of_string "false")),
           (str_eqb (map to_lower t) (bs_of_string "off")),
           (str_eqb (map to_lower t) (bs_of_string "no")); reflexivity.
Qed.
