(* Properties_C02b.v — C02 at the parser level (statements only; proofs in FuelProofs.v / PosProofs.v). *)
From Coq Require String.
Import String.StringSyntax.
From Coq Require Import List Arith NArith ZArith Bool.
From Coq.Strings Require Import Byte.
From LC Require Import Bytes Consts Conv Flex LexAct Lexer LexAll Files Store Parser ApiProofs DiagProofs PosProofs IncProofs FuelProofs.
Import ListNotations.
Local Open Scope string_scope.

(* ================================================================== *)
(* C02 at the parser level                                              *)
(* ================================================================== *)
(* Totality is built into Coq functions; what can be said is (b) which codes come back, and (a) that the
   fuel on which the model recurses is never the reason for an answer once it exceeds a computable bound. *)

(* (b) cfg_parse_buf / cfg_parse_fp return CFG_SUCCESS or CFG_PARSE_ERROR, cfg_parse additionally CFG_FILE_ERROR *)
Theorem C02_parse_buf_returns : forall strtod_o fuel w c buf,
  snd (parse_buf strtod_o fuel w c buf) = CFG_SUCCESS \/ snd (parse_buf strtod_o fuel w c buf) = CFG_PARSE_ERROR.
Proof. exact parse_buf_rc. Qed.
Print Assumptions C02_parse_buf_returns.

Theorem C02_parse_fp_returns : forall strtod_o fuel w c content,
  snd (parse_fp_gen strtod_o fuel w c content) = CFG_SUCCESS \/
  snd (parse_fp_gen strtod_o fuel w c content) = CFG_PARSE_ERROR.
Proof. exact parse_fp_gen_rc. Qed.
Print Assumptions C02_parse_fp_returns.

Theorem C02_parse_file_returns : forall strtod_o fuel w c filename,
  snd (parse_file strtod_o fuel w c filename) = CFG_SUCCESS \/
  snd (parse_file strtod_o fuel w c filename) = CFG_PARSE_ERROR \/
  snd (parse_file strtod_o fuel w c filename) = CFG_FILE_ERROR.
Proof. exact parse_file_rc. Qed.
Print Assumptions C02_parse_file_returns.

(* CFG_FILE_ERROR (the file cannot be found or opened) leaves the world as it was: in particular it is silent,
   in the model as in confuse.c (cfg_parse: `if (!fp) return CFG_FILE_ERROR;`) *)
Theorem C02_parse_file_error_is_silent : forall strtod_o fuel w c filename,
  snd (parse_file strtod_o fuel w c filename) = CFG_FILE_ERROR ->
  fst (fst (parse_file strtod_o fuel w c filename)) = w.
Proof. exact parse_file_file_error. Qed.
Print Assumptions C02_parse_file_error_is_silent.

(* (a) PARTIAL: proved for contexts WITHOUT SECTIONS (flat c: no option of c is a CFGT_SEC) in worlds where no
   include file can be opened and no include frame is active.  need w = (sum over the scanner's buffers of
   length + 1) + 2: every iteration of the loop of cfg_parse_internal consumes at least one byte or ends the
   parse, and cfg_setopt on a non-section option never recurses.  pinv p: `opt` points into the context
   itself and the state is not one of the two section states (true of the entry state).
   Not covered: sections (cfg_setopt -> cfg_init_defaults -> cfg_parse_internal on default strings recurses
   along the schema) and successful includes. *)
Theorem C02_fuel_suffices_flat_partial : forall strtod_o fuel w c level p,
  flat c -> pinv p -> noinc w -> l_inc (w_lex w) = [] -> need w <= fuel ->
  w_oof (fst (fst (parse_internal strtod_o fuel w c level p))) = w_oof w.
Proof. exact flat_fuel_suffices. Qed.
Print Assumptions C02_fuel_suffices_flat_partial.

Theorem C02_parse_buf_fuel_suffices_flat_partial : forall strtod_o fuel w c b,
  flat c -> noinc w -> l_inc (w_lex w) = [] ->
  measure (w_lex w) + length (cstr b) + 3 <= fuel ->
  w_oof (fst (fst (parse_buf strtod_o fuel w c (Some b)))) = w_oof w.
Proof. exact parse_buf_fuel_suffices. Qed.
Print Assumptions C02_parse_buf_fuel_suffices_flat_partial.

Example C02b_ex_hyps : flat ex_froot /\ noinc ex_fw /\ l_inc (w_lex ex_fw) = [] /\ measure (w_lex ex_fw) = 0.
Proof. exact ex_flat. Qed.

(* 11 bytes: fuel 14 is enough (and the parse succeeds), fuel 5 is not *)
Example C02b_ex_fuel :
  let b := exB "a = 1 a = 2" in
  let r := parse_buf ex_sd (length b + 3) ex_fw ex_froot (Some b) in
  let r' := parse_buf ex_sd 5 ex_fw ex_froot (Some b) in
  (snd r, w_oof (fst (fst r)), w_oof (fst (fst r'))) = (CFG_SUCCESS, false, true).
Proof. vm_compute. reflexivity. Qed.

