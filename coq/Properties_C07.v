Example C07_placeholder : True. Proof. exact I. Qed.
