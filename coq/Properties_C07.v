(* Properties_C07.v — C07: every user-defined pointer value is handed to the registered release
   function exactly once; nothing is released twice.
   Only statements here; proofs are in PtrProofs.v.

   MODEL  Parser.setopt / init_defaults / parse_internal / parse_fp_gen / parse_buf / parse_file /
          cfg_init / cfg_free, Store.free_value / opt_getval, Api.opt_setn / cfg_setn*, cfg_setlist,
          cfg_addlist, opt_setmulti / cfg_setmulti, cfg_setopt_cmd, cfg_setcomment, cfg_addtsec,
          opt_rmnsec / cfg_rmnsec / cfg_rmtsec / cfg_rmsec.
          A pointer value is created by the scripted parse callback in cfg_setopt: the id w_nextptr w is
          stored as VPtr id and the counter is incremented.  A release is a CbFree id entry on w_cbs.
   VOCABULARY (PtrProofs.v)
     ptrs_o o, ptrs_c c   := Store.frees_o o, Store.frees_c c: the non-zero ids of the VPtr values held by
                             options of kind KPtr that have a release callback, in cfg_free() order
     flog w               := the ids of the CbFree entries of w_cbs w, most recent first
     created w w'         := the ids [w_nextptr w, w_nextptr w')
     freed w w'           := the ids flog w' has in front of flog w, in the order of the calls
     grows w w'           := flog w' = rev (freed w w') ++ flog w        (the release log only grows)
     conserves w A w' A'  := w_nextptr w <= w_nextptr w' /\ grows w w' /\
                             Permutation (A ++ created w w') (A' ++ freed w w')
     Fresh w A            := 0 < w_nextptr w /\ NoDup A /\ forall id, In id A -> id < w_nextptr w
     wf_o o / wf_c c      := wfb_o o = true / wfb_c c = true, the boolean test:
                             - every option of kind KPtr has cb_free = true (a pointer option without release
                               callback is by design never released by the library),
                             - a value VSec (Some _) only occurs in an option of kind KSec,
                             - every template (o_sub, recursively: tmplb) has no values, and its KPtr options
                               have cb_free = true
     event / run_event / run : the parse entry points and the by-name API calls on one context
   HYPOTHESES  wf of the option / context, and 0 < w_nextptr w (id 0 is NULL and never released).
   None of them can be dropped: see C07_ex_need_* at the end. *)
From Coq Require String.
Import String.StringSyntax.
From Coq Require Import List Arith NArith ZArith Bool Permutation.
From Coq.Strings Require Import Byte.
From LC Require Import Bytes Consts Conv Flex LexAct Lexer Files Store Parser Api ApiProofs PtrProofs.
Import ListNotations.
Local Open Scope string_scope.
Local Open Scope list_scope.
Local Open Scope N_scope.

(* ---------- 1. conservation through the three mutually recursive functions ---------- *)

(* one cfg_setopt call on option o: pointers of o + ids created = pointers of o' + ids released *)
Theorem C07_setopt_conserves :
  forall (sd : str -> strtod_res) (fuel : nat) (w : pw) (c : cfg) (o : opt) (txt : option str),
  wf_o o -> 0 < w_nextptr w ->
  let r := setopt sd fuel w c o txt in
  wf_o (snd (fst r)) /\ conserves w (ptrs_o o) (fst (fst r)) (ptrs_o (snd (fst r))).
Proof. exact setopt_conserves. Qed.
Print Assumptions C07_setopt_conserves.

Theorem C07_init_defaults_conserves :
  forall (sd : str -> strtod_res) (fuel : nat) (w : pw) (c : cfg),
  wf_c c -> 0 < w_nextptr w ->
  let r := init_defaults sd fuel w c in
  wf_c (snd r) /\ conserves w (ptrs_c c) (fst r) (ptrs_c (snd r)).
Proof. exact init_defaults_conserves. Qed.
Print Assumptions C07_init_defaults_conserves.

Theorem C07_parse_internal_conserves :
  forall (sd : str -> strtod_res) (fuel : nat) (w : pw) (c : cfg) (level : nat) (p : pst),
  wf_c c -> 0 < w_nextptr w ->
  let r := parse_internal sd fuel w c level p in
  wf_c (snd (fst r)) /\ conserves w (ptrs_c c) (fst (fst r)) (ptrs_c (snd (fst r))).
Proof. exact parse_internal_conserves. Qed.
Print Assumptions C07_parse_internal_conserves.

(* ---------- 2. exactly once ---------- *)

(* whenever a step conserves and the ids held before are pairwise distinct and below the counter:
   the ids held after are again fresh, no id is released twice during the step, a released id was
   held before or created during the step and is no longer held, and nothing is lost *)
Theorem C07_exactly_once :
  forall (w : pw) (A : list N) (w' : pw) (A' : list N),
  conserves w A w' A' -> Fresh w A ->
  Fresh w' A' /\ NoDup (freed w w') /\
  (forall id, In id (freed w w') -> (In id A \/ In id (created w w')) /\ ~ In id A') /\
  (forall id, In id A \/ In id (created w w') -> In id A' \/ In id (freed w w')).
Proof. exact conserves_exactly_once. Qed.
Print Assumptions C07_exactly_once.

(* ---------- 3. cfg_free ---------- *)

(* cfg_free hands exactly the pointers of the context to the release callback, in cfg_free() order *)
Theorem C07_free_releases_all :
  forall (w : pw) (c : cfg), freed w (cfg_free w c) = ptrs_c c.
Proof. exact cfg_free_releases_all. Qed.
Print Assumptions C07_free_releases_all.

Theorem C07_free_conserves :
  forall (w : pw) (c : cfg),
  0 < w_nextptr w -> conserves w (ptrs_c c) (cfg_free w c) [] /\ created w (cfg_free w c) = [].
Proof. exact cfg_free_conserves. Qed.
Print Assumptions C07_free_conserves.

(* ... each live pointer exactly once *)
Theorem C07_free_exactly_once :
  forall (w : pw) (c : cfg),
  Fresh w (ptrs_c c) ->
  NoDup (freed w (cfg_free w c)) /\ forall id, In id (ptrs_c c) <-> In id (freed w (cfg_free w c)).
Proof. exact cfg_free_exactly_once. Qed.
Print Assumptions C07_free_exactly_once.

(* ---------- 4. the API ---------- *)

(* cfg_opt_setnint/float/bool/str: the kinds the setters pass are scalar; a kind mismatch is refused *)
Theorem C07_opt_setn_conserves :
  forall (w : pw) (o : opt) (k : kind) (v : value) (index : N),
  wf_o o -> 0 < w_nextptr w ->
  (k <> KSec /\ k <> KPtr /\ (forall c, v <> VSec (Some c))) \/ o_kind o <> k ->
  let r := opt_setn w o k v index in
  wf_o (snd (fst r)) /\ conserves w (ptrs_o o) (fst (fst r)) (ptrs_o (snd (fst r))).
Proof. exact opt_setn_conserves. Qed.
Print Assumptions C07_opt_setn_conserves.

(* cfg_opt_setmulti, both outcomes: on success the old values are released, on failure the new
   ones are and the old ones are kept *)
Theorem C07_opt_setmulti_conserves :
  forall (sd : str -> strtod_res) (fuel : nat) (w : pw) (c : cfg) (o : opt) (vals : list (option str)),
  wf_o o -> 0 < w_nextptr w ->
  let r := opt_setmulti sd fuel w c o vals in
  wf_o (snd (fst r)) /\ conserves w (ptrs_o o) (fst (fst r)) (ptrs_o (snd (fst r))) /\
  (snd r = FAIL -> ptrs_o (snd (fst r)) = ptrs_o o).
Proof. exact opt_setmulti_conserves. Qed.
Print Assumptions C07_opt_setmulti_conserves.

Theorem C07_opt_rmnsec_conserves :
  forall (w : pw) (o : opt) (index : N),
  wf_o o -> 0 < w_nextptr w ->
  let r := opt_rmnsec w o index in
  wf_o (snd (fst r)) /\ conserves w (ptrs_o o) (fst (fst r)) (ptrs_o (snd (fst r))).
Proof. exact opt_rmnsec_conserves. Qed.
Print Assumptions C07_opt_rmnsec_conserves.

(* every parse entry point and every by-name call (cfg_parse_fp / cfg_parse_buf / cfg_parse, cfg_setnint /
   float / bool / str, cfg_setlist, cfg_addlist, cfg_setmulti, cfg_setopt, cfg_setcomment, cfg_addtsec,
   cfg_rmnsec, cfg_rmtsec, cfg_rmsec), on the whole context *)
Theorem C07_event_conserves :
  forall (sd : str -> strtod_res) (e : event) (w : pw) (c : cfg),
  wf_c c -> 0 < w_nextptr w ->
  let s := run_event sd e (w, c) in
  wf_c (snd s) /\ conserves w (ptrs_c c) (fst s) (ptrs_c (snd s)).
Proof. exact event_conserves. Qed.
Print Assumptions C07_event_conserves.

(* ---------- 5. histories ---------- *)

Theorem C07_events_conserve :
  forall (sd : str -> strtod_res) (es : list event) (w : pw) (c : cfg),
  wf_c c -> 0 < w_nextptr w ->
  let s := run sd es (w, c) in
  wf_c (snd s) /\ conserves w (ptrs_c c) (fst s) (ptrs_c (snd s)).
Proof. exact events_conserve. Qed.
Print Assumptions C07_events_conserve.

(* along any history the live pointers stay pairwise distinct and nothing is released twice *)
Theorem C07_events_fresh :
  forall (sd : str -> strtod_res) (es : list event) (w : pw) (c : cfg),
  wf_c c -> Fresh w (ptrs_c c) ->
  let s := run sd es (w, c) in
  wf_c (snd s) /\ Fresh (fst s) (ptrs_c (snd s)) /\ NoDup (freed w (fst s)).
Proof. exact events_fresh. Qed.
Print Assumptions C07_events_fresh.

(* cfg_init hands back a well-formed context with fresh ids when the declarations are templates *)
Theorem C07_cfg_init_fresh :
  forall (sd : str -> strtod_res) (fuel : nat) (w0 : pw) (decls : list opt) (flags : N),
  0 < w_nextptr w0 -> forallb tmplb decls = true ->
  let s1 := cfg_init sd fuel w0 decls flags in
  wf_c (snd s1) /\ Fresh (fst s1) (ptrs_c (snd s1)) /\ conserves w0 [] (fst s1) (ptrs_c (snd s1)).
Proof. exact cfg_init_fresh. Qed.
Print Assumptions C07_cfg_init_fresh.

(* THE HISTORY THEOREM: cfg_init, any list of events, cfg_free: the ids released during the whole
   history are exactly the ids created during it, and none is released twice *)
Theorem C07_history :
  forall (sd : str -> strtod_res) (fuel : nat) (w0 : pw) (decls : list opt) (flags : N) (es : list event),
  0 < w_nextptr w0 -> forallb tmplb decls = true ->
  let s1 := cfg_init sd fuel w0 decls flags in
  let sn := run sd es s1 in
  let wend := cfg_free (fst sn) (snd sn) in
  grows w0 wend /\ Permutation (freed w0 wend) (created w0 wend) /\ NoDup (freed w0 wend).
Proof. exact history. Qed.
Print Assumptions C07_history.

(* the same from an arbitrary well-formed context with fresh ids: what is released up to and including
   cfg_free is what was live at the start plus what was created, each exactly once *)
Theorem C07_history_from :
  forall (sd : str -> strtod_res) (es : list event) (w : pw) (c : cfg),
  wf_c c -> Fresh w (ptrs_c c) ->
  let s := run sd es (w, c) in
  let wend := cfg_free (fst s) (snd s) in
  grows w wend /\ Permutation (freed w wend) (ptrs_c c ++ created w wend) /\ NoDup (freed w wend).
Proof. exact history_from. Qed.
Print Assumptions C07_history_from.

(* ---------- 6. the callback log itself only grows ---------- *)

(* every step only adds entries in front of w_cbs (most recent first), so "the CbFree entries w' has in
   addition to w" is well defined *)
Theorem C07_log_grows :
  forall (sd : str -> strtod_res) (fuel : nat) (w : pw) (c : cfg),
  (forall o txt, exists new, w_cbs (fst (fst (setopt sd fuel w c o txt))) = new ++ w_cbs w) /\
  (exists new, w_cbs (fst (init_defaults sd fuel w c)) = new ++ w_cbs w) /\
  (forall l p, exists new, w_cbs (fst (fst (parse_internal sd fuel w c l p))) = new ++ w_cbs w) /\
  (forall e, exists new, w_cbs (fst (run_event sd e (w, c))) = new ++ w_cbs w) /\
  (exists new, w_cbs (cfg_free w c) = new ++ w_cbs w).
Proof. exact log_grows. Qed.
Print Assumptions C07_log_grows.

(* ... and `freed` is the list of ids of the CbFree entries added, oldest first *)
Theorem C07_freed_is_log_suffix :
  forall (w w' : pw) (new : list cbent), w_cbs w' = new ++ w_cbs w -> freed w w' = rev (cb_ids new).
Proof. exact ext_freed. Qed.
Print Assumptions C07_freed_is_log_suffix.

Theorem C07_history_log :
  forall (sd : str -> strtod_res) (fuel : nat) (w0 : pw) (decls : list opt) (flags : N) (es : list event),
  let s1 := cfg_init sd fuel w0 decls flags in
  let sn := run sd es s1 in
  let wend := cfg_free (fst sn) (snd sn) in
  exists new, w_cbs wend = new ++ w_cbs w0 /\ freed w0 wend = rev (cb_ids new).
Proof. exact history_log. Qed.
Print Assumptions C07_history_log.

(* ---------- a concrete schema with pointer options ---------- *)
Module Ex.
Definition B := bs_of_string.
Definition sd := ex_sd.
Definition w0 := ex_w0.                (* w_nextptr = 1, empty log *)
(* parse callback #1 and a release callback *)
Definition cbp : cbset :=
  {| cb_parse := Some 1; cb_valid := None; cb_valid2 := None; cb_print := None; cb_free := true; cb_func := None |}.
Definition mk n k fl sub cbs := Opt (B n) k fl [] sub defv0 None cbs.
(* p: a pointer; pl: a pointer list (LIST); t: titled multi sections (MULTI|TITLE) holding a pointer q
   and a pointer list ql; x: an integer *)
Definition decls := [ mk "p" KPtr 0 [] cbp; mk "pl" KPtr 2 [] cbp;
  mk "t" KSec 9 [mk "q" KPtr 0 [] cbp; mk "ql" KPtr 2 [] cbp] cbset0; mk "x" KInt 0 [] cbset0 ].
Definition s1 := cfg_init sd 1000 w0 decls 0.
Definition parse (t : String.string) := fst (parse_buf sd 5000 (fst s1) (snd s1) (Some (B t))).

(* the hypotheses hold for the schema *)
Example C07_ex_hypotheses :
  forallb tmplb decls = true /\ 0 < w_nextptr w0 /\ wfb_c (snd s1) = true /\ ptrs_c (snd s1) = [].
Proof. vm_compute. repeat split; reflexivity. Qed.

(* p = a creates 1; p = b releases 1 and creates 2; the list creates 3 and 4; cfg_free releases 2, 3, 4:
   the ids released are exactly 1..4, each once *)
Definition r1 := parse "p = a p = b pl = {c, d}".
Definition wend1 := cfg_free (fst r1) (snd r1).
Example C07_ex_parse_free :
  w_crash (fst r1) = None /\ w_oof (fst r1) = false /\ w_diags (fst r1) = [] /\
  created w0 (fst r1) = [1; 2; 3; 4] /\ freed w0 (fst r1) = [1] /\ ptrs_c (snd r1) = [2; 3; 4] /\
  freed (fst r1) wend1 = [2; 3; 4] /\
  freed w0 wend1 = [1; 2; 3; 4] /\ created w0 wend1 = [1; 2; 3; 4].
Proof. vm_compute. repeat split; reflexivity. Qed.

(* sections: the second `t one` replaces the first instance in place (1, 2, 3 released); += appends *)
Definition r2 := parse "t one { q = a ql = {b, c} } t two { q = d } t one { q = e } pl = {f} pl += {g}".
Example C07_ex_sections :
  w_crash (fst r2) = None /\ w_oof (fst r2) = false /\ w_diags (fst r2) = [] /\
  created w0 (fst r2) = [1; 2; 3; 4; 5; 6; 7] /\ freed w0 (fst r2) = [1; 2; 3] /\
  ptrs_c (snd r2) = [6; 7; 5; 4] /\
  freed w0 (cfg_free (fst r2) (snd r2)) = [1; 2; 3; 6; 7; 5; 4].
Proof. vm_compute. repeat split; reflexivity. Qed.

(* a history through the API: remove a titled section, cfg_setmulti (success), cfg_setlist with no
   values, cfg_addtsec, cfg_setopt inside the new section, cfg_rmsec, cfg_setopt replacing p *)
Definition es := [EParseBuf 5000 (Some (B "t one { q = a ql = {b, c} } t two { q = d } p = e pl = {f, g}"));
  ERmTsec (B "t") (Some (B "one")); ESetMulti 100 (B "pl") [Some (B "h"); Some (B "i"); Some (B "j")];
  ESetList (B "pl") []; EAddTsec 100 (B "t") (Some (B "three")); ESetOpt 100 (B "t=three|q") (Some (B "k"));
  ERmSec (B "t=two"); ESetOpt 100 (B "p") (Some (B "l")) ].
Definition rn := run sd es s1.
Definition wendn := cfg_free (fst rn) (snd rn).
Example C07_ex_history :
  w_crash (fst rn) = None /\ w_oof (fst rn) = false /\ w_diags (fst rn) = [] /\
  ptrs_c (snd rn) = [12; 11] /\
  freed w0 (fst rn) = [1; 2; 3; 6; 7; 8; 9; 10; 4; 5] /\
  freed w0 wendn = [1; 2; 3; 6; 7; 8; 9; 10; 4; 5; 12; 11] /\
  created w0 wendn = [1; 2; 3; 4; 5; 6; 7; 8; 9; 10; 11; 12].
Proof. vm_compute. repeat split; reflexivity. Qed.

(* cfg_setmulti failing on its second value (callback invocation 2 of the call fails): the new
   pointer is released, the old ones are kept *)
Definition wfail (w : pw) : pw := {| w_lex := w_lex w; w_env := w_env w; w_fs := w_fs w; w_pw := w_pw w; w_path := w_path w;
  w_cbs := w_cbs w; w_cnt := w_cnt w; w_failat := w_cnt w + 2; w_nextptr := w_nextptr w; w_diags := w_diags w;
  w_open := w_open w; w_crash := w_crash w; w_oof := w_oof w |}.
Definition rf := cfg_setmulti sd 100 (wfail (fst r1)) (snd r1) (B "pl") [Some (B "u"); Some (B "v")].
Example C07_ex_setmulti_fails :
  snd rf = FAIL /\ ptrs_c (snd (fst rf)) = ptrs_c (snd r1) /\
  created (fst r1) (fst (fst rf)) = [5] /\ freed (wfail (fst r1)) (fst (fst rf)) = [5].
Proof. vm_compute. repeat split; reflexivity. Qed.

(* ---------- the hypotheses cannot be dropped ---------- *)

(* (a) a pointer option without release callback: its values are by design never handed to anybody;
   the ids are created and not released (not a defect: the library has no callback to call) *)
Definition cbn : cbset :=
  {| cb_parse := Some 1; cb_valid := None; cb_valid2 := None; cb_print := None; cb_free := false; cb_func := None |}.
Definition sa := cfg_init sd 1000 w0 [mk "p" KPtr 0 [] cbn] 0.
Definition ra := fst (parse_buf sd 5000 (fst sa) (snd sa) (Some (B "p = a p = b"))).
Example C07_ex_need_release_callback :
  forallb tmplb [mk "p" KPtr 0 [] cbn] = false /\
  created w0 (cfg_free (fst ra) (snd ra)) = [1; 2] /\ freed w0 (cfg_free (fst ra) (snd ra)) = [].
Proof. vm_compute. repeat split; reflexivity. Qed.

(* (b) a template that already holds a pointer value (cfg_dupopt_array copies the cfg_opt_t of the
   application's array; with the CFG_* initialisers it has no values): every instance of the section
   shares the id, cfg_free releases it once per instance *)
Definition tq := Opt (B "q") KPtr 0 [VPtr 7] [] defv0 None cbp.
Definition sb := cfg_init sd 1000 w0 [mk "t" KSec 9 [tq] cbset0] 0.
Definition rb := fst (parse_buf sd 5000 (fst sb) (snd sb) (Some (B "t one { } t two { }"))).
Example C07_ex_need_empty_templates :
  forallb tmplb [mk "t" KSec 9 [tq] cbset0] = false /\
  freed w0 (cfg_free (fst rb) (snd rb)) = [7; 7].
Proof. vm_compute. repeat split; reflexivity. Qed.

(* (c) id 0 is NULL: a world whose counter starts at 0 hands out an id that is never released *)
Definition wz : pw := {| w_lex := w_lex w0; w_env := w_env w0; w_fs := w_fs w0; w_pw := w_pw w0; w_path := w_path w0;
  w_cbs := []; w_cnt := 0; w_failat := 0; w_nextptr := 0; w_diags := []; w_open := 0; w_crash := None; w_oof := false |}.
Definition sz := cfg_init sd 1000 wz decls 0.
Definition rz := fst (parse_buf sd 5000 (fst sz) (snd sz) (Some (B "p = a"))).
Example C07_ex_need_nonzero_ids :
  created wz (cfg_free (fst rz) (snd rz)) = [0] /\ freed wz (cfg_free (fst rz) (snd rz)) = [].
Proof. vm_compute. repeat split; reflexivity. Qed.
End Ex.
