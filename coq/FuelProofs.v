(* FuelProofs.v — C02 at the parser level: the result codes of the entry points, and how much fuel
   cfg_parse_internal needs on a context without sections when no include file can be opened. *)
From Coq Require String.
Import String.StringSyntax.
From Coq Require Import List Arith NArith ZArith Bool Lia.
From Coq.Strings Require Import Byte.
From LC Require Import Bytes Consts Conv Flex LexAct LexRules Lexer LexLemmas LexAll LineProofs Files Store Parser
     HdrProofs ApiProofs BalanceProofs PathProofs DiagGen DiagProofs DiagGenJ PosProofs.
Import ListNotations.
Set Warnings "-unused-intro-pattern".
Local Open Scope string_scope.
Local Open Scope list_scope.

(* ================================================================== *)
(* (b) the result codes                                                 *)
(* ================================================================== *)
Theorem parse_fp_gen_rc strtod_o fuel w c content :
  snd (parse_fp_gen strtod_o fuel w c content) = CFG_SUCCESS \/
  snd (parse_fp_gen strtod_o fuel w c content) = CFG_PARSE_ERROR.
Proof.
  rewrite parse_fp_gen_unfold. cbv zeta.
  match goal with |- context [parse_internal strtod_o fuel ?a ?b 0 (pst0 0 None)] =>
    destruct (parse_internal strtod_o fuel a b 0 (pst0 0 None)) as [[w2 c3] rc] end.
  unfold snd. destruct rc; auto.
Qed.

Theorem parse_buf_rc strtod_o fuel w c buf :
  snd (parse_buf strtod_o fuel w c buf) = CFG_SUCCESS \/ snd (parse_buf strtod_o fuel w c buf) = CFG_PARSE_ERROR.
Proof.
  destruct buf as [b|]; [|left; reflexivity]. unfold parse_buf, parse_fp. apply parse_fp_gen_rc.
Qed.

Theorem parse_file_rc strtod_o fuel w c filename :
  snd (parse_file strtod_o fuel w c filename) = CFG_SUCCESS \/
  snd (parse_file strtod_o fuel w c filename) = CFG_PARSE_ERROR \/
  snd (parse_file strtod_o fuel w c filename) = CFG_FILE_ERROR.
Proof.
  unfold parse_file.
  destruct (match w_path w with [] => _ | _ => _ end) as [fn|]; [|right; right; reflexivity].
  destruct (open_input (w_fs w) fn) as [content|]; [|right; right; reflexivity].
  unfold parse_fp. destruct (parse_fp_gen_rc strtod_o fuel w (set_file c (Some fn)) (Some content)); auto.
Qed.

(* CFG_FILE_ERROR exactly when the file cannot be resolved or opened; then nothing else happens *)
Theorem parse_file_file_error strtod_o fuel w c filename :
  snd (parse_file strtod_o fuel w c filename) = CFG_FILE_ERROR ->
  fst (fst (parse_file strtod_o fuel w c filename)) = w.
Proof.
  unfold parse_file.
  destruct (match w_path w with [] => _ | _ => _ end) as [fn|]; [|reflexivity].
  destruct (open_input (w_fs w) fn) as [content|]; [|reflexivity].
  unfold parse_fp. intro H. exfalso.
  destruct (parse_fp_gen_rc strtod_o fuel w (set_file c (Some fn)) (Some content)) as [E|E];
    rewrite E in H; discriminate H.
Qed.

(* ================================================================== *)
(* (a) the scanner: an ordinary token consumes input                    *)
(* ================================================================== *)
Lemma lex_step_ret_decreases e s p t v s2 p2 d k : lex_step e s p = LRet t v s2 p2 d k ->
  (measure s2 <= measure s)%nat /\ (t <> TEof -> t <> TErr -> (measure s2 < measure s)%nat).
Proof.
  unfold lex_step, measure. destruct (l_bufs s) as [|[id inp] others] eqn:Hb.
  - intros H; inversion H; subst. rewrite Hb. split; [lia|congruence].
  - destruct (munch (active_res (l_sc s)) inp 0 None) as [[i n]|] eqn:Hm.
    + apply munch_len in Hm. destruct Hm as [Hm|Hm]; [discriminate|].
      assert (X : (fold_left (fun acc b => acc + S (length (snd b))) ((id, skipn n inp) :: others) 0 <
                   fold_left (fun acc b => acc + S (length (snd b))) ((id, inp) :: others) 0)%nat).
      { cbn [fold_left snd].
        rewrite (fold_measure_shift others (0 + S (length (skipn n inp)))), (fold_measure_shift others (0 + S (length inp))).
        rewrite skipn_length. lia. }
      destruct (nth_error (active_rules (l_sc s)) i) as [r|].
      * pose proof (run_action_frame e (r_act r) (firstn n inp) (set_bufs s ((id, skipn n inp) :: others)) p) as (Hf & _).
        destruct (run_action _ _ _ _ _) as [|t0 v0 s3 p3 d0]; [discriminate|].
        intros H; inversion H; subst. cbn [out_state] in Hf. rewrite Hf. cbn [set_bufs l_bufs]. split; [lia|intros; lia].
      * intros H; inversion H; subst. cbn [set_bufs l_bufs]. split; [lia|intros; lia].
    + destruct inp as [|c rest]; [|discriminate].
      unfold run_eof. destruct (eof_action_of (l_sc s)) as [[| | |k']|];
        try (intros H; inversion H; subst; rewrite ?Hb; split; [lia|congruence]).
      destruct (l_rderr s); [intros H; inversion H; subst; cbn [clear_rderr l_bufs]; rewrite Hb; split; [lia|congruence]|].
      destruct (l_inc s) as [|fr r]; [intros H; inversion H; subst; rewrite Hb; split; [lia|congruence]|].
      destruct (match cur_buf_id s with Some id0 => Nat.eqb id0 (i_buf fr) | None => false end); [discriminate|].
      intros H; inversion H; subst; rewrite Hb; split; [lia|congruence].
Qed.

Lemma yylex_measure e : forall fuel s p closed,
  let r := yylex e fuel s p closed in
  (measure (r_st r) <= measure s)%nat /\ (r_tok r <> TEof -> r_tok r <> TErr -> (measure (r_st r) < measure s)%nat).
Proof.
  induction fuel as [|fuel IH]; intros s p closed; cbn [yylex].
  - cbn. split; [lia|congruence].
  - destruct (lex_step e s p) as [s2 p2 k|t v s2 p2 d k] eqn:Hs.
    + apply lex_step_decreases in Hs. destruct (IH s2 p2 (k + closed)%nat) as [A B]. cbv zeta in *.
      split; [lia|]. intros X Y. specialize (B X Y). lia.
    + cbn. eapply lex_step_ret_decreases; exact Hs.
Qed.

(* ================================================================== *)
(* (a) contexts without sections                                        *)
(* ================================================================== *)
Definition flat (c : cfg) : Prop := Forall (fun o => o_kind o <> KSec) (c_opts c).
(* the locals of cfg_parse_internal: `opt` points into the context itself; not in a section state *)
Definition pinv (p : pst) : Prop :=
  (forall r, s_opt p = Some r -> fst r = []) /\ s_state p <> 5 /\ s_state p <> 6.
Definition lf (w : pw) := (w_lex w, w_fs w, w_oof w).
Definition WI (f : nat) (w : pw) : Prop := noinc w /\ l_inc (w_lex w) = [] /\ measure (w_lex w) + 2 <= f.

Lemma lf_add_diags w d : lf (add_diags w d) = lf w. Proof. reflexivity. Qed.
Lemma lf_add_cb w e : lf (add_cb w e) = lf w. Proof. reflexivity. Qed.
Lemma lf_set_cnt w n : lf (set_cnt w n) = lf w. Proof. reflexivity. Qed.
Lemma lf_set_nextptr w n : lf (set_nextptr w n) = lf w. Proof. reflexivity. Qed.
Lemma lf_set_open w n : lf (set_open w n) = lf w. Proof. reflexivity. Qed.
Lemma lf_set_crash w k : lf (set_crash w k) = lf w. Proof. reflexivity. Qed.
Lemma lf_log_frees ids : forall w, lf (log_frees w ids) = lf w.
Proof.
  unfold log_frees. induction ids as [|i ids IH]; intro w; cbn [fold_left]; [reflexivity|]. rewrite IH. reflexivity.
Qed.
#[export] Hint Rewrite lf_add_diags lf_add_cb lf_set_cnt lf_set_nextptr lf_set_open lf_set_crash lf_log_frees : lfdb.

Lemma oof_of_lf a b : lf a = lf b -> w_oof a = w_oof b.
Proof. unfold lf. intro H. congruence. Qed.
Lemma WI_of_lf f a b : lf a = lf b -> WI f b -> WI f a.
Proof. unfold lf, WI, noinc. intro H. injection H as -> -> _. auto. Qed.

Lemma lf_tick w : lf (fst (tick w)) = lf w. Proof. reflexivity. Qed.
Lemma lf_run_validcb w o : lf (fst (run_validcb w o)) = lf w.
Proof. unfold run_validcb. destruct (cb_valid (o_cbs o)); reflexivity. Qed.
Lemma lf_run_parsecb w k o v : lf (fst (run_parsecb w k o v)) = lf w. Proof. reflexivity. Qed.
Lemma lf_handle_deprecated w c r : lf (fst (handle_deprecated w c r)) = lf w.
Proof.
  unfold handle_deprecated. destruct (get_opt c r) as [o|]; [|reflexivity].
  destruct (oflag o CFGF_DEPRECATED); [|reflexivity].
  destruct (oflag o CFGF_DROP); [|reflexivity].
  destruct (free_value o) as [o1 fr]. unfold fst. autorewrite with lfdb. reflexivity.
Qed.
Lemma lf_so_reset w o : lf (fst (so_reset w o)) = lf w.
Proof.
  unfold so_reset. destruct (oflag o CFGF_RESET); [|reflexivity].
  destruct (free_value o) as [x fr]. unfold fst. autorewrite with lfdb. reflexivity.
Qed.
Lemma lf_so_slot c w0 o0 txt w1 o1 idx : so_slot c w0 o0 txt = Some (w1, o1, idx) -> lf w1 = lf w0.
Proof.
  unfold so_slot. cbv zeta.
  repeat match goal with |- context [match ?x with _ => _ end] => destruct x end;
  intro H; try discriminate H; injection H as <- _ _; reflexivity.
Qed.
Lemma lexer_include_noinc w c a : noinc w ->
  lf (fst (fst (lexer_include w c a))) = lf w /\ snd (fst (lexer_include w c a)) = c.
Proof.
  intro A. unfold lexer_include. destruct (Nat.leb _ _); [split; reflexivity|].
  destruct (match w_path w with [] => _ | _ => _ end); [|split; reflexivity].
  rewrite A. split; reflexivity.
Qed.

(* ---- kinds ---- *)
Lemma kind_o_setf o m : o_kind (o_setf o m) = o_kind o. Proof. destruct o; reflexivity. Qed.
Lemma kind_o_clrf o m : o_kind (o_clrf o m) = o_kind o. Proof. destruct o; reflexivity. Qed.
Lemma kind_set_vals o v : o_kind (set_vals o v) = o_kind o. Proof. destruct o; reflexivity. Qed.
Lemma kind_set_comment o v : o_kind (set_comment o v) = o_kind o. Proof. destruct o; reflexivity. Qed.
Lemma kind_opt_setcomment o v : o_kind (opt_setcomment o v) = o_kind o. Proof. destruct o; reflexivity. Qed.
Lemma kind_free_value o o1 fr : free_value o = (o1, fr) -> o_kind o1 = o_kind o.
Proof. intro H. pose proof (frame_free_value o) as F. rewrite H in F. apply F. Qed.
#[export] Hint Rewrite kind_o_setf kind_o_clrf kind_set_vals kind_set_comment kind_opt_setcomment : kinddb.

(* ---- flat contexts ---- *)
Lemma Forall_upd_nth {A} (P : A -> Prop) l : forall i g, Forall P l -> (forall x, P x -> P (g x)) -> Forall P (upd_nth l i g).
Proof.
  induction l as [|x l IH]; intros i g H Hg; cbn [upd_nth]; [constructor|].
  inversion H; subst. destruct i; constructor; auto.
Qed.

Lemma c_opts_set_pos c q : c_opts (set_pos c q) = c_opts c. Proof. destruct c; reflexivity. Qed.
Lemma flat_set_pos c q : flat c -> flat (set_pos c q).
Proof. unfold flat. rewrite c_opts_set_pos. auto. Qed.

Lemma put_opt_shallow c i o : put_opt c ([], i) o = set_opts c (upd_nth (c_opts c) i (fun _ => o)).
Proof. reflexivity. Qed.

Lemma flat_put_opt c r o : flat c -> fst r = [] -> o_kind o <> KSec -> flat (put_opt c r o).
Proof.
  intros H Hr Hk. destruct r as [steps i]. cbn [fst] in Hr. subst steps. rewrite put_opt_shallow.
  unfold flat. destruct c; cbn [set_opts c_opts] in *. apply Forall_upd_nth; auto.
Qed.

Lemma flat_get_opt c r o : flat c -> fst r = [] -> get_opt c r = Some o -> o_kind o <> KSec.
Proof.
  intros H Hr Hg. destruct r as [steps i]. cbn [fst] in Hr. subst steps.
  unfold get_opt in Hg. cbn [fst snd get_sec] in Hg. apply nth_error_In in Hg.
  unfold flat in H. rewrite Forall_forall in H. auto.
Qed.

Lemma flat_addopt c k : flat c -> flat (fst (addopt c k)) /\ fst (snd (addopt c k)) = [].
Proof.
  intro H. unfold addopt. cbn [fst snd]. split; [|reflexivity].
  unfold flat in *. destruct c; cbn [set_opts c_opts] in *. apply Forall_app. split; [exact H|].
  constructor; [cbn; discriminate|constructor].
Qed.

Lemma flat_handle_deprecated w c r : flat c -> fst r = [] -> flat (snd (handle_deprecated w c r)).
Proof.
  intros H Hr. unfold handle_deprecated. destruct (get_opt c r) as [o|] eqn:Hg; [|exact H].
  destruct (oflag o CFGF_DEPRECATED); [|exact H].
  destruct (oflag o CFGF_DROP); [|exact H].
  destruct (free_value o) as [o1 fr] eqn:Ef. unfold snd. apply flat_put_opt; [exact H|exact Hr|].
  rewrite (kind_free_value _ _ _ Ef). eapply flat_get_opt; eassumption.
Qed.

(* in a flat context the resolver cannot step into a section *)
Lemma loop_flat : forall f root sec steps name last index r, flat sec ->
  rs_opt (secidx_loop f root sec steps name false last index) = Some r -> fst r = rev steps.
Proof.
  destruct f as [|f]; intros root sec steps name last index r Hfl H; [discriminate H|].
  rewrite secidx_loop_eq in H.
  assert (Hfin : forall nm, rs_opt (finish_r root sec steps false last index nm) = Some r -> fst r = rev steps).
  { intros nm. unfold finish_r. destruct nm as [|c1 n1]; [discriminate|].
    destruct (getopt_leaf sec (c1 :: n1)) as [i|]; [|discriminate].
    cbn [rs_opt]. intro E; injection E as <-. reflexivity. }
  destruct name as [|c0 n0]; [apply Hfin in H; exact H|].
  cbv beta iota zeta in H. cbn [negb andb] in H.
  set (len := strcspn (c0 :: n0) is_bar_eq) in *.
  destruct (match skipn len (c0 :: n0) with [] => true | _ :: _ => false end); [apply Hfin in H; exact H|].
  destruct (Nat.eqb len 0); [discriminate H|].
  exfalso. revert H. unfold mtuple.
  destruct (getopt_leaf sec (firstn len (c0 :: n0))) as [k|]; [|cbn [msec rs_opt]; discriminate].
  destruct (nth_error (c_opts sec) k) as [o|] eqn:Ek; [|cbn [msec rs_opt]; discriminate].
  assert (Hk : o_kind o <> KSec).
  { apply nth_error_In in Ek. unfold flat in Hfl. rewrite Forall_forall in Hfl. auto. }
  destruct (o_kind o); try congruence; cbn [kind_eqb negb msec rs_opt]; discriminate.
Qed.

Lemma getopt_shallow c name r ds : flat c -> cfg_getopt c name = (Some r, ds) -> fst r = [].
Proof.
  intros Hf. unfold cfg_getopt, getopt_secidx. destruct name as [|c0 n0]; [discriminate|].
  intro H. apply (f_equal fst) in H. unfold fst at 1 2 in H.
  apply (loop_flat _ _ _ _ _ _ _ _ Hf) in H. exact H.
Qed.

(* ---- one token ---- *)
Lemma next_token_oof fl w c :
  w_oof (fst (fst (fst (next_token fl w c)))) =
  if r_fuel_out (yylex (w_env w) fl (w_lex w) (c_pos c) 0) then true else w_oof w.
Proof.
  unfold next_token. cbv zeta. unfold fst.
  destruct (r_fuel_out _); destruct (c_err c); reflexivity.
Qed.

Lemma next_token_fuel fl w c w1 c1 t v :
  noinc w -> l_inc (w_lex w) = [] -> measure (w_lex w) < fl -> next_token fl w c = (w1, c1, t, v) ->
  w_oof w1 = w_oof w /\ noinc w1 /\ l_inc (w_lex w1) = [] /\
  measure (w_lex w1) <= measure (w_lex w) /\
  (t <> TEof -> t <> TErr -> measure (w_lex w1) < measure (w_lex w)) /\
  (exists q, c1 = set_pos c q).
Proof.
  intros A B Hm H.
  pose proof (next_token_proj fl w c) as P. pose proof (next_token_oof fl w c) as O.
  cbv zeta in P. rewrite H in P, O. unfold fst, snd in P, O. destruct P as (P1 & P2 & _ & P4).
  rewrite (yylex_terminates (w_env w) fl (w_lex w) (c_pos c) 0 Hm) in O.
  destruct (yylex_noinc (w_env w) fl (w_lex w) (c_pos c) 0 B) as (I1 & _). cbv zeta in I1.
  destruct (yylex_measure (w_env w) fl (w_lex w) (c_pos c) 0) as (M1 & M2). cbv zeta in M1, M2.
  assert (Et : t = r_tok (yylex (w_env w) fl (w_lex w) (c_pos c) 0)).
  { unfold next_token in H. cbv zeta in H. injection H as _ _ H _. symmetry; exact H. }
  split; [exact O|]. split; [unfold noinc; rewrite P2; exact A|]. rewrite P1.
  split; [exact I1|]. split; [exact M1|]. split; [rewrite Et; exact M2|]. eexists; exact P4.
Qed.

(* ---- cfg_setopt on an option that is not a section never reaches cfg_init_defaults ---- *)
Lemma so_conv_flat strtod_o initd c w1 o1 idx txt : o_kind o1 <> KSec ->
  lf (fst (fst (so_conv strtod_o initd c w1 o1 idx txt))) = lf w1 /\
  o_kind (snd (fst (so_conv strtod_o initd c w1 o1 idx txt))) = o_kind o1.
Proof.
  intro Hk. unfold so_conv, so_store. cbv beta zeta.
  destruct (o_kind o1) eqn:K; try congruence.
  all: repeat match goal with
       | |- context [match run_parsecb ?w ?k ?o ?t with _ => _ end] =>
           let L := fresh "L" in
           pose proof (lf_run_parsecb w k o t) as L; destruct (run_parsecb w k o t) as [? ?]; unfold fst in L
       | |- context [match ?x with _ => _ end] => destruct x
       end.
  all: unfold fst, snd; autorewrite with lfdb kinddb; split; congruence.
Qed.

Lemma so_body_flat strtod_o initd w c o txt : o_kind o <> KSec ->
  lf (fst (fst (so_body strtod_o initd w c o txt))) = lf w /\
  o_kind (snd (fst (so_body strtod_o initd w c o txt))) = o_kind o.
Proof.
  intro Hk. unfold so_body.
  pose proof (lf_so_reset w o) as L0. pose proof (frame_so_reset w o) as F0.
  destruct (so_reset w o) as [w0 o0]. unfold fst in L0. unfold snd in F0.
  destruct (so_slot c w0 o0 txt) as [[[w1 o1] idx]|] eqn:S.
  - pose proof (lf_so_slot _ _ _ _ _ _ _ S) as L1. pose proof (so_slot_frame _ _ _ _ _ _ _ S) as F1.
    assert (K1 : o_kind o1 = o_kind o) by (destruct F0, F1; congruence).
    destruct (so_conv_flat strtod_o initd c w1 o1 idx txt) as [A B]; [congruence|].
    split; congruence.
  - cbv zeta. match goal with |- context [if ?d then _ else _] => destruct d end;
      unfold fst, snd; autorewrite with lfdb; split; try congruence; apply F0.
Qed.

Section FlatFuel.
Variable so : pw -> cfg -> opt -> option str -> pw * opt * option nat.
Variable pi : pw -> cfg -> nat -> pst -> pw * cfg * prc.
Variable f' : nat.
Hypothesis Hso : forall w c o txt, o_kind o <> KSec ->
  lf (fst (fst (so w c o txt))) = lf w /\ o_kind (snd (fst (so w c o txt))) = o_kind o.
Hypothesis Hpi : forall w c l p, flat c -> pinv p -> WI f' w -> w_oof (fst (fst (pi w c l p))) = w_oof w.

Ltac lf_solve := autorewrite with lfdb; congruence.

Ltac shallow_solve :=
  match goal with
  | |- fst ?r = [] =>
      first [ assumption
            | match goal with Hsh : forall r0, s_opt ?p = Some r0 -> fst r0 = [], E : s_opt ?p = Some r |- _ => exact (Hsh r E) end
            | match goal with Hsh : forall r0, s_opt ?p = Some r0 -> fst r0 = [], E : Some ?x = Some r, E2 : s_opt ?p = Some ?x |- _ =>
                injection E as <-; exact (Hsh _ E2) end ]
  end.

Ltac kind_solve :=
  autorewrite with kinddb;
  repeat match goal with
  | E : free_value ?o = (?o1, _) |- context [o_kind ?o1] => rewrite (kind_free_value _ _ _ E)
  | E : o_kind ?a = o_kind ?b |- context [o_kind ?a] => rewrite E
  end;
  autorewrite with kinddb;
  first [ assumption
        | match goal with
          | F : flat ?c, E : get_opt ?c ?r = Some ?o |- o_kind ?o <> KSec =>
              apply (flat_get_opt c r o F); [shallow_solve|exact E]
          end ].

Ltac flat_solve :=
  lazymatch goal with
  | |- flat (put_opt ?c ?r ?o) => apply flat_put_opt; [flat_solve | shallow_solve | kind_solve]
  | |- flat _ => assumption
  end.

Ltac kind_contra :=
  match goal with
  | K : o_kind ?o = KSec, F : flat ?c, E : get_opt ?c ?r = Some ?o |- _ =>
      exfalso; apply (flat_get_opt c r o F); [shallow_solve|exact E|exact K]
  end.

Ltac pinv_solve :=
  first
  [ assumption
  | match goal with Hpv : pinv ?p |- pinv _ =>
      let Hsh := fresh "Hsh" in let H5 := fresh "H5" in let H6 := fresh "H6" in
      pose proof Hpv as (Hsh & H5 & H6);
      unfold pinv; cbn [s_state s_opt st_state st_comment st_title st_opt st_args st_ignore st_skip st_num];
      split; [ let r := fresh "r" in let E := fresh "E" in
               intros r E; first [ exact (Hsh r E) | injection E as <-; shallow_solve | discriminate E ]
             | split; first [ assumption | discriminate ] ]
    end ].

Ltac oof_close :=
  match goal with O : w_oof ?w1 = w_oof ?w0 |- w_oof ?x = w_oof ?w0 =>
    transitivity (w_oof w1); [apply oof_of_lf; lf_solve | exact O] end.

Ltac fleaf :=
  lazymatch goal with
  | |- w_oof (fst (fst (pi ?wx ?cx ?l ?px))) = _ =>
      first [ kind_contra
            | rewrite Hpi;
              [ oof_close
              | flat_solve | pinv_solve
              | match goal with HW : WI f' ?w1 |- _ => apply (WI_of_lf f' wx w1); [lf_solve | exact HW] end ] ]
  | |- w_oof (fst (fst (_, _, _))) = _ =>
      unfold fst; oof_close
  end.

Ltac fstep :=
  first
  [ fleaf
  | match goal with
    | |- context [match handle_deprecated ?w ?c ?r with _ => _ end] =>
        let L := fresh "L" in let F := fresh "F" in
        pose proof (lf_handle_deprecated w c r) as L;
        assert (F : flat (snd (handle_deprecated w c r))) by (apply flat_handle_deprecated; [flat_solve|shallow_solve]);
        destruct (handle_deprecated w c r) as [? ?]; unfold fst in L; unfold snd in F
    | |- context [match lexer_include ?w ?c ?x with _ => _ end] =>
        let L := fresh "L" in let A := fresh "A" in let B := fresh "B" in
        assert (L : noinc w) by (match goal with HW : WI f' ?w1 |- _ =>
                                   assert (A : WI f' w) by (apply (WI_of_lf f' w w1); [lf_solve|exact HW]); apply A end);
        destruct (lexer_include_noinc w c x L) as [A B];
        destruct (lexer_include w c x) as [[? ?] ?]; unfold fst, snd in A, B; subst
    | |- context [match addopt ?c ?x with _ => _ end] =>
        let A := fresh "A" in let B := fresh "B" in
        assert (A : flat c) by flat_solve;
        destruct (flat_addopt c x A) as [A' B];
        destruct (addopt c x) as [? ?]; unfold fst, snd in A', B
    | |- context [match cfg_getopt ?c ?x with _ => _ end] =>
        let E := fresh "EG" in let A := fresh "A" in
        assert (A : flat c) by flat_solve;
        destruct (cfg_getopt c x) as [[?|] ?] eqn:E; [pose proof (getopt_shallow _ _ _ _ A E)|]
    | |- context [match so ?w ?c ?o ?t with _ => _ end] =>
        let K := fresh "K" in let A := fresh "A" in let B := fresh "B" in
        assert (K : o_kind o <> KSec) by kind_solve;
        destruct (Hso w c o t K) as [A B];
        destruct (so w c o t) as [[? ?] ?]; unfold fst, snd in A, B
    | |- context [match run_validcb ?w ?o with _ => _ end] =>
        let L := fresh "L" in
        pose proof (lf_run_validcb w o) as L; destruct (run_validcb w o) as [? ?]; unfold fst in L
    | |- context [match tick ?w with _ => _ end] =>
        let L := fresh "L" in
        pose proof (lf_tick w) as L; destruct (tick w) as [? ?]; unfold fst in L
    end
  | match goal with
    | |- context [match ?x with _ => _ end] =>
        let rec go y := lazymatch y with
          | context [match ?z with _ => _ end] => go z
          | _ => let E := fresh "ED" in destruct y eqn:E
          end in go x
    end ].

Lemma pi_body_fuel w c level p :
  flat c -> pinv p -> noinc w -> l_inc (w_lex w) = [] -> measure (w_lex w) + 1 <= f' ->
  w_oof (fst (fst (pi_body so pi f' w c level p))) = w_oof w.
Proof.
  intros Hfl Hpv A B Hm. unfold pi_body.
  destruct (next_token f' w c) as [[[w1 c1] t] v] eqn:ENT.
  destruct (next_token_fuel f' w c w1 c1 t v A B ltac:(lia) ENT) as (O1 & A1 & B1 & M1 & M2 & [q Hq]).
  assert (Hfl1 : flat c1) by (subst c1; apply flat_set_pos; exact Hfl).
  clear Hq Hfl.
  cbv beta zeta.
  destruct (s_opt p) as [r0|] eqn:Eo.
  all: pose proof Hpv as (Hsh & H5 & H6).
  1: assert (Hr0 : fst r0 = []) by (apply Hsh; exact Eo).
  all: destruct t as [| |ch| |].
  all: try (assert (HW : WI f' w1) by (split; [exact A1|split; [exact B1|]]; specialize (M2 ltac:(discriminate) ltac:(discriminate)); lia)).
  all: cbv iota; cbn [tok_is_str tok_is tok_code negb sval orb andb].
  all: destruct (s_state p) as [|[|[|[|[|[|[|[|[|[|[|[|[|[|[|n]]]]]]]]]]]]]]] eqn:Es; try congruence.
  all: cbn [Nat.eqb negb].
  all: rewrite ?n125_case.
  all: repeat fstep.
Qed.
End FlatFuel.

(* the fuel cfg_parse_internal needs: every iteration of its loop consumes input *)
Definition need (w : pw) : nat := measure (w_lex w) + 2.

Theorem flat_fuel_suffices strtod_o : forall fuel w c l p,
  flat c -> pinv p -> noinc w -> l_inc (w_lex w) = [] -> need w <= fuel ->
  w_oof (fst (fst (parse_internal strtod_o fuel w c l p))) = w_oof w.
Proof.
  unfold need. induction fuel as [|f' IH]; intros w c l p Hfl Hpv A B Hm; [lia|].
  rewrite parse_internal_S. apply pi_body_fuel; try assumption; try lia.
  - intros w0 c0 o txt Hk. destruct f' as [|f'']; [lia|]. rewrite setopt_S. apply so_body_flat. exact Hk.
  - intros w0 c0 l0 p0 F P (W1 & W2 & W3). apply IH; assumption.
Qed.

Lemma measure_scan_begin l t : measure (scan_begin l t) = measure l + S (length t).
Proof.
  unfold measure, scan_begin. cbn [l_bufs fold_left snd].
  rewrite (fold_measure_shift (l_bufs l) (0 + S (length t))). lia.
Qed.

Lemma flat_set_line c n : flat c -> flat (set_line c n). Proof. destruct c; exact (fun H => H). Qed.
Lemma flat_set_file c n : flat c -> flat (set_file c n). Proof. destruct c; exact (fun H => H). Qed.

Lemma pinv_entry : pinv (pst0 0 None).
Proof. split; [intros r E; discriminate E|split; discriminate]. Qed.

Lemma include_unwind_oof n w d : w_oof (include_unwind n w d) = w_oof w.
Proof. pose proof (include_unwind_obs n w d) as O. unfold obs in O. congruence. Qed.

Theorem parse_buf_fuel_suffices strtod_o fuel w c b :
  flat c -> noinc w -> l_inc (w_lex w) = [] ->
  measure (w_lex w) + length (cstr b) + 3 <= fuel ->
  w_oof (fst (fst (parse_buf strtod_o fuel w c (Some b)))) = w_oof w.
Proof.
  intros Hfl A B Hm. unfold parse_buf, parse_fp. rewrite parse_fp_gen_unfold. cbv zeta.
  set (c0 := set_file c (Some (M "[buf]"))).
  match goal with |- context [parse_internal strtod_o fuel ?w1 ?c2 0 (pst0 0 None)] =>
    assert (X : w_oof (fst (fst (parse_internal strtod_o fuel w1 c2 0 (pst0 0 None)))) = w_oof w1);
    [ apply flat_fuel_suffices | destruct (parse_internal strtod_o fuel w1 c2 0 (pst0 0 None)) as [[w2 c3] rc] ] end.
  - apply flat_set_line. destruct (c_file c0); [|apply flat_set_file]; apply flat_set_file; exact Hfl.
  - apply pinv_entry.
  - exact A.
  - exact B.
  - unfold need. cbn [upd_lex w_lex]. rewrite measure_scan_begin. lia.
  - unfold fst, snd in *. cbn [upd_lex w_oof]. rewrite include_unwind_oof. exact X.
Qed.

(* ---- an example world with a flat schema ---- *)
Definition ex_finit := cfg_init ex_sd 50 ex_wz [ex_oa; ex_op] 0.
Definition ex_fw := fst ex_finit.
Definition ex_froot := snd ex_finit.

Lemma ex_flat : flat ex_froot /\ noinc ex_fw /\ l_inc (w_lex ex_fw) = [] /\ measure (w_lex ex_fw) = 0.
Proof.
  split; [|split; [apply noinc_empty; vm_compute; reflexivity|split; vm_compute; reflexivity]].
  unfold flat. vm_compute. repeat constructor; discriminate.
Qed.
