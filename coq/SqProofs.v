(* SqProofs.v — the rest of C03: single-quoted strings, unquoted words, unquoted ${...},
   and the line counter of multi-line literals.  Same method as DqProofs.v: finite sweeps over
   all 256 bytes about the GENERATED rule table, lifted to inputs of any length by induction. *)
From Coq Require Import List Arith NArith Bool Lia.
From Coq.Strings Require Import Byte.
From LC Require Import Bytes Flex LexAct LexRules Consts Lexer LexSpec LexLemmas DqProofs.
Import ListNotations.

(* ================================================================== *)
(* generic: a rule that loops over a class of bytes through finitely many residual vectors *)

Definition alive (V : list re) : bool := negb (forallb is_emp V).
Definition accepts (V : list re) (i : nat) : bool :=
  match first_nullable V 0 with Some j => Nat.eqb i j | None => false end.

Lemma munch_step_acc V c rest n best i :
  alive (map (deriv c) V) = true -> accepts (map (deriv c) V) i = true ->
  munch V (c :: rest) n best = munch (map (deriv c) V) rest (S n) (Some (i, S n)).
Proof.
  unfold alive, accepts. intros Hal Hac. apply negb_true_iff in Hal.
  rewrite (munch_cons_alive _ _ _ _ _ Hal).
  destruct (first_nullable (map (deriv c) V) 0) as [j|]; [|discriminate].
  apply Nat.eqb_eq in Hac. subst j. reflexivity.
Qed.

(* Vs is closed under K-bytes, every vector in it is alive and accepts rule i first,
   and every non-K byte kills every vector *)
Definition mloop (Vs : list (list re)) (K : byte -> bool) (i : nat) : bool :=
  forallb (fun V => alive V && accepts V i &&
     forallb (fun c => if K c then existsb (vec_eqb (map (deriv c) V)) Vs else dies_on V c) all_bytes) Vs.

Lemma munch_mloop Vs K i : mloop Vs K i = true ->
  forall run V rest n, In V Vs -> Forall (fun c => K c = true) run -> follows (fun c => negb (K c)) rest ->
  munch V (run ++ rest) n (Some (i, n)) = Some (i, (n + length run)%nat).
Proof.
  intros H. unfold mloop in H. rewrite forallb_forall in H.
  induction run as [|c run IH]; intros V rest n HV HK Hf.
  - cbn [app length]. rewrite Nat.add_0_r. destruct rest as [|d rest]; [reflexivity|].
    apply munch_dies. specialize (H V HV). apply andb_prop in H as [_ H3].
    pose proof (sweep _ H3 d) as Hd. cbv beta in Hd. unfold follows in Hf. apply negb_true_iff in Hf.
    rewrite Hf in Hd. exact Hd.
  - inversion HK as [|? ? Hc HK']; subst.
    pose proof (H V HV) as HVv. apply andb_prop in HVv as [_ H3].
    pose proof (sweep _ H3 c) as Hd. cbv beta in Hd. rewrite Hc in Hd.
    apply existsb_exists in Hd as (V' & HV' & He). apply vec_eqb_eq in He.
    pose proof (H V' HV') as HV'v. apply andb_prop in HV'v as [HV'v _]. apply andb_prop in HV'v as [Hal Hac].
    cbn [app]. rewrite <- He in Hal, Hac. rewrite (munch_step_acc _ _ _ _ _ i Hal Hac). rewrite He.
    rewrite (IH V' rest (S n) HV' HK' Hf). cbn [length]. f_equal. f_equal. lia.
Qed.

(* byte c takes vector V into the loop *)
Definition enters (V : list re) (Vs : list (list re)) (i : nat) (c : byte) : bool :=
  alive (map (deriv c) V) && accepts (map (deriv c) V) i && existsb (vec_eqb (map (deriv c) V)) Vs.

Lemma munch_enter V Vs K i c : mloop Vs K i = true -> enters V Vs i c = true ->
  forall run rest n best, Forall (fun c => K c = true) run -> follows (fun c => negb (K c)) rest ->
  munch V (c :: run ++ rest) n best = Some (i, (S n + length run)%nat).
Proof.
  intros Hl He run rest n best HK Hf. unfold enters in He.
  apply andb_prop in He as [He H3]. apply andb_prop in He as [H1 H2].
  apply existsb_exists in H3 as (V' & HV' & Hv). apply vec_eqb_eq in Hv.
  rewrite (munch_step_acc _ _ _ _ _ i H1 H2). rewrite Hv.
  apply (munch_mloop Vs K i Hl); assumption.
Qed.

(* a rule `[K]+` : one check for a whole rule vector *)
Definition run_check (R : list re) (A : list rule) (K : byte -> bool) (a : action) (c0 : byte) : bool :=
  match first_nullable (map (deriv c0) R) 0 with
  | Some i => mloop [map (deriv c0) R] K i &&
              forallb (fun c => implb (K c) (enters R [map (deriv c0) R] i c)) all_bytes &&
              match nth_error A i with Some r => action_eqb (r_act r) a | None => false end
  | None => false
  end.

Lemma run_munch_gen R A K a c0 : run_check R A K a c0 = true ->
  forall c cs rest, K c = true -> Forall (fun c => K c = true) cs -> follows (fun c => negb (K c)) rest ->
  exists j r, munch R ((c :: cs) ++ rest) 0 None = Some (j, length (c :: cs))
              /\ nth_error A j = Some r /\ r_act r = a.
Proof.
  unfold run_check. intros H c cs rest Hc Hcs Hf.
  destruct (first_nullable (map (deriv c0) R) 0) as [i|]; [|discriminate].
  apply andb_prop in H as [H H3]. apply andb_prop in H as [H1 H2].
  destruct (nth_error A i) as [r|] eqn:Hr; [|discriminate]. apply action_eqb_eq in H3.
  exists i, r. split; [|split; assumption].
  cbn [app]. rewrite (munch_enter R _ K i c H1 (sweep_impl _ _ H2 c Hc) cs rest 0 None Hcs Hf).
  reflexivity.
Qed.

(* ================================================================== *)
(* 1. single-quoted strings *)

(* line breaks inside a single-quoted string: raw newlines and continuations *)
Definition sunit_lines (u : sunit) : N :=
  match u with SChar c => if Byte.eqb c nl then 1%N else 0%N | SCont => 1%N | _ => 0%N end.
Definition slines_of (us : list sunit) : N := fold_right (fun u a => (sunit_lines u + a)%N) 0%N us.

(* the <sq_str>[^\\'\n]+ action copies its text only up to the first NUL, so a NUL byte written
   raw between the quotes is special; the clean statement excludes it, the exact one models it *)
Definition sunit_nonul (u : sunit) : bool := match u with SChar c => negb (Byte.eqb c x00) | _ => true end.
Definition sunits_wf (us : list sunit) : bool := forallb (fun u => sunit_wf u && sunit_nonul u) us.

(* bytes that the `+` rule collects into one run *)
Definition splain (c : byte) : bool := negb (Byte.eqb c bs) && negb (Byte.eqb c sq) && negb (Byte.eqb c nl).
Definition is_run_unit (u : sunit) : bool := match u with SChar c => splain c | _ => false end.

(* exact denotation, NUL included: within a maximal run of ordinary bytes, a NUL and whatever
   follows it in that run are dropped (mute); any other unit ends the run *)
Fixpoint sden_c (mute : bool) (us : list sunit) : str :=
  match us with
  | [] => []
  | SChar c :: r => if splain c then (if mute || Byte.eqb c x00 then sden_c true r else c :: sden_c false r)
                    else c :: sden_c false r
  | SEsc c :: r => c :: sden_c false r
  | SKeep c :: r => bs :: c :: sden_c false r
  | SCont :: r => sden_c false r
  end.

Lemma sden_c_nonul us : forallb sunit_nonul us = true -> sden_c false us = sdenote us.
Proof.
  unfold sdenote. induction us as [|u us IH]; intros H; [reflexivity|].
  cbn [forallb] in H. apply andb_prop in H as [Hu H]. specialize (IH H).
  destruct u as [c|c|c|]; cbn [sden_c flat_map sdenote1 app]; rewrite ?IH; try reflexivity.
  cbn [sunit_nonul] in Hu. apply negb_true_iff in Hu. rewrite Hu. cbn [orb].
  destruct (splain c); reflexivity.
Qed.

(* the maximal run of ordinary bytes at the head of a unit list *)
Fixpoint take_run (us : list sunit) : list byte * list sunit :=
  match us with
  | SChar c :: r => if splain c then (c :: fst (take_run r), snd (take_run r)) else ([], us)
  | _ => ([], us)
  end.

Lemma take_run_render us : srender us = fst (take_run us) ++ srender (snd (take_run us)).
Proof.
  unfold srender. induction us as [|u us IH]; [reflexivity|].
  destruct u as [c|c|c|]; cbn [take_run fst snd app]; try reflexivity.
  destruct (splain c); cbn [fst snd app flat_map srender1]; [|reflexivity].
  cbn [flat_map] in IH. rewrite IH at 1. reflexivity.
Qed.

Lemma take_run_plain us : Forall (fun c => splain c = true) (fst (take_run us)).
Proof.
  induction us as [|u us IH]; [constructor|].
  destruct u as [c|c|c|]; cbn [take_run fst]; try constructor.
  destruct (splain c) eqn:E; cbn [fst]; constructor; assumption.
Qed.

Lemma take_run_length us : length us = (length (fst (take_run us)) + length (snd (take_run us)))%nat.
Proof.
  induction us as [|u us IH]; [reflexivity|].
  destruct u as [c|c|c|]; cbn [take_run fst snd length]; try reflexivity.
  destruct (splain c); cbn [fst snd length]; [rewrite IH; reflexivity|reflexivity].
Qed.

Lemma splain_not_nl c : splain c = true -> Byte.eqb c nl = false.
Proof. unfold splain. intros H. apply andb_prop in H as [_ H]. apply negb_true_iff in H. exact H. Qed.

Lemma take_run_lines us : slines_of us = slines_of (snd (take_run us)).
Proof.
  induction us as [|u us IH]; [reflexivity|].
  destruct u as [c|c|c|]; cbn [take_run fst snd]; try reflexivity.
  destruct (splain c) eqn:E; cbn [snd]; [|reflexivity].
  cbn [slines_of fold_right sunit_lines]. rewrite (splain_not_nl c E). fold (slines_of us). rewrite IH. reflexivity.
Qed.

Lemma take_run_wf us : forallb sunit_wf us = true -> forallb sunit_wf (snd (take_run us)) = true.
Proof.
  induction us as [|u us IH]; intros H; [reflexivity|].
  destruct u as [c|c|c|]; cbn [take_run fst snd]; try exact H.
  destruct (splain c); cbn [snd]; [|exact H].
  cbn [forallb] in H. apply andb_prop in H as [_ H]. exact (IH H).
Qed.

Definition head_not_run (us : list sunit) : Prop :=
  match us with [] => True | u :: _ => is_run_unit u = false end.

Lemma take_run_head us : head_not_run (snd (take_run us)).
Proof.
  induction us as [|u us IH]; [exact I|].
  destruct u as [c|c|c|]; cbn [take_run fst snd]; try reflexivity.
  destruct (splain c) eqn:E; cbn [snd]; [exact IH|exact E].
Qed.

Lemma sden_c_mute_irrelevant us : head_not_run us -> sden_c true us = sden_c false us.
Proof.
  destruct us as [|u us]; [reflexivity|]. cbn [head_not_run]. intros H.
  destruct u as [c|c|c|]; cbn [sden_c]; try reflexivity.
  cbn [is_run_unit] in H. rewrite H. reflexivity.
Qed.

Lemma take_run_den_mute us : sden_c true us = sden_c false (snd (take_run us)).
Proof.
  induction us as [|u us IH]; [reflexivity|].
  destruct u as [c|c|c|]; cbn [take_run fst snd]; try reflexivity.
  destruct (splain c) eqn:E; cbn [snd].
  - cbn [sden_c]. rewrite E. cbn [orb]. exact IH.
  - apply sden_c_mute_irrelevant. cbn [head_not_run is_run_unit]. exact E.
Qed.

Lemma take_run_den us : sden_c false us = cstr (fst (take_run us)) ++ sden_c false (snd (take_run us)).
Proof.
  induction us as [|u us IH]; [reflexivity|].
  destruct u as [c|c|c|]; cbn [take_run fst snd cstr app]; try reflexivity.
  destruct (splain c) eqn:E; cbn [fst snd cstr app]; [|reflexivity].
  cbn [sden_c]. rewrite E. cbn [orb].
  destruct (Byte.eqb c x00); cbn [app]; [apply take_run_den_mute|rewrite IH; reflexivity].
Qed.

(* ---- computed facts about the <sq_str> rules ---- *)
Notation US := (unit_ok sq_str).

Definition is_sesc (c : byte) := sunit_wf (SEsc c).
Definition is_skeep (c : byte) := sunit_wf (SKeep c).

Lemma sq_close_ok : US [sq] A_str_end any = true.
Proof. vm_compute. reflexivity. Qed.
Lemma sq_nl_ok : US [nl] A_putc_nl_line any = true.
Proof. vm_compute. reflexivity. Qed.
Lemma sq_cont_ok : US [bs; nl] A_line any = true.
Proof. vm_compute. reflexivity. Qed.
Lemma sq_esc_sweep : forallb (fun c => implb (is_sesc c) ((fun c => US [bs; c] A_putc_yy1 any) c)) all_bytes = true.
Proof. vm_compute. reflexivity. Qed.
Lemma sq_keep_sweep : forallb (fun c => implb (is_skeep c) ((fun c => US [bs; c] A_putc_yy01 any) c)) all_bytes = true.
Proof. vm_compute. reflexivity. Qed.
Lemma sq_run_ok : run_check (active_res sq_str) (active_rules sq_str) splain A_put_all x61 = true.
Proof. vm_compute. reflexivity. Qed.
Lemma sq_open_ok : unit_ok INITIAL [sq] A_begin_sq any = true.
Proof. vm_compute. reflexivity. Qed.

Notation SMUNCH u rest a :=
  (exists j r, munch (active_res sq_str) (u ++ rest) 0 None = Some (j, length u)
              /\ nth_error (active_rules sq_str) j = Some r /\ r_act r = a).

Lemma sq_run_munch c cs rest :
  splain c = true -> Forall (fun c => splain c = true) cs -> follows (fun c => negb (splain c)) rest ->
  SMUNCH (c :: cs) rest A_put_all.
Proof. exact (run_munch_gen _ _ splain A_put_all x61 sq_run_ok c cs rest). Qed.

Definition sact_of (u : sunit) : action :=
  match u with SChar _ => A_putc_nl_line | SEsc _ => A_putc_yy1 | SKeep _ => A_putc_yy01 | SCont => A_line end.

Lemma sunit_munch u rest :
  sunit_wf u = true -> is_run_unit u = false -> SMUNCH (srender1 u) rest (sact_of u).
Proof.
  intros Hwf Hnr. destruct u as [c|c|c|]; cbn [srender1 sact_of].
  - cbn [sunit_wf] in Hwf. cbn [is_run_unit] in Hnr. unfold splain in Hnr. rewrite Hwf in Hnr. cbn [andb] in Hnr.
    apply negb_false_iff in Hnr. apply byte_eqb_eq in Hnr. subst c.
    exact (unit_ok_munch sq_str [nl] A_putc_nl_line any rest sq_nl_ok (follows_any rest)).
  - exact (unit_ok_munch sq_str [bs; c] A_putc_yy1 any rest (sweep_impl _ _ sq_esc_sweep c Hwf) (follows_any rest)).
  - exact (unit_ok_munch sq_str [bs; c] A_putc_yy01 any rest (sweep_impl _ _ sq_keep_sweep c Hwf) (follows_any rest)).
  - exact (unit_ok_munch sq_str [bs; nl] A_line any rest sq_cont_ok (follows_any rest)).
Qed.

Lemma sunit_effect e u st p :
  sunit_wf u = true -> is_run_unit u = false ->
  exists st', run_action e (sact_of u) (srender1 u) st p
              = Continue st' {| p_file := p_file p; p_line := p_line p + sunit_lines u |}
   /\ q_data (l_q st') = q_data (l_q st) ++ sdenote1 u /\ st_frame st st'.
Proof.
  intros Hwf Hnr. destruct u as [c|c|c|]; cbn [sact_of srender1 sdenote1 sunit_lines].
  - cbn [sunit_wf] in Hwf. cbn [is_run_unit] in Hnr. unfold splain in Hnr. rewrite Hwf in Hnr. cbn [andb] in Hnr.
    apply negb_false_iff in Hnr. apply byte_eqb_eq in Hnr. subst c.
    eexists. split; [reflexivity|]. split; [apply q_data_qputc|apply frame_set_q].
  - eexists. split; [cbn [run_action nth]; rewrite pos_add0; reflexivity|]. split; [apply q_data_qputc|apply frame_set_q].
  - eexists. split; [cbn [run_action nth]; rewrite pos_add0; reflexivity|].
    split; [cbn [l_q set_q]; rewrite !q_data_qputc, <- app_assoc; reflexivity|apply frame_set_q].
  - eexists. split; [reflexivity|]. split; [rewrite app_nil_r; reflexivity|apply frame_refl].
Qed.

Lemma splain_sweep : forallb (fun c => implb (splain c) (negb (Byte.eqb c bs) && negb (Byte.eqb c sq))) all_bytes = true.
Proof. vm_compute. reflexivity. Qed.

(* the byte after a maximal run is not an ordinary byte *)
Lemma follows_after_run us rest :
  forallb sunit_wf us = true -> head_not_run us -> follows (fun c => negb (splain c)) (srender us ++ sq :: rest).
Proof.
  intros Hwf Hh. destruct us as [|u us]; [reflexivity|].
  cbn [head_not_run] in Hh. destruct u as [c|c|c|]; cbn [is_run_unit] in Hh; unfold srender; cbn [flat_map srender1 app follows];
    [rewrite Hh|..]; reflexivity.
Qed.

Lemma sden_c_nonrun u r : is_run_unit u = false -> sden_c false (u :: r) = sdenote1 u ++ sden_c false r.
Proof.
  destruct u as [c|c|c|]; cbn [is_run_unit sden_c sdenote1 app]; intros H; try reflexivity.
  rewrite H. reflexivity.
Qed.

Theorem sq_body_scan e : forall n us st p closed id rest others fuel,
  (length us <= n)%nat ->
  forallb sunit_wf us = true -> l_sc st = sq_str -> l_bufs st = (id, srender us ++ sq :: rest) :: others ->
  (length us < fuel)%nat ->
  observe (yylex e fuel st p closed) =
  {| ob_tok := TStr; ob_val := Some (cstr (q_data (l_q st) ++ sden_c false us)); ob_bufs := (id, rest) :: others;
     ob_sc := INITIAL; ob_line := p_line p + slines_of us; ob_file := p_file p; ob_diags := []; ob_echo := l_echo st;
     ob_inc := l_inc st; ob_closed := closed; ob_oof := false |}.
Proof.
  assert (Hnil : forall st p closed id rest others fuel,
    l_sc st = sq_str -> l_bufs st = (id, srender [] ++ sq :: rest) :: others -> (0 < fuel)%nat ->
    observe (yylex e fuel st p closed) =
    {| ob_tok := TStr; ob_val := Some (cstr (q_data (l_q st) ++ sden_c false [])); ob_bufs := (id, rest) :: others;
       ob_sc := INITIAL; ob_line := p_line p + slines_of []; ob_file := p_file p; ob_diags := []; ob_echo := l_echo st;
       ob_inc := l_inc st; ob_closed := closed; ob_oof := false |}).
  { intros st p closed id rest others fuel Hsc Hb Hf. destruct fuel as [|fuel]; [lia|].
    unfold srender in Hb. cbn [flat_map app] in Hb.
    destruct (unit_ok_munch sq_str [sq] _ any rest sq_close_ok (follows_any rest)) as (j & r & Hm & Hn & Ha).
    rewrite (yylex_step sq_str e fuel st p closed id [sq] rest others j r Hsc Hb Hm Hn). rewrite Ha.
    cbn [run_action]. unfold observe; cbn. rewrite app_nil_r, N.add_0_r. reflexivity. }
  induction n as [|n IH]; intros us st p closed id rest others fuel Hlen Hwf Hsc Hb Hf.
  - destruct us as [|u us]; [|cbn [length] in Hlen; lia]. apply Hnil; assumption.
  - destruct us as [|u us]; [apply Hnil; assumption|].
    destruct fuel as [|fuel]; [cbn in Hf; lia|].
    destruct (is_run_unit u) eqn:Hru.
    + (* a maximal run of ordinary bytes, taken by the `+` rule in one step *)
      pose proof (take_run_render (u :: us)) as Hr.
      pose proof (take_run_plain (u :: us)) as Hpl.
      pose proof (take_run_length (u :: us)) as Hl.
      pose proof (take_run_lines (u :: us)) as Hli.
      pose proof (take_run_wf (u :: us) Hwf) as Hw'.
      pose proof (take_run_head (u :: us)) as Hh.
      pose proof (take_run_den (u :: us)) as Hd.
      destruct (take_run (u :: us)) as [cs us'] eqn:Htr. cbn [fst snd] in Hr, Hpl, Hl, Hli, Hw', Hh, Hd.
      destruct cs as [|c cs].
      { exfalso. destruct u as [c|c|c|]; cbn [is_run_unit] in Hru; try discriminate.
        cbn [take_run] in Htr. rewrite Hru in Htr. discriminate. }
      inversion Hpl as [|? ? Hc Hcs]; subst.
      rewrite Hr, <- app_assoc in Hb.
      destruct (sq_run_munch c cs (srender us' ++ sq :: rest) Hc Hcs (follows_after_run us' rest Hw' Hh))
        as (j & r & Hm & Hn & Ha).
      rewrite (yylex_step sq_str e fuel st p closed id _ _ others j r Hsc Hb Hm Hn). rewrite Ha.
      cbn [run_action].
      rewrite (IH us' _ p closed id rest others fuel); [| | exact Hw' | exact Hsc | reflexivity | ].
      * cbn [set_q set_bufs l_q l_echo l_inc]. rewrite q_data_qputs, Hd, Hli, <- app_assoc. reflexivity.
      * cbn [length] in Hlen, Hl. lia.
      * cbn [length] in Hf, Hl. lia.
    + (* any other unit: one rule, one step *)
      cbn [forallb] in Hwf. apply andb_prop in Hwf as [Hu Hrest].
      unfold srender in Hb. cbn [flat_map] in Hb. fold (srender us) in Hb. rewrite <- app_assoc in Hb.
      destruct (sunit_munch u (srender us ++ sq :: rest) Hu Hru) as (j & r & Hm & Hn & Ha).
      rewrite (yylex_step sq_str e fuel st p closed id _ _ others j r Hsc Hb Hm Hn). rewrite Ha.
      destruct (sunit_effect e u (set_bufs st ((id, srender us ++ sq :: rest) :: others)) p Hu Hru) as (st' & He & Hq & Hfr).
      rewrite He. destruct Hfr as (F1 & F2 & F3 & F4 & F5).
      rewrite (IH us st' _ closed id rest others fuel); [| | exact Hrest | rewrite F1; exact Hsc | rewrite F2; reflexivity | ].
      * cbn [p_file p_line]. rewrite Hq, F3, F4. cbn [set_bufs l_q l_inc l_echo slines_of fold_right].
        fold (slines_of us). rewrite (sden_c_nonrun u us Hru), <- app_assoc, N.add_assoc. reflexivity.
      * cbn [length] in Hlen. lia.
      * cbn [length] in Hf. lia.
Qed.

(* from INITIAL: the opening quote, the body, the closing quote — exact, NUL bytes included *)
Theorem sq_string_token_exact e us st p closed id rest others fuel :
  forallb sunit_wf us = true -> l_sc st = INITIAL -> l_bufs st = (id, sq :: srender us ++ sq :: rest) :: others ->
  (S (length us) < fuel)%nat ->
  observe (yylex e fuel st p closed) =
  {| ob_tok := TStr; ob_val := Some (cstr (sden_c false us)); ob_bufs := (id, rest) :: others;
     ob_sc := INITIAL; ob_line := p_line p + slines_of us; ob_file := p_file p; ob_diags := []; ob_echo := l_echo st;
     ob_inc := l_inc st; ob_closed := closed; ob_oof := false |}.
Proof.
  intros Hwf Hsc Hb Hf. destruct fuel as [|fuel]; [lia|].
  destruct (unit_ok_munch INITIAL [sq] _ any (srender us ++ sq :: rest) sq_open_ok (follows_any _)) as (j & r & Hm & Hn & Ha).
  change (sq :: srender us ++ sq :: rest) with ([sq] ++ (srender us ++ sq :: rest)) in Hb.
  rewrite (yylex_step INITIAL e fuel st p closed id _ _ others j r Hsc Hb Hm Hn). rewrite Ha.
  cbn [run_action].
  rewrite (sq_body_scan e (length us) us _ p closed id rest others fuel (le_n _) Hwf); [reflexivity|reflexivity|reflexivity|lia].
Qed.

Lemma sunits_wf_split us : sunits_wf us = true -> forallb sunit_wf us = true /\ forallb sunit_nonul us = true.
Proof.
  unfold sunits_wf. induction us as [|u us IH]; intros H; [split; reflexivity|].
  cbn [forallb] in H |- *. apply andb_prop in H as [Hu H]. apply andb_prop in Hu as [H1 H2].
  destruct (IH H) as [I1 I2]. rewrite H1, H2, I1, I2. split; reflexivity.
Qed.

(* the statement of C03 for single quotes: no NUL byte written raw between the quotes *)
Theorem sq_string_token e us st p closed id rest others fuel :
  sunits_wf us = true -> l_sc st = INITIAL -> l_bufs st = (id, sq :: srender us ++ sq :: rest) :: others ->
  (S (length us) < fuel)%nat ->
  observe (yylex e fuel st p closed) =
  {| ob_tok := TStr; ob_val := Some (cstr (sdenote us)); ob_bufs := (id, rest) :: others;
     ob_sc := INITIAL; ob_line := p_line p + slines_of us; ob_file := p_file p; ob_diags := []; ob_echo := l_echo st;
     ob_inc := l_inc st; ob_closed := closed; ob_oof := false |}.
Proof.
  intros Hwf Hsc Hb Hf. destruct (sunits_wf_split us Hwf) as [H1 H2].
  rewrite <- (sden_c_nonul us H2). exact (sq_string_token_exact e us st p closed id rest others fuel H1 Hsc Hb Hf).
Qed.

(* ================================================================== *)
(* 2. unquoted words *)

Definition slash : byte := x2f.
Definition star : byte := x2a.

(* the bytes of the INITIAL word rule: everything except TAB LF CR space, the two quote characters, and # ( ) * + , = { } *)
Definition word_byte (c : byte) : bool :=
  negb (existsb (Byte.eqb c) [x09; x0a; x0d; x20; x22; x23; x27; x28; x29; x2a; x2b; x2c; x3d; x7b; x7d]).
Definition ord_byte (c : byte) : bool := word_byte c && negb (Byte.eqb c slash) && negb (Byte.eqb c dollar).

(* "//" at the very start is a one-line comment *)
Definition starts_comment (w : str) : bool :=
  match w with a :: b :: _ => Byte.eqb a slash && Byte.eqb b slash | _ => false end.
Definition word_ok (w : str) : bool :=
  match w with [] => false | _ => forallb word_byte w && negb (starts_comment w) end.

(* what follows the word: the end of the input or a non-word byte; and the two longer matches that
   start with a word byte: a slash then a star opens a comment, a dollar then {...} is a substitution *)
Definition word_end_ok (w rest : str) : bool :=
  match rest with
  | [] => true
  | d :: r => negb (word_byte d) &&
              negb (str_eqb w [slash] && Byte.eqb d star) &&
              negb (str_eqb w [dollar] && Byte.eqb d lbrace && existsb (fun c => Byte.eqb c rbrace) r)
  end.

Lemma no_rbrace_forall r : existsb (fun c => Byte.eqb c rbrace) r = false -> Forall (fun c => notrbrace c = true) r.
Proof.
  induction r as [|c r IH]; intros H; [constructor|]. cbn [existsb] in H. apply orb_false_iff in H as [H1 H2].
  constructor; [unfold notrbrace; rewrite H1; reflexivity|exact (IH H2)].
Qed.

Section WordCore.
Variable R : list re.
Variable Vs : list (list re).
Variable i : nat.
Hypothesis Hloop : mloop Vs word_byte i = true.
Hypothesis Hord : forallb (fun c => implb (ord_byte c) (enters R Vs i c)) all_bytes = true.
Hypothesis Hsl_alive : alive (map (deriv slash) R) = true.
Hypothesis Hsl_acc : accepts (map (deriv slash) R) i = true.
Hypothesis Hsl_ent : forallb (fun d => implb (word_byte d && negb (Byte.eqb d slash))
                                              (enters (map (deriv slash) R) Vs i d)) all_bytes = true.
Hypothesis Hsl_die : forallb (fun d => implb (negb (word_byte d) && negb (Byte.eqb d star))
                                              (dies_on (map (deriv slash) R) d)) all_bytes = true.
Hypothesis Hdo_alive : alive (map (deriv dollar) R) = true.
Hypothesis Hdo_acc : accepts (map (deriv dollar) R) i = true.
Hypothesis Hdo_ent : forallb (fun d => implb (word_byte d) (enters (map (deriv dollar) R) Vs i d)) all_bytes = true.
Hypothesis Hdo_die : forallb (fun d => implb (negb (word_byte d) && negb (Byte.eqb d lbrace))
                                              (dies_on (map (deriv dollar) R) d)) all_bytes = true.
Hypothesis Hdo_sil : silent_loop (map (deriv lbrace) (map (deriv dollar) R)) notrbrace = true.

Lemma word_munch_core w rest : word_ok w = true -> word_end_ok w rest = true ->
  munch R (w ++ rest) 0 None = Some (i, length w).
Proof.
  intros Hw He. destruct w as [|c w']; [discriminate|]. unfold word_ok in Hw.
  apply andb_prop in Hw as [Hall Hns]. cbn [forallb] in Hall. apply andb_prop in Hall as [Hc Hw'].
  assert (Hfw : Forall (fun c => word_byte c = true) w').
  { apply Forall_forall. rewrite forallb_forall in Hw'. exact Hw'. }
  assert (Hfr : follows (fun c => negb (word_byte c)) rest).
  { destruct rest as [|d r]; [exact I|]. unfold word_end_ok in He. unfold follows.
    apply andb_prop in He as [He _]. apply andb_prop in He as [He _]. exact He. }
  destruct (Byte.eqb c slash) eqn:Es; [apply byte_eqb_eq in Es; subst c|
    destruct (Byte.eqb c dollar) eqn:Ed; [apply byte_eqb_eq in Ed; subst c|]].
  - (* the word starts with a slash *)
    cbn [app]. rewrite (munch_step_acc R slash _ 0 None i Hsl_alive Hsl_acc).
    destruct w' as [|d w''].
    + cbn [app length]. destruct rest as [|d r]; [reflexivity|]. apply munch_dies.
      apply (sweep_impl _ _ Hsl_die d). unfold word_end_ok in He.
      apply andb_prop in He as [He _]. apply andb_prop in He as [H1 H2]. rewrite H1. cbn [andb].
      change (str_eqb [slash] [slash]) with true in H2. cbn [andb] in H2. exact H2.
    + unfold starts_comment in Hns. change (Byte.eqb slash slash) with true in Hns. cbn [andb] in Hns.
      cbn [forallb] in Hw'. apply andb_prop in Hw' as [Hd Hw''].
      inversion Hfw as [|? ? _ Hfw'']; subst.
      assert (Hen : enters (map (deriv slash) R) Vs i d = true).
      { apply (sweep_impl _ _ Hsl_ent d). rewrite Hd, Hns. reflexivity. }
      cbn [app]. rewrite (munch_enter _ Vs word_byte i d Hloop Hen w'' rest 1 _ Hfw'' Hfr). reflexivity.
  - (* the word starts with a dollar *)
    cbn [app]. rewrite (munch_step_acc R dollar _ 0 None i Hdo_alive Hdo_acc).
    destruct w' as [|d w''].
    + cbn [app length]. destruct rest as [|d r]; [reflexivity|].
      unfold word_end_ok in He. apply andb_prop in He as [He H3]. apply andb_prop in He as [H1 _].
      change (str_eqb [dollar] [dollar]) with true in H3. cbn [andb] in H3.
      destruct (Byte.eqb d lbrace) eqn:El.
      * apply byte_eqb_eq in El. subst d. cbn [andb] in H3. apply negb_true_iff in H3.
        pose proof (no_rbrace_forall r H3) as Hr.
        pose proof Hdo_sil as Hs. unfold silent_loop in Hs.
        apply andb_prop in Hs as [Hs _]. apply andb_prop in Hs as [Hs1 Hs2].
        apply negb_true_iff in Hs2. rewrite (munch_cons_alive _ _ _ _ _ Hs2).
        destruct (first_nullable (map (deriv lbrace) (map (deriv dollar) R)) 0); [discriminate|].
        rewrite <- (app_nil_r r). rewrite (munch_silent_loop _ _ Hdo_sil r [] _ _ Hr). reflexivity.
      * apply munch_dies. apply (sweep_impl _ _ Hdo_die d). rewrite H1, El. reflexivity.
    + cbn [forallb] in Hw'. apply andb_prop in Hw' as [Hd Hw''].
      inversion Hfw as [|? ? _ Hfw'']; subst.
      assert (Hen : enters (map (deriv dollar) R) Vs i d = true).
      { apply (sweep_impl _ _ Hdo_ent d). exact Hd. }
      cbn [app]. rewrite (munch_enter _ Vs word_byte i d Hloop Hen w'' rest 1 _ Hfw'' Hfr). reflexivity.
  - (* an ordinary first byte *)
    assert (Hen : enters R Vs i c = true).
    { apply (sweep_impl _ _ Hord c). unfold ord_byte. rewrite Hc, Es, Ed. reflexivity. }
    cbn [app]. rewrite (munch_enter R Vs word_byte i c Hloop Hen w' rest 0 None Hfw Hfr). reflexivity.
Qed.
End WordCore.

(* the residual vectors of the INITIAL rules inside a word: after "a", "aa", "a/" *)
Definition wstates : list (list re) :=
  [map (deriv x61) (active_res INITIAL);
   map (deriv x61) (map (deriv x61) (active_res INITIAL));
   map (deriv slash) (map (deriv x61) (active_res INITIAL))].
Definition widx : nat :=
  match first_nullable (map (deriv x61) (active_res INITIAL)) 0 with Some i => i | None => 0%nat end.

Lemma w_act : act_is INITIAL widx A_word = true.
Proof. vm_compute. reflexivity. Qed.
Lemma w_loop : mloop wstates word_byte widx = true.
Proof. vm_compute. reflexivity. Qed.
Lemma w_ord : forallb (fun c => implb (ord_byte c) (enters (active_res INITIAL) wstates widx c)) all_bytes = true.
Proof. vm_compute. reflexivity. Qed.
Lemma w_sl_alive : alive (map (deriv slash) (active_res INITIAL)) = true.
Proof. vm_compute. reflexivity. Qed.
Lemma w_sl_acc : accepts (map (deriv slash) (active_res INITIAL)) widx = true.
Proof. vm_compute. reflexivity. Qed.
Lemma w_sl_ent : forallb (fun d => implb (word_byte d && negb (Byte.eqb d slash))
                                          (enters (map (deriv slash) (active_res INITIAL)) wstates widx d)) all_bytes = true.
Proof. vm_compute. reflexivity. Qed.
Lemma w_sl_die : forallb (fun d => implb (negb (word_byte d) && negb (Byte.eqb d star))
                                          (dies_on (map (deriv slash) (active_res INITIAL)) d)) all_bytes = true.
Proof. vm_compute. reflexivity. Qed.
Lemma w_do_alive : alive (map (deriv dollar) (active_res INITIAL)) = true.
Proof. vm_compute. reflexivity. Qed.
Lemma w_do_acc : accepts (map (deriv dollar) (active_res INITIAL)) widx = true.
Proof. vm_compute. reflexivity. Qed.
Lemma w_do_ent : forallb (fun d => implb (word_byte d) (enters (map (deriv dollar) (active_res INITIAL)) wstates widx d)) all_bytes = true.
Proof. vm_compute. reflexivity. Qed.
Lemma w_do_die : forallb (fun d => implb (negb (word_byte d) && negb (Byte.eqb d lbrace))
                                          (dies_on (map (deriv dollar) (active_res INITIAL)) d)) all_bytes = true.
Proof. vm_compute. reflexivity. Qed.
Lemma w_do_sil : silent_loop (map (deriv lbrace) (map (deriv dollar) (active_res INITIAL))) notrbrace = true.
Proof. vm_compute. reflexivity. Qed.

Lemma word_munch w rest : word_ok w = true -> word_end_ok w rest = true ->
  munch (active_res INITIAL) (w ++ rest) 0 None = Some (widx, length w).
Proof.
  exact (word_munch_core (active_res INITIAL) wstates widx w_loop w_ord w_sl_alive w_sl_acc w_sl_ent w_sl_die
           w_do_alive w_do_acc w_do_ent w_do_die w_do_sil w rest).
Qed.

Theorem word_token e w st p closed id rest others fuel :
  word_ok w = true -> word_end_ok w rest = true ->
  l_sc st = INITIAL -> l_bufs st = (id, w ++ rest) :: others -> (0 < fuel)%nat ->
  observe (yylex e fuel st p closed) =
  {| ob_tok := TStr; ob_val := Some (cstr w); ob_bufs := (id, rest) :: others;
     ob_sc := INITIAL; ob_line := p_line p; ob_file := p_file p; ob_diags := []; ob_echo := l_echo st;
     ob_inc := l_inc st; ob_closed := closed; ob_oof := false |}.
Proof.
  intros Hw He Hsc Hb Hf. destruct fuel as [|fuel]; [lia|].
  pose proof (word_munch w rest Hw He) as Hm.
  pose proof w_act as Ha. unfold act_is in Ha.
  destruct (nth_error (active_rules INITIAL) widx) as [r|] eqn:Hn; [|discriminate].
  apply action_eqb_eq in Ha.
  rewrite (yylex_step INITIAL e fuel st p closed id w rest others widx r Hsc Hb Hm Hn). rewrite Ha.
  cbn [run_action]. unfold observe; cbn. rewrite Hsc. reflexivity.
Qed.

(* the value is the word itself when it has no NUL byte *)
Definition nonul_b (w : str) : bool := forallb (fun c => negb (Byte.eqb c x00)) w.
Lemma nonul_b_cstr w : nonul_b w = true -> cstr w = w.
Proof.
  intros H. apply cstr_no_nul. unfold no_nul. apply Forall_forall. intros c Hc.
  unfold nonul_b in H. rewrite forallb_forall in H. specialize (H c Hc).
  apply negb_true_iff in H. apply byte_eqb_neq in H. exact H.
Qed.

Theorem word_token_verbatim e w st p closed id rest others fuel :
  word_ok w = true -> nonul_b w = true -> word_end_ok w rest = true ->
  l_sc st = INITIAL -> l_bufs st = (id, w ++ rest) :: others -> (0 < fuel)%nat ->
  observe (yylex e fuel st p closed) =
  {| ob_tok := TStr; ob_val := Some w; ob_bufs := (id, rest) :: others;
     ob_sc := INITIAL; ob_line := p_line p; ob_file := p_file p; ob_diags := []; ob_echo := l_echo st;
     ob_inc := l_inc st; ob_closed := closed; ob_oof := false |}.
Proof.
  intros Hw Hz He Hsc Hb Hf. rewrite <- (nonul_b_cstr w Hz) at 1.
  exact (word_token e w st p closed id rest others fuel Hw He Hsc Hb Hf).
Qed.

(* ================================================================== *)
(* 3. unquoted ${NAME} / ${NAME:-default} *)

Definition env_check (R : list re) (A : list rule) (a : action) : bool :=
  match munch_pre R [dollar; lbrace] 0 None with
  | Some (V1, _, _) =>
      silent_loop V1 notrbrace &&
      (negb (forallb is_emp (map (deriv rbrace) V1)) && dead (map (deriv rbrace) V1) &&
       match first_nullable (map (deriv rbrace) V1) 0 with
       | Some j => match nth_error A j with Some r => action_eqb (r_act r) a | None => false end
       | None => false end)
  | None => false
  end.

Lemma env_munch_act R A a : env_check R A a = true ->
  forall body rest, Forall (fun c => notrbrace c = true) body ->
  exists j r, munch R ((dollar :: lbrace :: body ++ [rbrace]) ++ rest) 0 None
              = Some (j, length (dollar :: lbrace :: body ++ [rbrace]))
              /\ nth_error A j = Some r /\ r_act r = a.
Proof.
  unfold env_check. intros H body rest Hb.
  destruct (munch_pre R [dollar; lbrace] 0 None) as [[[V1 n1] b1]|] eqn:Hp; [|discriminate].
  pose proof (munch_pre_len _ _ _ _ _ _ _ Hp) as Hn1. cbn in Hn1. subst n1.
  apply andb_prop in H as [Hl H]. apply andb_prop in H as [H H3]. apply andb_prop in H as [H1 H2].
  destruct (first_nullable (map (deriv rbrace) V1) 0) as [j|] eqn:Hfn; [|discriminate].
  destruct (nth_error A j) as [r|] eqn:Hr; [|discriminate].
  apply action_eqb_eq in H3. exists j, r. split; [|split; assumption].
  replace ((dollar :: lbrace :: body ++ [rbrace]) ++ rest) with ([dollar; lbrace] ++ (body ++ rbrace :: rest))
    by (cbn; rewrite <- app_assoc; reflexivity).
  rewrite (munch_pre_app _ _ _ _ _ _ _ _ Hp).
  rewrite (munch_silent_loop _ _ Hl) by exact Hb.
  apply negb_true_iff in H1. rewrite (munch_cons_alive _ _ _ _ _ H1), Hfn.
  rewrite munch_dead by exact H2.
  cbn [length]. rewrite app_length. cbn [length]. f_equal. f_equal. lia.
Qed.

Lemma env_initial_ok : env_check (active_res INITIAL) (active_rules INITIAL) A_env_initial = true.
Proof. vm_compute. reflexivity. Qed.

Theorem env_initial_token e body st p closed id rest others fuel :
  unit_wf (UEnv body) = true ->
  l_sc st = INITIAL -> l_bufs st = (id, render1 (UEnv body) ++ rest) :: others -> (0 < fuel)%nat ->
  observe (yylex e fuel st p closed) =
  {| ob_tok := TStr; ob_val := Some (env_subst e body); ob_bufs := (id, rest) :: others;
     ob_sc := INITIAL; ob_line := p_line p + newlines body; ob_file := p_file p; ob_diags := []; ob_echo := l_echo st;
     ob_inc := l_inc st; ob_closed := closed; ob_oof := false |}.
Proof.
  intros Hwf Hsc Hb Hf. destruct fuel as [|fuel]; [lia|]. cbn [render1] in Hb. cbn [unit_wf] in Hwf.
  assert (Hnr : Forall (fun c => notrbrace c = true) body).
  { rewrite Forall_forall. intros c Hc. rewrite forallb_forall in Hwf. specialize (Hwf c Hc).
    apply andb_prop in Hwf as [H _]. exact H. }
  assert (Hnz : Forall (fun c => c <> x00) body).
  { rewrite Forall_forall. intros c Hc. rewrite forallb_forall in Hwf. specialize (Hwf c Hc).
    apply andb_prop in Hwf as [_ H]. apply negb_true_iff in H. apply byte_eqb_neq in H. exact H. }
  destruct (env_munch_act _ _ _ env_initial_ok body rest Hnr) as (j & r & Hm & Hn & Ha).
  rewrite (yylex_step INITIAL e fuel st p closed id _ _ others j r Hsc Hb Hm Hn). rewrite Ha.
  cbn [run_action]. rewrite (env_lookup_spec e body Hnz). rewrite (count_nl_env body).
  unfold env_subst. rewrite (cstr_no_nul body Hnz). unfold observe, add_lines, newlines.
  destruct (find_colon_dash body []) as [name dflt].
  destruct (getenv e name) as [v|]; [|destruct dflt as [d|]]; cbn; rewrite Hsc; reflexivity.
Qed.

(* ================================================================== *)
(* 4. multi-line literals: the line counter advances by the newline bytes between the quotes *)

Lemma count_nl_app a b : count_nl (a ++ b) = (count_nl a + count_nl b)%N.
Proof. unfold count_nl. rewrite filter_app, app_length. lia. Qed.

Lemma count_nl_cons c s : count_nl (c :: s) = ((if Byte.eqb c nl then 1 else 0) + count_nl s)%N.
Proof. unfold count_nl. cbn [filter]. change x0a with nl. destruct (Byte.eqb c nl); cbn [length]; lia. Qed.

Lemma letter_not_nl : forallb (fun c => implb (is_letter c) (negb (Byte.eqb c nl))) all_bytes = true.
Proof. vm_compute. reflexivity. Qed.
Lemma hex_not_nl : forallb (fun c => implb (is_hex c) (negb (Byte.eqb c nl))) all_bytes = true.
Proof. vm_compute. reflexivity. Qed.
Lemma octal_not_nl : forallb (fun c => implb (is_octal c) (negb (Byte.eqb c nl))) all_bytes = true.
Proof. vm_compute. reflexivity. Qed.

Lemma count_nl_none (P : byte -> bool) s :
  forallb (fun c => implb (P c) (negb (Byte.eqb c nl))) all_bytes = true -> forallb P s = true -> count_nl s = 0%N.
Proof.
  intros HP. induction s as [|c s IH]; intros H; [reflexivity|].
  cbn [forallb] in H. apply andb_prop in H as [Hc H]. rewrite count_nl_cons, (IH H).
  pose proof (sweep_impl _ _ HP c Hc) as Hn. apply negb_true_iff in Hn. rewrite Hn. reflexivity.
Qed.

Lemma unit_lines_count u : unit_wf u = true -> unit_lines u = count_nl (render1 u).
Proof.
  intros Hwf. destruct u as [c|c|c|ds|hs| |body]; cbn [unit_lines render1].
  - rewrite count_nl_cons. change (count_nl []) with 0%N. rewrite N.add_0_r. reflexivity.
  - cbn [unit_wf] in Hwf. pose proof (sweep_impl _ _ letter_not_nl c Hwf) as Hn. apply negb_true_iff in Hn.
    rewrite !count_nl_cons, Hn. reflexivity.
  - cbn [unit_wf] in Hwf. apply andb_prop in Hwf as [_ Hn]. apply negb_true_iff in Hn.
    rewrite !count_nl_cons, Hn. reflexivity.
  - cbn [unit_wf] in Hwf. apply andb_prop in Hwf as [Hwf _]. apply andb_prop in Hwf as [_ Ho].
    rewrite count_nl_cons, (count_nl_none is_octal ds octal_not_nl Ho). reflexivity.
  - cbn [unit_wf] in Hwf. apply andb_prop in Hwf as [_ Ho].
    rewrite !count_nl_cons, (count_nl_none is_hex hs hex_not_nl Ho). reflexivity.
  - reflexivity.
  - symmetry. apply count_nl_env.
Qed.

Lemma lines_of_count us last : units_wf us last = true -> lines_of us = count_nl (render us).
Proof.
  unfold render. induction us as [|u us IH]; intros H; [reflexivity|].
  cbn [units_wf] in H. apply andb_prop in H as [H Hr]. apply andb_prop in H as [Hu _].
  cbn [lines_of fold_right flat_map]. fold (lines_of us). rewrite count_nl_app, (IH Hr), (unit_lines_count u Hu). reflexivity.
Qed.

Lemma sunit_lines_count u : sunit_wf u = true -> sunit_lines u = count_nl (srender1 u).
Proof.
  intros Hwf. destruct u as [c|c|c|]; cbn [sunit_lines srender1].
  - rewrite count_nl_cons. change (count_nl []) with 0%N. rewrite N.add_0_r. reflexivity.
  - cbn [sunit_wf] in Hwf. rewrite !count_nl_cons.
    assert (Hn : Byte.eqb c nl = false).
    { destruct (Byte.eqb c nl) eqn:E; [|reflexivity]. apply byte_eqb_eq in E. subst c. discriminate. }
    rewrite Hn. reflexivity.
  - cbn [sunit_wf] in Hwf. apply andb_prop in Hwf as [_ Hn]. apply negb_true_iff in Hn.
    rewrite !count_nl_cons, Hn. reflexivity.
  - reflexivity.
Qed.

Lemma slines_of_count us : forallb sunit_wf us = true -> slines_of us = count_nl (srender us).
Proof.
  unfold srender. induction us as [|u us IH]; intros H; [reflexivity|].
  cbn [forallb] in H. apply andb_prop in H as [Hu Hr].
  cbn [slines_of fold_right flat_map]. fold (slines_of us). rewrite count_nl_app, (IH Hr), (sunit_lines_count u Hu). reflexivity.
Qed.

Theorem dq_multiline_lines e us st p closed id rest others fuel :
  units_wf us dq = true -> l_sc st = INITIAL -> l_bufs st = (id, dq :: render us ++ dq :: rest) :: others ->
  (S (length us) < fuel)%nat ->
  ob_line (observe (yylex e fuel st p closed)) = (p_line p + count_nl (render us))%N.
Proof.
  intros Hwf Hsc Hb Hf. rewrite (dq_string_token e us st p closed id rest others fuel Hwf Hsc Hb Hf).
  cbn [ob_line]. rewrite (lines_of_count us dq Hwf). reflexivity.
Qed.

Theorem sq_multiline_lines e us st p closed id rest others fuel :
  forallb sunit_wf us = true -> l_sc st = INITIAL -> l_bufs st = (id, sq :: srender us ++ sq :: rest) :: others ->
  (S (length us) < fuel)%nat ->
  ob_line (observe (yylex e fuel st p closed)) = (p_line p + count_nl (srender us))%N.
Proof.
  intros Hwf Hsc Hb Hf. rewrite (sq_string_token_exact e us st p closed id rest others fuel Hwf Hsc Hb Hf).
  cbn [ob_line]. rewrite (slines_of_count us Hwf). reflexivity.
Qed.
