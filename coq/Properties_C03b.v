(* Properties_C03b.v — C03, the parts other than double-quoted strings: single-quoted strings,
   unquoted words, unquoted ${NAME} / ${NAME:-default}, and the line counter of multi-line literals.
   Only statements here; proofs are in SqProofs.v (over the rule table regenerated from lexer.l).
   The double-quoted part is C03_dq_decodes in Properties_C03.v. *)
From Coq Require Import List Arith NArith Bool.
From Coq Require String.
Import String.StringSyntax.
Local Open Scope string_scope.
Local Open Scope list_scope.
From Coq.Strings Require Import Byte.
From LC Require Import Bytes Flex LexAct LexRules Consts Lexer LexSpec LexLemmas DqProofs SqProofs.
Import ListNotations.

(* ------------------------------------------------------------------ *)
(* 1. Single-quoted strings.
   The body is a list of units (LexSpec.sunit): SChar c — any byte except backslash and quote,
   a newline included; SEsc c — \' or \\ , meaning c; SKeep c — \c for any other c but newline,
   meaning the two bytes \ c; SCont — backslash-newline, meaning nothing.
   `sunits_wf` is `sunit_wf` of every unit plus: no NUL byte written raw (SChar x00).
   For every environment, every such list of any length, whatever follows the closing quote:
   cfg_yylex returns ONE CFGT_STR token whose value is the denotation, consumes exactly the literal,
   advances the line counter by the raw newlines and continuations, reports nothing, echoes nothing,
   ends in INITIAL.  The value does not depend on the environment: nothing is substituted. *)
Theorem C03_sq_decodes :
  forall e us st p closed id rest others fuel,
  sunits_wf us = true -> l_sc st = INITIAL -> l_bufs st = (id, sq :: srender us ++ sq :: rest) :: others ->
  (S (length us) < fuel)%nat ->
  observe (yylex e fuel st p closed) =
  {| ob_tok := TStr; ob_val := Some (cstr (sdenote us)); ob_bufs := (id, rest) :: others;
     ob_sc := INITIAL; ob_line := p_line p + slines_of us; ob_file := p_file p; ob_diags := []; ob_echo := l_echo st;
     ob_inc := l_inc st; ob_closed := closed; ob_oof := false |}.
Proof. exact sq_string_token. Qed.
Print Assumptions C03_sq_decodes.

(* The exact statement, raw NUL bytes included.  The action of <sq_str>[^\\'\n]+ copies its text
   only up to the first NUL, so a raw NUL drops the rest of ITS RUN of ordinary bytes, not the rest
   of the string: `sden_c false us` is the denotation with exactly that effect. *)
Theorem C03_sq_decodes_exact :
  forall e us st p closed id rest others fuel,
  forallb sunit_wf us = true -> l_sc st = INITIAL -> l_bufs st = (id, sq :: srender us ++ sq :: rest) :: others ->
  (S (length us) < fuel)%nat ->
  observe (yylex e fuel st p closed) =
  {| ob_tok := TStr; ob_val := Some (cstr (sden_c false us)); ob_bufs := (id, rest) :: others;
     ob_sc := INITIAL; ob_line := p_line p + slines_of us; ob_file := p_file p; ob_diags := []; ob_echo := l_echo st;
     ob_inc := l_inc st; ob_closed := closed; ob_oof := false |}.
Proof. exact sq_string_token_exact. Qed.
Print Assumptions C03_sq_decodes_exact.

Definition p1 : pos := {| p_file := None; p_line := 1%N |}.
Definition env1 : envt := [(M "HOME", M "/root")].

(* non-vacuity, every unit kind; and ${HOME} between single quotes is NOT substituted even though HOME is set *)
Example C03_sq_example :
  let us := map SChar (M "${HOME}") ++ [SEsc sq; SEsc bs; SKeep x6e; SCont; SChar nl; SChar x7a] in
  sunits_wf us = true /\
  srender us = M "${HOME}\'\\\n\" ++ [nl; nl] ++ M "z" /\
  sdenote us = M "${HOME}'\\n" ++ [nl] ++ M "z" /\
  slines_of us = 2%N /\
  observe (yylex env1 100 (scan_begin lex_init (sq :: srender us ++ sq :: M " x")) p1 0) =
  {| ob_tok := TStr; ob_val := Some (M "${HOME}'\\n" ++ [nl] ++ M "z"); ob_bufs := [(0%nat, M " x")];
     ob_sc := INITIAL; ob_line := 3%N; ob_file := None; ob_diags := []; ob_echo := [];
     ob_inc := []; ob_closed := 0%nat; ob_oof := false |}.
Proof. vm_compute. repeat split; reflexivity. Qed.

(* without the no-raw-NUL hypothesis the clean statement is false: 'a<NUL>b\'c' is the string a'c, not a *)
Theorem C03_sq_nul_refuted :
  exists us, forallb sunit_wf us = true /\
  ob_val (observe (yylex [] 100 (scan_begin lex_init (sq :: srender us ++ [sq])) p1 0)) = Some (M "a'c") /\
  cstr (sdenote us) = M "a" /\ cstr (sden_c false us) = M "a'c".
Proof. exists [SChar x61; SChar x00; SChar x62; SEsc sq; SChar x63]. vm_compute. repeat split; reflexivity. Qed.

(* the lone-backslash rule <sq_str>\\ can fire only on the last byte of the input, so never inside a
   terminated literal; there the string is unterminated *)
Example C03_sq_lone_backslash :
  let r := yylex [] 100 (scan_begin lex_init (M "'ab\")) p1 0 in
  r_tok r = TErr /\ map d_fmt (r_diags r) = [M "unterminated string constant"].
Proof. vm_compute. split; reflexivity. Qed.

(* ------------------------------------------------------------------ *)
(* 2. Unquoted words.
   word_byte: every byte except TAB LF CR space, both quote characters, # ( ) * + , = { }
   (a slash IS a word byte, anywhere: the second alternative of the rule allows it).
   word_ok w: w is not empty, all its bytes are word bytes, and it does not begin with two slashes
   (that is a one-line comment).
   word_end_ok w rest: rest is empty or begins with a non-word byte, except for the two longer
   matches that begin with a word byte: w is a single slash followed by a star (a comment opens), and
   w is a single dollar followed by {...} with a closing brace somewhere in rest (a substitution).
   Then cfg_yylex returns ONE CFGT_STR token whose value is w (as a C string), consumes exactly w,
   leaves the line counter alone, reports and echoes nothing. *)
Theorem C03_word_verbatim :
  forall e w st p closed id rest others fuel,
  word_ok w = true -> word_end_ok w rest = true ->
  l_sc st = INITIAL -> l_bufs st = (id, w ++ rest) :: others -> (0 < fuel)%nat ->
  observe (yylex e fuel st p closed) =
  {| ob_tok := TStr; ob_val := Some (cstr w); ob_bufs := (id, rest) :: others;
     ob_sc := INITIAL; ob_line := p_line p; ob_file := p_file p; ob_diags := []; ob_echo := l_echo st;
     ob_inc := l_inc st; ob_closed := closed; ob_oof := false |}.
Proof. exact word_token. Qed.
Print Assumptions C03_word_verbatim.

(* ... and the value is exactly w when w has no NUL byte *)
Theorem C03_word_verbatim_nonul :
  forall e w st p closed id rest others fuel,
  word_ok w = true -> nonul_b w = true -> word_end_ok w rest = true ->
  l_sc st = INITIAL -> l_bufs st = (id, w ++ rest) :: others -> (0 < fuel)%nat ->
  observe (yylex e fuel st p closed) =
  {| ob_tok := TStr; ob_val := Some w; ob_bufs := (id, rest) :: others;
     ob_sc := INITIAL; ob_line := p_line p; ob_file := p_file p; ob_diags := []; ob_echo := l_echo st;
     ob_inc := l_inc st; ob_closed := closed; ob_oof := false |}.
Proof. exact word_token_verbatim. Qed.
Print Assumptions C03_word_verbatim_nonul.

(* realistic words meet the hypotheses, before a space, a newline, '=', '}' or the end of the input *)
Example C03_word_example :
  forallb (fun w => word_ok w && nonul_b w &&
                    forallb (word_end_ok w) [M " x"; [nl]; M "= 1"; M "}"; []])
          [M "abc"; M "192.168.0.1"; M "a/b"; M "x-y_z"; M "/usr/local/bin"; M "a//b"; M "$HOME"; M "/"; M "$"; M "a$"]
  = true.
Proof. vm_compute. reflexivity. Qed.

(* words that are NOT read verbatim as a whole, and what happens instead *)
(* (a) a word containing ${ : the word stops after the dollar (this IS an instance of the theorem,
       with w = abc$ and rest = {HOME}...), and nothing is substituted *)
Example C03_word_dollar_brace :
  word_ok (M "abc$") = true /\ word_end_ok (M "abc$") (M "{HOME} x") = true /\
  observe (yylex env1 100 (scan_begin lex_init (M "abc${HOME} x")) p1 0) =
  {| ob_tok := TStr; ob_val := Some (M "abc$"); ob_bufs := [(0%nat, M "{HOME} x")];
     ob_sc := INITIAL; ob_line := 1%N; ob_file := None; ob_diags := []; ob_echo := [];
     ob_inc := []; ob_closed := 0%nat; ob_oof := false |}.
Proof. vm_compute. repeat split; reflexivity. Qed.
(* (b) two slashes at the start: a comment; (c) a slash then a star: a comment; (d) ${...} at the start:
       the substitution of part 3; each is excluded by the hypotheses *)
Example C03_word_excluded :
  word_ok (M "//abc") = false /\
  r_tok (yylex [] 100 (scan_begin lex_init (M "//abc")) p1 0) = TComment /\
  word_end_ok (M "/") (M "* c */") = false /\
  r_tok (yylex [] 100 (scan_begin lex_init (M "/* c */")) p1 0) = TComment /\
  word_end_ok (M "$") (M "{HOME}") = false /\
  r_val (yylex env1 100 (scan_begin lex_init (M "${HOME}")) p1 0) = Some (M "/root") /\
  (* no closing brace: the dollar is a word of its own *)
  word_end_ok (M "$") (M "{HOME") = true.
Proof. vm_compute. repeat split; reflexivity. Qed.

(* ------------------------------------------------------------------ *)
(* 3. Unquoted ${NAME} / ${NAME:-default}.
   body: any bytes without a closing brace and without NUL (the same unit_wf (UEnv body) as inside
   double quotes).  cfg_yylex returns ONE CFGT_STR token whose value is env_subst e body — the very
   function that `denote` uses for UEnv: the value of NAME if set, else the default, else empty —
   consumes exactly ${body}, and advances the line counter by the newlines in body. *)
Theorem C03_env_unquoted :
  forall e body st p closed id rest others fuel,
  unit_wf (UEnv body) = true ->
  l_sc st = INITIAL -> l_bufs st = (id, render1 (UEnv body) ++ rest) :: others -> (0 < fuel)%nat ->
  observe (yylex e fuel st p closed) =
  {| ob_tok := TStr; ob_val := Some (env_subst e body); ob_bufs := (id, rest) :: others;
     ob_sc := INITIAL; ob_line := p_line p + newlines body; ob_file := p_file p; ob_diags := []; ob_echo := l_echo st;
     ob_inc := l_inc st; ob_closed := closed; ob_oof := false |}.
Proof. exact env_initial_token. Qed.
Print Assumptions C03_env_unquoted.

Example C03_env_example :
  unit_wf (UEnv (M "HOME")) = true /\ unit_wf (UEnv (M "NOPE:-a b" ++ [nl] ++ M "c")) = true /\
  render1 (UEnv (M "HOME")) = M "${HOME}" /\
  env_subst env1 (M "HOME") = M "/root" /\
  env_subst env1 (M "HOME:-dflt") = M "/root" /\
  env_subst env1 (M "NOPE:-dflt") = M "dflt" /\
  env_subst env1 (M "NOPE") = [] /\
  newlines (M "NOPE:-a b" ++ [nl] ++ M "c") = 1%N.
Proof. vm_compute. repeat split; reflexivity. Qed.

(* ------------------------------------------------------------------ *)
(* 4. Multi-line strings: for both quote kinds the line counter advances by exactly the number of
   newline bytes between the quotes (raw newlines, continuations, newlines inside ${...}); that the
   raw newlines are kept in the value is part of `denote` / `sdenote` (UChar nl / SChar nl). *)
Theorem C03_multiline_lines_dq :
  forall e us st p closed id rest others fuel,
  units_wf us dq = true -> l_sc st = INITIAL -> l_bufs st = (id, dq :: render us ++ dq :: rest) :: others ->
  (S (length us) < fuel)%nat ->
  ob_line (observe (yylex e fuel st p closed)) = (p_line p + count_nl (render us))%N.
Proof. exact dq_multiline_lines. Qed.
Print Assumptions C03_multiline_lines_dq.

Theorem C03_multiline_lines_sq :
  forall e us st p closed id rest others fuel,
  forallb sunit_wf us = true -> l_sc st = INITIAL -> l_bufs st = (id, sq :: srender us ++ sq :: rest) :: others ->
  (S (length us) < fuel)%nat ->
  ob_line (observe (yylex e fuel st p closed)) = (p_line p + count_nl (srender us))%N.
Proof. exact sq_multiline_lines. Qed.
Print Assumptions C03_multiline_lines_sq.

Example C03_multiline_example :
  let us := [UChar x61; UChar nl; UChar x62; UCont; UChar nl] in
  units_wf us dq = true /\ denote [] us = [x61; nl; x62; nl] /\ count_nl (render us) = 3%N.
Proof. vm_compute. repeat split; reflexivity. Qed.
