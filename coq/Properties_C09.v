(* placeholder until ApiProofs lands *)
Example C09_placeholder : True. Proof. exact I. Qed.
