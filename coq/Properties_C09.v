(* Properties_C09.v — C09: the setter / list / section API behaves as a simple typed store.
   Only statements here; proofs are in ApiProofs.v (and HdrProofs.v for the fact that
   cfg_init_defaults / cfg_parse_internal never touch the title or flags of their context).

   MODEL  Api.opt_setn (cfg_opt_setnint/float/bool/str), addlist_internal, cfg_setlist, cfg_addlist,
          opt_rmnsec, cfg_addtsec; Parser.setopt; Store.opt_getval / addval / free_value
   VOCABULARY (ApiProofs.v)
     frame o o'      name, kind, sub-options, defaults, callbacks equal; flag words equal outside
                     RESET|MODIFIED; an absent annotation stays absent
     trunc v         VInt z => VInt (to_sint32 z), identity otherwise   (va_arg(ap, int))
     val_kind v      the kind a value constructor belongs to
     scalar_kind k   k is KInt, KFloat, KBool or KStr
     typed o         every value of o has the constructor of o_kind o
     scalar_ok o     no LIST, no MULTI -> at most one value
     titles o        the titles of the instances, in order
     title_unique nc o   no two instances have titles equal under the comparison cfg_opt_gettsecidx uses,
                         name_eqb (oflag o CFGF_NOCASE || nc); nc = the NOCASE flag of the instances
     all_titled nc o     every value is an instance with Some title and NOCASE flag nc *)
From Coq Require String.
Import String.StringSyntax.
From Coq Require Import List Arith NArith ZArith Bool.
From Coq.Strings Require Import Byte.
From LC Require Import Bytes Consts Conv Lexer Files Store Parser Api ApiProofs.
Import ListNotations.
Local Open Scope string_scope.
Local Open Scope list_scope.

(* (e) cfg_addlist_internal after RESET was cleared (what cfg_addlist does): the new elements go
   behind the values already there — the declared defaults are kept even when RESET was set *)
Theorem C09_addlist_appends :
  forall (w : pw) (o : opt) (vs : list value),
  oflag o CFGF_LIST = true -> scalar_kind (o_kind o) ->
  Forall (fun v => val_kind v = o_kind o) vs ->
  let o' := snd (addlist_internal w (o_clrf o CFGF_RESET) vs) in
  o_vals o' = o_vals o ++ map trunc vs /\ frame o o' /\ o_comment o' = o_comment o /\
  oflag o' CFGF_RESET = false.
Proof. exact addlist_appends. Qed.
Print Assumptions C09_addlist_appends.

(* ... at the level of the tree *)
Theorem C09_cfg_addlist_appends :
  forall (w : pw) (c : cfg) (name : str) (r : optref) (o : opt) (vs : list value),
  fst (cfg_getopt c name) = Some r -> get_opt c r = Some o ->
  oflag o CFGF_LIST = true -> scalar_kind (o_kind o) ->
  Forall (fun v => val_kind v = o_kind o) vs ->
  exists w' o', cfg_addlist w c name vs = (w', put_opt c r o', OK) /\
    o_vals o' = o_vals o ++ map trunc vs /\ frame o o' /\ o_comment o' = o_comment o /\
    oflag o' CFGF_RESET = false.
Proof. exact cfg_addlist_appends. Qed.
Print Assumptions C09_cfg_addlist_appends.

(* cfg_setlist replaces: the values are exactly the new list (the annotation is dropped unless the
   option was pristine, as cfg_free_value does) *)
Theorem C09_setlist_replaces :
  forall (w : pw) (c : cfg) (name : str) (r : optref) (o : opt) (vs : list value),
  fst (cfg_getopt c name) = Some r -> get_opt c r = Some o ->
  oflag o CFGF_LIST = true -> scalar_kind (o_kind o) ->
  Forall (fun v => val_kind v = o_kind o) vs ->
  exists w' o', cfg_setlist w c name vs = (w', put_opt c r o', OK) /\
    o_vals o' = map trunc vs /\ frame o o' /\ (o_comment o' = None \/ o_comment o' = o_comment o).
Proof. exact cfg_setlist_replaces. Qed.
Print Assumptions C09_setlist_replaces.

(* (f) a successful cfg_opt_setn*: the whole list if RESET was set, else one slot replaced, else exactly
   one slot appended (no gap filling); RESET clear, MODIFIED set, every other flag and field as before *)
Theorem C09_setn_algebra :
  forall (w : pw) (o : opt) (k : kind) (v : value) (index : N) (w' : pw) (o' : opt),
  opt_setn w o k v index = (w', o', OK) ->
  o_vals o' = (if oflag o CFGF_RESET then [v]
               else if (index <? N.of_nat (length (o_vals o)))%N
                    then upd_nth (o_vals o) (N.to_nat index) (fun _ => v)
                    else o_vals o ++ [v]) /\
  oflag o' CFGF_RESET = false /\ oflag o' CFGF_MODIFIED = true /\
  o_name o' = o_name o /\ o_kind o' = o_kind o /\ o_sub o' = o_sub o /\ o_def o' = o_def o /\
  o_cbs o' = o_cbs o /\ o_comment o' = o_comment o /\
  (forall m, N.land m (N.lor CFGF_RESET CFGF_MODIFIED) = 0%N -> oflag o' m = oflag o m).
Proof. exact setn_algebra. Qed.
Print Assumptions C09_setn_algebra.

(* ... and it succeeds exactly when the kind matches and the index is legal *)
Theorem C09_setn_succeeds_iff :
  forall (w : pw) (o : opt) (k : kind) (v : value) (index : N),
  (exists w' o', opt_setn w o k v index = (w', o', OK)) <->
  (o_kind o = k /\ (index = 0%N \/ oflag o CFGF_LIST = true \/ oflag o CFGF_MULTI = true)).
Proof. exact setn_succeeds_iff. Qed.
Print Assumptions C09_setn_succeeds_iff.

(* (g) removing instance i closes the gap and keeps the order of the others *)
Theorem C09_rmnsec_keeps_order :
  forall (w : pw) (o : opt) (index : N) (w' : pw) (o' : opt),
  opt_rmnsec w o index = (w', o', OK) ->
  let i := N.to_nat index in
  i < length (o_vals o) /\
  o_vals o' = firstn i (o_vals o) ++ skipn (S i) (o_vals o) /\
  length (o_vals o') = pred (length (o_vals o)) /\
  (forall j, j < i -> nth_error (o_vals o') j = nth_error (o_vals o) j) /\
  (forall j, i <= j -> nth_error (o_vals o') j = nth_error (o_vals o) (S j)) /\
  o_name o' = o_name o /\ o_kind o' = o_kind o /\ o_flags o' = o_flags o /\ o_sub o' = o_sub o /\
  o_def o' = o_def o /\ o_cbs o' = o_cbs o /\ o_comment o' = o_comment o.
Proof. exact rmnsec_keeps_order. Qed.
Print Assumptions C09_rmnsec_keeps_order.

(* (h) cfg_addtsec on a titled multi section that is not pristine, all of whose instances carry a title
   and the NOCASE flag nc of the calling context: when it returns a section, exactly one instance was
   appended at the end, it carries the requested title, the earlier instances are unchanged, and
   titles stay unique (the invariant all_titled /\ title_unique is re-established, so this iterates).
   Full statement, no _partial. *)
Theorem C09_addtsec_unique_titles :
  forall (strtod_o : str -> strtod_res) (fuel : nat) (w : pw) (c : cfg) (name : str) (title : option str)
         (r : optref) (o : opt) (nc : bool),
  fst (cfg_getopt c name) = Some r -> get_opt c r = Some o ->
  o_kind o = KSec -> oflag o CFGF_TITLE = true -> oflag o CFGF_MULTI = true ->
  oflag o CFGF_RESET = false ->
  all_titled nc o -> cflag c CFGF_NOCASE = nc ->
  forall (w' : pw) (c' : cfg),
  cfg_addtsec strtod_o fuel w c name title = (w', c', true) ->
  exists o' s,
    c' = put_opt c r o' /\
    o_vals o' = o_vals o ++ [VSec (Some s)] /\
    c_title s = title /\
    frame o o' /\
    (title <> None -> all_titled nc o') /\
    (title_unique nc o -> title_unique nc o').
Proof. exact addtsec_appends. Qed.
Print Assumptions C09_addtsec_unique_titles.

(* (i) values keep the constructor of the option's kind; plain options keep at most one value *)
Theorem C09_typed :
  (forall w o k v index, val_kind v = k -> typed o -> typed (snd (fst (opt_setn w o k v index)))) /\
  (forall w o vs, typed o -> typed (snd (addlist_internal w o vs))) /\
  (forall w o index, typed o -> typed (snd (fst (opt_rmnsec w o index)))) /\
  (forall w o k v index, scalar_ok o -> scalar_ok (snd (fst (opt_setn w o k v index)))).
Proof. exact typed_preserved. Qed.
Print Assumptions C09_typed.

(* ---------- a concrete tree ---------- *)
Module Ex.
Definition B := bs_of_string.
Definition sd := ex_sd.
Definition w0 := ex_w0.
Definition oi := Opt (B "i") KInt 0 [VInt 7] [] defv0 None cbset0.
(* a pristine list: two declared defaults, LIST|RESET *)
Definition ol := Opt (B "l") KInt 66 [VInt 1; VInt 2] [] defv0 (Some (B "note")) cbset0.
Definition os := Opt (B "s") KStr 0 [VStr (Some (B "hi"))] [] defv0 None cbset0.
Definition sec (fl : N) (t : String.string) (a : Z) : cfg :=
  Cfg (B "t") (Some (B t)) fl [Opt (B "a") KInt 0 [VInt a] [] defv0 None cbset0] None 0 true None.
Definition suba := Opt (B "a") KInt 0 [] [] defv0 None cbset0.
Definition ot := Opt (B "t") KSec 9 [VSec (Some (sec 0 "one" 5)); VSec (Some (sec 0 "two" 6)); VSec (Some (sec 0 "three" 7))]
                     [suba] defv0 None cbset0.
Definition c1 := Cfg (B "root") None 0 [oi; ol; os; ot] None 0 true None.
Definition vals_of (c : cfg) (i : nat) : list value := match nth_error (c_opts c) i with Some o => o_vals o | None => [] end.
Definition flags_of (c : cfg) (i : nat) : N := match nth_error (c_opts c) i with Some o => o_flags o | None => 0%N end.
Definition titles_of (c : cfg) (i : nat) := match nth_error (c_opts c) i with Some o => titles o | None => [] end.

Example C09_ex_hyps :
  fst (cfg_getopt c1 (B "l")) = Some ([], 1) /\ get_opt c1 ([], 1) = Some ol /\ oflag ol CFGF_LIST = true /\
  oflag ol CFGF_RESET = true /\
  fst (cfg_getopt c1 (B "t")) = Some ([], 3) /\ get_opt c1 ([], 3) = Some ot /\
  oflag ot CFGF_TITLE = true /\ oflag ot CFGF_MULTI = true /\ oflag ot CFGF_RESET = false /\ cflag c1 CFGF_NOCASE = false.
Proof. vm_compute. repeat split; reflexivity. Qed.

(* (e) the defaults 1, 2 are kept although RESET was set; the int is cut to 32 bits *)
Example C09_ex_addlist :
  let r := cfg_addlist w0 c1 (B "l") [VInt 3; VInt 4294967301] in
  snd r = OK /\ vals_of (snd (fst r)) 1 = [VInt 1; VInt 2; VInt 3; VInt 5].
Proof. vm_compute. split; reflexivity. Qed.

Example C09_ex_setlist :
  let r := cfg_setlist w0 c1 (B "l") [VInt 3; VInt 4] in
  snd r = OK /\ vals_of (snd (fst r)) 1 = [VInt 3; VInt 4].
Proof. vm_compute. split; reflexivity. Qed.

(* (f) pristine: the whole list is replaced; otherwise slot replaced / exactly one slot appended *)
Example C09_ex_setn :
  let r1 := cfg_setnint w0 c1 (B "l") 9 1 in
  vals_of (snd (fst r1)) 1 = [VInt 9] /\ flags_of (snd (fst r1)) 1 = 4098%N /\
  let c2 := snd (fst (cfg_addlist w0 c1 (B "l") [VInt 3])) in
  vals_of c2 1 = [VInt 1; VInt 2; VInt 3] /\
  vals_of (snd (fst (cfg_setnint w0 c2 (B "l") 9 1))) 1 = [VInt 1; VInt 9; VInt 3] /\
  vals_of (snd (fst (cfg_setnint w0 c2 (B "l") 9 7))) 1 = [VInt 1; VInt 2; VInt 3; VInt 9].
Proof. vm_compute. repeat split; reflexivity. Qed.

(* (g) *)
Example C09_ex_rmnsec :
  let r := cfg_rmnsec w0 c1 (B "t") 1 in
  snd r = OK /\ titles_of (snd (fst r)) 3 = [Some (B "one"); Some (B "three")].
Proof. vm_compute. split; reflexivity. Qed.

(* (h) *)
Example C09_ex_addtsec :
  let r := cfg_addtsec sd 10 w0 c1 (B "t") (Some (B "four")) in
  snd r = true /\
  titles_of (snd (fst r)) 3 = [Some (B "one"); Some (B "two"); Some (B "three"); Some (B "four")] /\
  firstn 3 (vals_of (snd (fst r)) 3) = o_vals ot.
Proof. vm_compute. repeat split; reflexivity. Qed.

(* the side conditions of (h) are needed.
   RESET: on a pristine section option cfg_setopt first drops every instance *)
Definition ot_reset := Opt (B "t") KSec 73 (o_vals ot) [suba] defv0 None cbset0.
Definition c1_reset := Cfg (B "root") None 0 [oi; ol; os; ot_reset] None 0 true None.
Example C09_ex_addtsec_reset_needed :
  let r := cfg_addtsec sd 10 w0 c1_reset (B "t") (Some (B "four")) in
  snd r = true /\ titles_of (snd (fst r)) 3 = [Some (B "four")].
Proof. vm_compute. split; reflexivity. Qed.

(* NOCASE of the context = NOCASE of the instances: cfg_gettsec compares with the instance's flag,
   cfg_setopt with the calling context's; when they differ an existing instance is replaced in place *)
Definition c1_nocase := Cfg (B "root") None 4 [oi; ol; os; ot] None 0 true None.
Example C09_ex_addtsec_nocase_needed :
  let r := cfg_addtsec sd 10 w0 c1_nocase (B "t") (Some (B "TWO")) in
  snd r = true /\ titles_of (snd (fst r)) 3 = [Some (B "one"); Some (B "TWO"); Some (B "three")].
Proof. vm_compute. split; reflexivity. Qed.

(* (i) *)
Example C09_ex_typed_hyp : typed ol /\ typed ot /\ scalar_ok oi.
Proof.
  unfold typed, scalar_ok. vm_compute.
  repeat split; repeat constructor.
Qed.
End Ex.
