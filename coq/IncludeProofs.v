(* IncludeProofs.v — C13, second half: including a file equals reading its text in place.
   Part A (scanner): the tokens of a pushed include buffer are the tokens of the file alone, then the include
   frame is popped and scanning continues in the includer exactly as if the include call had been skipped.
   Part B: the position the parser carries after the pop.
   Part D: failing includes. *)
From Coq Require String.
Import String.StringSyntax.
From Coq Require Import List Arith NArith ZArith Bool Lia.
From Coq.Strings Require Import Byte.
From LC Require Import Bytes Consts Conv Flex LexAct LexRules Lexer LexLemmas LexAll LineProofs Files Store Parser
  Grammar HdrProofs ApiProofs BalanceProofs PP_Step PP_Tok PP_LexYields PP_LexFrame.
Import ListNotations.
Local Open Scope string_scope.
Local Open Scope list_scope.

(* ================================================================== *)
(* A.0  the include stack is invisible while the current buffer lasts  *)
(* ================================================================== *)

Definition out_map (g : lexst -> lexst) (o : outcome) : outcome :=
  match o with Continue s p => Continue (g s) p | Return t v s p d => Return t v (g s) p d end.

Definition step_map (g : lexst -> lexst) (r : lstep) : lstep :=
  match r with LCont s p k => LCont (g s) p k | LRet t v s p d k => LRet t v (g s) p d k end.

Definition res_map (g : lexst -> lexst) (r : lexres) : lexres :=
  {| r_tok := r_tok r; r_val := r_val r; r_st := g (r_st r); r_pos := r_pos r; r_diags := r_diags r;
     r_closed := r_closed r; r_fuel_out := r_fuel_out r |}.

Lemma run_action_set_inc e a y s i p :
  run_action e a y (set_inc s i) p = out_map (fun x => set_inc x i) (run_action e a y s p).
Proof.
  destruct a; cbn [run_action]; rewrite ?qend_trim_eq;
    repeat match goal with
    | |- context [match env_lookup e y with _ => _ end] => destruct (env_lookup e y)
    | |- context [if (?a <? ?b)%N then _ else _] => destruct (a <? b)%N
    end; reflexivity.
Qed.

Lemma set_inc_measure s i : measure (set_inc s i) = measure s.
Proof. reflexivity. Qed.

(* a step that does not see the end of the current buffer *)
Lemma lex_step_set_inc e s i p id c rest others :
  l_bufs s = (id, c :: rest) :: others ->
  lex_step e (set_inc s i) p = step_map (fun x => set_inc x i) (lex_step e s p).
Proof.
  intros Hb. unfold lex_step. cbn [set_inc l_bufs l_sc]. rewrite Hb.
  destruct (munch (active_res (l_sc s)) (c :: rest) 0 None) as [[j n]|] eqn:Hm.
  - destruct (nth_error (active_rules (l_sc s)) j) as [r|]; [|reflexivity].
    change (set_bufs (set_inc s i) ((id, skipn n (c :: rest)) :: others))
      with (set_inc (set_bufs s ((id, skipn n (c :: rest)) :: others)) i).
    rewrite run_action_set_inc.
    destruct (run_action e (r_act r) (firstn n (c :: rest)) (set_bufs s ((id, skipn n (c :: rest)) :: others)) p); reflexivity.
  - reflexivity.
Qed.

(* no action returns the end-of-input token *)
Lemma run_action_not_eof e a y s p :
  match run_action e a y s p with Return t _ _ _ _ => t <> TEof | Continue _ _ => True end.
Proof. destruct a; cbn [run_action]; split_action e y; try exact I; discriminate. Qed.

Lemma lex_step_nonempty_not_eof e s p id c rest others :
  l_bufs s = (id, c :: rest) :: others ->
  match lex_step e s p with LRet t _ _ _ _ _ => t = TEof -> False | LCont _ _ _ => True end.
Proof.
  intros Hb. unfold lex_step. rewrite Hb.
  destruct (munch (active_res (l_sc s)) (c :: rest) 0 None) as [[j n]|] eqn:Hm.
  - destruct (nth_error (active_rules (l_sc s)) j) as [r|]; [|discriminate].
    pose proof (run_action_not_eof e (r_act r) (firstn n (c :: rest)) (set_bufs s ((id, skipn n (c :: rest)) :: others)) p) as H.
    destruct (run_action e (r_act r) (firstn n (c :: rest)) (set_bufs s ((id, skipn n (c :: rest)) :: others)) p); [exact I|exact H].
  - exact I.
Qed.

(* with an empty include stack the end of the buffer always ends the call, with TEof or TErr *)
Lemma lex_step_empty_noinc e s p id others :
  l_bufs s = (id, []) :: others -> l_inc s = [] ->
  match lex_step e s p with LRet t _ _ _ _ _ => t = TEof \/ t = TErr | LCont _ _ _ => False end.
Proof.
  intros Hb Hi. unfold lex_step. rewrite Hb. cbn [munch]. unfold run_eof.
  destruct (eof_action_of (l_sc s)) as [[| | |k]|]; auto.
  destruct (l_rderr s); auto. rewrite Hi. auto.
Qed.

(* a call that delivers a real token never sees the end of the current buffer: re-attaching any include
   stack to the state changes nothing but that stack *)
Lemma yylex_set_inc e i : forall fuel s p closed,
  l_inc s = [] ->
  r_tok (yylex e fuel s p closed) <> TEof -> r_tok (yylex e fuel s p closed) <> TErr ->
  yylex e fuel (set_inc s i) p closed = res_map (fun x => set_inc x i) (yylex e fuel s p closed).
Proof.
  induction fuel as [|fuel IH]; intros s p closed Hi N1 N2; cbn [yylex] in *.
  - cbn [r_tok] in N2. contradiction N2; reflexivity.
  - destruct (l_bufs s) as [|[id [|c rest]] others] eqn:Hb.
    + exfalso. unfold lex_step in N1. rewrite Hb in N1. cbn [r_tok] in N1. apply N1; reflexivity.
    + exfalso. pose proof (lex_step_empty_noinc e s p id others Hb Hi) as H.
      destruct (lex_step e s p) as [s2 p2 k|t v s2 p2 d k]; [exact H|].
      cbn [r_tok] in N1, N2. destruct H; contradiction.
    + rewrite (lex_step_set_inc e s i p id c rest others Hb).
      pose proof (lex_step_noinc e s p Hi) as [_ Hi2].
      destruct (lex_step e s p) as [s2 p2 k|t v s2 p2 d k]; cbn [step_map step_state] in *.
      * apply IH; assumption.
      * reflexivity.
Qed.

(* ================================================================== *)
(* A.1  tokens in the presence of include frames                        *)
(* ================================================================== *)

(* one call of cfg_yylex from s (any position, any fuel above the measure): token t with text v, next state s',
   k FILEs closed, no diagnostic *)
Definition tok_step (e : envt) (s : lexst) (t : tok) (v : option str) (s' : lexst) (k : nat) : Prop :=
  forall p fuel, measure s < fuel ->
    let r := yylex e fuel s p 0 in
    r_tok r = t /\ r_val r = v /\ r_st r = s' /\ r_closed r = k /\ r_diags r = [] /\ r_fuel_out r = false.

(* the scanner in state s delivers the tokens ts, closing n FILEs on the way, and is then in state s' *)
Inductive delivers (e : envt) : lexst -> list ltok -> nat -> lexst -> Prop :=
| D_nil s : delivers e s [] 0 s
| D_cons s s' s'' t ts k n :
    lt_tok t <> TEof -> lt_tok t <> TErr ->
    tok_step e s (lt_tok t) (lt_val t) s' k -> delivers e s' ts n s'' -> delivers e s (t :: ts) (k + n) s''.

Lemma delivers_app e : forall s ts1 n1 s1 ts2 n2 s2,
  delivers e s ts1 n1 s1 -> delivers e s1 ts2 n2 s2 -> delivers e s (ts1 ++ ts2) (n1 + n2) s2.
Proof.
  intros s ts1 n1 s1 ts2 n2 s2 H. revert ts2 n2 s2.
  induction H as [s|s s' s'' t ts k n N1 N2 Ht Hd IH]; intros ts2 n2 s2 H2.
  - exact H2.
  - cbn [app]. rewrite <- Nat.add_assoc. eapply D_cons; eauto.
Qed.

(* the call from sF closes the current include file and goes on exactly as a call from sB at position pos0 *)
Definition pops_to (e : envt) (sF sB : lexst) (pos0 : pos) : Prop :=
  forall p fuel, measure sF < fuel ->
    let r := yylex e fuel sF p 0 in
    let r' := yylex e (lex_fuel sB) sB pos0 0 in
    r_tok r = r_tok r' /\ r_val r = r_val r' /\ r_st r = r_st r' /\ r_pos r = r_pos r' /\
    r_diags r = r_diags r' /\ r_closed r = S (r_closed r') /\ r_fuel_out r = false.

Lemma yylex_closed_shift e : forall fuel s p k c,
  yylex e fuel s p (k + c) =
  let r := yylex e fuel s p c in
  {| r_tok := r_tok r; r_val := r_val r; r_st := r_st r; r_pos := r_pos r; r_diags := r_diags r;
     r_closed := k + r_closed r; r_fuel_out := r_fuel_out r |}.
Proof.
  induction fuel as [|fuel IH]; intros s p k c; cbn [yylex]; [reflexivity|].
  destruct (lex_step e s p) as [s2 p2 j|t v s2 p2 d j].
  - replace (j + (k + c)) with (k + (j + c)) by lia. apply IH.
  - cbv zeta. cbn [r_tok r_val r_st r_pos r_diags r_closed r_fuel_out]. f_equal. lia.
Qed.

(* ---- a token of the fresh scanner is a token under any include stack ---- *)
Lemma tok_at_step e s t v s' i :
  l_inc s = [] -> t <> TEof -> t <> TErr -> tok_at e s t v s' -> tok_step e (set_inc s i) t v (set_inc s' i) 0.
Proof.
  intros Hi N1 N2 [_ H] p fuel Hf. rewrite set_inc_measure in Hf. specialize (H p fuel Hf). cbv zeta in *.
  destruct H as (A & B & C & D & E & F).
  rewrite yylex_set_inc by (try exact Hi; rewrite A; assumption).
  cbn [res_map r_tok r_val r_st r_closed r_diags r_fuel_out]. rewrite C. auto 10.
Qed.

(* ---- bookkeeping kept by a step inside the current buffer ---- *)
Lemma lex_step_nonempty_core e s p id c rest others :
  l_bufs s = (id, c :: rest) :: others ->
  exists rest', l_bufs (step_state (lex_step e s p)) = (id, rest') :: others /\
    l_rderr (step_state (lex_step e s p)) = l_rderr s /\ l_next (step_state (lex_step e s p)) = l_next s.
Proof.
  intros Hb. unfold lex_step. rewrite Hb.
  destruct (munch (active_res (l_sc s)) (c :: rest) 0 None) as [[j n]|] eqn:Hm.
  - exists (skipn n (c :: rest)).
    destruct (nth_error (active_rules (l_sc s)) j) as [r|]; [|cbn [step_state set_bufs l_bufs l_rderr l_next]; auto].
    pose proof (run_action_core e (r_act r) (firstn n (c :: rest)) (set_bufs s ((id, skipn n (c :: rest)) :: others)) p) as RC.
    unfold core in RC. cbn [set_bufs l_bufs l_inc l_next l_rderr] in RC.
    destruct (run_action e (r_act r) (firstn n (c :: rest)) (set_bufs s ((id, skipn n (c :: rest)) :: others)) p);
      cbn [out_st step_state] in *; injection RC as R1 R2 R3 R4; auto.
  - exists rest. cbn [step_state add_echo set_bufs l_bufs l_rderr l_next]. auto.
Qed.

Lemma measure_scan_end s i b o : l_bufs s = b :: o -> measure (scan_end (set_inc s i)) < measure s.
Proof.
  intros Hb. unfold measure. cbn [scan_end set_inc l_bufs]. rewrite Hb. cbn [tl fold_left].
  rewrite (fold_measure_shift o (0 + S (length (snd b)))). lia.
Qed.

Lemma eof_tok_action e s p id others :
  l_bufs s = (id, []) :: others -> l_inc s = [] -> l_rderr s = false ->
  match lex_step e s p with LRet t _ _ _ _ _ => t = TEof | LCont _ _ _ => False end ->
  eof_action_of (l_sc s) = Some E_pop_or_eof /\ lex_step e s p = LRet TEof None s p [] 0.
Proof.
  intros Hb Hi Hr. unfold lex_step. rewrite Hb. cbn [munch]. unfold run_eof.
  destruct (eof_action_of (l_sc s)) as [[| | |k]|]; try discriminate.
  rewrite Hr, Hi. auto.
Qed.

(* the end of an include buffer: the frame is popped, one FILE is closed, the call goes on in the includer *)
Lemma yylex_pop e fr inc : forall fuel s p closed,
  l_inc s = [] -> l_rderr s = false -> cur_buf_id s = Some (i_buf fr) -> measure s < fuel ->
  r_tok (yylex e fuel s p closed) = TEof ->
  exists fuel', measure (scan_end (set_inc (r_st (yylex e fuel s p closed)) inc)) < fuel' /\
    yylex e fuel (set_inc s (fr :: inc)) p closed =
    yylex e fuel' (scan_end (set_inc (r_st (yylex e fuel s p closed)) inc))
          {| p_file := i_file fr; p_line := i_line fr |} (1 + closed).
Proof.
  induction fuel as [|fuel IH]; intros s p closed Hi Hr Hc Hm Ht; [lia|].
  cbn [yylex] in *.
  destruct (l_bufs s) as [|[id [|c rest]] others] eqn:Hb.
  - unfold cur_buf_id in Hc. rewrite Hb in Hc. discriminate.
  - assert (Hstep : match lex_step e s p with LRet t _ _ _ _ _ => t = TEof | LCont _ _ _ => False end).
    { pose proof (lex_step_empty_noinc e s p id others Hb Hi) as H.
      destruct (lex_step e s p) as [s2 p2 k|t v s2 p2 d k]; [exact H|]. exact Ht. }
    destruct (eof_tok_action e s p id others Hb Hi Hr Hstep) as [Ha Hl]. rewrite Hl. cbn [r_st].
    exists fuel. split.
    + pose proof (measure_scan_end s inc _ _ Hb). lia.
    + unfold lex_step. cbn [set_inc l_bufs l_sc]. rewrite Hb. cbn [munch]. rewrite Ha. unfold run_eof.
      cbn [set_inc l_rderr l_inc]. rewrite Hr.
      unfold cur_buf_id in *. cbn [set_inc l_bufs]. rewrite Hb in *. injection Hc as Hc. rewrite Hc, Nat.eqb_refl.
      reflexivity.
  - rewrite (lex_step_set_inc e s (fr :: inc) p id c rest others Hb).
    pose proof (lex_step_noinc e s p Hi) as [Hk Hi2].
    pose proof (lex_step_nonempty_not_eof e s p id c rest others Hb) as Hne.
    destruct (lex_step_nonempty_core e s p id c rest others Hb) as (rest' & Hb2 & Hr2 & Hn2).
    destruct (lex_step e s p) as [s2 p2 k|t v s2 p2 d k] eqn:Hs; cbn [step_map step_state step_k] in *.
    + apply lex_step_decreases in Hs. subst k. cbn [Nat.add] in *.
      apply IH; try assumption.
      * congruence.
      * unfold cur_buf_id in *. rewrite Hb2. rewrite Hb in Hc. exact Hc.
      * lia.
    + cbn [r_tok] in Ht. contradiction (Hne Ht).
Qed.

Lemma lex_step_next e s p : l_next (step_state (lex_step e s p)) = l_next s.
Proof.
  unfold lex_step. destruct (l_bufs s) as [|[id inp] others] eqn:Hb; [reflexivity|].
  destruct (munch (active_res (l_sc s)) inp 0 None) as [[i n]|] eqn:Hm.
  - destruct (nth_error (active_rules (l_sc s)) i) as [r|]; [|reflexivity].
    pose proof (run_action_frame e (r_act r) (firstn n inp) (set_bufs s ((id, skipn n inp) :: others)) p) as (_ & _ & _ & H).
    destruct (run_action _ _ _ _ _); cbn [step_state out_state] in *; exact H.
  - destruct inp as [|c rest]; [|reflexivity].
    unfold run_eof. destruct (eof_action_of (l_sc s)) as [[| | |k]|]; cbn [step_state]; try reflexivity.
    destruct (l_rderr s); [reflexivity|]. destruct (l_inc s) as [|f r]; [reflexivity|].
    destruct (match cur_buf_id s with Some id0 => Nat.eqb id0 (i_buf f) | None => false end); reflexivity.
Qed.

Lemma yylex_next e : forall fuel s p closed, l_next (r_st (yylex e fuel s p closed)) = l_next s.
Proof.
  induction fuel as [|fuel IH]; intros s p closed; cbn [yylex]; [reflexivity|].
  pose proof (lex_step_next e s p) as H.
  destruct (lex_step e s p) as [s2 p2 k|t v s2 p2 d k]; cbn [step_state] in H; [rewrite IH|]; exact H.
Qed.

Lemma yylex_noinc_top e fuel s p closed : l_inc s = [] ->
  cur_buf_id (r_st (yylex e fuel s p closed)) = cur_buf_id s.
Proof.
  intros Hi. unfold cur_buf_id. destruct (l_bufs s) as [|[id inp] others] eqn:Hb.
  - destruct fuel as [|fuel]; cbn [yylex]; [cbn [r_st]; rewrite Hb; reflexivity|].
    unfold lex_step. rewrite Hb. cbn [r_st]. rewrite Hb. reflexivity.
  - destruct (yylex_line_invariant e fuel s p closed id inp others Hb Hi) as (u & rest & _ & H & _).
    rewrite H. reflexivity.
Qed.

(* ---- the tokens of a buffer scanned under an include stack ---- *)
Lemma yields_delivers e i : forall s0 ts, yields e s0 ts -> tbs s0 ->
  exists s0', delivers e (set_inc s0 i) ts 0 (set_inc s0' i) /\ tbs s0' /\ tl (l_bufs s0') = tl (l_bufs s0) /\
    cur_buf_id s0' = cur_buf_id s0 /\ l_next s0' = l_next s0 /\ l_echo s0' = l_echo s0 /\
    measure s0' <= measure s0 /\ exists sE, tok_at e s0' TEof None sE.
Proof.
  induction 1 as [s0 sE Ht|s0 s0' t ts N1 N2 N3 Ht Hm Hy IH]; intros Hb.
  - exists s0. split; [constructor|]. split; [exact Hb|]. do 5 (split; [reflexivity|]). exists sE. exact Ht.
  - pose proof Hb as (_ & _ & Hi & _).
    pose proof Ht as [Ht1 Ht2]. destruct (Ht1 Hb) as [Hb' Htl].
    specialize (Ht2 pos0 (lex_fuel s0)). cbv zeta in Ht2. rewrite lex_fuel_measure in Ht2.
    specialize (Ht2 (Nat.lt_succ_diag_r _)). destruct Ht2 as (_ & _ & Hst & _).
    pose proof (yylex_noinc_top e (S (measure s0)) s0 pos0 0 Hi) as Hc. rewrite Hst in Hc.
    pose proof (yylex_next e (S (measure s0)) s0 pos0 0) as Hn. rewrite Hst in Hn.
    pose proof (yylex_no_echo e (S (measure s0)) s0 pos0 0) as He. rewrite Hst in He.
    destruct (IH Hb') as (s1 & D & B1 & T1 & C1 & X1 & E1 & M1 & K).
    exists s1. split.
    + change 0 with (0 + 0). eapply D_cons; [exact N1|exact N2| |exact D].
      apply tok_at_step; assumption.
    + split; [exact B1|]. split; [congruence|]. split; [congruence|]. split; [congruence|]. split; [congruence|].
      split; [lia|exact K].
Qed.

Definition resume_state (s : lexst) : lexst :=
  {| l_sc := INITIAL; l_bufs := l_bufs s; l_next := S (l_next s); l_q := q_empty; l_inc := l_inc s;
     l_echo := l_echo s; l_rderr := false |}.

(* the state cfg_lexer_include builds *)
Definition include_state (s : lexst) (cfile : option str) (cline : N) (F : str) : lexst :=
  scan_begin (set_inc s ({| i_file := cfile; i_line := cline; i_buf := l_next s |} :: l_inc s)) F.

Lemma pops_to_intro e fr inc s0 sE :
  tbs s0 -> cur_buf_id s0 = Some (i_buf fr) -> tok_at e s0 TEof None sE ->
  pops_to e (set_inc s0 (fr :: inc)) (scan_end (set_inc sE inc)) {| p_file := i_file fr; p_line := i_line fr |}.
Proof.
  intros Hb Hc [_ Ht] p fuel Hf. rewrite set_inc_measure in Hf.
  destruct Hb as (_ & Hr & Hi & _).
  specialize (Ht p fuel Hf). cbv zeta in Ht. destruct Ht as (A & _ & C & _).
  destruct (yylex_pop e fr inc fuel s0 p 0 Hi Hr Hc Hf A) as (fuel' & M & E).
  rewrite C in M, E. cbv zeta. rewrite E.
  rewrite (yylex_closed_shift e fuel' _ _ 1 0). cbv zeta.
  rewrite (yylex_enough_fuel e fuel' _ _ 0 M).
  cbn [r_tok r_val r_st r_pos r_diags r_closed r_fuel_out].
  repeat split; try reflexivity. apply yylex_lex_fuel_suffices.
Qed.

Section Inline.
Variables (e : envt) (s : lexst) (id : nat) (post : str) (others : list (nat * str)).
Variables (F : str) (cfile : option str) (cline : N).
Hypothesis Hq : q_inv (l_q s).
Hypothesis Hbufs : l_bufs s = (id, post) :: others.

Let fr := {| i_file := cfile; i_line := cline; i_buf := l_next s |}.
Let s1 := include_state s cfile cline F.
Let sB := resume_state s.

Lemma tokens_inline_F tsF :
  yields e (scan_begin lex_init F) tsF ->
  exists sF, delivers e s1 tsF 0 sF /\
    l_inc sF = fr :: l_inc s /\ tl (l_bufs sF) = (id, post) :: others /\ cur_buf_id sF = Some (l_next s) /\
    measure sF <= measure s1 /\
    pops_to e sF sB {| p_file := cfile; p_line := cline |}.
Proof.
  intros HY.
  set (s10 := set_inc s1 []).
  assert (HR : R (scan_begin lex_init F) s10).
  { unfold R, s10, s1, include_state, scan_begin. cbn [set_inc l_sc l_rderr l_inc l_bufs l_q top lex_init].
    refine (conj eq_refl (conj eq_refl (conj eq_refl (conj eq_refl (conj eq_refl _))))).
    split; [apply q_inv_empty|]. split; [exact Hq|]. intros K; contradiction K; reflexivity. }
  pose proof (yields_R e _ _ HY s10 HR) as HY1.
  assert (HB : tbs s10).
  { unfold tbs, s10, s1, include_state, scan_begin. cbn [set_inc l_sc l_rderr l_inc l_q]. auto. }
  destruct (yields_delivers e (fr :: l_inc s) s10 tsF HY1 HB) as (s0' & D & B1 & T1 & C1 & X1 & E1 & M1 & sE & K).
  exists (set_inc s0' (fr :: l_inc s)).
  split; [exact D|]. split; [reflexivity|].
  split; [cbn [set_inc l_bufs]; rewrite T1; unfold s10, s1, include_state, scan_begin; cbn [set_inc l_bufs tl]; exact Hbufs|].
  split; [unfold cur_buf_id in *; cbn [set_inc l_bufs]; rewrite C1; reflexivity|].
  split; [exact M1|].
  assert (HsB : sB = scan_end (set_inc sE (l_inc s))).
  { pose proof K as [K1 K2]. destruct (K1 B1) as [BE TE].
    specialize (K2 pos0 (lex_fuel s0')). cbv zeta in K2. rewrite lex_fuel_measure in K2.
    specialize (K2 (Nat.lt_succ_diag_r _)). destruct K2 as (_ & _ & Hst & _).
    pose proof (yylex_next e (S (measure s0')) s0' pos0 0) as Hn. rewrite Hst in Hn.
    pose proof (yylex_no_echo e (S (measure s0')) s0' pos0 0) as He. rewrite Hst in He.
    destruct BE as (_ & BEr & _).
    unfold sB, resume_state, scan_end. cbn [set_inc l_bufs l_next l_inc l_echo l_rderr].
    rewrite TE, T1, Hn, X1, He, E1, BEr.
    unfold s10, s1, include_state, scan_begin. cbn [set_inc l_bufs l_next l_echo tl]. reflexivity. }
  rewrite HsB.
  apply (pops_to_intro e fr (l_inc s) s0' sE B1); [|exact K].
  rewrite C1. reflexivity.
Qed.

(* the tokens of the includer's remaining text, from the state the pop leaves *)
Lemma tokens_inline_post tsP :
  yields e (scan_begin lex_init post) tsP ->
  exists sP, delivers e sB tsP 0 sP /\ l_inc sP = l_inc s /\ tl (l_bufs sP) = others /\ cur_buf_id sP = Some id /\
    measure sP <= measure sB.
Proof.
  intros HY.
  set (sB0 := set_inc sB []).
  assert (HR : R (scan_begin lex_init post) sB0).
  { unfold R, sB0, sB, resume_state, scan_begin. cbn [set_inc l_sc l_rderr l_inc l_bufs l_q top lex_init].
    rewrite Hbufs. cbn [top].
    refine (conj eq_refl (conj eq_refl (conj eq_refl (conj eq_refl (conj eq_refl _))))).
    split; [apply q_inv_empty|]. split; [apply q_inv_empty|]. intros K; contradiction K; reflexivity. }
  pose proof (yields_R e _ _ HY sB0 HR) as HY1.
  assert (HB : tbs sB0).
  { unfold tbs, sB0, sB, resume_state. cbn [set_inc l_sc l_rderr l_inc l_q]. repeat split; auto; apply q_inv_empty. }
  destruct (yields_delivers e (l_inc s) sB0 tsP HY1 HB) as (s0' & D & B1 & T1 & C1 & X1 & E1 & M1 & _).
  exists (set_inc s0' (l_inc s)). split; [exact D|]. split; [reflexivity|].
  split; [cbn [set_inc l_bufs]; rewrite T1; unfold sB0, sB, resume_state; cbn [set_inc l_bufs]; rewrite Hbufs; reflexivity|].
  split; [|exact M1].
  unfold cur_buf_id in *. cbn [set_inc l_bufs]. rewrite C1. unfold sB0, sB, resume_state. cbn [set_inc l_bufs].
  rewrite Hbufs. reflexivity.
Qed.

(* C13, scanner level: the include buffer delivers F's tokens, then the includer's *)
Theorem tokens_inline tsF tsP :
  yields e (scan_begin lex_init F) tsF ->
  yields e (scan_begin lex_init post) tsP ->
  exists sF,
    (* F's tokens, nothing popped, the includer's buffer untouched underneath *)
    delivers e s1 tsF 0 sF /\
    l_inc sF = fr :: l_inc s /\ tl (l_bufs sF) = (id, post) :: others /\
    (* the next call closes F and continues as a call from the includer's state at the saved position *)
    pops_to e sF sB {| p_file := cfile; p_line := cline |} /\
    l_inc sB = l_inc s /\ l_bufs sB = (id, post) :: others /\
    (* hence: F's tokens, then the includer's, one FILE closed in between *)
    match tsP with
    | [] => True
    | _ :: _ => exists sP, delivers e s1 (tsF ++ tsP) 1 sP /\ l_inc sP = l_inc s /\ tl (l_bufs sP) = others /\
                           cur_buf_id sP = Some id
    end.
Proof.
  intros HF HP.
  destruct (tokens_inline_F tsF HF) as (sF & DF & IF_ & TF & CF & MF & PF).
  destruct (tokens_inline_post tsP HP) as (sP & DP & IP & TP & CP & MP).
  exists sF. split; [exact DF|]. split; [exact IF_|]. split; [exact TF|]. split; [exact PF|].
  split; [reflexivity|]. split; [exact Hbufs|].
  destruct tsP as [|t r]; [exact I|].
  exists sP. split; [|auto].
  inversion DP as [|x s' x2 t0 ts0 k n N1 N2 Ht Hd Ex Et Ek Es].
  assert (k = 0 /\ n = 0) as [-> ->] by lia. clear Ek.
  change 1 with (0 + (1 + 0)).
  apply (delivers_app e s1 tsF 0 sF (t :: r) (1 + 0) sP DF).
  eapply D_cons; [exact N1|exact N2| |exact Hd].
  intros p fuel Hf. cbv zeta.
  destruct (PF p fuel Hf) as (A & B & C & D & E & G & Hfo).
  destruct (Ht {| p_file := cfile; p_line := cline |} (lex_fuel sB)) as (A' & B' & C' & D' & E' & G').
  { rewrite lex_fuel_measure. lia. }
  cbv zeta in *. rewrite A, B, C, E, G, A', B', C', D', E'. auto 10.
Qed.

End Inline.

(* ================================================================== *)
(* B.  the position after the pop                                       *)
(* ================================================================== *)

Section Position.
Variables (e : envt) (s : lexst) (id : nat) (post : str) (others : list (nat * str)).
Variables (F : str) (cfile : option str) (cline : N).
Hypothesis Hq : q_inv (l_q s).
Hypothesis Hbufs : l_bufs s = (id, post) :: others.

(* the call that closes F delivers the includer's next token at the includer's position: its file name, and the
   line the include call ended on plus the newlines of the includer's text consumed since *)
Theorem position_restored_scanner tsF t tsP :
  yields e (scan_begin lex_init F) tsF ->
  yields e (scan_begin lex_init post) (t :: tsP) ->
  exists sF, delivers e (include_state s cfile cline F) tsF 0 sF /\
    forall p fuel, measure sF < fuel ->
      let r := yylex e fuel sF p 0 in
      r_tok r = lt_tok t /\ r_val r = lt_val t /\ r_closed r = 1 /\ r_diags r = [] /\ r_fuel_out r = false /\
      l_inc (r_st r) = l_inc s /\
      p_file (r_pos r) = cfile /\
      exists u rest, post = u ++ rest /\ l_bufs (r_st r) = (id, rest) :: others /\
                     p_line (r_pos r) = (cline + count_nl u)%N.
Proof.
  intros HF HP.
  destruct (tokens_inline_F e s id post others F cfile cline Hq Hbufs tsF HF) as (sF & DF & _ & _ & _ & _ & PF).
  exists sF. split; [exact DF|]. intros p fuel Hf. cbv zeta.
  destruct (PF p fuel Hf) as (A & B & C & D & E & G & Hfo). cbv zeta in *.
  set (sB := resume_state s) in *. set (pos1 := {| p_file := cfile; p_line := cline |}) in *.
  set (sB0 := set_inc sB []).
  assert (HR : R (scan_begin lex_init post) sB0).
  { unfold R, sB0, sB, resume_state, scan_begin. cbn [set_inc l_sc l_rderr l_inc l_bufs l_q top lex_init].
    rewrite Hbufs. cbn [top].
    refine (conj eq_refl (conj eq_refl (conj eq_refl (conj eq_refl (conj eq_refl _))))).
    split; [apply q_inv_empty|]. split; [apply q_inv_empty|]. intros K; contradiction K; reflexivity. }
  pose proof (yields_R e _ _ HP sB0 HR) as HY1.
  inversion HY1 as [|x s0' t0 ts0 N1 N2 N3 Ht Hm Hy]; subst.
  destruct Ht as [_ Ht]. specialize (Ht pos1 (lex_fuel sB)). cbv zeta in Ht.
  destruct Ht as (A' & B' & C' & D' & E' & G'); [unfold sB0; rewrite set_inc_measure, lex_fuel_measure; lia|].
  assert (Hi0 : l_inc sB0 = []) by reflexivity.
  assert (Hb0 : l_bufs sB0 = (id, post) :: others) by (unfold sB0, sB, resume_state; cbn [set_inc l_bufs]; exact Hbufs).
  destruct (yylex_line_invariant e (lex_fuel sB) sB0 pos1 0 id post others Hb0 Hi0) as (u & rest & Eu & Bu & Iu & Fu & Lu & Cu).
  assert (Hy2 : yylex e (lex_fuel sB) sB pos1 0 = res_map (fun x => set_inc x (l_inc s)) (yylex e (lex_fuel sB) sB0 pos1 0)).
  { change sB with (set_inc sB0 (l_inc s)) at 2. apply yylex_set_inc; [reflexivity|rewrite A'; exact N1|rewrite A'; exact N2]. }
  rewrite Hy2 in A, B, C, D, E, G. cbn [res_map r_tok r_val r_st r_pos r_diags r_closed] in A, B, C, D, E, G.
  rewrite A, B, C, D, E, G, A', B', D', E'.
  repeat (split; [reflexivity|]).
  split; [exact Hfo|]. split; [reflexivity|]. split; [rewrite Fu; reflexivity|].
  exists u, rest. split; [exact Eu|]. split; [cbn [set_inc l_bufs]; exact Bu|]. rewrite Lu. reflexivity.
Qed.

End Position.

(* ---- what cfg_lexer_include does when it succeeds ---- *)
Definition include_name (w : pw) (a : str) : option str :=
  match w_path w with
  | [] => Some (tilde_expand (w_pw w) a)
  | p => cfg_searchpath (w_fs w) p a
  end.

Lemma lexer_include_unfold w c a :
  lexer_include w c a =
  if Nat.leb MAX_INCLUDE_DEPTH (length (l_inc (w_lex w))) then
    (add_diags w (cfg_diag c "includes nested too deeply"), c, true)
  else match include_name w a with
       | None => (add_diags w (cfg_diag c "%s: Not found in search path"), c, true)
       | Some x =>
           match open_input (w_fs w) x with
           | None => (add_diags w (cfg_diag c "%s: %s"), c, true)
           | Some content =>
               (set_open (upd_lex w (include_state (w_lex w) (c_file c) (c_line c) content)) (S (w_open w)),
                set_line (set_file c (Some x)) 1, false)
           end
       end.
Proof. reflexivity. Qed.

Lemma lexer_include_ok w c a x content :
  length (l_inc (w_lex w)) < MAX_INCLUDE_DEPTH -> include_name w a = Some x -> open_input (w_fs w) x = Some content ->
  lexer_include w c a =
  (set_open (upd_lex w (include_state (w_lex w) (c_file c) (c_line c) content)) (S (w_open w)),
   set_line (set_file c (Some x)) 1, false).
Proof.
  intros Hd Hn Ho. rewrite lexer_include_unfold, Hn, Ho.
  destruct (Nat.leb_spec MAX_INCLUDE_DEPTH (length (l_inc (w_lex w)))); [lia|reflexivity].
Qed.

Lemma c_file_set_pos c p : c_file (set_pos c p) = p_file p. Proof. destruct c; reflexivity. Qed.
Lemma c_line_set_pos c p : c_line (set_pos c p) = p_line p. Proof. destruct c; reflexivity. Qed.

(* C13: position restoration as the parser sees it.  While F is read the context carries F's name and lines
   counted from 1; the call of next_token that reaches F's end hands back a context positioned in the includer *)
Theorem position_restored :
  forall (w : pw) (c : cfg) (a x F : str) (id : nat) (post : str) (others : list (nat * str)) tsF t tsP,
  q_inv (l_q (w_lex w)) ->
  l_bufs (w_lex w) = (id, post) :: others ->
  length (l_inc (w_lex w)) < MAX_INCLUDE_DEPTH -> include_name w a = Some x -> open_input (w_fs w) x = Some F ->
  yields (w_env w) (scan_begin lex_init F) tsF ->
  yields (w_env w) (scan_begin lex_init post) (t :: tsP) ->
  exists w1 c1 sF,
    lexer_include w c a = (w1, c1, false) /\
    c_file c1 = Some x /\ c_line c1 = 1%N /\ w_open w1 = S (w_open w) /\
    delivers (w_env w) (w_lex w1) tsF 0 sF /\
    forall wF cF fuel, w_lex wF = sF -> w_env wF = w_env w -> measure sF < fuel ->
      exists w' c', next_token fuel wF cF = (w', c', lt_tok t, lt_val t) /\
        c_file c' = c_file c /\
        (exists u rest, post = u ++ rest /\ l_bufs (w_lex w') = (id, rest) :: others /\
                        c_line c' = (c_line c + count_nl u)%N) /\
        l_inc (w_lex w') = l_inc (w_lex w) /\ w_open w' = w_open wF - 1 /\ w_oof w' = w_oof wF /\
        w_diags w' = w_diags wF.
Proof.
  intros w c a x F id post others tsF t tsP Hq Hb Hd Hn Ho HF HP.
  destruct (position_restored_scanner (w_env w) (w_lex w) id post others F (c_file c) (c_line c) Hq Hb tsF t tsP HF HP)
    as (sF & DF & HX).
  eexists _, _, sF. split; [apply (lexer_include_ok w c a x F Hd Hn Ho)|].
  split; [destruct c; reflexivity|]. split; [destruct c; reflexivity|]. split; [reflexivity|].
  split; [exact DF|].
  intros wF cF fuel El Ee Hf. unfold next_token. rewrite El, Ee.
  destruct (HX (c_pos cF) fuel Hf) as (A & B & C & D & E & G & H1 & u & rest & H2 & H3 & H4). cbv zeta in *.
  rewrite E, A, B, C, D.
  eexists _, _. split; [reflexivity|].
  split; [rewrite c_file_set_pos; exact H1|].
  split; [exists u, rest; split; [exact H2|]; split; [|rewrite c_line_set_pos; exact H4]|].
  - destruct (c_err cF); cbn [w_lex set_open upd_lex add_diags]; exact H3.
  - destruct (c_err cF); cbn [w_lex w_open w_oof w_diags set_open upd_lex add_diags rev app]; auto.
Qed.

(* ================================================================== *)
(* D.  failing includes                                                 *)
(* ================================================================== *)

(* fopen() refuses exactly the names that are missing or directories *)
Lemma open_input_none f p : open_input f p = None <-> (fs_lookup f p = FMissing \/ fs_lookup f p = FDir).
Proof. unfold open_input. destruct (fs_lookup f p); split; intros H; auto; try discriminate; destruct H; discriminate. Qed.

(* (1) the include stack is full *)
Lemma include_fails_depth w c a :
  MAX_INCLUDE_DEPTH <= length (l_inc (w_lex w)) ->
  lexer_include w c a = (add_diags w (cfg_diag c "includes nested too deeply"), c, true).
Proof.
  intros H. rewrite lexer_include_unfold.
  destruct (Nat.leb_spec MAX_INCLUDE_DEPTH (length (l_inc (w_lex w)))); [reflexivity|lia].
Qed.

(* (2) a search path is set and holds no regular file of that name *)
Lemma include_fails_notfound w c a :
  length (l_inc (w_lex w)) < MAX_INCLUDE_DEPTH -> include_name w a = None ->
  lexer_include w c a = (add_diags w (cfg_diag c "%s: Not found in search path"), c, true).
Proof.
  intros H Hn. rewrite lexer_include_unfold, Hn.
  destruct (Nat.leb_spec MAX_INCLUDE_DEPTH (length (l_inc (w_lex w)))); [lia|reflexivity].
Qed.

(* (3) the name resolves but cannot be opened: missing, or a directory *)
Lemma include_fails_open w c a x :
  length (l_inc (w_lex w)) < MAX_INCLUDE_DEPTH -> include_name w a = Some x ->
  (fs_lookup (w_fs w) x = FMissing \/ fs_lookup (w_fs w) x = FDir) ->
  lexer_include w c a = (add_diags w (cfg_diag c "%s: %s"), c, true).
Proof.
  intros H Hn Hl. apply open_input_none in Hl. rewrite lexer_include_unfold, Hn, Hl.
  destruct (Nat.leb_spec MAX_INCLUDE_DEPTH (length (l_inc (w_lex w)))); [lia|reflexivity].
Qed.

(* whenever cfg_lexer_include fails: one diagnostic (when the context reports errors), nothing else changed *)
Lemma include_fails_shape w c a w1 c1 :
  lexer_include w c a = (w1, c1, true) ->
  c1 = c /\ w_lex w1 = w_lex w /\ w_open w1 = w_open w /\
  exists fmt, w1 = add_diags w (cfg_diag c fmt) /\
    (c_err c = true -> w_diags w1 = {| d_file := c_file c; d_line := c_line c; d_fmt := M fmt |} :: w_diags w) /\
    (fmt = "includes nested too deeply" \/ fmt = "%s: Not found in search path" \/ fmt = "%s: %s").
Proof.
  rewrite lexer_include_unfold.
  assert (G : forall fmt, (fmt = "includes nested too deeply" \/ fmt = "%s: Not found in search path" \/ fmt = "%s: %s") ->
     (add_diags w (cfg_diag c fmt), c, true) = (w1, c1, true) ->
     c1 = c /\ w_lex w1 = w_lex w /\ w_open w1 = w_open w /\
     exists fmt, w1 = add_diags w (cfg_diag c fmt) /\
       (c_err c = true -> w_diags w1 = {| d_file := c_file c; d_line := c_line c; d_fmt := M fmt |} :: w_diags w) /\
       (fmt = "includes nested too deeply" \/ fmt = "%s: Not found in search path" \/ fmt = "%s: %s")).
  { intros fmt Hf H. injection H as <- <-. split; [reflexivity|]. split; [reflexivity|]. split; [reflexivity|].
    exists fmt. split; [reflexivity|]. split; [|exact Hf].
    intros He. unfold cfg_diag. rewrite He. reflexivity. }
  destruct (Nat.leb MAX_INCLUDE_DEPTH (length (l_inc (w_lex w)))); [apply G; auto|].
  destruct (include_name w a) as [x|]; [|apply G; auto].
  destruct (open_input (w_fs w) x) as [content|]; [discriminate|apply G; auto].
Qed.

Lemma get_opt_set_pos c p r : get_opt (set_pos c p) r = get_opt c r.
Proof. destruct c. unfold get_opt. destruct r as [[|[i v] steps] k]; reflexivity. Qed.

(* the parser: the closing parenthesis of include("...") with a failing cfg_lexer_include ends the parse with an
   error; the scanner is left as the parenthesis left it, in particular no include level is opened *)
Theorem failing_include_perr strtod_o fuel w c level p w' c' v r o a w'' c'' :
  next_token fuel w c = (w', c', TPunct 41, v) ->
  (s_state p = 8 \/ s_state p = 9) -> s_opt p = Some r -> get_opt c' r = Some o ->
  cb_func (o_cbs o) = Some FInclude -> s_args p = [a] ->
  lexer_include w' c' a = (w'', c'', true) ->
  parse_internal strtod_o (S fuel) w c level p = (w'', c', PERR) /\
  w_lex w'' = w_lex w' /\ w_open w'' = w_open w' /\
  exists fmt, w'' = add_diags w' (cfg_diag c' fmt).
Proof.
  intros Hn Hs Ho Hg Hf Ha Hi.
  destruct (include_fails_shape w' c' a w'' c'' Hi) as (-> & Hl & Hop & fmt & Hw & _).
  split; [|split; [exact Hl|split; [exact Hop|exists fmt; exact Hw]]].
  rewrite parse_internal_S. unfold HdrProofs.pi_body. rewrite Hn. cbv beta iota zeta.
  rewrite Ho, Hg, Hf, Ha, Hi.
  destruct Hs as [-> | ->]; reflexivity.
Qed.

(* ================================================================== *)
(* C.  include = text in place: the scanner simulation                  *)
(* ================================================================== *)

(* ---- the start condition an action leaves ---- *)
Definition next_sc (a : action) (c : sc) : sc :=
  match a with
  | A_qstr _ | A_qend_comment | A_str_end => INITIAL
  | A_begin_comment => comment
  | A_begin_dq => dq_str
  | A_begin_sq => sq_str
  | _ => c
  end.

Lemma run_action_sc e a y s p : l_sc (out_state (run_action e a y s p)) = next_sc a (l_sc s).
Proof.
  destruct a; cbn [run_action]; rewrite ?qend_trim_eq;
    repeat match goal with
    | |- context [match env_lookup e y with _ => _ end] => destruct (env_lookup e y)
    | |- context [if (?a <? ?b)%N then _ else _] => destruct (a <? b)%N
    end; reflexivity.
Qed.

(* ---- actions see only the start condition and the scratch buffer ---- *)
Definition norm (s : lexst) : lexst :=
  {| l_sc := l_sc s; l_bufs := []; l_next := 0; l_q := l_q s; l_inc := []; l_echo := []; l_rderr := false |}.
Definition denorm (s x : lexst) : lexst :=
  {| l_sc := l_sc x; l_bufs := l_bufs s; l_next := l_next s; l_q := l_q x; l_inc := l_inc s; l_echo := l_echo s;
     l_rderr := l_rderr s |}.

Lemma run_action_norm e a y s p : run_action e a y s p = out_map (denorm s) (run_action e a y (norm s) p).
Proof.
  destruct s. destruct a; cbn [run_action]; rewrite ?qend_trim_eq;
    repeat match goal with
    | |- context [match env_lookup e y with _ => _ end] => destruct (env_lookup e y)
    | |- context [if (?a <? ?b)%N then _ else _] => destruct (a <? b)%N
    end; reflexivity.
Qed.

Definition Rq (a b : lexst) : Prop := l_sc a = l_sc b /\ Q (l_sc a) (l_q a) (l_q b).

Definition out_sim (o1 o2 : outcome) : Prop :=
  match o1, o2 with
  | Continue a1 _, Continue a2 _ => Rq a1 a2
  | Return t v a1 _ d1, Return t' v' a2 _ d2 => t = t' /\ v = v' /\ map d_fmt d1 = map d_fmt d2 /\ Rq a1 a2
  | _, _ => False
  end.

Lemma run_action_dfmt e a y s1 s2 p1 p2 :
  match run_action e a y s1 p1, run_action e a y s2 p2 with
  | Return _ _ _ _ d1, Return _ _ _ _ d2 => map d_fmt d1 = map d_fmt d2
  | _, _ => True
  end.
Proof.
  destruct a; cbn [run_action]; rewrite ?qend_trim_eq;
    repeat match goal with
    | |- context [match env_lookup e y with _ => _ end] => destruct (env_lookup e y)
    | |- context [if (?a <? ?b)%N then _ else _] => destruct (a <? b)%N
    end; try exact I; reflexivity.
Qed.

Lemma run_action_sim e a y s1 s2 p1 p2 :
  Rq s1 s2 -> (obs a = true -> l_sc s1 <> INITIAL) ->
  out_sim (run_action e a y s1 p1) (run_action e a y s2 p2).
Proof.
  intros [Hsc HQ] Ho.
  assert (HR : R (norm s1) (norm s2)).
  { unfold R, norm. cbn [l_sc l_rderr l_inc l_bufs l_q top]. auto 10. }
  pose proof (run_action_R e a y (norm s1) (norm s2) p1 p2 HR Ho) as H.
  pose proof (run_action_dfmt e a y s1 s2 p1 p2) as Hd.
  rewrite (run_action_norm e a y s1 p1), (run_action_norm e a y s2 p2) in *.
  destruct (run_action e a y (norm s1) p1) as [a1 q1|t1 v1 a1 q1 d1];
    destruct (run_action e a y (norm s2) p2) as [a2 q2|t2 v2 a2 q2 d2]; cbn [out_R out_map out_sim] in *; try contradiction.
  - destruct H as (A & _ & _ & _ & _ & B). unfold Rq, denorm. cbn [l_sc l_q]. split; assumption.
  - destruct H as (Ht & Hv & A & _ & _ & _ & _ & B). unfold Rq, denorm. cbn [l_sc l_q].
    split; [exact Ht|]. split; [exact Hv|]. split; [exact Hd|]. split; [exact A|exact B].
Qed.

(* ---- F is scanned on its own exactly as when `post` follows it: every match made from start condition c on G
        is also the match made on G ++ post, and G ends in INITIAL ---- *)
Inductive InlOK (post : str) : sc -> str -> Prop :=
| IO_nil : InlOK post INITIAL []
| IO_step c g G i n r :
    munch (active_res c) (g :: G) 0 None = Some (i, n) ->
    munch (active_res c) ((g :: G) ++ post) 0 None = Some (i, n) ->
    nth_error (active_rules c) i = Some r ->
    InlOK post (next_sc (r_act r) c) (skipn n (g :: G)) ->
    InlOK post c (g :: G).

Definition sc_eq (a b : sc) : bool :=
  match a, b with INITIAL, INITIAL | comment, comment | dq_str, dq_str | sq_str, sq_str => true | _, _ => false end.
Definition onn_eqb (a b : option (nat * nat)) : bool :=
  match a, b with
  | Some (i, n), Some (j, m) => Nat.eqb i j && Nat.eqb n m
  | None, None => true
  | _, _ => false
  end.

(* the decision procedure *)
Fixpoint inl_chk (fuel : nat) (post : str) (c : sc) (G : str) : bool :=
  match fuel with
  | O => false
  | S f =>
    match G with
    | [] => sc_eq c INITIAL
    | _ :: _ =>
      match munch (active_res c) G 0 None with
      | Some (i, n) =>
          onn_eqb (munch (active_res c) (G ++ post) 0 None) (Some (i, n)) &&
          match nth_error (active_rules c) i with
          | Some r => inl_chk f post (next_sc (r_act r) c) (skipn n G)
          | None => false
          end
      | None => false
      end
    end
  end.

Lemma inl_chk_sound post : forall fuel c G, inl_chk fuel post c G = true -> InlOK post c G.
Proof.
  induction fuel as [|f IH]; intros c G H; [discriminate|]. cbn [inl_chk] in H.
  destruct G as [|g G].
  - destruct c; try discriminate. constructor.
  - destruct (munch (active_res c) (g :: G) 0 None) as [[i n]|] eqn:Hm; [|discriminate].
    apply andb_prop in H as [H1 H2].
    destruct (munch (active_res c) ((g :: G) ++ post) 0 None) as [[j m]|] eqn:Hm2; [|discriminate].
    cbn [onn_eqb] in H1. apply andb_prop in H1 as [Ha Hb]. apply Nat.eqb_eq in Ha, Hb. subst j m.
    destruct (nth_error (active_rules c) i) as [r|] eqn:Hr; [|discriminate].
    eapply IO_step; eauto.
Qed.

(* ---- the two buffer / include stacks ---- *)
Definition nopop (id : nat) (i : list incframe) : Prop :=
  match i with [] => True | f :: _ => i_buf f <> id end.

Inductive SR : sc -> list (nat * str) -> list incframe -> list (nat * str) -> list incframe -> Prop :=
| SR_same c b i : SR c b i b i
| SR_inl c id1 G id post b i f1 :
    InlOK post c G -> i_buf f1 = id1 ->
    SR c ((id1, G) :: (id, post) :: b) (f1 :: i) ((id, G ++ post) :: b) i
| SR_buf c id1 id2 D b1 i1 b2 i2 :
    SR INITIAL b1 i1 b2 i2 -> nopop id1 i1 -> nopop id2 i2 ->
    SR c ((id1, D) :: b1) i1 ((id2, D) :: b2) i2
| SR_inc c id1 id2 D b1 i1 b2 i2 f1 f2 :
    SR INITIAL b1 i1 b2 i2 -> i_buf f1 = id1 -> i_buf f2 = id2 ->
    SR c ((id1, D) :: b1) (f1 :: i1) ((id2, D) :: b2) (f2 :: i2).

Definition LRs (s1 s2 : lexst) : Prop :=
  Rq s1 s2 /\ l_rderr s1 = false /\ l_rderr s2 = false /\
  SR (l_sc s1) (l_bufs s1) (l_inc s1) (l_bufs s2) (l_inc s2) /\ lex_wf s1 /\ lex_wf s2.

Definition step_sim (r1 r2 : lstep) : Prop :=
  match r1, r2 with
  | LCont a1 _ _, LCont a2 _ _ => LRs a1 a2
  | LRet t v a1 _ d1 _, LRet t' v' a2 _ d2 _ => t = t' /\ v = v' /\ map d_fmt d1 = map d_fmt d2 /\ LRs a1 a2
  | _, _ => False
  end.

(* both sides match the same rule on the same text *)
Definition X_after (s1 s2 : lexst) (r : rule) (b1 b2 : list (nat * str)) (a1 a2 : lexst) : Prop :=
  Rq a1 a2 /\ l_sc a1 = next_sc (r_act r) (l_sc s1) /\ l_bufs a1 = b1 /\ l_bufs a2 = b2 /\
  l_inc a1 = l_inc s1 /\ l_inc a2 = l_inc s2 /\ l_rderr a1 = l_rderr s1 /\ l_rderr a2 = l_rderr s2 /\
  l_next a1 = l_next s1 /\ l_next a2 = l_next s2.

Lemma munch_rule c inp i n : munch (active_res c) inp 0 None = Some (i, n) -> exists r, nth_error (active_rules c) i = Some r.
Proof.
  intros H. apply munch_idx_lt in H; [|intros ? ? K; discriminate]. rewrite active_len in H.
  destruct (nth_error (active_rules c) i) as [r|] eqn:E; [eauto|]. apply nth_error_None in E. lia.
Qed.

Lemma step_match_sim e s1 s2 p1 p2 id1 id2 inp1 inp2 o1 o2 i n r :
  Rq s1 s2 -> l_bufs s1 = (id1, inp1) :: o1 -> l_bufs s2 = (id2, inp2) :: o2 ->
  munch (active_res (l_sc s1)) inp1 0 None = Some (i, n) ->
  munch (active_res (l_sc s1)) inp2 0 None = Some (i, n) ->
  nth_error (active_rules (l_sc s1)) i = Some r -> firstn n inp1 = firstn n inp2 ->
  match lex_step e s1 p1, lex_step e s2 p2 with
  | LCont a1 _ _, LCont a2 _ _ => X_after s1 s2 r ((id1, skipn n inp1) :: o1) ((id2, skipn n inp2) :: o2) a1 a2
  | LRet t v a1 _ d1 _, LRet t' v' a2 _ d2 _ =>
      t = t' /\ v = v' /\ map d_fmt d1 = map d_fmt d2 /\
      X_after s1 s2 r ((id1, skipn n inp1) :: o1) ((id2, skipn n inp2) :: o2) a1 a2
  | _, _ => False
  end.
Proof.
  intros HR Hb1 Hb2 Hm1 Hm2 Hr Hy. pose proof HR as [Hsc HQ].
  unfold lex_step. rewrite Hb1, Hb2, <- Hsc, Hm1, Hm2, Hr, <- Hy.
  set (t1 := set_bufs s1 ((id1, skipn n inp1) :: o1)). set (t2 := set_bufs s2 ((id2, skipn n inp2) :: o2)).
  assert (HR' : Rq t1 t2) by exact HR.
  assert (Ho : obs (r_act r) = true -> l_sc t1 <> INITIAL).
  { intros Ho Hc. cbn [t1 set_bufs l_sc] in Hc. rewrite Hc in Hr. apply initial_no_obs in Hr. congruence. }
  pose proof (run_action_sim e (r_act r) (firstn n inp1) t1 t2 p1 p2 HR' Ho) as H.
  pose proof (run_action_core e (r_act r) (firstn n inp1) t1 p1) as C1.
  pose proof (run_action_core e (r_act r) (firstn n inp1) t2 p2) as C2.
  pose proof (run_action_sc e (r_act r) (firstn n inp1) t1 p1) as S1.
  unfold core in C1, C2. cbn [t1 t2 set_bufs l_bufs l_inc l_next l_rderr l_sc] in C1, C2, S1.
  destruct (run_action e (r_act r) (firstn n inp1) t1 p1) as [a1 q1|x1 v1 a1 q1 d1];
    destruct (run_action e (r_act r) (firstn n inp1) t2 p2) as [a2 q2|x2 v2 a2 q2 d2];
    cbn [out_sim out_st out_state] in *; try contradiction;
    injection C1 as C11 C12 C13 C14; injection C2 as C21 C22 C23 C24.
  - unfold X_after. auto 12.
  - destruct H as (A & B & C & D). unfold X_after. auto 15.
Qed.

Lemma firstn_app_le {A} (l1 l2 : list A) n : n <= length l1 -> firstn n (l1 ++ l2) = firstn n l1.
Proof. intros H. rewrite firstn_app. replace (n - length l1) with 0 by lia. cbn. apply app_nil_r. Qed.
Lemma skipn_app_le {A} (l1 l2 : list A) n : n <= length l1 -> skipn n (l1 ++ l2) = skipn n l1 ++ l2.
Proof. intros H. rewrite skipn_app. replace (n - length l1) with 0 by lia. reflexivity. Qed.

Lemma munch_some_len rs inp i n : munch rs inp 0 None = Some (i, n) -> n <= length inp.
Proof. intros H. apply munch_len in H. destruct H as [H|H]; [discriminate|lia]. Qed.

(* the end of a buffer that no include frame points to: the same outcome on both sides, nothing moves *)
Lemma eof_nopop_step e s p id o :
  l_bufs s = (id, []) :: o -> l_rderr s = false -> nopop id (l_inc s) ->
  exists t d, lex_step e s p = LRet t None s p d 0 /\ (t = TEof \/ t = TErr) /\
    forall s' p' id' o', l_sc s' = l_sc s -> l_bufs s' = (id', []) :: o' -> l_rderr s' = false -> nopop id' (l_inc s') ->
      exists d', lex_step e s' p' = LRet t None s' p' d' 0 /\ map d_fmt d = map d_fmt d'.
Proof.
  intros Hb Hr Hn.
  assert (G : forall s' p' id' o', l_bufs s' = (id', []) :: o' -> l_rderr s' = false -> nopop id' (l_inc s') ->
     lex_step e s' p' =
     match eof_action_of (l_sc s') with
     | None => LRet TErr None s' p' [] 0
     | Some E_sq_unterminated => LRet TErr None s' p' [mkdiag p' "unterminated string constant"] 0
     | Some E_unterminated => LRet TErr None s' p' [mkdiag p' "unterminated %s"] 0
     | Some (E_unrecognised _) => LRet TErr None s' p' [mkdiag p' "<unrecognised action>"] 0
     | Some E_pop_or_eof => LRet TEof None s' p' [] 0
     end).
  { intros s' p' id' o' Hb' Hr' Hn'. unfold lex_step. rewrite Hb'. cbn [munch]. unfold run_eof.
    destruct (eof_action_of (l_sc s')) as [[| | |k]|]; try reflexivity.
    rewrite Hr'. unfold nopop in Hn'. destruct (l_inc s') as [|f rest]; [reflexivity|].
    unfold cur_buf_id. rewrite Hb'. destruct (Nat.eqb_spec id' (i_buf f)) as [E|E]; [congruence|reflexivity]. }
  rewrite (G s p id o Hb Hr Hn).
  destruct (eof_action_of (l_sc s)) as [[| | |k]|] eqn:Ea.
  all: eexists _, _; split; [reflexivity|]; split; [auto|];
    intros s' p' id' o' Hsc' Hb' Hr' Hn'; rewrite (G s' p' id' o' Hb' Hr' Hn'), Hsc', Ea; eexists; split; reflexivity.
Qed.

Lemma lex_wf_step s a : l_next a = l_next s -> (l_inc a = l_inc s \/ l_inc a = tl (l_inc s)) -> lex_wf s -> lex_wf a.
Proof.
  unfold lex_wf. intros Hn [Hi|Hi] H; rewrite Hn, Hi; [exact H|].
  destruct (l_inc s); [exact H|]. inversion H; assumption.
Qed.

Lemma step_common e s1 s2 p1 p2 : Rq s1 s2 -> l_rderr s1 = false -> l_rderr s2 = false -> lex_wf s1 -> lex_wf s2 ->
  forall id1 id2 inp1 inp2 o1 o2 i n r,
    l_bufs s1 = (id1, inp1) :: o1 -> l_bufs s2 = (id2, inp2) :: o2 ->
    munch (active_res (l_sc s1)) inp1 0 None = Some (i, n) ->
    munch (active_res (l_sc s1)) inp2 0 None = Some (i, n) ->
    nth_error (active_rules (l_sc s1)) i = Some r -> firstn n inp1 = firstn n inp2 ->
    SR (next_sc (r_act r) (l_sc s1)) ((id1, skipn n inp1) :: o1) (l_inc s1) ((id2, skipn n inp2) :: o2) (l_inc s2) ->
    step_sim (lex_step e s1 p1) (lex_step e s2 p2).
Proof.
  intros HR Hr1 Hr2 W1 W2 id1 id2 inp1 inp2 o1 o2 i n r Hb1 Hb2 Hm1 Hm2 Hr Hy HS'.
  pose proof (step_match_sim e s1 s2 p1 p2 id1 id2 inp1 inp2 o1 o2 i n r HR Hb1 Hb2 Hm1 Hm2 Hr Hy) as H.
  assert (K : forall a1 a2, X_after s1 s2 r ((id1, skipn n inp1) :: o1) ((id2, skipn n inp2) :: o2) a1 a2 -> LRs a1 a2).
  { intros a1 a2 (A & B & C & D & E & F & G & H' & I' & J). unfold LRs.
    rewrite G, H', B, C, D, E, F. split; [exact A|]. split; [exact Hr1|]. split; [exact Hr2|]. split; [exact HS'|].
    split; [apply (lex_wf_step s1); auto|apply (lex_wf_step s2); auto]. }
  destruct (lex_step e s1 p1) as [a1 q1 k1|t1 v1 a1 q1 d1 k1]; destruct (lex_step e s2 p2) as [a2 q2 k2|t2 v2 a2 q2 d2 k2];
    cbn [step_sim]; try contradiction.
  - apply K, H.
  - destruct H as (A & B & C & D). auto.
Qed.

Lemma step_commonD e s1 s2 p1 p2 : Rq s1 s2 -> l_rderr s1 = false -> l_rderr s2 = false -> lex_wf s1 -> lex_wf s2 ->
  forall id1 id2 d D o1 o2,
    l_bufs s1 = (id1, d :: D) :: o1 -> l_bufs s2 = (id2, d :: D) :: o2 ->
    (forall c D', SR c ((id1, D') :: o1) (l_inc s1) ((id2, D') :: o2) (l_inc s2)) ->
    step_sim (lex_step e s1 p1) (lex_step e s2 p2).
Proof.
  intros HR Hr1 Hr2 W1 W2 id1 id2 d D o1 o2 Hb1 Hb2 HS'.
  destruct (munch_covered (l_sc s1) d D) as [[i n] Hm]. destruct (munch_rule _ _ _ _ Hm) as [r Hr].
  eapply (step_common e s1 s2 p1 p2 HR Hr1 Hr2 W1 W2 id1 id2 (d :: D) (d :: D) o1 o2 i n r); eauto.
Qed.

Lemma LRs_pop s1 s2 b1 b2 i1 i2 x1 x2 f1 f2 :
  l_rderr s1 = false -> l_rderr s2 = false -> lex_wf s1 -> lex_wf s2 ->
  l_bufs s1 = x1 :: b1 -> l_bufs s2 = x2 :: b2 -> l_inc s1 = f1 :: i1 -> l_inc s2 = f2 :: i2 ->
  SR INITIAL b1 i1 b2 i2 ->
  LRs (scan_end (set_inc s1 i1)) (scan_end (set_inc s2 i2)).
Proof.
  intros Hr1 Hr2 W1 W2 Hb1 Hb2 Hi1 Hi2 HS.
  unfold LRs, Rq. cbn [scan_end set_inc l_sc l_q l_rderr l_bufs l_inc tl]. rewrite Hb1, Hb2. cbn [tl].
  split; [split; [reflexivity|split; [apply q_inv_empty|split; [apply q_inv_empty|intros K; contradiction K; reflexivity]]]|].
  split; [exact Hr1|]. split; [exact Hr2|]. split; [exact HS|].
  unfold lex_wf in *. cbn [scan_end set_inc l_next l_inc]. rewrite Hi1 in W1. rewrite Hi2 in W2.
  inversion W1; inversion W2; auto.
Qed.

(* one scanning step: lockstep, or the include side pops F's buffer while the inline side stands still *)
Lemma lex_step_SR e : forall c B1 I1 B2 I2, SR c B1 I1 B2 I2 ->
  forall s1 s2 p1 p2, l_sc s1 = c -> l_bufs s1 = B1 -> l_inc s1 = I1 -> l_bufs s2 = B2 -> l_inc s2 = I2 ->
  Rq s1 s2 -> l_rderr s1 = false -> l_rderr s2 = false -> lex_wf s1 -> lex_wf s2 ->
  step_sim (lex_step e s1 p1) (lex_step e s2 p2) \/
  exists a q, lex_step e s1 p1 = LCont a q 1 /\ LRs a s2.
Proof.
  intros c B1 I1 B2 I2 HS.
  destruct HS as [c b i|c id1 G id post b i f1 HI Hf|c id1 id2 D b1 i1 b2 i2 HL N1 N2|c id1 id2 D b1 i1 b2 i2 f1 f2 HL F1 F2];
    intros s1 s2 p1 p2 Ec Eb1 Ei1 Eb2 Ei2 HR Hr1 Hr2 W1 W2; pose proof HR as [Hsc HQ].
  - (* identical stacks *)
    assert (Same : LRs s1 s2).
    { unfold LRs. rewrite Eb1, Eb2, Ei1, Ei2. repeat (split; [assumption|]). split; [apply SR_same|]. split; assumption. }
    left. destruct b as [|[id [|d D]] o].
    + unfold lex_step. rewrite Eb1, Eb2. cbn [step_sim]. auto.
    + (* end of the current buffer *)
      unfold lex_step. rewrite Eb1, Eb2, <- Hsc. cbn [munch]. unfold run_eof.
      destruct (eof_action_of (l_sc s1)) as [[| | |k]|]; cbn [step_sim]; auto.
      rewrite Hr1, Hr2, Ei1, Ei2.
      destruct i as [|f rest]; [cbn [step_sim]; auto|].
      unfold cur_buf_id. rewrite Eb1, Eb2.
      destruct (Nat.eqb id (i_buf f)); [|cbn [step_sim]; auto].
      cbn [step_sim]. eapply LRs_pop; eauto. apply SR_same.
    + apply (step_commonD e s1 s2 p1 p2 HR Hr1 Hr2 W1 W2 id id d D o o Eb1 Eb2). intros c' D'. rewrite Ei1, Ei2. apply SR_same.
  - (* F's buffer over the includer's / the inlined text *)
    destruct G as [|g G].
    + (* F is exhausted: the include side pops *)
      right. assert (Ec' : c = INITIAL) by (inversion HI; reflexivity). rewrite Ec' in Ec.
      eexists _, _. split.
      * unfold lex_step. rewrite Eb1, Ec. cbn [munch]. rewrite eof_action_INITIAL. unfold run_eof.
        rewrite Hr1, Ei1. unfold cur_buf_id. rewrite Eb1, Hf, Nat.eqb_refl. reflexivity.
      * unfold LRs, Rq. cbn [scan_end set_inc l_sc l_q l_rderr l_bufs l_inc tl]. rewrite Eb1, Eb2, Ei2, <- Hsc, Ec. cbn [tl app].
        destruct HQ as (_ & Q2 & _).
        split; [split; [reflexivity|split; [apply q_inv_empty|split; [exact Q2|intros K; contradiction K; reflexivity]]]|].
        split; [exact Hr1|]. split; [exact Hr2|]. split; [apply SR_same|]. split; [|exact W2].
        unfold lex_wf in *. cbn [scan_end set_inc l_next l_inc]. rewrite Ei1 in W1. inversion W1; auto.
    + left. rewrite <- Ec in HI. inversion HI as [|c' g' G' j n r Hm1 Hm2 Hr HI' Ec' EG].
      pose proof (munch_some_len _ _ _ _ Hm1) as Hn.
      eapply (step_common e s1 s2 p1 p2 HR Hr1 Hr2 W1 W2 id1 id (g :: G) ((g :: G) ++ post) ((id, post) :: b) b j n r); eauto.
      * rewrite firstn_app_le by exact Hn. reflexivity.
      * rewrite Ei1, Ei2, skipn_app_le by exact Hn. apply SR_inl; assumption.
  - (* a buffer without frame (a default-value scan) *)
    left. destruct D as [|d D].
    + assert (N1' : nopop id1 (l_inc s1)) by (rewrite Ei1; exact N1).
      assert (N2' : nopop id2 (l_inc s2)) by (rewrite Ei2; exact N2).
      destruct (eof_nopop_step e s1 p1 id1 b1 Eb1 Hr1 N1') as (t & d & E1 & _ & G).
      destruct (G s2 p2 id2 b2 (eq_sym Hsc) Eb2 Hr2 N2') as (d' & E2 & Ed).
      rewrite E1, E2. cbn [step_sim]. split; [reflexivity|split; [reflexivity|split; [exact Ed|]]].
      unfold LRs. rewrite Eb1, Eb2, Ei1, Ei2, Ec. repeat (split; [assumption|]). split; [apply SR_buf; assumption|]. split; assumption.
    + apply (step_commonD e s1 s2 p1 p2 HR Hr1 Hr2 W1 W2 id1 id2 d D b1 b2 Eb1 Eb2). intros c' D'. rewrite Ei1, Ei2. apply SR_buf; assumption.
  - (* an include buffer present on both sides *)
    assert (Same : LRs s1 s2).
    { unfold LRs. rewrite Eb1, Eb2, Ei1, Ei2, Ec. repeat (split; [assumption|]). split; [apply SR_inc; assumption|]. split; assumption. }
    left. destruct D as [|d D].
    + unfold lex_step. rewrite Eb1, Eb2, <- Hsc. cbn [munch]. unfold run_eof.
      destruct (eof_action_of (l_sc s1)) as [[| | |k]|]; cbn [step_sim]; auto.
      rewrite Hr1, Hr2, Ei1, Ei2. unfold cur_buf_id. rewrite Eb1, Eb2, F1, F2, !Nat.eqb_refl.
      cbn [step_sim]. eapply LRs_pop; eauto.
    + apply (step_commonD e s1 s2 p1 p2 HR Hr1 Hr2 W1 W2 id1 id2 d D b1 b2 Eb1 Eb2). intros c' D'. rewrite Ei1, Ei2. apply SR_inc; assumption.
Qed.

Lemma lex_step_LRs e s1 s2 p1 p2 : LRs s1 s2 ->
  step_sim (lex_step e s1 p1) (lex_step e s2 p2) \/
  exists a q, lex_step e s1 p1 = LCont a q 1 /\ LRs a s2.
Proof.
  intros (HR & Hr1 & Hr2 & HS & W1 & W2).
  eapply lex_step_SR; eauto.
Qed.

(* ---- cfg_yylex: the inline side never needs more iterations than the include side ---- *)
Lemma yylex_LRs e : forall f1 f2 s1 s2 p1 p2 c1 c2, LRs s1 s2 -> f1 <= f2 ->
  r_fuel_out (yylex e f1 s1 p1 c1) = false ->
  r_fuel_out (yylex e f2 s2 p2 c2) = false /\
  r_tok (yylex e f1 s1 p1 c1) = r_tok (yylex e f2 s2 p2 c2) /\
  r_val (yylex e f1 s1 p1 c1) = r_val (yylex e f2 s2 p2 c2) /\
  map d_fmt (r_diags (yylex e f1 s1 p1 c1)) = map d_fmt (r_diags (yylex e f2 s2 p2 c2)) /\
  LRs (r_st (yylex e f1 s1 p1 c1)) (r_st (yylex e f2 s2 p2 c2)).
Proof.
  induction f1 as [|f1 IH]; intros f2 s1 s2 p1 p2 c1 c2 HL Hf Ho; [cbn [yylex r_fuel_out] in Ho; discriminate|].
  destruct f2 as [|f2]; [lia|].
  destruct (lex_step_LRs e s1 s2 p1 p2 HL) as [H|(a & q & E & HL')].
  - cbn [yylex] in *.
    destruct (lex_step e s1 p1) as [a1 q1 k1|t1 v1 a1 q1 d1 k1]; destruct (lex_step e s2 p2) as [a2 q2 k2|t2 v2 a2 q2 d2 k2];
      cbn [step_sim] in H; try contradiction.
    + apply IH; [exact H|lia|exact Ho].
    + destruct H as (A & B & C & D). cbn [r_fuel_out r_tok r_val r_diags r_st]. auto.
  - change (yylex e (S f1) s1 p1 c1) with
      (match lex_step e s1 p1 with
       | LCont s2 p2 k => yylex e f1 s2 p2 (k + c1)
       | LRet t v s2 p2 d k => {| r_tok := t; r_val := v; r_st := s2; r_pos := p2; r_diags := d; r_closed := k + c1; r_fuel_out := false |}
       end) in *.
    rewrite E in *. apply IH; [exact HL'|lia|exact Ho].
Qed.

(* a token other than TErr leaves the scanner in INITIAL *)
Lemma lex_step_ret_sc e s p : (l_bufs s = [] -> l_sc s = INITIAL) ->
  match lex_step e s p with
  | LCont s2 _ _ => l_bufs s2 = [] -> l_sc s2 = INITIAL
  | LRet t _ s2 _ _ _ => t <> TErr -> l_sc s2 = INITIAL
  end.
Proof.
  intros Jb. unfold lex_step. destruct (l_bufs s) as [|[id inp] others] eqn:Hb.
  - intros _. apply Jb. reflexivity.
  - destruct (munch (active_res (l_sc s)) inp 0 None) as [[i n]|] eqn:Hm.
    + destruct (nth_error (active_rules (l_sc s)) i) as [r|] eqn:Hn.
      * pose proof (run_action_frame e (r_act r) (firstn n inp) (set_bufs s ((id, skipn n inp) :: others)) p) as (Hfb & _).
        pose proof (run_action_ret_sc e (r_act r) (firstn n inp) (set_bufs s ((id, skipn n inp) :: others)) p) as Hsc.
        destruct (run_action e (r_act r) (firstn n inp) (set_bufs s ((id, skipn n inp) :: others)) p) as [s2 p2|t v s2 p2 d];
          cbn [out_state ret_sc_ok] in *; cbn [set_bufs l_bufs l_sc] in *.
        -- rewrite Hfb. discriminate.
        -- intros Ht. destruct (Hsc Ht) as [H|[Hk H]]; [exact H|]. rewrite H. apply (keep_only_initial _ _ _ Hn Hk).
      * intros H; contradiction H; reflexivity.
    + destruct inp as [|c rest].
      * unfold run_eof. destruct (eof_action_of (l_sc s)) as [[| | |k]|] eqn:He; try (intros H; contradiction H; reflexivity).
        apply eof_pop_only_initial in He.
        destruct (l_rderr s); [intros H; contradiction H; reflexivity|].
        destruct (l_inc s) as [|f rest]; [intros _; exact He|].
        destruct (match cur_buf_id s with Some id0 => Nat.eqb id0 (i_buf f) | None => false end); [|intros _; exact He].
        intros _. reflexivity.
      * cbn [add_echo set_bufs l_bufs]. discriminate.
Qed.

Lemma yylex_ret_sc e : forall fuel s p closed, (l_bufs s = [] -> l_sc s = INITIAL) ->
  r_tok (yylex e fuel s p closed) <> TErr -> l_sc (r_st (yylex e fuel s p closed)) = INITIAL.
Proof.
  induction fuel as [|fuel IH]; intros s p closed Jb; cbn [yylex].
  - cbn [r_tok]. intros H; contradiction H; reflexivity.
  - pose proof (lex_step_ret_sc e s p Jb) as H.
    destruct (lex_step e s p) as [s2 p2 k|t v s2 p2 d k]; [apply IH, H|exact H].
Qed.

(* ================================================================== *)
(* E.  computing `delivers` (for examples)                              *)
(* ================================================================== *)
Fixpoint lex_n (e : envt) (n : nat) (s : lexst) (p : pos) : option (list ltok * lexst * pos) :=
  match n with
  | O => Some ([], s, p)
  | S n' =>
      let r := yylex e (lex_fuel s) s p 0 in
      match r_tok r with
      | TEof | TErr => None
      | t => match lex_n e n' (r_st r) (r_pos r) with
             | Some (ts, s', p') => Some ({| lt_tok := t; lt_val := r_val r; lt_line := p_line (r_pos r) |} :: ts, s', p')
             | None => None
             end
      end
  end.

Lemma tok_at_tok_step e s t v s' : tok_at e s t v s' -> tok_step e s t v s' 0.
Proof. intros [_ H]. exact H. Qed.

Lemma lex_n_delivers e : forall n s p ts s' p', l_inc s = [] -> lex_n e n s p = Some (ts, s', p') ->
  delivers e s ts 0 s' /\ l_inc s' = [].
Proof.
  induction n as [|n IH]; intros s p ts s' p' Hi H; cbn [lex_n] in H.
  - injection H as <- <- <-. split; [constructor|exact Hi].
  - cbv zeta in H.
    pose proof (tok_at_pos_indep e s p) as HT. cbv zeta in HT. specialize (HT Hi).
    destruct (yylex_noinc e (lex_fuel s) s p 0 Hi) as [_ HI].
    set (r := yylex e (lex_fuel s) s p 0) in *.
    assert (G : forall t, r_tok r = t -> t <> TEof -> t <> TErr ->
      match lex_n e n (r_st r) (r_pos r) with
      | Some (ts0, s0, p0) => Some ({| lt_tok := t; lt_val := r_val r; lt_line := p_line (r_pos r) |} :: ts0, s0, p0)
      | None => None end = Some (ts, s', p') -> delivers e s ts 0 s' /\ l_inc s' = []).
    { intros t Et N1 N2 H'. destruct (lex_n e n (r_st r) (r_pos r)) as [[[ts0 s0] p0]|] eqn:E; [|discriminate].
      injection H' as <- <- <-. destruct (IH _ _ _ _ _ HI E) as [D I0]. split; [|exact I0].
      change 0 with (0 + 0). eapply D_cons; cbn [lt_tok lt_val]; [exact N1|exact N2| |exact D].
      apply tok_at_tok_step. rewrite <- Et. apply HT. congruence. }
    destruct (r_tok r) eqn:Et; try discriminate.
    + apply (G TStr); auto; discriminate.
    + apply (G TComment); auto; discriminate.
    + apply (G (TPunct c)); auto; discriminate.
Qed.
