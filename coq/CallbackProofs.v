(* CallbackProofs.v — lemmas for C14: the scripted user callbacks (parse / validate / validate2 /
   function) see exactly the parsed items, and their verdict binds. *)
From Coq Require String.
Import String.StringSyntax.
From Coq Require Import List Arith NArith ZArith Bool Lia.
From Coq.Strings Require Import Byte.
From LC Require Import Bytes Consts Conv Flex LexAct Lexer Files Store Parser Api HdrProofs ApiProofs.
Import ListNotations.
Local Open Scope string_scope.
Local Open Scope list_scope.

(* ================================================================== *)
(* vocabulary                                                           *)
(* ================================================================== *)

(* the verdict of a logged invocation; a release (CbFree) is not a verdict *)
Definition failed_entry (e : cbent) : bool :=
  match e with
  | CbParse _ _ _ f => f
  | CbValid _ _ _ f => f
  | CbValid2 _ _ _ f => f
  | CbFunc _ _ _ f => f
  | CbFree _ => false
  end.

(* an invocation of a scripted callback (it went through `tick`), as opposed to a release *)
Definition is_call (e : cbent) : bool := match e with CbFree _ => false | _ => true end.

(* no entry carries a failed verdict *)
Definition clean (l : list cbent) : Prop := forallb (fun e => negb (failed_entry e)) l = true.

(* number of callback invocations among the entries *)
Definition calls (l : list cbent) : nat := length (filter is_call l).

(* the most recent entry is a failed one and it is the only failed one *)
Definition headfail (l : list cbent) : Prop :=
  exists e rest, l = e :: rest /\ failed_entry e = true /\ clean rest.

(* the log only grows *)
Definition fresh (w w' : pw) : Prop := exists new, w_cbs w' = new ++ w_cbs w.

(* what the script says about invocation number n *)
Definition script_fails (fa n : N) : bool := negb (fa =? 0)%N && (n =? fa)%N.

(* the entries l, oldest first, are what the script dictates from counter value n on:
   the i-th invocation among them carries the verdict of invocation n + i *)
Fixpoint script_ok (n fa : N) (l : list cbent) : Prop :=
  match l with
  | [] => True
  | e :: r => if is_call e
              then failed_entry e = script_fails fa (n + 1) /\ script_ok (n + 1) fa r
              else script_ok n fa r
  end.

(* the invariant carried through cfg_setopt / cfg_init_defaults / cfg_parse_internal:
   `err` says whether the step reported an error to its caller *)
Definition R (w w' : pw) (err : bool) : Prop :=
  w_failat w' = w_failat w /\
  (w_crash w' = None -> w_crash w = None) /\
  exists new, w_cbs w' = new ++ w_cbs w /\
    w_cnt w' = (w_cnt w + N.of_nat (calls new))%N /\
    script_ok (w_cnt w) (w_failat w) (rev new) /\
    (w_crash w' = None -> clean new \/ (err = true /\ headfail new)).

(* a step that does not touch the callback state *)
Definition Q (w w' : pw) : Prop :=
  w_failat w' = w_failat w /\ w_cbs w' = w_cbs w /\ w_cnt w' = w_cnt w /\
  (w_crash w' = None -> w_crash w = None).

Lemma clean_app a b : clean (a ++ b) <-> clean a /\ clean b.
Proof. unfold clean. rewrite forallb_app. apply andb_true_iff. Qed.

Lemma calls_app a b : calls (a ++ b) = calls a + calls b.
Proof. unfold calls. rewrite filter_app, app_length. reflexivity. Qed.

Lemma clean_nil : clean []. Proof. reflexivity. Qed.

Lemma calls_rev l : calls (rev l) = calls l.
Proof.
  induction l as [|a l IH]; [reflexivity|]. cbn [rev]. rewrite calls_app, IH.
  unfold calls. cbn [filter]. destruct (is_call a); cbn [length]; lia.
Qed.

Lemma script_ok_app fa l1 : forall n l2,
  script_ok n fa (l1 ++ l2) <-> script_ok n fa l1 /\ script_ok (n + N.of_nat (calls l1)) fa l2.
Proof.
  induction l1 as [|e l1 IH]; intros n l2.
  - cbn [app script_ok]. unfold calls. cbn [filter length N.of_nat]. rewrite N.add_0_r. tauto.
  - cbn [app script_ok]. unfold calls. cbn [filter]. fold (calls l1).
    destruct (is_call e).
    + cbn [length]. rewrite IH. rewrite Nat2N.inj_succ.
      replace (n + 1 + N.of_nat (calls l1))%N with (n + N.succ (N.of_nat (calls l1)))%N by lia. tauto.
    + apply IH.
Qed.

Lemma Q_refl w : Q w w.
Proof. repeat split; auto. Qed.

Lemma Q_R w w' e : Q w w' -> R w w' e.
Proof.
  intros [F [C [N K]]]. split; [exact F|]. split; [exact K|].
  exists []. split; [exact C|]. split; [|split].
  - rewrite N. unfold calls. cbn [filter length N.of_nat]. rewrite N.add_0_r. reflexivity.
  - exact I.
  - intros _. left. exact clean_nil.
Qed.

Lemma R_refl w e : R w w e.
Proof. apply Q_R, Q_refl. Qed.

Lemma R_trans a b c e : R a b false -> R b c e -> R a c e.
Proof.
  intros [F1 [K1 [n1 [C1 [N1 [S1 V1]]]]]] [F2 [K2 [n2 [C2 [N2 [S2 V2]]]]]].
  split; [congruence|]. split; [auto|].
  exists (n2 ++ n1). split; [rewrite C2, C1, app_assoc; reflexivity|]. split; [|split].
  - rewrite N2, N1, calls_app, Nat2N.inj_add. lia.
  - rewrite rev_app_distr. apply script_ok_app. split; [exact S1|].
    rewrite calls_rev, <- N1, <- F1. exact S2.
  - intro K. pose proof (K2 K) as Kb.
    destruct (V1 Kb) as [CL1|[X _]]; [|discriminate].
    destruct (V2 K) as [CL2|[E [x [rest [-> [Fx CR]]]]]].
    + left. apply clean_app. split; assumption.
    + right. split; [exact E|]. exists x, (rest ++ n1). split; [reflexivity|]. split; [exact Fx|].
      apply clean_app. split; assumption.
Qed.

Lemma R_weaken a b e : R a b false -> R a b e.
Proof.
  intros [F [K [n [C [N [S V]]]]]]. split; [exact F|]. split; [exact K|].
  exists n. split; [exact C|]. split; [exact N|]. split; [exact S|].
  intro H. destruct (V H) as [CL|[X _]]; [left; exact CL|discriminate].
Qed.

Lemma R_Q a b c e : R a b e -> Q b c -> R a c e.
Proof.
  intros [F [K [n [C [N [S V]]]]]] [F2 [C2 [N2 K2]]].
  split; [congruence|]. split; [auto|].
  exists n. split; [congruence|]. split; [congruence|]. split; [exact S|]. auto.
Qed.

(* once the crash marker is set nothing is claimed about verdicts *)
Lemma R_set_crash a b e e' k : R a b e -> R a (set_crash b k) e'.
Proof.
  intros [F [K [n [C [N [S V]]]]]].
  assert (X : w_crash (set_crash b k) <> None).
  { unfold set_crash. cbn [w_crash]. destruct (w_crash b); discriminate. }
  split; [exact F|]. split; [intro H; contradiction|].
  exists n. split; [exact C|]. split; [exact N|]. split; [exact S|]. intro H; contradiction.
Qed.

Lemma R_add_diags a b e d : R a b e -> R a (add_diags b d) e.
Proof. intro H. eapply R_Q; [exact H|]. repeat split; auto. Qed.

Lemma R_set_oof a b e : R a b e -> R a (set_oof b) e.
Proof. intro H. eapply R_Q; [exact H|]. repeat split; auto. Qed.

Lemma R_upd_lex a b e l : R a b e -> R a (upd_lex b l) e.
Proof. intro H. eapply R_Q; [exact H|]. repeat split; auto. Qed.

Lemma R_set_open a b e n : R a b e -> R a (set_open b n) e.
Proof. intro H. eapply R_Q; [exact H|]. repeat split; auto. Qed.

Lemma R_set_nextptr a b e n : R a b e -> R a (set_nextptr b n) e.
Proof. intro H. eapply R_Q; [exact H|]. repeat split; auto. Qed.

(* ================================================================== *)
(* one-step facts                                                       *)
(* ================================================================== *)

Lemma R_add_free w id : R w (add_cb w (CbFree id)) false.
Proof.
  split; [reflexivity|]. split; [auto|].
  exists [CbFree id]. split; [reflexivity|]. split; [|split].
  - unfold calls. cbn [add_cb w_cnt filter is_call length N.of_nat]. rewrite N.add_0_r. reflexivity.
  - exact I.
  - intros _. left. reflexivity.
Qed.

Lemma R_log_frees ids : forall w, R w (log_frees w ids) false.
Proof.
  unfold log_frees. induction ids as [|id ids IH]; intro w; cbn [fold_left].
  - apply R_refl.
  - eapply R_trans; [apply R_add_free|apply IH].
Qed.

(* one scripted invocation: counter + 1, one entry, the verdict is the entry's flag *)
Lemma R_tick w e :
  is_call e = true -> failed_entry e = snd (tick w) ->
  R w (add_cb (fst (tick w)) e) (snd (tick w)).
Proof.
  intros IC FE. unfold tick in *. cbv zeta in *. cbn [fst snd] in *.
  split; [reflexivity|]. split; [auto|].
  exists [e]. split; [reflexivity|]. split; [|split].
  - unfold calls. cbn [add_cb set_cnt w_cnt filter]. rewrite IC. reflexivity.
  - cbn [rev app script_ok]. rewrite IC. split; [exact FE|exact I].
  - intros _. unfold clean, headfail. cbn [forallb]. rewrite FE.
    destruct (negb (w_failat w =? 0)%N && (w_cnt w + 1 =? w_failat w)%N) eqn:E.
    + right. split; [reflexivity|]. exists e, []. repeat split. rewrite FE. reflexivity.
    + left. reflexivity.
Qed.

Lemma R_run_validcb w o : R w (fst (run_validcb w o)) (snd (run_validcb w o)).
Proof.
  unfold run_validcb. destruct (cb_valid (o_cbs o)) as [k|]; [|apply R_refl].
  pose proof (R_tick w (CbValid k (o_name o) (length (o_vals o)) (snd (tick w))) eq_refl eq_refl) as H.
  destruct (tick w) as [w1 f]. exact H.
Qed.

Lemma R_run_parsecb w k o v : R w (fst (run_parsecb w k o v)) (snd (run_parsecb w k o v)).
Proof.
  unfold run_parsecb.
  pose proof (R_tick w (CbParse k (o_name o) v (snd (tick w))) eq_refl eq_refl) as H.
  destruct (tick w) as [w1 f]. exact H.
Qed.

Lemma R_run_validcb2 w o a :
  R w (fst (fst (run_validcb2 w o a))) (snd (run_validcb2 w o a)).
Proof.
  unfold run_validcb2. destruct (cb_valid2 (o_cbs o)) as [k|]; [|apply R_refl].
  pose proof (R_tick w (CbValid2 k (o_name o) a (snd (tick w))) eq_refl eq_refl) as H.
  destruct (tick w) as [w1 f]. exact H.
Qed.

Lemma R_handle_deprecated w c r : R w (fst (handle_deprecated w c r)) false.
Proof.
  unfold handle_deprecated. destruct (get_opt c r) as [o|]; [|apply R_refl].
  destruct (oflag o CFGF_DEPRECATED); [|apply R_refl].
  destruct (oflag o CFGF_DROP).
  - destruct (free_value o) as [o1 fr]. unfold fst.
    eapply R_trans; [apply R_add_diags, R_refl|apply R_log_frees].
  - unfold fst. apply R_add_diags, R_refl.
Qed.

Lemma Q_lexer_include w c a : Q w (fst (fst (lexer_include w c a))).
Proof.
  unfold lexer_include. destruct (Nat.leb _ _); [repeat split; auto|].
  destruct (match w_path w with [] => _ | _ => _ end); [|repeat split; auto].
  destruct (open_input _ _); repeat split; auto.
Qed.

Lemma Q_next_token fl w c : Q w (fst (fst (fst (next_token fl w c)))).
Proof.
  unfold next_token. generalize (yylex (w_env w) fl (w_lex w) (c_pos c) 0). intro r.
  cbv zeta. unfold fst.
  destruct (r_fuel_out r); destruct (c_err c); repeat split; auto.
Qed.

Lemma R_upd_lex_l a l b e : R (upd_lex a l) b e -> R a b e.
Proof. intro H. eapply R_trans; [apply R_upd_lex, R_refl|exact H]. Qed.

Lemma R_true a b e : R a b e -> R a b true.
Proof.
  intros [F [K [n [C [N [S V]]]]]]. split; [exact F|]. split; [exact K|].
  exists n. split; [exact C|]. split; [exact N|]. split; [exact S|].
  intro H. destruct (V H) as [CL|[_ HF]]; [left; exact CL|right; split; [reflexivity|exact HF]].
Qed.

(* does cfg_setopt hand the text of this option to a parse callback? *)
Definition parses (o : opt) : bool :=
  match o_kind o with
  | KInt | KFloat | KStr | KBool | KPtr => match cb_parse (o_cbs o) with Some _ => true | None => false end
  | _ => false
  end.

Lemma parses_frame o o' : frame o o' -> parses o' = parses o.
Proof. intros [Hn Hk Hs Hd Hc Hf Hm]. unfold parses. rewrite Hk, Hc. reflexivity. Qed.

Definition isnone {A} (x : option A) : bool := match x with None => true | Some _ => false end.
Definition isperr (rc : prc) : bool := match rc with PERR => true | _ => false end.

(* find a path through the worlds met so far *)
Ltac chain :=
  first
  [ eassumption
  | apply R_refl
  | apply R_weaken; eassumption
  | eapply R_true; eassumption
  | match goal with H : R ?a _ false |- R ?a _ _ => eapply R_trans; [exact H|]; chain end ].

Ltac wrap :=
  repeat first [ apply R_add_diags | apply R_set_oof | apply R_upd_lex | apply R_set_open
               | apply R_set_nextptr | eapply R_set_crash ].

(* ================================================================== *)
(* cfg_setopt, one level                                                *)
(* ================================================================== *)

Section SoBody.
Variable sd : str -> strtod_res.
Variable initd : pw -> cfg -> pw * cfg.
Hypothesis Hinit : forall w c, R w (fst (initd w c)) false.

Lemma R_so_reset w o : R w (fst (so_reset w o)) false.
Proof.
  unfold so_reset. destruct (oflag o CFGF_RESET); [|apply R_refl].
  destruct (free_value o) as [x fr]. unfold fst. apply R_log_frees.
Qed.

Lemma R_so_slot c w0 o0 txt w1 o1 idx :
  so_slot c w0 o0 txt = Some (w1, o1, idx) -> R w0 w1 false.
Proof.
  unfold so_slot. cbv zeta.
  destruct (Nat.eqb (length (o_vals o0)) 0 || oflag o0 CFGF_MULTI || oflag o0 CFGF_LIST).
  - destruct (kind_eqb (o_kind o0) KSec && oflag o0 CFGF_TITLE).
    + destruct (negb (Nat.eqb (length (o_vals o0)) 0) && match txt with None => true | Some _ => false end); [discriminate|].
      destruct (so_look c txt (o_vals o0) 0) as [[j|]|].
      * destruct (oflag o0 CFGF_NO_TITLE_DUPES); [discriminate|].
        intro H; injection H as <- _ _. apply R_refl.
      * intro H; injection H as <- _ _. apply R_refl.
      * intro H; injection H as <- _ _. eapply R_set_crash. apply (R_refl w0 false).
    + intro H; injection H as <- _ _. apply R_refl.
  - intro H; injection H as <- _ _. apply R_refl.
Qed.

Definition RS (w : pw) (o : opt) (res : pw * opt * option nat) : Prop :=
  R w (fst (fst res)) (isnone (snd res) && parses o).

Ltac pcb :=
  match goal with
  | |- context [run_parsecb ?w ?k ?o ?t] =>
      let H := fresh "PC" in
      pose proof (R_run_parsecb w k o t) as H;
      destruct (run_parsecb w k o t) as [? [|]]; cbn [fst snd] in H
  end.

Ltac fin := unfold RS, so_store; cbn [fst snd isnone andb]; wrap; chain.

Lemma R_so_conv c w1 o1 idx txt : RS w1 o1 (so_conv sd initd c w1 o1 idx txt).
Proof.
  unfold so_conv, RS, parses. cbv zeta.
  destruct (o_kind o1).
  - fin.
  - destruct (cb_parse (o_cbs o1)); [pcb; fin|].
    destruct txt; [|fin]. destruct (conv_int s); fin.
  - destruct (cb_parse (o_cbs o1)); [pcb; fin|].
    destruct txt; [|fin]. destruct (conv_float sd s); fin.
  - destruct (cb_parse (o_cbs o1)); [pcb; fin|].
    destruct txt; fin.
  - destruct (cb_parse (o_cbs o1)); [pcb; fin|].
    destruct txt; [|fin]. destruct (conv_bool s); fin.
  - destruct (oflag o1 CFGF_MULTI || _).
    + match goal with |- context [initd ?w ?c] =>
        pose proof (Hinit w c) as HI; destruct (initd w c) as [w3 sec']; cbn [fst] in HI end.
      destruct (nth_error (o_vals o1) idx) as [[| | | |[s|]|]|].
      all: try fin.
      pose proof (R_log_frees (frees_c s) w1). fin.
    + fin.
  - fin.
  - destruct (cb_parse (o_cbs o1)); [|fin].
    pcb; [fin|].
    destruct (nth_error (o_vals o1) idx) as [[| | | | |old]|]; try fin.
    destruct (cb_free (o_cbs o1) && negb (old =? 0)%N); [|fin].
    unfold RS, so_store; cbn [fst snd isnone andb].
    eapply R_trans; [|apply R_add_free]. wrap. chain.
Qed.

Lemma R_so_body w c o txt : RS w o (so_body sd initd w c o txt).
Proof.
  unfold so_body.
  pose proof (R_so_reset w o) as H0. pose proof (frame_so_reset w o) as F0.
  destruct (so_reset w o) as [w0 o0]. unfold fst in H0. unfold snd in F0.
  destruct (so_slot c w0 o0 txt) as [[[w1 o1] idx]|] eqn:S.
  - pose proof (so_slot_frame _ _ _ _ _ _ _ S) as F1.
    apply R_so_slot in S. pose proof (R_so_conv c w1 o1 idx txt) as H. unfold RS in *.
    rewrite (parses_frame _ _ F1), (parses_frame _ _ F0) in H. chain.
  - destruct (_ && _ && _ && _); fin.
Qed.
End SoBody.

(* ================================================================== *)
(* cfg_init_defaults and cfg_parse_internal, one level                  *)
(* ================================================================== *)

Section Bodies.
Variable so : pw -> cfg -> opt -> option str -> pw * opt * option nat.
Variable pi : pw -> cfg -> nat -> pst -> pw * cfg * prc.
Hypothesis Hso : forall w c o txt,
  R w (fst (fst (so w c o txt))) (isnone (snd (so w c o txt)) && parses o).
Hypothesis Hpi : forall w c l p, R w (fst (fst (pi w c l p))) (isperr (snd (pi w c l p))).

Lemma id_loop_R todo : forall i w c, R w (fst (id_loop so pi todo i w c)) false.
Proof.
  induction todo as [|x todo IH]; intros i w c; [apply R_refl|].
  cbn [id_loop]. fold (id_loop so pi).
  destruct (nth_error (c_opts c) i) as [o|]; [|apply R_refl].
  cbv zeta.
  match goal with |- context [if ?d then add_diags w ?m else w] =>
    remember (if d then add_diags w m else w) as w1 eqn:E;
    assert (H1 : R w w1 false) by (subst w1; destruct d; [apply R_add_diags|]; apply R_refl); clear E end.
  destruct (oflag o CFGF_NODEFAULT); [eapply R_trans; [|apply IH]; chain|].
  destruct (kind_eqb (o_kind o) KSec) eqn:K; cbn [negb].
  - destruct (negb (oflag o CFGF_MULTI)); [|eapply R_trans; [|apply IH]; chain].
    pose proof (Hso w1 c o None) as H.
    destruct (so w1 c o None) as [[w2 o1] res]. cbn [fst snd] in H.
    apply kind_eqb_eq in K. unfold parses in H. rewrite K, andb_false_r in H.
    eapply R_trans; [|apply IH]; chain.
  - destruct (oflag (o_setf o CFGF_DEFINIT) CFGF_LIST || _).
    + destruct (d_parsed (o_def (o_setf o CFGF_DEFINIT))) as [[|b buf]|].
      * eapply R_trans; [|apply IH]; chain.
      * match goal with |- context [pi ?a ?b ?c ?d] =>
          pose proof (Hpi a b c d) as H; destruct (pi a b c d) as [[w2 c2] rc] end.
        cbn [fst snd] in H. apply R_upd_lex_l in H.
        destruct rc; cbn [isperr] in H.
        -- eapply R_trans; [|apply IH]. wrap. chain.
        -- eapply R_trans; [|apply IH]. wrap. chain.
        -- unfold fst. eapply R_set_crash. apply R_upd_lex. eapply R_trans; [exact H1|exact H].
      * eapply R_trans; [|apply IH]; chain.
    + eapply R_trans; [|apply IH]; chain.
Qed.

Definition RR (w : pw) (res : pw * cfg * prc) : Prop := R w (fst (fst res)) (isperr (snd res)).

Ltac rsimp H := cbn [fst snd isnone isperr andb] in H.

Ltac leaf := unfold RR; cbn [fst snd isperr]; wrap; chain.

(* the innermost scrutinee of the match at the head *)
Ltac scrut x k :=
  lazymatch x with
  | match ?y with _ => _ end => scrut y k
  | _ => k x
  end.

(* the world a call starts from may be a wrapped one *)
Ltac src w :=
  lazymatch w with
  | log_frees ?a ?l => pose proof (R_log_frees l a); src a
  | add_diags ?a ?d => pose proof (R_add_diags a a false d (R_refl a false)); src a
  | _ => idtac
  end.

Ltac split_on x :=
  lazymatch x with
  | so ?w ?c ?o ?t =>
      let H := fresh "SO" in
      src w; pose proof (Hso w c o t) as H; destruct (so w c o t) as [[? ?] [?|]]; rsimp H
  | pi ?w ?c ?l ?p =>
      let H := fresh "PI" in
      src w; pose proof (Hpi w c l p) as H; destruct (pi w c l p) as [[? ?] [| |]]; rsimp H
  | handle_deprecated ?w ?c ?r =>
      let H := fresh "HD" in
      pose proof (R_handle_deprecated w c r) as H; destruct (handle_deprecated w c r) as [? ?]; rsimp H
  | lexer_include ?w ?c ?a =>
      let H := fresh "LI" in
      pose proof (Q_R _ _ false (Q_lexer_include w c a)) as H;
      destruct (lexer_include w c a) as [[? ?] [|]]; rsimp H
  | run_validcb ?w ?o =>
      let H := fresh "VC" in
      pose proof (R_run_validcb w o) as H; destruct (run_validcb w o) as [? [|]]; rsimp H
  | tick ?w =>
      let H := fresh "HT" in
      pose proof (R_tick w) as H; destruct (tick w) as [? [|]]; rsimp H;
      match goal with |- context [add_cb _ ?e] => specialize (H e eq_refl eq_refl) end
  | _ => destruct x
  end.

Ltac step :=
  lazymatch goal with
  | |- RR _ (match ?x with _ => _ end) => scrut x split_on
  | |- RR _ (pi ?w ?c ?l ?p) => split_on (pi w c l p)
  | |- RR _ (_, _, _) => leaf
  end.

Lemma pi_body_R fl w c level p : RR w (pi_body so pi fl w c level p).
Proof.
  unfold pi_body.
  pose proof (Q_R _ _ false (Q_next_token fl w c)) as NT.
  destruct (next_token fl w c) as [[[w1 c1] t] yylval]. cbn [fst] in NT.
  cbv zeta.
  repeat step.
Qed.
End Bodies.

(* ================================================================== *)
(* the three mutually recursive functions, by induction on the fuel     *)
(* ================================================================== *)

Lemma init_defaults_O sd w c : init_defaults sd 0 w c = (set_oof w, c).
Proof. reflexivity. Qed.

Lemma parse_internal_O sd w c l p : parse_internal sd 0 w c l p = (set_oof w, c, PERR).
Proof. reflexivity. Qed.

Lemma setopt_init_parse_R sd fuel :
  (forall w c o txt,
     R w (fst (fst (setopt sd fuel w c o txt))) (isnone (snd (setopt sd fuel w c o txt)) && parses o)) /\
  (forall w c, R w (fst (init_defaults sd fuel w c)) false) /\
  (forall w c l p,
     R w (fst (fst (parse_internal sd fuel w c l p))) (isperr (snd (parse_internal sd fuel w c l p)))).
Proof.
  induction fuel as [|fuel [IHs [IHi IHp]]].
  - split; [|split]; intros.
    + rewrite setopt_O. cbn [fst snd]. apply R_set_oof, R_refl.
    + rewrite init_defaults_O. cbn [fst snd]. apply R_set_oof, R_refl.
    + rewrite parse_internal_O. cbn [fst snd]. apply R_set_oof, R_refl.
  - split; [|split].
    + intros w c o txt. rewrite setopt_S.
      pose proof (R_so_body sd (init_defaults sd fuel) IHi w c o txt) as H. unfold RS in H. exact H.
    + intros w c. rewrite init_defaults_S. apply id_loop_R; assumption.
    + intros w c l p. rewrite parse_internal_S.
      pose proof (pi_body_R (setopt sd fuel) (parse_internal sd fuel) IHs IHp fuel w c l p) as H.
      unfold RR in H. exact H.
Qed.

(* ================================================================== *)
(* what the invariant says, in plain terms                              *)
(* ================================================================== *)

(* nothing is logged after a failed entry *)
Definition failed_is_last (new : list cbent) : Prop :=
  forall pre e post, new = pre ++ e :: post -> failed_entry e = true -> pre = [].

Definition some_failed (new : list cbent) : Prop := exists e, In e new /\ failed_entry e = true.

Lemma clean_no_failed new : clean new -> ~ some_failed new.
Proof.
  unfold clean. intros C [e [I F]]. rewrite forallb_forall in C. apply C in I. rewrite F in I. discriminate.
Qed.

Lemma clean_failed_is_last new : clean new -> failed_is_last new.
Proof.
  intros C pre e post -> F. exfalso. apply (clean_no_failed _ C).
  exists e. split; [apply in_or_app; right; left; reflexivity|exact F].
Qed.

Lemma headfail_failed_is_last new : headfail new -> failed_is_last new.
Proof.
  intros [x [rest [-> [Fx C]]]] pre e post E F.
  destruct pre as [|y pre]; [reflexivity|]. exfalso.
  cbn [app] in E. injection E as _ E. subst rest.
  apply (clean_no_failed _ C). exists e. split; [apply in_or_app; right; left; reflexivity|exact F].
Qed.

Lemma R_spec w w' err :
  R w w' err ->
  exists new,
    w_cbs w' = new ++ w_cbs w /\
    w_cnt w' = (w_cnt w + N.of_nat (calls new))%N /\
    w_failat w' = w_failat w /\
    script_ok (w_cnt w) (w_failat w) (rev new) /\
    (w_crash w' = None -> failed_is_last new /\ (some_failed new -> err = true)).
Proof.
  intros [F [K [new [C [N [SK V]]]]]]. exists new. repeat (split; [assumption|]).
  intro H. destruct (V H) as [CL|[E HF]].
  - split; [apply clean_failed_is_last; exact CL|]. intro S. exfalso. exact (clean_no_failed _ CL S).
  - split; [apply headfail_failed_is_last; exact HF|]. intros _. exact E.
Qed.

Lemma isperr_true rc : isperr rc = true -> rc = PERR.
Proof. destruct rc; [discriminate|discriminate|reflexivity]. Qed.

Section Verdict.
Variable sd : str -> strtod_res.

(* C14.1 for cfg_parse_internal *)
Lemma parse_internal_verdict fuel w c level p w' c' rc :
  parse_internal sd fuel w c level p = (w', c', rc) ->
  exists new,
    w_cbs w' = new ++ w_cbs w /\
    (w_crash w' = None -> failed_is_last new) /\
    (w_crash w' = None -> some_failed new -> rc = PERR).
Proof.
  intro E. destruct (setopt_init_parse_R sd fuel) as [_ [_ H]]. specialize (H w c level p).
  rewrite E in H. cbn [fst snd] in H. apply R_spec in H. destruct H as [new [C [_ [_ [_ V]]]]].
  exists new. split; [exact C|]. split.
  - intro K. apply V. exact K.
  - intros K S. apply isperr_true. apply V; assumption.
Qed.

(* C14.1 for cfg_setopt: a failed callback means NULL, and it was the option's parse callback *)
Lemma setopt_verdict fuel w c o txt w' o' res :
  setopt sd fuel w c o txt = (w', o', res) ->
  exists new,
    w_cbs w' = new ++ w_cbs w /\
    (w_crash w' = None -> failed_is_last new) /\
    (w_crash w' = None -> some_failed new -> res = None /\ parses o = true).
Proof.
  intro E. destruct (setopt_init_parse_R sd fuel) as [H _]. specialize (H w c o txt).
  rewrite E in H. cbn [fst snd] in H. apply R_spec in H. destruct H as [new [C [_ [_ [_ V]]]]].
  exists new. split; [exact C|]. split.
  - intro K. apply V. exact K.
  - intros K S. destruct (V K) as [_ V2]. specialize (V2 S). apply andb_true_iff in V2.
    destruct V2 as [V2 V3]. split; [|exact V3]. destruct res; [discriminate|reflexivity].
Qed.

(* C14.1 for cfg_init_defaults: a failed callback inside a default value is fatal (abort) *)
Lemma init_defaults_verdict fuel w c w' c' :
  init_defaults sd fuel w c = (w', c') ->
  exists new,
    w_cbs w' = new ++ w_cbs w /\
    (some_failed new -> w_crash w' <> None).
Proof.
  intro E. destruct (setopt_init_parse_R sd fuel) as [_ [H _]]. specialize (H w c).
  rewrite E in H. cbn [fst] in H. apply R_spec in H. destruct H as [new [C [_ [_ [_ V]]]]].
  exists new. split; [exact C|]. intros S K. destruct (V K) as [_ V2]. specialize (V2 S). discriminate.
Qed.

(* C14.2: one tick per logged invocation *)
Lemma counter_monotone fuel :
  (forall w c o txt, let w' := fst (fst (setopt sd fuel w c o txt)) in
     exists new, w_cbs w' = new ++ w_cbs w /\ w_cnt w' = (w_cnt w + N.of_nat (calls new))%N /\
                 (w_cnt w <= w_cnt w')%N /\ w_failat w' = w_failat w) /\
  (forall w c, let w' := fst (init_defaults sd fuel w c) in
     exists new, w_cbs w' = new ++ w_cbs w /\ w_cnt w' = (w_cnt w + N.of_nat (calls new))%N /\
                 (w_cnt w <= w_cnt w')%N /\ w_failat w' = w_failat w) /\
  (forall w c l p, let w' := fst (fst (parse_internal sd fuel w c l p)) in
     exists new, w_cbs w' = new ++ w_cbs w /\ w_cnt w' = (w_cnt w + N.of_nat (calls new))%N /\
                 (w_cnt w <= w_cnt w')%N /\ w_failat w' = w_failat w).
Proof.
  destruct (setopt_init_parse_R sd fuel) as [Hs [Hi Hp]].
  split; [|split]; cbv zeta; intros.
  - destruct (R_spec _ _ _ (Hs w c o txt)) as [new [C [N [F _]]]]. exists new. split; [exact C|]. split; [exact N|]. split; [rewrite N; apply N.le_add_r|exact F].
  - destruct (R_spec _ _ _ (Hi w c)) as [new [C [N [F _]]]]. exists new. split; [exact C|]. split; [exact N|]. split; [rewrite N; apply N.le_add_r|exact F].
  - destruct (R_spec _ _ _ (Hp w c l p)) as [new [C [N [F _]]]]. exists new. split; [exact C|]. split; [exact N|]. split; [rewrite N; apply N.le_add_r|exact F].
Qed.
End Verdict.

(* ================================================================== *)
(* C14.3: the parse callback contract of one cfg_setopt call            *)
(* ================================================================== *)

(* what the scripted parse callback k stores for the text it was handed *)
Definition scripted_value (kd : kind) (k : N) (txt : option str) : value :=
  match kd with
  | KInt => VInt (Z.of_nat (strlen_opt txt) + Z.of_N k)
  | KFloat => VFloat (double_of_N (N.of_nat (strlen_opt txt) + k))
  | KStr => VStr (Some (rev (sval txt)))
  | KBool => VBool (Nat.odd (strlen_opt txt))
  | _ => VPtr 0
  end.

(* the option after the RESET drop at the head of cfg_setopt *)
Definition reset_drop (o : opt) : opt :=
  if oflag o CFGF_RESET then o_clrf (fst (free_value o)) CFGF_RESET else o.
Definition reset_frees (o : opt) : list N :=
  if oflag o CFGF_RESET then snd (free_value o) else [].

Lemma so_reset_eq w o : so_reset w o = (log_frees w (reset_frees o), reset_drop o).
Proof.
  unfold so_reset, reset_frees, reset_drop. destruct (oflag o CFGF_RESET); [|reflexivity].
  destruct (free_value o) as [x fr]. reflexivity.
Qed.

Lemma log_frees_cbs ids : forall w, w_cbs (log_frees w ids) = rev (map CbFree ids) ++ w_cbs w.
Proof.
  unfold log_frees. induction ids as [|i ids IH]; intro w; cbn [fold_left map rev]; [reflexivity|].
  rewrite IH. cbn [add_cb w_cbs]. rewrite <- app_assoc. reflexivity.
Qed.

Lemma log_frees_cnt ids : forall w, w_cnt (log_frees w ids) = w_cnt w /\ w_failat (log_frees w ids) = w_failat w.
Proof.
  unfold log_frees. induction ids as [|i ids IH]; intro w; cbn [fold_left]; [split; reflexivity|].
  destruct (IH (add_cb w (CbFree i))) as [A B]. rewrite A, B. split; reflexivity.
Qed.

Lemma reset_drop_frame o : frame o (reset_drop o).
Proof. pose proof (frame_so_reset ex_w0 o) as H. rewrite so_reset_eq in H. exact H. Qed.

Lemma scalar_not_sec k : scalar_kind k -> kind_eqb k KSec = false.
Proof. intros [->|[->|[->| ->]]]; reflexivity. Qed.

Lemma so_slot_scalar c w0 o0 txt :
  scalar_kind (o_kind o0) ->
  so_slot c w0 o0 txt =
  if Nat.eqb (length (o_vals o0)) 0 || oflag o0 CFGF_MULTI || oflag o0 CFGF_LIST
  then Some (w0, addval o0, length (o_vals o0)) else Some (w0, o0, 0).
Proof.
  intro K. unfold so_slot. cbv zeta. rewrite (scalar_not_sec _ K). reflexivity.
Qed.

Lemma so_conv_scalar sd initd c w1 o1 idx txt k :
  scalar_kind (o_kind o1) -> cb_parse (o_cbs o1) = Some k ->
  so_conv sd initd c w1 o1 idx txt =
  let '(w2, f) := run_parsecb w1 k o1 txt in
  if f then (w2, o1, None) else so_store o1 idx w2 (scripted_value (o_kind o1) k txt).
Proof.
  intros K P. unfold so_conv. cbv zeta. rewrite P.
  destruct K as [K|[K|[K|K]]]; rewrite K; reflexivity.
Qed.

Lemma o_vals_store o l m : o_vals (o_setf (set_vals o l) m) = l.
Proof. destruct o; reflexivity. Qed.

Lemma parse_callback_contract sd fuel w c o txt k :
  scalar_kind (o_kind o) -> cb_parse (o_cbs o) = Some k ->
  let res := setopt sd (S fuel) w c o txt in
  let w' := fst (fst res) in
  let o' := snd (fst res) in
  let o0 := reset_drop o in
  let n := length (o_vals o0) in
  let appended := Nat.eqb n 0 || oflag o0 CFGF_MULTI || oflag o0 CFGF_LIST in
  let o1 := if appended then addval o0 else o0 in
  let idx := if appended then n else 0 in
  let f := snd (tick w) in
  let v := scripted_value (o_kind o) k txt in
  w_cbs w' = CbParse k (o_name o) txt f :: rev (map CbFree (reset_frees o)) ++ w_cbs w /\
  w_cnt w' = (w_cnt w + 1)%N /\
  (f = true -> snd res = None /\ o' = o1) /\
  (f = false ->
     snd res = Some idx /\
     o' = o_setf (set_vals o1 (upd_nth (o_vals o1) idx (fun _ => v))) CFGF_MODIFIED /\
     nth_error (o_vals o') idx = Some v).
Proof.
  intros K P. cbv zeta.
  rewrite setopt_S. unfold so_body. rewrite so_reset_eq.
  pose proof (reset_drop_frame o) as F0.
  set (o0 := reset_drop o) in *.
  assert (K0 : scalar_kind (o_kind o0)) by (rewrite (fr_kind _ _ F0); exact K).
  rewrite (so_slot_scalar c _ o0 txt K0).
  set (w0 := log_frees w (reset_frees o)).
  assert (F1 : frame o (if Nat.eqb (length (o_vals o0)) 0 || oflag o0 CFGF_MULTI || oflag o0 CFGF_LIST
                        then addval o0 else o0)).
  { destruct (_ || _ || _); [eapply frame_trans; [exact F0|apply frame_addval]|exact F0]. }
  assert (IDX : nth_error
            (upd_nth (o_vals (if Nat.eqb (length (o_vals o0)) 0 || oflag o0 CFGF_MULTI || oflag o0 CFGF_LIST
                              then addval o0 else o0))
                     (if Nat.eqb (length (o_vals o0)) 0 || oflag o0 CFGF_MULTI || oflag o0 CFGF_LIST
                      then length (o_vals o0) else 0)
                     (fun _ => scripted_value (o_kind o) k txt))
            (if Nat.eqb (length (o_vals o0)) 0 || oflag o0 CFGF_MULTI || oflag o0 CFGF_LIST
             then length (o_vals o0) else 0) = Some (scripted_value (o_kind o) k txt)).
  { destruct (Nat.eqb (length (o_vals o0)) 0) eqn:E0; cbn [orb].
    - unfold addval. rewrite o_vals_store. rewrite upd_nth_app_last. apply nth_error_app_last.
    - destruct (oflag o0 CFGF_MULTI || oflag o0 CFGF_LIST).
      + unfold addval. rewrite o_vals_store. rewrite upd_nth_app_last. apply nth_error_app_last.
      + destruct (o_vals o0) as [|x r]; [discriminate|]. reflexivity. }
  assert (TK : tick w0 = (set_cnt w0 (w_cnt w + 1)%N, snd (tick w))).
  { unfold tick. cbv zeta. unfold w0. destruct (log_frees_cnt (reset_frees o) w) as [A B].
    rewrite A, B. reflexivity. }
  assert (CB : w_cbs w0 = rev (map CbFree (reset_frees o)) ++ w_cbs w) by apply log_frees_cbs.
  match goal with |- context [if ?b then Some (w0, addval o0, ?n) else Some (w0, o0, 0)] =>
    replace (if b then Some (w0, addval o0, n) else Some (w0, o0, 0))
      with (Some (w0, (if b then addval o0 else o0), (if b then n else 0))) by (destruct b; reflexivity);
    generalize dependent (if b then addval o0 else o0);
    generalize (if b then n else 0)
  end.
  intros idx o1 F1 IDX.
  rewrite (so_conv_scalar sd _ c w0 o1 idx txt k);
    [|rewrite (fr_kind _ _ F1); exact K|rewrite (fr_cbs _ _ F1); exact P].
  unfold run_parsecb. rewrite TK. rewrite (fr_name _ _ F1), (fr_kind _ _ F1).
  destruct (snd (tick w)); unfold so_store; cbn [fst snd add_cb set_cnt w_cbs w_cnt]; rewrite CB.
  - split; [reflexivity|]. split; [reflexivity|]. split; [intros _; split; reflexivity|discriminate].
  - split; [reflexivity|]. split; [reflexivity|]. split; [discriminate|]. intros _.
    split; [reflexivity|]. split; [reflexivity|]. rewrite o_vals_store. exact IDX.
Qed.

(* ================================================================== *)
(* C14.4: cfg_setnint and the validate2 callback                        *)
(* ================================================================== *)

Lemma with_opt_resolved w c name f r o :
  fst (cfg_getopt c name) = Some r -> get_opt c r = Some o ->
  with_opt w c name f =
  let '(w1, o1, rc) := f (add_diags w (snd (cfg_getopt c name))) r o in (w1, put_opt c r o1, rc).
Proof.
  unfold with_opt. destruct (cfg_getopt c name) as [ro ds]. unfold fst at 1, snd at 1.
  intros -> G. rewrite G. reflexivity.
Qed.

Lemma opt_setn_world w o k v index :
  exists frees, fst (fst (opt_setn w o k v index)) = log_frees w frees.
Proof.
  unfold opt_setn. destruct (negb (kind_eqb (o_kind o) k)); [exists []; reflexivity|].
  destruct (opt_getval o index) as [[[o1 idx] fr]|]; [exists fr|exists []]; reflexivity.
Qed.

Lemma opt_setn_indep w w2 o k v index :
  snd (fst (opt_setn w o k v index)) = snd (fst (opt_setn w2 o k v index)) /\
  snd (opt_setn w o k v index) = snd (opt_setn w2 o k v index).
Proof.
  unfold opt_setn. destruct (negb (kind_eqb (o_kind o) k)); [split; reflexivity|].
  destruct (opt_getval o index) as [[[o1 idx] fr]|]; split; reflexivity.
Qed.

Lemma validate2_contract w c name z index r o k :
  fst (cfg_getopt c name) = Some r -> get_opt c r = Some o ->
  o_kind o = KInt -> cb_valid2 (o_cbs o) = Some k ->
  let res := cfg_setnint w c name z index in
  let w' := fst (fst res) in
  let c' := snd (fst res) in
  let f := snd (tick w) in
  let z' := if (k =? 1)%N then Z.abs z else z in
  (* exactly one validate2 invocation, shown the ORIGINAL value; releases may follow it *)
  (exists frees, w_cbs w' = rev (map CbFree frees) ++ CbValid2 k (o_name o) (V2Int z) f :: w_cbs w /\
                 (f = true -> frees = [])) /\
  w_cnt w' = (w_cnt w + 1)%N /\
  (* a veto: CFG_FAIL and the tree is the one passed in *)
  (f = true -> snd res = FAIL /\ c' = c) /\
  (* no veto: cfg_opt_setnint goes ahead with the (possibly rewritten) value *)
  (f = false ->
     c' = put_opt c r (snd (fst (opt_setn w o KInt (VInt z') index))) /\
     snd res = snd (opt_setn w o KInt (VInt z') index)) /\
  (f = false -> (index = 0%N \/ oflag o CFGF_LIST = true \/ oflag o CFGF_MULTI = true) ->
     snd res = OK /\
     exists o', c' = put_opt c r o' /\ o_vals o' = setn_vals o (VInt z') index).
Proof.
  intros Hres Hget K V. cbv zeta.
  unfold cfg_setnint. rewrite (with_opt_resolved _ _ _ _ _ _ Hres Hget).
  set (wd := add_diags w (snd (cfg_getopt c name))).
  assert (TK : tick wd = (set_cnt wd (w_cnt w + 1)%N, snd (tick w))) by reflexivity.
  unfold run_validcb2. rewrite V, TK.
  destruct (snd (tick w)) eqn:F.
  - cbn [fst snd add_cb set_cnt w_cbs w_cnt].
    split; [exists []; split; [reflexivity|reflexivity]|]. split; [reflexivity|].
    split; [intros _; split; [reflexivity|apply put_opt_same; exact Hget]|].
    split; [discriminate|discriminate].
  - set (w1 := add_cb (set_cnt wd (w_cnt w + 1)%N) (CbValid2 k (o_name o) (V2Int z) false)).
    assert (ZE : (match (if (k =? 1)%N then V2Int (Z.abs z) else V2Int z) with V2Int x => x | _ => z end)
                 = (if (k =? 1)%N then Z.abs z else z)) by (destruct (k =? 1)%N; reflexivity).
    rewrite ZE. set (z' := if (k =? 1)%N then Z.abs z else z).
    destruct (opt_setn_world w1 o KInt (VInt z') index) as [frees FW].
    destruct (opt_setn_indep w1 w o KInt (VInt z') index) as [I1 I2].
    destruct (opt_setn w1 o KInt (VInt z') index) as [[w2 o2] rc] eqn:E.
    cbn [fst snd] in *. subst w2.
    split.
    { exists frees. split; [|discriminate]. rewrite log_frees_cbs. reflexivity. }
    split.
    { destruct (log_frees_cnt frees w1) as [A _]. rewrite A. reflexivity. }
    split; [discriminate|].
    split.
    { intros _. split; [rewrite I1; reflexivity|exact I2]. }
    intros _ L.
    destruct (opt_setn_succeeds w1 o KInt (VInt z') index K L) as [w3 [o3 E3]].
    rewrite E in E3. injection E3 as _ <- ->.
    split; [reflexivity|]. exists o2. split; [reflexivity|].
    apply opt_setn_ok in E. destruct E as [_ [_ ->]]. destruct o; reflexivity.
Qed.

(* ================================================================== *)
(* C14.5: the function callback sees the arguments in input order       *)
(* ================================================================== *)

Section FuncArgs.
Variable so : pw -> cfg -> opt -> option str -> pw * opt * option nat.
Variable pi : pw -> cfg -> nat -> pst -> pw * cfg * prc.

(* states 8 / 9, the closing parenthesis arrives *)
Lemma pi_body_call fl w c level p w1 c1 yylval r o k :
  next_token fl w c = (w1, c1, TPunct 41, yylval) ->
  (s_state p = 8 \/ s_state p = 9) ->
  s_opt p = Some r -> get_opt c1 r = Some o -> cb_func (o_cbs o) = Some (FUser k) ->
  let f := snd (tick w1) in
  let w2 := add_cb (fst (tick w1)) (CbFunc k (o_name o) (s_args p) f) in
  pi_body so pi fl w c level p =
  if f then (w2, c1, PERR) else pi w2 c1 level (st_state (st_args p []) 0).
Proof.
  intros NT ST SO GO CF. unfold pi_body. rewrite NT. cbv zeta.
  rewrite SO, GO, CF.
  destruct (tick w1) as [wt f]. cbn [fst snd].
  destruct ST as [-> | ->]; reflexivity.
Qed.

(* state 8, an argument arrives: appended at the end *)
Lemma pi_body_arg fl w c level p w1 c1 yylval :
  next_token fl w c = (w1, c1, TStr, yylval) ->
  s_state p = 8 ->
  pi_body so pi fl w c level p =
  pi w1 c1 level (st_state (st_args p (s_args p ++ [sval yylval])) 9).
Proof.
  intros NT ST. unfold pi_body. rewrite NT. cbv zeta. rewrite ST. reflexivity.
Qed.
End FuncArgs.

Lemma function_arguments sd fuel w c level p w1 c1 yylval r o k :
  next_token fuel w c = (w1, c1, TPunct 41, yylval) ->
  (s_state p = 8 \/ s_state p = 9) ->
  s_opt p = Some r -> get_opt c1 r = Some o -> cb_func (o_cbs o) = Some (FUser k) ->
  let f := snd (tick w1) in
  let w2 := add_cb (fst (tick w1)) (CbFunc k (o_name o) (s_args p) f) in
  parse_internal sd (S fuel) w c level p =
  if f then (w2, c1, PERR) else parse_internal sd fuel w2 c1 level (st_state (st_args p []) 0).
Proof.
  intros NT ST SO GO CF. rewrite parse_internal_S.
  exact (pi_body_call (setopt sd fuel) (parse_internal sd fuel) fuel w c level p w1 c1 yylval r o k NT ST SO GO CF).
Qed.

Lemma function_argument_collected sd fuel w c level p w1 c1 yylval :
  next_token fuel w c = (w1, c1, TStr, yylval) ->
  s_state p = 8 ->
  parse_internal sd (S fuel) w c level p =
  parse_internal sd fuel w1 c1 level (st_state (st_args p (s_args p ++ [sval yylval])) 9).
Proof.
  intros NT ST. rewrite parse_internal_S.
  exact (pi_body_arg (setopt sd fuel) (parse_internal sd fuel) fuel w c level p w1 c1 yylval NT ST).
Qed.

(* ================================================================== *)
(* the C14 statements assembled                                         *)
(* ================================================================== *)

Lemma log_grows sd fuel :
  (forall w c o txt, fresh w (fst (fst (setopt sd fuel w c o txt)))) /\
  (forall w c, fresh w (fst (init_defaults sd fuel w c))) /\
  (forall w c l p, fresh w (fst (fst (parse_internal sd fuel w c l p)))).
Proof.
  destruct (counter_monotone sd fuel) as [Hs [Hi Hp]]. cbv zeta in *. unfold fresh.
  split; [|split]; intros.
  - destruct (Hs w c o txt) as [new [C _]]. exists new. exact C.
  - destruct (Hi w c) as [new [C _]]. exists new. exact C.
  - destruct (Hp w c l p) as [new [C _]]. exists new. exact C.
Qed.

Lemma verdict_binds sd fuel :
  (forall w c level p w' c' rc,
     parse_internal sd fuel w c level p = (w', c', rc) ->
     exists new,
       w_cbs w' = new ++ w_cbs w /\
       (w_crash w' = None -> failed_is_last new) /\
       (w_crash w' = None -> some_failed new -> rc = PERR)) /\
  (forall w c o txt w' o' res,
     setopt sd fuel w c o txt = (w', o', res) ->
     exists new,
       w_cbs w' = new ++ w_cbs w /\
       (w_crash w' = None -> failed_is_last new) /\
       (w_crash w' = None -> some_failed new -> res = None /\ parses o = true)) /\
  (forall w c w' c',
     init_defaults sd fuel w c = (w', c') ->
     exists new,
       w_cbs w' = new ++ w_cbs w /\
       (some_failed new -> w_crash w' <> None)).
Proof.
  split; [|split]; intros.
  - eapply parse_internal_verdict; eassumption.
  - eapply setopt_verdict; eassumption.
  - eapply init_defaults_verdict; eassumption.
Qed.

(* the one-step facts the induction rests on *)
Lemma one_step_facts :
  (forall w k o v, R w (fst (run_parsecb w k o v)) (snd (run_parsecb w k o v))) /\
  (forall w o, R w (fst (run_validcb w o)) (snd (run_validcb w o))) /\
  (forall w o a, R w (fst (fst (run_validcb2 w o a))) (snd (run_validcb2 w o a))) /\
  (forall w e, is_call e = true -> failed_entry e = snd (tick w) ->
               R w (add_cb (fst (tick w)) e) (snd (tick w))) /\
  (forall w ids, R w (log_frees w ids) false /\ w_cbs (log_frees w ids) = rev (map CbFree ids) ++ w_cbs w) /\
  (forall w c r, R w (fst (handle_deprecated w c r)) false) /\
  (forall w c a, Q w (fst (fst (lexer_include w c a)))) /\
  (forall fl w c, Q w (fst (fst (fst (next_token fl w c))))).
Proof.
  split; [intros; apply R_run_parsecb|].
  split; [intros; apply R_run_validcb|].
  split; [intros; apply R_run_validcb2|].
  split; [intros; apply R_tick; assumption|].
  split; [intros; split; [apply R_log_frees|apply log_frees_cbs]|].
  split; [intros; apply R_handle_deprecated|].
  split; [intros; apply Q_lexer_include|].
  intros; apply Q_next_token.
Qed.

(* ================================================================== *)
(* the verdicts are the script's — no side condition                    *)
(* ================================================================== *)

Lemma clean_cons e l : clean (e :: l) <-> failed_entry e = false /\ clean l.
Proof.
  unfold clean. cbn [forallb]. rewrite andb_true_iff, negb_true_iff. tauto.
Qed.

Lemma not_call_not_failed e : is_call e = false -> failed_entry e = false.
Proof. destruct e; try discriminate. reflexivity. Qed.

Lemma clean_rev l : clean (rev l) <-> clean l.
Proof.
  unfold clean. rewrite !forallb_forall. split; intros H x I; apply H.
  - apply in_rev. rewrite rev_involutive. exact I.
  - apply in_rev. exact I.
Qed.

(* all of them happen before the scripted failure *)
Lemma script_before_clean fa l : forall n,
  script_ok n fa l -> (n + N.of_nat (calls l) < fa)%N -> clean l.
Proof.
  induction l as [|e r IH]; intros n S L; [exact clean_nil|].
  cbn [script_ok] in S. unfold calls in *. cbn [filter] in L.
  apply clean_cons. destruct (is_call e) eqn:IC.
  - cbn [length] in L. rewrite Nat2N.inj_succ in L. destruct S as [FE S]. split.
    + rewrite FE. unfold script_fails.
      assert (X : (n + 1 =? fa)%N = false) by (apply N.eqb_neq; lia).
      rewrite X. apply andb_false_r.
    + apply (IH (n + 1)%N S). lia.
  - split; [apply not_call_not_failed; exact IC|]. apply (IH n S L).
Qed.

(* the scripted failure is behind (or there is none) *)
Lemma script_past_clean fa l : forall n,
  (fa = 0 \/ fa <= n)%N -> script_ok n fa l -> clean l.
Proof.
  induction l as [|e r IH]; intros n P S; [exact clean_nil|].
  cbn [script_ok] in S. apply clean_cons. destruct (is_call e) eqn:IC.
  - destruct S as [FE S]. split.
    + rewrite FE. unfold script_fails. destruct P as [-> | P]; [reflexivity|].
      assert (X : (n + 1 =? fa)%N = false) by (apply N.eqb_neq; lia).
      rewrite X. apply andb_false_r.
    + apply (IH (n + 1)%N); [|exact S]. destruct P as [P|P]; [left; exact P|right; lia].
  - split; [apply not_call_not_failed; exact IC|]. apply (IH n P S).
Qed.

Lemma script_one_failed n fa l :
  script_ok n fa l ->
  forall pre e post, l = pre ++ e :: post -> failed_entry e = true -> clean pre /\ clean post.
Proof.
  intros S pre e post -> FE. apply script_ok_app in S. destruct S as [S1 S2].
  cbn [script_ok] in S2. destruct (is_call e) eqn:IC.
  - destruct S2 as [E S2]. rewrite FE in E. symmetry in E. unfold script_fails in E.
    apply andb_true_iff in E. destruct E as [E1 E2]. apply N.eqb_eq in E2.
    split.
    + apply (script_before_clean fa pre n S1). lia.
    + apply (script_past_clean fa post _ (or_intror (N.eq_le_incl _ _ (eq_sym E2))) S2).
  - apply not_call_not_failed in IC. rewrite IC in FE. discriminate.
Qed.

(* if an entry is failed, no other one is *)
Definition only_one_failed (new : list cbent) : Prop :=
  forall pre e post, new = pre ++ e :: post -> failed_entry e = true -> clean pre /\ clean post.

Lemma R_script w w' err :
  R w w' err ->
  exists new, w_cbs w' = new ++ w_cbs w /\
              script_ok (w_cnt w) (w_failat w) (rev new) /\ only_one_failed new.
Proof.
  intros [F [K [new [C [N [S V]]]]]]. exists new. split; [exact C|]. split; [exact S|].
  intros pre e post E FE.
  assert (E' : rev new = rev post ++ e :: rev pre).
  { rewrite E, rev_app_distr. cbn [rev]. rewrite <- app_assoc. reflexivity. }
  destruct (script_one_failed _ _ _ S _ _ _ E' FE) as [A B].
  split; apply clean_rev; assumption.
Qed.

Lemma verdicts_follow_script sd fuel :
  (forall w c o txt, let w' := fst (fst (setopt sd fuel w c o txt)) in
     exists new, w_cbs w' = new ++ w_cbs w /\
                 script_ok (w_cnt w) (w_failat w) (rev new) /\ only_one_failed new) /\
  (forall w c, let w' := fst (init_defaults sd fuel w c) in
     exists new, w_cbs w' = new ++ w_cbs w /\
                 script_ok (w_cnt w) (w_failat w) (rev new) /\ only_one_failed new) /\
  (forall w c l p, let w' := fst (fst (parse_internal sd fuel w c l p)) in
     exists new, w_cbs w' = new ++ w_cbs w /\
                 script_ok (w_cnt w) (w_failat w) (rev new) /\ only_one_failed new).
Proof.
  destruct (setopt_init_parse_R sd fuel) as [Hs [Hi Hp]].
  split; [|split]; cbv zeta; intros; eapply R_script.
  - apply Hs.
  - apply Hi.
  - apply Hp.
Qed.
