(* ParserProofs.v — C01: cfg_parse_internal (MODEL, Parser.v) against the reference meaning (SPEC, Grammar.v).
   Top-level lemmas; the development is split over
     PP_Step (unfolding equations of the machine), PP_Setopt (cfg_setopt / cfg_init_defaults unfolded),
     PP_Base (flags, get/put, obs, ceq), PP_Tok (LAYER T: token source), PP_LexYields / PP_LexFrame (the scanner
     delivers `yields`; what a pushed buffer yields does not depend on the scanner underneath),
     PP_Inv (invariant), PP_Machine (LAYER M: list body, values, unknown-item skipper), PP_Default (forced list value),
     PP_Inst (fresh section instances incl. scanned default texts), PP_Spec / PP_SpecLemmas (SPEC restated, suffix /
     observation lemmas), PP_GetoptObs (path resolver sees only obs), PP_InvLemmas (invariant along references),
     PP_Loop (the item loop). *)
From Coq Require String.
From Coq Require Import List Arith NArith ZArith Bool Lia.
From Coq.Strings Require Import Byte.
From LC Require Import Bytes Consts Conv Flex LexAct Lexer LexLemmas LexAll Files Store Parser Grammar
  PP_Base PP_Step PP_Tok PP_Setopt PP_Inv PP_Machine PP_Default PP_Inst PP_Spec PP_InvLemmas PP_GetoptObs PP_SpecLemmas PP_Loop
  PP_LexYields PP_LexFrame.
Import ListNotations.
Import String.StringSyntax.
Local Open Scope string_scope.
Local Open Scope list_scope.
Local Open Scope nat_scope.

Section WithOracles.
Variable strtod_o : str -> strtod_res.
Notation PI := (parse_internal strtod_o).

(* ---------- the decidable check on a list default text ---------- *)
Definition gtok_eqb (a b : gtok) : bool :=
  match a, b with GS x, GS y => str_eqb x y | GP x, GP y => (x =? y)%N | _, _ => false end.
Fixpoint gtoks_eqb (a b : list gtok) : bool :=
  match a, b with [] , [] => true | x :: a', y :: b' => gtok_eqb x y && gtoks_eqb a' b' | _, _ => false end.
Lemma gtoks_eqb_eq a : forall b, gtoks_eqb a b = true -> a = b.
Proof.
  induction a as [|x a IH]; intros [|y b] H; cbn in H; try discriminate; [reflexivity|].
  apply andb_prop in H as [H1 H2]. rewrite (IH b H2). f_equal.
  destruct x, y; cbn in H1; try discriminate; [apply str_eqb_eq in H1|apply N.eqb_eq in H1]; congruence.
Qed.

Definition pos1 : pos := {| p_file := None; p_line := 1 |}.

(* the default text of list declaration d scans without error, gives the same tokens under env as under the empty
   environment (which Grammar.default_list uses), is exactly  v  or  { v, ... }  with convertible values, and
   costs at most DC *)
Definition dtext_okb (env : envt) (DC : nat) (d : opt) : bool :=
  match d_parsed (o_def d) with
  | Some text =>
      let '(toks, t, _, _, _) := lex_all env (S (length text)) (scan_begin lex_init (cstr text)) pos1 [] [] in
      let '(toks0, t0, _, _, _) := lex_all [] (S (length text)) (scan_begin lex_init (cstr text)) pos1 [] [] in
      negb (is_nil text) &&
      match t with TEof => true | _ => false end &&
      gtoks_eqb (gtoks toks) (gtoks toks0) &&
      match start3 strtod_o (o_kind d) (gtoks toks) with Some (_, []) => true | _ => false end &&
      (length (cstr text) + length toks + 4 <=? DC)
  | None => false
  end.

Lemma default_list_start3 d text toks0 t0 s0 p0 d0 vs rest :
  d_parsed (o_def d) = Some text -> text <> [] ->
  lex_all [] (S (length text)) (scan_begin lex_init (cstr text)) pos1 [] [] = (toks0, t0, s0, p0, d0) ->
  start3 strtod_o (o_kind d) (gtoks toks0) = Some (vs, rest) -> default_list strtod_o d = vs.
Proof.
  intros DP TN LA S3. unfold default_list. rewrite DP. destruct text as [|b t]; [congruence|].
  fold pos1. rewrite LA. unfold start3 in S3.
  destruct (gtoks toks0) as [|[v|y] g2]; [discriminate| |].
  - destruct (conv_value strtod_o (o_kind d) v); [|discriminate]. injection S3 as <- _. reflexivity.
  - destruct (y =? 123)%N eqn:Y; [|discriminate]. apply N.eqb_eq in Y. subst y. cbv beta iota. rewrite S3. reflexivity.
Qed.

Lemma dtext_okb_spec env DC d : dtext_okb env DC d = true -> dtext_spec strtod_o env DC d.
Proof.
  unfold dtext_okb. destruct (d_parsed (o_def d)) as [text|] eqn:DP; [|discriminate].
  destruct (lex_all env (S (length text)) (scan_begin lex_init (cstr text)) pos1 [] []) as [[[[toks t] s1] p1] d1] eqn:LA.
  destruct (lex_all [] (S (length text)) (scan_begin lex_init (cstr text)) pos1 [] []) as [[[[toks0 t0] s0] p0] d0] eqn:LA0.
  intros H. apply andb_prop in H as [H H5]. apply andb_prop in H as [H H4]. apply andb_prop in H as [H H3]. apply andb_prop in H as [H1 H2].
  destruct t; try discriminate H2.
  destruct (start3 strtod_o (o_kind d) (gtoks toks)) as [[vs [|x rest]]|] eqn:S3; try discriminate H4.
  apply gtoks_eqb_eq in H3. apply Nat.leb_le in H5.
  exists text, toks, vs. spl; auto.
  - destruct text; [discriminate H1|discriminate].
  - intros s LI QI. eapply yields_of_fresh; eauto.
  - eapply default_list_start3; eauto.
    + destruct text; [discriminate H1|discriminate].
    + rewrite <- H3. exact S3.
Qed.

(* ---------- the statements' vocabulary ---------- *)
(* The tree invariant of the SPEC's scope, to depth k (decidable: PP_Inv.invC).  env / DC: the environment of the run
   and a bound on the cost of a list default text (its length + number of tokens + 4); DC = 0 forbids them. *)
Definition Inv (env : envt) (DC k : nat) (c : cfg) : Prop := invC (dtext_okb env DC) k c = true.

(* enough fuel for a token list: scanner bytes + tokens + section depth + one default text *)
Definition enough (DC k : nat) (L : lexst) (ts : list ltok) (fuel : nat) : Prop :=
  measure L + length ts + 2 * k + 3 + DC < fuel.

(* ---------- the machine against the meaning ---------- *)
Theorem c01_machine2 e DC k ts L w cm cs fuel F :
  wst w e L -> yieldsc e L ts -> Inv (fst e) DC k cm -> obs_c cm = obs_c cs -> 
  enough DC k L ts fuel -> length (gtoks ts) < F ->
  exists w' c' rc, PI fuel w cm 0 (pst0 0 None) = (w', c', rc) /\ w_oof w' = false /\
    match meaning strtod_o F cs true (gtoks ts) with
    | Some (c'', _) => rc = PEOF /\ obs_c c' = obs_c c'' /\ Inv (fst e) DC k c' /\ exists L', wst w' e L'
    | None => rc = PERR
    end.
Proof.
  intros Hw Hy HI HO Hf HF.
  pose proof (loop_sim strtod_o (dtext_okb (fst e) DC) (fst e) DC (dtext_okb_spec (fst e) DC) e (2 * k + 2 + DC) (length ts) ts (le_n _)
                k F L w cm cs 0 (pst0 0 None) fuel) as LS.
  assert (LH : loop_hyp (dtext_okb (fst e) DC) (fst e) DC e (2 * k + 2 + DC) k fuel w L cm cs 0 (pst0 0 None) ts F).
  { unfold loop_hyp, p0ok, enough, Inv in *. cbn [pst0 s_state s_title s_forced s_opt depc]. spl; auto; lia. }
  specialize (LS LH). destruct (PI fuel w cm 0 (pst0 0 None)) as [[w' c'] rc]. unfold loop_res in LS.
  destruct LS as (O & LS). exists w', c', rc. split; [reflexivity|]. split; [exact O|]. cbn [Nat.eqb] in LS.
  destruct (meaning strtod_o F cs true (gtoks ts)) as [[c'' rest]|]; [|exact LS].
  destruct LS as (A & B & C & _ & L' & ts' & W & _). spl; auto. exists L'; exact W.
Qed.

Theorem c01_machine e DC k ts L w c fuel F :
  wst w e L -> yieldsc e L ts -> Inv (fst e) DC k c -> enough DC k L ts fuel -> length (gtoks ts) < F ->
  exists w' c' rc, PI fuel w c 0 (pst0 0 None) = (w', c', rc) /\ w_oof w' = false /\
    match meaning strtod_o F c true (gtoks ts) with
    | Some (c'', _) => rc = PEOF /\ obs_c c' = obs_c c'' /\ Inv (fst e) DC k c' /\ exists L', wst w' e L'
    | None => rc = PERR
    end.
Proof. intros. eapply c01_machine2; eauto. Qed.

(* ---------- C01: acceptance and values ---------- *)
Theorem c01_accept_iff e DC k ts L w c fuel F :
  wst w e L -> yieldsc e L ts -> Inv (fst e) DC k c -> enough DC k L ts fuel -> length (gtoks ts) < F ->
  let '(w', c', rc) := PI fuel w c 0 (pst0 0 None) in
  w_oof w' = false /\ (rc = PEOF <-> meaning strtod_o F c true (gtoks ts) <> None) /\ (rc = PEOF \/ rc = PERR).
Proof.
  intros Hw Hy HI Hf HF.
  destruct (c01_machine e DC k ts L w c fuel F Hw Hy HI Hf HF) as (w' & c' & rc & E & O & M). rewrite E.
  split; [exact O|]. destruct (meaning strtod_o F c true (gtoks ts)) as [[c'' rest]|].
  - destruct M as (-> & _). split; [split; [discriminate|reflexivity]|auto].
  - subst rc. split; [split; [discriminate|congruence]|auto].
Qed.

Theorem c01_values e DC k ts L w c fuel F :
  wst w e L -> yieldsc e L ts -> Inv (fst e) DC k c -> enough DC k L ts fuel -> length (gtoks ts) < F ->
  let '(w', c', rc) := PI fuel w c 0 (pst0 0 None) in
  rc = PEOF -> exists c'' rest, meaning strtod_o F c true (gtoks ts) = Some (c'', rest) /\ obs_c c' = obs_c c'' /\ Inv (fst e) DC k c'.
Proof.
  intros Hw Hy HI Hf HF.
  destruct (c01_machine e DC k ts L w c fuel F Hw Hy HI Hf HF) as (w' & c' & rc & E & O & M). rewrite E.
  intros ->. destruct (meaning strtod_o F c true (gtoks ts)) as [[c'' rest]|]; [|discriminate M].
  destruct M as (_ & A & B & _). eauto.
Qed.

(* ---------- byte level: cfg_parse_buf ---------- *)
(* a world between parses: fuel never exhausted, no include frame, scratch buffer consistent *)
Definition wready (w : pw) : Prop := w_oof w = false /\ l_inc (w_lex w) = [] /\ q_inv (l_q (w_lex w)).

Lemma include_unwind_oof : forall n w d, w_oof (include_unwind n w d) = w_oof w.
Proof.
  induction n as [|n IH]; intros w d; cbn [include_unwind]; [reflexivity|].
  destruct (l_inc (w_lex w)); [reflexivity|]. destruct (Nat.ltb d _); [|reflexivity]. rewrite IH. reflexivity.
Qed.

Lemma include_unwind_nil n w d : l_inc (w_lex w) = [] -> include_unwind n w d = w.
Proof. intros H. destruct n; cbn [include_unwind]; [reflexivity|]. rewrite H. reflexivity. Qed.

Lemma measure_scan_begin s inp : measure (scan_begin s inp) = S (length inp) + measure s.
Proof. unfold measure, scan_begin. cbn [l_bufs fold_left snd]. rewrite fold_measure_shift. lia. Qed.

(* the two-tree form; the tokens are those of the text scanned from scratch *)
Theorem c01_parse_buf2 DC k w cm cs b ts lf p0 s' p' d fuel :
  wready w -> Inv (w_env w) DC k cm -> obs_c cm = obs_c cs ->
  lex_all (w_env w) lf (scan_begin lex_init (cstr b)) p0 [] [] = (ts, TEof, s', p', d) ->
  
  length (cstr b) + measure (w_lex w) + length ts + 2 * k + 4 + DC < fuel ->
  let '(w', c', rc) := parse_buf strtod_o fuel w cm (Some b) in
  w_oof w' = false /\
  match meaning strtod_o (S (length (gtoks ts))) cs true (gtoks ts) with
  | Some (c'', _) => rc = CFG_SUCCESS /\ obs_c c' = obs_c c'' /\ Inv (w_env w) DC k c' /\
                     wready w' /\ w_env w' = w_env w /\ l_bufs (w_lex w') = l_bufs (w_lex w)
  | None => rc = CFG_PARSE_ERROR
  end.
Proof.
  intros (WO & WI & WQ) HI HO HL Hf.
  unfold parse_buf, parse_fp, parse_fp_gen. rewrite WI. cbn [length].
  set (c2 := set_line match c_file (set_file cm (Some (M "[buf]"))) with
                      | Some _ => set_file cm (Some (M "[buf]")) | None => set_file (set_file cm (Some (M "[buf]"))) (Some (M "FILE")) end 1).
  assert (C2 : ceq c2 cm).
  { unfold c2. eapply ceq_trans; [apply ceq_set_line|]. destruct (c_file (set_file cm (Some (M "[buf]")))).
    - apply ceq_set_file.
    - eapply ceq_trans; apply ceq_set_file. }
  set (L := scan_begin (w_lex w) (cstr b)).
  set (e := (w_env w, l_bufs (w_lex w)) : ctx).
  assert (W1 : wst (upd_lex w L) e L).
  { unfold wst, e, L. cbn [w_env w_lex w_oof upd_lex fst snd scan_begin l_bufs tl]. spl; auto. apply tbs_scan_begin; auto. }
  assert (Y : yieldsc e L ts) by (unfold yieldsc, e, L; cbn [fst]; eapply yields_of_fresh; eauto).
  destruct (c01_machine2 e DC k ts L (upd_lex w L) c2 cs fuel (S (length (gtoks ts))) W1 Y) as (w2 & c3 & rc & E & O & MM); auto.
  - unfold Inv in *. cbn [fst e]. rewrite (ceq_invC _ k _ _ C2). exact HI.
  - rewrite (ceq_obs _ _ C2). exact HO.
  - unfold enough, L. rewrite measure_scan_begin. lia.
  - rewrite E.
    destruct (meaning strtod_o (S (length (gtoks ts))) cs true (gtoks ts)) as [[c'' rest]|].
    + destruct MM as (-> & OB & I3 & L' & W2).
      rewrite (include_unwind_nil _ _ _ (wst_linc _ _ _ W2)). cbn [w_oof upd_lex].
      split; [exact O|]. spl; auto.
      * unfold wready. cbn [w_oof w_lex upd_lex scan_end l_inc l_q]. spl; auto; [apply (wst_linc _ _ _ W2)|apply q_inv_empty].
      * cbn [w_env upd_lex]. apply (wst_env _ _ _ W2).
      * cbn [w_lex upd_lex scan_end l_bufs]. rewrite (wst_lex _ _ _ W2). apply (wst_bufs _ _ _ W2).
    + subst rc. cbn [w_oof upd_lex]. rewrite include_unwind_oof. auto.
Qed.

Theorem c01_parse_buf DC k w c b ts lf p0 s' p' d fuel :
  wready w -> Inv (w_env w) DC k c ->
  lex_all (w_env w) lf (scan_begin lex_init (cstr b)) p0 [] [] = (ts, TEof, s', p', d) ->
  
  length (cstr b) + measure (w_lex w) + length ts + 2 * k + 4 + DC < fuel ->
  let '(w', c', rc) := parse_buf strtod_o fuel w c (Some b) in
  w_oof w' = false /\
  match text_meaning strtod_o c ts with
  | Some oc => rc = CFG_SUCCESS /\ obs_c c' = oc /\ Inv (w_env w) DC k c' /\ wready w' /\ w_env w' = w_env w /\ l_bufs (w_lex w') = l_bufs (w_lex w)
  | None => rc = CFG_PARSE_ERROR
  end.
Proof.
  intros WR HI HL Hf.
  pose proof (c01_parse_buf2 DC k w c c b ts lf p0 s' p' d fuel WR HI eq_refl HL Hf) as H.
  destruct (parse_buf strtod_o fuel w c (Some b)) as [[w' c'] rc]. destruct H as (O & H). split; [exact O|].
  unfold text_meaning. destruct (meaning strtod_o (S (length (gtoks ts))) c true (gtoks ts)) as [[c'' rest]|]; exact H.
Qed.

(* ---------- several texts parsed into one context ---------- *)
Fixpoint parse_all (fuel : nat) (w : pw) (c : cfg) (bs : list str) : pw * cfg * bool :=
  match bs with
  | [] => (w, c, true)
  | b :: r => let '(w1, c1, rc) := parse_buf strtod_o fuel w c (Some b) in
              if (rc =? CFG_SUCCESS)%Z then parse_all fuel w1 c1 r else (w1, c1, false)
  end.

Fixpoint meaning_all (c : cfg) (tss : list (list ltok)) : option cfg :=
  match tss with
  | [] => Some c
  | ts :: r => match meaning strtod_o (S (length (gtoks ts))) c true (gtoks ts) with
               | Some (c', _) => meaning_all c' r
               | None => None
               end
  end.

Definition text_ok (env : envt) (DC k m fuel : nat) (b : str) (ts : list ltok) : Prop :=
  (exists lf p0 s' p' d, lex_all env lf (scan_begin lex_init (cstr b)) p0 [] [] = (ts, TEof, s', p', d)) /\
  length (cstr b) + m + length ts + 2 * k + 4 + DC < fuel.

Theorem c01_parse_all DC k fuel : forall bs tss w cm cs,
  wready w -> Inv (w_env w) DC k cm -> obs_c cm = obs_c cs ->
  Forall2 (text_ok (w_env w) DC k (measure (w_lex w)) fuel) bs tss ->
  let '(w', c', ok) := parse_all fuel w cm bs in
  w_oof w' = false /\
  match meaning_all cs tss with
  | Some oc => ok = true /\ obs_c c' = obs_c oc /\ Inv (w_env w) DC k c' /\ wready w'
  | None => ok = false
  end.
Proof.
  induction bs as [|b bs IH]; intros tss w cm cs WR HI HO HF.
  - inversion HF; subst. cbn [parse_all meaning_all]. split; [apply WR|]. spl; auto.
  - inversion HF as [|? ts ? tss' (LX & FB) HF']; subst. cbn [parse_all meaning_all].
    destruct LX as (lf & p0 & s' & p' & d & LX).
    pose proof (c01_parse_buf2 DC k w cm cs b ts lf p0 s' p' d fuel WR HI HO LX FB) as H.
    destruct (parse_buf strtod_o fuel w cm (Some b)) as [[w1 c1] rc]. destruct H as (O & H).
    destruct (meaning strtod_o (S (length (gtoks ts))) cs true (gtoks ts)) as [[c'' rest]|].
    + destruct H as (-> & OB & I1 & WR1 & EV & BF). cbn [Z.eqb CFG_SUCCESS].
      assert (MS : measure (w_lex w1) = measure (w_lex w)) by (unfold measure; rewrite BF; reflexivity).
      specialize (IH tss' w1 c1 c'' WR1). rewrite EV, MS in IH. specialize (IH I1 OB HF').
      destruct (parse_all fuel w1 c1 bs) as [[w' c'] ok]. exact IH.
    + subst rc. cbn. auto.
Qed.

End WithOracles.
