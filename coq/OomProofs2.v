(* ====================================================================== *)
(*  OomProofs2.v -- cfg-level functions: cfg_addopt, cfg_dupopt_array,     *)
(*  cfg_free_opt_array, cfg_init, cfg_add_searchpath                       *)
(* ====================================================================== *)
Require Import List Arith Bool Lia Permutation.
Import ListNotations.
Require Import LC.Oom LC.OomProofs.

(* ---------------------------------------------------------------------- *)
(*  option arrays                                                          *)
(* ---------------------------------------------------------------------- *)
Definition slot_of (g : gopt) : slot := SOpt (rec_of_gopt g).

Lemma slots_of_eq gs spare : slots_of gs spare = map slot_of gs ++ SOpt zero_opt :: spare.
Proof. reflexivity. Qed.

Lemma named_prefix_slots gs spare :
  named_prefix (map slot_of gs ++ SOpt zero_opt :: spare) = Some (map rec_of_gopt gs).
Proof.
  induction gs as [|g gs IH]; cbn [map app named_prefix]; [reflexivity|].
  unfold slot_of at 1. cbn [named_prefix rec_of_gopt o_name]. rewrite IH. reflexivity.
Qed.

Lemma numopts_ok h k a gs spare :
  get h a = Live (BOpts (map slot_of gs ++ SOpt zero_opt :: spare)) ->
  cfg_numopts (Some a) (mkst h k) = Ok (length gs) (mkst h k).
Proof.
  intros H. unfold cfg_numopts. eapply bind_intro; [eapply load_opts_ok; exact H|].
  cbn beta. rewrite named_prefix_slots, map_length. reflexivity.
Qed.

Lemma resize_slots gs spare :
  exists y, firstn (length gs + 2) (map slot_of gs ++ SOpt zero_opt :: spare)
            ++ repeat SUndef (length gs + 2 - length (map slot_of gs ++ SOpt zero_opt :: spare))
            = map slot_of gs ++ [SOpt zero_opt; y].
Proof.
  rewrite <- (map_length slot_of gs). generalize (map slot_of gs) as ss. intros ss.
  destruct spare as [|y sp].
  - exists SUndef. rewrite firstn_all2 by (rewrite app_length; cbn; lia).
    rewrite app_length. cbn [length].
    replace (length ss + 2 - (length ss + 1)) with 1 by lia. cbn [repeat].
    rewrite <- app_assoc. reflexivity.
  - exists y. rewrite app_length. cbn [length].
    replace (length ss + 2 - (length ss + S (S (length sp)))) with 0 by lia.
    cbn [repeat]. rewrite app_nil_r.
    replace (ss ++ SOpt zero_opt :: y :: sp) with ((ss ++ [SOpt zero_opt; y]) ++ sp)
      by (rewrite <- app_assoc; reflexivity).
    replace (length ss + 2) with (length (ss ++ [SOpt zero_opt; y])) by (rewrite app_length; reflexivity).
    apply firstn_app_len.
Qed.

Lemma set_nth_app_len1 A (l1 l2 : list A) x y z i :
  i = S (length l1) -> set_nth (l1 ++ x :: y :: l2) i z = l1 ++ x :: z :: l2.
Proof. intros ->. induction l1; cbn; congruence. Qed.

Lemma cells_gcfg_mk ca nm G path :
  cells_gcfg (mkGCfg ca nm G path) =
  (ca, BCfg (ptr_of nm) (Some (gs_addr G)) (head_ptr path)) :: cells_ostr nm ++ cells_gopts G ++ cells_path path.
Proof. reflexivity. Qed.
Lemma cells_gopts_mk oa gs spare :
  cells_gopts (mkGOpts oa gs spare) =
  (oa, BOpts (map slot_of gs ++ SOpt zero_opt :: spare)) :: flat_map cells_gopt gs.
Proof. reflexivity. Qed.
Lemma map_slot_snoc gs g : map slot_of (gs ++ [g]) = map slot_of gs ++ [slot_of g].
Proof. apply map_app. Qed.

Definition new_gopt (a : addr) (key : str) : gopt := mkGOpt (a, key) None None None None.

Lemma slot_of_new a key : slot_of (new_gopt a key) = SOpt (mkOpt (Some a) None None None None None 0).
Proof. reflexivity. Qed.
Lemma cells_new_gopt a key : cells_gopt (new_gopt a key) = [(a, BStr key)].
Proof. reflexivity. Qed.
Lemma with_name_zero p : with_name p zero_opt = mkOpt p None None None None None 0.
Proof. reflexivity. Qed.

Ltac projc :=
  repeat progress (rewrite ?cells_gcfg_mk, ?cells_gopts_mk, ?map_slot_snoc, ?slot_of_new, ?cells_new_gopt,
                     ?flat_map_app, ?flat_map_single in *;
                   cbn [gs_addr gs_opts gs_spare gc_addr gc_name gc_opts gc_path] in *;
                   rewrite <- ?app_assoc in *; cbn [app] in *);
  proj.

Ltac step1 :=
  lazymatch goal with
  | |- bind (cfg_numopts (Some _)) _ _ = _ => bstep numopts_ok
  | |- bind (ret _) _ _ = _ => eapply bind_intro; [reflexivity | cbn beta iota]
  | _ => step0
  end; norm; rewrite ?set_nth_app_len1 by arith; rewrite ?with_name_zero.
Ltac steps1 := repeat step1; try (unfold ret; finish).

Ltac sepc_tac := split; [ projc; hgoal; first [atom | piece] | projc; nodup_tac ].
Ltac postc_tac := projc; post_tac.

Lemma addopt_spec h k c key :
  SepC h (cells_gcfg c) ->
  exists h' c' out,
    cfg_addopt (gc_addr c) key (mkst h k) = Ok out (mkst h' (k - 2)) /\
    gc_addr c' = gc_addr c /\
    SepC h' (cells_gcfg c') /\ PostC h (cells_gcfg c) h' (cells_gcfg c') /\
    match out with
    | Failed => hits k 2 /\ abs_cfg c' = abs_cfg c
    | Done (arr, i) =>
        ~ hits k 2 /\ arr = gs_addr (gc_opts c') /\ i = length (gs_opts (gc_opts c)) /\
        abs_cfg c' = mkACfg (c_name (abs_cfg c))
                            (c_opts (abs_cfg c) ++ [mkAOpt key None None None []])
                            (c_path (abs_cfg c))
    end.
Proof.
  intros HS. pose proof HS as [HH HN].
  destruct c as [ca nm [oa gs spare] path].
  pose proof (Holds_bound _ _ HH) as HB.
  projc. hsplit HH. destruct HH as (Hca & Hnm & Hoa & Hgs & Hpath). bounds. distinct.
  destruct (resize_slots gs spare) as [y Hy].
  unfold cfg_addopt. cbn [gc_addr].
  destruct k as [|[|[|k]]].
  1,4: eexists; exists (mkGCfg ca nm (mkGOpts (length h) (gs ++ [new_gopt (S (length h)) key]) []) path);
       eexists; (split; [step1; step1; step0; rewrite Hy; norm; steps1|]).
  1,2: split; [reflexivity|].
  1,2: split; [sepc_tac|].
  1,2: split; [postc_tac|].
  1,2: split; [unfold hits; lia|]; split; [reflexivity|]; split; [reflexivity|].
  1,2: unfold abs_cfg; cbn [gc_name gc_opts gc_path gs_opts c_name c_opts c_path];
       rewrite map_app; reflexivity.
  - exists h, (mkGCfg ca nm (mkGOpts oa gs spare) path), Failed.
    split; [steps1|]. split; [reflexivity|].
    split; [projc; exact HS|]. split; [projc; apply PostC_refl; apply HS|].
    split; [unfold hits; lia|reflexivity].
  - eexists; exists (mkGCfg ca nm (mkGOpts (length h) gs [y]) path); eexists.
    split; [step1; step1; step0; rewrite Hy; norm; steps1|].
    split; [reflexivity|]. split; [sepc_tac|]. split; [postc_tac|].
    split; [unfold hits; lia|reflexivity].
Qed.

(* ---------------------------------------------------------------------- *)
(*  (6) cfg_dupopt_array: the stages of one element                        *)
(* ---------------------------------------------------------------------- *)
Lemma slot_of_mk nm gp gd gc v :
  slot_of (mkGOpt nm gp gd gc v) =
  SOpt (mkOpt (Some (fst nm)) (ptr_of gc) (ptr_of gp) (ptr_of gd) None (vals_ptr v) (vals_len v)).
Proof. reflexivity. Qed.

Ltac projd := repeat progress (rewrite ?slot_of_mk in *; projc).
Ltac sepd_tac := split; [ projd; hgoal; first [atom | piece] | projd; nodup_tac ].
Ltac postd_tac := projd; post_tac.


Ltac hbreak H := hsplit H; repeat match goal with H' : _ /\ _ |- _ => destruct H' end.

Ltac stage_tac HS Hsrc src k hc :=
  let HH := fresh "HH" in let sa := fresh "sa" in let s := fresh "s" in
  pose proof HS as [HH HN];
  pose proof (Holds_bound _ _ HH) as HB;
  destruct src as [[sa s]|]; cbn [nreq_src] in *;
  projd; hbreak HH; bounds; distinct;
  [ hbreak Hsrc; unfold dup_field;
    destruct k as [|[|k]];
    [ eexists; exists (Some (length hc, s)); exists true; cbn zeta;
      (split; [steps1|]); (split; [sepd_tac|]); (split; [postd_tac|]);
      (split; [unfold hits; lia|reflexivity])
    | eexists; exists None; exists false; cbn zeta;
      (split; [steps1|]); (split; [sepd_tac|]); (split; [postd_tac|]);
      (split; [unfold hits; lia|reflexivity])
    | eexists; exists (Some (length hc, s)); exists true; cbn zeta;
      (split; [steps1|]); (split; [sepd_tac|]); (split; [postd_tac|]);
      (split; [unfold hits; lia|reflexivity]) ]
  | exists hc, None, true; cbn zeta; unfold dup_field;
    (split; [unfold ret; finish|]);
    (split; [projd; exact HS|]); (split; [projd; apply PostC_refl; apply HS|]);
    (split; [unfold hits; lia|reflexivity]) ].

Lemma dup_parsed_spec hc k d dgs nm spare (src : option gstr) :
  Holds hc (cells_ostr src) ->
  let G := mkGOpts d (dgs ++ [mkGOpt nm None None None None]) spare in
  SepC hc (cells_gopts G) ->
  exists hc' x ok,
    dup_field d (length dgs) (ptr_of src) with_parsed (mkst hc k) = Ok ok (mkst hc' (k - nreq_src src)) /\
    let G' := mkGOpts d (dgs ++ [mkGOpt nm x None None None]) spare in
    SepC hc' (cells_gopts G') /\ PostC hc (cells_gopts G) hc' (cells_gopts G') /\
    (if ok then ~ hits k (nreq_src src) /\ val_of x = val_of src
     else hits k (nreq_src src) /\ x = None).
Proof.
  intros Hsrc G HS. subst G. stage_tac HS Hsrc src k hc.
Qed.

Lemma dup_dstring_spec hc k d dgs nm xp spare (src : option gstr) :
  Holds hc (cells_ostr src) ->
  let G := mkGOpts d (dgs ++ [mkGOpt nm xp None None None]) spare in
  SepC hc (cells_gopts G) ->
  exists hc' x ok,
    dup_field d (length dgs) (ptr_of src) with_dstring (mkst hc k) = Ok ok (mkst hc' (k - nreq_src src)) /\
    let G' := mkGOpts d (dgs ++ [mkGOpt nm xp x None None]) spare in
    SepC hc' (cells_gopts G') /\ PostC hc (cells_gopts G) hc' (cells_gopts G') /\
    (if ok then ~ hits k (nreq_src src) /\ val_of x = val_of src
     else hits k (nreq_src src) /\ x = None).
Proof.
  intros Hsrc G HS. subst G. stage_tac HS Hsrc src k hc.
Qed.

Lemma dup_comment_spec hc k d dgs nm xp xd spare (src : option gstr) :
  Holds hc (cells_ostr src) ->
  let G := mkGOpts d (dgs ++ [mkGOpt nm xp xd None None]) spare in
  SepC hc (cells_gopts G) ->
  exists hc' x ok,
    dup_field d (length dgs) (ptr_of src) with_comment (mkst hc k) = Ok ok (mkst hc' (k - nreq_src src)) /\
    let G' := mkGOpts d (dgs ++ [mkGOpt nm xp xd x None]) spare in
    SepC hc' (cells_gopts G') /\ PostC hc (cells_gopts G) hc' (cells_gopts G') /\
    (if ok then ~ hits k (nreq_src src) /\ val_of x = val_of src
     else hits k (nreq_src src) /\ x = None).
Proof.
  intros Hsrc G HS. subst G. stage_tac HS Hsrc src k hc.
Qed.

Lemma dup_name_spec hc k d dgs spare sa s :
  get hc sa = Live (BStr s) ->
  let G := mkGOpts d dgs (SOpt zero_opt :: spare) in
  SepC hc (cells_gopts G) ->
  exists hc' ok,
    dup_name d (length dgs) (Some sa) (mkst hc k) = Ok ok (mkst hc' (k - 1)) /\
    if ok then
      ~ hits k 1 /\ exists a,
        let G' := mkGOpts d (dgs ++ [mkGOpt (a, s) None None None None]) spare in
        SepC hc' (cells_gopts G') /\ PostC hc (cells_gopts G) hc' (cells_gopts G')
    else hits k 1 /\ SepC hc' (cells_gopts G) /\ PostC hc (cells_gopts G) hc' (cells_gopts G).
Proof.
  intros Hsa G HS. subst G. pose proof HS as [HH HN].
  pose proof (Holds_bound _ _ HH) as HB.
  projd. hbreak HH. bounds. distinct.
  unfold dup_name, dup_field.
  destruct k as [|[|k]].
  1,3: eexists; exists true; (split; [steps1|]); (split; [unfold hits; lia|]);
       exists (length hc); cbn zeta; (split; [sepd_tac|postd_tac]).
  eexists; exists false; (split; [steps1|]); (split; [unfold hits; lia|]).
  split; [sepd_tac|postd_tac].
Qed.

(* ---------------------------------------------------------------------- *)
(*  (6) the duplication loop                                               *)
(* ---------------------------------------------------------------------- *)
Definition ZS : slot := SOpt zero_opt.
Definition tmpl (g : gopt) : Prop := g_vals g = None.

Lemma andthen_true (m1 m2 : M bool) s s1 r : m1 s = Ok true s1 -> m2 s1 = r -> andthen m1 m2 s = r.
Proof. intros H1 H2. unfold andthen. eapply bind_intro; [exact H1|exact H2]. Qed.
Lemma andthen_false (m1 m2 : M bool) s s1 : m1 s = Ok false s1 -> andthen m1 m2 s = Ok false s1.
Proof. intros H1. unfold andthen. eapply bind_intro; [exact H1|reflexivity]. Qed.

Lemma Ok_eq A (b : A) h k1 k2 : k1 = k2 -> Ok b (mkst h k1) = Ok b (mkst h k2).
Proof. intros ->. reflexivity. Qed.

Lemma src_preserved hc L hc' L' S :
  PostC hc L hc' L' -> Holds hc S -> (forall a, 1 <= cnt S a -> cnt L a = 0) ->
  Holds hc' S /\ (forall a, 1 <= cnt S a -> cnt L' a = 0).
Proof.
  intros (P1 & P2 & P3 & P4) HS HD.
  pose proof (Holds_bound _ _ HS) as HB. split.
  - eapply Holds_frame; [exact HS|]. intros a Ha. apply P2; auto.
  - intros a Ha. destruct (Nat.eq_dec (cnt L' a) 0) as [|Hn]; auto.
    destruct (P4 a); [lia| |]. rewrite HD in *; auto; lia. specialize (HB a Ha). lia.
Qed.

Lemma dup_loop_spec rec d : forall rest dgs hc k,
  Forall tmpl rest -> Forall tmpl dgs ->
  Holds hc (flat_map cells_gopt rest) ->
  let L := cells_gopts (mkGOpts d dgs (repeat ZS (length rest))) in
  (forall a, 1 <= cnt (flat_map cells_gopt rest) a -> cnt L a = 0) ->
  SepC hc L ->
  exists hc' dgs' r' ok,
    dup_loop rec d (length dgs) (map rec_of_gopt rest) (mkst hc k)
      = Ok ok (mkst hc' (k - nreq_opts rest)) /\
    let L' := cells_gopts (mkGOpts d dgs' (repeat ZS r')) in
    SepC hc' L' /\ PostC hc L hc' L' /\ Forall tmpl dgs' /\
    (if ok then ~ hits k (nreq_opts rest) /\ r' = 0 /\
                map abs_opt dgs' = map abs_opt dgs ++ map abs_opt rest
     else hits k (nreq_opts rest)).
Proof.
  induction rest as [|sg rest IH]; intros dgs hc k Ht Htd Hsrc L Hdisj HS; subst L.
  - exists hc, dgs, 0, true. cbn [map dup_loop nreq_opts length repeat] in *.
    split; [unfold ret; rewrite Nat.sub_0_r; reflexivity|].
    split; [exact HS|]. split; [apply PostC_refl; apply HS|]. split; [exact Htd|].
    split; [unfold hits; lia|]. split; [reflexivity|]. rewrite app_nil_r. reflexivity.
  - inversion Ht as [|? ? Hv Ht']; subst.
    destruct sg as [[sna sn] sp sd sc v]. unfold tmpl in Hv. cbn [g_vals] in Hv. subst v.
    cbn [map dup_loop length repeat nreq_opts] in *. rewrite rec_of_gopt_mk.
    cbn [o_name o_subopts o_parsed o_dstring o_comment fst snd vals_ptr vals_len].
    unfold nreq_opt. cbn [g_parsed g_dstring g_comment].
    fold ZS in *.
    (* stage 1 : name *)
    assert (Hsna : get hc sna = Live (BStr sn)).
    { cbn [flat_map] in Hsrc. rewrite cells_gopt_mk in Hsrc. cbn [fst snd app] in Hsrc.
      rewrite Holds_cons in Hsrc. apply Hsrc. }
    destruct (dup_name_spec hc k d dgs (repeat ZS (length rest)) sna sn Hsna HS)
      as (hc1 & ok1 & Hrun1 & Hres1).
    destruct ok1.
    2:{ destruct Hres1 as (Hh & HS1 & HP1).
        exists hc1, dgs, (S (length rest)), false.
        split. { erewrite andthen_false; [|exact Hrun1]. unfold hits in Hh. apply Ok_eq. lia. }
        cbn zeta. cbn [repeat]. split; [exact HS1|]. split; [exact HP1|]. split; [exact Htd|].
        unfold hits in *. lia. }
    destruct Hres1 as (Hh1 & a & HS1 & HP1). cbn zeta in HS1, HP1.
    destruct (src_preserved _ _ _ _ _ HP1 Hsrc Hdisj) as [Hsrc1 Hdisj1].
    (* stage 2 : parsed *)
    assert (Hsp1 : Holds hc1 (cells_ostr sp)).
    { cbn [flat_map] in Hsrc1. rewrite cells_gopt_mk in Hsrc1. cbn [app] in Hsrc1.
      rewrite Holds_cons, !Holds_app in Hsrc1. apply Hsrc1. }
    destruct (dup_parsed_spec hc1 (k - 1) d dgs (a, sn) (repeat ZS (length rest)) sp Hsp1 HS1)
      as (hc2 & x2 & ok2 & Hrun2 & HS2 & HP2 & Hres2). cbn zeta in HS2, HP2.
    destruct ok2.
    2:{ destruct Hres2 as [Hh Hx]. subst x2.
        exists hc2, (dgs ++ [mkGOpt (a, sn) None None None None]), (length rest), false.
        split.
        { eapply andthen_true; [exact Hrun1|]. eapply andthen_true; [reflexivity|].
          erewrite andthen_false; [|exact Hrun2]. unfold hits in *. apply Ok_eq. lia. }
        cbn zeta. split; [exact HS2|]. split; [eapply PostC_trans; eassumption|].
        split; [apply Forall_app; split; [exact Htd| repeat constructor]|].
        unfold hits in *. lia. }
    destruct Hres2 as [Hh2 Hx2].
    destruct (src_preserved _ _ _ _ _ HP2 Hsrc1 Hdisj1) as [Hsrc2 Hdisj2].
    (* stage 3 : dstring *)
    assert (Hsd2 : Holds hc2 (cells_ostr sd)).
    { cbn [flat_map] in Hsrc2. rewrite cells_gopt_mk in Hsrc2. cbn [app] in Hsrc2.
      rewrite Holds_cons, !Holds_app in Hsrc2. apply Hsrc2. }
    destruct (dup_dstring_spec hc2 (k - 1 - nreq_src sp) d dgs (a, sn) x2 (repeat ZS (length rest)) sd Hsd2 HS2)
      as (hc3 & x3 & ok3 & Hrun3 & HS3 & HP3 & Hres3). cbn zeta in HS3, HP3.
    destruct ok3.
    2:{ destruct Hres3 as [Hh Hx]. subst x3.
        exists hc3, (dgs ++ [mkGOpt (a, sn) x2 None None None]), (length rest), false.
        split.
        { eapply andthen_true; [exact Hrun1|]. eapply andthen_true; [reflexivity|].
          eapply andthen_true; [exact Hrun2|].
          erewrite andthen_false; [|exact Hrun3]. unfold hits in *. apply Ok_eq. lia. }
        cbn zeta. split; [exact HS3|].
        split; [eapply PostC_trans; [|eassumption]; eapply PostC_trans; eassumption|].
        split; [apply Forall_app; split; [exact Htd| repeat constructor]|].
        unfold hits in *. lia. }
    destruct Hres3 as [Hh3 Hx3].
    destruct (src_preserved _ _ _ _ _ HP3 Hsrc2 Hdisj2) as [Hsrc3 Hdisj3].
    (* stage 4 : comment *)
    assert (Hsc3 : Holds hc3 (cells_ostr sc)).
    { cbn [flat_map] in Hsrc3. rewrite cells_gopt_mk in Hsrc3. cbn [app] in Hsrc3.
      rewrite Holds_cons, !Holds_app in Hsrc3. apply Hsrc3. }
    destruct (dup_comment_spec hc3 (k - 1 - nreq_src sp - nreq_src sd) d dgs (a, sn) x2 x3
                (repeat ZS (length rest)) sc Hsc3 HS3)
      as (hc4 & x4 & ok4 & Hrun4 & HS4 & HP4 & Hres4). cbn zeta in HS4, HP4.
    destruct ok4.
    2:{ destruct Hres4 as [Hh Hx]. subst x4.
        exists hc4, (dgs ++ [mkGOpt (a, sn) x2 x3 None None]), (length rest), false.
        split.
        { eapply andthen_true; [exact Hrun1|]. eapply andthen_true; [reflexivity|].
          eapply andthen_true; [exact Hrun2|]. eapply andthen_true; [exact Hrun3|].
          erewrite andthen_false; [|exact Hrun4]. unfold hits in *. apply Ok_eq. lia. }
        cbn zeta. split; [exact HS4|].
        split; [eapply PostC_trans; [|eassumption]; eapply PostC_trans; [|eassumption];
                eapply PostC_trans; eassumption|].
        split; [apply Forall_app; split; [exact Htd| repeat constructor]|].
        unfold hits in *. lia. }
    destruct Hres4 as [Hh4 Hx4].
    destruct (src_preserved _ _ _ _ _ HP4 Hsrc3 Hdisj3) as [Hsrc4 Hdisj4].
    (* the rest of the loop *)
    assert (Hrest4 : Holds hc4 (flat_map cells_gopt rest)).
    { cbn [flat_map] in Hsrc4. rewrite Holds_app in Hsrc4. apply Hsrc4. }
    assert (Hdisj4' : forall a0, 1 <= cnt (flat_map cells_gopt rest) a0 ->
              cnt (cells_gopts (mkGOpts d (dgs ++ [mkGOpt (a, sn) x2 x3 x4 None]) (repeat ZS (length rest)))) a0 = 0).
    { intros a0 Ha0. apply Hdisj4. cbn [flat_map]. rewrite cnt_app. lia. }
    assert (Htd' : Forall tmpl (dgs ++ [mkGOpt (a, sn) x2 x3 x4 None]))
      by (apply Forall_app; split; [exact Htd| repeat constructor]).
    destruct (IH (dgs ++ [mkGOpt (a, sn) x2 x3 x4 None]) hc4
                 (k - 1 - nreq_src sp - nreq_src sd - nreq_src sc) Ht' Htd' Hrest4 Hdisj4' HS4)
      as (hc5 & dgs5 & r5 & ok5 & Hrun5 & HS5 & HP5 & Htd5 & Hres5). cbn zeta in HS5, HP5.
    exists hc5, dgs5, r5, ok5.
    split.
    { eapply andthen_true; [exact Hrun1|]. eapply andthen_true; [reflexivity|].
      eapply andthen_true; [exact Hrun2|]. eapply andthen_true; [exact Hrun3|].
      eapply andthen_true; [exact Hrun4|].
      rewrite app_length, Nat.add_1_r in Hrun5. rewrite Hrun5. apply Ok_eq. lia. }
    cbn zeta. split; [exact HS5|].
    split; [eapply PostC_trans; [|eassumption]; eapply PostC_trans; [|eassumption];
            eapply PostC_trans; [|eassumption]; eapply PostC_trans; eassumption|].
    split; [exact Htd5|].
    unfold hits in *. destruct ok5.
    + destruct Hres5 as (Hh5 & Hr5 & Habs5). split; [lia|]. split; [exact Hr5|].
      rewrite Habs5, map_app, <- app_assoc. cbn [map app]. f_equal. f_equal.
      unfold abs_opt. cbn [g_name g_comment g_parsed g_dstring g_vals snd].
      rewrite Hx2, Hx3, Hx4. reflexivity.
    + lia.
Qed.

(* ---------------------------------------------------------------------- *)
(*  cfg_free_opt_array on a template array (no values, no sub-options)     *)
(* ---------------------------------------------------------------------- *)
Lemma free_elem_spec hc k d B na ns op od oc R :
  SepC hc ((d, B) :: cells_gopt (mkGOpt (na, ns) op od oc None) ++ R) ->
  exists hc1,
    (forall (cont : M unit) r, cont (mkst hc1 k) = r ->
       (touch d ;;; free na ;;; free_ptr (ptr_of oc) ;;; free_ptr (ptr_of op) ;;;
        free_ptr (ptr_of od) ;;; ret tt ;;; cont) (mkst hc k) = r) /\
    SepC hc1 ((d, B) :: R) /\
    PostC hc ((d, B) :: cells_gopt (mkGOpt (na, ns) op od oc None) ++ R) hc1 ((d, B) :: R).
Proof.
  intros HS. pose proof HS as [HH HN]. pose proof (Holds_bound _ _ HH) as HB.
  destruct op as [[pa ps]|]; destruct od as [[da ds]|]; destruct oc as [[ca cs]|];
    projd; hbreak HH; bounds; distinct;
    (eexists; split; [intros cont r Hc; steps1; exact Hc|]);
    (split; [sepd_tac|postd_tac]).
Qed.

(* ---------------------------------------------------------------------- *)
(*  cfg_free_opt_array and cfg_dupopt_array (flat)                         *)
(* ---------------------------------------------------------------------- *)
Lemma free_loop_spec rec d B spare : forall gs hc k,
  Forall tmpl gs ->
  SepC hc ((d, B) :: flat_map cells_gopt gs) ->
  exists hc',
    free_loop rec d (map slot_of gs ++ ZS :: spare) (mkst hc k) = Ok tt (mkst hc' k) /\
    SepC hc' [(d, B)] /\ PostC hc ((d, B) :: flat_map cells_gopt gs) hc' [(d, B)].
Proof.
  induction gs as [|g gs IH]; intros hc k Ht HS.
  - exists hc. cbn [map app flat_map] in *. split.
    + unfold ZS. cbn [free_loop]. destruct HS as [HH _]. rewrite Holds_cons in HH.
      destruct HH as [Hd _]. eapply bind_intro; [eapply touch_ok; exact Hd|]. reflexivity.
    + split; [exact HS|]. apply PostC_refl. apply HS.
  - inversion Ht as [|? ? Hv Ht']; subst.
    destruct g as [[na ns] op od oc v]. unfold tmpl in Hv. cbn [g_vals] in Hv. subst v.
    cbn [map app flat_map] in *.
    destruct (free_elem_spec hc k d B na ns op od oc _ HS) as (hc1 & Hrun1 & HS1 & HP1).
    destruct (IH hc1 k Ht' HS1) as (hc2 & Hrun2 & HS2 & HP2).
    exists hc2. split.
    + rewrite slot_of_mk. cbn [free_loop o_name o_comment o_parsed o_dstring o_subopts fst].
      apply Hrun1. exact Hrun2.
    + split; [exact HS2|]. eapply PostC_trans; eassumption.
Qed.

Lemma free_opt_array_spec fuel hc k G :
  template G -> SepC hc (cells_gopts G) ->
  exists hc',
    cfg_free_opt_array (S fuel) (gs_addr G) (mkst hc k) = Ok tt (mkst hc' k) /\
    PostC hc (cells_gopts G) hc' [].
Proof.
  intros Ht HS. destruct G as [d gs spare]. unfold template in Ht. cbn [gs_opts gs_addr] in *.
  rewrite cells_gopts_mk in *.
  destruct (free_loop_spec (cfg_free_opt_array fuel) d _ spare gs hc k Ht HS) as (hc1 & Hrun1 & HS1 & HP1).
  assert (Hd : get hc d = Live (BOpts (map slot_of gs ++ SOpt zero_opt :: spare))).
  { destruct HS as [HH _]. rewrite Holds_cons in HH. apply HH. }
  assert (Hd1 : get hc1 d = Live (BOpts (map slot_of gs ++ SOpt zero_opt :: spare))).
  { destruct HS1 as [HH _]. rewrite Holds_cons in HH. apply HH. }
  eexists. split.
  - cbn [cfg_free_opt_array].
    eapply bind_intro; [eapply load_opts_ok; exact Hd|]. cbn beta.
    eapply bind_intro; [exact Hrun1|]. cbn beta.
    eapply free_ok. exact Hd1.
  - eapply PostC_trans; [exact HP1|].
    pose proof (get_live_lt _ _ _ Hd1) as Hlt.
    unfold PostC. split; [arith|]. split; [|split]; intros a.
    + intros Hl Hz. cnorm_in Hz. nes a. sget. reflexivity.
    + intros [b Hb]. pose proof (get_live_lt _ _ _ Hb) as Hl. len_in Hl.
      right. split; [exact Hl|]. cnorm.
      destruct (Nat.eq_dec d a) as [E|E].
      * subst a. sget_in Hb. discriminate.
      * apply Nat.eqb_neq in E. rewrite E. reflexivity.
    + cbn [cnt]. lia.
Qed.

(* ---------------------------------------------------------------------- *)
(*  (6) cfg_dupopt_array on a template array without sub-options           *)
(* ---------------------------------------------------------------------- *)
Lemma clear_template gs :
  Forall tmpl gs ->
  map (fun o => SOpt (clear_dyn o)) (map rec_of_gopt gs) ++ [SOpt zero_opt]
  = ZS :: repeat ZS (length gs).
Proof.
  induction 1 as [|g gs Hg _ IH]; cbn [map app length repeat]; [reflexivity|].
  rewrite IH. destruct g as [nm gp gd gc v]. unfold tmpl in Hg. cbn in Hg. subst v. reflexivity.
Qed.

Lemma PostC_nil_refl h : PostC h [] h [].
Proof. apply PostC_refl. constructor. Qed.

Lemma dupopt_flat_spec fuel h k Gs :
  template Gs -> Holds h (cells_gopts Gs) ->
  let N := 1 + nreq_opts (gs_opts Gs) in
  exists h' out,
    cfg_dupopt_array (S fuel) (gs_addr Gs) (mkst h k) = Ok out (mkst h' (k - N)) /\
    match out with
    | None => hits k N /\ PostC h [] h' []
    | Some d =>
        ~ hits k N /\
        exists G', gs_addr G' = d /\ gs_spare G' = [] /\ template G' /\
                   SepC h' (cells_gopts G') /\ PostC h [] h' (cells_gopts G') /\
                   map abs_opt (gs_opts G') = map abs_opt (gs_opts Gs)
    end.
Proof.
  intros Ht HH N. subst N. destruct Gs as [src gs spare]. unfold template in Ht.
  cbn [gs_opts gs_addr] in *. rewrite cells_gopts_mk in HH. rewrite Holds_cons in HH.
  destruct HH as [Hsrc Hstr].
  pose proof (Holds_bound _ _ Hstr) as HBs.
  cbn [cfg_dupopt_array].
  destruct k as [|[|k]].
  2:{ (* the calloc of the array fails *)
      exists h, None. split.
      - eapply bind_intro; [eapply load_opts_ok; exact Hsrc|]. cbn beta.
        rewrite named_prefix_slots. eapply bind_intro; [apply malloc_fail|]. reflexivity.
      - split; [unfold hits; lia|apply PostC_nil_refl]. }
  all: set (d := length h);
       set (B := BOpts (ZS :: repeat ZS (length gs)));
       set (h3 := upd (upd (h ++ [Live (BOpts (repeat (SOpt zero_opt) (length gs + 1)))]) d
                        (Live (BOpts (map SOpt (map rec_of_gopt gs) ++ [SOpt zero_opt])))) d (Live B)).
  all: assert (Hd3 : get h3 d = Live B) by (subst h3 d; sget; reflexivity).
  all: assert (Hlen3 : length h3 = S (length h)) by (subst h3; len; lia).
  all: assert (Hfr3 : forall a, a < length h -> get h3 a = get h a) by (intros a Ha; subst h3 d; sget; reflexivity).
  all: assert (HS3 : SepC h3 (cells_gopts (mkGOpts d [] (repeat ZS (length gs)))))
        by (rewrite cells_gopts_mk; cbn [map app flat_map]; split;
            [rewrite Holds_cons; split; [exact Hd3 | apply Holds_nil] | intros a; cnorm; destruct (d =? a); cbn [b2n]; lia]).
  all: assert (HP3 : PostC h [] h3 (cells_gopts (mkGOpts d [] (repeat ZS (length gs))))).
  1,3: rewrite cells_gopts_mk; cbn [map app flat_map]; unfold PostC; split; [lia|]; split; [|split]; intros a.
  1,4: intros Ha _; apply Hfr3; exact Ha.
  1,3: intros [b Hb]; pose proof (get_live_lt _ _ _ Hb) as Hl; rewrite Hlen3 in Hl;
       destruct (Nat.eq_dec a d) as [->|Hne];
       [left; cnorm; rewrite Nat.eqb_refl; cbn [b2n]; lia | right; split; [subst d; lia|reflexivity]].
  1,2: cnorm; destruct (Nat.eqb_spec d a) as [<-|]; cbn [b2n]; subst d; lia.
  all: assert (Hstr3 : Holds h3 (flat_map cells_gopt gs))
        by (eapply Holds_frame; [exact Hstr|]; intros a Ha; apply Hfr3; apply HBs; exact Ha).
  all: assert (Hdisj3 : forall a, 1 <= cnt (flat_map cells_gopt gs) a ->
                 cnt (cells_gopts (mkGOpts d [] (repeat ZS (length gs)))) a = 0)
        by (intros a Ha; apply HBs in Ha; rewrite cells_gopts_mk; cbn [map app flat_map]; cnorm;
            destruct (Nat.eqb_spec d a); cbn [b2n]; subst d; lia).
  1: destruct (dup_loop_spec (cfg_dupopt_array fuel) d gs [] h3 0 Ht (Forall_nil _) Hstr3 Hdisj3 HS3)
       as (hc & dgs & r & ok & Hrun & HSc & HPc & Htc & Hres).
  2: destruct (dup_loop_spec (cfg_dupopt_array fuel) d gs [] h3 (S k) Ht (Forall_nil _) Hstr3 Hdisj3 HS3)
       as (hc & dgs & r & ok & Hrun & HSc & HPc & Htc & Hres).
  all: cbn zeta in HSc, HPc; cbn [length] in Hrun.
  all: destruct ok.
  1,3: (* success *)
       destruct Hres as (Hh & -> & Habs); exists hc, (Some d); split;
       [ eapply bind_intro; [eapply load_opts_ok; exact Hsrc|]; cbn beta;
         rewrite named_prefix_slots, map_length;
         (eapply bind_intro; [first [apply malloc_ok0 | apply malloc_okS]|]); cbn beta iota;
         (eapply bind_intro; [eapply store_ok; fold d; sget; reflexivity|]); cbn beta;
         (eapply bind_intro; [eapply store_ok; fold d; sget; reflexivity|]); cbn beta;
         rewrite (clear_template gs Ht); fold d; fold B; fold h3;
         (eapply bind_intro; [exact Hrun|]); cbn beta iota; unfold ret; apply Ok_eq; lia
       | split; [unfold hits in *; lia|];
         exists (mkGOpts d dgs []); split; [reflexivity|]; split; [reflexivity|];
         split; [exact Htc|]; split; [exact HSc|]; split; [eapply PostC_trans; eassumption|];
         cbn [gs_opts]; rewrite Habs; reflexivity ].
  (* failure inside the loop: goto err *)
  1: destruct (free_opt_array_spec fuel hc (0 - nreq_opts gs) (mkGOpts d dgs (repeat ZS r)) Htc HSc)
       as (hf & Hrunf & HPf).
  2: destruct (free_opt_array_spec fuel hc (S k - nreq_opts gs) (mkGOpts d dgs (repeat ZS r)) Htc HSc)
       as (hf & Hrunf & HPf).
  all: exists hf, None; split;
       [ eapply bind_intro; [eapply load_opts_ok; exact Hsrc|]; cbn beta;
         rewrite named_prefix_slots, map_length;
         (eapply bind_intro; [first [apply malloc_ok0 | apply malloc_okS]|]); cbn beta iota;
         (eapply bind_intro; [eapply store_ok; fold d; sget; reflexivity|]); cbn beta;
         (eapply bind_intro; [eapply store_ok; fold d; sget; reflexivity|]); cbn beta;
         rewrite (clear_template gs Ht); fold d; fold B; fold h3;
         (eapply bind_intro; [exact Hrun|]); cbn beta iota;
         (eapply bind_intro; [exact Hrunf|]); cbn beta; unfold ret; apply Ok_eq; unfold hits in Hres; lia
       | split; [unfold hits in *; lia|];
         eapply PostC_trans; [eapply PostC_trans; eassumption|exact HPf] ].
Qed.

(* ---------------------------------------------------------------------- *)
(*  (7) cfg_init                                                           *)
(* ---------------------------------------------------------------------- *)
(* the frame rule: owned blocks A that a call does not know about stay owned and intact *)
Lemma frame_rule h A L h' L' :
  SepC h (A ++ L) -> SepC h' L' -> PostC h L h' L' ->
  SepC h' (A ++ L') /\ PostC h (A ++ L) h' (A ++ L').
Proof.
  intros [HH HN] [HH' HN'] (P1 & P2 & P3 & P4).
  pose proof (Holds_bound _ _ HH) as HB.
  rewrite Holds_app in HH. destruct HH as [HA HL].
  assert (HAf : forall a, 1 <= cnt A a -> a < length h /\ cnt L a = 0).
  { intros a Ha. specialize (HN a). specialize (HB a). rewrite cnt_app in *. lia. }
  split; [split|].
  - rewrite Holds_app. split; [|exact HH'].
    eapply Holds_frame; [exact HA|]. intros a Ha. apply P2; apply HAf; exact Ha.
  - intros a. rewrite cnt_app. specialize (HN' a). specialize (HN a). rewrite cnt_app in HN.
    destruct (Nat.eq_dec (cnt A a) 0) as [|Hne]; [lia|].
    destruct (Nat.eq_dec (cnt L' a) 0) as [|Hne']; [lia|].
    destruct (HAf a); [lia|]. destruct (P4 a); lia.
  - split; [exact P1|]. split; [|split]; intros a.
    + rewrite cnt_app. intros Hl Hz. apply P2; lia.
    + rewrite !cnt_app. intros Hl. destruct (P3 a Hl) as [|[Hlt Hz]]; [lia|].
      destruct (Nat.eq_dec (cnt A a) 0); [right|left]; lia.
    + rewrite !cnt_app. intros Ha.
      destruct (Nat.eq_dec (cnt A a) 0); [|lia]. destruct (P4 a); lia.
Qed.

Lemma SepC_nil h : SepC h [].
Proof. split; [constructor| intros; cbn; lia]. Qed.


Lemma init_flat_spec fuel h k Gs :
  template Gs -> Holds h (cells_gopts Gs) ->
  let N := nreq_init (gs_opts Gs) in
  exists h' out,
    cfg_init (S fuel) (gs_addr Gs) (mkst h k) = Ok out (mkst h' (k - N)) /\
    match out with
    | Failed => hits k N /\ PostC h [] h' []
    | Done ca =>
        ~ hits k N /\
        exists c, gc_addr c = ca /\ SepC h' (cells_gcfg c) /\ PostC h [] h' (cells_gcfg c) /\
                  abs_cfg c = mkACfg (Some root_name) (map abs_opt (gs_opts Gs)) []
    end.
Proof.
  intros Ht HHs N. subst N. unfold nreq_init.
  pose proof (SepC_nil h) as HS0. pose proof HS0 as [HH0 HN].
  pose proof (Holds_bound _ _ HH0) as HB.
  pose proof (Holds_bound _ _ HHs) as HBs.
  unfold cfg_init.
  destruct k as [|[|[|k]]].
  2:{ exists h, Failed. split; [steps1|]. split; [unfold hits; lia|apply PostC_nil_refl]. }
  2:{ eexists; exists Failed. split; [steps1|]. split; [unfold hits; lia|].
      unfold PostC. split; [arith|]. split; [|split]; intros a.
      - intros Hl _. sget. reflexivity.
      - intros [b Hb]. pose proof (get_live_lt _ _ _ Hb) as Hl. len_in Hl.
        destruct (Nat.eq_dec a (length h)) as [->|Hne]; [sget_in Hb; discriminate|].
        right. split; [lia|reflexivity].
      - cbn [cnt]. lia. }
  all: set (ca := length h); set (na := S (length h));
       set (A := [(ca, BCfg (Some na) None None); (na, BStr root_name)]);
       set (h2 := upd ((h ++ [Live (BCfg None None None)]) ++ [Live (BStr root_name)]) ca
                      (Live (BCfg (Some na) None None))).
  all: assert (HS2 : SepC h2 (A ++ [])) by (subst A h2 ca na; sep_tac).
  all: assert (HP2 : PostC h [] h2 (A ++ [])) by (subst A h2 ca na; post_tac).
  all: assert (HHs2 : Holds h2 (cells_gopts Gs))
        by (eapply Holds_frame; [exact HHs|]; intros a Ha; apply HBs in Ha; subst h2 ca; sget; reflexivity).
  1: destruct (dupopt_flat_spec fuel h2 0 Gs Ht HHs2) as (h3 & out & Hrun3 & Hout3).
  2: destruct (dupopt_flat_spec fuel h2 (S k) Gs Ht HHs2) as (h3 & out & Hrun3 & Hout3).
  all: cbn zeta in Hrun3; destruct out as [d|].
  1,3: (* the option array was duplicated *)
    destruct Hout3 as (Hh3 & G' & Hd' & Hsp' & Ht' & HS3 & HP3 & Habs3);
    destruct G' as [d' dgs sp]; cbn [gs_addr gs_spare gs_opts] in *; subst d' sp;
    destruct (frame_rule h2 A [] h3 _ HS2 HS3 HP3) as [HS3' HP3'];
    clear HN HB HH0; pose proof HS3' as [HH3 HN]; pose proof (Holds_bound _ _ HH3) as HB;
    subst A; projd; hbreak HH3; bounds; distinct;
    eexists; exists (Done ca); (split;
      [ repeat step1; (eapply bind_intro; [exact Hrun3|]); cbn beta iota; repeat step1;
        unfold ret; apply Ok_eq; lia |]);
    (split; [unfold hits in *; lia|]);
    exists (mkGCfg ca (Some (na, root_name)) (mkGOpts d dgs []) []);
    (split; [reflexivity|]); (split; [sepc_tac|]);
    (split; [eapply PostC_trans; [exact HP2|]; eapply PostC_trans; [exact HP3'|]; postc_tac|]);
    unfold abs_cfg; cbn [gc_name gc_opts gc_path gs_opts val_of snd map]; rewrite Habs3; reflexivity.
  all: (* the duplication failed *)
    destruct Hout3 as (Hh3 & HP3);
    destruct (frame_rule h2 A [] h3 [] HS2 (SepC_nil h3) HP3) as [HS3' HP3'];
    clear HN HB HH0; pose proof HS3' as [HH3 HN]; pose proof (Holds_bound _ _ HH3) as HB;
    subst A; projd; hbreak HH3; bounds; distinct;
    eexists; exists Failed; (split;
      [ repeat step1; (eapply bind_intro; [exact Hrun3|]); cbn beta iota; repeat step1;
        unfold ret; apply Ok_eq; unfold hits in *; lia |]);
    (split; [unfold hits in *; lia|]);
    (eapply PostC_trans; [exact HP2|]; eapply PostC_trans; [exact HP3'|]; postc_tac).
Qed.

(* ---------------------------------------------------------------------- *)
(*  (4) cfg_tilde_expand / cfg_add_searchpath                              *)
(* ---------------------------------------------------------------------- *)
Lemma bind_assoc_intro A B C (m : M A) (f : A -> M B) (g : B -> M C) s r :
  bind m (fun x => bind (f x) g) s = r -> bind (bind m f) g s = r.
Proof. intros <-. unfold bind. destruct (m s); reflexivity. Qed.

Ltac step2 :=
  lazymatch goal with
  | |- bind (bind _ _) _ _ = _ => apply bind_assoc_intro; cbn beta iota
  | _ => step1
  end; cbn [negb].
Ltac steps2 := repeat step2; try (unfold ret; finish).


Lemma cells_path_cons pa da ds path :
  cells_path (mkGPath pa (da, ds) :: path) =
  (pa, BPath (Some da) (head_ptr path)) :: (da, BStr ds) :: cells_path path.
Proof. reflexivity. Qed.

Ltac projp := repeat progress (rewrite ?cells_path_cons in *; cbn [head_ptr gp_addr] in *; projd).
Ltac sepp_tac := split; [ projp; hgoal; first [atom | piece] | projp; nodup_tac ].
Ltac postp_tac := projp; post_tac.

Lemma add_searchpath_spec h k c t :
  SepC h (cells_gcfg c) ->
  let N := nreq_texp t + 1 in
  exists h' c' out,
    cfg_add_searchpath (gc_addr c) t (mkst h k) = Ok out (mkst h' (k - N)) /\
    gc_addr c' = gc_addr c /\
    SepC h' (cells_gcfg c') /\ PostC h (cells_gcfg c) h' (cells_gcfg c') /\
    match out with
    | Failed => hits k N /\ c' = c
    | Done _ => ~ hits k N /\
                abs_cfg c' = mkACfg (c_name (abs_cfg c)) (c_opts (abs_cfg c))
                                    (texp_result t :: c_path (abs_cfg c))
    end.
Proof.
  intros HS N. subst N. pose proof HS as [HH HN].
  destruct c as [ca nm G path].
  pose proof (Holds_bound _ _ HH) as HB.
  projp. hbreak HH. bounds. distinct.
  unfold cfg_add_searchpath, cfg_tilde_expand, nreq_texp, texp_result. cbn [gc_addr].
  destruct t as [[u|] [e|] plain]; cbn [t_user t_passwd t_plain].
  - destruct k as [|[|[|[|k]]]].
    1,5: eexists; exists (mkGCfg ca nm G (mkGPath (S (S (length h))) (S (length h), e) :: path)); exists (Done tt);
         (split; [steps2|]); (split; [reflexivity|]); (split; [sepp_tac|]); (split; [postp_tac|]);
         (split; [unfold hits; lia|reflexivity]).
    all: eexists; exists (mkGCfg ca nm G path); exists Failed;
         (split; [steps2|]); (split; [reflexivity|]); (split; [sepp_tac|]); (split; [postp_tac|]);
         (split; [unfold hits; lia|reflexivity]).
  - destruct k as [|[|[|[|k]]]].
    1,5: eexists; exists (mkGCfg ca nm G (mkGPath (S (S (length h))) (S (length h), plain) :: path)); exists (Done tt);
         (split; [steps2|]); (split; [reflexivity|]); (split; [sepp_tac|]); (split; [postp_tac|]);
         (split; [unfold hits; lia|reflexivity]).
    all: eexists; exists (mkGCfg ca nm G path); exists Failed;
         (split; [steps2|]); (split; [reflexivity|]); (split; [sepp_tac|]); (split; [postp_tac|]);
         (split; [unfold hits; lia|reflexivity]).
  - destruct k as [|[|[|k]]].
    1,4: eexists; exists (mkGCfg ca nm G (mkGPath (S (length h)) (length h, e) :: path)); exists (Done tt);
         (split; [steps2|]); (split; [reflexivity|]); (split; [sepp_tac|]); (split; [postp_tac|]);
         (split; [unfold hits; lia|reflexivity]).
    all: eexists; exists (mkGCfg ca nm G path); exists Failed;
         (split; [steps2|]); (split; [reflexivity|]); (split; [sepp_tac|]); (split; [postp_tac|]);
         (split; [unfold hits; lia|reflexivity]).
  - destruct k as [|[|[|k]]].
    1,4: eexists; exists (mkGCfg ca nm G (mkGPath (S (length h)) (length h, plain) :: path)); exists (Done tt);
         (split; [steps2|]); (split; [reflexivity|]); (split; [sepp_tac|]); (split; [postp_tac|]);
         (split; [unfold hits; lia|reflexivity]).
    all: eexists; exists (mkGCfg ca nm G path); exists Failed;
         (split; [steps2|]); (split; [reflexivity|]); (split; [sepp_tac|]); (split; [postp_tac|]);
         (split; [unfold hits; lia|reflexivity]).
Qed.
