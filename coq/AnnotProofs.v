(* AnnotProofs.v — C15, second sentence: annotations.  With CFGF_COMMENTS on the context, the comment read last in
   state 0 before an assignment becomes the annotation of the option assigned (o_comment), comments inside the item
   are skipped, a later assignment without a comment keeps the annotation, an unknown option drops the pending
   comment, print writes the annotation in front of the option.  Token level: the token source is PP_Tok.yields. *)
From Coq Require String.
From Coq Require Import List Arith NArith ZArith Bool Lia.
From Coq.Strings Require Import Byte.
From LC Require Import Bytes Consts Conv Flex LexAct Lexer LexLemmas LexAll Files Store Parser Grammar
  PP_Base PP_Step PP_Tok PP_Setopt PP_Inv PP_Machine PP_GetoptObs PP_LexYields PP_LexFrame ParserProofs Print AnnotLexProofs.
Import ListNotations.
Import String.StringSyntax.
Local Open Scope string_scope.
Local Open Scope list_scope.
Local Open Scope nat_scope.

(* ---------- vocabulary ---------- *)
Definition iscm (t : ltok) : Prop := lt_tok t = TComment.
Definition ispunct (t : ltok) (x : N) : Prop := lt_tok t = TPunct x.
Definition isstr (t : ltok) (v : str) : Prop := lt_tok t = TStr /\ lt_val t = Some v.

(* a world reading the tokens ts (then end of input) with enough fuel *)
Definition conf (e : ctx) (fuel : nat) (w : pw) (L : lexst) (ts : list ltok) : Prop :=
  wst w e L /\ yieldsc e L ts /\ measure L + length ts + 1 < fuel.

(* the option the machine handled last is not deprecated (cfg_handle_deprecated does nothing) *)
Definition nodep (c : cfg) (p : pst) : Prop :=
  match s_opt p with
  | Some r => match get_opt c r with Some o => oflag o CFGF_DEPRECATED = false | None => True end
  | None => True
  end.

Lemma nodep_ceq c c' p : ceq c' c -> nodep c p -> nodep c' p.
Proof. intros C. unfold nodep. destruct (s_opt p) as [r|]; [|auto]. rewrite (ceq_get _ _ r C). auto. Qed.

Lemma nodep_dep_w w c p : nodep c p -> dep_w w c p = (w, c).
Proof.
  unfold nodep, dep_w, handle_deprecated. destruct (s_opt p) as [r|]; [|reflexivity].
  destruct (get_opt c r) as [o|]; [|reflexivity]. intros ->. reflexivity.
Qed.

Lemma conf_weaken e fuel w L ts : conf e fuel w L ts -> wst w e L.
Proof. intros (H & _). exact H. Qed.

Section WithOracles.
Variable strtod_o : str -> strtod_res.
Notation PI := (parse_internal strtod_o).
Notation SO := (setopt strtod_o).

(* ---------- one token ---------- *)
Lemma step1 e t ts L w c fuel :
  conf e fuel w L (t :: ts) ->
  exists f w' c' L', ceq c' c /\ conf e f w' L' ts /\ f < fuel /\
    lt_tok t <> TEof /\ lt_tok t <> TErr /\
    forall level p, PI fuel w c level p = pi_body strtod_o f level p w' c' (lt_tok t) (lt_val t).
Proof.
  intros (Hw & Hy & Hf). apply yields_length_inv in Hy. destruct Hy as (A & B & SV & s' & Ht & Hm & Hy').
  destruct fuel as [|f]; [lia|]. cbn [length] in Hf.
  destruct (pi_step strtod_o f w c e L _ _ s' Hw Ht ltac:(lia)) as (w' & pos & Hw' & E).
  exists f, w', (set_pos c pos), s'. split; [apply ceq_set_pos|]. split; [|split; [lia|split; [exact A|split; [exact B|exact E]]]].
  split; [exact Hw'|]. split; [exact Hy'|lia].
Qed.

(* end of input in state 0 *)
Lemma eof0 e L w c fuel level p :
  conf e fuel w L [] -> s_state p = 0 -> (level = 0 \/ s_forced p = true) -> nodep c p ->
  exists w' c', PI fuel w c level p = (w', c', PEOF) /\ ceq c' c /\ w_oof w' = false.
Proof.
  intros (Hw & Hy & Hf) Hs Hl Hd. apply yields_length_inv in Hy. destruct Hy as (s' & Ht).
  destruct fuel as [|f]; [lia|]. cbn [length] in Hf.
  destruct (pi_step strtod_o f w c e L TEof None s' Hw Ht ltac:(lia)) as (w' & pos & Hw' & E).
  rewrite E. unfold pi_body. rewrite Hs. cbn [Nat.eqb negb].
  assert (HH : negb (level =? 0) && negb (s_forced p) = false).
  { destruct Hl as [->| ->]; [reflexivity|apply andb_false_r]. }
  rewrite HH. rewrite nodep_dep_w by (eapply nodep_ceq; [apply ceq_set_pos|exact Hd]).
  exists w', (set_pos c pos). split; [reflexivity|]. split; [apply ceq_set_pos|]. eapply wst_oof, Hw'.
Qed.

(* comments in a state other than 0 are skipped; the next token is dispatched *)
Lemma fetch e : forall cs t ts L w c level p fuel,
  conf e fuel w L (cs ++ t :: ts) -> Forall iscm cs -> ~ iscm t -> s_state p <> 0 ->
  exists f w' c' L', PI fuel w c level p = st_dispatch strtod_o f level p w' c' (lt_tok t) (lt_val t) /\
    ceq c' c /\ conf e f w' L' ts /\ f < fuel.
Proof.
  induction cs as [|k cs IH]; intros t ts L w c level p fuel Hc Hk Ht Hs.
  - cbn [app] in Hc. destruct (step1 e t ts L w c fuel Hc) as (f & w' & c' & L' & C & Hc' & Hlt & A & B & E).
    exists f, w', c', L'. split; [|auto]. rewrite E. unfold pi_body. unfold iscm in Ht.
    destruct (lt_tok t); try congruence; reflexivity.
  - cbn [app] in Hc. destruct (step1 e k _ L w c fuel Hc) as (f & w' & c' & L' & C & Hc' & Hlt & A & B & E).
    inversion Hk as [|k' cs' K1 K2]; subst. unfold iscm in K1.
    destruct (IH t ts L' w' c' level p f Hc' K2 Ht Hs) as (f2 & w2 & c2 & L2 & E2 & C2 & Hc2 & Hlt2).
    exists f2, w2, c2, L2. split; [|split; [eapply ceq_trans; eauto|split; [exact Hc2|lia]]].
    rewrite E. unfold pi_body. rewrite K1. apply Nat.eqb_neq in Hs. rewrite Hs. cbn [negb]. exact E2.
Qed.

(* a token in state 0 is dispatched to st0 *)
Lemma fetch0 e t ts L w c level p fuel :
  conf e fuel w L (t :: ts) -> s_state p = 0 ->
  exists f w' c' L', PI fuel w c level p = st0 strtod_o f level p w' c' (lt_tok t) (lt_val t) /\
    ceq c' c /\ conf e f w' L' ts /\ f < fuel.
Proof.
  intros Hc Hs. destruct (step1 e t ts L w c fuel Hc) as (f & w' & c' & L' & C & Hc' & Hlt & A & B & E).
  exists f, w', c', L'. split; [|auto]. rewrite E. unfold pi_body, st_dispatch. rewrite Hs. cbn [Nat.eqb negb].
  destruct (lt_tok t); try congruence; reflexivity.
Qed.

(* ---------- cfg_setopt never touches the annotation ---------- *)
Lemma o_comment_setf o m : o_comment (o_setf o m) = o_comment o. Proof. destruct o; reflexivity. Qed.
Lemma o_comment_clrf o m : o_comment (o_clrf o m) = o_comment o. Proof. destruct o; reflexivity. Qed.
Lemma o_comment_set_vals o v : o_comment (set_vals o v) = o_comment o. Proof. destruct o; reflexivity. Qed.
Lemma o_comment_set_comment o v : o_comment (set_comment o v) = v. Proof. destruct o; reflexivity. Qed.
Lemma o_comment_addval o : o_comment (addval o) = o_comment o.
Proof. unfold addval. rewrite o_comment_setf, o_comment_set_vals. reflexivity. Qed.

Lemma free_value_comment_reset o : oflag o CFGF_RESET = true -> o_comment (fst (free_value o)) = o_comment o.
Proof.
  intros H. unfold free_value. rewrite H. cbn [negb fst].
  destruct (o_comment o) eqn:E; rewrite o_comment_set_vals; exact E.
Qed.

Lemma so_reset_comment w o : o_comment (snd (so_reset w o)) = o_comment o.
Proof.
  unfold so_reset. destruct (oflag o CFGF_RESET) eqn:R; [|reflexivity].
  pose proof (free_value_comment_reset o R) as H. destruct (free_value o) as [x fr]. cbn [fst snd] in *.
  rewrite o_comment_clrf. exact H.
Qed.

Lemma so_slot_comment w0 c o0 txt w1 o1 idx : so_slot w0 c o0 txt = Some (w1, o1, idx) -> o_comment o1 = o_comment o0.
Proof.
  unfold so_slot. intros H.
  repeat match type of H with
         | (if ?b then _ else _) = _ => destruct b
         | match ?x with _ => _ end = _ => destruct x
         end; try discriminate; injection H as _ <- _; rewrite ?o_comment_addval; reflexivity.
Qed.

Lemma so_kind_comment f c txt w1 o1 idx : o_comment (snd (fst (so_kind strtod_o f c txt w1 o1 idx))) = o_comment o1.
Proof.
  unfold so_kind, so_store, run_parsecb.
  destruct (o_kind o1); cbn [fst snd];
  repeat match goal with
         | |- context [let '(_, _) := ?x in _] => destruct x
         | |- context [match ?x with _ => _ end] => destruct x
         end; cbn [fst snd]; rewrite ?o_comment_setf, ?o_comment_set_vals; reflexivity.
Qed.

Lemma setopt_comment f w c o txt : o_comment (snd (fst (SO f w c o txt))) = o_comment o.
Proof.
  destruct f as [|f]; [reflexivity|]. rewrite so_unfold. unfold so_body.
  pose proof (so_reset_comment w o) as R. destruct (so_reset w o) as [w0 o0]. cbn [snd] in R.
  destruct (so_slot w0 c o0 txt) as [[[w1 o1] idx]|] eqn:S.
  - rewrite so_kind_comment. rewrite (so_slot_comment _ _ _ _ _ _ _ S). exact R.
  - cbn [fst snd]. exact R.
Qed.


(* ... nor the option's own CFGF_COMMENTS bit *)
Lemma oflagC_setf_mod o : oflag (o_setf o CFGF_MODIFIED) CFGF_COMMENTS = oflag o CFGF_COMMENTS.
Proof. rewrite oflag_setf. cbn. apply orb_false_r. Qed.
Lemma oflagC_setf_reset o : oflag (o_setf o CFGF_RESET) CFGF_COMMENTS = oflag o CFGF_COMMENTS.
Proof. rewrite oflag_setf. cbn. apply orb_false_r. Qed.
Lemma oflagC_clrf_reset o : oflag (o_clrf o CFGF_RESET) CFGF_COMMENTS = oflag o CFGF_COMMENTS.
Proof. apply oflag_clrf_disj. reflexivity. Qed.
Lemma oflagC_addval o : oflag (addval o) CFGF_COMMENTS = oflag o CFGF_COMMENTS.
Proof. unfold addval. rewrite oflagC_setf_mod, oflag_set_vals. reflexivity. Qed.

Lemma so_reset_oflagC w o : oflag (snd (so_reset w o)) CFGF_COMMENTS = oflag o CFGF_COMMENTS.
Proof.
  unfold so_reset. destruct (oflag o CFGF_RESET) eqn:R; [|reflexivity].
  pose proof (free_value_props o) as (_ & _ & H). destruct (free_value o) as [x fr]. cbn [fst snd] in *.
  rewrite oflagC_clrf_reset. apply H.
Qed.

Lemma so_slot_oflagC w0 c o0 txt w1 o1 idx :
  so_slot w0 c o0 txt = Some (w1, o1, idx) -> oflag o1 CFGF_COMMENTS = oflag o0 CFGF_COMMENTS.
Proof.
  unfold so_slot. intros H.
  repeat match type of H with
         | (if ?b then _ else _) = _ => destruct b
         | match ?x with _ => _ end = _ => destruct x
         end; try discriminate; injection H as _ <- _; rewrite ?oflagC_addval; reflexivity.
Qed.

Lemma so_kind_oflagC f c txt w1 o1 idx :
  oflag (snd (fst (so_kind strtod_o f c txt w1 o1 idx))) CFGF_COMMENTS = oflag o1 CFGF_COMMENTS.
Proof.
  unfold so_kind, so_store, run_parsecb.
  destruct (o_kind o1); cbn [fst snd];
  repeat match goal with
         | |- context [let '(_, _) := ?x in _] => destruct x
         | |- context [match ?x with _ => _ end] => destruct x
         end; cbn [fst snd]; rewrite ?oflagC_setf_mod, ?oflag_set_vals; reflexivity.
Qed.

Lemma setopt_oflagC f w c o txt : oflag (snd (fst (SO f w c o txt))) CFGF_COMMENTS = oflag o CFGF_COMMENTS.
Proof.
  destruct f as [|f]; [reflexivity|]. rewrite so_unfold. unfold so_body.
  pose proof (so_reset_oflagC w o) as R. destruct (so_reset w o) as [w0 o0]. cbn [snd] in R.
  destruct (so_slot w0 c o0 txt) as [[[w1 o1] idx]|] eqn:S.
  - rewrite so_kind_oflagC. rewrite (so_slot_oflagC _ _ _ _ _ _ _ S). exact R.
  - cbn [fst snd]. exact R.
Qed.

(* ---------- what an assignment leaves in the option ----------
   pc: the comment pending when the value is stored; vals: the values afterwards *)
Definition assigned (pc : option str) (o o' : opt) (vals : list value) : Prop :=
  shape o' = shape o /\ o_vals o' = vals /\ oflag o' CFGF_RESET = false /\
  o_comment o' = match pc with Some cm => Some cm | None => o_comment o end /\
  oflag o' CFGF_COMMENTS = match pc with Some _ => true | None => oflag o CFGF_COMMENTS end.

Lemma cmt_comment p o : o_comment (cmt p o) = match s_comment p with Some cm => Some cm | None => o_comment o end.
Proof.
  unfold cmt. destruct (s_comment p) as [cm|]; [|reflexivity]. unfold opt_setcomment.
  rewrite !o_comment_setf, o_comment_set_comment. reflexivity.
Qed.
Lemma cmt_oflagC p o : oflag (cmt p o) CFGF_COMMENTS = match s_comment p with Some _ => true | None => oflag o CFGF_COMMENTS end.
Proof.
  unfold cmt. destruct (s_comment p) as [cm|]; [|reflexivity]. unfold opt_setcomment.
  rewrite oflagC_setf_mod, oflag_setf. apply orb_true_r.
Qed.

(* storing one value: cfg_setopt, the (absent) validate callback, cfg_opt_setcomment of the pending comment *)
Lemma store_value f w c o v x p :
  scalar_kind (o_kind o) = true -> cb_parse (o_cbs o) = None -> cb_valid (o_cbs o) = None ->
  (oflag o CFGF_RESET = true \/ oflag o CFGF_LIST = true) ->
  conv_value strtod_o (o_kind o) v = Some x ->
  exists w1 o1 idx, SO (S f) w c o (Some v) = (w1, o1, Some idx) /\ wkeep w w1 /\ run_validcb w1 o1 = (w1, false) /\
    assigned (s_comment p) o (cmt p o1) ((if oflag o CFGF_RESET then [] else o_vals o) ++ [x]).
Proof.
  intros K CB CV HRL CX.
  destruct (so_value strtod_o f w c o v K CB HRL) as (w1 & o1 & res & E & WK & R).
  rewrite CX in R. destruct R as (RN & V & SH & RS).
  destruct res as [idx|]; [|congruence]. exists w1, o1, idx. split; [exact E|]. split; [exact WK|].
  split. { apply run_validcb_none. rewrite (shape_cbs _ _ SH). exact CV. }
  pose proof (cmt_props p o1) as (A1 & A2 & A3).
  pose proof (setopt_comment (S f) w c o (Some v)) as SC. rewrite E in SC. cbn [fst snd] in SC.
  pose proof (setopt_oflagC (S f) w c o (Some v)) as SF. rewrite E in SF. cbn [fst snd] in SF.
  unfold assigned. split; [congruence|]. split; [congruence|]. split; [congruence|].
  split.
  - rewrite cmt_comment, SC. reflexivity.
  - rewrite cmt_oflagC, SF. reflexivity.
Qed.


Lemma assigned_trans pc o o1 o2 v1 v2 : assigned pc o o1 v1 -> assigned None o1 o2 v2 -> assigned pc o o2 v2.
Proof.
  intros (A1 & A2 & A3 & A4 & A5) (B1 & B2 & B3 & B4 & B5). unfold assigned.
  split; [congruence|]. split; [exact B2|]. split; [exact B3|]. split; congruence.
Qed.

Lemma assigned_pre pc o0 o o' v : shape o = shape o0 -> o_comment o = o_comment o0 ->
  oflag o CFGF_COMMENTS = oflag o0 CFGF_COMMENTS -> assigned pc o o' v -> assigned pc o0 o' v.
Proof.
  intros S C F (A1 & A2 & A3 & A4 & A5). unfold assigned. split; [congruence|]. split; [exact A2|]. split; [exact A3|].
  rewrite A4, A5, C, F. split; reflexivity.
Qed.

(* ---------- state 0: comment tokens ---------- *)
(* the pending comment after the comment tokens cs, starting from d *)
Definition pend (on : bool) (cs : list ltok) (d : option str) : option str :=
  if on then fold_left (fun _ t => Some (sval (lt_val t))) cs d else d.

Lemma pend_snoc cs t d : pend true (cs ++ [t]) d = Some (sval (lt_val t)).
Proof. unfold pend. rewrite fold_left_app. reflexivity. Qed.
Lemma pend_off cs d : pend false cs d = d. Proof. reflexivity. Qed.
Lemma pend_nil on d : pend on [] d = d. Proof. destruct on; reflexivity. Qed.

Lemma st_comment_same p : st_comment p (s_comment p) = p.
Proof. destruct p; reflexivity. Qed.

Lemma nodep_st_comment c p x : nodep c (st_comment p x) <-> nodep c p.
Proof. unfold nodep. cbn [s_opt st_comment]. tauto. Qed.

Lemma comments0 e : forall cs ts L w c level p fuel,
  conf e fuel w L (cs ++ ts) -> Forall iscm cs -> s_state p = 0 -> nodep c p ->
  exists f w' c' L',
    PI fuel w c level p = PI f w' c' level (st_comment p (pend (cflag c CFGF_COMMENTS) cs (s_comment p))) /\
    ceq c' c /\ conf e f w' L' ts /\ f <= fuel.
Proof.
  induction cs as [|k cs IH]; intros ts L w c level p fuel Hc Hk Hs Hd.
  - exists fuel, w, c, L. rewrite pend_nil, st_comment_same. split; [reflexivity|]. split; [apply ceq_refl|]. split; [exact Hc|lia].
  - cbn [app] in Hc. destruct (fetch0 e k _ L w c level p fuel Hc Hs) as (f & w1 & c1 & L1 & E & C & Hc1 & Hlt).
    inversion Hk as [|k' cs' K1 K2]; subst. unfold iscm in K1.
    assert (Hd1 : nodep c1 p) by (eapply nodep_ceq; eauto).
    rewrite E. unfold st0. rewrite (nodep_dep_w _ _ _ Hd1), K1.
    rewrite (ceq_cflag _ _ CFGF_COMMENTS C).
    destruct (cflag c CFGF_COMMENTS) eqn:On; cbn [negb].
    + destruct (IH ts L1 w1 c1 level (st_comment p (Some (sval (lt_val k)))) f Hc1 K2 Hs ltac:(apply nodep_st_comment; exact Hd1))
        as (f2 & w2 & c2 & L2 & E2 & C2 & Hc2 & Hle).
      exists f2, w2, c2, L2. rewrite E2. rewrite (ceq_cflag _ _ CFGF_COMMENTS C), On.
      split; [reflexivity|]. split; [eapply ceq_trans; eauto|]. split; [exact Hc2|lia].
    + destruct (IH ts L1 w1 c1 level p f Hc1 K2 Hs Hd1) as (f2 & w2 & c2 & L2 & E2 & C2 & Hc2 & Hle).
      exists f2, w2, c2, L2. rewrite E2. rewrite (ceq_cflag _ _ CFGF_COMMENTS C), On.
      split; [reflexivity|]. split; [eapply ceq_trans; eauto|]. split; [exact Hc2|lia].
Qed.

(* ---------- state 0: the name of a declared value option ---------- *)
Lemma st0_known f level p w c name r o :
  nodep c p -> fst (cfg_getopt c name) = Some r -> get_opt c r = Some o ->
  is_sec (o_kind o) = false -> o_kind o <> KFunc ->
  exists w', st0 strtod_o f level p w c TStr (Some name) = PI f w' c level (st_state (st_opt p (Some r)) 1) /\ wkeep w w'.
Proof.
  intros Hd Hg Ho K1 K2. unfold st0. rewrite (nodep_dep_w _ _ _ Hd). cbn [sval].
  destruct (cfg_getopt c name) as [ro ds]. cbn [fst] in Hg. subst ro. rewrite Ho.
  exists (add_diags w ds). split; [|apply wkeep_diags].
  destruct (o_kind o); try discriminate K1; try congruence; reflexivity.
Qed.

(* ---------- state 1: '=' and '+=' ---------- *)
Lemma oflagL_setf o m : has m CFGF_LIST = false -> oflag (o_setf o m) CFGF_LIST = oflag o CFGF_LIST.
Proof. intros H. rewrite oflag_setf, H. apply orb_false_r. Qed.

Definition after_eq (o : opt) : opt := o_setf (o_setf o CFGF_RESET) CFGF_MODIFIED.
Definition after_plus (o : opt) : opt := o_setf (o_clrf o CFGF_RESET) CFGF_MODIFIED.

Lemma after_eq_props o : shape (after_eq o) = shape o /\ o_comment (after_eq o) = o_comment o /\
  oflag (after_eq o) CFGF_COMMENTS = oflag o CFGF_COMMENTS /\ oflag (after_eq o) CFGF_RESET = true /\
  o_vals (after_eq o) = o_vals o.
Proof.
  unfold after_eq. split; [rewrite !shape_setf by reflexivity; reflexivity|].
  split; [rewrite !o_comment_setf; reflexivity|]. split; [rewrite oflagC_setf_mod, oflagC_setf_reset; reflexivity|].
  split; [rewrite !oflag_setf; cbn; rewrite orb_false_r; apply orb_true_r|]. rewrite !o_vals_setf. reflexivity.
Qed.
Lemma after_plus_props o : shape (after_plus o) = shape o /\ o_comment (after_plus o) = o_comment o /\
  oflag (after_plus o) CFGF_COMMENTS = oflag o CFGF_COMMENTS /\ oflag (after_plus o) CFGF_RESET = false /\
  o_vals (after_plus o) = o_vals o.
Proof.
  unfold after_plus. split; [rewrite shape_setf, shape_clrf by reflexivity; reflexivity|].
  split; [rewrite o_comment_setf, o_comment_clrf; reflexivity|]. split; [rewrite oflagC_setf_mod, oflagC_clrf_reset; reflexivity|].
  split; [rewrite oflag_setf, oflag_clrf_same; reflexivity|]. rewrite o_vals_setf, o_vals_clrf. reflexivity.
Qed.

Lemma st1_eq f level p w c r o v :
  s_opt p = Some r -> get_opt c r = Some o ->
  st1 strtod_o f level p w c (TPunct 61) v =
    if oflag o CFGF_LIST then PI f w (put_opt c r (after_eq o)) level (st_num (st_state p 3) 0)
    else PI f w (put_opt c r (after_eq o)) level (st_state p 2).
Proof.
  intros Hp Ho. unfold st1, curopt_of. rewrite Hp, Ho.
  change (tok_is (TPunct 61) 43) with false. change (tok_is (TPunct 61) 61) with true. cbv iota.
  fold (after_eq o). pose proof (after_eq_props o) as (S & _).
  rewrite (shape_oflag _ _ CFGF_LIST S eq_refl). reflexivity.
Qed.

Lemma st1_plus f level p w c r o v :
  s_opt p = Some r -> get_opt c r = Some o -> oflag o CFGF_LIST = true ->
  st1 strtod_o f level p w c (TPunct 43) v = PI f w (put_opt c r (after_plus o)) level (st_num (st_state p 3) 0).
Proof.
  intros Hp Ho HL. unfold st1, curopt_of. rewrite Hp, Ho.
  change (tok_is (TPunct 43) 43) with true. cbv iota. rewrite HL. cbn [negb].
  fold (after_plus o). pose proof (after_plus_props o) as (S & _).
  rewrite (shape_oflag _ _ CFGF_LIST S eq_refl), HL. reflexivity.
Qed.

(* ---------- states 2 / 3 / 4: values ---------- *)
(* the machine's locals afterwards: state st, no pending comment, the rest as before *)
Definition pzs (st : nat) (p p' : pst) : Prop :=
  s_state p' = st /\ s_comment p' = None /\ s_opt p' = s_opt p /\ s_title p' = s_title p /\ s_forced p' = s_forced p.

Lemma pzs_trans a b p p1 p2 : pzs a p p1 -> pzs b p1 p2 -> pzs b p p2.
Proof. unfold pzs. intros (A1 & A2 & A3 & A4 & A5) (B1 & B2 & B3 & B4 & B5). repeat split; congruence. Qed.

(* the same seen from outside an item: the option register is reported separately *)
Definition pz0 (p p' : pst) : Prop :=
  s_state p' = 0 /\ s_comment p' = None /\ s_title p' = s_title p /\ s_forced p' = s_forced p.
Lemma pzs_pz0 a p p1 p2 : pzs a p p1 -> pz0 p1 p2 -> pz0 p p2.
Proof. unfold pzs, pz0. intros (A1 & A2 & A3 & A4 & A5) (B1 & B2 & B4 & B5). repeat split; congruence. Qed.

Lemma assigned_refl o : oflag o CFGF_RESET = false -> assigned None o o (o_vals o).
Proof. intros H. unfold assigned. auto. Qed.

Lemma assigned_lopt pc o o' v : assigned pc o o' v -> lopt o -> lopt o'.
Proof. intros (S & _) H. eapply lopt_shape; eauto. Qed.
Lemma assigned_list pc o o' v : assigned pc o o' v -> oflag o' CFGF_LIST = oflag o CFGF_LIST.
Proof. intros (S & _). apply shape_oflag; [exact S|reflexivity]. Qed.
Lemma assigned_kind pc o o' v : assigned pc o o' v -> o_kind o' = o_kind o.
Proof. intros (S & _). apply shape_kind, S. Qed.
Lemma assigned_dep pc o o' v : assigned pc o o' v -> oflag o' CFGF_DEPRECATED = oflag o CFGF_DEPRECATED.
Proof. intros (S & _). apply shape_oflag; [exact S|reflexivity]. Qed.

(* state 2, scalar option: the value after '=' *)
Lemma st2_scalar f level p w c r o v x :
  s_opt p = Some r -> get_opt c r = Some o -> lopt o -> oflag o CFGF_LIST = false -> oflag o CFGF_RESET = true ->
  conv_value strtod_o (o_kind o) v = Some x ->
  exists w' o', st2 strtod_o (S f) level p w c TStr (Some v) = PI (S f) w' (put_opt c r o') level (st_state (st_comment p None) 0) /\
    wkeep w w' /\ assigned (s_comment p) o o' [x].
Proof.
  intros Hp Ho (K & CB & CV) HL HR CX. unfold st2, curopt_of. rewrite Hp, Ho.
  change (tok_is TStr 125) with false. cbn [andb tok_is_str negb].
  destruct (store_value f w c o v x p K CB CV (or_introl HR) CX) as (w1 & o1 & idx & E & WK & RV & AS).
  rewrite E. cbv iota beta. rewrite RV. cbv iota beta zeta.
  change (match s_comment p with Some cm => opt_setcomment o1 cm | None => o1 end) with (cmt p o1).
  rewrite (assigned_list _ _ _ _ AS), HL, put_put.
  exists w1, (cmt p o1). split; [reflexivity|]. split; [exact WK|]. rewrite HR in AS. exact AS.
Qed.

(* state 2, list option: a value inside the braces *)
Lemma st2_list f level p w c r o v x :
  s_opt p = Some r -> get_opt c r = Some o -> lopt o -> oflag o CFGF_LIST = true ->
  conv_value strtod_o (o_kind o) v = Some x ->
  exists w' o' p', st2 strtod_o (S f) level p w c TStr (Some v) = PI (S f) w' (put_opt c r o') level p' /\
    wkeep w w' /\ assigned (s_comment p) o o' ((if oflag o CFGF_RESET then [] else o_vals o) ++ [x]) /\ pzs 4 p p'.
Proof.
  intros Hp Ho (K & CB & CV) HL CX. unfold st2, curopt_of. rewrite Hp, Ho.
  change (tok_is TStr 125) with false. cbn [andb tok_is_str negb].
  destruct (store_value f w c o v x p K CB CV (or_intror HL) CX) as (w1 & o1 & idx & E & WK & RV & AS).
  rewrite E. cbv iota beta. rewrite RV. cbv iota beta zeta.
  change (match s_comment p with Some cm => opt_setcomment o1 cm | None => o1 end) with (cmt p o1).
  rewrite (assigned_list _ _ _ _ AS), HL, put_put.
  eexists w1, (cmt p o1), _. split; [reflexivity|]. split; [exact WK|]. split; [exact AS|].
  unfold pzs. cbn. auto.
Qed.

(* state 3, list option without braces: name = v *)
Lemma st3_value f level p w c r o v x :
  s_opt p = Some r -> get_opt c r = Some o -> lopt o -> oflag o CFGF_LIST = true ->
  conv_value strtod_o (o_kind o) v = Some x ->
  exists w' o' p', st3 strtod_o (S f) level p w c TStr (Some v) = PI (S f) w' (put_opt c r o') level p' /\
    wkeep w w' /\ assigned (s_comment p) o o' ((if oflag o CFGF_RESET then [] else o_vals o) ++ [x]) /\ pzs 0 p p'.
Proof.
  intros Hp Ho (K & CB & CV) HL CX. unfold st3, curopt_of. rewrite Hp, Ho.
  change (tok_is TStr 123) with false. cbn [tok_is_str negb]. cbv iota.
  destruct (store_value f w c o v x p K CB CV (or_intror HL) CX) as (w1 & o1 & idx & E & WK & RV & AS).
  rewrite E. cbv iota beta. rewrite RV. cbv iota beta zeta.
  change (match s_comment p with Some cm => opt_setcomment o1 cm | None => o1 end) with (cmt p o1).
  rewrite put_put.
  eexists w1, (cmt p o1), _. split; [reflexivity|]. split; [exact WK|]. split; [exact AS|].
  unfold pzs. cbn. auto.
Qed.

Lemma st3_brace f level p w c r o v :
  s_opt p = Some r -> get_opt c r = Some o ->
  st3 strtod_o f level p w c (TPunct 123) v = PI f w c level (st_state p 2).
Proof. intros Hp Ho. unfold st3, curopt_of. rewrite Hp, Ho. reflexivity. Qed.

Lemma st4_comma f level p w c v : st4 strtod_o f level p w c (TPunct 44) v = PI f w c level (st_state p 2).
Proof. reflexivity. Qed.

Lemma st4_close f level p w c r o v :
  s_opt p = Some r -> get_opt c r = Some o -> cb_valid (o_cbs o) = None ->
  st4 strtod_o f level p w c (TPunct 125) v = PI f w c level (st_state p 0).
Proof.
  intros Hp Ho CV. unfold st4, curopt_of. rewrite Hp, Ho.
  change (tok_is (TPunct 125) 44) with false. change (tok_is (TPunct 125) 125) with true. cbv iota.
  rewrite (run_validcb_none _ _ CV). reflexivity.
Qed.

Lemma st2_close f level p w c r o v :
  s_opt p = Some r -> get_opt c r = Some o -> oflag o CFGF_LIST = true -> oflag o CFGF_RESET = false ->
  st2 strtod_o f level p w c (TPunct 125) v = PI f w c level (st_state p 0).
Proof.
  intros Hp Ho HL HR. unfold st2, curopt_of. rewrite Hp, Ho, HL, HR.
  change (tok_is (TPunct 125) 125) with true. cbn [andb]. rewrite andb_false_r. reflexivity.
Qed.

(* `name = {}`: the values are released, the annotation is kept (RESET is set), the pending comment STAYS pending *)
Lemma st2_close_empty f level p w c r o v :
  s_opt p = Some r -> get_opt c r = Some o -> oflag o CFGF_LIST = true -> oflag o CFGF_RESET = true -> s_num p = 0 ->
  st2 strtod_o f level p w c (TPunct 125) v =
    PI f (log_frees w (snd (free_value o))) (put_opt c r (fst (free_value o))) level (st_state p 0).
Proof.
  intros Hp Ho HL HR HN. unfold st2, curopt_of. rewrite Hp, Ho, HL, HR, HN.
  change (tok_is (TPunct 125) 125) with true. cbn [andb Nat.eqb]. destruct (free_value o); reflexivity.
Qed.
End WithOracles.

(* the tokens of a list body seen from state 4 (after a value) or 2 (after '{' or ','), up to the closing brace,
   with comments anywhere, and the value texts in it *)
Inductive lbody : nat -> list ltok -> list str -> Prop :=
| LB_close4 k t : Forall iscm k -> ispunct t 125 -> lbody 4 (k ++ [t]) []
| LB_comma k t body vs : Forall iscm k -> ispunct t 44 -> lbody 2 body vs -> lbody 4 (k ++ t :: body) vs
| LB_close2 k t : Forall iscm k -> ispunct t 125 -> lbody 2 (k ++ [t]) []
| LB_val k t v body vs : Forall iscm k -> isstr t v -> lbody 4 body vs -> lbody 2 (k ++ t :: body) (v :: vs).

Lemma not_cm_punct t x : ispunct t x -> ~ iscm t.
Proof. unfold ispunct, iscm. intros -> H. discriminate. Qed.
Lemma not_cm_str t v : isstr t v -> ~ iscm t.
Proof. unfold isstr, iscm. intros [-> _] H. discriminate. Qed.

Lemma conf_pos e f w L ts : conf e f w L ts -> exists f', f = S f'.
Proof. intros (_ & _ & H). destruct f; [lia|eauto]. Qed.

Lemma conf_wkeep e f w w' L ts : conf e f w L ts -> wkeep w w' -> conf e f w' L ts.
Proof. intros (A & B & C) H. split; [apply H, A|auto]. Qed.

Lemma ceq_get_put c c' r o o' : ceq c' c -> get_opt c r = Some o -> get_opt (put_opt c' r o') r = Some o'.
Proof. intros C H. eapply get_put. rewrite (ceq_get _ _ r C). exact H. Qed.

Section WithOracles2.
Variable strtod_o : str -> strtod_res.
Notation PI := (parse_internal strtod_o).

(* what a finished assignment to the option at r looks like from outside *)
Definition done (e : ctx) (level : nat) (r : optref) (pc : option str) (fuel : nat) (w : pw) (c : cfg) (p : pst) (o : opt)
  (vals : list value) (ts : list ltok) : Prop :=
  exists f w' c' L' p' o', PI fuel w c level p = PI f w' c' level p' /\ conf e f w' L' ts /\ f <= fuel /\
    ceq c' (put_opt c r o') /\ get_opt c' r = Some o' /\ assigned pc o o' vals /\ pz0 p p' /\ s_opt p' = Some r.

(* the rest of a list body once the pending comment has been used *)
Lemma list_tail e r level : forall st body vs, lbody st body vs -> forall xs ts L w c p fuel o,
  conf e fuel w L (body ++ ts) -> s_state p = st -> s_opt p = Some r -> s_comment p = None ->
  get_opt c r = Some o -> lopt o -> oflag o CFGF_LIST = true -> oflag o CFGF_RESET = false ->
  Forall2 (fun v x => conv_value strtod_o (o_kind o) v = Some x) vs xs ->
  done e level r None fuel w c p o (o_vals o ++ xs) ts.
Proof.
  induction 1 as [k t Hk Ht|k t body vs Hk Ht Hb IH|k t Hk Ht|k t v body vs Hk Ht Hb IH];
    intros xs ts L w c p fuel o Hc Hs Hp Hcm Ho HLo HL HR HF.
  - rewrite <- app_assoc in Hc. cbn [app] in Hc.
    destruct (fetch strtod_o e k t ts L w c level p fuel Hc Hk (not_cm_punct _ _ Ht) ltac:(lia)) as (f & w1 & c1 & L1 & E & C & Hc1 & Hlt).
    unfold st_dispatch in E. rewrite Hs, Ht in E.
    rewrite (st4_close strtod_o f level p w1 c1 r o _ Hp ltac:(rewrite (ceq_get _ _ r C); exact Ho) ltac:(apply HLo)) in E.
    inversion HF; subst. rewrite app_nil_r.
    exists f, w1, c1, L1, (st_state p 0), o. split; [exact E|]. split; [exact Hc1|]. split; [lia|].
    split; [rewrite (put_same _ _ _ Ho); exact C|]. split; [rewrite (ceq_get _ _ r C); exact Ho|].
    split; [apply assigned_refl, HR|]. split; [unfold pz0; cbn; auto|exact Hp].
  - rewrite <- app_assoc in Hc. cbn [app] in Hc.
    destruct (fetch strtod_o e k t _ L w c level p fuel Hc Hk (not_cm_punct _ _ Ht) ltac:(lia)) as (f & w1 & c1 & L1 & E & C & Hc1 & Hlt).
    unfold st_dispatch in E. rewrite Hs, Ht, st4_comma in E.
    destruct (IH xs ts L1 w1 c1 (st_state p 2) f o Hc1 eq_refl Hp Hcm ltac:(rewrite (ceq_get _ _ r C); exact Ho) HLo HL HR HF)
      as (f2 & w2 & c2 & L2 & p2 & o2 & E2 & Hc2 & Hle & C2 & G2 & AS & PZ & PO).
    exists f2, w2, c2, L2, p2, o2. split; [congruence|]. split; [exact Hc2|]. split; [lia|].
    split; [eapply ceq_trans; [exact C2|apply ceq_put, C]|]. split; [exact G2|]. split; [exact AS|]. split; [|exact PO].
    eapply pzs_pz0; [|exact PZ]. unfold pzs. cbn. auto.
  - rewrite <- app_assoc in Hc. cbn [app] in Hc.
    destruct (fetch strtod_o e k t ts L w c level p fuel Hc Hk (not_cm_punct _ _ Ht) ltac:(lia)) as (f & w1 & c1 & L1 & E & C & Hc1 & Hlt).
    unfold st_dispatch in E. rewrite Hs, Ht in E.
    rewrite (st2_close strtod_o f level p w1 c1 r o _ Hp ltac:(rewrite (ceq_get _ _ r C); exact Ho) HL HR) in E.
    inversion HF; subst. rewrite app_nil_r.
    exists f, w1, c1, L1, (st_state p 0), o. split; [exact E|]. split; [exact Hc1|]. split; [lia|].
    split; [rewrite (put_same _ _ _ Ho); exact C|]. split; [rewrite (ceq_get _ _ r C); exact Ho|].
    split; [apply assigned_refl, HR|]. split; [unfold pz0; cbn; auto|exact Hp].
  - rewrite <- app_assoc in Hc. cbn [app] in Hc.
    destruct (fetch strtod_o e k t _ L w c level p fuel Hc Hk (not_cm_str _ _ Ht) ltac:(lia)) as (f & w1 & c1 & L1 & E & C & Hc1 & Hlt).
    destruct Ht as [Ht1 Ht2]. unfold st_dispatch in E. rewrite Hs, Ht1, Ht2 in E.
    inversion HF as [|v' x vs' xs' CX HF']; subst.
    destruct (conf_pos _ _ _ _ _ Hc1) as (f' & ->).
    assert (Ho1 : get_opt c1 r = Some o) by (rewrite (ceq_get _ _ r C); exact Ho).
    destruct (st2_list strtod_o f' level p w1 c1 r o v x Hp Ho1 HLo HL CX) as (w2 & o1 & p1 & E1 & WK & AS1 & PZ1).
    rewrite Hcm, HR in AS1.
    assert (HF1 : Forall2 (fun v x => conv_value strtod_o (o_kind o1) v = Some x) vs xs')
      by (rewrite (assigned_kind _ _ _ _ AS1); exact HF').
    destruct PZ1 as (Q1 & Q2 & Q3 & Q4 & Q5).
    destruct (IH xs' ts L1 w2 (put_opt c1 r o1) p1 (S f') o1 (conf_wkeep _ _ _ _ _ _ Hc1 WK) Q1 ltac:(congruence) Q2
                ltac:(eapply get_put; exact Ho1) (assigned_lopt _ _ _ _ AS1 HLo) ltac:(rewrite (assigned_list _ _ _ _ AS1); exact HL)
                ltac:(apply AS1) HF1)
      as (f2 & w3 & c2 & L2 & p2 & o2 & E2 & Hc2 & Hle & C2 & G2 & AS2 & PZ2 & PO).
    exists f2, w3, c2, L2, p2, o2. split; [congruence|]. split; [exact Hc2|]. split; [lia|].
    split. { eapply ceq_trans; [exact C2|]. rewrite put_put. apply ceq_put, C. }
    split; [exact G2|]. split.
    + eapply assigned_trans; [exact AS1|]. destruct AS1 as (_ & V1 & _). rewrite V1, <- app_assoc in AS2. exact AS2.
    + split; [|exact PO]. eapply pzs_pz0; [|exact PZ2]. unfold pzs. auto.
Qed.

(* ---------- from state 1 (the name has been read): the operator ---------- *)
Definition opk (ap : bool) : N := if ap then 43%N else 61%N.

Lemma from1 e r level k1 t rest L w c p fuel o ap :
  conf e fuel w L (k1 ++ t :: rest) -> Forall iscm k1 -> ispunct t (opk ap) ->
  s_state p = 1 -> s_opt p = Some r -> get_opt c r = Some o -> (ap = true -> oflag o CFGF_LIST = true) ->
  exists f w1 c1 L1 o1,
    PI fuel w c level p = PI f w1 c1 level (if oflag o CFGF_LIST then st_num (st_state p 3) 0 else st_state p 2) /\
    conf e f w1 L1 rest /\ f < fuel /\ ceq c1 (put_opt c r o1) /\ get_opt c1 r = Some o1 /\
    shape o1 = shape o /\ o_comment o1 = o_comment o /\ oflag o1 CFGF_COMMENTS = oflag o CFGF_COMMENTS /\
    oflag o1 CFGF_RESET = negb ap /\ o_vals o1 = o_vals o.
Proof.
  intros Hc Hk Ht Hs Hp Ho Happ.
  destruct (fetch strtod_o e k1 t rest L w c level p fuel Hc Hk (not_cm_punct _ _ Ht) ltac:(lia)) as (f & w1 & c1 & L1 & E & C & Hc1 & Hlt).
  assert (Ho1 : get_opt c1 r = Some o) by (rewrite (ceq_get _ _ r C); exact Ho).
  unfold st_dispatch in E. rewrite Hs, Ht in E. destruct ap; cbn [opk negb] in *.
  - rewrite (st1_plus strtod_o f level p w1 c1 r o _ Hp Ho1 (Happ eq_refl)) in E. rewrite (Happ eq_refl).
    pose proof (after_plus_props o) as (A1 & A2 & A3 & A4 & A5).
    exists f, w1, (put_opt c1 r (after_plus o)), L1, (after_plus o). split; [exact E|]. split; [exact Hc1|]. split; [exact Hlt|].
    split; [apply ceq_put, C|]. split; [eapply get_put; exact Ho1|]. auto.
  - rewrite (st1_eq strtod_o f level p w1 c1 r o _ Hp Ho1) in E.
    pose proof (after_eq_props o) as (A1 & A2 & A3 & A4 & A5).
    exists f, w1, (put_opt c1 r (after_eq o)), L1, (after_eq o).
    split. { rewrite E. destruct (oflag o CFGF_LIST); reflexivity. }
    split; [exact Hc1|]. split; [exact Hlt|].
    split; [apply ceq_put, C|]. split; [eapply get_put; exact Ho1|]. auto.
Qed.

Lemma done_intro e level r pc fuel w c p o vals ts f w' c' L' p' o' o1 c1 :
  PI fuel w c level p = PI f w' c' level p' -> conf e f w' L' ts -> f <= fuel ->
  ceq c1 (put_opt c r o1) -> ceq c' (put_opt c1 r o') ->
  get_opt c r = Some o -> assigned pc o o' vals -> pz0 p p' -> s_opt p' = Some r ->
  done e level r pc fuel w c p o vals ts.
Proof.
  intros E Hc Hle C1 C' Ho AS PZ PO. exists f, w', c', L', p', o'. split; [exact E|]. split; [exact Hc|]. split; [exact Hle|].
  assert (CC : ceq c' (put_opt c r o')).
  { eapply ceq_trans; [exact C'|]. eapply ceq_trans; [apply ceq_put, C1|]. rewrite put_put. apply ceq_refl. }
  split; [exact CC|]. split; [|auto]. rewrite (ceq_get _ _ r CC). eapply get_put; exact Ho.
Qed.

(* scalar option:  = v  *)
Lemma item1_scalar e r level k1 teq k2 tv ts L w c p fuel o v x :
  conf e fuel w L (k1 ++ teq :: k2 ++ tv :: ts) -> Forall iscm k1 -> ispunct teq 61 -> Forall iscm k2 -> isstr tv v ->
  s_state p = 1 -> s_opt p = Some r -> get_opt c r = Some o -> lopt o -> oflag o CFGF_LIST = false ->
  conv_value strtod_o (o_kind o) v = Some x ->
  done e level r (s_comment p) fuel w c p o [x] ts.
Proof.
  intros Hc Hk1 Hteq Hk2 Htv Hs Hp Ho HLo HL CX.
  destruct (from1 e r level k1 teq _ L w c p fuel o false Hc Hk1 Hteq Hs Hp Ho ltac:(discriminate))
    as (f & w1 & c1 & L1 & o1 & E & Hc1 & Hlt & C1 & Ho1 & S1 & CM1 & F1 & R1 & V1).
  rewrite HL in E. cbn [negb] in R1.
  destruct (fetch strtod_o e k2 tv ts L1 w1 c1 level (st_state p 2) f Hc1 Hk2 (not_cm_str _ _ Htv) ltac:(cbn; lia))
    as (f2 & w2 & c2 & L2 & E2 & C2 & Hc2 & Hlt2).
  destruct Htv as [T1 T2]. unfold st_dispatch in E2. cbn [s_state st_state] in E2. rewrite T1, T2 in E2.
  destruct (conf_pos _ _ _ _ _ Hc2) as (f' & ->).
  assert (Ho2 : get_opt c2 r = Some o1) by (rewrite (ceq_get _ _ r C2); exact Ho1).
  assert (HL1 : oflag o1 CFGF_LIST = false) by (rewrite (shape_oflag _ _ CFGF_LIST S1 eq_refl); exact HL).
  destruct (st2_scalar strtod_o f' level (st_state p 2) w2 c2 r o1 v x Hp Ho2 (lopt_shape _ _ S1 HLo) HL1 R1
              ltac:(rewrite (shape_kind _ _ S1); exact CX)) as (w3 & o2 & E3 & WK & AS).
  cbn [s_comment st_state] in AS.
  eapply (done_intro e level r _ fuel w c p o [x] ts (S f') w3 _ L2 _ o2 o1 c1).
  - rewrite E, E2, E3. reflexivity.
  - eapply conf_wkeep; eauto.
  - lia.
  - exact C1.
  - apply ceq_put, C2.
  - exact Ho.
  - eapply assigned_pre; eauto.
  - unfold pz0. cbn. auto.
  - exact Hp.
Qed.

(* list option without braces:  = v  |  += v *)
Lemma item1_single e r level k1 top k2 tv ts L w c p fuel o v x ap :
  conf e fuel w L (k1 ++ top :: k2 ++ tv :: ts) -> Forall iscm k1 -> ispunct top (opk ap) -> Forall iscm k2 -> isstr tv v ->
  s_state p = 1 -> s_opt p = Some r -> get_opt c r = Some o -> lopt o -> oflag o CFGF_LIST = true ->
  conv_value strtod_o (o_kind o) v = Some x ->
  done e level r (s_comment p) fuel w c p o ((if ap then o_vals o else []) ++ [x]) ts.
Proof.
  intros Hc Hk1 Htop Hk2 Htv Hs Hp Ho HLo HL CX.
  destruct (from1 e r level k1 top _ L w c p fuel o ap Hc Hk1 Htop Hs Hp Ho ltac:(auto))
    as (f & w1 & c1 & L1 & o1 & E & Hc1 & Hlt & C1 & Ho1 & S1 & CM1 & F1 & R1 & V1).
  rewrite HL in E.
  destruct (fetch strtod_o e k2 tv ts L1 w1 c1 level (st_num (st_state p 3) 0) f Hc1 Hk2 (not_cm_str _ _ Htv) ltac:(cbn; lia))
    as (f2 & w2 & c2 & L2 & E2 & C2 & Hc2 & Hlt2).
  destruct Htv as [T1 T2]. unfold st_dispatch in E2. cbn [s_state st_state st_num] in E2. rewrite T1, T2 in E2.
  destruct (conf_pos _ _ _ _ _ Hc2) as (f' & ->).
  assert (Ho2 : get_opt c2 r = Some o1) by (rewrite (ceq_get _ _ r C2); exact Ho1).
  assert (HL1 : oflag o1 CFGF_LIST = true) by (rewrite (shape_oflag _ _ CFGF_LIST S1 eq_refl); exact HL).
  destruct (st3_value strtod_o f' level (st_num (st_state p 3) 0) w2 c2 r o1 v x Hp Ho2 (lopt_shape _ _ S1 HLo) HL1
              ltac:(rewrite (shape_kind _ _ S1); exact CX)) as (w3 & o2 & p3 & E3 & WK & AS & PZ).
  cbn [s_comment st_state st_num] in AS. rewrite R1, V1 in AS.
  eapply (done_intro e level r _ fuel w c p o _ ts (S f') w3 _ L2 p3 o2 o1 c1).
  - rewrite E, E2, E3. reflexivity.
  - eapply conf_wkeep; eauto.
  - lia.
  - exact C1.
  - apply ceq_put, C2.
  - exact Ho.
  - eapply assigned_pre; eauto. destruct ap; exact AS.
  - destruct PZ as (Q1 & Q2 & Q3 & Q4 & Q5). unfold pz0. cbn in *. auto.
  - destruct PZ as (Q1 & Q2 & Q3 & Q4 & Q5). rewrite Q3. exact Hp.
Qed.

(* list option with braces and at least one value:  = { v, ... }  |  += { v, ... } *)
Lemma item1_braced e r level k1 top k2 tlb body ts L w c p fuel o v vs x xs ap :
  conf e fuel w L (k1 ++ top :: k2 ++ tlb :: body ++ ts) -> Forall iscm k1 -> ispunct top (opk ap) ->
  Forall iscm k2 -> ispunct tlb 123 -> lbody 2 body (v :: vs) ->
  s_state p = 1 -> s_opt p = Some r -> get_opt c r = Some o -> lopt o -> oflag o CFGF_LIST = true ->
  Forall2 (fun v x => conv_value strtod_o (o_kind o) v = Some x) (v :: vs) (x :: xs) ->
  done e level r (s_comment p) fuel w c p o ((if ap then o_vals o else []) ++ x :: xs) ts.
Proof.
  intros Hc Hk1 Htop Hk2 Htlb Hb Hs Hp Ho HLo HL HF.
  destruct (from1 e r level k1 top _ L w c p fuel o ap Hc Hk1 Htop Hs Hp Ho ltac:(auto))
    as (f & w1 & c1 & L1 & o1 & E & Hc1 & Hlt & C1 & Ho1 & S1 & CM1 & F1 & R1 & V1).
  rewrite HL in E.
  destruct (fetch strtod_o e k2 tlb _ L1 w1 c1 level (st_num (st_state p 3) 0) f Hc1 Hk2 (not_cm_punct _ _ Htlb) ltac:(cbn; lia))
    as (f2 & w2 & c2 & L2 & E2 & C2 & Hc2 & Hlt2).
  unfold st_dispatch in E2. cbn [s_state st_state st_num] in E2. rewrite Htlb in E2.
  assert (Ho2 : get_opt c2 r = Some o1) by (rewrite (ceq_get _ _ r C2); exact Ho1).
  rewrite (st3_brace strtod_o f2 level (st_num (st_state p 3) 0) w2 c2 r o1 _ Hp Ho2) in E2.
  set (p2 := st_state (st_num (st_state p 3) 0) 2) in *.
  assert (HL1 : oflag o1 CFGF_LIST = true) by (rewrite (shape_oflag _ _ CFGF_LIST S1 eq_refl); exact HL).
  assert (K1 : o_kind o1 = o_kind o) by (apply shape_kind, S1).
  inversion Hb as [| |kk tt Hkk Htt|kk tv v' body' vs' Hkk Htv Hb' EQ1]; subst.
  inversion HF as [|v'' x'' vs'' xs'' CX HF']; subst.
  rewrite <- app_assoc in Hc2. cbn [app] in Hc2.
  destruct (fetch strtod_o e kk tv _ L2 w2 c2 level p2 f2 Hc2 Hkk (not_cm_str _ _ Htv) ltac:(cbn; lia))
    as (f3 & w3 & c3 & L3 & E3 & C3 & Hc3 & Hlt3).
  destruct Htv as [T1 T2]. unfold st_dispatch in E3. cbn [s_state st_state p2] in E3. rewrite T1, T2 in E3.
  destruct (conf_pos _ _ _ _ _ Hc3) as (f' & ->).
  assert (Ho3 : get_opt c3 r = Some o1) by (rewrite (ceq_get _ _ r C3); exact Ho2).
  destruct (st2_list strtod_o f' level p2 w3 c3 r o1 v x Hp Ho3 (lopt_shape _ _ S1 HLo) HL1 ltac:(rewrite K1; exact CX))
    as (w4 & o2 & p4 & E4 & WK & AS & PZ).
  cbn [s_comment st_state st_num p2] in AS. rewrite R1, V1 in AS.
  destruct PZ as (Q1 & Q2 & Q3 & Q4 & Q5).
  assert (K2 : o_kind o2 = o_kind o) by (rewrite (assigned_kind _ _ _ _ AS); exact K1).
  destruct (list_tail e r level 4 body' vs Hb' xs ts L3 w4 (put_opt c3 r o2) p4 (S f') o2 (conf_wkeep _ _ _ _ _ _ Hc3 WK) Q1
              ltac:(rewrite Q3; exact Hp) Q2 ltac:(eapply get_put; exact Ho3) (assigned_lopt _ _ _ _ AS (lopt_shape _ _ S1 HLo))
              ltac:(rewrite (assigned_list _ _ _ _ AS); exact HL1) ltac:(apply AS) ltac:(rewrite K2; exact HF'))
    as (f5 & w5 & c5 & L5 & p5 & o5 & E5 & Hc5 & Hle5 & C5 & G5 & AS5 & PZ5 & PO5).
  eapply (done_intro e level r _ fuel w c p o _ ts f5 w5 c5 L5 p5 o5 o1 c1).
  - rewrite E, E2, E3, E4. exact E5.
  - exact Hc5.
  - lia.
  - exact C1.
  - eapply ceq_trans; [exact C5|]. rewrite put_put. apply ceq_put. eapply ceq_trans; [exact C3|exact C2].
  - exact Ho.
  - eapply assigned_pre; [exact S1|exact CM1|exact F1|].
    eapply assigned_trans; [exact AS|]. destruct AS as (_ & VV & _). rewrite VV in AS5.
    destruct ap; cbn [negb] in *; rewrite <- ?app_assoc in AS5; exact AS5.
  - destruct PZ5 as (B1 & B2 & B4 & B5). unfold pz0. cbn in *. repeat split; congruence.
  - exact PO5.
Qed.

(* ---------- from state 0: comments, then the name of a declared value option ---------- *)
Lemma lopt_kind o : lopt o -> is_sec (o_kind o) = false /\ o_kind o <> KFunc.
Proof. intros (K & _). destruct (o_kind o); try discriminate K; split; try reflexivity; discriminate. Qed.

Lemma to_state1 e level cs tn rest L w c p fuel name r o :
  conf e fuel w L (cs ++ tn :: rest) -> Forall iscm cs -> isstr tn name ->
  s_state p = 0 -> nodep c p -> fst (cfg_getopt c name) = Some r -> get_opt c r = Some o -> lopt o ->
  exists f w1 c1 L1 p1, PI fuel w c level p = PI f w1 c1 level p1 /\ conf e f w1 L1 rest /\ f <= fuel /\ ceq c1 c /\
    s_state p1 = 1 /\ s_opt p1 = Some r /\ s_comment p1 = pend (cflag c CFGF_COMMENTS) cs (s_comment p) /\
    s_title p1 = s_title p /\ s_forced p1 = s_forced p.
Proof.
  intros Hc Hcs [T1 T2] Hs Hd Hg Ho HLo.
  destruct (comments0 strtod_o e cs _ L w c level p fuel Hc Hcs Hs Hd) as (f & w1 & c1 & L1 & E & C & Hc1 & Hle).
  set (p0 := st_comment p (pend (cflag c CFGF_COMMENTS) cs (s_comment p))) in *.
  destruct (fetch0 strtod_o e tn rest L1 w1 c1 level p0 f Hc1 Hs) as (f2 & w2 & c2 & L2 & E2 & C2 & Hc2 & Hlt2).
  rewrite T1, T2 in E2.
  assert (CC : ceq c2 c) by (eapply ceq_trans; eauto).
  destruct (lopt_kind o HLo) as (K1 & K2).
  destruct (st0_known strtod_o f2 level p0 w2 c2 name r o) as (w3 & E3 & WK); auto.
  { apply nodep_st_comment. eapply nodep_ceq; eauto. }
  { rewrite (getopt_ceq _ _ name CC). exact Hg. }
  { rewrite (ceq_get _ _ r CC). exact Ho. }
  exists f2, w3, c2, L2, (st_state (st_opt p0 (Some r)) 1). split; [congruence|]. split; [eapply conf_wkeep; eauto|].
  split; [lia|]. split; [exact CC|]. cbn. auto.
Qed.

Lemma done_pre e level r pc fuel w c p o vals ts f1 w1 c1 p1 :
  PI fuel w c level p = PI f1 w1 c1 level p1 -> f1 <= fuel -> ceq c1 c ->
  s_title p1 = s_title p -> s_forced p1 = s_forced p ->
  done e level r pc f1 w1 c1 p1 o vals ts -> done e level r pc fuel w c p o vals ts.
Proof.
  intros E Hle C T F (f & w' & c' & L' & p' & o' & E' & Hc & Hle' & C' & G & AS & (Z1 & Z2 & Z3 & Z4) & PO).
  exists f, w', c', L', p', o'. split; [congruence|]. split; [exact Hc|]. split; [lia|].
  split; [eapply ceq_trans; [exact C'|apply ceq_put, C]|]. split; [exact G|]. split; [exact AS|]. split; [|exact PO].
  unfold pz0. repeat split; congruence.
Qed.

(* ---------- the items, from state 0 ---------- *)
(*  [comments]  name  =  v   for a scalar option *)
Theorem item_scalar e level cs tn k1 teq k2 tv ts L w c p fuel name r o v x :
  conf e fuel w L (cs ++ tn :: k1 ++ teq :: k2 ++ tv :: ts) ->
  Forall iscm cs -> isstr tn name -> Forall iscm k1 -> ispunct teq 61 -> Forall iscm k2 -> isstr tv v ->
  s_state p = 0 -> nodep c p -> fst (cfg_getopt c name) = Some r -> get_opt c r = Some o -> lopt o ->
  oflag o CFGF_LIST = false -> conv_value strtod_o (o_kind o) v = Some x ->
  done e level r (pend (cflag c CFGF_COMMENTS) cs (s_comment p)) fuel w c p o [x] ts.
Proof.
  intros Hc Hcs Htn Hk1 Hteq Hk2 Htv Hs Hd Hg Ho HLo HL CX.
  destruct (to_state1 e level cs tn _ L w c p fuel name r o Hc Hcs Htn Hs Hd Hg Ho HLo)
    as (f & w1 & c1 & L1 & p1 & E & Hc1 & Hle & C & S1 & O1 & CM & T1 & F1).
  eapply (done_pre e level r _ fuel w c p o _ ts f w1 c1 p1 E Hle C T1 F1). rewrite <- CM.
  eapply item1_scalar; eauto. rewrite (ceq_get _ _ r C). exact Ho.
Qed.

(*  [comments]  name  = | +=  v   for a list option *)
Theorem item_single e level cs tn k1 top k2 tv ts L w c p fuel name r o v x ap :
  conf e fuel w L (cs ++ tn :: k1 ++ top :: k2 ++ tv :: ts) ->
  Forall iscm cs -> isstr tn name -> Forall iscm k1 -> ispunct top (opk ap) -> Forall iscm k2 -> isstr tv v ->
  s_state p = 0 -> nodep c p -> fst (cfg_getopt c name) = Some r -> get_opt c r = Some o -> lopt o ->
  oflag o CFGF_LIST = true -> conv_value strtod_o (o_kind o) v = Some x ->
  done e level r (pend (cflag c CFGF_COMMENTS) cs (s_comment p)) fuel w c p o ((if ap then o_vals o else []) ++ [x]) ts.
Proof.
  intros Hc Hcs Htn Hk1 Htop Hk2 Htv Hs Hd Hg Ho HLo HL CX.
  destruct (to_state1 e level cs tn _ L w c p fuel name r o Hc Hcs Htn Hs Hd Hg Ho HLo)
    as (f & w1 & c1 & L1 & p1 & E & Hc1 & Hle & C & S1 & O1 & CM & T1 & F1).
  eapply (done_pre e level r _ fuel w c p o _ ts f w1 c1 p1 E Hle C T1 F1). rewrite <- CM.
  eapply item1_single; eauto. rewrite (ceq_get _ _ r C). exact Ho.
Qed.

(*  [comments]  name  = | +=  { v , ... }   for a list option, at least one value *)
Theorem item_braced e level cs tn k1 top k2 tlb body ts L w c p fuel name r o v vs x xs ap :
  conf e fuel w L (cs ++ tn :: k1 ++ top :: k2 ++ tlb :: body ++ ts) ->
  Forall iscm cs -> isstr tn name -> Forall iscm k1 -> ispunct top (opk ap) -> Forall iscm k2 -> ispunct tlb 123 ->
  lbody 2 body (v :: vs) ->
  s_state p = 0 -> nodep c p -> fst (cfg_getopt c name) = Some r -> get_opt c r = Some o -> lopt o ->
  oflag o CFGF_LIST = true -> Forall2 (fun v x => conv_value strtod_o (o_kind o) v = Some x) (v :: vs) (x :: xs) ->
  done e level r (pend (cflag c CFGF_COMMENTS) cs (s_comment p)) fuel w c p o ((if ap then o_vals o else []) ++ x :: xs) ts.
Proof.
  intros Hc Hcs Htn Hk1 Htop Hk2 Htlb Hb Hs Hd Hg Ho HLo HL HF.
  destruct (to_state1 e level cs tn _ L w c p fuel name r o Hc Hcs Htn Hs Hd Hg Ho HLo)
    as (f & w1 & c1 & L1 & p1 & E & Hc1 & Hle & C & S1 & O1 & CM & T1 & F1).
  eapply (done_pre e level r _ fuel w c p o _ ts f w1 c1 p1 E Hle C T1 F1). rewrite <- CM.
  eapply item1_braced; eauto. rewrite (ceq_get _ _ r C). exact Ho.
Qed.

(* after an item the machine is ready for the next one *)
Lemma done_next e level r pc fuel w c p o vals ts :
  done e level r pc fuel w c p o vals ts -> oflag o CFGF_DEPRECATED = false ->
  exists f w' c' L' p' o', PI fuel w c level p = PI f w' c' level p' /\ conf e f w' L' ts /\ f <= fuel /\
    ceq c' (put_opt c r o') /\ get_opt c' r = Some o' /\ assigned pc o o' vals /\ pz0 p p' /\ nodep c' p'.
Proof.
  intros (f & w' & c' & L' & p' & o' & E' & Hc & Hle' & C' & G & AS & PZ & PO) HD.
  exists f, w', c', L', p', o'. repeat (split; [assumption|]). unfold nodep. rewrite PO, G.
  rewrite (assigned_dep _ _ _ _ AS). exact HD.
Qed.

(* ... or for the end of the input *)
Lemma done_eof e level r pc fuel w c p o vals :
  done e level r pc fuel w c p o vals [] -> oflag o CFGF_DEPRECATED = false -> (level = 0 \/ s_forced p = true) ->
  exists w' c' o', PI fuel w c level p = (w', c', PEOF) /\ w_oof w' = false /\
    ceq c' (put_opt c r o') /\ get_opt c' r = Some o' /\ assigned pc o o' vals.
Proof.
  intros D HD HL. destruct (done_next _ _ _ _ _ _ _ _ _ _ _ D HD) as (f & w' & c' & L' & p' & o' & E' & Hc & Hle' & C' & G & AS & PZ & ND).
  destruct PZ as (Z1 & Z2 & Z3 & Z4).
  destruct (eof0 strtod_o e L' w' c' f level p' Hc Z1 ltac:(destruct HL; [left; assumption|right; congruence]) ND) as (w2 & c2 & E2 & C2 & OO).
  exists w2, c2, o'. split; [congruence|]. split; [exact OO|]. split; [eapply ceq_trans; eauto|]. split; [|exact AS].
  rewrite (ceq_get _ _ r C2). exact G.
Qed.

(* ---------- an unknown option under CFGF_IGNORE_UNKNOWN drops the pending comment ---------- *)
Theorem unknown_drops e level cs tn k1 top k2 tv ts L w c p fuel name v ap :
  conf e fuel w L (cs ++ tn :: k1 ++ top :: k2 ++ tv :: ts) ->
  Forall iscm cs -> isstr tn name -> Forall iscm k1 -> ispunct top (opk ap) -> Forall iscm k2 -> isstr tv v ->
  s_state p = 0 -> nodep c p -> fst (cfg_getopt c name) = None -> cflag c CFGF_IGNORE_UNKNOWN = true ->
  exists f w' c' L' p', PI fuel w c level p = PI f w' c' level p' /\ conf e f w' L' ts /\ f <= fuel /\
    ceq c' c /\ pz0 p p' /\ s_opt p' = None.
Proof.
  intros Hc Hcs [T1 T2] Hk1 Htop Hk2 Htv Hs Hd Hg HI.
  destruct (comments0 strtod_o e cs _ L w c level p fuel Hc Hcs Hs Hd) as (f & w1 & c1 & L1 & E & C & Hc1 & Hle).
  set (p0 := st_comment p (pend (cflag c CFGF_COMMENTS) cs (s_comment p))) in *.
  destruct (fetch0 strtod_o e tn _ L1 w1 c1 level p0 f Hc1 Hs) as (f2 & w2 & c2 & L2 & E2 & C2 & Hc2 & Hlt2).
  rewrite T1, T2 in E2.
  assert (CC : ceq c2 c) by (eapply ceq_trans; eauto).
  assert (E3 : exists w3, st0 strtod_o f2 level p0 w2 c2 TStr (Some name) = PI f2 w3 c2 level (st_state (st_opt p0 None) 10) /\ wkeep w2 w3).
  { unfold st0. rewrite (nodep_dep_w w2 c2 p0) by (apply nodep_st_comment; eapply nodep_ceq; eauto). cbn [sval].
    pose proof (getopt_ceq _ _ name CC) as GG. rewrite Hg in GG.
    destruct (cfg_getopt c2 name) as [ro ds]. cbn [fst] in GG. subst ro.
    rewrite (ceq_cflag _ _ CFGF_IGNORE_UNKNOWN CC), HI. eexists. split; [reflexivity|apply wkeep_diags]. }
  destruct E3 as (w3 & E3 & WK).
  set (p10 := st_state (st_opt p0 None) 10) in *.
  destruct (fetch strtod_o e k1 top _ L2 w3 c2 level p10 f2 (conf_wkeep _ _ _ _ _ _ Hc2 WK) Hk1 (not_cm_punct _ _ Htop) ltac:(cbn; lia))
    as (f4 & w4 & c4 & L4 & E4 & C4 & Hc4 & Hlt4).
  unfold st_dispatch in E4. cbn [s_state st_state p10] in E4. rewrite Htop in E4. unfold st10 in E4.
  assert (TT : tok_is (TPunct (opk ap)) 43 || tok_is (TPunct (opk ap)) 61 = true) by (destruct ap; reflexivity).
  rewrite TT in E4.
  set (p14 := st_state (st_comment p10 None) 14) in *.
  destruct (fetch strtod_o e k2 tv ts L4 w4 c4 level p14 f4 Hc4 Hk2 (not_cm_str _ _ Htv) ltac:(cbn; lia))
    as (f5 & w5 & c5 & L5 & E5 & C5 & Hc5 & Hlt5).
  destruct Htv as [V1 V2]. unfold st_dispatch in E5. cbn [s_state st_state p14] in E5. rewrite V1, V2 in E5.
  unfold st14 in E5. change (tok_is TStr 123) with false in E5. cbn [tok_is_str negb] in E5. cbv iota in E5.
  exists f5, w5, c5, L5, (st_state p14 0). split; [congruence|]. split; [exact Hc5|]. split; [lia|].
  split. { eapply ceq_trans; [exact C5|]. eapply ceq_trans; [exact C4|exact CC]. }
  unfold pz0. cbn. auto.
Qed.

(* ---------- a free-form (CFGF_KEYSTRVAL) section: the comment annotates the key the assignment creates ---------- *)
Definition kv_opt (name : str) : opt := Opt name KStr 0 [] [] defv0 None cbset0.
Definition kv_ref (c : cfg) : optref := ([], length (c_opts c)).
Definition kv_add (c : cfg) (name : str) : cfg := set_opts c (c_opts c ++ [kv_opt name]).

Lemma kv_get c name : get_opt (kv_add c name) (kv_ref c) = Some (kv_opt name).
Proof.
  unfold get_opt, kv_add, kv_ref. cbn [fst snd get_sec]. rewrite c_opts_set_opts.
  rewrite nth_error_app2 by lia. rewrite Nat.sub_diag. reflexivity.
Qed.

Theorem item_kv e level cs tn k1 teq k2 tv ts L w c p fuel name v :
  conf e fuel w L (cs ++ tn :: k1 ++ teq :: k2 ++ tv :: ts) ->
  Forall iscm cs -> isstr tn name -> Forall iscm k1 -> ispunct teq 61 -> Forall iscm k2 -> isstr tv v ->
  s_state p = 0 -> nodep c p -> fst (cfg_getopt c name) = None ->
  cflag c CFGF_IGNORE_UNKNOWN = false -> cflag c CFGF_KEYSTRVAL = true -> name <> [] ->
  exists f w' c' L' p' o', PI fuel w c level p = PI f w' c' level p' /\ conf e f w' L' ts /\ f <= fuel /\
    ceq c' (put_opt (kv_add c name) (kv_ref c) o') /\ get_opt c' (kv_ref c) = Some o' /\
    assigned (pend (cflag c CFGF_COMMENTS) cs (s_comment p)) (kv_opt name) o' [VStr (Some v)] /\
    pz0 p p' /\ s_opt p' = Some (kv_ref c).
Proof.
  intros Hc Hcs [T1 T2] Hk1 Hteq Hk2 Htv Hs Hd Hg HI HK HN.
  destruct (comments0 strtod_o e cs _ L w c level p fuel Hc Hcs Hs Hd) as (f & w1 & c1 & L1 & E & C & Hc1 & Hle).
  set (pc := pend (cflag c CFGF_COMMENTS) cs (s_comment p)) in *.
  set (p0 := st_comment p pc) in *.
  destruct (fetch0 strtod_o e tn _ L1 w1 c1 level p0 f Hc1 Hs) as (f2 & w2 & c2 & L2 & E2 & C2 & Hc2 & Hlt2).
  rewrite T1, T2 in E2.
  assert (CC : ceq c2 c) by (eapply ceq_trans; eauto).
  assert (E3 : exists w3, st0 strtod_o f2 level p0 w2 c2 TStr (Some name)
                          = PI f2 w3 (kv_add c2 name) level (st_state (st_opt p0 (Some (kv_ref c2))) 1) /\ wkeep w2 w3).
  { unfold st0. rewrite (nodep_dep_w w2 c2 p0) by (apply nodep_st_comment; eapply nodep_ceq; eauto). cbn [sval].
    pose proof (getopt_ceq _ _ name CC) as GG. rewrite Hg in GG.
    destruct (cfg_getopt c2 name) as [ro ds]. cbn [fst] in GG. subst ro.
    rewrite (ceq_cflag _ _ CFGF_IGNORE_UNKNOWN CC), HI, (ceq_cflag _ _ CFGF_KEYSTRVAL CC), HK.
    destruct name as [|b name']; [congruence|]. cbn [negb andb]. unfold addopt.
    eexists. split; [reflexivity|apply wkeep_diags]. }
  destruct E3 as (w3 & E3 & WK).
  assert (RR : kv_ref c2 = kv_ref c) by (unfold kv_ref; rewrite (ceq_c_opts _ _ CC); reflexivity).
  assert (CA : ceq (kv_add c2 name) (kv_add c name)).
  { unfold kv_add. rewrite (ceq_c_opts _ _ CC). apply ceq_set_opts, CC. }
  rewrite RR in E3.
  set (p1 := st_state (st_opt p0 (Some (kv_ref c))) 1) in *.
  assert (D : done e level (kv_ref c) pc f2 w3 (kv_add c2 name) p1 (kv_opt name) [VStr (Some v)] ts).
  { eapply (item1_scalar e (kv_ref c) level k1 teq k2 tv ts L2 w3 (kv_add c2 name) p1 f2 (kv_opt name) v (VStr (Some v)));
      eauto; try reflexivity.
    - eapply conf_wkeep; eauto.
    - rewrite <- RR. apply kv_get.
    - unfold lopt. cbn. auto. }
  destruct D as (f9 & w9 & c9 & L9 & p9 & o9 & E9 & Hc9 & Hle9 & C9 & G9 & AS9 & (Z1 & Z2 & Z3 & Z4) & PO9).
  exists f9, w9, c9, L9, p9, o9. split; [congruence|]. split; [exact Hc9|]. split; [lia|].
  split; [eapply ceq_trans; [exact C9|apply ceq_put, CA]|]. split; [exact G9|]. split; [exact AS9|].
  split; [|exact PO9]. unfold pz0. cbn in *. auto.
Qed.

(* ---------- `name = {}`: nothing is attached and the comment stays pending (it goes to the NEXT assignment) ---------- *)
Theorem item_empty_list e level cs tn k1 teq k2 tlb k3 trb ts L w c p fuel name r o :
  conf e fuel w L (cs ++ tn :: k1 ++ teq :: k2 ++ tlb :: k3 ++ trb :: ts) ->
  Forall iscm cs -> isstr tn name -> Forall iscm k1 -> ispunct teq 61 -> Forall iscm k2 -> ispunct tlb 123 ->
  Forall iscm k3 -> ispunct trb 125 ->
  s_state p = 0 -> nodep c p -> fst (cfg_getopt c name) = Some r -> get_opt c r = Some o -> lopt o ->
  oflag o CFGF_LIST = true ->
  exists f w' c' L' p' o', PI fuel w c level p = PI f w' c' level p' /\ conf e f w' L' ts /\ f <= fuel /\
    ceq c' (put_opt c r o') /\ get_opt c' r = Some o' /\
    o_vals o' = [] /\ o_comment o' = o_comment o /\ shape o' = shape o /\
    s_state p' = 0 /\ s_opt p' = Some r /\ s_comment p' = pend (cflag c CFGF_COMMENTS) cs (s_comment p).
Proof.
  intros Hc Hcs Htn Hk1 Hteq Hk2 Htlb Hk3 Htrb Hs Hd Hg Ho HLo HL.
  destruct (to_state1 e level cs tn _ L w c p fuel name r o Hc Hcs Htn Hs Hd Hg Ho HLo)
    as (f & w1 & c1 & L1 & p1 & E & Hc1 & Hle & C & S1 & O1 & CM & T1 & F1).
  assert (Ho' : get_opt c1 r = Some o) by (rewrite (ceq_get _ _ r C); exact Ho).
  destruct (from1 e r level k1 teq _ L1 w1 c1 p1 f o false Hc1 Hk1 Hteq S1 O1 Ho' ltac:(discriminate))
    as (f2 & w2 & c2 & L2 & o1 & E2 & Hc2 & Hlt2 & C2 & Ho2 & SH & CM1 & FC & R1 & V1).
  rewrite HL in E2. cbn [negb] in R1.
  destruct (fetch strtod_o e k2 tlb _ L2 w2 c2 level (st_num (st_state p1 3) 0) f2 Hc2 Hk2 (not_cm_punct _ _ Htlb) ltac:(cbn; lia))
    as (f3 & w3 & c3 & L3 & E3 & C3 & Hc3 & Hlt3).
  unfold st_dispatch in E3. cbn [s_state st_state st_num] in E3. rewrite Htlb in E3.
  assert (Ho3 : get_opt c3 r = Some o1) by (rewrite (ceq_get _ _ r C3); exact Ho2).
  rewrite (st3_brace strtod_o f3 level (st_num (st_state p1 3) 0) w3 c3 r o1 _ O1 Ho3) in E3.
  set (p2 := st_state (st_num (st_state p1 3) 0) 2) in *.
  destruct (fetch strtod_o e k3 trb ts L3 w3 c3 level p2 f3 Hc3 Hk3 (not_cm_punct _ _ Htrb) ltac:(cbn; lia))
    as (f4 & w4 & c4 & L4 & E4 & C4 & Hc4 & Hlt4).
  unfold st_dispatch in E4. cbn [s_state st_state p2] in E4. rewrite Htrb in E4.
  assert (Ho4 : get_opt c4 r = Some o1) by (rewrite (ceq_get _ _ r C4); exact Ho3).
  assert (HL1 : oflag o1 CFGF_LIST = true) by (rewrite (shape_oflag _ _ CFGF_LIST SH eq_refl); exact HL).
  rewrite (st2_close_empty strtod_o f4 level p2 w4 c4 r o1 _ O1 Ho4 HL1 R1 eq_refl) in E4.
  pose proof (free_value_props o1) as (FV1 & FV2 & FV3).
  pose proof (free_value_comment_reset o1 R1) as FVC.
  exists f4, (log_frees w4 (snd (free_value o1))), (put_opt c4 r (fst (free_value o1))), L4, (st_state p2 0), (fst (free_value o1)).
  split; [congruence|]. split; [eapply conf_wkeep; [exact Hc4|apply wkeep_frees]|]. split; [lia|].
  split.
  { eapply ceq_trans; [apply ceq_put; eapply ceq_trans; [exact C4|eapply ceq_trans; [exact C3|exact C2]]|].
    rewrite put_put. apply ceq_put, C. }
  split; [eapply get_put; exact Ho4|]. split; [exact FV1|]. split; [congruence|]. split; [congruence|].
  cbn. auto.
Qed.

(* ---------- every form of an unknown item (states 10 - 14) ---------- *)
(* tokens up to the first punctuation x *)
Inductive until (x : N) : list ltok -> Prop :=
| U_end t : ispunct t x -> until x [t]
| U_skip t body : ~ ispunct t x -> until x body -> until x (t :: body).

(* tokens up to the brace that closes depth d *)
Inductive braces : nat -> list ltok -> Prop :=
| B_close1 t : ispunct t 125 -> braces 1 [t]
| B_close t d body : ispunct t 125 -> braces (S d) body -> braces (S (S d)) (t :: body)
| B_open t d body : ispunct t 123 -> braces (S (S d)) body -> braces (S d) (t :: body)
| B_other t d body : ~ ispunct t 123 -> ~ ispunct t 125 -> braces (S d) body -> braces (S d) (t :: body).

(* what may follow the name of an unknown option *)
Inductive uitem : list ltok -> Prop :=
| UI_val k1 top k2 tv ap v : Forall iscm k1 -> ispunct top (opk ap) -> Forall iscm k2 -> isstr tv v -> uitem (k1 ++ top :: k2 ++ [tv])
| UI_list k1 top k2 tlb body ap : Forall iscm k1 -> ispunct top (opk ap) -> Forall iscm k2 -> ispunct tlb 123 -> until 125 body ->
    uitem (k1 ++ top :: k2 ++ tlb :: body)
| UI_func k1 tlp body : Forall iscm k1 -> ispunct tlp 40 -> until 41 body -> uitem (k1 ++ tlp :: body)
| UI_sec k1 tlb body : Forall iscm k1 -> ispunct tlb 123 -> braces 1 body -> uitem (k1 ++ tlb :: body)
| UI_tsec k1 tt k2 tlb body title : Forall iscm k1 -> isstr tt title -> Forall iscm k2 -> ispunct tlb 123 -> braces 1 body ->
    uitem (k1 ++ tt :: k2 ++ tlb :: body).

(* a token in a state other than 0: a comment is skipped, anything else is dispatched *)
Lemma step_nz e t ts L w c level p fuel :
  conf e fuel w L (t :: ts) -> s_state p <> 0 ->
  exists f w' c' L', ceq c' c /\ conf e f w' L' ts /\ f < fuel /\
    PI fuel w c level p = (if match lt_tok t with TComment => true | _ => false end then PI f w' c' level p
                           else st_dispatch strtod_o f level p w' c' (lt_tok t) (lt_val t)).
Proof.
  intros Hc Hs. destruct (step1 strtod_o e t ts L w c fuel Hc) as (f & w' & c' & L' & C & Hc' & Hlt & A & B & E).
  exists f, w', c', L'. split; [exact C|]. split; [exact Hc'|]. split; [exact Hlt|]. rewrite E. unfold pi_body.
  apply Nat.eqb_neq in Hs. destruct (lt_tok t); try congruence; try reflexivity. rewrite Hs. reflexivity.
Qed.

Lemma skip13 e x : (x = 41 \/ x = 125)%N -> forall body, until x body -> forall ts L w c level p fuel,
  conf e fuel w L (body ++ ts) -> s_state p = 13 -> s_ignore p = x ->
  exists f w' c' L', PI fuel w c level p = PI f w' c' level (st_state (st_ignore p 0) 0) /\ ceq c' c /\
    conf e f w' L' ts /\ f <= fuel.
Proof.
  intros Hx. induction 1 as [t Ht|t body Ht Hb IH]; intros ts L w c level p fuel Hc Hs Hi.
  - cbn [app] in Hc. destruct (step_nz e t ts L w c level p fuel Hc ltac:(lia)) as (f & w' & c' & L' & C & Hc' & Hlt & E).
    exists f, w', c', L'. split; [|split; [exact C|split; [exact Hc'|lia]]].
    unfold ispunct in Ht. rewrite E, Ht. cbv iota. unfold st_dispatch. rewrite Hs. unfold st13. rewrite Hi. cbn [tok_code]. rewrite N.eqb_refl. reflexivity.
  - cbn [app] in Hc. destruct (step_nz e t _ L w c level p fuel Hc ltac:(lia)) as (f & w' & c' & L' & C & Hc' & Hlt & E).
    destruct (IH ts L' w' c' level p f Hc' Hs Hi) as (f2 & w2 & c2 & L2 & E2 & C2 & Hc2 & Hle2).
    exists f2, w2, c2, L2. split; [|split; [eapply ceq_trans; eauto|split; [exact Hc2|lia]]].
    rewrite E. unfold ispunct in Ht. destruct (lt_tok t) as [| |y| |] eqn:K; try exact E2.
    + unfold st_dispatch. rewrite Hs. unfold st13. rewrite Hi. cbn [tok_code].
      destruct Hx; subst x; exact E2.
    + unfold st_dispatch. rewrite Hs. unfold st13. rewrite Hi. cbn [tok_code].
      destruct (y =? x)%N eqn:Q; [apply N.eqb_eq in Q; congruence|exact E2].
    + destruct Hc as (_ & Hy & _). apply yields_length_inv in Hy. destruct Hy as (A & _). congruence.
    + destruct Hc as (_ & Hy & _). apply yields_length_inv in Hy. destruct Hy as (_ & B & _). congruence.
Qed.

Lemma skip12 e : forall d body, braces d body -> forall ts L w c level p fuel,
  conf e fuel w L (body ++ ts) -> s_state p = 12 -> s_skip p = d ->
  exists f w' c' L', PI fuel w c level p = PI f w' c' level (st_state (st_skip p 0) 0) /\ ceq c' c /\
    conf e f w' L' ts /\ f <= fuel.
Proof.
  induction 1 as [t Ht|t d body Ht Hb IH|t d body Ht Hb IH|t d body Ht1 Ht2 Hb IH]; intros ts L w c level p fuel Hc Hs Hk;
    cbn [app] in Hc; destruct (step_nz e t _ L w c level p fuel Hc ltac:(lia)) as (f & w' & c' & L' & C & Hc' & Hlt & E).
  - exists f, w', c', L'. split; [|split; [exact C|split; [exact Hc'|lia]]].
    unfold ispunct in Ht. rewrite E, Ht. cbv iota. unfold st_dispatch. rewrite Hs. unfold st12. rewrite Hk. reflexivity.
  - destruct (IH ts L' w' c' level (st_skip p (S d)) f Hc' Hs eq_refl) as (f2 & w2 & c2 & L2 & E2 & C2 & Hc2 & Hle2).
    exists f2, w2, c2, L2. split; [|split; [eapply ceq_trans; eauto|split; [exact Hc2|lia]]].
    unfold ispunct in Ht. rewrite E, Ht. cbv iota. unfold st_dispatch. rewrite Hs. unfold st12. rewrite Hk. exact E2.
  - destruct (IH ts L' w' c' level (st_skip p (S (S d))) f Hc' Hs eq_refl) as (f2 & w2 & c2 & L2 & E2 & C2 & Hc2 & Hle2).
    exists f2, w2, c2, L2. split; [|split; [eapply ceq_trans; eauto|split; [exact Hc2|lia]]].
    unfold ispunct in Ht. rewrite E, Ht. cbv iota. unfold st_dispatch. rewrite Hs. unfold st12. rewrite Hk. exact E2.
  - destruct (IH ts L' w' c' level p f Hc' Hs Hk) as (f2 & w2 & c2 & L2 & E2 & C2 & Hc2 & Hle2).
    exists f2, w2, c2, L2. split; [|split; [eapply ceq_trans; eauto|split; [exact Hc2|lia]]].
    rewrite E. unfold ispunct in Ht1, Ht2. destruct (lt_tok t) as [| |y| |] eqn:K; try exact E2.
    + unfold st_dispatch. rewrite Hs. unfold st12. cbn [tok_is]. exact E2.
    + unfold st_dispatch. rewrite Hs. unfold st12. cbn [tok_is].
      destruct (y =? 123)%N eqn:Q1; [apply N.eqb_eq in Q1; congruence|].
      destruct (y =? 125)%N eqn:Q2; [apply N.eqb_eq in Q2; congruence|]. exact E2.
    + destruct Hc as (_ & Hy & _). apply yields_length_inv in Hy. destruct Hy as (A & _). congruence.
    + destruct Hc as (_ & Hy & _). apply yields_length_inv in Hy. destruct Hy as (_ & B & _). congruence.
Qed.

(* from state 10 (the unknown name has been read) over the whole item: state 0, NO pending comment *)
Lemma skip10 e level item : uitem item -> forall ts L w c p fuel,
  conf e fuel w L (item ++ ts) -> s_state p = 10 ->
  exists f w' c' L' p', PI fuel w c level p = PI f w' c' level p' /\ ceq c' c /\ conf e f w' L' ts /\ f <= fuel /\
    pz0 p p' /\ s_opt p' = s_opt p.
Proof.
  intros UI ts L w c p fuel Hc Hs.
  destruct UI as [k1 top k2 tv ap v Hk1 Htop Hk2 Htv|k1 top k2 tlb body ap Hk1 Htop Hk2 Htlb Hb|k1 tlp body Hk1 Htlp Hb
                 |k1 tlb body Hk1 Htlb Hb|k1 tt k2 tlb body title Hk1 Htt Hk2 Htlb Hb];
    rewrite <- app_assoc in Hc; cbn [app] in Hc.
  - rewrite <- app_assoc in Hc. cbn [app] in Hc.
    destruct (fetch strtod_o e k1 top _ L w c level p fuel Hc Hk1 (not_cm_punct _ _ Htop) ltac:(lia)) as (f4 & w4 & c4 & L4 & E4 & C4 & Hc4 & Hlt4).
    unfold st_dispatch in E4. rewrite Hs, Htop in E4. unfold st10 in E4.
    assert (TT : tok_is (TPunct (opk ap)) 43 || tok_is (TPunct (opk ap)) 61 = true) by (destruct ap; reflexivity).
    rewrite TT in E4.
    set (p14 := st_state (st_comment p None) 14) in *.
    destruct (fetch strtod_o e k2 tv ts L4 w4 c4 level p14 f4 Hc4 Hk2 (not_cm_str _ _ Htv) ltac:(cbn; lia))
      as (f5 & w5 & c5 & L5 & E5 & C5 & Hc5 & Hlt5).
    destruct Htv as [V1 V2]. unfold st_dispatch in E5. cbn [s_state st_state p14] in E5. rewrite V1, V2 in E5.
    unfold st14 in E5. change (tok_is TStr 123) with false in E5. cbn [tok_is_str negb] in E5. cbv iota in E5.
    exists f5, w5, c5, L5, (st_state p14 0). split; [congruence|]. split; [eapply ceq_trans; eauto|]. split; [exact Hc5|]. split; [lia|].
    unfold pz0. cbn. auto.
  - rewrite <- app_assoc in Hc. cbn [app] in Hc.
    destruct (fetch strtod_o e k1 top _ L w c level p fuel Hc Hk1 (not_cm_punct _ _ Htop) ltac:(lia)) as (f4 & w4 & c4 & L4 & E4 & C4 & Hc4 & Hlt4).
    unfold st_dispatch in E4. rewrite Hs, Htop in E4. unfold st10 in E4.
    assert (TT : tok_is (TPunct (opk ap)) 43 || tok_is (TPunct (opk ap)) 61 = true) by (destruct ap; reflexivity).
    rewrite TT in E4.
    set (p14 := st_state (st_comment p None) 14) in *.
    destruct (fetch strtod_o e k2 tlb _ L4 w4 c4 level p14 f4 Hc4 Hk2 (not_cm_punct _ _ Htlb) ltac:(cbn; lia))
      as (f5 & w5 & c5 & L5 & E5 & C5 & Hc5 & Hlt5).
    unfold st_dispatch in E5. cbn [s_state st_state p14] in E5. rewrite Htlb in E5.
    unfold st14 in E5. change (tok_is (TPunct 123) 123) with true in E5. cbv iota in E5.
    destruct (skip13 e 125%N (or_intror eq_refl) body Hb ts L5 w5 c5 level (st_state (st_ignore p14 125) 13) f5 Hc5 eq_refl eq_refl)
      as (f6 & w6 & c6 & L6 & E6 & C6 & Hc6 & Hle6).
    eexists f6, w6, c6, L6, _. split; [rewrite E4, E5; exact E6|].
    split; [eapply ceq_trans; [exact C6|eapply ceq_trans; eauto]|]. split; [exact Hc6|]. split; [lia|].
    unfold pz0. cbn. auto.
  - destruct (fetch strtod_o e k1 tlp _ L w c level p fuel Hc Hk1 (not_cm_punct _ _ Htlp) ltac:(lia)) as (f4 & w4 & c4 & L4 & E4 & C4 & Hc4 & Hlt4).
    unfold st_dispatch in E4. rewrite Hs, Htlp in E4. unfold st10 in E4.
    change (tok_is (TPunct 40) 43 || tok_is (TPunct 40) 61) with false in E4. change (tok_is (TPunct 40) 40) with true in E4. cbv iota in E4.
    destruct (skip13 e 41%N (or_introl eq_refl) body Hb ts L4 w4 c4 level (st_state (st_ignore (st_comment p None) 41) 13) f4 Hc4 eq_refl eq_refl)
      as (f6 & w6 & c6 & L6 & E6 & C6 & Hc6 & Hle6).
    eexists f6, w6, c6, L6, _. split; [rewrite E4; exact E6|].
    split; [eapply ceq_trans; eauto|]. split; [exact Hc6|]. split; [lia|].
    unfold pz0. cbn. auto.
  - destruct (fetch strtod_o e k1 tlb _ L w c level p fuel Hc Hk1 (not_cm_punct _ _ Htlb) ltac:(lia)) as (f4 & w4 & c4 & L4 & E4 & C4 & Hc4 & Hlt4).
    unfold st_dispatch in E4. rewrite Hs, Htlb in E4. unfold st10 in E4.
    change (tok_is (TPunct 123) 43 || tok_is (TPunct 123) 61) with false in E4. change (tok_is (TPunct 123) 40) with false in E4.
    change (tok_is (TPunct 123) 123) with true in E4. cbv iota in E4.
    destruct (skip12 e 1 body Hb ts L4 w4 c4 level (st_state (st_skip (st_comment p None) 1) 12) f4 Hc4 eq_refl eq_refl)
      as (f6 & w6 & c6 & L6 & E6 & C6 & Hc6 & Hle6).
    eexists f6, w6, c6, L6, _. split; [rewrite E4; exact E6|].
    split; [eapply ceq_trans; eauto|]. split; [exact Hc6|]. split; [lia|].
    unfold pz0. cbn. auto.
  - rewrite <- app_assoc in Hc. cbn [app] in Hc.
    destruct (fetch strtod_o e k1 tt _ L w c level p fuel Hc Hk1 (not_cm_str _ _ Htt) ltac:(lia)) as (f4 & w4 & c4 & L4 & E4 & C4 & Hc4 & Hlt4).
    destruct Htt as [T1 T2]. unfold st_dispatch in E4. rewrite Hs, T1, T2 in E4. unfold st10 in E4.
    change (tok_is TStr 43 || tok_is TStr 61) with false in E4. change (tok_is TStr 40) with false in E4.
    change (tok_is TStr 123) with false in E4. cbn [tok_is_str] in E4. cbv iota in E4.
    set (p11 := st_state (st_comment p None) 11) in *.
    destruct (fetch strtod_o e k2 tlb _ L4 w4 c4 level p11 f4 Hc4 Hk2 (not_cm_punct _ _ Htlb) ltac:(cbn; lia))
      as (f5 & w5 & c5 & L5 & E5 & C5 & Hc5 & Hlt5).
    unfold st_dispatch in E5. cbn [s_state st_state p11] in E5. rewrite Htlb in E5.
    unfold st11 in E5. change (tok_is (TPunct 123) 123) with true in E5. cbn [negb] in E5. cbv iota in E5.
    destruct (skip12 e 1 body Hb ts L5 w5 c5 level (st_state (st_skip p11 1) 12) f5 Hc5 eq_refl eq_refl)
      as (f6 & w6 & c6 & L6 & E6 & C6 & Hc6 & Hle6).
    eexists f6, w6, c6, L6, _. split; [rewrite E4, E5; exact E6|].
    split; [eapply ceq_trans; [exact C6|eapply ceq_trans; eauto]|]. split; [exact Hc6|]. split; [lia|].
    unfold pz0. cbn. auto.
Qed.

(* [comments]  unknown-name  item : skipped under CFGF_IGNORE_UNKNOWN, the pending comment is dropped *)
Theorem unknown_drops_any e level cs tn item ts L w c p fuel name :
  conf e fuel w L (cs ++ tn :: item ++ ts) -> Forall iscm cs -> isstr tn name -> uitem item ->
  s_state p = 0 -> nodep c p -> fst (cfg_getopt c name) = None -> cflag c CFGF_IGNORE_UNKNOWN = true ->
  exists f w' c' L' p', PI fuel w c level p = PI f w' c' level p' /\ conf e f w' L' ts /\ f <= fuel /\
    ceq c' c /\ pz0 p p' /\ s_opt p' = None.
Proof.
  intros Hc Hcs [T1 T2] UI Hs Hd Hg HI.
  destruct (comments0 strtod_o e cs _ L w c level p fuel Hc Hcs Hs Hd) as (f & w1 & c1 & L1 & E & C & Hc1 & Hle).
  set (p0 := st_comment p (pend (cflag c CFGF_COMMENTS) cs (s_comment p))) in *.
  destruct (fetch0 strtod_o e tn _ L1 w1 c1 level p0 f Hc1 Hs) as (f2 & w2 & c2 & L2 & E2 & C2 & Hc2 & Hlt2).
  rewrite T1, T2 in E2.
  assert (CC : ceq c2 c) by (eapply ceq_trans; eauto).
  assert (E3 : exists w3, st0 strtod_o f2 level p0 w2 c2 TStr (Some name) = PI f2 w3 c2 level (st_state (st_opt p0 None) 10) /\ wkeep w2 w3).
  { unfold st0. rewrite (nodep_dep_w w2 c2 p0) by (apply nodep_st_comment; eapply nodep_ceq; eauto). cbn [sval].
    pose proof (getopt_ceq _ _ name CC) as GG. rewrite Hg in GG.
    destruct (cfg_getopt c2 name) as [ro ds]. cbn [fst] in GG. subst ro.
    rewrite (ceq_cflag _ _ CFGF_IGNORE_UNKNOWN CC), HI. eexists. split; [reflexivity|apply wkeep_diags]. }
  destruct E3 as (w3 & E3 & WK).
  destruct (skip10 e level item UI ts L2 w3 c2 (st_state (st_opt p0 None) 10) f2 (conf_wkeep _ _ _ _ _ _ Hc2 WK) eq_refl)
    as (f4 & w4 & c4 & L4 & p4 & E4 & C4 & Hc4 & Hle4 & (Z1 & Z2 & Z3 & Z4) & PO).
  exists f4, w4, c4, L4, p4. split; [congruence|]. split; [exact Hc4|]. split; [lia|].
  split; [eapply ceq_trans; eauto|]. split; [|exact PO]. unfold pz0. cbn in *. auto.
Qed.

(* ... and the declared scalar that follows gets nothing *)
Theorem unknown_any_then_scalar e level cs tu item tn k1 teq k2 tv ts L w c p fuel uname name r o v x :
  conf e fuel w L (cs ++ tu :: item ++ tn :: k1 ++ teq :: k2 ++ tv :: ts) ->
  Forall iscm cs -> isstr tu uname -> uitem item ->
  isstr tn name -> Forall iscm k1 -> ispunct teq 61 -> Forall iscm k2 -> isstr tv v ->
  s_state p = 0 -> nodep c p -> cflag c CFGF_IGNORE_UNKNOWN = true -> fst (cfg_getopt c uname) = None ->
  fst (cfg_getopt c name) = Some r -> get_opt c r = Some o -> lopt o ->
  oflag o CFGF_LIST = false -> conv_value strtod_o (o_kind o) v = Some x ->
  done e level r None fuel w c p o [x] ts.
Proof.
  intros Hc Hcs Htu UI Htn Hk1 Hteq Hk2 Htv Hs Hd HI HU Hg Ho HLo HL CX.
  destruct (unknown_drops_any e level cs tu item _ L w c p fuel uname Hc Hcs Htu UI Hs Hd HU HI)
    as (f & w1 & c1 & L1 & p1 & E & Hc1 & Hle & C & (Z1 & Z2 & Z3 & Z4) & PO).
  eapply (done_pre e level r None fuel w c p o [x] ts f w1 c1 p1 E Hle C Z3 Z4).
  rewrite <- Z2. rewrite <- (pend_nil (cflag c1 CFGF_COMMENTS) (s_comment p1)).
  eapply (item_scalar e level [] tn k1 teq k2 tv ts); eauto.
  - unfold nodep. rewrite PO. exact I.
  - rewrite (getopt_ceq _ _ name C). exact Hg.
  - rewrite (ceq_get _ _ r C). exact Ho.
Qed.

(* ---------- readable instances ---------- *)
(* annotation support on, at least one comment in front: the LAST one is what is pending *)
Lemma pend_last c cs0 tc d : cflag c CFGF_COMMENTS = true -> pend (cflag c CFGF_COMMENTS) (cs0 ++ [tc]) d = Some (sval (lt_val tc)).
Proof. intros ->. apply pend_snoc. Qed.
(* annotation support off: comments change nothing *)
Lemma pend_noflag c cs d : cflag c CFGF_COMMENTS = false -> pend (cflag c CFGF_COMMENTS) cs d = d.
Proof. intros ->. reflexivity. Qed.

(* 1. attach, scalar *)
Theorem attach_scalar e level cs0 tc tn k1 teq k2 tv ts L w c p fuel name r o v x :
  conf e fuel w L ((cs0 ++ [tc]) ++ tn :: k1 ++ teq :: k2 ++ tv :: ts) ->
  Forall iscm cs0 -> iscm tc -> isstr tn name -> Forall iscm k1 -> ispunct teq 61 -> Forall iscm k2 -> isstr tv v ->
  cflag c CFGF_COMMENTS = true ->
  s_state p = 0 -> nodep c p -> fst (cfg_getopt c name) = Some r -> get_opt c r = Some o -> lopt o ->
  oflag o CFGF_LIST = false -> conv_value strtod_o (o_kind o) v = Some x ->
  done e level r (Some (sval (lt_val tc))) fuel w c p o [x] ts.
Proof.
  intros Hc Hcs Htc Htn Hk1 Hteq Hk2 Htv On Hs Hd Hg Ho HLo HL CX.
  rewrite <- (pend_last c cs0 tc (s_comment p) On).
  eapply item_scalar; eauto. apply Forall_app. split; [exact Hcs|constructor; [exact Htc|constructor]].
Qed.

(* 1. attach, list with braces *)
Theorem attach_braced e level cs0 tc tn k1 top k2 tlb body ts L w c p fuel name r o v vs x xs ap :
  conf e fuel w L ((cs0 ++ [tc]) ++ tn :: k1 ++ top :: k2 ++ tlb :: body ++ ts) ->
  Forall iscm cs0 -> iscm tc -> isstr tn name -> Forall iscm k1 -> ispunct top (opk ap) -> Forall iscm k2 -> ispunct tlb 123 ->
  lbody 2 body (v :: vs) -> cflag c CFGF_COMMENTS = true ->
  s_state p = 0 -> nodep c p -> fst (cfg_getopt c name) = Some r -> get_opt c r = Some o -> lopt o ->
  oflag o CFGF_LIST = true -> Forall2 (fun v x => conv_value strtod_o (o_kind o) v = Some x) (v :: vs) (x :: xs) ->
  done e level r (Some (sval (lt_val tc))) fuel w c p o ((if ap then o_vals o else []) ++ x :: xs) ts.
Proof.
  intros Hc Hcs Htc Htn Hk1 Htop Hk2 Htlb Hb On Hs Hd Hg Ho HLo HL HF.
  rewrite <- (pend_last c cs0 tc (s_comment p) On).
  eapply item_braced; eauto. apply Forall_app. split; [exact Hcs|constructor; [exact Htc|constructor]].
Qed.

(* 1. attach, list without braces *)
Theorem attach_single e level cs0 tc tn k1 top k2 tv ts L w c p fuel name r o v x ap :
  conf e fuel w L ((cs0 ++ [tc]) ++ tn :: k1 ++ top :: k2 ++ tv :: ts) ->
  Forall iscm cs0 -> iscm tc -> isstr tn name -> Forall iscm k1 -> ispunct top (opk ap) -> Forall iscm k2 -> isstr tv v ->
  cflag c CFGF_COMMENTS = true ->
  s_state p = 0 -> nodep c p -> fst (cfg_getopt c name) = Some r -> get_opt c r = Some o -> lopt o ->
  oflag o CFGF_LIST = true -> conv_value strtod_o (o_kind o) v = Some x ->
  done e level r (Some (sval (lt_val tc))) fuel w c p o ((if ap then o_vals o else []) ++ [x]) ts.
Proof.
  intros Hc Hcs Htc Htn Hk1 Htop Hk2 Htv On Hs Hd Hg Ho HLo HL CX.
  rewrite <- (pend_last c cs0 tc (s_comment p) On).
  eapply item_single; eauto. apply Forall_app. split; [exact Hcs|constructor; [exact Htc|constructor]].
Qed.

(* 3. annotation support off: whatever comments stand in front, the annotation the option has is kept *)
Theorem off_keeps_scalar e level cs tn k1 teq k2 tv ts L w c p fuel name r o v x :
  conf e fuel w L (cs ++ tn :: k1 ++ teq :: k2 ++ tv :: ts) ->
  Forall iscm cs -> isstr tn name -> Forall iscm k1 -> ispunct teq 61 -> Forall iscm k2 -> isstr tv v ->
  cflag c CFGF_COMMENTS = false -> s_comment p = None ->
  s_state p = 0 -> nodep c p -> fst (cfg_getopt c name) = Some r -> get_opt c r = Some o -> lopt o ->
  oflag o CFGF_LIST = false -> conv_value strtod_o (o_kind o) v = Some x ->
  done e level r None fuel w c p o [x] ts.
Proof.
  intros Hc Hcs Htn Hk1 Hteq Hk2 Htv Off PN Hs Hd Hg Ho HLo HL CX.
  rewrite <- PN. rewrite <- (pend_noflag c cs (s_comment p) Off). eapply item_scalar; eauto.
Qed.

(* 4. a later assignment without a comment keeps the annotation (annotation support on or off) *)
Theorem bare_keeps_scalar e level tn k1 teq k2 tv ts L w c p fuel name r o v x :
  conf e fuel w L (tn :: k1 ++ teq :: k2 ++ tv :: ts) ->
  isstr tn name -> Forall iscm k1 -> ispunct teq 61 -> Forall iscm k2 -> isstr tv v -> s_comment p = None ->
  s_state p = 0 -> nodep c p -> fst (cfg_getopt c name) = Some r -> get_opt c r = Some o -> lopt o ->
  oflag o CFGF_LIST = false -> conv_value strtod_o (o_kind o) v = Some x ->
  done e level r None fuel w c p o [x] ts.
Proof.
  intros Hc Htn Hk1 Hteq Hk2 Htv PN Hs Hd Hg Ho HLo HL CX.
  rewrite <- PN. rewrite <- (pend_nil (cflag c CFGF_COMMENTS) (s_comment p)).
  eapply (item_scalar e level [] tn k1 teq k2 tv ts); eauto.
Qed.

Theorem bare_keeps_braced e level tn k1 top k2 tlb body ts L w c p fuel name r o v vs x xs ap :
  conf e fuel w L (tn :: k1 ++ top :: k2 ++ tlb :: body ++ ts) ->
  isstr tn name -> Forall iscm k1 -> ispunct top (opk ap) -> Forall iscm k2 -> ispunct tlb 123 ->
  lbody 2 body (v :: vs) -> s_comment p = None ->
  s_state p = 0 -> nodep c p -> fst (cfg_getopt c name) = Some r -> get_opt c r = Some o -> lopt o ->
  oflag o CFGF_LIST = true -> Forall2 (fun v x => conv_value strtod_o (o_kind o) v = Some x) (v :: vs) (x :: xs) ->
  done e level r None fuel w c p o ((if ap then o_vals o else []) ++ x :: xs) ts.
Proof.
  intros Hc Htn Hk1 Htop Hk2 Htlb Hb PN Hs Hd Hg Ho HLo HL HF.
  rewrite <- PN. rewrite <- (pend_nil (cflag c CFGF_COMMENTS) (s_comment p)).
  eapply (item_braced e level [] tn k1 top k2 tlb body ts); eauto.
Qed.

Theorem bare_keeps_single e level tn k1 top k2 tv ts L w c p fuel name r o v x ap :
  conf e fuel w L (tn :: k1 ++ top :: k2 ++ tv :: ts) ->
  isstr tn name -> Forall iscm k1 -> ispunct top (opk ap) -> Forall iscm k2 -> isstr tv v -> s_comment p = None ->
  s_state p = 0 -> nodep c p -> fst (cfg_getopt c name) = Some r -> get_opt c r = Some o -> lopt o ->
  oflag o CFGF_LIST = true -> conv_value strtod_o (o_kind o) v = Some x ->
  done e level r None fuel w c p o ((if ap then o_vals o else []) ++ [x]) ts.
Proof.
  intros Hc Htn Hk1 Htop Hk2 Htv PN Hs Hd Hg Ho HLo HL CX.
  rewrite <- PN. rewrite <- (pend_nil (cflag c CFGF_COMMENTS) (s_comment p)).
  eapply (item_single e level [] tn k1 top k2 tv ts); eauto.
Qed.

(* 5. comment, unknown item (skipped under CFGF_IGNORE_UNKNOWN), then a declared scalar: nothing is attached *)
Theorem unknown_then_scalar e level cs tu j1 top j2 tuv tn k1 teq k2 tv ts L w c p fuel uname uv ap name r o v x :
  conf e fuel w L (cs ++ tu :: j1 ++ top :: j2 ++ tuv :: tn :: k1 ++ teq :: k2 ++ tv :: ts) ->
  Forall iscm cs -> isstr tu uname -> Forall iscm j1 -> ispunct top (opk ap) -> Forall iscm j2 -> isstr tuv uv ->
  isstr tn name -> Forall iscm k1 -> ispunct teq 61 -> Forall iscm k2 -> isstr tv v ->
  s_state p = 0 -> nodep c p -> cflag c CFGF_IGNORE_UNKNOWN = true -> fst (cfg_getopt c uname) = None ->
  fst (cfg_getopt c name) = Some r -> get_opt c r = Some o -> lopt o ->
  oflag o CFGF_LIST = false -> conv_value strtod_o (o_kind o) v = Some x ->
  done e level r None fuel w c p o [x] ts.
Proof.
  intros Hc Hcs Htu Hj1 Htop Hj2 Htuv Htn Hk1 Hteq Hk2 Htv Hs Hd HI HU Hg Ho HLo HL CX.
  destruct (unknown_drops e level cs tu j1 top j2 tuv _ L w c p fuel uname uv ap Hc Hcs Htu Hj1 Htop Hj2 Htuv Hs Hd HU HI)
    as (f & w1 & c1 & L1 & p1 & E & Hc1 & Hle & C & (Z1 & Z2 & Z3 & Z4) & PO).
  eapply (done_pre e level r None fuel w c p o [x] ts f w1 c1 p1 E Hle C Z3 Z4).
  rewrite <- Z2. rewrite <- (pend_nil (cflag c1 CFGF_COMMENTS) (s_comment p1)).
  eapply (item_scalar e level [] tn k1 teq k2 tv ts); eauto.
  - unfold nodep. rewrite PO. exact I.
  - rewrite (getopt_ceq _ _ name C). exact Hg.
  - rewrite (ceq_get _ _ r C). exact Ho.
Qed.

(* 8. the whole text  comment name = v  parsed at top level: the tree afterwards *)
Theorem reparse_scalar e tc tn teq tv L w c fuel name r o v x :
  conf e fuel w L [tc; tn; teq; tv] -> iscm tc -> isstr tn name -> ispunct teq 61 -> isstr tv v ->
  cflag c CFGF_COMMENTS = true ->
  fst (cfg_getopt c name) = Some r -> get_opt c r = Some o -> lopt o -> oflag o CFGF_LIST = false ->
  oflag o CFGF_DEPRECATED = false -> conv_value strtod_o (o_kind o) v = Some x ->
  exists w' c' o', PI fuel w c 0 (pst0 0 None) = (w', c', PEOF) /\ w_oof w' = false /\
    ceq c' (put_opt c r o') /\ get_opt c' r = Some o' /\ assigned (Some (sval (lt_val tc))) o o' [x].
Proof.
  intros Hc Htc Htn Hteq Htv On Hg Ho HLo HL HD CX.
  eapply (done_eof e 0 r); [|exact HD|left; reflexivity].
  eapply (attach_scalar e 0 [] tc tn [] teq [] tv [] L w c (pst0 0 None) fuel name r o v x); eauto; try constructor.
Qed.

End WithOracles2.

(* ---------- print ---------- *)
Section PrintAnnot.
Variable fmt_f : N -> str.


Definition annot_line (indent : nat) (cm : str) : str :=
  indent_str indent ++ M "/* " ++ cstr cm ++ M " */" ++ [nl].

(* 7. cfg_opt_print_pff_indent writes the annotation as one line in front of what it prints without it *)
Lemma print_opt_annot o pff indent cm :
  o_comment o = Some cm -> oflag o CFGF_COMMENTS = true ->
  print_opt fmt_f o pff indent = annot_line indent cm ++ print_opt fmt_f (set_comment o None) pff indent.
Proof.
  destruct o as [name k flags vals sub def comment cbs]. cbn [o_comment]. unfold oflag. cbn [o_flags set_comment].
  intros -> HF. unfold annot_line. cbn [print_opt]. rewrite HF. rewrite <- !app_assoc. reflexivity.
Qed.

(* an option without annotation (or without the CFGF_COMMENTS bit) prints no such line *)
Lemma print_opt_plain o pff indent :
  o_comment o = None \/ oflag o CFGF_COMMENTS = false ->
  print_opt fmt_f o pff indent = print_opt fmt_f (set_comment o None) pff indent.
Proof.
  destruct o as [name k flags vals sub def comment cbs]. cbn [o_comment]. unfold oflag. cbn [o_flags set_comment].
  intros [-> | HF]; [reflexivity|]. cbn [print_opt]. rewrite HF. destruct comment; reflexivity.
Qed.

Lemma print_cfg_app n t f a b fi l e pff fb indent :
  print_cfg fmt_f (Cfg n t f (a ++ b) fi l e pff) fb indent =
  print_cfg fmt_f (Cfg n t f a fi l e pff) fb indent ++ print_cfg fmt_f (Cfg n t f b fi l e pff) fb indent.
Proof.
  induction a as [|o a IH]; [reflexivity|].
  cbn [app]. cbn [print_cfg] in *. rewrite IH. rewrite app_assoc. reflexivity.
Qed.

Lemma print_cfg_one n t f o fi l e indent :
  print_cfg fmt_f (Cfg n t f [o] fi l e None) None indent = print_opt fmt_f o None indent.
Proof. cbn [print_cfg]. rewrite app_nil_r. reflexivity. Qed.

(* cfg_print_indent of a context (no print filter) whose option list is pre ++ o :: post *)
Theorem print_cfg_annot n t f pre o post fi l e indent cm :
  o_comment o = Some cm -> oflag o CFGF_COMMENTS = true ->
  cfg_print_indent fmt_f (Cfg n t f (pre ++ o :: post) fi l e None) indent =
    cfg_print_indent fmt_f (Cfg n t f pre fi l e None) indent ++
    annot_line indent cm ++ print_opt fmt_f (set_comment o None) None indent ++
    cfg_print_indent fmt_f (Cfg n t f post fi l e None) indent.
Proof.
  intros HC HF. unfold cfg_print_indent. rewrite print_cfg_app. f_equal.
  change (o :: post) with ([o] ++ post). rewrite print_cfg_app, print_cfg_one, (print_opt_annot o None indent cm HC HF).
  rewrite <- !app_assoc. reflexivity.
Qed.

Theorem cfg_opt_print_annot o cm :
  o_comment o = Some cm -> oflag o CFGF_COMMENTS = true ->
  cfg_opt_print fmt_f o = M "/* " ++ cstr cm ++ M " */" ++ [nl] ++ cfg_opt_print fmt_f (set_comment o None).
Proof.
  intros HC HF. unfold cfg_opt_print. rewrite (print_opt_annot o None 0 cm HC HF). unfold annot_line.
  change (indent_str 0) with (@nil byte). cbn [app]. rewrite <- !app_assoc. reflexivity.
Qed.

(* what the parser leaves (assigned with a pending comment) is what print needs *)
Lemma assigned_prints cm o o' vals pff indent :
  assigned (Some cm) o o' vals ->
  print_opt fmt_f o' pff indent = annot_line indent cm ++ print_opt fmt_f (set_comment o' None) pff indent.
Proof. intros (_ & _ & _ & HC & HF). apply print_opt_annot; assumption. Qed.

End PrintAnnot.

(* ---------- 8 at byte level: cfg_parse_buf on a text that scans to  comment name = v ---------- *)
Section ReparseBuf.
Variable strtod_o : str -> strtod_res.

Theorem reparse_scalar_buf w c b tc tn teq tv lf p0 s' p' d fuel name r o v x :
  wready w ->
  lex_all (w_env w) lf (scan_begin lex_init (cstr b)) p0 [] [] = ([tc; tn; teq; tv], TEof, s', p', d) ->
  iscm tc -> isstr tn name -> ispunct teq 61 -> isstr tv v ->
  length (cstr b) + measure (w_lex w) + 7 < fuel ->
  cflag c CFGF_COMMENTS = true ->
  fst (cfg_getopt c name) = Some r -> get_opt c r = Some o -> lopt o -> oflag o CFGF_LIST = false ->
  oflag o CFGF_DEPRECATED = false -> conv_value strtod_o (o_kind o) v = Some x ->
  let '(w', c', rc) := parse_buf strtod_o fuel w c (Some b) in
  rc = CFG_SUCCESS /\ w_oof w' = false /\
  exists o', ceq c' (put_opt c r o') /\ get_opt c' r = Some o' /\ assigned (Some (sval (lt_val tc))) o o' [x].
Proof.
  intros (WO & WI & WQ) HL Htc Htn Hteq Htv Hf On Hg Ho HLo HLi HD CX.
  unfold parse_buf, parse_fp, parse_fp_gen. rewrite WI. cbn [length].
  set (c2 := set_line match c_file (set_file c (Some (M "[buf]"))) with
                      | Some _ => set_file c (Some (M "[buf]")) | None => set_file (set_file c (Some (M "[buf]"))) (Some (M "FILE")) end 1).
  assert (C2 : ceq c2 c).
  { unfold c2. eapply ceq_trans; [apply ceq_set_line|]. destruct (c_file (set_file c (Some (M "[buf]")))).
    - apply ceq_set_file.
    - eapply ceq_trans; apply ceq_set_file. }
  set (L := scan_begin (w_lex w) (cstr b)).
  set (e := (w_env w, l_bufs (w_lex w)) : ctx).
  assert (W1 : wst (upd_lex w L) e L).
  { unfold wst, e, L. cbn [w_env w_lex w_oof upd_lex fst snd scan_begin l_bufs tl]. spl; auto. apply tbs_scan_begin; auto. }
  assert (Y : yieldsc e L [tc; tn; teq; tv]) by (unfold yieldsc, e, L; cbn [fst]; eapply yields_of_fresh; eauto).
  assert (CF : conf e fuel (upd_lex w L) L [tc; tn; teq; tv]).
  { split; [exact W1|]. split; [exact Y|]. unfold L. rewrite measure_scan_begin. cbn [length]. lia. }
  destruct (reparse_scalar strtod_o e tc tn teq tv L (upd_lex w L) c2 fuel name r o v x CF Htc Htn Hteq Htv)
    as (w2 & c3 & o' & E & OO & C3 & G3 & AS); auto.
  - rewrite (ceq_cflag _ _ CFGF_COMMENTS C2). exact On.
  - rewrite (getopt_ceq _ _ name C2). exact Hg.
  - rewrite (ceq_get _ _ r C2). exact Ho.
  - rewrite E. split; [reflexivity|]. split.
    + cbn [w_oof upd_lex]. rewrite include_unwind_oof. exact OO.
    + exists o'. split; [eapply ceq_trans; [exact C3|apply ceq_put, C2]|]. split; [exact G3|exact AS].
Qed.
End ReparseBuf.

(* ---------- 8 closed on the comment: print an annotated option, parse what was printed ---------- *)
Section PrintParse.
Variable strtod_o : str -> strtod_res.
Variable fmt_f : N -> str.

Lemma annot_text_eq cm rest :
  AnnotLexProofs.annot_text cm ++ rest = M "/* " ++ cm ++ M " */" ++ rest.
Proof.
  unfold AnnotLexProofs.annot_text, AnnotLexProofs.annot_body. cbn [app].
  rewrite <- !app_assoc. reflexivity.
Qed.

(* the text is  "/* cm */"  followed by b', and b' (scanned after it) is  name = v *)
Theorem reparse_annot_text w c b b' cm tn teq tv F p0 s' p' d fuel name r o v x :
  wready w ->
  AnnotLexProofs.clean cm -> no_nul cm -> LexComments.nss (AnnotLexProofs.annot_body cm) = true ->
  cstr b = M "/* " ++ cm ++ M " */" ++ b' ->
  lex_all (w_env w) (S F) (scan_begin lex_init b') (add_lines p0 (count_nl (AnnotLexProofs.annot_body cm))) [] []
    = ([tn; teq; tv], TEof, s', p', d) ->
  isstr tn name -> ispunct teq 61 -> isstr tv v ->
  length (cstr b) + measure (w_lex w) + 7 < fuel ->
  cflag c CFGF_COMMENTS = true ->
  fst (cfg_getopt c name) = Some r -> get_opt c r = Some o -> lopt o -> oflag o CFGF_LIST = false ->
  oflag o CFGF_DEPRECATED = false -> conv_value strtod_o (o_kind o) v = Some x ->
  let '(w', c', rc) := parse_buf strtod_o fuel w c (Some b) in
  rc = CFG_SUCCESS /\ w_oof w' = false /\
  exists o', ceq c' (put_opt c r o') /\ get_opt c' r = Some o' /\ assigned (Some cm) o o' [x].
Proof.
  intros WR HC HZ HN EB HL Htn Hteq Htv Hf On Hg Ho HLo HLi HD CX.
  destruct (AnnotLexProofs.annot_comment_tokens (w_env w) cm b' p0 F [tn; teq; tv] TEof s' p' d HC HZ HN HL) as (s2 & HL2).
  rewrite annot_text_eq, <- EB in HL2.
  exact (reparse_scalar_buf strtod_o w c b _ tn teq tv _ p0 s2 p' d fuel name r o v x WR HL2 eq_refl Htn Hteq Htv Hf On Hg Ho HLo HLi HD CX).
Qed.

(* cfg_opt_print of an option annotated cm, parsed into a context with annotation support: the annotation is cm again.
   The hypothesis on lex_all is about the UNANNOTATED printed line (C05: the printed name, '=' and value read back) *)
Theorem print_parse_annot w c oa cm tn teq tv F p0 s' p' d fuel name r o v x :
  wready w ->
  o_comment oa = Some cm -> oflag oa CFGF_COMMENTS = true ->
  AnnotLexProofs.clean cm -> no_nul cm -> LexComments.nss (AnnotLexProofs.annot_body cm) = true ->
  no_nul (cfg_opt_print fmt_f (set_comment oa None)) ->
  lex_all (w_env w) (S F) (scan_begin lex_init (Print.nl :: cfg_opt_print fmt_f (set_comment oa None)))
          (add_lines p0 (count_nl (AnnotLexProofs.annot_body cm))) [] [] = ([tn; teq; tv], TEof, s', p', d) ->
  isstr tn name -> ispunct teq 61 -> isstr tv v ->
  length (cfg_opt_print fmt_f oa) + measure (w_lex w) + 7 < fuel ->
  cflag c CFGF_COMMENTS = true ->
  fst (cfg_getopt c name) = Some r -> get_opt c r = Some o -> lopt o -> oflag o CFGF_LIST = false ->
  oflag o CFGF_DEPRECATED = false -> conv_value strtod_o (o_kind o) v = Some x ->
  let '(w', c', rc) := parse_buf strtod_o fuel w c (Some (cfg_opt_print fmt_f oa)) in
  rc = CFG_SUCCESS /\ w_oof w' = false /\
  exists o', ceq c' (put_opt c r o') /\ get_opt c' r = Some o' /\ assigned (Some cm) o o' [x].
Proof.
  intros WR OC OF HC HZ HN PZ HL Htn Hteq Htv Hf On Hg Ho HLo HLi HD CX.
  pose proof (cfg_opt_print_annot fmt_f oa cm OC OF) as PE. rewrite (cstr_no_nul cm HZ) in PE.
  assert (NZ : no_nul (cfg_opt_print fmt_f oa)).
  { rewrite PE. unfold no_nul. repeat (apply Forall_app; split); try exact HZ; try exact PZ; repeat constructor; discriminate. }
  eapply (reparse_annot_text w c (cfg_opt_print fmt_f oa) (Print.nl :: cfg_opt_print fmt_f (set_comment oa None)) cm tn teq tv F p0 s' p' d fuel name r o v x);
    eauto.
  - rewrite (cstr_no_nul _ NZ). exact PE.
  - rewrite (cstr_no_nul _ NZ). exact Hf.
Qed.
End PrintParse.
