(* Extract.v — extraction of the executable model to OCaml (ExtrOcamlBasic only). *)
From Coq Require Import Extraction ExtrOcamlBasic.
From Coq Require Import List NArith ZArith.
From Coq.Strings Require Import Byte.
From LC Require Import Bytes Consts Conv Flex LexAct LexRules Lexer Files Store Parser Api Getters Print Grammar.
Extraction Language OCaml.
Set Extraction AccessOpaque.
Extraction "model.ml"
  Byte.to_N Byte.of_N N.add N.mul N.of_nat N.to_nat Z.of_N Z.opp Z.add Z.mul Z.of_nat
  Bytes.cstr Bytes.bs_of_string
  Conv.print_Z Conv.print_N Conv.conv_int Conv.conv_bool Conv.strtol
  Lexer.lex_all Lexer.lex_init Lexer.scan_begin Lexer.scan_end Lexer.yylex Lexer.lex_fuel Lexer.clear_echo
  Files.tilde_expand Files.cfg_searchpath Files.fs_set Files.fs_lookup Files.resolve_spec
  Store.cfg_getopt Store.getopt_secidx Store.get_opt Store.get_sec
  Parser.cfg_init Parser.parse_buf Parser.parse_file Parser.parse_fp Parser.parse_fp_unreadable Parser.parse_fp_partial Parser.cfg_free Parser.set_path
  Api.cfg_setnint Api.cfg_setnfloat Api.cfg_setnbool Api.cfg_setnstr Api.cfg_setlist Api.cfg_addlist
  Api.cfg_setmulti Api.cfg_setopt_cmd Api.cfg_setcomment Api.cfg_addtsec Api.cfg_rmnsec Api.cfg_rmsec Api.cfg_rmtsec
  Api.cfg_set_validate_func Api.cfg_set_validate_func2 Api.cfg_set_print_func Api.cfg_getsec Getters.cfg_getn Getters.cfg_gettsec
  Print.cfg_print_indent Print.cfg_opt_print
  Grammar.text_meaning.
