(* PathProofs.v — C11: the path resolver cfg_getopt_secidx (Store.secidx_loop) against the
   declarative path SPEC (PathSpec.v): grammar split_path + stepwise navigation walk.

   Contents
     1. the loop body of secidx_loop, named (mtuple / msec / finish_r) and an unfolding equation
     2. strcspn / strspn / firstn / skipn facts; parse_title / parse_quoted vs unquote
     3. the side condition on the tree (counts_ok); one step of the model vs one step of walk
     4. the SPEC rewritten as recursions that follow the loop (nav / specF, sspecF)
     5. the loop invariants (loop_false, loop_true), fuel monotonicity (loop_fuel)
     6. top-level theorems; a checker for the side condition

   HISTORY  An earlier model (and the C it transcribed) deviated from the SPEC in two ways, both since
     repaired in the C and in Store.v: an empty step ("m|=x") silently ended a cfg_getsec path, and
     cfg_getopt could reach options whose name is empty or starts with '|' or '='.  With the repaired
     loop both variants agree with the strict grammar on every tree and path.
   SIDE CONDITION  nvalues is an unsigned int in C; the model casts the index with to_uint, so
     agreement needs every reachable option to hold at most 4294967295 values (counts_ok). *)
From Coq Require String.
From Coq Require Import List Arith NArith ZArith Bool Lia.
From Coq.Strings Require Import Byte.
From LC Require Import Bytes Consts Conv Lexer Files Store Parser Api PathSpec.
Import ListNotations.

Local Opaque strtol.

Section LoopBody.
Import String.StringSyntax.
Local Open Scope string_scope.
Local Open Scope list_scope.

(* ---------- the loop body, named ---------- *)
Definition finish_r (root sec : cfg) (steps : list (nat * nat)) (want_index : bool)
           (last : option optref) (index : Z) (name : str) : resolved :=
    if want_index then {| rs_opt := last; rs_index := index; rs_diags := [] |}
    else match name with [] => {| rs_opt := None; rs_index := index; rs_diags := if cflag root CFGF_IGNORE_UNKNOWN then [] else cfg_diag root "no such option '%s'" |} | _ =>
         match getopt_leaf sec name with
         | Some i => {| rs_opt := Some (rev steps, i); rs_index := index; rs_diags := [] |}
         | None => {| rs_opt := None; rs_index := index;
                      rs_diags := if negb (cflag root CFGF_IGNORE_UNKNOWN) &&
                                     negb (match steps with [] => cflag sec CFGF_KEYSTRVAL | _ => false end)
                                  then cfg_diag root "no such option '%s'" else [] |}
         end end.

Definition mtuple (sec : cfg) (name : str) (len : nat) (after secname : str)
  : option nat * Z * option str * str * nat :=
          match getopt_leaf sec secname with
          | None => (None, (-1)%Z, None, name, len)
          | Some k =>
            match nth_error (c_opts sec) k with
            | None => (None, (-1)%Z, None, name, len)
            | Some o =>
              if negb (kind_eqb (o_kind o) KSec) then (None, (-1)%Z, None, name, len)
              else match after with
                   | c :: after' =>
                       if negb (Byte.eqb c x3d) then (Some k, 0%Z, None, name, len)
                       else if negb (oflag o CFGF_MULTI) then (Some k, (-1)%Z, None, name, len)
                       else
                         match parse_title after' with
                         | None => (Some k, (-1)%Z, None, after', len)
                         | Some (t, l) =>
                             if oflag o CFGF_TITLE then
                               (Some k, match gettsecidx o t with Some j => Z.of_nat j | None => (-1)%Z end, Some t, after', l)
                             else
                               let r := strtol t 0 in
                               (Some k, match sl_rest r with
                                        | [] => if (sl_val r <=? 4294967295)%Z then sl_val r else (-1)%Z
                                        | _ => (-1)%Z end, Some t, after', l)
                         end
                   | [] => (Some k, 0%Z, None, name, len)
                   end
            end
          end.

Definition msec (sec : cfg) (oi : option nat) (i : Z) : option (nat * nat * cfg) :=
  match oi with
  | Some k => if (0 <=? i)%Z then
                match nth_error (c_opts sec) k with
                | Some o => match opt_getnsec o (to_uint i) with
                            | Some s => Some (k, N.to_nat (to_uint i), s) | None => None end
                | None => None end
              else None
  | None => None
  end.

Definition mdiag (root sec : cfg) (oi : option nat) (title : option str) : list diag :=
   if cflag root CFGF_IGNORE_UNKNOWN then [] else
                     match oi with
                     | Some k => match nth_error (c_opts sec) k with
                                 | Some o => if negb (oflag o CFGF_MULTI) then cfg_diag root "no such option '%s'"
                                             else match title with
                                                  | Some _ => cfg_diag root "no sub-section '%s' in '%s'"
                                                  | None => cfg_diag root "no sub-section title/index for '%s'" end
                                 | None => [] end
                     | None => match title with
                               | Some _ => cfg_diag root "no sub-section '%s' in '%s'"
                               | None => cfg_diag root "no sub-section title/index for '%s'" end
                     end.

Lemma secidx_loop_eq : forall fuel' root sec steps name wi last index,
  secidx_loop (S fuel') root sec steps name wi last index =
  match name with
  | [] => finish_r root sec steps wi last index name
  | _ =>
    let len := strcspn name is_bar_eq in
    let after := skipn len name in
    if negb wi && match after with [] => true | _ => false end then finish_r root sec steps wi last index name
    else if Nat.eqb len 0 then {| rs_opt := None; rs_index := index; rs_diags := if cflag root CFGF_IGNORE_UNKNOWN then [] else cfg_diag root "no such option '%s'" |}
    else
      let '(oi, i, title, name1, len1) := mtuple sec name len after (firstn len name) in
      let index' := if wi then i else index in
      match msec sec oi i with
      | None => {| rs_opt := None; rs_index := index'; rs_diags := mdiag root sec oi title |}
      | Some (k, v, s) =>
          let name2 := skipn len1 name1 in
          let nbars := strspn name2 is_bar in
          let name3 := skipn nbars name2 in
          let garbage := match name2 with c :: _ => negb (is_bar c) | [] => false end in
          let trailing := match name3 with [] => negb (Nat.eqb nbars 0) | _ => false end in
          if garbage || trailing then {| rs_opt := None; rs_index := index'; rs_diags := if cflag root CFGF_IGNORE_UNKNOWN then [] else cfg_diag root "no such option '%s'" |}
          else secidx_loop fuel' root s ((k, v) :: steps) name3 wi (Some (rev steps, k)) index'
      end
  end.
Proof. intros. reflexivity. Qed.
End LoopBody.

(* ---------- strcspn / strspn / firstn / skipn ---------- *)
Lemma strcspn_le s f : strcspn s f <= length s.
Proof. induction s as [|c s IH]; cbn; [lia|]. destruct (f c); cbn; lia. Qed.

Lemma strspn_le s f : strspn s f <= length s.
Proof. induction s as [|c s IH]; cbn; [lia|]. destruct (f c); cbn; lia. Qed.

Lemma skipn_strcspn_head s f c r : skipn (strcspn s f) s = c :: r -> f c = true.
Proof.
  induction s as [|x s IH]; cbn; [discriminate|].
  destruct (f x) eqn:E; cbn; intros H; [inversion H; subst; exact E|auto].
Qed.

Lemma skipn_strspn_head s f c r : skipn (strspn s f) s = c :: r -> f c = false.
Proof.
  induction s as [|x s IH]; cbn; [discriminate|].
  destruct (f x) eqn:E; cbn; intros H; [auto|inversion H; subst; exact E].
Qed.

Lemma strcspn_cons_0 c r f : strcspn (c :: r) f = 0 -> f c = true.
Proof. cbn. destruct (f c); [reflexivity|discriminate]. Qed.

Lemma strcspn_cons_pos c r f : strcspn (c :: r) f <> 0 -> f c = false.
Proof. cbn. destruct (f c); [intros H; elim H; reflexivity|reflexivity]. Qed.

Lemma skipn_nil_firstn {A} n (l : list A) : skipn n l = [] -> firstn n l = l.
Proof.
  intros H. rewrite <- (firstn_skipn n l) at 2. rewrite H, app_nil_r. reflexivity.
Qed.

Lemma firstn_pos_cons {A} n (c : A) r : n <> 0 -> exists t, firstn n (c :: r) = c :: t.
Proof. destruct n; [intros H; elim H; reflexivity|]. intros _. cbn. eauto. Qed.

Lemma skipn_len_sub {A} n (l : list A) : n <= length l -> length l - length (skipn n l) = n.
Proof. intros H. rewrite skipn_length. lia. Qed.

(* ---------- unquote vs parse_quoted ---------- *)
Lemma is_quote_bs_false c : is_quote_bs c = false -> Byte.eqb c x27 = false /\ Byte.eqb c x5c = false.
Proof. unfold is_quote_bs. intros H. apply orb_false_iff in H. exact H. Qed.

Lemma unquote_strcspn s : forall acc,
  unquote s acc = unquote (skipn (strcspn s is_quote_bs) s) (rev (firstn (strcspn s is_quote_bs) s) ++ acc).
Proof.
  induction s as [|c s IH]; intros acc; [reflexivity|].
  cbn [strcspn]. destruct (is_quote_bs c) eqn:E; [reflexivity|].
  cbn [skipn firstn rev]. rewrite <- app_assoc. cbn [app]. rewrite <- IH.
  apply is_quote_bs_false in E as [E1 E2]. cbn [unquote]. rewrite E1, E2. reflexivity.
Qed.

Lemma unquote_len : forall n s acc t r, length s <= n -> unquote s acc = Some (t, r) ->
  skipn (length s - length r) s = r /\ length r < length s.
Proof.
  induction n as [|n IH]; intros s acc t r Hn H.
  - destruct s; [discriminate|cbn in Hn; lia].
  - destruct s as [|c s]; [discriminate|]. cbn [unquote] in H.
    destruct (Byte.eqb c x27).
    + inversion H; subst. cbn [length]. replace (S (length r) - length r) with 1 by lia.
      cbn. split; [reflexivity|lia].
    + destruct (Byte.eqb c x5c).
      * destruct s as [|d s']; [discriminate|].
        destruct (Byte.eqb d x27 || Byte.eqb d x5c); [|discriminate].
        apply IH in H; [|cbn in Hn; cbn; lia]. destruct H as [H1 H2].
        cbn [length]. replace (S (S (length s')) - length r) with (S (S (length s' - length r))) by lia.
        cbn [skipn]. split; [exact H1|lia].
      * apply IH in H; [|cbn in Hn; lia]. destruct H as [H1 H2].
        cbn [length]. replace (S (length s) - length r) with (S (length s - length r)) by lia.
        cbn [skipn]. split; [exact H1|lia].
Qed.

Lemma parse_quoted_spec : forall fuel s acc len, length s < fuel ->
  parse_quoted fuel s acc len =
  match unquote s acc with Some (t, r) => Some (t, len + (length s - length r)) | None => None end.
Proof.
  induction fuel as [|f IH]; intros s acc len Hf; [lia|].
  cbn [parse_quoted]. rewrite (unquote_strcspn s acc).
  set (l := strcspn s is_quote_bs).
  assert (Hl : l <= length s) by apply strcspn_le.
  assert (Hlen : length (skipn l s) = length s - l) by apply skipn_length.
  destruct (skipn l s) as [|c r] eqn:E; [reflexivity|].
  pose proof (skipn_strcspn_head _ _ _ _ E) as Hc.
  cbn [length] in Hlen. cbn [unquote].
  destruct (Byte.eqb c x27) eqn:E1.
  - rewrite rev_app_distr, rev_involutive. f_equal. f_equal. lia.
  - unfold is_quote_bs in Hc. rewrite E1 in Hc. cbn [orb] in Hc. rewrite Hc.
    destruct r as [|d r']; [reflexivity|].
    change (is_quote_bs d) with (Byte.eqb d x27 || Byte.eqb d x5c).
    destruct (Byte.eqb d x27 || Byte.eqb d x5c); [|reflexivity].
    cbn [length] in Hlen. rewrite IH by lia.
    destruct (unquote r' (d :: rev (firstn l s) ++ acc)) as [[t r2]|] eqn:U; [|reflexivity].
    apply (unquote_len (length r')) in U; [|lia]. destruct U as [_ U].
    f_equal. f_equal. lia.
Qed.

(* the qualifier after '=' as the SPEC reads it *)
Definition qual_parse (a : str) : option (str * str) :=
  match a with
  | q :: r'' =>
      if Byte.eqb q x27 then unquote r'' []
      else let '(t, rest) := span is_bar a in match t with [] => None | _ => Some (t, rest) end
  | [] => None
  end.

Lemma segment_eq s :
  segment s =
  let l := strcspn s is_bar_eq in
  match firstn l s with
  | [] => None
  | _ =>
    match skipn l s with
    | c :: r' =>
        if Byte.eqb c x3d then
          match qual_parse r' with
          | Some (t, rest) => Some ({| ps_name := firstn l s; ps_qual := Some t |}, rest)
          | None => None
          end
        else Some ({| ps_name := firstn l s; ps_qual := None |}, c :: r')
    | [] => Some ({| ps_name := firstn l s; ps_qual := None |}, [])
    end
  end.
Proof.
  unfold segment, span. cbv zeta.
  destruct (firstn (strcspn s is_bar_eq) s) as [|x nm]; [reflexivity|].
  destruct (skipn (strcspn s is_bar_eq) s) as [|c r']; [reflexivity|].
  destruct (Byte.eqb c x3d); [|reflexivity].
  destruct r' as [|q r'']; [reflexivity|].
  unfold qual_parse, span. destruct (Byte.eqb q x27); [reflexivity|].
  destruct (firstn (strcspn (q :: r'') is_bar) (q :: r'')); reflexivity.
Qed.

Lemma qual_parse_len a t rest : qual_parse a = Some (t, rest) ->
  skipn (length a - length rest) a = rest /\ length rest <= length a.
Proof.
  destruct a as [|q r'']; [discriminate|]. unfold qual_parse.
  destruct (Byte.eqb q x27).
  - intros U. apply (unquote_len (length r'')) in U; [|lia]. destruct U as [U1 U2].
    cbn [length]. replace (S (length r'') - length rest) with (S (length r'' - length rest)) by lia.
    cbn [skipn]. split; [exact U1|lia].
  - unfold span. set (a := q :: r''). set (l := strcspn a is_bar).
    destruct (firstn l a); [discriminate|]. intros H; inversion H; subst.
    pose proof (strcspn_le a is_bar). fold l in H0.
    rewrite skipn_len_sub by exact H0. split; [reflexivity|]. rewrite skipn_length. lia.
Qed.

Lemma parse_title_spec a :
  parse_title a = match qual_parse a with Some (t, rest) => Some (t, length a - length rest) | None => None end.
Proof.
  destruct a as [|q r'']; [reflexivity|]. unfold parse_title, qual_parse.
  destruct (Byte.eqb q x27).
  - rewrite parse_quoted_spec by lia.
    destruct (unquote r'' []) as [[t r]|] eqn:U; [|reflexivity].
    apply (unquote_len (length r'')) in U; [|lia]. destruct U as [_ U].
    f_equal. f_equal. cbn [length]. lia.
  - unfold span. set (a := q :: r''). set (l := strcspn a is_bar).
    pose proof (strcspn_le a is_bar) as Hl. fold l in Hl.
    destruct (Nat.eqb l 0) eqn:E.
    + apply Nat.eqb_eq in E. rewrite E. reflexivity.
    + apply Nat.eqb_neq in E. destruct (firstn_pos_cons l q r'' E) as [t Ht].
      fold a in Ht. rewrite Ht. rewrite skipn_len_sub by exact Hl. reflexivity.
Qed.

(* ---------- side conditions on the tree ---------- *)
Definition tree_ok (P : opt -> Prop) (c : cfg) : Prop :=
  forall steps s o, get_sec c steps = Some s -> In o (c_opts s) -> P o.

(* nvalues is an unsigned int in C *)
Definition count_ok (o : opt) : Prop := (N.of_nat (length (o_vals o)) <= 4294967295)%N.
Definition counts_ok : cfg -> Prop := tree_ok count_ok.

Lemma tree_ok_here P c o : tree_ok P c -> In o (c_opts c) -> P o.
Proof. intros H. apply (H [] c o). reflexivity. Qed.

Lemma tree_ok_step P c k v o s : tree_ok P c -> nth_error (c_opts c) k = Some o -> nth_sec o v = Some s -> tree_ok P s.
Proof.
  intros H Hk Hv steps s' o' Hs Ho. apply (H ((k, v) :: steps) s' o'); [|exact Ho].
  cbn [get_sec]. rewrite Hk, Hv. exact Hs.
Qed.

(* ---------- one navigation step of the SPEC ---------- *)
Definition wstep (c : cfg) (st : pstep) : option (nat * nat * cfg) :=
  match getopt_leaf c (ps_name st) with
  | None => None
  | Some k =>
      match nth_error (c_opts c) k with
      | None => None
      | Some o =>
          if negb (kind_eqb (o_kind o) KSec) then None
          else match select o (ps_qual st) with
               | None => None
               | Some v => match nth_sec o v with Some s => Some (k, v, s) | None => None end
               end
      end
  end.

Lemma walk_cons c st r acc :
  walk c (st :: r) acc = match wstep c st with Some (k, v, s) => walk s r ((k, v) :: acc) | None => None end.
Proof.
  cbn [walk]. unfold wstep.
  destruct (getopt_leaf c (ps_name st)) as [k|]; [|reflexivity].
  destruct (nth_error (c_opts c) k) as [o|]; [|reflexivity].
  destruct (negb (kind_eqb (o_kind o) KSec)); [reflexivity|].
  destruct (select o (ps_qual st)) as [v|]; [|reflexivity].
  destruct (nth_sec o v); reflexivity.
Qed.

Lemma wstep_facts c st k v s : wstep c st = Some (k, v, s) ->
  exists o, nth_error (c_opts c) k = Some o /\ nth_sec o v = Some s.
Proof.
  unfold wstep.
  destruct (getopt_leaf c (ps_name st)) as [k'|]; [|discriminate].
  destruct (nth_error (c_opts c) k') as [o|] eqn:E; [|discriminate].
  destruct (negb (kind_eqb (o_kind o) KSec)); [discriminate|].
  destruct (select o (ps_qual st)) as [v'|]; [|discriminate].
  destruct (nth_sec o v') eqn:E2; [|discriminate].
  intros H; inversion H; subst. eauto.
Qed.

(* ---------- index arithmetic ---------- *)
Lemma to_uint_small z : (0 <= z <= 4294967295)%Z -> to_uint z = Z.to_N z.
Proof. intros H. unfold to_uint. rewrite Z.mod_small by lia. reflexivity. Qed.

Lemma gettsecidx_from_bound nocase vals t : forall i j,
  gettsecidx_from nocase vals t i = Some j -> i <= j < i + length vals.
Proof.
  induction vals as [|v vals IH]; intros i j; cbn [gettsecidx_from]; [discriminate|].
  destruct v as [| | | |[s|]|]; try discriminate.
  destruct (c_title s) as [ti|]; [|discriminate].
  destruct (name_eqb (nocase || cflag s CFGF_NOCASE) t ti).
  - intros H; inversion H; subst. cbn [length]. lia.
  - intros H. apply IH in H. cbn [length]. lia.
Qed.

Lemma gettsecidx_bound o t j : gettsecidx o t = Some j -> j < length (o_vals o).
Proof. unfold gettsecidx. intros H. apply gettsecidx_from_bound in H. lia. Qed.

(* the instance the model reaches from (k, i) agrees with select when the option is a section *)
Definition pick (k : nat) (o : opt) (q : option str) : option (nat * nat * cfg) :=
  match select o q with
  | None => None
  | Some v => match nth_sec o v with Some s => Some (k, v, s) | None => None end
  end.

Lemma msec_some sec k i o : nth_error (c_opts sec) k = Some o ->
  msec sec (Some k) i =
  if (0 <=? i)%Z then match opt_getnsec o (to_uint i) with
                      | Some s => Some (k, N.to_nat (to_uint i), s) | None => None end
  else None.
Proof. intros H. unfold msec. rewrite H. reflexivity. Qed.

Lemma msec_first sec k o : nth_error (c_opts sec) k = Some o -> kind_eqb (o_kind o) KSec = true ->
  msec sec (Some k) 0 = pick k o None.
Proof.
  intros Hk Hs. rewrite (msec_some _ _ _ _ Hk). change (0 <=? 0)%Z with true. cbv iota.
  change (to_uint 0) with 0%N. unfold opt_getnsec, pick, select.
  destruct (o_kind o); try discriminate.
  unfold nth_sec. destruct (o_vals o) as [|v vs]; [reflexivity|].
  cbn [length]. replace (0 <? N.of_nat (S (length vs)))%N with true by (symmetry; apply N.ltb_lt; lia).
  reflexivity.
Qed.

Lemma msec_neg sec k : msec sec (Some k) (-1) = None.
Proof. reflexivity. Qed.

Lemma msec_title sec k o t : nth_error (c_opts sec) k = Some o -> kind_eqb (o_kind o) KSec = true ->
  count_ok o -> oflag o CFGF_MULTI = true -> oflag o CFGF_TITLE = true ->
  msec sec (Some k) (match gettsecidx o t with Some j => Z.of_nat j | None => (-1)%Z end) = pick k o (Some t).
Proof.
  intros Hk Hs Hc Hm Ht. unfold pick, select. rewrite Hm, Ht. cbn [negb].
  destruct (gettsecidx o t) as [j|] eqn:G; [|reflexivity].
  apply gettsecidx_bound in G. unfold count_ok in Hc.
  rewrite (msec_some _ _ _ _ Hk).
  replace (0 <=? Z.of_nat j)%Z with true by (symmetry; apply Z.leb_le; lia).
  rewrite to_uint_small by lia. rewrite <- (Znat.nat_N_Z j), N2Z.id.
  unfold opt_getnsec. destruct (o_kind o); try discriminate.
  replace (N.of_nat j <? N.of_nat (length (o_vals o)))%N with true by (symmetry; apply N.ltb_lt; lia).
  rewrite Nnat.Nat2N.id. reflexivity.
Qed.

Lemma msec_num sec k o t : nth_error (c_opts sec) k = Some o -> kind_eqb (o_kind o) KSec = true ->
  count_ok o -> oflag o CFGF_MULTI = true -> oflag o CFGF_TITLE = false ->
  msec sec (Some k) (match sl_rest (strtol t 0) with
                     | [] => if (sl_val (strtol t 0) <=? 4294967295)%Z then sl_val (strtol t 0) else (-1)%Z
                     | _ => (-1)%Z end) = pick k o (Some t).
Proof.
  intros Hk Hs Hc Hm Ht. unfold pick, select. rewrite Hm, Ht. cbn [negb]. cbv zeta.
  generalize (strtol t 0). intros r.
  destruct (sl_rest r); [|reflexivity].
  set (v := sl_val r). unfold count_ok in Hc.
  destruct (v <=? 4294967295)%Z eqn:E1.
  - apply Z.leb_le in E1. rewrite (msec_some _ _ _ _ Hk).
    destruct (0 <=? v)%Z eqn:E0; [|reflexivity]. apply Z.leb_le in E0. cbn [andb].
    rewrite to_uint_small by lia.
    unfold opt_getnsec. destruct (o_kind o); try discriminate.
    destruct (Z.to_N v <? N.of_nat (length (o_vals o)))%N; [|reflexivity].
    rewrite Z_N_nat. reflexivity.
  - apply Z.leb_gt in E1. rewrite msec_neg.
    replace (0 <=? v)%Z with true by (symmetry; apply Z.leb_le; lia). cbn [andb].
    replace (Z.to_N v <? N.of_nat (length (o_vals o)))%N with false; [reflexivity|].
    symmetry. apply N.ltb_ge. lia.
Qed.

(* ---------- the model's step against the SPEC's segment + wstep ---------- *)
Lemma wstep_pick c st k o : getopt_leaf c (ps_name st) = Some k -> nth_error (c_opts c) k = Some o ->
  kind_eqb (o_kind o) KSec = true -> wstep c st = pick k o (ps_qual st).
Proof. intros H1 H2 H3. unfold wstep, pick. rewrite H1, H2, H3. reflexivity. Qed.

Lemma seg_fail sec nmx (after : str) (name1 : str) (len1 : nat) :
  (forall q, wstep sec {| ps_name := nmx; ps_qual := q |} = None) ->
  match (match after with
         | c :: r' =>
           if Byte.eqb c x3d then
             match qual_parse r' with
             | Some (t, rest) => Some ({| ps_name := nmx; ps_qual := Some t |}, rest)
             | None => None
             end
           else Some ({| ps_name := nmx; ps_qual := None |}, c :: r')
         | [] => Some ({| ps_name := nmx; ps_qual := None |}, [])
         end) with
  | None => (None : option (nat * nat * cfg)) = None
  | Some (st, rest) => None = wstep sec st /\ ((None : option (nat * nat * cfg)) <> None -> skipn len1 name1 = rest)
  end.
Proof.
  intros H.
  destruct after as [|c r']; [split; [symmetry; apply H|intros E; elim E; reflexivity]|].
  destruct (Byte.eqb c x3d); [|split; [symmetry; apply H|intros E; elim E; reflexivity]].
  destruct (qual_parse r') as [[t0 rest0]|]; [|reflexivity].
  split; [symmetry; apply H|intros E; elim E; reflexivity].
Qed.

Lemma step_agree sec name : tree_ok count_ok sec ->
  forall x nm, firstn (strcspn name is_bar_eq) name = x :: nm ->
  forall oi i t name1 len1,
  mtuple sec name (strcspn name is_bar_eq) (skipn (strcspn name is_bar_eq) name) (x :: nm) = (oi, i, t, name1, len1) ->
  match segment name with
  | None => msec sec oi i = None
  | Some (st, rest) => msec sec oi i = wstep sec st /\ (msec sec oi i <> None -> skipn len1 name1 = rest)
  end.
Proof.
  intros Hok x nm Hfn oi i t name1 len1. rewrite segment_eq. cbv zeta. rewrite Hfn.
  set (len := strcspn name is_bar_eq). set (after := skipn len name).
  unfold mtuple.
  destruct (getopt_leaf sec (x :: nm)) as [k|] eqn:Hg.
  2:{ intros H; inversion H; subst. cbn [msec]. apply seg_fail.
      intros q. unfold wstep. cbn [ps_name]. rewrite Hg. reflexivity. }
  destruct (nth_error (c_opts sec) k) as [o|] eqn:Hk.
  2:{ intros H; inversion H; subst. cbn [msec]. apply seg_fail.
      intros q. unfold wstep. cbn [ps_name]. rewrite Hg, Hk. reflexivity. }
  destruct (kind_eqb (o_kind o) KSec) eqn:Hs; cbn [negb].
  2:{ intros H; inversion H; subst. cbn [msec]. apply seg_fail.
      intros q. unfold wstep. cbn [ps_name]. rewrite Hg, Hk, Hs. reflexivity. }
  assert (Hc : count_ok o) by (apply (tree_ok_here _ _ _ Hok); eapply nth_error_In; exact Hk).
  assert (Hw : forall q, wstep sec {| ps_name := x :: nm; ps_qual := q |} = pick k o q)
    by (intros q; apply wstep_pick; assumption).
  destruct after as [|c r'] eqn:Haft.
  - intros H; inversion H; subst. rewrite Hw. split; [apply msec_first; assumption|]. intros _. exact Haft.
  - destruct (Byte.eqb c x3d) eqn:Hc3; cbn [negb].
    2:{ intros H; inversion H; subst. rewrite Hw. split; [apply msec_first; assumption|]. intros _. exact Haft. }
    destruct (oflag o CFGF_MULTI) eqn:Hm; cbn [negb].
    2:{ intros H; inversion H; subst. rewrite msec_neg.
        destruct (qual_parse r') as [[t0 rest0]|]; [|reflexivity].
        rewrite Hw. split; [|intros E; elim E; reflexivity].
        unfold pick, select. rewrite Hm. reflexivity. }
    rewrite parse_title_spec.
    destruct (qual_parse r') as [[t0 rest0]|] eqn:Hq.
    2:{ intros H; inversion H; subst. apply msec_neg. }
    rewrite Hw.
    apply qual_parse_len in Hq. destruct Hq as [Hq _].
    destruct (oflag o CFGF_TITLE) eqn:Ht.
    + intros H; inversion H; subst. split; [apply msec_title; assumption|]. intros _. exact Hq.
    + cbv zeta. intros H; inversion H; subst. split; [apply msec_num; assumption|]. intros _. exact Hq.
Qed.

(* ---------- facts about segment ---------- *)
Lemma segment_shorter s st rest : segment s = Some (st, rest) -> length rest < length s.
Proof.
  rewrite segment_eq. cbv zeta. set (l := strcspn s is_bar_eq).
  pose proof (firstn_skipn l s) as Hs. apply (f_equal (@length _)) in Hs. rewrite app_length in Hs.
  destruct (firstn l s) as [|x nm]; [discriminate|]. cbn [length] in Hs.
  destruct (skipn l s) as [|c r'].
  - intros H; inversion H; subst. cbn [length]. lia.
  - cbn [length] in Hs. destruct (Byte.eqb c x3d).
    + destruct (qual_parse r') as [[t rest0]|] eqn:Q; [|discriminate].
      apply qual_parse_len in Q. destruct Q as [_ Q]. intros H; inversion H; subst. lia.
    + intros H; inversion H; subst. cbn [length]. lia.
Qed.

Lemma segment_noqual s st rest : segment s = Some (st, rest) -> ps_qual st = None ->
  rest = skipn (strcspn s is_bar_eq) s.
Proof.
  rewrite segment_eq. cbv zeta. set (l := strcspn s is_bar_eq).
  destruct (firstn l s) as [|x nm]; [discriminate|].
  destruct (skipn l s) as [|c r'].
  - intros H; inversion H; subst. reflexivity.
  - destruct (Byte.eqb c x3d).
    + destruct (qual_parse r') as [[t rest0]|]; [|discriminate].
      intros H; inversion H; subst. cbn. discriminate.
    + intros H; inversion H; subst. reflexivity.
Qed.

Lemma segment_nil_name s : strcspn s is_bar_eq = 0 -> segment s = None.
Proof. intros H. rewrite segment_eq. cbv zeta. rewrite H. reflexivity. Qed.

Lemma segment_whole c0 n0 : skipn (strcspn (c0 :: n0) is_bar_eq) (c0 :: n0) = [] ->
  segment (c0 :: n0) = Some ({| ps_name := c0 :: n0; ps_qual := None |}, []).
Proof.
  intros H. rewrite segment_eq. cbv zeta. rewrite H. rewrite (skipn_nil_firstn _ _ H). reflexivity.
Qed.

(* ---------- the option variant of the SPEC, as a recursion over the segments ---------- *)
Fixpoint nav (c : cfg) (segs : list pstep) (acc : list (nat * nat)) : option optref :=
  match segs with
  | [] => None
  | st :: r =>
      match r with
      | [] => match ps_qual st with
              | Some _ => None
              | None => match getopt_leaf c (ps_name st) with Some i => Some (rev acc, i) | None => None end
              end
      | _ :: _ => match wstep c st with Some (k, v, s) => nav s r ((k, v) :: acc) | None => None end
      end
  end.

Lemma nav_spec : forall segs c acc,
  nav c segs acc =
  match rev segs with
  | [] => None
  | leaf :: rsecs =>
      match ps_qual leaf with
      | Some _ => None
      | None =>
          match walk c (rev rsecs) acc with
          | Some (steps, s) => match getopt_leaf s (ps_name leaf) with Some i => Some (steps, i) | None => None end
          | None => None
          end
      end
  end.
Proof.
  induction segs as [|st r IH]; intros c acc; [reflexivity|].
  destruct r as [|st2 r2].
  - cbn [nav rev app walk]. destruct (ps_qual st); reflexivity.
  - change (nav c (st :: st2 :: r2) acc) with
      (match wstep c st with Some (k, v, s) => nav s (st2 :: r2) ((k, v) :: acc) | None => None end).
    change (rev (st :: st2 :: r2)) with (rev (st2 :: r2) ++ [st]).
    destruct (rev (st2 :: r2)) as [|leaf rsecs] eqn:ER.
    { apply (f_equal (@length _)) in ER. rewrite rev_length in ER. discriminate. }
    cbn [app]. rewrite rev_app_distr. cbn [rev app]. rewrite walk_cons.
    destruct (wstep c st) as [[[k v] s]|].
    + rewrite IH. reflexivity.
    + destruct (ps_qual leaf); reflexivity.
Qed.

Lemma segments_nonnil : forall f s l, segments f s = Some l -> l <> [].
Proof.
  destruct f as [|f]; intros s l; [discriminate|]. cbn [segments].
  destruct (segment s) as [[st rest]|]; [|discriminate].
  destruct rest as [|c r]; [intros H; inversion H; discriminate|].
  destruct (is_bar c); [|discriminate].
  destruct (skipn (strspn (c :: r) is_bar) (c :: r)); [discriminate|].
  destruct (segments f (b :: l0)); [|discriminate]. cbn. intros H; inversion H; discriminate.
Qed.

Definition leaf_of (sec : cfg) (steps : list (nat * nat)) (st : pstep) : option optref :=
  match ps_qual st with
  | Some _ => None
  | None => match getopt_leaf sec (ps_name st) with Some i => Some (rev steps, i) | None => None end
  end.

Definition specF (f : nat) (sec : cfg) (steps : list (nat * nat)) (name : str) : option optref :=
  match segments f name with None => None | Some segs => nav sec segs steps end.

Lemma specF_S f sec steps name :
  specF (S f) sec steps name =
  match segment name with
  | None => None
  | Some (st, rest) =>
      match rest with
      | [] => leaf_of sec steps st
      | c :: _ =>
          if is_bar c then
            match skipn (strspn rest is_bar) rest with
            | [] => None
            | d :: r' => match wstep sec st with
                         | Some (k, v, s) => specF f s ((k, v) :: steps) (d :: r')
                         | None => None
                         end
            end
          else None
      end
  end.
Proof.
  unfold specF. cbn [segments].
  destruct (segment name) as [[st rest]|]; [|reflexivity].
  destruct rest as [|c r]; [reflexivity|].
  destruct (is_bar c); [|reflexivity].
  destruct (skipn (strspn (c :: r) is_bar) (c :: r)) as [|d r']; [reflexivity|].
  destruct (segments f (d :: r')) as [l|] eqn:E; cbn [option_map].
  - apply segments_nonnil in E. destruct l as [|st2 l2]; [congruence|]. reflexivity.
  - destruct (wstep sec st) as [[[k v] s]|]; reflexivity.
Qed.

(* ---------- the section variant of the SPEC, as a recursion that follows the loop ---------- *)
Definition done (steps : list (nat * nat)) : option (list (nat * nat)) :=
  match steps with [] => None | _ => Some (rev steps) end.

Definition sspecF (f : nat) (sec : cfg) (steps : list (nat * nat)) (name : str) : option (list (nat * nat)) :=
  match name with
  | [] => done steps
  | _ => match segments f name with
         | None => None
         | Some segs => option_map fst (walk sec segs steps)
         end
  end.

Definition one_step (sec : cfg) (steps : list (nat * nat)) (st : pstep) : option (list (nat * nat)) :=
  match wstep sec st with Some (k, v, s) => Some (rev ((k, v) :: steps)) | None => None end.

Lemma sspecF_S f sec steps c0 n0 :
  sspecF (S f) sec steps (c0 :: n0) =
  match segment (c0 :: n0) with
  | None => None
  | Some (st, rest) =>
      match rest with
      | [] => one_step sec steps st
      | c :: _ =>
          if is_bar c then
            match skipn (strspn rest is_bar) rest with
            | [] => None
            | d :: r' => match wstep sec st with
                         | Some (k, v, s) => sspecF f s ((k, v) :: steps) (d :: r')
                         | None => None
                         end
            end
          else None
      end
  end.
Proof.
  unfold sspecF at 1. cbn [segments]. unfold one_step.
  destruct (segment (c0 :: n0)) as [[st rest]|]; [|reflexivity].
  destruct rest as [|c r].
  { cbn [option_map]. rewrite walk_cons. destruct (wstep sec st) as [[[k v] s]|]; reflexivity. }
  destruct (is_bar c); [|reflexivity].
  destruct (skipn (strspn (c :: r) is_bar) (c :: r)) as [|d r']; [reflexivity|].
  unfold sspecF.
  destruct (segments f (d :: r')) as [l|]; cbn [option_map].
  - rewrite walk_cons. destruct (wstep sec st) as [[[k v] s]|]; reflexivity.
  - destruct (wstep sec st) as [[[k v] s]|]; reflexivity.
Qed.

Lemma wstep_tree_ok P sec st k v s : tree_ok P sec -> Some (k, v, s) = wstep sec st -> tree_ok P s.
Proof.
  intros H E. symmetry in E. apply wstep_facts in E. destruct E as [o [E1 E2]].
  eapply tree_ok_step; eassumption.
Qed.

Lemma strspn_bar_pos c r : is_bar c = true -> Nat.eqb (strspn (c :: r) is_bar) 0 = false.
Proof. intros H. cbn [strspn]. rewrite H. reflexivity. Qed.

(* ================= want_index = false ================= *)
Lemma loop_false : forall f root sec steps name last index,
  length name < f -> name <> [] -> counts_ok sec ->
  rs_opt (secidx_loop f root sec steps name false last index) = specF f sec steps name.
Proof.
  induction f as [|f IH]; intros root sec steps name last index Hf Hne Hct; [lia|].
  destruct name as [|c0 n0]; [congruence|].
  rewrite secidx_loop_eq, specF_S. cbv beta iota zeta.
  set (len := strcspn (c0 :: n0) is_bar_eq).
  destruct (skipn len (c0 :: n0)) as [|a aft] eqn:Haft; cbn [negb andb].
  - unfold finish_r. rewrite (segment_whole _ _ Haft). unfold leaf_of. cbn [ps_qual ps_name].
    destruct (getopt_leaf sec (c0 :: n0)); reflexivity.
  - destruct (Nat.eqb len 0) eqn:E0.
    + apply Nat.eqb_eq in E0. rewrite segment_nil_name by exact E0. reflexivity.
    + apply Nat.eqb_neq in E0. destruct (firstn_pos_cons len c0 n0 E0) as [nm Hfn]. rewrite Hfn.
      destruct (mtuple sec (c0 :: n0) len (a :: aft) (c0 :: nm)) as [[[[oi i] t] name1] len1] eqn:Hm.
      rewrite <- Haft in Hm.
      pose proof (step_agree sec (c0 :: n0) Hct c0 nm Hfn oi i t name1 len1 Hm) as SA.
      destruct (segment (c0 :: n0)) as [[st rest]|] eqn:Hseg.
      2:{ rewrite SA. reflexivity. }
      destruct SA as [Hw Hrest].
      assert (Hq : rest = [] -> leaf_of sec steps st = None).
      { intros ->. unfold leaf_of. destruct (ps_qual st) eqn:Q; [reflexivity|].
        pose proof (segment_noqual _ _ _ Hseg Q) as HH. fold len in HH. rewrite Haft in HH. discriminate. }
      pose proof (segment_shorter _ _ _ Hseg) as Hsh.
      destruct (msec sec oi i) as [[[k v] s]|] eqn:Hms.
      * specialize (Hrest ltac:(discriminate)). rewrite Hrest. rewrite <- Hw.
        destruct rest as [|c r].
        -- cbn [strspn skipn orb Nat.eqb negb]. rewrite Hq by reflexivity.
           destruct f as [|f']; [reflexivity|]. rewrite secidx_loop_eq. reflexivity.
        -- destruct (is_bar c) eqn:Hb; cbn [negb orb]; [|reflexivity].
           destruct (skipn (strspn (c :: r) is_bar) (c :: r)) as [|d r'] eqn:Hsk.
           ++ rewrite (strspn_bar_pos _ _ Hb). reflexivity.
           ++ apply IH.
              ** apply (f_equal (@length _)) in Hsk. rewrite skipn_length in Hsk. lia.
              ** discriminate.
              ** eapply wstep_tree_ok; eassumption.
      * rewrite <- Hw. destruct rest as [|c r]; [symmetry; apply Hq; reflexivity|].
        destruct (is_bar c); [|reflexivity].
        destruct (skipn (strspn (c :: r) is_bar) (c :: r)); reflexivity.
Qed.

(* ================= want_index = true ================= *)
(* what cfg_getsec makes of the resolver's (option, index) result *)
Definition G (root : cfg) (last : option optref) (index : Z) : option (list (nat * nat)) :=
  match last with
  | None => None
  | Some ref =>
      match get_opt root ref with
      | None => None
      | Some o => if (0 <=? index)%Z then
                    match opt_getnsec o (to_uint index) with
                    | Some _ => Some (fst ref ++ [(snd ref, N.to_nat (to_uint index))])
                    | None => None
                    end
                  else None
      end
  end.

Lemma cfg_getsec_G w c p :
  snd (cfg_getsec w c p) = G c (rs_opt (getopt_secidx c p true)) (rs_index (getopt_secidx c p true)).
Proof.
  unfold cfg_getsec, G. cbv zeta.
  destruct (rs_opt (getopt_secidx c p true)) as [ref|]; [|reflexivity].
  destruct (get_opt c ref) as [o|]; [|reflexivity].
  destruct (0 <=? rs_index (getopt_secidx c p true))%Z; [|reflexivity].
  destruct (opt_getnsec o (to_uint (rs_index (getopt_secidx c p true)))); reflexivity.
Qed.

Lemma get_sec_app : forall a c b,
  get_sec c (a ++ b) = match get_sec c a with Some s => get_sec s b | None => None end.
Proof.
  induction a as [|[i v] a IH]; intros c b; [reflexivity|]. cbn [app get_sec].
  destruct (nth_error (c_opts c) i) as [o|]; [|reflexivity].
  destruct (nth_sec o v) as [s|]; [apply IH|reflexivity].
Qed.

Lemma opt_getnsec_nth o idx s : opt_getnsec o idx = Some s -> nth_sec o (N.to_nat idx) = Some s.
Proof.
  unfold opt_getnsec. destruct (o_kind o); try discriminate.
  destruct (idx <? N.of_nat (length (o_vals o)))%N; [auto|discriminate].
Qed.

Lemma msec_inv sec oi i k v s : msec sec oi i = Some (k, v, s) ->
  exists o, nth_error (c_opts sec) k = Some o /\ (0 <=? i)%Z = true /\
            opt_getnsec o (to_uint i) = Some s /\ v = N.to_nat (to_uint i).
Proof.
  unfold msec. destruct oi as [k'|]; [|discriminate].
  destruct (0 <=? i)%Z; [|discriminate].
  destruct (nth_error (c_opts sec) k') as [o|] eqn:E; [|discriminate].
  destruct (opt_getnsec o (to_uint i)) as [s'|] eqn:E2; [|discriminate].
  intros H; inversion H; subst. exists o. auto.
Qed.

Lemma loop_true : forall f root sec steps name last index,
  length name < f -> counts_ok sec -> get_sec root (rev steps) = Some sec ->
  G root last index = done steps ->
  G root (rs_opt (secidx_loop f root sec steps name true last index))
         (rs_index (secidx_loop f root sec steps name true last index)) = sspecF f sec steps name.
Proof.
  induction f as [|f IH]; intros root sec steps name last index Hf Hct Hgs HG; [lia|].
  rewrite secidx_loop_eq. destruct name as [|c0 n0]; [exact HG|].
  cbv beta iota zeta. cbn [negb andb].
  set (len := strcspn (c0 :: n0) is_bar_eq).
  destruct (Nat.eqb len 0) eqn:E0.
  - apply Nat.eqb_eq in E0. rewrite sspecF_S. rewrite segment_nil_name by exact E0. reflexivity.
  - apply Nat.eqb_neq in E0. rewrite sspecF_S.
    destruct (firstn_pos_cons len c0 n0 E0) as [nm Hfn]. rewrite Hfn.
    destruct (mtuple sec (c0 :: n0) len (skipn len (c0 :: n0)) (c0 :: nm)) as [[[[oi i] t] name1] len1] eqn:Hm.
    pose proof (step_agree sec (c0 :: n0) Hct c0 nm Hfn oi i t name1 len1 Hm) as SA.
    destruct (segment (c0 :: n0)) as [[st rest]|] eqn:Hseg.
    2:{ rewrite SA. reflexivity. }
    destruct SA as [Hw Hrest].
    pose proof (segment_shorter _ _ _ Hseg) as Hsh.
    destruct (msec sec oi i) as [[[k v] s]|] eqn:Hms.
    + specialize (Hrest ltac:(discriminate)). rewrite Hrest.
      destruct (msec_inv _ _ _ _ _ _ Hms) as [o [Hk [H0 [Hget Hv]]]].
      assert (HG' : G root (Some (rev steps, k)) i = done ((k, v) :: steps)).
      { unfold G, get_opt. cbn [fst snd]. rewrite Hgs, Hk, H0, Hget. subst v. reflexivity. }
      assert (Hgs' : get_sec root (rev ((k, v) :: steps)) = Some s).
      { cbn [rev]. rewrite get_sec_app, Hgs. cbn [get_sec]. rewrite Hk.
        subst v. rewrite (opt_getnsec_nth _ _ _ Hget). reflexivity. }
      assert (Hct' : counts_ok s) by (eapply wstep_tree_ok; eassumption).
      destruct rest as [|c r].
      * cbn [strspn skipn orb Nat.eqb negb]. rewrite IH; [| cbn [length] in *; lia | assumption..].
        unfold one_step. rewrite <- Hw. reflexivity.
      * destruct (is_bar c) eqn:Hb; cbn [negb orb]; [|reflexivity].
        destruct (skipn (strspn (c :: r) is_bar) (c :: r)) as [|d r'] eqn:Hsk.
        -- rewrite (strspn_bar_pos _ _ Hb). reflexivity.
        -- rewrite <- Hw. cbn [orb]. apply IH; [|assumption..].
           apply (f_equal (@length _)) in Hsk. rewrite skipn_length in Hsk. lia.
    + cbn [rs_opt rs_index G]. unfold one_step. rewrite <- Hw.
      destruct rest as [|c r]; [reflexivity|].
      destruct (is_bar c); [|reflexivity].
      destruct (skipn (strspn (c :: r) is_bar) (c :: r)); reflexivity.
Qed.

(* ================= fuel ================= *)
Lemma mtuple_shape sec name len after secname oi i t name1 len1 :
  mtuple sec name len after secname = (oi, i, t, name1, len1) ->
  (name1 = name /\ len1 = len) \/ (exists c, after = c :: name1).
Proof.
  unfold mtuple.
  destruct (getopt_leaf sec secname) as [k|]; [|intros H; inversion H; auto].
  destruct (nth_error (c_opts sec) k) as [o|]; [|intros H; inversion H; auto].
  destruct (negb (kind_eqb (o_kind o) KSec)); [intros H; inversion H; auto|].
  destruct after as [|c after']; [intros H; inversion H; auto|].
  destruct (negb (Byte.eqb c x3d)); [intros H; inversion H; auto|].
  destruct (negb (oflag o CFGF_MULTI)); [intros H; inversion H; auto|].
  destruct (parse_title after') as [[t0 l]|]; [|intros H; inversion H; subst; eauto].
  destruct (oflag o CFGF_TITLE); cbv zeta; intros H; inversion H; subst; eauto.
Qed.

Lemma loop_fuel : forall f1 f2 root sec steps name wi last index,
  length name < f1 -> length name < f2 ->
  secidx_loop f1 root sec steps name wi last index = secidx_loop f2 root sec steps name wi last index.
Proof.
  induction f1 as [|f1 IH]; intros f2 root sec steps name wi last index H1 H2; [lia|].
  destruct f2 as [|f2]; [lia|]. rewrite !secidx_loop_eq.
  destruct name as [|c0 n0]; [reflexivity|]. cbv beta iota zeta.
  set (len := strcspn (c0 :: n0) is_bar_eq).
  destruct (negb wi && match skipn len (c0 :: n0) with [] => true | _ :: _ => false end); [reflexivity|].
  destruct (Nat.eqb len 0) eqn:E0; [reflexivity|]. apply Nat.eqb_neq in E0.
  destruct (mtuple sec (c0 :: n0) len (skipn len (c0 :: n0)) (firstn len (c0 :: n0))) as [[[[oi i] t] name1] len1] eqn:Hm.
  destruct (msec sec oi i) as [[[k v] s]|]; [|reflexivity].
  match goal with |- (if ?b then _ else _) = _ => destruct b end; [reflexivity|].
  assert (Hlen : length (skipn len1 name1) < length (c0 :: n0)).
  { apply mtuple_shape in Hm. destruct Hm as [[-> ->]|[c Hc]].
    - rewrite skipn_length. cbn [length]. lia.
    - apply (f_equal (@length _)) in Hc. rewrite !skipn_length in *. cbn [length] in *. lia. }
  apply IH; rewrite skipn_length; lia.
Qed.

(* ================= top level ================= *)
Theorem getopt_is_navigation_ok : forall (c : cfg) (p : str), counts_ok c ->
  rs_opt (getopt_secidx c p false) = navigate_opt c p.
Proof.
  intros c p Hc. unfold getopt_secidx, navigate_opt, split_path.
  destruct p as [|c0 n0]; [reflexivity|].
  rewrite loop_false; [|lia|discriminate|assumption].
  unfold specF. destruct (segments (S (length (c0 :: n0))) (c0 :: n0)); [apply nav_spec|reflexivity].
Qed.

Theorem getsec_is_navigation_ok : forall (w : pw) (c : cfg) (p : str), counts_ok c ->
  snd (cfg_getsec w c p) = navigate_sec c p.
Proof.
  intros w c p Hc. rewrite cfg_getsec_G. unfold getopt_secidx.
  destruct p as [|c0 n0]; [reflexivity|].
  rewrite loop_true; [|lia|assumption|reflexivity|reflexivity].
  reflexivity.
Qed.

Theorem terminates_full : forall (c : cfg) (p : str) (wi : bool) (fuel' : nat), S (length p) <= fuel' ->
  secidx_loop fuel' c c [] p wi None (-1)%Z = secidx_loop (S (length p)) c c [] p wi None (-1)%Z.
Proof. intros. apply loop_fuel; lia. Qed.

Theorem terminates : forall (c : cfg) (p : str) (wi : bool) (fuel' : nat), S (length p) <= fuel' ->
  rs_opt (secidx_loop fuel' c c [] p wi None (-1)%Z) = rs_opt (secidx_loop (S (length p)) c c [] p wi None (-1)%Z).
Proof. intros. rewrite terminates_full by assumption. reflexivity. Qed.

Theorem not_found_changes_nothing : forall (w : pw) (c : cfg) (name : str) (f : pw -> optref -> opt -> pw * opt * Z),
  fst (cfg_getopt c name) = None -> snd (fst (with_opt w c name f)) = c.
Proof.
  intros w c name f H. unfold with_opt. destruct (cfg_getopt c name) as [ro ds].
  cbn [fst] in H. subst ro. reflexivity.
Qed.

(* ================= a decision procedure for the side condition ================= *)
Section Chk.
Variable P : opt -> bool.
Fixpoint chk_v (v : value) : bool :=
  match v with VSec (Some c) => chk_c c | _ => true end
with chk_o (o : opt) : bool :=
  match o with
  | Opt _ _ _ vals _ _ _ _ =>
      (fix go (l : list value) : bool := match l with [] => true | v :: r => chk_v v && go r end) vals
  end
with chk_c (c : cfg) : bool :=
  match c with
  | Cfg _ _ _ opts _ _ _ _ =>
      (fix go (l : list opt) : bool := match l with [] => true | o :: r => P o && chk_o o && go r end) opts
  end.

Lemma chk_c_all c : chk_c c = true -> forall o, In o (c_opts c) -> P o = true /\ chk_o o = true.
Proof.
  destruct c as [n t fl opts fi li e pf]. cbn [chk_c c_opts].
  induction opts as [|o r IH]; intros H o' Ho; [destruct Ho|].
  apply andb_prop in H as [H1 H3]. apply andb_prop in H1 as [H1 H2].
  destruct Ho as [<-|Ho]; [split; assumption|apply IH; assumption].
Qed.

Lemma chk_o_all o : chk_o o = true -> forall v, In v (o_vals o) -> chk_v v = true.
Proof.
  destruct o as [n k fl vals sub d cm cb]. cbn [chk_o o_vals].
  induction vals as [|v r IH]; intros H v' Hv; [destruct Hv|].
  apply andb_prop in H as [H1 H2].
  destruct Hv as [<-|Hv]; [assumption|apply IH; assumption].
Qed.

Lemma chk_sound : forall c, chk_c c = true -> tree_ok (fun o => P o = true) c.
Proof.
  intros c H steps. revert c H. induction steps as [|[i v] r IH]; intros c H s o Hs Ho.
  - cbn in Hs. inversion Hs; subst. exact (proj1 (chk_c_all _ H o Ho)).
  - cbn [get_sec] in Hs.
    destruct (nth_error (c_opts c) i) as [o'|] eqn:E; [|discriminate].
    destruct (nth_sec o' v) as [s'|] eqn:E2; [|discriminate].
    refine (IH s' _ s o Hs Ho).
    apply nth_error_In in E. apply (chk_c_all _ H) in E. destruct E as [_ E].
    unfold nth_sec in E2. destruct (nth_error (o_vals o') v) as [x|] eqn:E3; [|discriminate].
    destruct x as [| | | |[s0|]|]; try discriminate. inversion E2; subst.
    apply nth_error_In in E3. apply (chk_o_all _ E) in E3. exact E3.
Qed.
End Chk.

Definition count_okb (o : opt) : bool := (N.of_nat (length (o_vals o)) <=? 4294967295)%N.
Definition counts_okb (c : cfg) : bool := chk_c count_okb c.

Lemma counts_okb_sound c : counts_okb c = true -> counts_ok c.
Proof.
  unfold counts_okb. intros H. apply chk_sound in H. intros steps s o Hs Ho.
  specialize (H steps s o Hs Ho). apply N.leb_le. exact H.
Qed.

(* ------------------------------------------------------------------ *)
(* stray separator (or stray '=') at the head of a path, empty path    *)
(* ------------------------------------------------------------------ *)
Lemma strcspn_head_hit c r f : f c = true -> strcspn (c :: r) f = 0.
Proof. intros H. cbn [strcspn]. rewrite H. reflexivity. Qed.

Lemma split_path_stray_head ch p : is_bar_eq ch = true -> split_path (ch :: p) = None.
Proof.
  intros H. unfold split_path. cbn [segments].
  rewrite (segment_nil_name (ch :: p) (strcspn_head_hit ch p is_bar_eq H)). reflexivity.
Qed.

Lemma split_path_empty : split_path [] = None.
Proof. reflexivity. Qed.

Theorem stray_head_not_found : forall (w : pw) (c : cfg) (ch : byte) (p : str), counts_ok c ->
  is_bar_eq ch = true ->
  rs_opt (getopt_secidx c (ch :: p) false) = None /\ snd (cfg_getsec w c (ch :: p)) = None.
Proof.
  intros w c ch p Hc H. split.
  - rewrite (getopt_is_navigation_ok c _ Hc). unfold navigate_opt.
    rewrite (split_path_stray_head ch p H). reflexivity.
  - rewrite (getsec_is_navigation_ok w c _ Hc). unfold navigate_sec.
    rewrite (split_path_stray_head ch p H). reflexivity.
Qed.

Theorem empty_path_not_found : forall (w : pw) (c : cfg), counts_ok c ->
  rs_opt (getopt_secidx c [] false) = None /\ snd (cfg_getsec w c []) = None.
Proof.
  intros w c Hc. split.
  - rewrite (getopt_is_navigation_ok c _ Hc). reflexivity.
  - rewrite (getsec_is_navigation_ok w c _ Hc). reflexivity.
Qed.

(* ------------------------------------------------------------------ *)
(* stray separator at the END of a path                               *)
(* ------------------------------------------------------------------ *)
Lemma strcspn_snoc s b f : f b = true -> strcspn (s ++ [b]) f = strcspn s f.
Proof. intros H. induction s as [|c s IH]; cbn [app strcspn]; [rewrite H; reflexivity|]. destruct (f c); [reflexivity|]. rewrite IH. reflexivity. Qed.

Lemma firstn_snoc_le {A} n (s : list A) b : n <= length s -> firstn n (s ++ [b]) = firstn n s.
Proof. intros H. rewrite firstn_app. replace (n - length s) with 0 by lia. cbn. apply app_nil_r. Qed.

Lemma skipn_snoc_le {A} n (s : list A) b : n <= length s -> skipn n (s ++ [b]) = skipn n s ++ [b].
Proof. intros H. rewrite skipn_app. replace (n - length s) with 0 by lia. reflexivity. Qed.

Lemma span_snoc s b f : f b = true -> span f (s ++ [b]) = (fst (span f s), snd (span f s) ++ [b]).
Proof.
  intros H. unfold span. rewrite (strcspn_snoc s b f H). cbn [fst snd].
  rewrite firstn_snoc_le, skipn_snoc_le by apply strcspn_le. reflexivity.
Qed.

Lemma bar_facts b : is_bar b = true -> is_bar_eq b = true /\ Byte.eqb b x3d = false /\ Byte.eqb b x27 = false /\ Byte.eqb b x5c = false.
Proof. destruct b; cbv; intros H; try discriminate H; repeat split. Qed.

Lemma unquote_snoc b : is_bar b = true -> forall n q acc t rest, length q <= n ->
  unquote (q ++ [b]) acc = Some (t, rest) -> exists rest0, rest = rest0 ++ [b] /\ unquote q acc = Some (t, rest0).
Proof.
  intros Hb. destruct (bar_facts b Hb) as (_ & _ & Hq & Hs).
  induction n as [|n IH]; intros q acc t rest Hn H.
  - destruct q; [|cbn in Hn; lia]. cbn [app unquote] in H. rewrite Hq, Hs in H. discriminate.
  - destruct q as [|c q].
    + cbn [app unquote] in H. rewrite Hq, Hs in H. discriminate.
    + cbn [app unquote] in H |- *. destruct (Byte.eqb c x27).
      * inversion H; subst. eexists; split; reflexivity.
      * destruct (Byte.eqb c x5c).
        -- destruct q as [|d q'].
           ++ cbn [app] in H. rewrite Hq, Hs in H. discriminate.
           ++ cbn [app] in H. destruct (Byte.eqb d x27 || Byte.eqb d x5c); [|discriminate].
              apply IH in H; [exact H|cbn in Hn; lia].
        -- apply IH in H; [exact H|cbn in Hn; lia].
Qed.

Lemma segment_snoc b : is_bar b = true -> forall q st rest,
  segment (q ++ [b]) = Some (st, rest) -> exists rest0, rest = rest0 ++ [b] /\ segment q = Some (st, rest0).
Proof.
  intros Hb q st rest. destruct (bar_facts b Hb) as (Hbe & He & Hq & Hs).
  unfold segment. rewrite (span_snoc q b is_bar_eq Hbe).
  destruct (span is_bar_eq q) as [name r] eqn:Hsp. cbn [fst snd].
  destruct name as [|n0 name]; [discriminate|].
  destruct r as [|c r].
  - cbn [app]. rewrite He. intros H. inversion H; subst. exists []. split; reflexivity.
  - cbn [app]. destruct (Byte.eqb c x3d).
    + destruct r as [|q0 r'].
      * cbn [app]. rewrite Hq. unfold span. cbn [strcspn]. rewrite Hb. cbn. discriminate.
      * cbn [app]. destruct (Byte.eqb q0 x27).
        -- destruct (unquote (r' ++ [b]) []) as [[t rest1]|] eqn:Hu; [|discriminate].
           intros H. inversion H; subst.
           destruct (unquote_snoc b Hb (length r') r' [] t rest (le_n _) Hu) as (rest0 & -> & Hu0).
           rewrite Hu0. exists rest0. split; reflexivity.
        -- change (q0 :: r' ++ [b]) with ((q0 :: r') ++ [b]). rewrite (span_snoc (q0 :: r') b is_bar Hb).
           destruct (span is_bar (q0 :: r')) as [t rest1]. cbn [fst snd].
           destruct t; [discriminate|]. intros H. inversion H; subst. exists rest1. split; reflexivity.
    + intros H. inversion H; subst. exists (c :: r). split; reflexivity.
Qed.

Lemma strspn_snoc_cases s b f : f b = true ->
  (skipn (strspn (s ++ [b]) f) (s ++ [b]) = []) \/
  (skipn (strspn (s ++ [b]) f) (s ++ [b]) = skipn (strspn s f) s ++ [b]).
Proof.
  intros H. induction s as [|c s IH]; cbn [app strspn].
  - rewrite H. cbn. left. reflexivity.
  - destruct (f c); [|right; reflexivity]. cbn [skipn]. exact IH.
Qed.

Theorem segments_trailing_bar b : is_bar b = true -> forall f q, segments f (q ++ [b]) = None.
Proof.
  intros Hb. induction f as [|f IH]; intros q; [reflexivity|].
  cbn [segments]. destruct (segment (q ++ [b])) as [[st rest]|] eqn:Hseg; [|reflexivity].
  destruct (segment_snoc b Hb q st rest Hseg) as (rest0 & -> & _).
  destruct rest0 as [|c r0].
  - cbn [app]. rewrite Hb. cbn [strspn]. rewrite Hb. cbn. reflexivity.
  - cbn [app]. destruct (is_bar c) eqn:Hc; [|reflexivity].
    change (c :: r0 ++ [b]) with ((c :: r0) ++ [b]).
    destruct (strspn_snoc_cases (c :: r0) b is_bar Hb) as [-> | ->]; [reflexivity|].
    rewrite IH. destruct (skipn (strspn (c :: r0) is_bar) (c :: r0) ++ [b]); reflexivity.
Qed.

Theorem split_path_trailing_bar b q : is_bar b = true -> split_path (q ++ [b]) = None.
Proof. intros Hb. unfold split_path. apply segments_trailing_bar. exact Hb. Qed.

Theorem stray_tail_not_found : forall (w : pw) (c : cfg) (b : byte) (p : str), counts_ok c ->
  is_bar b = true ->
  rs_opt (getopt_secidx c (p ++ [b]) false) = None /\ snd (cfg_getsec w c (p ++ [b])) = None.
Proof.
  intros w c b p Hc H. split.
  - rewrite (getopt_is_navigation_ok c _ Hc). unfold navigate_opt.
    rewrite (split_path_trailing_bar b p H). reflexivity.
  - rewrite (getsec_is_navigation_ok w c _ Hc). unfold navigate_sec.
    rewrite (split_path_trailing_bar b p H). reflexivity.
Qed.

(* ------------------------------------------------------------------ *)
(* what a step selects                                                 *)
(* ------------------------------------------------------------------ *)
Lemma select_first o v vs : o_vals o = v :: vs -> select o None = Some 0.
Proof. intros H. unfold select. rewrite H. reflexivity. Qed.

Lemma select_single_qualified o t : oflag o CFGF_MULTI = false -> select o (Some t) = None.
Proof. intros H. unfold select. rewrite H. reflexivity. Qed.

Lemma select_in_range o q v : select o q = Some v -> v < length (o_vals o).
Proof.
  unfold select. destruct q as [t|].
  - destruct (negb (oflag o CFGF_MULTI)); [discriminate|].
    destruct (oflag o CFGF_TITLE); [apply gettsecidx_bound|].
    destruct (sl_rest (strtol t 0)); [|discriminate].
    destruct ((0 <=? sl_val (strtol t 0))%Z && (Z.to_N (sl_val (strtol t 0)) <? N.of_nat (length (o_vals o)))%N) eqn:E; [|discriminate].
    intros H. inversion H; subst. apply andb_true_iff in E as [E1 E2].
    apply Z.leb_le in E1. apply N.ltb_lt in E2. lia.
  - destruct (o_vals o); [discriminate|]. intros H. inversion H; subst. cbn. lia.
Qed.
