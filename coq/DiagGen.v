(* DiagGen.v — a generic closure theorem: every reflexive, transitive relation on worlds that is
   closed under the primitive world updates relates the world before and after
   cfg_setopt / cfg_init_defaults / cfg_parse_internal. *)
From Coq Require String.
Import String.StringSyntax.
From Coq Require Import List Arith NArith ZArith Bool Lia.
From Coq.Strings Require Import Byte.
From LC Require Import Bytes Consts Conv Flex LexAct Lexer Files Store Parser HdrProofs ApiProofs BalanceProofs.
Import ListNotations.
Local Open Scope string_scope.
Local Open Scope list_scope.

Section GenericR.
Variable strtod_o : str -> strtod_res.
Variable R : pw -> pw -> Prop.
Hypothesis R_refl : forall w, R w w.
Hypothesis R_trans : forall a b c, R a b -> R b c -> R a c.
Hypothesis R_diags : forall w d, R w (add_diags w d).
Hypothesis R_cb : forall w e, R w (add_cb w e).
Hypothesis R_cnt : forall w n, R w (set_cnt w n).
Hypothesis R_nextptr : forall w n, R w (set_nextptr w n).
Hypothesis R_open : forall w n, R w (set_open w n).
Hypothesis R_crash : forall w k, R w (set_crash w k).
Hypothesis R_oof : forall w, R w (set_oof w).
Hypothesis R_lex : forall w l, R w (upd_lex w l).

Lemma R_log_frees ids : forall w, R w (log_frees w ids).
Proof.
  unfold log_frees. induction ids as [|i ids IH]; intro w; cbn [fold_left]; [apply R_refl|].
  eapply R_trans; [apply R_cb|apply IH].
Qed.

Ltac rclose :=
  lazymatch goal with
  | H : R ?a ?x |- R ?a ?x => exact H
  | |- R ?a ?a => apply R_refl
  | |- R ?a (add_diags ?x _) => apply (R_trans a x); [rclose | apply R_diags]
  | |- R ?a (add_cb ?x _) => apply (R_trans a x); [rclose | apply R_cb]
  | |- R ?a (set_cnt ?x _) => apply (R_trans a x); [rclose | apply R_cnt]
  | |- R ?a (set_nextptr ?x _) => apply (R_trans a x); [rclose | apply R_nextptr]
  | |- R ?a (set_open ?x _) => apply (R_trans a x); [rclose | apply R_open]
  | |- R ?a (set_crash ?x _) => apply (R_trans a x); [rclose | apply R_crash]
  | |- R ?a (set_oof ?x) => apply (R_trans a x); [rclose | apply R_oof]
  | |- R ?a (upd_lex ?x _) => apply (R_trans a x); [rclose | apply R_lex]
  | |- R ?a (log_frees ?x _) => apply (R_trans a x); [rclose | apply R_log_frees]
  | |- R ?a (if ?b then _ else _) => destruct b; rclose
  | |- R ?a (match ?b with _ => _ end) => destruct b; rclose
  end.

Lemma R_tick w : R w (fst (tick w)).
Proof. unfold tick, fst. rclose. Qed.

Lemma R_run_validcb w o : R w (fst (run_validcb w o)).
Proof.
  unfold run_validcb. destruct (cb_valid (o_cbs o)); [|apply R_refl].
  unfold tick, fst. rclose.
Qed.

Lemma R_run_parsecb w k o v : R w (fst (run_parsecb w k o v)).
Proof. unfold run_parsecb, tick, fst. rclose. Qed.

Lemma R_handle_deprecated w c r : R w (fst (handle_deprecated w c r)).
Proof.
  unfold handle_deprecated. destruct (get_opt c r) as [o|]; [|apply R_refl].
  destruct (oflag o CFGF_DEPRECATED); [|apply R_refl].
  destruct (oflag o CFGF_DROP); [|unfold fst; rclose].
  destruct (free_value o) as [o1 fr]. unfold fst. rclose.
Qed.

Lemma R_lexer_include w c a : R w (fst (fst (lexer_include w c a))).
Proof.
  unfold lexer_include. destruct (Nat.leb _ _); [unfold fst; rclose|].
  destruct (match w_path w with [] => _ | _ => _ end); [|unfold fst; rclose].
  destruct (open_input _ _); unfold fst; rclose.
Qed.

Lemma R_next_token fl w c : R w (fst (fst (fst (next_token fl w c)))).
Proof.
  unfold next_token. cbv zeta. unfold fst.
  set (r := yylex (w_env w) fl (w_lex w) (c_pos c) 0).
  destruct (r_fuel_out r); destruct (c_err c); rclose.
Qed.

Lemma R_so_reset w o : R w (fst (so_reset w o)).
Proof.
  unfold so_reset. destruct (oflag o CFGF_RESET); [|apply R_refl].
  destruct (free_value o) as [x fr]. unfold fst. rclose.
Qed.

Lemma R_so_slot c w0 o0 txt w1 o1 idx : so_slot c w0 o0 txt = Some (w1, o1, idx) -> R w0 w1.
Proof.
  unfold so_slot. cbv zeta.
  repeat match goal with |- context [match ?x with _ => _ end] => destruct x end;
  intro H; try discriminate H; injection H as <- _ _; rclose.
Qed.

Section Bodies.
Variable so : pw -> cfg -> opt -> option str -> pw * opt * option nat.
Variable pi : pw -> cfg -> nat -> pst -> pw * cfg * prc.
Variable initd : pw -> cfg -> pw * cfg.
Hypothesis Hso : forall w c o txt, R w (fst (fst (so w c o txt))).
Hypothesis Hpi : forall w c l p, R w (fst (fst (pi w c l p))).
Hypothesis Hid : forall w c, R w (fst (initd w c)).

Lemma id_loop_R a todo : forall i w c, R a w -> R a (fst (id_loop so pi todo i w c)).
Proof.
  induction todo as [|x todo IH]; intros i w c HR; [exact HR|].
  cbn [id_loop]. fold (id_loop so pi).
  destruct (nth_error (c_opts c) i) as [o|]; [|exact HR].
  cbv zeta.
  match goal with |- context [if ?d then add_diags w ?x else w] =>
    assert (HR1 : R a (if d then add_diags w x else w)) by (destruct d; rclose);
    revert HR1; generalize (if d then add_diags w x else w) end.
  intros w1 HR1.
  destruct (oflag o CFGF_NODEFAULT); [apply IH; exact HR1|].
  destruct (negb (kind_eqb (o_kind o) KSec)).
  - destruct (oflag (o_setf o CFGF_DEFINIT) CFGF_LIST || _).
    + destruct (d_parsed (o_def (o_setf o CFGF_DEFINIT))) as [[|b buf]|].
      * apply IH; exact HR1.
      * match goal with |- context [pi ?x ?b ?c ?d] =>
          assert (H2 : R a (fst (fst (pi x b c d)))) by (eapply R_trans; [|apply Hpi]; rclose);
          destruct (pi x b c d) as [[w2 c2] rc] end.
        unfold fst in H2.
        destruct rc; try (apply IH; rclose). unfold fst. rclose.
      * apply IH; exact HR1.
    + apply IH; exact HR1.
  - destruct (negb (oflag o CFGF_MULTI)); [|apply IH; exact HR1].
    assert (H2 : R a (fst (fst (so w1 c o None)))) by (eapply R_trans; [exact HR1|apply Hso]).
    destruct (so w1 c o None) as [[w2 o1] res]. apply IH. exact H2.
Qed.

Ltac sleaf :=
  lazymatch goal with
  | |- R _ (fst (fst (so_store _ _ _ _))) => unfold so_store, fst; rclose
  | |- R _ (fst (fst (_, _, _))) => unfold fst; rclose
  end.

Ltac sstep :=
  first
  [ sleaf
  | match goal with
    | |- context [match run_parsecb ?w ?k ?o ?t with _ => _ end] =>
        lazymatch goal with |- R ?a _ =>
          let H := fresh "HR" in
          assert (H : R a (fst (run_parsecb w k o t))) by (eapply R_trans; [|apply R_run_parsecb]; rclose);
          destruct (run_parsecb w k o t) as [? ?]; unfold fst in H end
    | |- context [match initd ?w ?c with _ => _ end] =>
        lazymatch goal with |- R ?a _ =>
          let H := fresh "HR" in
          assert (H : R a (fst (initd w c))) by (eapply R_trans; [|apply Hid]; rclose);
          destruct (initd w c) as [? ?]; unfold fst in H end
    end
  | match goal with
    | |- context [match ?x with _ => _ end] => destr_inner x
    end ].

Lemma so_conv_R a c w1 o1 idx txt :
  R a w1 -> R a (fst (fst (so_conv strtod_o initd c w1 o1 idx txt))).
Proof.
  intro HR. unfold so_conv. cbv beta zeta. repeat sstep.
Qed.

Lemma so_body_R a w c o txt : R a w -> R a (fst (fst (so_body strtod_o initd w c o txt))).
Proof.
  intro HR. unfold so_body.
  pose proof (R_so_reset w o) as R0. destruct (so_reset w o) as [w0 o0]. unfold fst in R0.
  assert (HR0 : R a w0) by (eapply R_trans; eassumption).
  destruct (so_slot c w0 o0 txt) as [[[w1 o1] idx]|] eqn:S.
  - apply so_conv_R. eapply R_trans; [exact HR0|]. eapply R_so_slot; exact S.
  - cbv zeta. match goal with |- context [if ?d then _ else _] => destruct d end; unfold fst; rclose.
Qed.

Ltac pleaf :=
  lazymatch goal with
  | |- R _ (fst (fst (pi _ _ _ _))) => eapply R_trans; [|apply Hpi]; rclose
  | |- R _ (fst (fst (_, _, _))) => unfold fst; rclose
  end.

Ltac pstep :=
  first
  [ pleaf
  | match goal with
    | |- context [match handle_deprecated ?w ?c ?r with _ => _ end] =>
        lazymatch goal with |- R ?a _ =>
          let H := fresh "HR" in
          assert (H : R a (fst (handle_deprecated w c r))) by (eapply R_trans; [|apply R_handle_deprecated]; rclose);
          destruct (handle_deprecated w c r) as [? ?]; unfold fst in H end
    | |- context [match lexer_include ?w ?c ?x with _ => _ end] =>
        lazymatch goal with |- R ?a _ =>
          let H := fresh "HR" in
          assert (H : R a (fst (fst (lexer_include w c x)))) by (eapply R_trans; [|apply R_lexer_include]; rclose);
          destruct (lexer_include w c x) as [[? ?] ?]; unfold fst in H end
    | |- context [match so ?w ?c ?o ?t with _ => _ end] =>
        lazymatch goal with |- R ?a _ =>
          let H := fresh "HR" in
          assert (H : R a (fst (fst (so w c o t)))) by (eapply R_trans; [|apply Hso]; rclose);
          destruct (so w c o t) as [[? ?] ?]; unfold fst in H end
    | |- context [match pi ?w ?c ?l ?q with _ => _ end] =>
        lazymatch goal with |- R ?a _ =>
          let H := fresh "HR" in
          assert (H : R a (fst (fst (pi w c l q)))) by (eapply R_trans; [|apply Hpi]; rclose);
          destruct (pi w c l q) as [[? ?] ?]; unfold fst in H end
    | |- context [match run_validcb ?w ?o with _ => _ end] =>
        lazymatch goal with |- R ?a _ =>
          let H := fresh "HR" in
          assert (H : R a (fst (run_validcb w o))) by (eapply R_trans; [|apply R_run_validcb]; rclose);
          destruct (run_validcb w o) as [? ?]; unfold fst in H end
    | |- context [match tick ?w with _ => _ end] =>
        lazymatch goal with |- R ?a _ =>
          let H := fresh "HR" in
          assert (H : R a (fst (tick w))) by (eapply R_trans; [|apply R_tick]; rclose);
          destruct (tick w) as [? ?]; unfold fst in H end
    end
  | match goal with
    | |- context [match ?x with _ => _ end] => destr_inner x
    end ].

Lemma pi_body_R a fl w c level p :
  R a w -> R a (fst (fst (pi_body so pi fl w c level p))).
Proof.
  intros HR. unfold pi_body.
  assert (NT : R a (fst (fst (fst (next_token fl w c))))) by (eapply R_trans; [exact HR|apply R_next_token]).
  destruct (next_token fl w c) as [[[w1 c1] t] yylval]. unfold fst in NT.
  cbv beta zeta. clear HR.
  destruct (s_opt p) as [r0|].
  all: repeat pstep.
Qed.

End Bodies.

Theorem R_all fuel :
  (forall w c o txt, R w (fst (fst (setopt strtod_o fuel w c o txt)))) /\
  (forall w c, R w (fst (init_defaults strtod_o fuel w c))) /\
  (forall w c l p, R w (fst (fst (parse_internal strtod_o fuel w c l p)))).
Proof.
  induction fuel as [|fuel (IHs & IHi & IHp)].
  - split; [|split]; intros.
    + rewrite setopt_O. unfold fst. apply R_oof.
    + rewrite init_defaults_O. unfold fst. apply R_oof.
    + rewrite parse_internal_O. unfold fst. apply R_oof.
  - split; [|split]; intros.
    + rewrite setopt_S. apply so_body_R; [exact IHi|apply R_refl].
    + rewrite init_defaults_S. apply id_loop_R; [exact IHs|exact IHp|apply R_refl].
    + rewrite parse_internal_S. apply pi_body_R; [exact IHs|exact IHp|apply R_refl].
Qed.

End GenericR.
