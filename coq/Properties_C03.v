(* Properties_C03.v — C03: string, escape, environment lexing decode as specified.
   Only statements here; proofs are in DqProofs.v (over the rule table regenerated from lexer.l). *)
From Coq Require Import List Arith NArith Bool.
From Coq.Strings Require Import Byte.
From LC Require Import Bytes Flex LexAct LexRules Consts Lexer LexSpec LexLemmas DqProofs.
Import ListNotations.

(* For every environment, every list of well-formed double-quoted units (ordinary bytes, the eight
   escape letters, \c, 1-3 digit octal up to 0xFF, 1-2 digit hex, continuation, ${NAME} / ${NAME:-default}),
   of any length, whatever follows the closing quote and whatever the scanner's buffers held before:
   cfg_yylex returns one CFGT_STR token whose value is exactly the denotation, consumes exactly the
   literal, counts exactly the line breaks, reports nothing, echoes nothing, and ends in INITIAL. *)
Theorem C03_dq_decodes :
  forall e us st p closed id rest others fuel,
  units_wf us dq = true -> l_sc st = INITIAL -> l_bufs st = (id, dq :: render us ++ dq :: rest) :: others ->
  (S (length us) < fuel)%nat ->
  observe (yylex e fuel st p closed) =
  {| ob_tok := TStr; ob_val := Some (cstr (denote e us)); ob_bufs := (id, rest) :: others;
     ob_sc := INITIAL; ob_line := p_line p + lines_of us; ob_file := p_file p; ob_diags := []; ob_echo := l_echo st;
     ob_inc := l_inc st; ob_closed := closed; ob_oof := false |}.
Proof. exact dq_string_token. Qed.
Print Assumptions C03_dq_decodes.

(* non-vacuity: a concrete literal with every unit kind meets the hypotheses and decodes as expected *)
Example C03_dq_example :
  let us := [UChar x61; ULetter x6e; UOther x71; UOct [x31; x30; x31]; UHex [x34; x31]; UCont;
             UEnv [x48; x3a; x2d; x7a]; UChar x24; UChar x62] in
  units_wf us dq = true /\
  denote [] us = [x61; x0a; x71; x41; x41; x7a; x24; x62].
Proof. vm_compute. split; reflexivity. Qed.
