(* Properties_C09b.v — C09, the getter side: the by-name getters (Getters.v: cfg_getn = cfg_getnint / float /
   bool / str / ptr / sec (cfg, name, index), cfg_gettsec) read back exactly what the setters stored.
   Only statements here; proofs are in GetterProofs.v.

   MODEL  Getters.look / opt_getn / getn_of / cfg_getn / cfg_gettsec; Api.cfg_setn{int,float,bool,str},
          cfg_setlist, cfg_addlist, with_opt; Store.getopt_secidx / cfg_getopt, get_opt, put_opt, upd_opt
   VOCABULARY (GetterProofs.v)
     sk_c c            the lookup skeleton of a tree: of every context its title, flag word, position and error
                       switch; of every option its name, kind and flag word outside RESET|MODIFIED; of a KSec
                       option also the skeletons of its instances.  Values of other options, annotations,
                       defaults, callbacks, sub-option templates and context names are dropped.
     through a b       the reference b lies below the option a: fst b = fst a ++ (snd a, v) :: rest
     inst_upd v g o    o with its v-th value, if an instance, replaced by g of that instance
     slot_of o index   the slot a successful cfg_opt_setn* writes: 0 when RESET is set, the index when it is
                       below the number of values, else the number of values (append)
     int_through o z / float_through o b
                       what the scripted validate2 callback of o hands on (z itself without callback)
     gzero k           the zero of getter k: GInt 0, GFloat 0, GBool false, GStr None, GPtr 0, GSec None
     res_of k r i v    the answer of getter k for slot content v (None: no slot / wrong kind)
     same_reads c' c n for every world, kind, index and title: cfg_getn and cfg_gettsec on name n give the
                       same pair (world, answer) in c' and c
     title_match o t v the comparison cfg_opt_gettsecidx makes against value v; titled v: an instance with a title *)
From Coq Require String.
Import String.StringSyntax.
From Coq Require Import List Arith NArith ZArith Bool.
From Coq.Strings Require Import Byte.
From LC Require Import Bytes Consts Conv Lexer Files Store Parser Api Getters ApiProofs GetterProofs.
Import ListNotations.
Local Open Scope string_scope.
Local Open Scope list_scope.

(* ------------------------------------------------------------------ *)
(* (1) lookup stability                                                 *)
(* ------------------------------------------------------------------ *)

(* the path resolver (reference, index and diagnostics, both cfg_getopt and cfg_getsec mode) is a
   function of the lookup skeleton, at any depth *)
Theorem C09b_lookup_reads_skeleton :
  forall (c1 c2 : cfg), sk_c c1 = sk_c c2 ->
  forall (name : str) (want_index : bool), getopt_secidx c1 name want_index = getopt_secidx c2 name want_index.
Proof. exact lookup_skeleton. Qed.
Print Assumptions C09b_lookup_reads_skeleton.

(* updating in place an option that is not a section option, keeping its name, kind and the flag word
   outside RESET|MODIFIED, leaves every lookup unchanged: same reference AND same diagnostics *)
Theorem C09b_lookup_stable :
  forall (c : cfg) (r : optref) (o o' : opt),
  get_opt c r = Some o -> o_kind o <> KSec ->
  o_name o' = o_name o -> o_kind o' = o_kind o ->
  N.ldiff (o_flags o') RM = N.ldiff (o_flags o) RM ->
  forall (name : str), cfg_getopt (put_opt c r o') name = cfg_getopt c name.
Proof. exact lookup_stable. Qed.
Print Assumptions C09b_lookup_stable.

Theorem C09b_get_put_same :
  forall (c : cfg) (r : optref) (o o' : opt),
  get_opt c r = Some o -> get_opt (put_opt c r o') r = Some o'.
Proof. exact get_opt_put_same. Qed.
Print Assumptions C09b_get_put_same.

(* the right disjointness: r2 is not r, not below r, and not an enclosing section option of r *)
Theorem C09b_get_put_other :
  forall (c : cfg) (r : optref) (o' : opt) (r2 : optref),
  r2 <> r -> ~ through r r2 -> ~ through r2 r ->
  get_opt (put_opt c r o') r2 = get_opt c r2.
Proof. exact get_opt_put_other. Qed.
Print Assumptions C09b_get_put_other.

(* "r2 <> r and nothing below r" is NOT enough: the enclosing section options of r hold the rewritten instance *)
Theorem C09b_get_put_other_refuted :
  exists (c : cfg) (r r2 : optref) (o o' : opt),
    get_opt c r = Some o /\ o_kind o <> KSec /\
    o_name o' = o_name o /\ o_kind o' = o_kind o /\ o_flags o' = o_flags o /\
    r2 <> r /\ ~ through r r2 /\
    get_opt (put_opt c r o') r2 <> get_opt c r2.
Proof. exact get_put_other_needs_disjoint. Qed.
Print Assumptions C09b_get_put_other_refuted.

(* ... what they hold *)
Theorem C09b_get_put_enclosing :
  forall (c : cfg) (r : optref) (o' : opt) (r2 : optref) (o2 : opt),
  through r2 r -> get_opt c r2 = Some o2 ->
  exists v rest, fst r = fst r2 ++ (snd r2, v) :: rest /\
    get_opt (put_opt c r o') r2 = Some (inst_upd v (fun s => put_opt s (rest, snd r) o') o2).
Proof. exact get_opt_put_enclosing. Qed.
Print Assumptions C09b_get_put_enclosing.

(* what cfg_getopt answers resolves, and is never below an option that is not a section option *)
Theorem C09b_lookup_resolves :
  forall (c : cfg) (name : str) (r : optref),
  fst (cfg_getopt c name) = Some r -> ksec_path c (fst r) /\ get_opt c r <> None.
Proof. exact cfg_getopt_ksec. Qed.
Print Assumptions C09b_lookup_resolves.

Theorem C09b_lookup_not_below :
  forall (c : cfg) (name : str) (r2 r : optref) (o : opt),
  fst (cfg_getopt c name) = Some r2 -> get_opt c r = Some o -> o_kind o <> KSec -> ~ through r r2.
Proof. exact cfg_getopt_not_below. Qed.
Print Assumptions C09b_lookup_not_below.

(* ------------------------------------------------------------------ *)
(* (2) get-after-set: the store law                                     *)
(* ------------------------------------------------------------------ *)

(* the getter answers from the value list of the option its name resolves to *)
Theorem C09b_getn_reads :
  forall (w : pw) (c : cfg) (k : kind) (name : str) (i : N) (r : optref) (o : opt),
  fst (cfg_getopt c name) = Some r -> get_opt c r = Some o ->
  snd (cfg_getn w c k name i) =
  res_of k r i (if kind_eqb (o_kind o) k then nth_error (o_vals o) (N.to_nat i) else None).
Proof. exact cfg_getn_read. Qed.
Print Assumptions C09b_getn_reads.

(* cfg_setnint then cfg_getnint: the value (as the validate2 callback let it through) is read at the slot
   setn_algebra names; every other index reads what it read before (zero on a formerly pristine option);
   every other getter reads its zero.  No side condition on the depth of the path. *)
Theorem C09b_get_after_setnint :
  forall (c : cfg) (name : str) (r : optref) (o : opt),
  fst (cfg_getopt c name) = Some r -> get_opt c r = Some o ->
  forall (w : pw) (z : Z) (index : N) (w' : pw) (c' : cfg),
  cfg_setnint w c name z index = (w', c', OK) ->
  forall (w2 : pw),
  snd (cfg_getn w2 c' KInt name (N.of_nat (slot_of o index))) = GInt (int_through o z) /\
  (forall j, j <> slot_of o index ->
     snd (cfg_getn w2 c' KInt name (N.of_nat j)) =
     if oflag o CFGF_RESET then GInt 0 else snd (cfg_getn w2 c KInt name (N.of_nat j))) /\
  (forall kk i, kk <> KInt -> snd (cfg_getn w2 c' kk name i) = gzero kk).
Proof. exact get_after_setnint. Qed.
Print Assumptions C09b_get_after_setnint.

Theorem C09b_get_after_setnfloat :
  forall (c : cfg) (name : str) (r : optref) (o : opt),
  fst (cfg_getopt c name) = Some r -> get_opt c r = Some o ->
  forall (w : pw) (b : N) (index : N) (w' : pw) (c' : cfg),
  cfg_setnfloat w c name b index = (w', c', OK) ->
  forall (w2 : pw),
  snd (cfg_getn w2 c' KFloat name (N.of_nat (slot_of o index))) = GFloat (float_through o b) /\
  (forall j, j <> slot_of o index ->
     snd (cfg_getn w2 c' KFloat name (N.of_nat j)) =
     if oflag o CFGF_RESET then GFloat 0 else snd (cfg_getn w2 c KFloat name (N.of_nat j))) /\
  (forall kk i, kk <> KFloat -> snd (cfg_getn w2 c' kk name i) = gzero kk).
Proof. exact get_after_setnfloat. Qed.
Print Assumptions C09b_get_after_setnfloat.

Theorem C09b_get_after_setnbool :
  forall (c : cfg) (name : str) (r : optref) (o : opt),
  fst (cfg_getopt c name) = Some r -> get_opt c r = Some o ->
  forall (w : pw) (b : bool) (index : N) (w' : pw) (c' : cfg),
  cfg_setnbool w c name b index = (w', c', OK) ->
  forall (w2 : pw),
  snd (cfg_getn w2 c' KBool name (N.of_nat (slot_of o index))) = GBool b /\
  (forall j, j <> slot_of o index ->
     snd (cfg_getn w2 c' KBool name (N.of_nat j)) =
     if oflag o CFGF_RESET then GBool false else snd (cfg_getn w2 c KBool name (N.of_nat j))) /\
  (forall kk i, kk <> KBool -> snd (cfg_getn w2 c' kk name i) = gzero kk).
Proof. exact get_after_setnbool. Qed.
Print Assumptions C09b_get_after_setnbool.

Theorem C09b_get_after_setnstr :
  forall (c : cfg) (name : str) (r : optref) (o : opt),
  fst (cfg_getopt c name) = Some r -> get_opt c r = Some o ->
  forall (w : pw) (s : option str) (index : N) (w' : pw) (c' : cfg),
  cfg_setnstr w c name s index = (w', c', OK) ->
  forall (w2 : pw),
  snd (cfg_getn w2 c' KStr name (N.of_nat (slot_of o index))) = GStr s /\
  (forall j, j <> slot_of o index ->
     snd (cfg_getn w2 c' KStr name (N.of_nat j)) =
     if oflag o CFGF_RESET then GStr None else snd (cfg_getn w2 c KStr name (N.of_nat j))) /\
  (forall kk i, kk <> KStr -> snd (cfg_getn w2 c' kk name i) = gzero kk).
Proof. exact get_after_setnstr. Qed.
Print Assumptions C09b_get_after_setnstr.

(* without a validate2 callback the value is stored as given *)
Theorem C09b_through_nocb :
  forall (o : opt), cb_valid2 (o_cbs o) = None ->
  (forall z, int_through o z = z) /\ (forall b, float_through o b = b).
Proof. exact through_nocb. Qed.
Print Assumptions C09b_through_nocb.

(* the zeros: unknown name, wrong kind, index beyond the values *)
Theorem C09b_get_zeros :
  forall (w : pw) (c : cfg) (k : kind) (name : str) (i : N),
  (fst (cfg_getopt c name) = None -> snd (cfg_getn w c k name i) = gzero k) /\
  (forall r o, fst (cfg_getopt c name) = Some r -> get_opt c r = Some o ->
     (o_kind o <> k -> snd (cfg_getn w c k name i) = gzero k) /\
     ((N.of_nat (length (o_vals o)) <= i)%N -> snd (cfg_getn w c k name i) = gzero k)).
Proof. exact getn_zeros. Qed.
Print Assumptions C09b_get_zeros.

(* the list setters: index i reads element i of the new list *)
Theorem C09b_get_after_setlist :
  forall (w : pw) (c : cfg) (name : str) (r : optref) (o : opt) (vs : list value),
  fst (cfg_getopt c name) = Some r -> get_opt c r = Some o ->
  oflag o CFGF_LIST = true -> scalar_kind (o_kind o) ->
  Forall (fun v => val_kind v = o_kind o) vs ->
  exists w' c', cfg_setlist w c name vs = (w', c', OK) /\
  forall w2 i, snd (cfg_getn w2 c' (o_kind o) name i) =
               res_of (o_kind o) r i (nth_error (map trunc vs) (N.to_nat i)).
Proof. exact get_after_setlist. Qed.
Print Assumptions C09b_get_after_setlist.

Theorem C09b_get_after_addlist :
  forall (w : pw) (c : cfg) (name : str) (r : optref) (o : opt) (vs : list value),
  fst (cfg_getopt c name) = Some r -> get_opt c r = Some o ->
  oflag o CFGF_LIST = true -> scalar_kind (o_kind o) ->
  Forall (fun v => val_kind v = o_kind o) vs ->
  exists w' c', cfg_addlist w c name vs = (w', c', OK) /\
  forall w2 i, snd (cfg_getn w2 c' (o_kind o) name i) =
               res_of (o_kind o) r i (nth_error (o_vals o ++ map trunc vs) (N.to_nat i)).
Proof. exact get_after_addlist. Qed.
Print Assumptions C09b_get_after_addlist.

(* ------------------------------------------------------------------ *)
(* (3) the frame                                                        *)
(* ------------------------------------------------------------------ *)

(* whatever the result code: a name that does not resolve to the option written — another option, an
   enclosing section option, a name that does not resolve at all — reads the same through every getter,
   diagnostics included *)
Theorem C09b_setters_frame :
  forall (w : pw) (c : cfg) (name : str) (w' : pw) (c' : cfg) (rc : Z) (n2 : str),
  (forall r, fst (cfg_getopt c name) = Some r -> fst (cfg_getopt c n2) <> Some r) ->
  (forall z index, cfg_setnint w c name z index = (w', c', rc) -> same_reads c' c n2) /\
  (forall b index, cfg_setnfloat w c name b index = (w', c', rc) -> same_reads c' c n2) /\
  (forall b index, cfg_setnbool w c name b index = (w', c', rc) -> same_reads c' c n2) /\
  (forall s index, cfg_setnstr w c name s index = (w', c', rc) -> same_reads c' c n2) /\
  ((forall r o, fst (cfg_getopt c name) = Some r -> get_opt c r = Some o -> o_kind o <> KSec) ->
   (forall vs, cfg_setlist w c name vs = (w', c', rc) -> same_reads c' c n2) /\
   (forall vs, cfg_addlist w c name vs = (w', c', rc) -> same_reads c' c n2)).
Proof. exact setters_frame. Qed.
Print Assumptions C09b_setters_frame.

(* the general form: any in-place update of a non-section option that keeps its skeleton *)
Theorem C09b_put_frame :
  forall (c : cfg) (r : optref) (o o' : opt),
  get_opt c r = Some o -> o_kind o <> KSec -> sk_o o' = sk_o o ->
  forall (n2 : str), fst (cfg_getopt c n2) <> Some r ->
  forall (w2 : pw),
    (forall k i, cfg_getn w2 (put_opt c r o') k n2 i = cfg_getn w2 c k n2 i) /\
    (forall t, cfg_gettsec w2 (put_opt c r o') n2 t = cfg_gettsec w2 c n2 t).
Proof. exact put_frame. Qed.
Print Assumptions C09b_put_frame.

(* ------------------------------------------------------------------ *)
(* (4) a failed setter is invisible                                     *)
(* ------------------------------------------------------------------ *)

Theorem C09b_failed_setter_reads :
  forall (w : pw) (c : cfg) (name : str) (w' : pw) (c' : cfg),
  (exists z index, cfg_setnint w c name z index = (w', c', FAIL)) \/
  (exists b index, cfg_setnfloat w c name b index = (w', c', FAIL)) \/
  (exists b index, cfg_setnbool w c name b index = (w', c', FAIL)) \/
  (exists s index, cfg_setnstr w c name s index = (w', c', FAIL)) \/
  (exists vs, cfg_setlist w c name vs = (w', c', FAIL)) \/
  (exists vs, cfg_addlist w c name vs = (w', c', FAIL)) ->
  forall (n2 : str), same_reads c' c n2.
Proof. exact failed_setter_reads. Qed.
Print Assumptions C09b_failed_setter_reads.

(* ------------------------------------------------------------------ *)
(* (5) cfg_gettsec                                                      *)
(* ------------------------------------------------------------------ *)

(* the first instance whose title matches (all earlier ones titled and not matching) is returned, by
   position, and cfg_getnsec(name, j) designates the same instance *)
Theorem C09b_gettsec_first :
  forall (w : pw) (c : cfg) (name : str) (r : optref) (o : opt) (t : str),
  fst (cfg_getopt c name) = Some r -> get_opt c r = Some o ->
  forall (j : nat) (v : value),
  o_kind o = KSec -> oflag o CFGF_TITLE = true ->
  nth_error (o_vals o) j = Some v -> title_match o t v = true ->
  (forall m, m < j -> exists v', nth_error (o_vals o) m = Some v' /\ titled v' /\ title_match o t v' = false) ->
  snd (cfg_gettsec w c name t) = Some (fst r ++ [(snd r, j)]) /\
  snd (cfg_getn w c KSec name (N.of_nat j)) = GSec (Some (fst r ++ [(snd r, j)])).
Proof. exact cfg_gettsec_first. Qed.
Print Assumptions C09b_gettsec_first.

Theorem C09b_gettsec_absent :
  forall (w : pw) (c : cfg) (name : str) (r : optref) (o : opt) (t : str),
  fst (cfg_getopt c name) = Some r -> get_opt c r = Some o ->
  (forall v, In v (o_vals o) -> title_match o t v = false) ->
  snd (cfg_gettsec w c name t) = None.
Proof. exact cfg_gettsec_absent. Qed.
Print Assumptions C09b_gettsec_absent.

(* conversely, whatever cfg_gettsec returns is such a first match on a titled section option *)
Theorem C09b_gettsec_some_inv :
  forall (w : pw) (c : cfg) (name : str) (r : optref) (o : opt) (t : str),
  fst (cfg_getopt c name) = Some r -> get_opt c r = Some o ->
  forall (pos : list (nat * nat)),
  snd (cfg_gettsec w c name t) = Some pos ->
  o_kind o = KSec /\ oflag o CFGF_TITLE = true /\
  exists j v, pos = fst r ++ [(snd r, j)] /\ nth_error (o_vals o) j = Some v /\ title_match o t v = true /\
    (forall m, m < j -> exists v', nth_error (o_vals o) m = Some v' /\ titled v' /\ title_match o t v' = false) /\
    snd (cfg_getn w c KSec name (N.of_nat j)) = GSec (Some pos).
Proof. exact cfg_gettsec_some_inv. Qed.
Print Assumptions C09b_gettsec_some_inv.

Theorem C09b_gettsec_unknown :
  forall (w : pw) (c : cfg) (name : str) (t : str),
  fst (cfg_getopt c name) = None -> snd (cfg_gettsec w c name t) = None.
Proof. exact cfg_gettsec_unknown. Qed.
Print Assumptions C09b_gettsec_unknown.

Theorem C09b_gettsec_notitle :
  forall (w : pw) (c : cfg) (name : str) (r : optref) (o : opt) (t : str),
  fst (cfg_getopt c name) = Some r -> get_opt c r = Some o ->
  oflag o CFGF_TITLE = false -> snd (cfg_gettsec w c name t) = None.
Proof. exact cfg_gettsec_notitle. Qed.
Print Assumptions C09b_gettsec_notitle.

(* ------------------------------------------------------------------ *)
(* (6) a concrete tree                                                  *)
(* ------------------------------------------------------------------ *)
Module ExB.
Definition B := bs_of_string.
Definition w0 := ex_w0.
Definition mk (n : String.string) (k : kind) (fl : N) (vs : list value) : opt := Opt (B n) k fl vs [] defv0 None cbset0.
Definition oi := mk "i" KInt 0 [VInt 7].
(* a pristine list: two declared defaults, LIST|RESET *)
Definition ol := Opt (B "l") KInt 66 [VInt 1; VInt 2] [] defv0 (Some (B "note")) cbset0.
Definition os := mk "str" KStr 0 [VStr (Some (B "hi"))].
Definition ob := mk "b" KBool 0 [VBool false].
Definition of_ := mk "f" KFloat 0 [VFloat 0].
(* an int with the scripted validate2 callback 1 (hands on the absolute value) *)
Definition ov := Opt (B "v") KInt 0 [VInt 3] [] defv0 None
   {| cb_parse := None; cb_valid := None; cb_valid2 := Some 1%N; cb_print := None; cb_free := false; cb_func := None |}.
Definition inst (nm : String.string) (t : option str) (a : Z) : cfg :=
  Cfg (B nm) t 0 [mk "a" KInt 0 [VInt a]; mk "l" KInt 2 [VInt 10; VInt 20; VInt 30]] None 0 true None.
Definition osec := mk "s" KSec 0 [VSec (Some (inst "s" None 5))].
Definition om := mk "m" KSec 1 [VSec (Some (inst "m" None 50)); VSec (Some (inst "m" None 51))].
Definition ot := mk "t" KSec 9 [VSec (Some (inst "t" (Some (B "one")) 100)); VSec (Some (inst "t" (Some (B "two")) 200))].
Definition c1 := Cfg (B "root") None 0 [oi; ol; os; ob; of_; ov; osec; om; ot] None 0 true None.
Definition rd (c : cfg) (k : kind) (n : String.string) (i : N) : gres := snd (cfg_getn w0 c k (B n) i).
Definition after (r : pw * cfg * Z) : cfg := snd (fst r).

(* the hypotheses of (2) are satisfiable at depth 0, through a plain section, an indexed and a titled one *)
Example C09b_ex_hyps :
  fst (cfg_getopt c1 (B "i")) = Some ([], 0) /\ get_opt c1 ([], 0) = Some oi /\ cb_valid2 (o_cbs oi) = None /\
  fst (cfg_getopt c1 (B "l")) = Some ([], 1) /\ get_opt c1 ([], 1) = Some ol /\ oflag ol CFGF_RESET = true /\
  fst (cfg_getopt c1 (B "s|a")) = Some ([(6, 0)], 0) /\
  get_opt c1 ([(6, 0)], 0) = Some (mk "a" KInt 0 [VInt 5]) /\
  fst (cfg_getopt c1 (B "m=1|a")) = Some ([(7, 1)], 0) /\
  get_opt c1 ([(7, 1)], 0) = Some (mk "a" KInt 0 [VInt 51]) /\
  fst (cfg_getopt c1 (B "t=two|l")) = Some ([(8, 1)], 1) /\
  fst (cfg_getopt c1 (B "t")) = Some ([], 8) /\ get_opt c1 ([], 8) = Some ot /\ oflag ot CFGF_TITLE = true.
Proof. vm_compute. repeat split; reflexivity. Qed.

(* a scalar: set, then read through every getter; an index beyond the value and an unknown name read zero *)
Example C09b_ex_scalar :
  let r := cfg_setnint w0 c1 (B "i") 9 0 in
  snd r = OK /\ slot_of oi 0 = 0 /\
  rd (after r) KInt "i" 0 = GInt 9 /\ rd (after r) KInt "i" 1 = GInt 0 /\
  rd (after r) KStr "i" 0 = GStr None /\ rd (after r) KFloat "i" 0 = GFloat 0 /\
  rd (after r) KBool "i" 0 = GBool false /\ rd (after r) KPtr "i" 0 = GPtr 0 /\ rd (after r) KSec "i" 0 = GSec None /\
  rd (after r) KInt "nosuch" 0 = GInt 0 /\
  rd (after r) KStr "str" 0 = GStr (Some (B "hi")) /\ rd (after r) KInt "l" 1 = GInt 2.
Proof. vm_compute. repeat split; reflexivity. Qed.

Example C09b_ex_typed :
  rd (after (cfg_setnstr w0 c1 (B "str") (Some (B "yo")) 0)) KStr "str" 0 = GStr (Some (B "yo")) /\
  rd (after (cfg_setnstr w0 c1 (B "str") None 0)) KStr "str" 0 = GStr None /\
  rd (after (cfg_setnbool w0 c1 (B "b") true 0)) KBool "b" 0 = GBool true /\
  rd (after (cfg_setnfloat w0 c1 (B "f") 4607182418800017408 0)) KFloat "f" 0 = GFloat 4607182418800017408.
Proof. vm_compute. repeat split; reflexivity. Qed.

(* a list with declared defaults (RESET set): the write goes to slot 0 whatever the index, the defaults are gone *)
Example C09b_ex_pristine_list :
  let r := cfg_setnint w0 c1 (B "l") 9 1 in
  snd r = OK /\ slot_of ol 1 = 0 /\
  rd (after r) KInt "l" 0 = GInt 9 /\ rd (after r) KInt "l" 1 = GInt 0 /\ rd c1 KInt "l" 1 = GInt 2.
Proof. vm_compute. repeat split; reflexivity. Qed.

(* the callback's value is what is read back *)
Example C09b_ex_validate2 :
  let r := cfg_setnint w0 c1 (B "v") (-5) 0 in
  snd r = OK /\ int_through ov (-5) = 5%Z /\ rd (after r) KInt "v" 0 = GInt 5.
Proof. vm_compute. repeat split; reflexivity. Qed.

(* inside a section reached by a path: the write is read back under the same path; the sibling list, the
   other instance, the enclosing section option and the root options read as before *)
Example C09b_ex_paths :
  let r := cfg_setnint w0 c1 (B "s|a") 42 0 in
  snd r = OK /\ rd (after r) KInt "s|a" 0 = GInt 42 /\ rd (after r) KInt "s|l" 1 = GInt 20 /\
  rd (after r) KSec "s" 0 = GSec (Some [(6, 0)]) /\ rd (after r) KInt "i" 0 = GInt 7 /\
  let r2 := cfg_setnint w0 c1 (B "m=1|a") 43 0 in
  snd r2 = OK /\ rd (after r2) KInt "m=1|a" 0 = GInt 43 /\ rd (after r2) KInt "m=0|a" 0 = GInt 50 /\
  rd (after r2) KSec "m" 1 = GSec (Some [(7, 1)]) /\
  let r3 := cfg_setnint w0 c1 (B "t=two|l") 9 5 in
  snd r3 = OK /\ slot_of (mk "l" KInt 2 [VInt 10; VInt 20; VInt 30]) 5 = 3 /\
  rd (after r3) KInt "t=two|l" 3 = GInt 9 /\ rd (after r3) KInt "t=two|l" 2 = GInt 30 /\
  rd (after r3) KInt "t=two|l" 4 = GInt 0 /\ rd (after r3) KInt "t=one|l" 3 = GInt 0.
Proof. vm_compute. repeat split; reflexivity. Qed.

(* a failed setter (wrong kind; index on a plain option): same tree *)
Example C09b_ex_failed :
  snd (cfg_setnint w0 c1 (B "str") 1 0) = FAIL /\ after (cfg_setnint w0 c1 (B "str") 1 0) = c1 /\
  snd (cfg_setnint w0 c1 (B "i") 1 3) = FAIL /\ after (cfg_setnint w0 c1 (B "i") 1 3) = c1.
Proof. vm_compute. repeat split; reflexivity. Qed.

(* cfg_gettsec and cfg_getnsec agree on the position; an unknown title gives NULL; so does a write below *)
Example C09b_ex_gettsec :
  snd (cfg_gettsec w0 c1 (B "t") (B "two")) = Some [(8, 1)] /\ rd c1 KSec "t" 1 = GSec (Some [(8, 1)]) /\
  snd (cfg_gettsec w0 c1 (B "t") (B "zz")) = None /\ snd (cfg_gettsec w0 c1 (B "m") (B "two")) = None /\
  snd (cfg_gettsec w0 (after (cfg_setnint w0 c1 (B "t=two|a") 1 0)) (B "t") (B "two")) = Some [(8, 1)].
Proof. vm_compute. repeat split; reflexivity. Qed.
End ExB.
