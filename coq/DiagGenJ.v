(* DiagGenJ.v — a second generic closure theorem, for properties that relate the world to the
   position (file, line) of the context on whose behalf the parser is working:
   Rw is a preorder on worlds, J w c says that c is an acceptable current context in world w. *)
From Coq Require String.
Import String.StringSyntax.
From Coq Require Import List Arith NArith ZArith Bool Lia.
From Coq.Strings Require Import Byte.
From LC Require Import Bytes Consts Conv Flex LexAct Lexer Files Store Parser HdrProofs ApiProofs BalanceProofs
     PathProofs DiagGen DiagProofs.
Import ListNotations.
Local Open Scope string_scope.
Local Open Scope list_scope.

(* ---------- the position of a context ---------- *)
Lemma c_pos_set_opts c o : c_pos (set_opts c o) = c_pos c. Proof. destruct c; reflexivity. Qed.
Lemma c_pos_set_err c e : c_pos (set_err c e) = c_pos c. Proof. destruct c; reflexivity. Qed.
Lemma c_pos_upd_sec c steps f : (forall s, c_pos (f s) = c_pos s) -> c_pos (upd_sec c steps f) = c_pos c.
Proof. intro H. destruct steps as [|[i v] r]; cbn [upd_sec]; [apply H|apply c_pos_set_opts]. Qed.
Lemma c_pos_upd_opt c r f : c_pos (upd_opt c r f) = c_pos c.
Proof. unfold upd_opt. apply c_pos_upd_sec. intro s. apply c_pos_set_opts. Qed.
Lemma c_pos_put_opt c r o : c_pos (put_opt c r o) = c_pos c.
Proof. apply c_pos_upd_opt. Qed.

#[export] Hint Rewrite c_pos_set_opts c_pos_set_err c_pos_upd_opt c_pos_put_opt : cpos.

Lemma c_pos_handle_deprecated w c r : c_pos (snd (handle_deprecated w c r)) = c_pos c.
Proof.
  unfold handle_deprecated. destruct (get_opt c r) as [o|]; [|reflexivity].
  destruct (oflag o CFGF_DEPRECATED); [|reflexivity].
  destruct (oflag o CFGF_DROP); [|reflexivity].
  destruct (free_value o) as [o1 fr]. unfold snd. apply c_pos_put_opt.
Qed.

Lemma c_pos_addopt c k : c_pos (fst (addopt c k)) = c_pos c.
Proof. unfold addopt, fst. apply c_pos_set_opts. Qed.

Lemma c_pos_sec_enter c s : c_file c <> None -> c_pos (sec_enter c s) = c_pos c.
Proof.
  intro H. unfold sec_enter. cbv zeta. destruct (c_file c) as [fn|] eqn:Ef; [|congruence].
  destruct c as [n t fl o fi l e pf], s as [n' t' fl' o' fi' l' e' pf'].
  cbn [c_file c_line c_err set_err set_line set_file c_pos] in *. subst fi.
  destruct fi' as [sf|]; [|reflexivity].
  destruct (str_eqb sf fn) eqn:E; [|reflexivity]. apply str_eqb_eq in E. subst. reflexivity.
Qed.

(* ---------- the diagnostics of the resolver are issued on behalf of the root context ---------- *)
Lemma loop_diags : forall f root sec steps name wi last index,
  rs_diags (secidx_loop f root sec steps name wi last index) = [] \/
  exists m, rs_diags (secidx_loop f root sec steps name wi last index) = cfg_diag root m.
Proof.
  induction f as [|f IH]; intros root sec steps name wi last index; [left; reflexivity|].
  rewrite secidx_loop_eq.
  assert (Hmal : forall (X : list diag), X = (if cflag root CFGF_IGNORE_UNKNOWN then [] else cfg_diag root "no such option '%s'") ->
                 X = [] \/ exists m, X = cfg_diag root m).
  { intros X ->. destruct (cflag root CFGF_IGNORE_UNKNOWN); [left; reflexivity|right; eexists; reflexivity]. }
  assert (Hfin : forall nm, rs_diags (finish_r root sec steps wi last index nm) = [] \/
                            exists m, rs_diags (finish_r root sec steps wi last index nm) = cfg_diag root m).
  { intro nm. unfold finish_r. destruct wi; [left; reflexivity|]. destruct nm; [apply Hmal; reflexivity|].
    destruct (getopt_leaf sec (b :: nm)); [left; reflexivity|]. cbn [rs_diags].
    destruct (negb _ && negb _); [right; eexists; reflexivity|left; reflexivity]. }
  destruct name as [|c0 n0]; [apply Hfin|].
  cbv beta iota zeta.
  destruct (negb wi && _); [apply Hfin|].
  destruct (Nat.eqb _ 0); [apply Hmal; reflexivity|].
  destruct (mtuple _ _ _ _ _) as [[[[oi i] t] name1] len1].
  destruct (msec sec oi i) as [[[k v] s]|].
  - match goal with |- context [if ?b then _ else _] => destruct b end; [apply Hmal; reflexivity|apply IH].
  - cbn [rs_diags]. unfold mdiag. destruct (cflag root CFGF_IGNORE_UNKNOWN); [left; reflexivity|].
    destruct oi as [k|].
    + destruct (nth_error (c_opts sec) k) as [o|]; [|left; reflexivity].
      destruct (negb (oflag o CFGF_MULTI)); [right; eexists; reflexivity|].
      destruct t; right; eexists; reflexivity.
    + destruct t; right; eexists; reflexivity.
Qed.

Lemma getopt_diags c name ro ds : cfg_getopt c name = (ro, ds) -> ds = [] \/ exists m, ds = cfg_diag c m.
Proof.
  unfold cfg_getopt, getopt_secidx. destruct name as [|c0 n0].
  - intro H. injection H as _ <-. left; reflexivity.
  - intro H. apply (f_equal snd) in H. unfold snd in H. rewrite <- H. apply loop_diags.
Qed.

Section GenericJ.
Variable strtod_o : str -> strtod_res.
Variable Rw : pw -> pw -> Prop.
Variable J : pw -> cfg -> Prop.
Hypothesis Rw_refl : forall w, Rw w w.
Hypothesis Rw_trans : forall a b c, Rw a b -> Rw b c -> Rw a c.
Hypothesis J_Rw : forall w w' c, Rw w w' -> J w c -> J w' c.
Hypothesis J_pos : forall w c c', c_pos c' = c_pos c -> J w c -> J w c'.
Hypothesis J_file : forall w c, J w c -> c_file c <> None.
Hypothesis J_join : forall w c s, J w c -> J w s -> J w (set_line c (c_line s)).
Hypothesis Rw_diag : forall w c m, J w c -> Rw w (add_diags w (cfg_diag c m)).
Hypothesis Rw_cb : forall w e, Rw w (add_cb w e).
Hypothesis Rw_cnt : forall w n, Rw w (set_cnt w n).
Hypothesis Rw_nextptr : forall w n, Rw w (set_nextptr w n).
Hypothesis Rw_crash : forall w k, Rw w (set_crash w k).
Hypothesis Rw_oof : forall w, Rw w (set_oof w).
Hypothesis Rw_begin : forall w buf, Rw w (upd_lex w (scan_begin (w_lex w) buf)).
Hypothesis Rw_bracket : forall w buf w2,
  Rw (upd_lex w (scan_begin (w_lex w) buf)) w2 -> Rw w (upd_lex w2 (scan_end (w_lex w2))).
Hypothesis J_bracket : forall w c buf w2 c2, J w c ->
  Rw (upd_lex w (scan_begin (w_lex w) buf)) w2 -> J w2 c2 -> J (upd_lex w2 (scan_end (w_lex w2))) c2.
Hypothesis NT : forall fl w c w1 c1 t v, J w c -> next_token fl w c = (w1, c1, t, v) -> Rw w w1 /\ J w1 c1.
Hypothesis INC : forall w c a w1 c1 f, J w c -> lexer_include w c a = (w1, c1, f) -> Rw w w1 /\ J w1 c1.

Lemma Rw_log_frees ids : forall w, Rw w (log_frees w ids).
Proof.
  unfold log_frees. induction ids as [|i ids IH]; intro w; cbn [fold_left]; [apply Rw_refl|].
  eapply Rw_trans; [apply Rw_cb|apply IH].
Qed.

(* J x c for a context c whose position is that of a context known to be good in x *)
Ltac cpos_solve := autorewrite with cpos; first [reflexivity | congruence].

Ltac jbase :=
  match goal with
  | H : J ?x ?c |- J ?x ?c => exact H
  | H : J ?x ?c0 |- J ?x ?c => apply (J_pos x c0 c); [cpos_solve | exact H]
  | |- J ?x (set_line ?c (c_line ?s)) => apply J_join; jbase
  | |- J ?x (sec_enter ?c ?s) =>
      let HJ := fresh "HJ" in
      assert (HJ : J x c) by jbase;
      apply (J_pos x c (sec_enter c s)); [apply c_pos_sec_enter; exact (J_file _ _ HJ) | exact HJ]
  | H : Rw ?x0 ?x |- J ?x ?c => apply (J_Rw x0 x c H); jbase
  end.

Ltac rclose :=
  lazymatch goal with
  | H : Rw ?a ?x |- Rw ?a ?x => exact H
  | |- Rw ?a ?a => apply Rw_refl
  | |- Rw ?a (add_diags ?x (cfg_diag ?c _)) => apply (Rw_trans a x); [rclose | apply Rw_diag; jclose]
  | |- Rw ?a (add_cb ?x _) => apply (Rw_trans a x); [rclose | apply Rw_cb]
  | |- Rw ?a (set_cnt ?x _) => apply (Rw_trans a x); [rclose | apply Rw_cnt]
  | |- Rw ?a (set_nextptr ?x _) => apply (Rw_trans a x); [rclose | apply Rw_nextptr]
  | |- Rw ?a (set_crash ?x _) => apply (Rw_trans a x); [rclose | apply Rw_crash]
  | |- Rw ?a (set_oof ?x) => apply (Rw_trans a x); [rclose | apply Rw_oof]
  | |- Rw ?a (log_frees ?x _) => apply (Rw_trans a x); [rclose | apply Rw_log_frees]
  | |- Rw ?a (if ?b then _ else _) => destruct b; rclose
  | |- Rw ?a (match ?b with _ => _ end) => destruct b; rclose
  end
with jclose :=
  lazymatch goal with
  | |- J (add_diags ?x (cfg_diag ?c ?m)) ?c' =>
      apply (J_Rw x (add_diags x (cfg_diag c m)) c'); [apply Rw_diag; jclose | jclose]
  | |- J (add_cb ?x ?e) ?c' => apply (J_Rw x (add_cb x e) c'); [apply Rw_cb | jclose]
  | |- J (set_cnt ?x ?e) ?c' => apply (J_Rw x (set_cnt x e) c'); [apply Rw_cnt | jclose]
  | |- J (set_nextptr ?x ?e) ?c' => apply (J_Rw x (set_nextptr x e) c'); [apply Rw_nextptr | jclose]
  | |- J (set_crash ?x ?e) ?c' => apply (J_Rw x (set_crash x e) c'); [apply Rw_crash | jclose]
  | |- J (set_oof ?x) ?c' => apply (J_Rw x (set_oof x) c'); [apply Rw_oof | jclose]
  | |- J (log_frees ?x ?e) ?c' => apply (J_Rw x (log_frees x e) c'); [apply Rw_log_frees | jclose]
  | |- J (if ?b then _ else _) _ => destruct b; jclose
  | |- J (match ?b with _ => _ end) _ => destruct b; jclose
  | |- _ => jbase
  end.

Lemma Rw_tick w : Rw w (fst (tick w)).
Proof. unfold tick, fst. rclose. Qed.

Lemma Rw_run_validcb w o : Rw w (fst (run_validcb w o)).
Proof.
  unfold run_validcb. destruct (cb_valid (o_cbs o)); [|apply Rw_refl].
  unfold tick, fst. rclose.
Qed.

Lemma Rw_run_parsecb w k o v : Rw w (fst (run_parsecb w k o v)).
Proof. unfold run_parsecb, tick, fst. rclose. Qed.

Lemma Rw_handle_deprecated w c r : J w c -> Rw w (fst (handle_deprecated w c r)).
Proof.
  intro HJ. unfold handle_deprecated. destruct (get_opt c r) as [o|]; [|apply Rw_refl].
  destruct (oflag o CFGF_DEPRECATED); [|apply Rw_refl].
  destruct (oflag o CFGF_DROP); [|unfold fst; rclose].
  destruct (free_value o) as [o1 fr]. unfold fst. rclose.
Qed.

Lemma Rw_so_reset w o : Rw w (fst (so_reset w o)).
Proof.
  unfold so_reset. destruct (oflag o CFGF_RESET); [|apply Rw_refl].
  destruct (free_value o) as [x fr]. unfold fst. rclose.
Qed.

Lemma Rw_so_slot c w0 o0 txt w1 o1 idx : so_slot c w0 o0 txt = Some (w1, o1, idx) -> Rw w0 w1.
Proof.
  unfold so_slot. cbv zeta.
  repeat match goal with |- context [match ?x with _ => _ end] => destruct x end;
  intro H; try discriminate H; injection H as <- _ _; rclose.
Qed.

Section Bodies.
Variable so : pw -> cfg -> opt -> option str -> pw * opt * option nat.
Variable pi : pw -> cfg -> nat -> pst -> pw * cfg * prc.
Variable initd : pw -> cfg -> pw * cfg.
Hypothesis Hso : forall w c o txt, J w c -> Rw w (fst (fst (so w c o txt))).
Hypothesis Hpi : forall w c l p, J w c ->
  Rw w (fst (fst (pi w c l p))) /\ J (fst (fst (pi w c l p))) (snd (fst (pi w c l p))).
Hypothesis Hid : forall w c, J w c -> Rw w (fst (initd w c)) /\ J (fst (initd w c)) (snd (initd w c)).

(* ---- cfg_init_defaults ---- *)
Lemma id_loop_J a todo : forall i w c, Rw a w -> J w c ->
  Rw a (fst (id_loop so pi todo i w c)) /\ J (fst (id_loop so pi todo i w c)) (snd (id_loop so pi todo i w c)).
Proof.
  induction todo as [|x todo IH]; intros i w c HR HJ; [split; assumption|].
  cbn [id_loop]. fold (id_loop so pi).
  destruct (nth_error (c_opts c) i) as [o|]; [|split; assumption].
  cbv zeta.
  match goal with |- context [if ?d then add_diags w ?x else w] =>
    assert (HR1 : Rw a (if d then add_diags w x else w)) by (destruct d; rclose);
    assert (HJ1 : J (if d then add_diags w x else w) c) by (destruct d; jclose);
    revert HR1 HJ1; generalize (if d then add_diags w x else w) end.
  clear HR HJ. intros w1 HR1 HJ1.
  destruct (oflag o CFGF_NODEFAULT); [apply IH; assumption|].
  destruct (negb (kind_eqb (o_kind o) KSec)).
  - destruct (oflag (o_setf o CFGF_DEFINIT) CFGF_LIST || _).
    + destruct (d_parsed (o_def (o_setf o CFGF_DEFINIT))) as [[|b buf]|].
      * apply IH; [assumption|jclose].
      * match goal with |- context [pi ?x ?cc ?l ?q] =>
          assert (HJ2 : J x cc) by (eapply J_Rw; [apply Rw_begin|jclose]);
          destruct (Hpi x cc l q HJ2) as [H2 H3];
          destruct (pi x cc l q) as [[w2 c2] rc] end.
        unfold fst, snd in H2, H3.
        assert (HR3 : Rw w1 (upd_lex w2 (scan_end (w_lex w2)))) by (eapply Rw_bracket; exact H2).
        assert (HR4 : Rw a (upd_lex w2 (scan_end (w_lex w2)))) by (eapply Rw_trans; eassumption).
        assert (HJ3 : J (upd_lex w2 (scan_end (w_lex w2))) c2) by (eapply J_bracket; [exact HJ1|exact H2|exact H3]).
        destruct rc; try (apply IH; [exact HR4|jclose]).
        unfold fst, snd. split; [rclose|jclose].
      * apply IH; [assumption|jclose].
    + apply IH; [assumption|jclose].
  - destruct (negb (oflag o CFGF_MULTI)); [|apply IH; assumption].
    pose proof (Hso w1 c o None HJ1) as H2.
    destruct (so w1 c o None) as [[w2 o1] res]. unfold fst in H2. apply IH.
    + eapply Rw_trans; eassumption.
    + assert (HJ2 : J w2 c) by (eapply J_Rw; eassumption). jclose.
Qed.

(* ---- cfg_setopt ---- *)
Ltac sleaf :=
  lazymatch goal with
  | |- Rw _ (fst (fst (so_store _ _ _ _))) => unfold so_store, fst; rclose
  | |- Rw _ (fst (fst (_, _, _))) => unfold fst; rclose
  end.

Ltac sstep :=
  first
  [ sleaf
  | match goal with
    | |- context [match run_parsecb ?w ?k ?o ?t with _ => _ end] =>
        lazymatch goal with |- Rw ?a _ =>
          let H := fresh "HR" in let HJ := fresh "HJ" in
          assert (H : Rw a (fst (run_parsecb w k o t))) by (eapply Rw_trans; [|apply Rw_run_parsecb]; rclose);
          assert (HJ : J w = J w -> Rw w (fst (run_parsecb w k o t))) by (intros _; apply Rw_run_parsecb);
          specialize (HJ eq_refl);
          destruct (run_parsecb w k o t) as [? ?]; unfold fst in H, HJ end
    | |- context [match initd ?w ?c with _ => _ end] =>
        lazymatch goal with |- Rw ?a _ =>
          let H := fresh "HR" in let HJ := fresh "HJ" in
          assert (HJ : J w c) by jclose;
          assert (H : Rw a (fst (initd w c))) by (eapply Rw_trans; [|apply (Hid w c HJ)]; rclose);
          destruct (initd w c) as [? ?]; unfold fst in H end
    end
  | match goal with
    | |- context [match ?x with _ => _ end] => destr_inner x
    end ].

Lemma so_conv_J a c w1 o1 idx txt :
  Rw a w1 -> J w1 c -> Rw a (fst (fst (so_conv strtod_o initd c w1 o1 idx txt))).
Proof.
  intros HR HJ. unfold so_conv. cbv beta zeta. repeat sstep.
Qed.

Lemma so_body_J a w c o txt : Rw a w -> J w c -> Rw a (fst (fst (so_body strtod_o initd w c o txt))).
Proof.
  intros HR HJ. unfold so_body.
  pose proof (Rw_so_reset w o) as R0. destruct (so_reset w o) as [w0 o0]. unfold fst in R0.
  assert (HR0 : Rw a w0) by (eapply Rw_trans; eassumption).
  assert (HJ0 : J w0 c) by (exact (J_Rw _ _ _ R0 HJ)).
  destruct (so_slot c w0 o0 txt) as [[[w1 o1] idx]|] eqn:S.
  - pose proof (Rw_so_slot _ _ _ _ _ _ _ S) as R1. apply so_conv_J.
    + exact (Rw_trans _ _ _ HR0 R1).
    + exact (J_Rw _ _ _ R1 HJ0).
  - cbv zeta. match goal with |- context [if ?d then _ else _] => destruct d end; unfold fst; rclose.
Qed.

(* ---- cfg_parse_internal ---- *)
Definition QJ (a : pw) (res : pw * cfg * prc) : Prop :=
  Rw a (fst (fst res)) /\ J (fst (fst res)) (snd (fst res)).

Ltac pleaf :=
  lazymatch goal with
  | |- QJ ?a (pi ?w ?c ?l ?q) =>
      unfold QJ;
      let HJ := fresh "HJ" in let A := fresh "A" in let B := fresh "B" in
      assert (HJ : J w c) by jclose;
      destruct (Hpi w c l q HJ) as [A B];
      split; [eapply Rw_trans; [|exact A]; rclose | exact B]
  | |- QJ _ (_, _, _) => unfold QJ, fst, snd; split; [rclose | jclose]
  end.

Ltac pstep :=
  first
  [ pleaf
  | match goal with
    | |- context [match handle_deprecated ?w ?c ?r with _ => _ end] =>
        lazymatch goal with |- QJ ?a _ =>
          let H := fresh "HR" in let HJ := fresh "HJ" in let HJ2 := fresh "HJ" in let HP := fresh "HP" in
          assert (HJ : J w c) by jclose;
          assert (H : Rw a (fst (handle_deprecated w c r)))
            by (eapply Rw_trans; [|apply (Rw_handle_deprecated w c r HJ)]; rclose);
          assert (HJ2 : J (fst (handle_deprecated w c r)) c)
            by (eapply J_Rw; [apply (Rw_handle_deprecated w c r HJ)|exact HJ]);
          pose proof (c_pos_handle_deprecated w c r) as HP;
          destruct (handle_deprecated w c r) as [? ?]; unfold fst, snd in H, HJ2, HP end
    | |- context [match lexer_include ?w ?c ?x with _ => _ end] =>
        lazymatch goal with |- QJ ?a _ =>
          let H := fresh "HR" in let HJ := fresh "HJ" in let HJ2 := fresh "HJ" in let E := fresh "E" in
          assert (HJ : J w c) by jclose;
          destruct (lexer_include w c x) as [[? ?] ?] eqn:E;
          destruct (INC _ _ _ _ _ _ HJ E) as [H HJ2];
          assert (Rw a _) by (eapply Rw_trans; [|exact H]; rclose) end
    | |- context [match addopt ?c ?x with _ => _ end] =>
        let HP := fresh "HP" in
        pose proof (c_pos_addopt c x) as HP;
        destruct (addopt c x) as [? ?]; unfold fst in HP
    | |- context [match cfg_getopt ?c ?x with _ => _ end] =>
        let E := fresh "E" in let m := fresh "m" in
        destruct (cfg_getopt c x) as [? ?] eqn:E;
        destruct (getopt_diags _ _ _ _ E) as [->|[m ->]]; rewrite ?add_diags_nil
    | |- context [match so ?w ?c ?o ?t with _ => _ end] =>
        lazymatch goal with |- QJ ?a _ =>
          let H := fresh "HR" in let HJ := fresh "HJ" in let HJ2 := fresh "HJ" in
          assert (HJ : J w c) by jclose;
          assert (H : Rw a (fst (fst (so w c o t)))) by (eapply Rw_trans; [|apply (Hso w c o t HJ)]; rclose);
          assert (HJ2 : J (fst (fst (so w c o t))) c) by (eapply J_Rw; [apply (Hso w c o t HJ)|exact HJ]);
          destruct (so w c o t) as [[? ?] ?]; unfold fst in H, HJ2 end
    | |- context [match pi ?w ?c ?l ?q with _ => _ end] =>
        lazymatch goal with |- QJ ?a _ =>
          let H := fresh "HR" in let HJ := fresh "HJ" in let HJ2 := fresh "HJ" in let HJ3 := fresh "HJ" in
          let A := fresh "A" in
          assert (HJ : J w c) by jclose;
          destruct (Hpi w c l q HJ) as [A HJ2];
          assert (H : Rw a (fst (fst (pi w c l q)))) by (eapply Rw_trans; [|exact A]; rclose);
          match type of HJ with J _ (sec_enter ?c1 _) =>
            assert (HJ3 : J (fst (fst (pi w c l q))) c1) by (eapply J_Rw; [exact A|jclose]) end;
          destruct (pi w c l q) as [[? ?] ?]; unfold fst, snd in H, HJ2, HJ3 end
    | |- context [match run_validcb ?w ?o with _ => _ end] =>
        lazymatch goal with |- QJ ?a _ =>
          let H := fresh "HR" in let HJ := fresh "HJ" in
          assert (H : Rw a (fst (run_validcb w o))) by (eapply Rw_trans; [|apply Rw_run_validcb]; rclose);
          assert (HJ : J w = J w -> Rw w (fst (run_validcb w o))) by (intros _; apply Rw_run_validcb);
          specialize (HJ eq_refl);
          destruct (run_validcb w o) as [? ?]; unfold fst in H, HJ end
    | |- context [match tick ?w with _ => _ end] =>
        lazymatch goal with |- QJ ?a _ =>
          let H := fresh "HR" in let HJ := fresh "HJ" in
          assert (H : Rw a (fst (tick w))) by (eapply Rw_trans; [|apply Rw_tick]; rclose);
          assert (HJ : J w = J w -> Rw w (fst (tick w))) by (intros _; apply Rw_tick);
          specialize (HJ eq_refl);
          destruct (tick w) as [? ?]; unfold fst in H, HJ end
    end
  | match goal with
    | |- context [match ?x with _ => _ end] => destr_inner x
    end ].

Lemma pi_body_J a fl w c level p :
  Rw a w -> J w c ->
  Rw a (fst (fst (pi_body so pi fl w c level p))) /\
  J (fst (fst (pi_body so pi fl w c level p))) (snd (fst (pi_body so pi fl w c level p))).
Proof.
  intros HR HJ. change (QJ a (pi_body so pi fl w c level p)). unfold pi_body.
  destruct (next_token fl w c) as [[[w1 c1] t] yylval] eqn:ENT.
  destruct (NT _ _ _ _ _ _ _ HJ ENT) as [NR NJ].
  assert (HR1 : Rw a w1) by (eapply Rw_trans; eassumption).
  clear HR HJ NR ENT.
  cbv beta zeta.
  change (match c_file ?c1 with
          | Some fn => match c_file (set_err (set_line ?sec (c_line ?c1)) (c_err ?c1)) with
                       | Some sf => if str_eqb sf fn then set_err (set_line ?sec (c_line ?c1)) (c_err ?c1)
                                    else set_file (set_err (set_line ?sec (c_line ?c1)) (c_err ?c1)) (Some fn)
                       | None => set_file (set_err (set_line ?sec (c_line ?c1)) (c_err ?c1)) (Some fn) end
          | None => set_err (set_line ?sec (c_line ?c1)) (c_err ?c1) end) with (sec_enter c1 sec).
  destruct t as [| |ch| |]; cbv iota; rewrite ?n125_case.
  all: destruct (s_opt p) as [r0|].
  all: repeat pstep.
Qed.

End Bodies.

Theorem RJ_all fuel :
  (forall w c o txt, J w c -> Rw w (fst (fst (setopt strtod_o fuel w c o txt)))) /\
  (forall w c, J w c -> Rw w (fst (init_defaults strtod_o fuel w c)) /\
                        J (fst (init_defaults strtod_o fuel w c)) (snd (init_defaults strtod_o fuel w c))) /\
  (forall w c l p, J w c -> Rw w (fst (fst (parse_internal strtod_o fuel w c l p))) /\
                            J (fst (fst (parse_internal strtod_o fuel w c l p)))
                              (snd (fst (parse_internal strtod_o fuel w c l p)))).
Proof.
  induction fuel as [|fuel (IHs & IHi & IHp)].
  - split; [|split]; intros.
    + rewrite setopt_O. unfold fst. apply Rw_oof.
    + rewrite init_defaults_O. unfold fst, snd. split; [apply Rw_oof|]. eapply J_Rw; [apply Rw_oof|assumption].
    + rewrite parse_internal_O. unfold fst, snd. split; [apply Rw_oof|]. eapply J_Rw; [apply Rw_oof|assumption].
  - split; [|split]; intros.
    + rewrite setopt_S. apply so_body_J; [exact IHi|apply Rw_refl|assumption].
    + rewrite init_defaults_S. apply id_loop_J; [exact IHs|exact IHp|apply Rw_refl|assumption].
    + rewrite parse_internal_S. apply pi_body_J; [exact IHs|exact IHp|apply Rw_refl|assumption].
Qed.

End GenericJ.
