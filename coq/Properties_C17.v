(* Properties_C17.v — C17: file names resolve deterministically.
   Only statements here; proofs are in FilesProofs.v. *)
From Coq Require String.
Import String.StringSyntax.
From Coq Require Import List Arith NArith ZArith Bool.
From Coq.Strings Require Import Byte.
From LC Require Import Bytes Consts Lexer Files Store Parser FilesProofs.
Import ListNotations.
Local Open Scope string_scope.
Local Open Scope list_scope.

(* (a) The model's search path is the C linked list (newest first); with the directories given in the
   order they were added, the lookup is the specification: the first directory in add order that holds
   a regular file of that name; an absolute name is taken as it is. *)
Theorem C17_first_in_add_order :
  forall f dirs file, dirs <> [] -> cfg_searchpath f (rev dirs) file = resolve_spec f dirs file.
Proof. exact C17_first_in_add_order_pf. Qed.
Print Assumptions C17_first_in_add_order.

(* for relative names the side condition is not needed (with no directory at all cfg_searchpath
   returns NULL before it looks at the name, so the two sides differ only on absolute names) *)
Theorem C17_first_in_add_order_rel :
  forall f dirs file, (forall r, file <> slash :: r) ->
  cfg_searchpath f (rev dirs) file = resolve_spec f dirs file.
Proof. exact C17_first_in_add_order_rel_pf. Qed.
Print Assumptions C17_first_in_add_order_rel.

(* (b) cfg_add_searchpath prepends the tilde-expanded directory *)
Theorem C17_add_prepends :
  forall pw dirs,
  fold_left (fun sp d => tilde_expand pw d :: sp) dirs [] = rev (map (tilde_expand pw) dirs).
Proof. exact C17_add_prepends_pf. Qed.
Print Assumptions C17_add_prepends.

(* (c) *)
Theorem C17_result_is_regular :
  forall f p file r, cfg_searchpath f p file = Some r -> is_regular f r = true.
Proof. exact C17_result_is_regular_pf. Qed.
Print Assumptions C17_result_is_regular.

(* (d) *)
Theorem C17_absolute_bypasses :
  forall f p file, p <> [] -> (exists r, file = slash :: r) ->
  cfg_searchpath f p file = if is_regular f file then Some file else None.
Proof. exact C17_absolute_bypasses_pf. Qed.
Print Assumptions C17_absolute_bypasses.

(* (e) *)
Theorem C17_dirs_never_match :
  forall f p file,
  (forall d, In d p -> fs_lookup f (make_fullpath d file) = FDir \/ fs_lookup f (make_fullpath d file) = FMissing) ->
  (forall r, file <> slash :: r) ->
  cfg_searchpath f p file = None.
Proof. exact C17_dirs_never_match_pf. Qed.
Print Assumptions C17_dirs_never_match.

(* (f) tilde expansion; x7e is '~' *)
Theorem C17_span_until_slash :
  forall user file acc,
  ~ In slash user -> (file = [] \/ exists r, file = slash :: r) ->
  span_until_slash (user ++ file) acc = (rev acc ++ user, file).
Proof. exact span_until_slash_spec. Qed.
Print Assumptions C17_span_until_slash.

Theorem C17_tilde_plain :
  forall pw name, (forall r, name <> x7e :: r) -> tilde_expand pw name = name.
Proof. exact C17_tilde_plain_pf. Qed.
Print Assumptions C17_tilde_plain.

Theorem C17_tilde_self :
  forall pw rest,
  (rest = [] \/ exists r, rest = slash :: r) ->
  (forall u h, pw_self pw = Some u -> assoc_str u (pw_tab pw) = Some h ->
     tilde_expand pw (x7e :: rest) = h ++ rest) /\
  ((pw_self pw = None \/ exists u, pw_self pw = Some u /\ assoc_str u (pw_tab pw) = None) ->
     tilde_expand pw (x7e :: rest) = x7e :: rest).
Proof. exact C17_tilde_self_pf. Qed.
Print Assumptions C17_tilde_self.

Theorem C17_tilde_user :
  forall pw user file,
  user <> [] -> ~ In slash user -> (file = [] \/ exists r, file = slash :: r) ->
  tilde_expand pw (x7e :: user ++ file) =
  match assoc_str user (pw_tab pw) with Some h => h ++ file | None => x7e :: user ++ file end.
Proof. exact C17_tilde_user_pf. Qed.
Print Assumptions C17_tilde_user.

(* (g) cfg_parse and cfg_lexer_include resolve the name by the same function *)
Theorem C17_same_resolution_parse_eq :
  forall strtod_o fuel w c filename,
  parse_file strtod_o fuel w c filename =
  match resolve_name w filename with
  | None => (w, c, CFG_FILE_ERROR)
  | Some f =>
      match open_input (w_fs w) f with
      | None => (w, set_file c (Some f), CFG_FILE_ERROR)
      | Some content => parse_fp strtod_o fuel w (set_file c (Some f)) content
      end
  end.
Proof. exact parse_file_resolves. Qed.
Print Assumptions C17_same_resolution_parse_eq.

Theorem C17_same_resolution_parse :
  forall strtod_o fuel w c filename,
  (resolve_name w filename = None ->
     parse_file strtod_o fuel w c filename = (w, c, CFG_FILE_ERROR)) /\
  (forall f, resolve_name w filename = Some f ->
     parse_file strtod_o fuel w c filename =
     match open_input (w_fs w) f with
     | None => (w, set_file c (Some f), CFG_FILE_ERROR)
     | Some content => parse_fp strtod_o fuel w (set_file c (Some f)) content
     end) /\
  (forall f, w_path w <> [] -> resolve_name w filename = Some f ->
     exists content, open_input (w_fs w) f = Some content /\
       parse_file strtod_o fuel w c filename = parse_fp strtod_o fuel w (set_file c (Some f)) content).
Proof. exact C17_same_resolution_parse_pf. Qed.
Print Assumptions C17_same_resolution_parse.

Theorem C17_same_resolution_include :
  forall w c filename,
  Nat.leb MAX_INCLUDE_DEPTH (length (l_inc (w_lex w))) = false ->
  (resolve_name w filename = None ->
     lexer_include w c filename = (add_diags w (cfg_diag c "%s: Not found in search path"), c, true)) /\
  (c_err c = true ->
     lexer_include w c filename = (add_diags w (cfg_diag c "%s: Not found in search path"), c, true) ->
     resolve_name w filename = None) /\
  (forall f, resolve_name w filename = Some f ->
     lexer_include w c filename =
     match open_input (w_fs w) f with
     | None => (add_diags w (cfg_diag c "%s: %s"), c, true)
     | Some content =>
         (set_open (upd_lex w (scan_begin (set_inc (w_lex w)
                      ({| i_file := c_file c; i_line := c_line c; i_buf := l_next (w_lex w) |} :: l_inc (w_lex w))) content))
                   (S (w_open w)),
          set_line (set_file c (Some f)) 1, false)
     end).
Proof. exact C17_same_resolution_include_pf. Qed.
Print Assumptions C17_same_resolution_include.

(* ---------------- non-vacuity ---------------- *)
(* scenario directory /r with three directories: b holds a DIRECTORY x.conf, c and a hold a regular file
   x.conf; they are added in the order b, c, a *)
Definition ex_fs : fsys :=
  {| fs_root := M "/r";
     fs_ents := [ (M "a/x.conf", FFile (M "from-a"));
                  (M "b/x.conf", FDir);
                  (M "c/x.conf", FFile (M "from-c"));
                  (M "a", FDir); (M "b", FDir); (M "c", FDir) ] |}.
Definition ex_pw : passwd :=
  {| pw_tab := [ (M "me", M "/r/a"); (M "bob", M "/r/c") ]; pw_self := Some (M "me") |}.
Definition ex_dirs : list str := [ M "b"; M "~bob"; M "~" ].      (* add order *)

Example C17_example :
  let path := fold_left (fun sp d => tilde_expand ex_pw d :: sp) ex_dirs [] in
  ex_dirs <> [] /\
  path = [ M "/r/a"; M "/r/c"; M "b" ] /\                               (* newest first *)
  path = rev (map (tilde_expand ex_pw) ex_dirs) /\
  fs_lookup ex_fs (make_fullpath (M "b") (M "x.conf")) = FDir /\          (* the oldest directory has a directory of that name *)
  is_regular ex_fs (make_fullpath (M "/r/c") (M "x.conf")) = true /\
  is_regular ex_fs (make_fullpath (M "/r/a") (M "x.conf")) = true /\
  cfg_searchpath ex_fs path (M "x.conf") = Some (M "/r/c/x.conf") /\      (* first in add order that is a regular file *)
  resolve_spec ex_fs (map (tilde_expand ex_pw) ex_dirs) (M "x.conf") = Some (M "/r/c/x.conf") /\
  cfg_searchpath ex_fs path (M "/r/a/x.conf") = Some (M "/r/a/x.conf") /\ (* absolute: bypasses the path *)
  cfg_searchpath ex_fs path (M "/r/b/x.conf") = None /\                   (* absolute directory: no fallback *)
  cfg_searchpath ex_fs [ M "b" ] (M "x.conf") = None /\                   (* only a directory of that name *)
  cfg_searchpath ex_fs path (M "y.conf") = None /\
  tilde_expand ex_pw (M "~/x.conf") = M "/r/a/x.conf" /\
  tilde_expand ex_pw (M "~bob/x.conf") = M "/r/c/x.conf" /\
  tilde_expand ex_pw (M "~eve/x.conf") = M "~eve/x.conf" /\
  tilde_expand ex_pw (M "x~") = M "x~".
Proof. vm_compute. repeat split; try reflexivity. discriminate. Qed.

(* the hypotheses of the tilde and dirs_never_match theorems on concrete data *)
Example C17_example_hyps :
  (~ In slash (M "bob")) /\ M "bob" <> [] /\
  span_until_slash (M "bob/x.conf") [] = (M "bob", M "/x.conf") /\
  (forall d, In d [ M "b" ] ->
     fs_lookup ex_fs (make_fullpath d (M "x.conf")) = FDir \/ fs_lookup ex_fs (make_fullpath d (M "x.conf")) = FMissing) /\
  (forall r, M "x.conf" <> slash :: r).
Proof.
  split; [apply no_slash_b; vm_compute; reflexivity|].
  split; [intros H; apply (f_equal (@length _)) in H; vm_compute in H; discriminate H|].
  split; [vm_compute; reflexivity|].
  split; [|apply is_abs_false; vm_compute; reflexivity].
  intros d [<-|[]]. left. vm_compute. reflexivity.
Qed.
