(* PP_Tok.v — C01, LAYER T: the token source.  `yields e s ts` says that the scanner in state s (environment e)
   delivers the tokens ts and then end-of-input, whatever position the caller passes in; `wst` ties a
   world to a scanner state; next_token then pops one token and changes nothing else. *)
From Coq Require Import List Arith NArith ZArith Bool Lia.
From Coq.Strings Require Import Byte.
From LC Require Import Bytes Consts Conv Flex LexAct Lexer LexLemmas LexAll Files Store Parser Grammar PP_Step.
Import ListNotations.

(* one call of cfg_yylex from state s with enough fuel (more than LexAll.measure s, the number of unread bytes + buffers):
   token t, text v, next state s'; no FILE closed, no diagnostic *)
(* a scanner state at a token boundary of an error-free text without include frames *)
Definition tbs (s : lexst) : Prop := l_sc s = INITIAL /\ l_rderr s = false /\ l_inc s = [] /\ q_inv (l_q s).

Definition tok_at (e : envt) (s : lexst) (t : tok) (v : option str) (s' : lexst) : Prop :=
  (tbs s -> tbs s' /\ tl (l_bufs s') = tl (l_bufs s)) /\
  forall p fuel, measure s < fuel ->
            let r := yylex e fuel s p 0 in
            r_tok r = t /\ r_val r = v /\ r_st r = s' /\ r_closed r = 0 /\ r_diags r = [] /\ r_fuel_out r = false.

Inductive yields (e : envt) : lexst -> list ltok -> Prop :=
| Y_eof s s' : tok_at e s TEof None s' -> yields e s []
| Y_cons s s' t ts : lt_tok t <> TEof -> lt_tok t <> TErr -> (lt_tok t = TStr -> lt_val t <> None) ->
    tok_at e s (lt_tok t) (lt_val t) s' -> measure s' <= measure s -> yields e s' ts -> yields e s (t :: ts).

(* the part of the world the parser's control flow depends on; the context e = (environment, buffers below
   the one being read) stays fixed during a run *)
Definition ctx := (envt * list (nat * list byte))%type.
Definition wst (w : pw) (e : ctx) (L : lexst) : Prop :=
  w_env w = fst e /\ w_lex w = L /\ w_oof w = false /\ tbs L /\ tl (l_bufs L) = snd e.
Definition yieldsc (e : ctx) (L : lexst) (ts : list ltok) : Prop := yields (fst e) L ts.

Lemma wst_add_diags w e L d : wst w e L -> wst (add_diags w d) e L.
Proof. unfold wst; cbn; auto. Qed.
Lemma wst_add_cb w e L d : wst w e L -> wst (add_cb w d) e L.
Proof. unfold wst; cbn; auto. Qed.
Lemma wst_log_frees w e L ids : wst w e L -> wst (log_frees w ids) e L.
Proof. unfold log_frees. revert w. induction ids as [|i ids IH]; intros w H; cbn; [exact H|]. apply IH, wst_add_cb, H. Qed.
Lemma wst_tbs w e L : wst w e L -> tbs L.
Proof. unfold wst; intuition. Qed.
Lemma wst_linc w e L : wst w e L -> l_inc (w_lex w) = [].
Proof. unfold wst, tbs. intros (_ & -> & _ & (_ & _ & H & _) & _). exact H. Qed.
Lemma wst_env w e L : wst w e L -> w_env w = fst e.
Proof. unfold wst; intuition. Qed.
Lemma wst_lex w e L : wst w e L -> w_lex w = L.
Proof. unfold wst; intuition. Qed.
Lemma wst_bufs w e L : wst w e L -> tl (l_bufs L) = snd e.
Proof. unfold wst; intuition. Qed.
Lemma wst_oof w e L : wst w e L -> w_oof w = false.
Proof. unfold wst; intuition. Qed.

Lemma next_token_ok f w c e L t v L' :
  wst w e L -> tok_at (fst e) L t v L' -> measure L < f ->
  exists w' pos, next_token f w c = (w', set_pos c pos, t, v) /\ wst w' e L'.
Proof.
  intros (He & Hl & Ho & Hi & Hb) (Hinc & Ht) Hf. unfold next_token. rewrite He, Hl.
  destruct (Ht (c_pos c) f Hf) as (A & B & C & D & E & F). cbv zeta in *.
  destruct (Hinc Hi) as (TB & TL).
  eexists. exists (r_pos (yylex (fst e) f L (c_pos c) 0)). split.
  - rewrite A, B, F. reflexivity.
  - unfold wst. rewrite TL. destruct (c_err c); cbn; rewrite ?C; auto.
Qed.

Section WithOracles.
Variable strtod_o : str -> strtod_res.

Lemma pi_step f w c e L t v L' :
  wst w e L -> tok_at (fst e) L t v L' -> measure L < f ->
  exists w' pos, wst w' e L' /\
    forall level p, parse_internal strtod_o (S f) w c level p = pi_body strtod_o f level p w' (set_pos c pos) t v.
Proof.
  intros Hw Ht Hf. destruct (next_token_ok f w c e L t v L' Hw Ht Hf) as (w' & pos & Hn & Hw').
  exists w', pos. split; [exact Hw'|]. intros level p. rewrite pi_unfold, Hn. reflexivity.
Qed.
End WithOracles.

Lemma yields_length_inv e s ts : yieldsc e s ts ->
  match ts with
  | [] => exists s', tok_at (fst e) s TEof None s'
  | t :: r => lt_tok t <> TEof /\ lt_tok t <> TErr /\ (lt_tok t = TStr -> lt_val t <> None) /\
              exists s', tok_at (fst e) s (lt_tok t) (lt_val t) s' /\ measure s' <= measure s /\ yieldsc e s' r
  end.
Proof. unfold yieldsc. intros H. inversion H; subst; eauto 8. Qed.
