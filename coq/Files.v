(* Files.v — the file-system facet: a finite map from (normalised) names to
   regular files / directories, the fake passwd table, cfg_tilde_expand,
   cfg_add_searchpath / cfg_searchpath, cfg_open_input. *)
From Coq Require Import List Arith NArith Bool.
From Coq.Strings Require Import Byte.
From LC Require Import Bytes.
Import ListNotations.

Inductive fsent := FFile (content : str) | FDir | FMissing.

Record fsys := { fs_root : str;                  (* absolute name of the scenario directory, no trailing slash *)
                 fs_ents : list (str * fsent) }. (* most recent first, keys normalised *)

Definition slash : byte := x2f.

(* split at '/' dropping empty and "." components *)
Fixpoint split_slash (s : str) (cur : str) : list str :=
  match s with
  | [] => match cur with [] => [] | _ => [rev cur] end
  | c :: r => if Byte.eqb c slash
              then match cur with [] => split_slash r [] | _ => rev cur :: split_slash r [] end
              else split_slash r (c :: cur)
  end.

Definition is_dot (s : str) : bool := match s with [c] => Byte.eqb c x2e | _ => false end.

Fixpoint join_slash (l : list str) : str :=
  match l with [] => [] | [x] => x | x :: r => x ++ slash :: join_slash r end.

Fixpoint strip_prefix (p s : str) : option str :=
  match p, s with
  | [], _ => Some s
  | x :: p', y :: s' => if Byte.eqb x y then strip_prefix p' s' else None
  | _ :: _, [] => None
  end.

(* Some key for names inside the scenario directory, None for foreign absolute names *)
Definition norm_path (root : str) (p : str) : option str :=
  let rel :=
    match p with
    | c :: _ => if Byte.eqb c slash then
                  match strip_prefix root p with
                  | Some [] => Some []
                  | Some (d :: r) => if Byte.eqb d slash then Some r else None
                  | None => None
                  end
                else Some p
    | [] => None      (* the empty name never exists *)
    end in
  match rel with
  | Some r => Some (join_slash (filter (fun x => negb (is_dot x)) (split_slash r [])))
  | None => None
  end.

Fixpoint assoc_str {A} (k : str) (l : list (str * A)) : option A :=
  match l with [] => None | (k', v) :: r => if str_eqb k k' then Some v else assoc_str k r end.

Definition fs_lookup (f : fsys) (p : str) : fsent :=
  match norm_path (fs_root f) p with
  | Some [] => FDir                       (* the scenario directory itself *)
  | Some k => match assoc_str k (fs_ents f) with Some e => e | None => FMissing end
  | None => FMissing
  end.

Definition fs_set (f : fsys) (p : str) (e : fsent) : fsys :=
  match norm_path (fs_root f) p with
  | Some k => {| fs_root := fs_root f; fs_ents := (k, e) :: fs_ents f |}
  | None => f
  end.

(* stat() && S_ISREG *)
Definition is_regular (f : fsys) (p : str) : bool :=
  match fs_lookup f p with FFile _ => true | _ => false end.

(* cfg_open_input: fopen(name, "r") refusing directories *)
Definition open_input (f : fsys) (p : str) : option str :=
  match fs_lookup f p with FFile c => Some c | _ => None end.

(* ---- passwd ---- *)
Record passwd := { pw_tab : list (str * str);   (* user -> home *)
                   pw_self : option str }.      (* the effective user, if it has an entry *)

(* cfg_tilde_expand (with the ~user buffer properly terminated) *)
Fixpoint span_until_slash (s : str) (acc : str) : str * str :=
  match s with
  | [] => (rev acc, [])
  | c :: r => if Byte.eqb c slash then (rev acc, s) else span_until_slash r (c :: acc)
  end.

Definition tilde_expand (pw : passwd) (filename : str) : str :=
  match filename with
  | c :: rest =>
      if Byte.eqb c x7e then
        match rest with
        | [] => match pw_self pw with
                | Some u => match assoc_str u (pw_tab pw) with Some h => h ++ rest | None => filename end
                | None => filename end
        | d :: _ =>
            if Byte.eqb d slash then
              match pw_self pw with
              | Some u => match assoc_str u (pw_tab pw) with Some h => h ++ rest | None => filename end
              | None => filename end
            else
              let '(user, file) := span_until_slash rest [] in
              match assoc_str user (pw_tab pw) with Some h => h ++ file | None => filename end
        end
      else filename
  | [] => filename
  end.

(* ---- search path: cfg_add_searchpath prepends; cfg_searchpath looks oldest first ---- *)
Definition searchpath := list str.     (* newest first, as the C list *)

Definition make_fullpath (dir file : str) : str := dir ++ slash :: file.

Fixpoint cfg_searchpath (f : fsys) (p : searchpath) (file : str) : option str :=
  match p with
  | [] => None                              (* !p: EINVAL *)
  | dir :: next =>
      match file with
      | c :: _ =>
          if Byte.eqb c slash then (if is_regular f file then Some file else None)
          else match cfg_searchpath f next file with
               | Some r => Some r
               | None => let full := make_fullpath dir file in if is_regular f full then Some full else None
               end
      | [] => match cfg_searchpath f next file with
              | Some r => Some r
              | None => let full := make_fullpath dir file in if is_regular f full then Some full else None
              end
      end
  end.

(* SPEC for C17: first directory in *add* order holding a regular file of that name *)
Definition resolve_spec (f : fsys) (dirs_in_add_order : list str) (file : str) : option str :=
  match file with
  | c :: _ => if Byte.eqb c slash then (if is_regular f file then Some file else None)
              else option_map (fun d => make_fullpath d file)
                     (find (fun d => is_regular f (make_fullpath d file)) dirs_in_add_order)
  | [] => option_map (fun d => make_fullpath d file)
            (find (fun d => is_regular f (make_fullpath d file)) dirs_in_add_order)
  end.
