(* LexSpec.v — SPEC of the lexical forms, written independently of the rule table:
   a double-quoted body is a list of units; `render` is its concrete syntax and
   `denote` the bytes it stands for.  Also single-quoted units, comment text. *)
From Coq Require Import List Arith NArith Bool.
From Coq.Strings Require Import Byte.
From LC Require Import Bytes Lexer.
Import ListNotations.
Local Open Scope N_scope.

Definition bs : byte := x5c.
Definition dq : byte := x22.
Definition sq : byte := x27.
Definition nl : byte := x0a.
Definition dollar : byte := x24.
Definition lbrace : byte := x7b.
Definition rbrace : byte := x7d.

(* the C escape letters of the statement: \n \t \r \b \f \a \e \v *)
Definition escape_letter (c : byte) : option byte :=
  if Byte.eqb c x6e then Some x0a else if Byte.eqb c x74 then Some x09 else
  if Byte.eqb c x72 then Some x0d else if Byte.eqb c x62 then Some x08 else
  if Byte.eqb c x66 then Some x0c else if Byte.eqb c x61 then Some x07 else
  if Byte.eqb c x65 then Some x1b else if Byte.eqb c x76 then Some x0b else None.

Inductive dunit :=
| UChar (c : byte)                 (* any byte except backslash, double quote *)
| ULetter (c : byte)               (* \n \t \r \b \f \a \e \v *)
| UOther (c : byte)                (* \c for any other c: means c *)
| UOct (ds : list byte)            (* \ + 1..3 octal digits, value <= 0xFF *)
| UHex (hs : list byte)            (* \x + 1..2 hex digits *)
| UCont                            (* backslash-newline: nothing *)
| UEnv (body : list byte).         (* ${body} *)

Definition render1 (u : dunit) : str :=
  match u with
  | UChar c => [c]
  | ULetter c => [bs; c]
  | UOther c => [bs; c]
  | UOct ds => bs :: ds
  | UHex hs => bs :: x78 :: hs
  | UCont => [bs; nl]
  | UEnv body => dollar :: lbrace :: body ++ [rbrace]
  end.
Definition render (us : list dunit) : str := flat_map render1 us.

(* ${NAME} / ${NAME:-default}: value, or default, or empty *)
Fixpoint find_colon_dash (s : str) (acc : str) : str * option str :=
  match s with
  | [] => (rev acc, None)
  | c :: r => if Byte.eqb c x3a
              then match r with
                   | d :: r' => if Byte.eqb d x2d then (rev acc, Some r') else (rev acc ++ s, None)
                   | [] => (rev acc ++ s, None)
                   end
              else find_colon_dash r (c :: acc)
  end.
Definition env_subst (e : envt) (body : str) : str :=
  let b := cstr body in
  let '(name, dflt) := find_colon_dash b [] in
  match getenv e name with
  | Some v => v
  | None => match dflt with Some d => d | None => [] end
  end.

Definition denote1 (e : envt) (u : dunit) : str :=
  match u with
  | UChar c => [c]
  | ULetter c => match escape_letter c with Some b => [b] | None => [c] end
  | UOther c => [c]
  | UOct ds => [Nb (digits_val 8 ds)]
  | UHex hs => [Nb (digits_val 16 hs)]
  | UCont => []
  | UEnv body => env_subst e body
  end.
Definition denote (e : envt) (us : list dunit) : str := flat_map (denote1 e) us.

Definition newlines (s : str) : N := count_nl s.

(* line breaks inside a double-quoted string: raw newlines, continuations, newlines inside ${...} *)
Definition unit_lines (u : dunit) : N :=
  match u with UChar c => if Byte.eqb c nl then 1 else 0 | UCont => 1 | UEnv body => newlines body | _ => 0 end.
Definition lines_of (us : list dunit) : N := fold_right (fun u a => unit_lines u + a) 0 us.

(* well-formedness of one unit, and of a unit w.r.t. the byte that follows it *)
Definition unit_wf (u : dunit) : bool :=
  match u with
  | UChar c => negb (Byte.eqb c bs) && negb (Byte.eqb c dq)
  | ULetter c => match escape_letter c with Some _ => true | None => false end
  | UOther c => match escape_letter c with Some _ => false | None => true end
                && negb (is_digit c) && negb (Byte.eqb c x78) && negb (Byte.eqb c nl)
  | UOct ds => (1 <=? length ds)%nat && (length ds <=? 3)%nat && forallb is_octal ds && (digits_val 8 ds <=? 255)
  | UHex hs => (1 <=? length hs)%nat && (length hs <=? 2)%nat && forallb is_hex hs
  | UCont => true
  | UEnv body => forallb (fun c => negb (Byte.eqb c rbrace) && negb (Byte.eqb c x00)) body
  end.

(* what may follow the unit so that it is read as this unit (maximal munch) *)
Definition follow_ok (u : dunit) (next : byte) : bool :=
  match u with
  | UChar c => if Byte.eqb c dollar then negb (Byte.eqb next lbrace) else true
  | UOct ds => negb (is_digit next)
  | UHex hs => if (length hs <? 2)%nat then negb (is_hex next) else true
  | _ => true
  end.

Fixpoint units_wf (us : list dunit) (last : byte) : bool :=
  match us with
  | [] => true
  | u :: r => unit_wf u && follow_ok u (match render r with c :: _ => c | [] => last end) && units_wf r last
  end.

(* ---- single-quoted strings ---- *)
Inductive sunit :=
| SChar (c : byte)        (* any byte except backslash and single quote *)
| SEsc (c : byte)         (* \' and \\ : c *)
| SKeep (c : byte)        (* \c for any other c except newline: both bytes are kept *)
| SCont.                  (* backslash-newline: nothing *)
Definition srender1 (u : sunit) : str :=
  match u with SChar c => [c] | SEsc c => [bs; c] | SKeep c => [bs; c] | SCont => [bs; nl] end.
Definition sdenote1 (u : sunit) : str :=
  match u with SChar c => [c] | SEsc c => [c] | SKeep c => [bs; c] | SCont => [] end.
Definition sunit_wf (u : sunit) : bool :=
  match u with
  | SChar c => negb (Byte.eqb c bs) && negb (Byte.eqb c sq)
  | SEsc c => Byte.eqb c bs || Byte.eqb c sq
  | SKeep c => negb (Byte.eqb c bs) && negb (Byte.eqb c sq) && negb (Byte.eqb c nl)
  | SCont => true
  end.
Definition srender (us : list sunit) : str := flat_map srender1 us.
Definition sdenote (us : list sunit) : str := flat_map sdenote1 us.
