(* PathSpec.v — SPEC for C11: a path is a sequence of qualified section steps and a leaf
   name; it denotes what step-by-step navigation with the single-level accessors reaches. *)
From Coq Require Import List Arith NArith ZArith Bool.
From Coq.Strings Require Import Byte.
From LC Require Import Bytes Consts Conv Lexer Store.
Import ListNotations.

(* one section step: the section option's name and an optional qualifier text (title or index, unquoted) *)
Record pstep := { ps_name : str; ps_qual : option str }.

(* a quoted qualifier: '...' with \' and \\ ; returns the text and the rest after the closing quote *)
Fixpoint unquote (s : str) (acc : str) : option (str * str) :=
  match s with
  | [] => None
  | c :: r =>
      if Byte.eqb c x27 then Some (rev acc, r)
      else if Byte.eqb c x5c then
        match r with
        | d :: r' => if Byte.eqb d x27 || Byte.eqb d x5c then unquote r' (d :: acc) else None
        | [] => None
        end
      else unquote r (c :: acc)
  end.

Definition span (f : byte -> bool) (s : str) : str * str := (firstn (strcspn s f) s, skipn (strcspn s f) s).

(* one segment: name [= qualifier]; returns the step and what follows it *)
Definition segment (s : str) : option (pstep * str) :=
  let '(name, r) := span is_bar_eq s in
  match name with
  | [] => None
  | _ =>
    match r with
    | c :: r' =>
        if Byte.eqb c x3d then
          match r' with
          | q :: r'' =>
              if Byte.eqb q x27 then
                match unquote r'' [] with
                | Some (t, rest) => Some ({| ps_name := name; ps_qual := Some t |}, rest)
                | None => None
                end
              else
                let '(t, rest) := span is_bar r' in
                match t with [] => None | _ => Some ({| ps_name := name; ps_qual := Some t |}, rest) end
          | [] => None
          end
        else Some ({| ps_name := name; ps_qual := None |}, r)
    | [] => Some ({| ps_name := name; ps_qual := None |}, [])
    end
  end.

(* segments separated by one or more '|'; no separator at either end *)
Fixpoint segments (fuel : nat) (s : str) : option (list pstep) :=
  match fuel with
  | O => None
  | S f =>
    match segment s with
    | None => None
    | Some (st, rest) =>
        match rest with
        | [] => Some [st]
        | c :: _ =>
            if is_bar c then
              let rest' := skipn (strspn rest is_bar) rest in
              match rest' with
              | [] => None                      (* stray separator at the end *)
              | _ => option_map (cons st) (segments f rest')
              end
            else None                           (* garbage glued to a quoted qualifier *)
        end
    end
  end.

Definition split_path (p : str) : option (list pstep) := segments (S (length p)) p.

(* ---- navigation with the single-level accessors ---- *)

(* the instance a step selects inside section option o *)
Definition select (o : opt) (q : option str) : option nat :=
  match q with
  | None => match o_vals o with [] => None | _ => Some 0 end      (* first instance *)
  | Some t =>
      if negb (oflag o CFGF_MULTI) then None                         (* qualifier on a single section *)
      else if oflag o CFGF_TITLE then gettsecidx o t                 (* cfg_opt_gettsec *)
      else let r := strtol t 0 in                                   (* cfg_opt_getnsec with a C numeral *)
           match sl_rest r with
           | [] => if (0 <=? sl_val r)%Z && (Z.to_N (sl_val r) <? N.of_nat (length (o_vals o)))%N
                   then Some (Z.to_nat (sl_val r)) else None
           | _ => None
           end
  end.

(* walk the section steps from c; result: the (option index, value index) steps taken and the section reached *)
Fixpoint walk (c : cfg) (steps : list pstep) (acc : list (nat * nat)) : option (list (nat * nat) * cfg) :=
  match steps with
  | [] => Some (rev acc, c)
  | st :: r =>
      match getopt_leaf c (ps_name st) with
      | None => None
      | Some k =>
          match nth_error (c_opts c) k with
          | None => None
          | Some o =>
              if negb (kind_eqb (o_kind o) KSec) then None
              else match select o (ps_qual st) with
                   | None => None
                   | Some v => match nth_sec o v with
                               | Some s => walk s r ((k, v) :: acc)
                               | None => None
                               end
                   end
          end
      end
  end.

(* cfg_getopt(path): all steps but the last are section steps, the last names the option (no qualifier) *)
Definition navigate_opt (c : cfg) (p : str) : option optref :=
  match split_path p with
  | None => None
  | Some segs =>
      match rev segs with
      | [] => None
      | leaf :: rsecs =>
          match ps_qual leaf with
          | Some _ => None
          | None =>
              match walk c (rev rsecs) [] with
              | Some (steps, s) => match getopt_leaf s (ps_name leaf) with Some i => Some (steps, i) | None => None end
              | None => None
              end
          end
      end
  end.

(* cfg_getsec(path): every step is a section step *)
Definition navigate_sec (c : cfg) (p : str) : option (list (nat * nat)) :=
  match split_path p with
  | None => None
  | Some segs => option_map fst (walk c segs [])
  end.
