(* PP_LexFrame.v — the scanner FRAME lemma: the tokens a pushed buffer yields do not depend on the scanner
   underneath (buffer ids, the rest of the buffer stack, the echo log, and — in the INITIAL start condition —
   the contents of the scratch buffer). *)
From Coq Require Import List Arith NArith Bool Lia.
From Coq.Strings Require Import Byte.
From LC Require Import Bytes Flex LexAct LexRules Consts Lexer LexLemmas LexAll Files Store Parser Grammar PP_Step PP_Tok PP_LexYields.
Import ListNotations.

(* ---- the scratch buffer: outside INITIAL the stored bytes agree; q_inv makes q_null / q_len unobservable ---- *)
Definition Q (c : sc) (q1 q2 : qbuf) : Prop :=
  q_inv q1 /\ q_inv q2 /\ (c <> INITIAL -> q_rev q1 = q_rev q2).

Lemma Q_putc c q1 q2 b : Q c q1 q2 -> Q c (qputc q1 b) (qputc q2 b).
Proof.
  intros (A & B & C). split; [apply q_inv_qputc, A|]. split; [apply q_inv_qputc, B|].
  intros H. unfold qputc. cbn [q_rev]. rewrite (C H). reflexivity.
Qed.

Lemma Q_puts c t : forall q1 q2, Q c q1 q2 -> Q c (qputs q1 t) (qputs q2 t).
Proof. unfold qputs. induction t as [|b t IH]; intros q1 q2 H; cbn [fold_left]; [exact H|]. apply IH, Q_putc, H. Qed.

Lemma Q_reset c c' q1 q2 : Q c q1 q2 -> Q c' (q_reset q1) (q_reset q2).
Proof. intros (A & B & _). split; [apply q_inv_reset, A|]. split; [apply q_inv_reset, B|]. intros _. reflexivity. Qed.

Lemma Q_initial c q1 q2 : Q c q1 q2 -> Q INITIAL q1 q2.
Proof. intros (A & B & _). split; [exact A|]. split; [exact B|]. intros H; contradiction H; reflexivity. Qed.

(* qend(): an untouched NULL buffer is materialised *)
Definition qmat (q : qbuf) : qbuf := if q_null q then q_reset (qputc q x00) else q.

Lemma qend_trim_eq s : qend_trim s = (set_q (set_sc s INITIAL) (qmat (l_q s)), trim_ws (q_data (qmat (l_q s)))).
Proof. reflexivity. Qed.

Lemma qmat_inv q : q_inv q -> q_inv (qmat q).
Proof. intros H. unfold qmat. destruct (q_null q); [apply q_inv_reset, q_inv_qputc, H|exact H]. Qed.

Lemma qmat_rev q : q_inv q -> q_rev (qmat q) = q_rev q.
Proof.
  intros (H1 & H2 & H3). unfold qmat. destruct (q_null q) eqn:Hn; [|reflexivity].
  cbn [q_reset q_rev]. specialize (H3 eq_refl). destruct (q_rev q); [reflexivity|cbn [length] in H2; lia].
Qed.

Lemma Q_qmat c q1 q2 : Q c q1 q2 -> Q INITIAL (qmat q1) (qmat q2).
Proof. intros (A & B & _). split; [apply qmat_inv, A|]. split; [apply qmat_inv, B|]. intros H; contradiction H; reflexivity. Qed.

Lemma Q_data c q1 q2 : Q c q1 q2 -> c <> INITIAL -> q_data q1 = q_data q2.
Proof. intros (_ & _ & C) H. unfold q_data. rewrite (C H). reflexivity. Qed.

Lemma Q_qmat_data c q1 q2 : Q c q1 q2 -> c <> INITIAL -> q_data (qmat q1) = q_data (qmat q2).
Proof. intros (A & B & C) H. unfold q_data. rewrite (qmat_rev _ A), (qmat_rev _ B), (C H). reflexivity. Qed.

(* ---- related scanner states ---- *)
Definition top (l : list (nat * list byte)) : option (list byte) :=
  match l with [] => None | (_, inp) :: _ => Some inp end.

Definition R (s1 s2 : lexst) : Prop :=
  l_sc s1 = l_sc s2 /\ l_rderr s1 = l_rderr s2 /\ l_inc s1 = [] /\ l_inc s2 = [] /\
  top (l_bufs s1) = top (l_bufs s2) /\ Q (l_sc s1) (l_q s1) (l_q s2).

(* s' differs from s at most in the start condition and the scratch buffer *)
Definition frame' (s s' : lexst) : Prop :=
  l_bufs s' = l_bufs s /\ l_inc s' = l_inc s /\ l_rderr s' = l_rderr s.

Lemma R_intro s1 s2 s1' s2' :
  R s1 s2 -> frame' s1 s1' -> frame' s2 s2' -> l_sc s1' = l_sc s2' -> Q (l_sc s1') (l_q s1') (l_q s2') -> R s1' s2'.
Proof.
  intros (A & B & C & D & E & F) (A1 & B1 & C1) (A2 & B2 & C2) Hs Hq. unfold R.
  rewrite A1, A2, B1, B2, C1, C2. refine (conj _ (conj _ (conj _ (conj _ (conj _ _))))); auto.
Qed.

Lemma R_set_bufs s1 s2 id1 id2 inp o1 o2 :
  R s1 s2 -> R (set_bufs s1 ((id1, inp) :: o1)) (set_bufs s2 ((id2, inp) :: o2)).
Proof.
  intros (A & B & C & D & E & F). unfold R, set_bufs. cbn [l_sc l_rderr l_inc l_bufs l_q top].
  refine (conj _ (conj _ (conj _ (conj _ (conj _ _))))); auto.
Qed.

Lemma R_clear_rderr s1 s2 : R s1 s2 -> R (clear_rderr s1) (clear_rderr s2).
Proof.
  intros (A & B & C & D & E & F). unfold R, clear_rderr. cbn [l_sc l_rderr l_inc l_bufs l_q].
  refine (conj _ (conj _ (conj _ (conj _ (conj _ _))))); auto.
Qed.

(* ---- actions that read the scratch buffer into a token value ---- *)
Definition obs (a : action) : bool := match a with A_str_end | A_qend_comment => true | _ => false end.

Lemma initial_obs_sweep : forallb (fun r => negb (obs (r_act r))) (active_rules INITIAL) = true.
Proof. vm_compute. reflexivity. Qed.

Lemma initial_no_obs i r : nth_error (active_rules INITIAL) i = Some r -> obs (r_act r) = false.
Proof.
  intros H. apply nth_error_In in H. pose proof initial_obs_sweep as S. rewrite forallb_forall in S.
  apply S in H. apply negb_true_iff in H. exact H.
Qed.

Definition out_R (a b : outcome) : Prop :=
  match a, b with
  | Continue s _, Continue s' _ => R s s'
  | Return t v s _ _, Return t' v' s' _ _ => t = t' /\ v = v' /\ R s s'
  | _, _ => False
  end.

Ltac frame_tac := unfold frame', set_q, set_sc, qbeg; cbn; auto.

Ltac Q_tac :=
  repeat first [ assumption | apply Q_putc | apply Q_puts
               | eapply Q_reset; eassumption | eapply Q_qmat; eassumption ].

Ltac R_tac s1 s2 HR :=
  apply (R_intro s1 s2); [exact HR | frame_tac | frame_tac | cbn [l_sc set_q set_sc qbeg]; auto | ];
  cbn [l_sc l_q set_q set_sc qbeg].

Lemma run_action_R e a y s1 s2 p1 p2 :
  R s1 s2 -> (obs a = true -> l_sc s1 <> INITIAL) ->
  out_R (run_action e a y s1 p1) (run_action e a y s2 p2).
Proof.
  intros HR Ho. pose proof HR as (Hsc & _ & _ & _ & _ & HQ).
  destruct a; cbn [run_action]; rewrite ?qend_trim_eq;
    repeat match goal with
    | |- context [match env_lookup e y with _ => _ end] => destruct (env_lookup e y)
    | |- context [if (?a <? ?b)%N then _ else _] => destruct (a <? b)%N
    end; cbn [out_R].
  - (* A_skip *) exact HR.
  - (* A_qstr *)
    cbn [l_q set_q set_sc qbeg].
    assert (Q comment (qputs (q_reset (l_q s1)) (cstr (drop_run (Nb skip) y))) (qputs (q_reset (l_q s2)) (cstr (drop_run (Nb skip) y)))) as HQ'.
    { apply Q_puts. eapply Q_reset; eassumption. }
    split; [reflexivity|]. split.
    + f_equal. f_equal. apply (Q_qmat_data comment); [exact HQ'|discriminate].
    + R_tac s1 s2 HR. eapply Q_qmat; eassumption.
  - (* A_punct *) auto.
  - (* A_begin_comment *) R_tac s1 s2 HR. eapply Q_reset; eassumption.
  - (* A_qput *) R_tac s1 s2 HR. Q_tac.
  - (* A_qput_nl *) R_tac s1 s2 HR. Q_tac.
  - (* A_qend_comment *)
    specialize (Ho eq_refl). split; [reflexivity|]. split.
    + f_equal. f_equal. apply (Q_qmat_data (l_sc s1)); assumption.
    + R_tac s1 s2 HR. eapply Q_qmat; eassumption.
  - (* A_begin_dq *) R_tac s1 s2 HR. eapply Q_reset; eassumption.
  - (* A_begin_sq *) R_tac s1 s2 HR. eapply Q_reset; eassumption.
  - (* A_str_end *)
    specialize (Ho eq_refl). split; [reflexivity|]. split.
    + f_equal. f_equal. apply (Q_data (l_sc s1)); assumption.
    + R_tac s1 s2 HR. eapply Q_initial. apply Q_putc. eassumption.
  - (* A_env_dq, found *) R_tac s1 s2 HR. Q_tac.
  - (* A_env_dq, not found *) exact HR.
  - (* A_env_initial *) auto.
  - auto.
  - (* A_putc_nl_line *) R_tac s1 s2 HR. Q_tac.
  - (* A_line *) exact HR.
  - (* A_octal *) auto.
  - R_tac s1 s2 HR. Q_tac.
  - (* A_bad_escape *) auto.
  - (* A_hex *) R_tac s1 s2 HR. Q_tac.
  - (* A_putc_lit *) R_tac s1 s2 HR. Q_tac.
  - (* A_putc_yy0 *) R_tac s1 s2 HR. Q_tac.
  - (* A_putc_yy1 *) R_tac s1 s2 HR. Q_tac.
  - (* A_putc_yy01 *) R_tac s1 s2 HR. Q_tac.
  - (* A_put_all *) R_tac s1 s2 HR. Q_tac.
  - (* A_word *) auto.
  - (* A_unrecognised *) auto.
Qed.

(* the end-of-buffer rule, include stack empty *)
Lemma run_eof_R a s1 s2 p1 p2 : R s1 s2 -> out_R (fst (run_eof a s1 p1)) (fst (run_eof a s2 p2)).
Proof.
  intros HR. pose proof HR as (A & B & C & D & E & F). unfold run_eof.
  destruct a as [[| | |k]|]; cbn [fst out_R]; auto.
  rewrite <- B. destruct (l_rderr s1).
  - cbn [fst out_R]. split; [reflexivity|]. split; [reflexivity|]. apply R_clear_rderr, HR.
  - rewrite C, D. cbn [fst out_R]. auto.
Qed.

(* ---- one iteration ---- *)
Definition step_R (a b : lstep) : Prop :=
  match a, b with
  | LCont s _ _, LCont s' _ _ => R s s'
  | LRet t v s _ _ _, LRet t' v' s' _ _ _ => t = t' /\ v = v' /\ R s s'
  | _, _ => False
  end.

Lemma lex_step_R e s1 s2 p1 p2 : R s1 s2 -> step_R (lex_step e s1 p1) (lex_step e s2 p2).
Proof.
  intros HR. pose proof HR as (Hsc & Hrd & Hi1 & Hi2 & Ht & HQ). unfold lex_step.
  destruct (l_bufs s1) as [|[id1 inp] o1] eqn:Hb1; destruct (l_bufs s2) as [|[id2 inp2] o2] eqn:Hb2;
    cbn [top] in Ht; try discriminate.
  - cbn [step_R]. auto.
  - injection Ht as <-. rewrite <- Hsc.
    destruct (munch (active_res (l_sc s1)) inp 0 None) as [[i n]|] eqn:Hm.
    + pose proof (R_set_bufs s1 s2 id1 id2 (skipn n inp) o1 o2 HR) as HR'.
      destruct (nth_error (active_rules (l_sc s1)) i) as [r|] eqn:Hn.
      * assert (Ho : obs (r_act r) = true -> l_sc (set_bufs s1 ((id1, skipn n inp) :: o1)) <> INITIAL).
        { intros Ho Hc. cbn [set_bufs l_sc] in Hc. rewrite Hc in Hn. apply initial_no_obs in Hn. congruence. }
        pose proof (run_action_R e (r_act r) (firstn n inp) _ _ p1 p2 HR' Ho) as H.
        destruct (run_action e (r_act r) (firstn n inp) (set_bufs s1 ((id1, skipn n inp) :: o1)) p1);
        destruct (run_action e (r_act r) (firstn n inp) (set_bufs s2 ((id2, skipn n inp) :: o2)) p2);
          cbn [out_R step_R] in *; auto.
      * cbn [step_R]. auto.
    + destruct inp as [|c rest].
      * pose proof (run_eof_R (eof_action_of (l_sc s1)) s1 s2 p1 p2 HR) as H.
        destruct (run_eof (eof_action_of (l_sc s1)) s1 p1) as [x1 k1];
        destruct (run_eof (eof_action_of (l_sc s1)) s2 p2) as [x2 k2]. cbn [fst] in H.
        destruct x1; destruct x2; cbn [out_R step_R] in *; auto.
      * exfalso. destruct (munch_covered (l_sc s1) c rest) as [b Hb']. congruence.
Qed.

(* ---- cfg_yylex, any fuels that do not run out ---- *)
Lemma yylex_R e : forall f1 f2 s1 s2 p1 p2 c1 c2, R s1 s2 ->
  r_fuel_out (yylex e f1 s1 p1 c1) = false -> r_fuel_out (yylex e f2 s2 p2 c2) = false ->
  r_tok (yylex e f1 s1 p1 c1) = r_tok (yylex e f2 s2 p2 c2) /\
  r_val (yylex e f1 s1 p1 c1) = r_val (yylex e f2 s2 p2 c2) /\
  R (r_st (yylex e f1 s1 p1 c1)) (r_st (yylex e f2 s2 p2 c2)).
Proof.
  induction f1 as [|f1 IH]; intros f2 s1 s2 p1 p2 c1 c2 HR; [cbn [yylex r_fuel_out]; discriminate|].
  destruct f2 as [|f2]; [cbn [yylex r_fuel_out]; discriminate|]. cbn [yylex].
  pose proof (lex_step_R e s1 s2 p1 p2 HR) as H.
  destruct (lex_step e s1 p1) as [a1 q1 k1|t1 v1 a1 q1 d1 k1]; destruct (lex_step e s2 p2) as [a2 q2 k2|t2 v2 a2 q2 d2 k2];
    cbn [step_R] in H; try contradiction.
  - apply IH. exact H.
  - intros _ _. cbn [r_tok r_val r_st]. exact H.
Qed.

Definition pos0 : pos := {| p_file := None; p_line := 0 |}.

(* a token delivered from s1 is delivered from every related s2, into a related state *)
Lemma tok_at_R e s1 s2 t v s1' : R s1 s2 -> t <> TErr -> tok_at e s1 t v s1' ->
  exists s2', tok_at e s2 t v s2' /\ R s1' s2' /\ (measure s2' <= measure s2)%nat.
Proof.
  intros HR Ht [_ H]. specialize (H pos0 (lex_fuel s1)). cbv zeta in H.
  rewrite lex_fuel_measure in H. specialize (H (Nat.lt_succ_diag_r _)). rewrite <- lex_fuel_measure in H.
  destruct H as (A & B & C & _ & _ & F).
  destruct (yylex_R e (lex_fuel s1) (lex_fuel s2) s1 s2 pos0 pos0 0 0 HR F (yylex_lex_fuel_suffices e s2 pos0 0)) as (T & V & S).
  rewrite A in T. rewrite B in V. rewrite C in S.
  pose proof HR as (_ & _ & _ & Hi2 & _).
  pose proof (tok_at_pos_indep e s2 pos0) as K. cbv zeta in K. specialize (K Hi2).
  rewrite <- T, <- V in K.
  exists (r_st (yylex e (lex_fuel s2) s2 pos0 0)). split; [apply K, Ht|]. split; [exact S|apply yylex_measure_le].
Qed.

Theorem yields_R e : forall s1 ts, yields e s1 ts -> forall s2, R s1 s2 -> yields e s2 ts.
Proof.
  induction 1 as [s1 s1' Ht|s1 s1' t ts N1 N2 N3 Ht Hm Hy IH]; intros s2 HR.
  - destruct (tok_at_R e s1 s2 TEof None s1' HR) as (s2' & T & _); [discriminate|exact Ht|].
    apply Y_eof with (s' := s2'). exact T.
  - destruct (tok_at_R e s1 s2 (lt_tok t) (lt_val t) s1' HR N2 Ht) as (s2' & T & S & M).
    apply Y_cons with (s' := s2'); auto.
Qed.

Lemma R_scan_begin s1 s2 inp :
  l_inc s1 = [] -> l_inc s2 = [] -> q_inv (l_q s1) -> q_inv (l_q s2) -> R (scan_begin s1 inp) (scan_begin s2 inp).
Proof.
  intros A B C D. unfold R, scan_begin. cbn [l_sc l_rderr l_inc l_bufs l_q top].
  refine (conj _ (conj _ (conj _ (conj _ (conj _ _))))); auto.
  split; [exact C|]. split; [exact D|]. intros H; contradiction H; reflexivity.
Qed.

(* after the pushed buffer is popped the scanner is again related to the one it was pushed on *)
Lemma R_pop : forall s s2, tbs s -> tbs s2 -> tl (l_bufs s2) = l_bufs s -> R s (scan_end s2).
Proof.
  intros s s2 (A1 & B1 & C1 & D1) (A2 & B2 & C2 & D2) H. unfold R, scan_end. cbn [l_sc l_rderr l_inc l_bufs l_q].
  rewrite H, A1, B1, B2. refine (conj _ (conj _ (conj _ (conj _ (conj _ _))))); auto.
  split; [exact D1|]. split; [apply q_inv_empty|]. intros K; contradiction K; reflexivity.
Qed.

Theorem yields_frame : forall e s1 s2 inp ts, l_inc s1 = [] -> l_inc s2 = [] -> q_inv (l_q s1) -> q_inv (l_q s2) ->
  yields e (scan_begin s1 inp) ts -> yields e (scan_begin s2 inp) ts.
Proof.
  intros e s1 s2 inp ts A B C D H. apply (yields_R e _ _ H). apply R_scan_begin; assumption.
Qed.

Corollary yields_of_fresh : forall e s inp fuel p ts s' p' d, l_inc s = [] -> q_inv (l_q s) ->
  lex_all e fuel (scan_begin lex_init inp) p [] [] = (ts, TEof, s', p', d) -> yields e (scan_begin s inp) ts.
Proof.
  intros e s inp fuel p ts s' p' d A B H.
  apply (yields_frame e lex_init s inp ts); auto; try apply q_inv_empty.
  apply (lex_all_yields e fuel (scan_begin lex_init inp) p ts s' p' d); [reflexivity|exact H].
Qed.

Print Assumptions yields_R.
Print Assumptions yields_frame.
Print Assumptions yields_of_fresh.
Print Assumptions tok_at_R.
Print Assumptions R_pop.
