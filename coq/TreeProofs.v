(* TreeProofs.v — C16, frame: an update inside one section instance is invisible in every
   other instance (sibling instances of a multi section, other sections, other contexts). *)
From Coq Require Import List Arith NArith Bool Lia.
From Coq.Strings Require Import Byte.
From LC Require Import Bytes Store.
Import ListNotations.

Lemma nth_upd_nth_neq {A} (l : list A) i j f : i <> j -> nth_error (upd_nth l i f) j = nth_error l j.
Proof.
  revert i j. induction l as [|x l IH]; intros [|i] [|j] H; cbn; try reflexivity; try congruence.
  apply IH. congruence.
Qed.

Lemma nth_upd_nth_eq {A} (l : list A) i f : nth_error (upd_nth l i f) i = option_map f (nth_error l i).
Proof. revert i. induction l as [|x l IH]; intros [|i]; cbn; auto. Qed.

Lemma c_opts_set_opts c o : c_opts (set_opts c o) = o.
Proof. destruct c; reflexivity. Qed.
Lemma o_vals_set_vals o v : o_vals (set_vals o v) = v.
Proof. destruct o; reflexivity. Qed.

(* the two positions part ways at their first step *)
Lemma get_upd_sec_diverge_head c a p b q f :
  a <> b -> get_sec (upd_sec c (a :: p) f) (b :: q) = get_sec c (b :: q).
Proof.
  destruct a as [i v], b as [j u]. intros Hab. cbn [upd_sec get_sec]. rewrite c_opts_set_opts.
  destruct (Nat.eq_dec i j) as [->|Hij].
  - rewrite nth_upd_nth_eq. destruct (nth_error (c_opts c) j) as [o|]; [|reflexivity]. cbn [option_map].
    unfold nth_sec. rewrite o_vals_set_vals.
    assert (Hvu : v <> u) by congruence. rewrite (nth_upd_nth_neq _ v u _ Hvu). reflexivity.
  - rewrite (nth_upd_nth_neq _ i j _ Hij). reflexivity.
Qed.

(* general form: a common prefix, then different steps *)
Theorem get_upd_sec_diverge : forall common c a p b q f,
  a <> b -> get_sec (upd_sec c (common ++ a :: p) f) (common ++ b :: q) = get_sec c (common ++ b :: q).
Proof.
  induction common as [|[i v] common IH]; intros c a p b q f Hab.
  - apply get_upd_sec_diverge_head. exact Hab.
  - cbn [app upd_sec get_sec]. rewrite c_opts_set_opts, nth_upd_nth_eq.
    destruct (nth_error (c_opts c) i) as [o|]; [|reflexivity]. cbn [option_map].
    unfold nth_sec. rewrite o_vals_set_vals, nth_upd_nth_eq.
    destruct (nth_error (o_vals o) v) as [[| | | |[s|]|]|]; cbn [option_map]; try reflexivity.
    apply IH. exact Hab.
Qed.

(* an option of another instance is untouched by put_opt / upd_opt in this one *)
Corollary get_opt_upd_opt_diverge common c a p b q i j f :
  a <> b -> get_opt (upd_opt c (common ++ a :: p, i) f) (common ++ b :: q, j) = get_opt c (common ++ b :: q, j).
Proof.
  intros Hab. unfold get_opt, upd_opt. cbn [fst snd]. rewrite get_upd_sec_diverge by exact Hab. reflexivity.
Qed.
