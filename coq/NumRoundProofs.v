(* NumRoundProofs.v — C05, numeric part: what the printer writes for an integer, a boolean or a float
   is read back by the conversions of cfg_setopt as the same value, and is scanned as ONE unquoted word.
   Statements are collected in Properties_C05b.v. *)
From Coq Require String.
Import String.StringSyntax.
From Coq Require Import List Arith NArith ZArith Bool Lia.
From Coq.Strings Require Import Byte.
From LC Require Import Bytes Flex LexAct LexRules Consts Lexer LexLemmas DqProofs Conv Store Print ConvSpec ConvProofs.
Import ListNotations.
Local Open Scope string_scope.
Local Open Scope list_scope.

(* ------------------------------------------------------------------ *)
(* the ten digit bytes                                                  *)
(* ------------------------------------------------------------------ *)

Definition dig (d : N) : byte := Nb (48 + d)%N.

Lemma lt10_cases d : (d < 10)%N ->
  d = 0%N \/ d = 1%N \/ d = 2%N \/ d = 3%N \/ d = 4%N \/ d = 5%N \/ d = 6%N \/ d = 7%N \/ d = 8%N \/ d = 9%N.
Proof. lia. Qed.

Lemma dig_props d : (d < 10)%N ->
  is_digit (dig d) = true /\ digit_val (dig d) = Some d /\ Byte.eqb (dig d) x30 = (d =? 0)%N.
Proof.
  intros H. apply lt10_cases in H.
  repeat (destruct H as [H|H]; [subst d; vm_compute; repeat split; reflexivity|]).
  subst d; vm_compute; repeat split; reflexivity.
Qed.

Lemma digit_not_sign c : is_digit c = true -> Byte.eqb c x2d = false /\ Byte.eqb c x2b = false /\ is_space c = false.
Proof.
  intros H.
  assert (negb (Byte.eqb c x2d) && negb (Byte.eqb c x2b) && negb (is_space c) = true) as E.
  { revert c H. apply (sweep_imp is_digit (fun c => negb (Byte.eqb c x2d) && negb (Byte.eqb c x2b) && negb (is_space c))).
    vm_compute. reflexivity. }
  apply andb_prop in E as [E E3]. apply andb_prop in E as [E1 E2].
  apply negb_true_iff in E1, E2, E3. auto.
Qed.

(* ------------------------------------------------------------------ *)
(* print_N writes the canonical decimal numeral                         *)
(* ------------------------------------------------------------------ *)

Lemma log2_div10 n : (10 <= n)%N -> (N.to_nat (N.log2 (n / 10)) < N.to_nat (N.log2 n))%nat.
Proof.
  intros H.
  assert (0 < n / 10)%N as Hpos by (apply N.div_str_pos; lia).
  assert (2 * (n / 10) <= n)%N as Hle.
  { pose proof (N.mul_div_le n 10 ltac:(lia)). lia. }
  pose proof (N.log2_le_mono _ _ Hle) as Hm.
  rewrite (N.log2_double _ Hpos) in Hm. lia.
Qed.

Lemma step_dig acc d : (d < 10)%N -> step 10 acc (dig d) = (acc * 10 + d)%N.
Proof. intros H. unfold step. destruct (dig_props d H) as (_ & -> & _). reflexivity. Qed.

Lemma pos_digits_S f n acc :
  pos_digits (S f) n acc =
  if (n <? 10)%N then dig (n mod 10) :: acc else pos_digits f (n / 10)%N (dig (n mod 10) :: acc).
Proof. reflexivity. Qed.

Lemma mod10_lt n : (n mod 10 < 10)%N.
Proof. apply N.mod_lt. lia. Qed.

(* the fuel S (log2 n) suffices: the value of the digits written in front of acc is n *)
Lemma pos_digits_val : forall f n acc,
  (N.to_nat (N.log2 n) < f)%nat ->
  fold_left (step 10) (pos_digits f n acc) 0%N = fold_left (step 10) acc n.
Proof.
  induction f as [|f IH]; intros n acc Hf; [lia|].
  rewrite pos_digits_S. destruct (n <? 10)%N eqn:E.
  - apply N.ltb_lt in E. cbn [fold_left]. rewrite (step_dig 0 _ (mod10_lt n)).
    rewrite (N.mod_small n 10 E). reflexivity.
  - apply N.ltb_ge in E. rewrite IH by (pose proof (log2_div10 n E); lia).
    cbn [fold_left]. rewrite (step_dig _ _ (mod10_lt n)).
    f_equal. pose proof (N.div_mod' n 10). lia.
Qed.

Lemma pos_digits_all : forall f n acc,
  forallb is_digit acc = true -> forallb is_digit (pos_digits f n acc) = true.
Proof.
  induction f as [|f IH]; intros n acc Ha; [exact Ha|].
  rewrite pos_digits_S.
  assert (forallb is_digit (dig (n mod 10) :: acc) = true) as Hd.
  { cbn [forallb]. destruct (dig_props _ (mod10_lt n)) as (-> & _ & _). exact Ha. }
  destruct (n <? 10)%N; [exact Hd|apply IH; exact Hd].
Qed.

(* the first digit written for a positive number is not 0 *)
Lemma pos_digits_head : forall f n acc,
  (N.to_nat (N.log2 n) < f)%nat -> (0 < n)%N ->
  exists d r, pos_digits f n acc = dig d :: r /\ (0 < d < 10)%N.
Proof.
  induction f as [|f IH]; intros n acc Hf Hn; [lia|].
  rewrite pos_digits_S. destruct (n <? 10)%N eqn:E.
  - apply N.ltb_lt in E. exists (n mod 10)%N, acc. split; [reflexivity|].
    rewrite (N.mod_small n 10 E). lia.
  - apply N.ltb_ge in E. apply IH; [pose proof (log2_div10 n E); lia|apply N.div_str_pos; lia].
Qed.

Lemma print_N_fuel n : (N.to_nat (N.log2 n) < S (N.to_nat (N.log2 n)))%nat.
Proof. lia. Qed.

Lemma print_N_digits n : forallb is_digit (print_N n) = true.
Proof. unfold print_N. apply pos_digits_all. reflexivity. Qed.

Lemma print_N_value n : pos_value 10 (print_N n) = n.
Proof. rewrite pos_value_fold. unfold print_N. rewrite pos_digits_val by apply print_N_fuel. reflexivity. Qed.

Lemma print_N_zero : print_N 0 = [x30].
Proof. reflexivity. Qed.

Lemma print_N_head n : (0 < n)%N ->
  exists c r, print_N n = c :: r /\ is_digit c = true /\ Byte.eqb c x30 = false.
Proof.
  intros Hn. destruct (pos_digits_head _ n [] (print_N_fuel n) Hn) as (d & r & E & Hd).
  exists (dig d), r. split; [exact E|].
  destruct (dig_props d (proj2 Hd)) as (H1 & _ & H3). split; [exact H1|].
  rewrite H3. apply N.eqb_neq. lia.
Qed.

(* canonical: no leading zero unless the number is 0 (a leading "0" would select octal) *)
Lemma print_N_canonical n :
  exists c r, print_N n = c :: r /\ forallb is_digit (c :: r) = true /\
              (Byte.eqb c x30 = true -> n = 0%N /\ r = []).
Proof.
  destruct (N.eq_dec n 0) as [->|Hn].
  - exists x30, []. repeat split; reflexivity.
  - destruct (print_N_head n ltac:(lia)) as (c & r & E & _ & H0).
    exists c, r. split; [exact E|]. split; [rewrite <- E; apply print_N_digits|].
    intros H. congruence.
Qed.

(* the strtol digit loop reads the whole numeral *)
Lemma digits_print_N n : digits 10 (print_N n) 0%N 0%nat = (n, [], length (print_N n)).
Proof.
  rewrite (digits_all 10 (print_N n) 0%N 0%nat).
  - rewrite <- pos_value_fold, print_N_value, Nat.add_0_r. reflexivity.
  - rewrite <- (forallb_ext' _ _ is_digit_dlt). apply print_N_digits.
Qed.

(* ------------------------------------------------------------------ *)
(* the numeral grammar reads print_Z z as z                             *)
(* ------------------------------------------------------------------ *)

Lemma c_unsigned_dec c0 tl :
  Byte.eqb c0 x30 = false -> forallb is_digit (c0 :: tl) = true ->
  c_unsigned (c0 :: tl) = Some (pos_value 10 (c0 :: tl)).
Proof.
  intros E H. destruct tl as [|c1 ds].
  - cbn [forallb] in H. rewrite andb_true_r in H. cbn [c_unsigned]. rewrite H. reflexivity.
  - cbn [c_unsigned]. rewrite E. cbn [andb]. rewrite H. reflexivity.
Qed.

Lemma c_unsigned_print_N n : (0 < n)%N -> c_unsigned (print_N n) = Some n.
Proof.
  intros Hn. destruct (print_N_head n Hn) as (c & r & E & _ & H0).
  pose proof (print_N_digits n) as Hd. pose proof (print_N_value n) as Hv.
  rewrite E in Hd, Hv |- *. rewrite (c_unsigned_dec c r H0 Hd), Hv. reflexivity.
Qed.

Lemma int_numeral_print_N n : int_numeral (print_N n) = Some (Z.of_N n).
Proof.
  destruct (N.eq_dec n 0) as [->|Hn]; [reflexivity|].
  assert (0 < n)%N as Hpos by lia.
  pose proof (c_unsigned_print_N n Hpos) as Hc.
  destruct (print_N_head n Hpos) as (c & r & E & Hd & H0).
  rewrite E in Hc |- *. destruct (digit_not_sign c Hd) as (Em & Ep & _).
  cbn [int_numeral]. rewrite H0, Em, Ep, Hc. reflexivity.
Qed.

Theorem int_numeral_print_Z z : int_numeral (print_Z z) = Some z.
Proof.
  destruct z as [|p|p].
  - reflexivity.
  - cbn [print_Z Z.to_N]. rewrite int_numeral_print_N. reflexivity.
  - cbn [print_Z int_numeral]. change (Byte.eqb x2d x30) with false. change (Byte.eqb x2d x2d) with true.
    cbv iota. rewrite (c_unsigned_print_N (Npos p)) by lia. reflexivity.
Qed.

Lemma print_Z_no_lead_space z : no_lead_space (print_Z z).
Proof.
  assert (forall n, no_lead_space (print_N n)) as HN.
  { intros n. destruct (print_N_canonical n) as (c & r & E & Hd & _). rewrite E. cbn [no_lead_space].
    cbn [forallb] in Hd. apply andb_prop in Hd as [Hd _]. apply (digit_not_sign c Hd). }
  destruct z as [|p|p]; [apply HN|apply HN|reflexivity].
Qed.

Theorem int_spec_print_Z z : in_long z = true -> int_spec (print_Z z) = COk z.
Proof. intros H. unfold int_spec. rewrite int_numeral_print_Z, H. reflexivity. Qed.

Lemma in_long_iff z : in_long z = true <-> (- 2 ^ 63 <= z < 2 ^ 63)%Z.
Proof.
  unfold in_long, LONG_MIN, LONG_MAX. rewrite andb_true_iff, !Z.leb_le.
  change (2 ^ 63)%Z with 9223372036854775808%Z. lia.
Qed.

Theorem conv_int_print_Z z : (- 2 ^ 63 <= z < 2 ^ 63)%Z -> conv_int (print_Z z) = COk z.
Proof.
  intros H. rewrite (conv_int_exact _ (print_Z_no_lead_space z)).
  apply int_spec_print_Z, in_long_iff, H.
Qed.

(* outside the long range printf("%ld") could not have produced the text; the model conversion of the
   mathematical numeral reports a range error rather than a wrong value *)
Theorem conv_int_print_Z_out z : ~ (- 2 ^ 63 <= z < 2 ^ 63)%Z -> conv_int (print_Z z) = CRange.
Proof.
  intros H. rewrite (conv_int_exact _ (print_Z_no_lead_space z)).
  unfold int_spec. rewrite int_numeral_print_Z.
  destruct (in_long z) eqn:E; [apply in_long_iff in E; contradiction|reflexivity].
Qed.

(* the strtol model itself, base 10 and base 0 *)
Lemma strtol_print_Z z : in_long z = true ->
  strtol (print_Z z) 0 = {| sl_val := z; sl_rest := []; sl_erange := false; sl_noconv := false |}.
Proof.
  intros Hz. rewrite strtol_eq.
  assert (forall n neg orig, (0 < n)%N -> in_long (sgn neg n) = true ->
          (let '(b, s3) := prefix 0 (print_N n) in finish orig neg b s3) =
          {| sl_val := sgn neg n; sl_rest := []; sl_erange := false; sl_noconv := false |}) as HP.
  { intros n neg orig Hn Hl. destruct (print_N_head n Hn) as (c & r & E & Hd & H0).
    assert (prefix 0 (print_N n) = (10%N, print_N n)) as ->.
    { rewrite E. unfold prefix. rewrite H0. cbn [andb orb N.eqb]. destruct r as [|c1 [|c2 r]]; reflexivity. }
    unfold finish. rewrite digits_print_N. rewrite E at 1. cbn [length].
    fold (sgn neg n). rewrite Hl. reflexivity. }
  destruct z as [|p|p].
  - reflexivity.
  - cbn [print_Z Z.to_N].
    destruct (print_N_head (Npos p) ltac:(lia)) as (c & r & E & Hd & H0).
    destruct (digit_not_sign c Hd) as (Em & Ep & Es).
    assert (sign (skip (print_N (N.pos p))) = (false, print_N (N.pos p))) as ->.
    { rewrite E, (skip_nospace c r Es). unfold sign. rewrite Em, Ep. reflexivity. }
    apply (HP (Npos p) false); [lia|exact Hz].
  - cbn [print_Z]. rewrite (skip_nospace x2d _ eq_refl). unfold sign. change (Byte.eqb x2d x2d) with true. cbv iota.
    apply (HP (Npos p) true); [lia|exact Hz].
Qed.

(* ------------------------------------------------------------------ *)
(* booleans                                                             *)
(* ------------------------------------------------------------------ *)

Definition print_bool (b : bool) : str := M (if b then "true" else "false").

Theorem conv_bool_print b : conv_bool (print_bool b) = Some b.
Proof. destruct b; vm_compute; reflexivity. Qed.

Lemma nprint_var_bool fmt_f o b :
  o_kind o = KBool -> nth_error (o_vals o) 0 = Some (VBool b) -> nprint_var fmt_f o 0 = print_bool b.
Proof. intros Hk Hv. unfold nprint_var. rewrite Hk, Hv. reflexivity. Qed.

Lemma nprint_var_int fmt_f o z :
  o_kind o = KInt -> nth_error (o_vals o) 0 = Some (VInt z) -> nprint_var fmt_f o 0 = print_Z z.
Proof. intros Hk Hv. unfold nprint_var. rewrite Hk, Hv. reflexivity. Qed.

(* ------------------------------------------------------------------ *)
(* floats, modulo the libc oracles                                      *)
(* ------------------------------------------------------------------ *)

Theorem conv_float_print_modulo_libc (fmt_f : N -> str) (strtod : str -> strtod_res) (x x' : N) :
  fmt_f x <> [] ->
  strtod (fmt_f x) = {| sd_bits := x'; sd_consumed := length (fmt_f x); sd_erange := false |} ->
  conv_float strtod (fmt_f x) = COk x'.
Proof.
  intros Hne Hs. unfold conv_float. rewrite Hs. cbn [sd_consumed sd_erange sd_bits].
  rewrite Nat.ltb_irrefl. destruct (fmt_f x) as [|c r]; [contradiction|]. reflexivity.
Qed.

(* the only ways the library rejects the printed text: strtod stops early, or reports ERANGE *)
Theorem conv_float_print_cases (fmt_f : N -> str) (strtod : str -> strtod_res) (x : N) :
  let r := strtod (fmt_f x) in
  conv_float strtod (fmt_f x) =
  if (sd_consumed r =? 0)%nat || (sd_consumed r <? length (fmt_f x))%nat then CInvalid
  else if sd_erange r then CRange else COk (sd_bits r).
Proof. reflexivity. Qed.

(* ------------------------------------------------------------------ *)
(* the scanner: an unquoted word is ONE CFGT_STR token                  *)
(* ------------------------------------------------------------------ *)

(* the bytes that end an unquoted word: tab, newline, CR, space, double quote, hash, single quote,
   both parentheses, star, plus, comma, equals, both braces *)
Definition word_delim (c : byte) : bool :=
  existsb (Byte.eqb c) [x09; x0a; x0d; x20; x22; x23; x27; x28; x29; x2a; x2b; x2c; x3d; x7b; x7d].
(* bytes that continue a word; '/' is left out (it starts comments and has a two-state residual) *)
Definition word_mid (c : byte) : bool := negb (word_delim c) && negb (Byte.eqb c x2f).
(* bytes that can start a simple word: additionally not '$' (which may start ${...}) *)
Definition word_start (c : byte) : bool := word_mid c && negb (Byte.eqb c x24).

(* a residual vector V accepting rule i that K-bytes leave unchanged and F-bytes kill *)
Lemma munch_loop_follow V (K F : byte -> bool) i :
  first_nullable V 0 = Some i -> forallb is_emp V = false ->
  (forall c, K c = true -> map (deriv c) V = V) ->
  (forall c, F c = true -> dies_on V c = true) ->
  forall run rest n, Forall (fun c => K c = true) run -> follows F rest ->
  munch V (run ++ rest) n (Some (i, n)) = Some (i, (n + length run)%nat).
Proof.
  intros Hfn Hne HK HF. induction run as [|c run IH]; intros rest n Hr Hf.
  - cbn [app length]. rewrite Nat.add_0_r. destruct rest as [|c rest]; [reflexivity|].
    apply munch_dies. apply HF. exact Hf.
  - inversion Hr as [|? ? Hc Hr']; subst. cbn [app munch].
    rewrite (HK c Hc), Hne, Hfn. rewrite IH by assumption. cbn [length]. f_equal. f_equal. lia.
Qed.

(* the computed facts about a rule table that make the word lemma go through *)
Definition word_ok (R : list re) (A : list rule) : bool :=
  let V1 := map (deriv x30) R in
  let V2 := map (deriv x30) V1 in
  match first_nullable V1 0, first_nullable V2 0 with
  | Some i, Some j =>
      Nat.eqb i j && match nth_error A i with Some r => action_eqb (r_act r) A_word | None => false end
  | _, _ => false
  end &&
  negb (forallb is_emp V1) && negb (forallb is_emp V2) &&
  forallb (fun c => implb (word_start c) (vec_eqb (map (deriv c) R) V1)) all_bytes &&
  forallb (fun c => implb (word_mid c) (vec_eqb (map (deriv c) V1) V2 && vec_eqb (map (deriv c) V2) V2)) all_bytes &&
  forallb (fun c => implb (word_delim c) (dies_on V1 c && dies_on V2 c)) all_bytes.

Lemma word_munch_gen R A : word_ok R A = true ->
  forall c run rest, word_start c = true -> Forall (fun b => word_mid b = true) run -> follows word_delim rest ->
  exists j r, munch R ((c :: run) ++ rest) 0 None = Some (j, length (c :: run))
              /\ nth_error A j = Some r /\ r_act r = A_word.
Proof.
  unfold word_ok. set (V1 := map (deriv x30) R). set (V2 := map (deriv x30) V1).
  intros H c run rest Hc Hrun Hf.
  apply andb_prop in H as [H S3]. apply andb_prop in H as [H S2]. apply andb_prop in H as [H S1].
  apply andb_prop in H as [H N2]. apply andb_prop in H as [H N1].
  apply negb_true_iff in N1, N2.
  destruct (first_nullable V1 0) as [i|] eqn:F1; [|discriminate].
  destruct (first_nullable V2 0) as [j|] eqn:F2; [|discriminate].
  apply andb_prop in H as [Hij Hact]. apply Nat.eqb_eq in Hij. subst j.
  destruct (nth_error A i) as [r|] eqn:Hr; [|discriminate]. apply action_eqb_eq in Hact.
  exists i, r. split; [|split; assumption].
  assert (map (deriv c) R = V1) as E1.
  { apply vec_eqb_eq. exact (sweep_impl _ _ S1 c Hc). }
  cbn [app]. rewrite munch_cons_alive by (rewrite E1; exact N1). rewrite E1, F1.
  destruct run as [|d run].
  - cbn [app length]. destruct rest as [|x rest]; [reflexivity|].
    apply munch_dies. pose proof (sweep_impl _ _ S3 x Hf) as Hx. apply andb_prop in Hx as [Hx _]. exact Hx.
  - inversion Hrun as [|? ? Hd Hrun']; subst.
    pose proof (sweep_impl _ _ S2 d Hd) as Hx. apply andb_prop in Hx as [Hx _]. apply vec_eqb_eq in Hx.
    cbn [app]. rewrite munch_cons_alive by (rewrite Hx; exact N2). rewrite Hx, F2.
    rewrite (munch_loop_follow V2 word_mid word_delim i F2 N2).
    + cbn [length]. reflexivity.
    + intros x Hxm. pose proof (sweep_impl _ _ S2 x Hxm) as Hy. apply andb_prop in Hy as [_ Hy].
      apply vec_eqb_eq. exact Hy.
    + intros x Hxd. pose proof (sweep_impl _ _ S3 x Hxd) as Hy. apply andb_prop in Hy as [_ Hy]. exact Hy.
    + exact Hrun'.
    + exact Hf.
Qed.

Lemma word_ok_true : word_ok (active_res INITIAL) (active_rules INITIAL) = true.
Proof. vm_compute. reflexivity. Qed.

Lemma word_munch c run rest :
  word_start c = true -> Forall (fun b => word_mid b = true) run -> follows word_delim rest ->
  exists j r, munch (active_res INITIAL) ((c :: run) ++ rest) 0 None = Some (j, length (c :: run))
              /\ nth_error (active_rules INITIAL) j = Some r /\ r_act r = A_word.
Proof. apply word_munch_gen. exact word_ok_true. Qed.

(* A simple word — first byte a word byte other than '/' and '$', further bytes word bytes other than
   '/' — followed by end of input or a delimiter byte, is returned by cfg_yylex from INITIAL as one
   CFGT_STR token whose value is the word (cut at its first NUL); nothing else changes. *)
Theorem word_token e c run st p closed id rest others fuel :
  word_start c = true -> Forall (fun b => word_mid b = true) run -> follows word_delim rest ->
  l_sc st = INITIAL -> l_bufs st = (id, (c :: run) ++ rest) :: others ->
  yylex e (S fuel) st p closed =
  {| r_tok := TStr; r_val := Some (cstr (c :: run)); r_st := set_bufs st ((id, rest) :: others); r_pos := p;
     r_diags := []; r_closed := closed; r_fuel_out := false |}.
Proof.
  intros Hc Hrun Hf Hsc Hb.
  destruct (word_munch c run rest Hc Hrun Hf) as (j & r & Hm & Hn & Ha).
  rewrite (yylex_step INITIAL e fuel st p closed id (c :: run) rest others j r Hsc Hb Hm Hn).
  rewrite Ha. reflexivity.
Qed.

(* ---- the printed integer is such a word ---- *)
Definition numeric_byte (c : byte) : bool := is_digit c || Byte.eqb c x2d.

Lemma numeric_word_sweep :
  forallb (fun c => implb (numeric_byte c) (word_start c && word_mid c && negb (Byte.eqb c x00))) all_bytes = true.
Proof. vm_compute. reflexivity. Qed.

Lemma numeric_word c : numeric_byte c = true -> word_start c = true /\ word_mid c = true /\ c <> x00.
Proof.
  intros H. pose proof (sweep_impl _ _ numeric_word_sweep c H) as E.
  apply andb_prop in E as [E E3]. apply andb_prop in E as [E1 E2].
  apply negb_true_iff, byte_eqb_neq in E3. auto.
Qed.

Lemma print_Z_numeric z : Forall (fun c => numeric_byte c = true) (print_Z z).
Proof.
  assert (forall n, Forall (fun c => numeric_byte c = true) (print_N n)) as HN.
  { intros n. pose proof (print_N_digits n) as H. rewrite forallb_forall in H.
    apply Forall_forall. intros c Hc. unfold numeric_byte. rewrite (H c Hc). reflexivity. }
  destruct z as [|p|p]; [apply HN|apply HN|].
  cbn [print_Z]. constructor; [reflexivity|apply HN].
Qed.

Lemma print_Z_nonempty z : exists c run, print_Z z = c :: run.
Proof.
  destruct z as [|p|p]; cbn [print_Z].
  - exists x30, []. reflexivity.
  - destruct (print_N_canonical (Z.to_N (Z.pos p))) as (c & r & E & _). eauto.
  - eauto.
Qed.

(* a word made of numeric bytes *)
Lemma numeric_token e w st p closed id rest others fuel :
  w <> [] -> Forall (fun c => numeric_byte c = true) w -> follows word_delim rest ->
  l_sc st = INITIAL -> l_bufs st = (id, w ++ rest) :: others ->
  yylex e (S fuel) st p closed =
  {| r_tok := TStr; r_val := Some w; r_st := set_bufs st ((id, rest) :: others); r_pos := p;
     r_diags := []; r_closed := closed; r_fuel_out := false |}.
Proof.
  intros Hne Hw Hf Hsc Hb. destruct w as [|c run]; [contradiction|].
  inversion Hw as [|? ? Hc Hrun]; subst.
  assert (cstr (c :: run) = c :: run) as Hcs.
  { apply cstr_no_nul. unfold no_nul. eapply Forall_impl; [|exact Hw]. intros a Ha. apply (numeric_word a Ha). }
  rewrite <- Hcs.
  apply word_token; try assumption.
  - apply (numeric_word c Hc).
  - eapply Forall_impl; [|exact Hrun]. intros a Ha. apply (numeric_word a Ha).
Qed.

Theorem int_token_reads_back e z st p closed id rest others fuel :
  follows word_delim rest -> l_sc st = INITIAL -> l_bufs st = (id, print_Z z ++ rest) :: others ->
  yylex e (S fuel) st p closed =
  {| r_tok := TStr; r_val := Some (print_Z z); r_st := set_bufs st ((id, rest) :: others); r_pos := p;
     r_diags := []; r_closed := closed; r_fuel_out := false |}.
Proof.
  intros Hf Hsc Hb. apply numeric_token; try assumption.
  - destruct (print_Z_nonempty z) as (c & run & E). rewrite E. discriminate.
  - apply print_Z_numeric.
Qed.

(* the printed booleans *)
Theorem bool_token_reads_back e b st p closed id rest others fuel :
  follows word_delim rest -> l_sc st = INITIAL -> l_bufs st = (id, print_bool b ++ rest) :: others ->
  yylex e (S fuel) st p closed =
  {| r_tok := TStr; r_val := Some (print_bool b); r_st := set_bufs st ((id, rest) :: others); r_pos := p;
     r_diags := []; r_closed := closed; r_fuel_out := false |}.
Proof.
  intros Hf Hsc Hb.
  assert (exists c run, print_bool b = c :: run /\ word_start c = true /\
                        forallb word_mid run = true /\ cstr (c :: run) = c :: run) as (c & run & E & Hc & Hrun & Hcs).
  { destruct b.
    - exists x74, [x72; x75; x65]. repeat split; vm_compute; reflexivity.
    - exists x66, [x61; x6c; x73; x65]. repeat split; vm_compute; reflexivity. }
  rewrite E in Hb |- *. rewrite <- Hcs.
  apply word_token; try assumption.
  apply Forall_forall. rewrite forallb_forall in Hrun. exact Hrun.
Qed.
