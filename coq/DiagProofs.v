(* DiagProofs.v — C06 at the parser level: diagnostics only grow; every STATE_ERROR of
   cfg_parse_internal is accompanied by a diagnostic or a failed user callback; so is every NULL of
   cfg_setopt except the two EINVAL returns for a NULL value (einval). *)
From Coq Require String.
Import String.StringSyntax.
From Coq Require Import List Arith NArith ZArith Bool Lia.
From Coq.Strings Require Import Byte.
From LC Require Import Bytes Consts Conv Flex LexAct LexRules Lexer LexLemmas LexAll LineProofs Files Store Parser
     HdrProofs ApiProofs BalanceProofs PathProofs DiagGen.
Import ListNotations.
Set Warnings "-unused-intro-pattern".

Local Open Scope string_scope.
Local Open Scope list_scope.

(* ================================================================== *)
(* evidence: diagnostics and failed callback entries                    *)
(* ================================================================== *)
Definition failed_entry (e : cbent) : bool :=
  match e with
  | CbParse _ _ _ f | CbValid _ _ _ f | CbValid2 _ _ _ f | CbFunc _ _ _ f => f
  | CbFree _ => false
  end.
Definition nfail (l : list cbent) : nat := length (filter failed_entry l).
Definition ev (w : pw) : nat := length (w_diags w) + nfail (w_cbs w).
Definition oofn (w : pw) : nat := if w_oof w then 1 else 0.
Definition crn (w : pw) : nat := match w_crash w with Some _ => 1 | None => 0 end.

Definition grows (w w' : pw) : Prop :=
  (exists ds, w_diags w' = ds ++ w_diags w) /\ (exists es, w_cbs w' = es ++ w_cbs w).
Definition mono (w w' : pw) : Prop := ev w <= ev w' /\ oofn w <= oofn w' /\ crn w <= crn w'.

Lemma grows_refl w : grows w w.
Proof. split; exists []; reflexivity. Qed.
Lemma grows_trans a b c : grows a b -> grows b c -> grows a c.
Proof.
  intros [[d1 H1] [e1 G1]] [[d2 H2] [e2 G2]]. split.
  - exists (d2 ++ d1). rewrite H2, H1. apply app_assoc.
  - exists (e2 ++ e1). rewrite G2, G1. apply app_assoc.
Qed.

Theorem grows_all strtod_o fuel :
  (forall w c o txt, grows w (fst (fst (setopt strtod_o fuel w c o txt)))) /\
  (forall w c, grows w (fst (init_defaults strtod_o fuel w c))) /\
  (forall w c l p, grows w (fst (fst (parse_internal strtod_o fuel w c l p)))).
Proof.
  apply R_all.
  - apply grows_refl.
  - apply grows_trans.
  - intros w d. split; [exists (rev d)|exists []]; reflexivity.
  - intros w e. split; [exists []|exists [e]]; reflexivity.
  - intros; split; exists []; reflexivity.
  - intros; split; exists []; reflexivity.
  - intros; split; exists []; reflexivity.
  - intros; split; exists []; reflexivity.
  - intros; split; exists []; reflexivity.
  - intros; split; exists []; reflexivity.
Qed.

(* ---- the measures under the primitive updates ---- *)
Lemma ev_add_diags w d : ev (add_diags w d) = length d + ev w.
Proof. unfold ev, add_diags. cbn [w_diags w_cbs]. rewrite app_length, rev_length. lia. Qed.
Lemma ev_add_cb w e : ev (add_cb w e) = (if failed_entry e then 1 else 0) + ev w.
Proof. unfold ev, add_cb, nfail. cbn [w_diags w_cbs filter]. destruct (failed_entry e); cbn [length]; lia. Qed.
Lemma ev_set_cnt w n : ev (set_cnt w n) = ev w. Proof. reflexivity. Qed.
Lemma ev_set_nextptr w n : ev (set_nextptr w n) = ev w. Proof. reflexivity. Qed.
Lemma ev_set_open w n : ev (set_open w n) = ev w. Proof. reflexivity. Qed.
Lemma ev_set_crash w k : ev (set_crash w k) = ev w. Proof. reflexivity. Qed.
Lemma ev_set_oof w : ev (set_oof w) = ev w. Proof. reflexivity. Qed.
Lemma ev_upd_lex w l : ev (upd_lex w l) = ev w. Proof. reflexivity. Qed.

Lemma oofn_add_diags w d : oofn (add_diags w d) = oofn w. Proof. reflexivity. Qed.
Lemma oofn_add_cb w e : oofn (add_cb w e) = oofn w. Proof. reflexivity. Qed.
Lemma oofn_set_cnt w n : oofn (set_cnt w n) = oofn w. Proof. reflexivity. Qed.
Lemma oofn_set_nextptr w n : oofn (set_nextptr w n) = oofn w. Proof. reflexivity. Qed.
Lemma oofn_set_open w n : oofn (set_open w n) = oofn w. Proof. reflexivity. Qed.
Lemma oofn_set_crash w k : oofn (set_crash w k) = oofn w. Proof. reflexivity. Qed.
Lemma oofn_set_oof w : oofn (set_oof w) = 1. Proof. reflexivity. Qed.
Lemma oofn_upd_lex w l : oofn (upd_lex w l) = oofn w. Proof. reflexivity. Qed.

Lemma crn_add_diags w d : crn (add_diags w d) = crn w. Proof. reflexivity. Qed.
Lemma crn_add_cb w e : crn (add_cb w e) = crn w. Proof. reflexivity. Qed.
Lemma crn_set_cnt w n : crn (set_cnt w n) = crn w. Proof. reflexivity. Qed.
Lemma crn_set_nextptr w n : crn (set_nextptr w n) = crn w. Proof. reflexivity. Qed.
Lemma crn_set_open w n : crn (set_open w n) = crn w. Proof. reflexivity. Qed.
Lemma crn_set_crash w k : crn (set_crash w k) = 1.
Proof. unfold crn, set_crash. cbn [w_crash]. destruct (w_crash w); reflexivity. Qed.
Lemma crn_set_oof w : crn (set_oof w) = crn w. Proof. reflexivity. Qed.
Lemma crn_upd_lex w l : crn (upd_lex w l) = crn w. Proof. reflexivity. Qed.

Lemma ev_log_frees ids : forall w, ev (log_frees w ids) = ev w.
Proof.
  unfold log_frees. induction ids as [|i ids IH]; intro w; cbn [fold_left]; [reflexivity|].
  rewrite IH, ev_add_cb. reflexivity.
Qed.
Lemma oofn_log_frees ids : forall w, oofn (log_frees w ids) = oofn w.
Proof.
  unfold log_frees. induction ids as [|i ids IH]; intro w; cbn [fold_left]; [reflexivity|].
  rewrite IH. reflexivity.
Qed.
Lemma crn_log_frees ids : forall w, crn (log_frees w ids) = crn w.
Proof.
  unfold log_frees. induction ids as [|i ids IH]; intro w; cbn [fold_left]; [reflexivity|].
  rewrite IH. reflexivity.
Qed.

Lemma len_cfg_diag c m : length (cfg_diag c m) = if c_err c then 1 else 0.
Proof. unfold cfg_diag. destruct (c_err c); reflexivity. Qed.

Lemma oofn_le1 w : oofn w <= 1. Proof. unfold oofn. destruct (w_oof w); lia. Qed.
Lemma crn_le1 w : crn w <= 1. Proof. unfold crn. destruct (w_crash w); lia. Qed.

#[export] Hint Rewrite ev_add_diags ev_add_cb ev_set_cnt ev_set_nextptr ev_set_open ev_set_crash ev_set_oof ev_upd_lex
  oofn_add_diags oofn_add_cb oofn_set_cnt oofn_set_nextptr oofn_set_open oofn_set_crash oofn_set_oof oofn_upd_lex
  crn_add_diags crn_add_cb crn_set_cnt crn_set_nextptr crn_set_open crn_set_crash crn_set_oof crn_upd_lex
  ev_log_frees oofn_log_frees crn_log_frees len_cfg_diag : meas.

Lemma mono_refl w : mono w w. Proof. unfold mono; lia. Qed.
Lemma mono_trans a b c : mono a b -> mono b c -> mono a c.
Proof. unfold mono; lia. Qed.

Ltac mono_prim := intros; unfold mono; autorewrite with meas;
  repeat match goal with |- context [oofn ?w] => pose proof (oofn_le1 w); generalize dependent (oofn w); intros end;
  repeat match goal with |- context [crn ?w] => pose proof (crn_le1 w); generalize dependent (crn w); intros end;
  lia.

Theorem mono_all strtod_o fuel :
  (forall w c o txt, mono w (fst (fst (setopt strtod_o fuel w c o txt)))) /\
  (forall w c, mono w (fst (init_defaults strtod_o fuel w c))) /\
  (forall w c l p, mono w (fst (fst (parse_internal strtod_o fuel w c l p)))).
Proof.
  apply R_all.
  - apply mono_refl.
  - apply mono_trans.
  - mono_prim.
  - mono_prim.
  - mono_prim.
  - mono_prim.
  - mono_prim.
  - mono_prim.
  - mono_prim.
  - mono_prim.
Qed.

(* ================================================================== *)
(* the scanner: an error token comes with a diagnostic, a string token with a value *)
(* ================================================================== *)
Lemma eof_action_total : forallb (fun c0 => match eof_action_of c0 with Some _ => true | None => false end) all_sc = true.
Proof. vm_compute. reflexivity. Qed.

Lemma eof_action_some c0 : eof_action_of c0 <> None.
Proof.
  pose proof eof_action_total as H. rewrite forallb_forall in H. specialize (H c0 (all_sc_complete c0)).
  cbv beta in H. destruct (eof_action_of c0); [discriminate|discriminate H].
Qed.

Lemma run_action_tok e a y s p t v s2 p2 d : run_action e a y s p = Return t v s2 p2 d ->
  (t = TErr -> d <> []) /\ (t = TStr -> v <> None).
Proof.
  destruct a; cbn [run_action];
  repeat match goal with |- context [match ?x with _ => _ end] => destruct x end;
  intros H; inversion H; subst; split; intro; try discriminate; congruence.
Qed.

Lemma lex_step_tok e s p t v s2 p2 d k : lex_step e s p = LRet t v s2 p2 d k ->
  (t = TErr -> d <> []) /\ (t = TStr -> v <> None).
Proof.
  unfold lex_step. destruct (l_bufs s) as [|[id inp] others].
  - intros H; inversion H; subst. split; intro; discriminate.
  - destruct (munch (active_res (l_sc s)) inp 0 None) as [[i n]|] eqn:Hm.
    + destruct (nth_error (active_rules (l_sc s)) i) as [r|] eqn:Hr.
      * destruct (run_action e (r_act r) (firstn n inp) (set_bufs s ((id, skipn n inp) :: others)) p) eqn:Ha; [discriminate|].
        intros H; inversion H; subst. eapply run_action_tok; exact Ha.
      * exfalso. apply nth_error_None in Hr. apply munch_idx_lt in Hm; [|intros ? ? H; discriminate].
        rewrite active_len in Hm. lia.
    + destruct inp as [|c rest]; [|discriminate].
      unfold run_eof. pose proof (eof_action_some (l_sc s)) as He.
      destruct (eof_action_of (l_sc s)) as [[| | |k0]|]; [| | | |congruence];
        try (intros H; inversion H; subst; split; intro; discriminate).
      destruct (l_rderr s).
      * intros H; inversion H; subst. split; intro; discriminate.
      * destruct (l_inc s) as [|f rest].
        -- intros H; inversion H; subst. split; intro; discriminate.
        -- destruct (match cur_buf_id s with Some id0 => Nat.eqb id0 (i_buf f) | None => false end).
           ++ intros H; inversion H.
           ++ intros H; inversion H; subst. split; intro; discriminate.
Qed.

Lemma yylex_tok e : forall fuel s p closed,
  let r := yylex e fuel s p closed in
  (r_tok r = TErr -> r_fuel_out r = true \/ r_diags r <> []) /\ (r_tok r = TStr -> r_val r <> None).
Proof.
  induction fuel as [|fuel IH]; intros s p closed; cbn [yylex].
  - cbn. split; [auto|discriminate].
  - destruct (lex_step e s p) as [s2 p2 k|t v s2 p2 d k] eqn:Hs; [apply IH|].
    cbn. apply lex_step_tok in Hs. destruct Hs as [A B]. split; [intro H; right; auto|exact B].
Qed.

(* ================================================================== *)
(* the context: error function and option references                    *)
(* ================================================================== *)
Lemma c_err_set_opts c o : c_err (set_opts c o) = c_err c. Proof. destruct c; reflexivity. Qed.
Lemma c_err_set_file c o : c_err (set_file c o) = c_err c. Proof. destruct c; reflexivity. Qed.
Lemma c_err_set_line c o : c_err (set_line c o) = c_err c. Proof. destruct c; reflexivity. Qed.
Lemma c_err_set_pos c o : c_err (set_pos c o) = c_err c. Proof. destruct c; reflexivity. Qed.
Lemma c_err_set_err c e : c_err (set_err c e) = e. Proof. destruct c; reflexivity. Qed.
Lemma c_err_upd_sec c steps f : (forall s, c_err (f s) = c_err s) -> c_err (upd_sec c steps f) = c_err c.
Proof. intro H. destruct steps as [|[i v] r]; cbn [upd_sec]; [apply H|apply c_err_set_opts]. Qed.
Lemma c_err_upd_opt c r f : c_err (upd_opt c r f) = c_err c.
Proof. unfold upd_opt. apply c_err_upd_sec. intro s. apply c_err_set_opts. Qed.
Lemma c_err_put_opt c r o : c_err (put_opt c r o) = c_err c.
Proof. apply c_err_upd_opt. Qed.

#[export] Hint Rewrite c_err_set_opts c_err_set_file c_err_set_line c_err_set_pos c_err_set_err c_err_upd_opt c_err_put_opt : cerr.

Lemma c_err_handle_deprecated w c r : c_err (snd (handle_deprecated w c r)) = c_err c.
Proof.
  unfold handle_deprecated. destruct (get_opt c r) as [o|]; [|reflexivity].
  destruct (oflag o CFGF_DEPRECATED); [|reflexivity].
  destruct (oflag o CFGF_DROP); [|reflexivity].
  destruct (free_value o) as [o1 fr]. unfold snd. apply c_err_put_opt.
Qed.

Lemma c_err_lexer_include w c a : c_err (snd (fst (lexer_include w c a))) = c_err c.
Proof.
  unfold lexer_include. destruct (Nat.leb _ _); [reflexivity|].
  destruct (match w_path w with [] => _ | _ => _ end); [|reflexivity].
  destruct (open_input _ _); [|reflexivity].
  unfold fst, snd. rewrite c_err_set_line, c_err_set_file. reflexivity.
Qed.

Lemma get_opt_set_pos c q r : get_opt (set_pos c q) r = get_opt c r.
Proof.
  unfold get_opt. destruct r as [steps i]. cbn [fst snd].
  destruct steps as [|[k v] rest]; cbn [get_sec]; destruct c; reflexivity.
Qed.

Lemma get_opt_addopt c k : get_opt (fst (addopt c k)) (snd (addopt c k)) <> None.
Proof.
  unfold addopt, get_opt. cbn [fst snd get_sec]. destruct c; cbn [c_opts set_opts].
  rewrite nth_error_app2 by lia. rewrite Nat.sub_diag. discriminate.
Qed.

Lemma find_idx_valid {A} (f : A -> bool) l : forall i j, find_idx f l i = Some j -> i <= j /\ nth_error l (j - i) <> None.
Proof.
  induction l as [|x l IH]; intros i j H; cbn [find_idx] in H; [discriminate|].
  destruct (f x).
  - injection H as <-. rewrite Nat.sub_diag. split; [lia|discriminate].
  - apply IH in H. destruct H as [H1 H2]. split; [lia|].
    replace (j - i) with (S (j - S i)) by lia. exact H2.
Qed.

Lemma getopt_leaf_valid c name i : getopt_leaf c name = Some i -> nth_error (c_opts c) i <> None.
Proof.
  unfold getopt_leaf. intro H. apply find_idx_valid in H. rewrite Nat.sub_0_r in H. apply H.
Qed.

(* a reference returned by the resolver points at an option *)
Lemma loop_valid : forall f root sec steps name last index r,
  get_sec root (rev steps) = Some sec ->
  rs_opt (secidx_loop f root sec steps name false last index) = Some r -> get_opt root r <> None.
Proof.
  induction f as [|f IH]; intros root sec steps name last index r Hgs H; [discriminate H|].
  rewrite secidx_loop_eq in H.
  assert (Hfin : forall nm, rs_opt (finish_r root sec steps false last index nm) = Some r -> get_opt root r <> None).
  { intros nm. unfold finish_r. destruct nm as [|c1 n1]; [discriminate|].
    destruct (getopt_leaf sec (c1 :: n1)) as [i|] eqn:El; [|discriminate].
    cbn [rs_opt]. intro E; injection E as <-. unfold get_opt. cbn [fst snd]. rewrite Hgs.
    eapply getopt_leaf_valid; exact El. }
  destruct name as [|c0 n0]; [apply Hfin in H; exact H|].
  cbv beta iota zeta in H. cbn [negb andb] in H.
  set (len := strcspn (c0 :: n0) is_bar_eq) in *.
  destruct (match skipn len (c0 :: n0) with [] => true | _ :: _ => false end); [apply Hfin in H; exact H|].
  destruct (Nat.eqb len 0); [discriminate H|].
  destruct (mtuple sec (c0 :: n0) len (skipn len (c0 :: n0)) (firstn len (c0 :: n0))) as [[[[oi i] t] name1] len1].
  destruct (msec sec oi i) as [[[k v] s]|] eqn:Hms; [|discriminate H].
  match type of H with rs_opt (if ?b then _ else _) = _ => destruct b end; [discriminate H|].
  destruct (msec_inv _ _ _ _ _ _ Hms) as [o [Hk [H0 [Hget Hv]]]].
  eapply IH; [|exact H].
  cbn [rev]. rewrite get_sec_app, Hgs. cbn [get_sec]. rewrite Hk.
  subst v. rewrite (opt_getnsec_nth _ _ _ Hget). reflexivity.
Qed.

Lemma cfg_getopt_valid c name r ds : cfg_getopt c name = (Some r, ds) -> get_opt c r <> None.
Proof.
  unfold cfg_getopt, getopt_secidx. destruct name as [|c0 n0]; [discriminate|].
  intro H. apply (f_equal fst) in H. unfold fst in H. eapply loop_valid; [|exact H]. reflexivity.
Qed.

(* ---- the parser state is consistent with the context ---- *)
Definition pok (c : cfg) (p : pst) : Prop :=
  match s_state p with
  | 1 => exists r, s_opt p = Some r /\ get_opt c r <> None
  | 5 => forall r o, s_opt p = Some r -> get_opt c r = Some o ->
           o_kind o = KSec /\ (oflag o CFGF_TITLE = true -> s_title p <> None)
  | 6 => forall r o, s_opt p = Some r -> get_opt c r = Some o -> o_kind o = KSec
  | _ => True
  end.

Lemma pok_set_pos c q p : pok c p -> pok (set_pos c q) p.
Proof.
  unfold pok. destruct (s_state p) as [|[|[|[|[|[|[|n]]]]]]]; try exact (fun H => H).
  - intros [r [H1 H2]]. exists r. rewrite get_opt_set_pos. auto.
  - intros H r o. rewrite get_opt_set_pos. apply H.
  - intros H r o. rewrite get_opt_set_pos. apply H.
Qed.

(* ---- the silent NULL returns of cfg_setopt (errno = EINVAL, no message) ---- *)
Definition einval (o : opt) (txt : option str) : Prop :=
  (txt = None /\ cb_parse (o_cbs o) = None /\ (o_kind o = KInt \/ o_kind o = KFloat \/ o_kind o = KStr)) \/
  (txt = None /\ o_kind o = KSec /\ oflag o CFGF_TITLE = true).

(* ================================================================== *)
(* what each helper contributes                                         *)
(* ================================================================== *)
Ltac mono_hyps := first [exact mono_refl | exact mono_trans | mono_prim].

Lemma mono_handle_deprecated w c r : mono w (fst (handle_deprecated w c r)).
Proof. apply R_handle_deprecated; mono_hyps. Qed.
Lemma mono_lexer_include w c a : mono w (fst (fst (lexer_include w c a))).
Proof. apply R_lexer_include; mono_hyps. Qed.
Lemma mono_next_token fl w c : mono w (fst (fst (fst (next_token fl w c)))).
Proof. apply R_next_token; mono_hyps. Qed.
Lemma mono_run_validcb w o : mono w (fst (run_validcb w o)).
Proof. apply R_run_validcb; mono_hyps. Qed.
Lemma mono_run_parsecb w k o v : mono w (fst (run_parsecb w k o v)).
Proof. apply R_run_parsecb; mono_hyps. Qed.
Lemma mono_so_slot c w0 o0 txt w1 o1 idx : so_slot c w0 o0 txt = Some (w1, o1, idx) -> mono w0 w1.
Proof. apply R_so_slot; mono_hyps. Qed.

Lemma next_token_facts fl w c w1 c1 t v : next_token fl w c = (w1, c1, t, v) ->
  mono w w1 /\ (exists q, c1 = set_pos c q) /\
  (t = TErr -> c_err c = true -> oofn w1 = 1 \/ ev w < ev w1) /\ (t = TStr -> v <> None).
Proof.
  intro H. pose proof (mono_next_token fl w c) as M. rewrite H in M. unfold fst in M.
  split; [exact M|]. revert H. unfold next_token. cbv zeta.
  pose proof (yylex_tok (w_env w) fl (w_lex w) (c_pos c) 0) as Y. cbv zeta in Y.
  set (r := yylex (w_env w) fl (w_lex w) (c_pos c) 0) in *. destruct Y as [Y1 Y2].
  intro H. injection H as <- <- <- <-.
  split; [eexists; reflexivity|]. split; [|exact Y2].
  intros Ht Hc. rewrite Hc. destruct (Y1 Ht) as [Hf|Hd].
  - left. rewrite Hf. reflexivity.
  - right. autorewrite with meas. destruct (r_fuel_out r); autorewrite with meas;
      destruct (r_diags r); [congruence|cbn [length]; lia|congruence|cbn [length]; lia].
Qed.

Lemma handle_deprecated_facts w c r w2 c2 : handle_deprecated w c r = (w2, c2) ->
  mono w w2 /\ c_err c2 = c_err c.
Proof.
  intro H. pose proof (mono_handle_deprecated w c r) as M. pose proof (c_err_handle_deprecated w c r) as C.
  rewrite H in M, C. auto.
Qed.

Lemma lexer_include_facts w c a w1 c1 failed : lexer_include w c a = (w1, c1, failed) ->
  mono w w1 /\ c_err c1 = c_err c /\ (failed = true -> c_err c = true -> ev w < ev w1).
Proof.
  intro H. pose proof (mono_lexer_include w c a) as M. pose proof (c_err_lexer_include w c a) as C.
  rewrite H in M, C. split; [exact M|]. split; [exact C|].
  revert H. unfold lexer_include. intros H Hf Hc.
  destruct (Nat.leb _ _).
  { injection H as <- _ _. autorewrite with meas. rewrite Hc. lia. }
  destruct (match w_path w with [] => _ | _ => _ end).
  2:{ injection H as <- _ _. autorewrite with meas. rewrite Hc. lia. }
  destruct (open_input _ _).
  - injection H as _ _ <-. discriminate Hf.
  - injection H as <- _ _. autorewrite with meas. rewrite Hc. lia.
Qed.

Lemma tick_facts w w1 f : tick w = (w1, f) -> ev w1 = ev w /\ oofn w1 = oofn w /\ crn w1 = crn w.
Proof. unfold tick. intro H. injection H as <- _. auto. Qed.

Lemma run_validcb_facts w o w2 f : run_validcb w o = (w2, f) -> mono w w2 /\ (f = true -> ev w < ev w2).
Proof.
  intro H. pose proof (mono_run_validcb w o) as M. rewrite H in M. split; [exact M|].
  revert H. unfold run_validcb. destruct (cb_valid (o_cbs o)); [|intro H; injection H as _ <-; discriminate].
  unfold tick. intro H. injection H as <- <-. intro Hf. autorewrite with meas. cbn [failed_entry]. rewrite Hf. lia.
Qed.

Lemma run_parsecb_facts w k o v w2 f : run_parsecb w k o v = (w2, f) -> mono w w2 /\ (f = true -> ev w < ev w2).
Proof.
  intro H. pose proof (mono_run_parsecb w k o v) as M. rewrite H in M. split; [exact M|].
  revert H. unfold run_parsecb, tick. intro H. injection H as <- <-. intro Hf.
  autorewrite with meas. cbn [failed_entry]. rewrite Hf. lia.
Qed.

Lemma log_frees_nil w : log_frees w [] = w. Proof. reflexivity. Qed.

Lemma oflag_clrf_reset_title o : oflag (o_clrf o CFGF_RESET) CFGF_TITLE = oflag o CFGF_TITLE.
Proof. destruct o. unfold oflag, o_clrf, set_flags, o_flags, clrf. apply has_ldiff_disj. reflexivity. Qed.

Lemma so_reset_facts w o w0 o0 : so_reset w o = (w0, o0) ->
  (exists ids, w0 = log_frees w ids) /\ o_kind o0 = o_kind o /\ o_cbs o0 = o_cbs o /\
  oflag o0 CFGF_TITLE = oflag o CFGF_TITLE.
Proof.
  intro H. pose proof (frame_so_reset w o) as F. rewrite H in F. unfold snd in F. destruct F.
  split; [|split; [assumption|split; [assumption|]]].
  - revert H. unfold so_reset. destruct (oflag o CFGF_RESET).
    + destruct (free_value o) as [x fr]. intro H; injection H as <- _. eexists; reflexivity.
    + intro H; injection H as <- _. exists []. reflexivity.
  - revert H. unfold so_reset. destruct (oflag o CFGF_RESET); [|intro H; injection H as _ <-; reflexivity].
    unfold free_value. cbv zeta. intro H; injection H as _ <-. rewrite oflag_clrf_reset_title.
    destruct (match o_comment o with Some _ => _ | None => false end); destruct o; reflexivity.
Qed.

Lemma so_slot_world c w0 o0 txt w1 o1 idx : so_slot c w0 o0 txt = Some (w1, o1, idx) -> crn w1 = 0 -> w1 = w0.
Proof.
  unfold so_slot. cbv zeta.
  repeat match goal with |- context [match ?x with _ => _ end] => destruct x end;
  intro H; try discriminate H; injection H as <- _ _; try reflexivity.
  all: rewrite crn_set_crash; discriminate.
Qed.

Lemma so_slot_none c w0 o0 txt : so_slot c w0 o0 txt = None ->
  o_kind o0 = KSec /\ oflag o0 CFGF_TITLE = true /\ (txt <> None -> oflag o0 CFGF_NO_TITLE_DUPES = true).
Proof.
  unfold so_slot. cbv zeta.
  destruct (Nat.eqb (length (o_vals o0)) 0 || oflag o0 CFGF_MULTI || oflag o0 CFGF_LIST); [|discriminate].
  destruct (kind_eqb (o_kind o0) KSec && oflag o0 CFGF_TITLE) eqn:E; [|discriminate].
  apply andb_prop in E as [E1 E2].
  assert (K : o_kind o0 = KSec) by (destruct (o_kind o0); try discriminate E1; reflexivity).
  destruct (negb (Nat.eqb (length (o_vals o0)) 0) && match txt with None => true | Some _ => false end) eqn:E3.
  - intros _. split; [exact K|]. split; [exact E2|].
    apply andb_prop in E3 as [_ E3]. destruct txt; [discriminate E3|]. intro X; congruence.
  - destruct (so_look c txt (o_vals o0) 0) as [[i|]|]; try discriminate.
    destruct (oflag o0 CFGF_NO_TITLE_DUPES); [|discriminate]. auto.
Qed.

Section SoStrict.
Variable strtod_o : str -> strtod_res.
Variable initd : pw -> cfg -> pw * cfg.

Lemma so_conv_none c w1 o1 idx txt w' o' :
  so_conv strtod_o initd c w1 o1 idx txt = (w', o', None) -> c_err c = true ->
  ev w1 < ev w' \/ (w' = w1 /\ einval o1 txt).
Proof.
  intros H Hc. revert H. unfold so_conv, so_store. cbv beta zeta.
  destruct (o_kind o1) eqn:K.
  all: repeat first
    [ match goal with
      | |- context [match run_parsecb ?w ?k ?o ?t with _ => _ end] =>
          let E := fresh "E" in let F := fresh "F" in
          destruct (run_parsecb w k o t) as [? ?] eqn:E; pose proof (run_parsecb_facts _ _ _ _ _ _ E) as [_ F]
      end
    | match goal with |- context [match ?x with _ => _ end] =>
        lazymatch x with
        | context [initd] => fail
        | _ => let E := fresh "E" in destruct x eqn:E
        end
      end ].
  all: try (intro H; discriminate H).
  all: try (destruct (initd _ _); intro H; discriminate H).
  all: intro H; injection H as <- <-.
  all: try (left; autorewrite with meas; rewrite ?Hc; auto; lia).
  all: right; split; [reflexivity|]; unfold einval; auto 10.
Qed.

Lemma so_body_none w c o txt w' o' :
  so_body strtod_o initd w c o txt = (w', o', None) -> c_err c = true -> crn w' = 0 ->
  ev w < ev w' \/ einval o txt.
Proof.
  intros H Hc Hcr. revert H. unfold so_body.
  destruct (so_reset w o) as [w0 o0] eqn:ER.
  destruct (so_reset_facts _ _ _ _ ER) as ([ids Hids] & RK & RC & RT).
  assert (E0 : ev w0 = ev w) by (subst w0; apply ev_log_frees).
  destruct (so_slot c w0 o0 txt) as [[[w1 o1] idx]|] eqn:ES.
  - intro H. pose proof (mono_so_slot _ _ _ _ _ _ _ ES) as [M1 _].
    pose proof (so_slot_frame _ _ _ _ _ _ _ ES) as F. destruct F.
    destruct (so_conv_none _ _ _ _ _ _ _ H Hc) as [L|[-> EI]]; [left; lia|].
    right.
    unfold einval in *. rewrite fr_kind, fr_cbs, RK, RC in EI.
    destruct EI as [EI|(E1 & E2 & E3)]; [auto|].
    right. split; [exact E1|]. split; [exact E2|].
    rewrite <- RT.
    (* the TITLE flag is outside RESET|MODIFIED *)
    destruct o0 as [n0 k0 f0 v0 s0 d0 cm0 cb0], o1 as [n1 k1 f1 v1 s1 d1 cm1 cb1].
    unfold oflag, o_flags in *.
    assert (HH : has (N.ldiff f1 RM) CFGF_TITLE = has (N.ldiff f0 RM) CFGF_TITLE) by (rewrite fr_flags; reflexivity).
    rewrite !has_ldiff_disj in HH by reflexivity. congruence.
  - cbv zeta. destruct (so_slot_none _ _ _ _ ES) as (K & T & D).
    intro H. injection H as <- _.
    destruct txt as [v|].
    + left. rewrite K, T, D by discriminate. cbn [kind_eqb andb]. autorewrite with meas. rewrite Hc. lia.
    + right. unfold einval. right. rewrite <- RK, <- RT. auto.
Qed.
End SoStrict.

(* ================================================================== *)
(* C06 (1): a STATE_ERROR is never silent                               *)
(* ================================================================== *)
(* an unresolved name is reported by the resolver, unless the context ignores unknown options or is a
   key-value context *)
Lemma mtuple_some sec name len after secname k i t n1 l1 :
  mtuple sec name len after secname = (Some k, i, t, n1, l1) -> nth_error (c_opts sec) k <> None.
Proof.
  unfold mtuple. destruct (getopt_leaf sec secname) as [k0|]; [|discriminate].
  destruct (nth_error (c_opts sec) k0) as [o|] eqn:E; [|discriminate].
  repeat match goal with |- context [match ?x with _ => _ end] => destruct x end;
  intro H; inversion H; subst; congruence.
Qed.

Lemma cfg_diag_nonnil c m : c_err c = true -> cfg_diag c m <> [].
Proof. unfold cfg_diag. intros ->. discriminate. Qed.

Lemma loop_loud : forall f root sec steps name last index,
  length name < f -> c_err root = true -> cflag root CFGF_IGNORE_UNKNOWN = false ->
  (steps = [] -> cflag sec CFGF_KEYSTRVAL = false) ->
  rs_opt (secidx_loop f root sec steps name false last index) = None ->
  rs_diags (secidx_loop f root sec steps name false last index) <> [].
Proof.
  induction f as [|f IH]; intros root sec steps name last index Hf Hc Hi Hk; [lia|].
  rewrite secidx_loop_eq.
  assert (Hfin : forall nm, rs_opt (finish_r root sec steps false last index nm) = None ->
                            rs_diags (finish_r root sec steps false last index nm) <> []).
  { intros nm. unfold finish_r. rewrite Hi. destruct nm as [|c1 n1]; [intros _; apply cfg_diag_nonnil; exact Hc|].
    destruct (getopt_leaf sec (c1 :: n1)); [discriminate|]. intros _. cbn [rs_diags negb andb].
    destruct steps as [|st steps']; [rewrite (Hk eq_refl)|]; cbn [negb]; apply cfg_diag_nonnil; exact Hc. }
  destruct name as [|c0 n0]; [apply Hfin|].
  cbv beta iota zeta. cbn [negb andb]. rewrite Hi.
  set (len := strcspn (c0 :: n0) is_bar_eq).
  destruct (match skipn len (c0 :: n0) with [] => true | _ :: _ => false end); [apply Hfin|].
  destruct (Nat.eqb len 0) eqn:E0; [intros _; apply cfg_diag_nonnil; exact Hc|]. apply Nat.eqb_neq in E0.
  destruct (mtuple sec (c0 :: n0) len (skipn len (c0 :: n0)) (firstn len (c0 :: n0))) as [[[[oi i] t] name1] len1] eqn:Hm.
  destruct (msec sec oi i) as [[[k v] s]|] eqn:Hms.
  - match goal with |- context [if ?b then _ else _] => destruct b end; [intros _; apply cfg_diag_nonnil; exact Hc|].
    apply IH; [|exact Hc|exact Hi|discriminate].
    apply mtuple_shape in Hm. destruct Hm as [[-> ->]|[c Hc']].
    + rewrite !skipn_length. cbn [length] in *. lia.
    + apply (f_equal (@length _)) in Hc'. rewrite !skipn_length in *. cbn [length] in *. lia.
  - intros _. cbn [rs_diags]. unfold mdiag. rewrite Hi.
    destruct oi as [k|].
    + pose proof (mtuple_some _ _ _ _ _ _ _ _ _ _ Hm) as Hn.
      destruct (nth_error (c_opts sec) k) as [o|]; [|congruence].
      destruct (negb (oflag o CFGF_MULTI)); [|destruct t]; apply cfg_diag_nonnil; exact Hc.
    + destruct t; apply cfg_diag_nonnil; exact Hc.
Qed.

Lemma getopt_loud c name ds : c_err c = true -> cflag c CFGF_IGNORE_UNKNOWN = false ->
  cflag c CFGF_KEYSTRVAL = false -> name <> [] -> cfg_getopt c name = (None, ds) -> ds <> [].
Proof.
  intros Hc Hi Hk Hn. unfold cfg_getopt, getopt_secidx. destruct name as [|c0 n0]; [congruence|].
  intro H. pose proof (f_equal fst H) as H1. pose proof (f_equal snd H) as H2. unfold fst in H1. unfold snd in H2.
  rewrite <- H2. apply loop_loud; auto.
Qed.

Lemma add_diags_nil w : add_diags w [] = w. Proof. destruct w; reflexivity. Qed.

Lemma handle_deprecated_strict w c r w2 c2 : handle_deprecated w c r = (w2, c2) -> c_err c = true ->
  ev w < ev w2 \/ (w2 = w /\ c2 = c).
Proof.
  unfold handle_deprecated. intros H Hc. destruct (get_opt c r) as [o|]; [|injection H as <- <-; auto].
  destruct (oflag o CFGF_DEPRECATED); [|injection H as <- <-; auto].
  left. destruct (oflag o CFGF_DROP).
  - destruct (free_value o) as [o1 fr]. injection H as <- _. autorewrite with meas. rewrite Hc. lia.
  - injection H as <- _. autorewrite with meas. rewrite Hc. lia.
Qed.

Lemma addopt_facts c name c1 r : addopt c name = (c1, r) -> c_err c1 = c_err c /\ get_opt c1 r <> None.
Proof.
  intro H. pose proof (get_opt_addopt c name) as G. rewrite H in G. unfold fst, snd in G. split; [|exact G].
  unfold addopt in H. injection H as <- _. apply c_err_set_opts.
Qed.

Definition sec_enter (c1 sec : cfg) : cfg :=
  let sec1 := set_err (set_line sec (c_line c1)) (c_err c1) in
  match c_file c1 with
  | Some fn => match c_file sec1 with
               | Some sf => if str_eqb sf fn then sec1 else set_file sec1 (Some fn)
               | None => set_file sec1 (Some fn) end
  | None => sec1 end.

Lemma c_err_sec_enter a b : c_err (sec_enter a b) = c_err a.
Proof.
  unfold sec_enter. cbv zeta. destruct (c_file a); [|apply c_err_set_err].
  destruct (c_file _); [destruct (str_eqb _ _)|]; rewrite ?c_err_set_file; apply c_err_set_err.
Qed.

Section PiStrict.
Variable so : pw -> cfg -> opt -> option str -> pw * opt * option nat.
Variable pi : pw -> cfg -> nat -> pst -> pw * cfg * prc.
Hypothesis Hso_mono : forall w c o txt, mono w (fst (fst (so w c o txt))).
Hypothesis Hpi_mono : forall w c l p, mono w (fst (fst (pi w c l p))).
Hypothesis Hso : forall w c o txt w' o', so w c o txt = (w', o', None) -> c_err c = true -> oofn w' = 0 -> crn w' = 0 ->
  ev w < ev w' \/ einval o txt.
Hypothesis Hpi_nc : forall w c l p, snd (pi w c l p) <> PCONT.
Hypothesis Hpi : forall w c l p w' c', pi w c l p = (w', c', PERR) -> c_err c = true -> pok c p ->
  oofn w' = 0 -> crn w' = 0 -> ev w < ev w'.


Lemma n125_case {X} (c : N) (A D : X) : (match c with 125%N => A | _ => D end) = if (c =? 125)%N then A else D.
Proof.
  destruct c as [|q]; [reflexivity|].
  do 7 (destruct q as [q|q|]; try reflexivity).
Qed.

Ltac norm_cerr := repeat match goal with
  | H : c_err ?a = c_err ?b, H' : c_err ?b = true |- _ => rewrite H' in H
  end.

Ltac spec_hyps := repeat match goal with
  | H : ?a = ?a -> _ |- _ => specialize (H eq_refl)
  | H : true = false -> _ |- _ => clear H
  | H : false = true -> _ |- _ => clear H
  | H : ?P -> _, H' : ?P |- _ => lazymatch type of P with Prop => specialize (H H') end
  end.

Ltac use_cerr := repeat match goal with
  | H : c_err ?c = true |- context [c_err ?c] => rewrite H
  | H : c_err ?c = true, H2 : context [c_err ?c] |- _ => lazymatch type of H2 with c_err c = true => fail | _ => rewrite H in H2 end
  end.

Ltac meas_fin :=
  lazymatch goal with Ho : oofn _ = 0, Hc : crn _ = 0 |- _ => autorewrite with meas in Ho, Hc |- * end;
  cbn [failed_entry] in *; autorewrite with cerr in *; use_cerr.

Ltac cerr_sec :=
  lazymatch goal with |- c_err ?s = true =>
    lazymatch s with context [set_err (set_line ?sec (c_line ?a)) (c_err ?a)] =>
      change s with (sec_enter a sec); rewrite c_err_sec_enter; autorewrite with cerr; assumption end end.

Ltac cerr_solve := autorewrite with cerr; congruence.

Ltac pok_triv Es :=
  unfold pok; cbn [s_state st_state st_comment st_title st_opt st_args st_ignore st_skip st_num]; rewrite ?Es; exact I.

Ltac pok_solve Es :=
  first
  [ assumption
  | pok_triv Es
  | (* to state 1 *)
    unfold pok; cbn [s_state st_state st_comment st_title st_opt st_args st_ignore st_skip st_num];
    eexists; split; [reflexivity|first [assumption|congruence]]
  | (* to state 5 or 6 from state 0 *)
    unfold pok; cbn [s_state st_state st_comment st_title st_opt st_args st_ignore st_skip st_num s_opt s_title];
    let r := fresh "r" in let o := fresh "o" in let X := fresh "X" in let Y := fresh "Y" in
    intros r o X Y; injection X as <-;
    match goal with E : get_opt ?c ?r0 = Some ?o0 |- _ => rewrite E in Y; injection Y as <- end;
    first [assumption | split; [assumption|intro; congruence]]
  | (* from state 6 to state 5 *)
    match goal with Hp : pok ?c ?p |- _ =>
      unfold pok in Hp |- *; rewrite Es in Hp;
      cbn [s_state st_state st_comment st_title st_opt st_args st_ignore st_skip st_num s_opt s_title];
      let r := fresh "r" in let o := fresh "o" in let X := fresh "X" in let Y := fresh "Y" in
      intros r o X Y; split; [exact (Hp r o X Y)|intros _; discriminate] end ].

Ltac pok1_contra Es :=
  exfalso; match goal with Hp : pok ?c ?p |- _ => unfold pok in Hp; rewrite Es in Hp; destruct Hp as [? [? ?]]; congruence end.

Ltac einval5_contra Es :=
  match goal with
  | HS : _ \/ einval ?o _, Hp : pok ?c ?p, Eo : s_opt ?p = Some ?r, Eg : get_opt ?c ?r = Some ?o |- _ =>
      destruct HS as [HS|HS]; [lia|exfalso];
      unfold pok in Hp; rewrite Es in Hp; destruct (Hp _ _ Eo Eg) as [? ?];
      unfold einval in HS; destruct HS as [[? [? [?|[?|?]]]]|[? [? ?]]]; try congruence; tauto
  end.

Ltac einval_some :=
  match goal with
  | HS : _ \/ einval ?o (Some _) |- _ =>
      destruct HS as [HS|HS]; [lia|exfalso];
      unfold einval in HS; destruct HS as [[X _]|[X _]]; discriminate X
  end.

Ltac lookup_loud :=
  repeat match goal with H : _ && true = false |- _ => rewrite andb_true_r in H end;
  match goal with
  | EG : cfg_getopt ?c2 (?b :: ?l) = (None, ?ds), Hc : c_err ?c2 = true,
    Hi : cflag ?c2 CFGF_IGNORE_UNKNOWN = false, Hk : cflag ?c2 CFGF_KEYSTRVAL = false |- _ =>
      let X := fresh "X" in
      assert (X : ds <> []) by (apply (getopt_loud c2 (b :: l) ds Hc Hi Hk); [discriminate|exact EG]);
      destruct ds as [|? ?]; [congruence|cbn [length] in *; lia]
  end.

Ltac getopt_contra :=
  match goal with
  | EG : cfg_getopt ?c ?name = (Some ?r, _), EN : get_opt ?c ?r = None |- _ =>
      exfalso; exact (cfg_getopt_valid _ _ _ _ EG EN)
  end.

Ltac qleaf Es :=
  lazymatch goal with
  | |- (_, _, PEOF) = (_, _, PERR) -> _ => let H := fresh "H" in intro H; discriminate H
  | |- (_, _, PCONT) = (_, _, PERR) -> _ => let H := fresh "H" in intro H; discriminate H
  | |- (?wx, ?cx, PERR) = (_, _, PERR) -> _ =>
      let H := fresh "H" in intro H; injection H as <- <-; meas_fin; spec_hyps;
      try solve [lia | congruence | pok1_contra Es | getopt_contra | einval5_contra Es | einval_some | lookup_loud]
  | |- pi ?wx ?cx ?l ?px = (_, _, PERR) -> _ =>
      let H := fresh "H" in intro H;
      apply Hpi in H; [ autorewrite with meas in H; try solve [lia]
                      | try solve [cerr_solve] | try solve [pok_solve Es] | assumption | assumption ]
  end.

Ltac qstep Es :=
  first
  [ qleaf Es
  | match goal with
    | |- context [match handle_deprecated ?w ?c ?r with _ => _ end] =>
        let E := fresh "EHD" in
        destruct (handle_deprecated w c r) as [? ?] eqn:E;
        pose proof (handle_deprecated_facts _ _ _ _ _ E) as [[? [? ?]] ?];
        pose proof (handle_deprecated_strict _ _ _ _ _ E) as ?; norm_cerr
    | |- context [match lexer_include ?w ?c ?x with _ => _ end] =>
        let E := fresh "ELI" in
        destruct (lexer_include w c x) as [[? ?] ?] eqn:E;
        pose proof (lexer_include_facts _ _ _ _ _ _ E) as [[? [? ?]] [? ?]]; norm_cerr
    | |- context [match addopt ?c ?x with _ => _ end] =>
        let E := fresh "EAO" in
        destruct (addopt c x) as [? ?] eqn:E;
        pose proof (addopt_facts _ _ _ _ E) as [? ?]; norm_cerr
    | |- context [match so ?w ?c ?o ?t with _ => _ end] =>
        let E := fresh "ESO" in let wS := fresh "wS" in let oS := fresh "oS" in let res := fresh "res" in
        let HS := fresh "HS" in let MS := fresh "MS" in
        pose proof (Hso_mono w c o t) as MS;
        destruct (so w c o t) as [[wS oS] res] eqn:E; unfold fst in MS; destruct MS as [? [? ?]];
        assert (HS : res = None -> c_err c = true -> oofn wS = 0 -> crn wS = 0 ->
                     ev w < ev wS \/ einval o t)
          by (intros ->; apply (Hso _ _ _ _ _ _ E))
    | |- context [match pi ?w ?c ?l ?q with _ => _ end] =>
        let E := fresh "EPI" in let wP := fresh "wP" in let cP := fresh "cP" in let rc := fresh "rc" in
        let HP := fresh "HP" in let MP := fresh "MP" in let NC := fresh "NC" in
        pose proof (Hpi_mono w c l q) as MP; pose proof (Hpi_nc w c l q) as NC;
        destruct (pi w c l q) as [[wP cP] rc] eqn:E; unfold fst in MP; unfold snd in NC; destruct MP as [? [? ?]];
        assert (HP : rc = PERR -> oofn wP = 0 -> crn wP = 0 -> ev w < ev wP)
          by (intros ->; apply (Hpi _ _ _ _ _ _ E); [cerr_sec | exact I])
    | |- context [match run_validcb ?w ?o with _ => _ end] =>
        let E := fresh "ERV" in
        destruct (run_validcb w o) as [? ?] eqn:E;
        pose proof (run_validcb_facts _ _ _ _ E) as [[? [? ?]] ?]
    | |- context [match tick ?w with _ => _ end] =>
        let E := fresh "ETK" in
        destruct (tick w) as [? ?] eqn:E;
        pose proof (tick_facts _ _ _ E) as [? [? ?]]
    end
  | match goal with
    | |- context [match ?x with _ => _ end] =>
        let rec go y := lazymatch y with
          | context [match ?z with _ => _ end] => go z
          | _ => let E := fresh "ED" in destruct y eqn:E
          end in go x
    end ].

Lemma pi_body_strict fl w c level p w' c' :
  pi_body so pi fl w c level p = (w', c', PERR) -> c_err c = true -> pok c p -> oofn w' = 0 -> crn w' = 0 ->
  ev w < ev w'.
Proof.
  intros H Hc Hp Hoof Hcr. revert H. unfold pi_body.
  destruct (next_token fl w c) as [[[w1 c1] t] v] eqn:ENT.
  destruct (next_token_facts _ _ _ _ _ _ _ ENT) as ((M1 & M2 & M3) & [q Hq] & NTerr & NTstr).
  assert (Hc1 : c_err c1 = true) by (subst c1; rewrite c_err_set_pos; exact Hc).
  assert (Hp1 : pok c1 p) by (subst c1; apply pok_set_pos; exact Hp).
  clear Hq Hp.
  cbv beta zeta.
  destruct t as [| |ch| |].
  - (* TStr *)
    destruct v as [name|]; [|exfalso; apply (NTstr eq_refl); reflexivity].
    cbv iota. cbn [tok_is_str tok_is tok_code negb sval orb andb].
    destruct (s_state p) as [|[|[|[|[|[|[|[|[|[|[|[|[|[|[|n]]]]]]]]]]]]]]] eqn:Es.
    1: destruct name as [|nb nl]; cbn [negb].
    all: destruct (s_opt p) as [r0|] eqn:Eo.
    all: repeat qstep Es.
    all: try solve [pok_solve Es].
  - (* TComment *)
    cbv iota. cbn [tok_is_str tok_is tok_code negb sval orb andb].
    destruct (s_state p) as [|n] eqn:Es; cbn [Nat.eqb negb].
    all: destruct (s_opt p) as [r0|] eqn:Eo.
    all: repeat qstep Es.
    all: try solve [pok_solve Es].
  - (* TPunct *)
    cbv iota. cbn [tok_is_str negb].
    destruct (s_state p) as [|[|[|[|[|[|[|[|[|[|[|[|[|[|[|n]]]]]]]]]]]]]]] eqn:Es.
    all: destruct (s_opt p) as [r0|] eqn:Eo.
    all: rewrite ?n125_case.
    all: repeat qstep Es.
    all: try solve [pok_solve Es].
  - (* TEof *) repeat qstep Es.
  - (* TErr *) intro H. injection H as <- <-. destruct (NTerr eq_refl Hc) as [X|X]; lia.
Qed.
End PiStrict.

(* ---- cfg_parse_internal never returns STATE_CONTINUE ---- *)
Section NoCont.
Variable so : pw -> cfg -> opt -> option str -> pw * opt * option nat.
Variable pi : pw -> cfg -> nat -> pst -> pw * cfg * prc.
Hypothesis Hpi : forall w c l p, snd (pi w c l p) <> PCONT.

Ltac nstep :=
  first
  [ lazymatch goal with
    | |- snd (pi _ _ _ _) <> PCONT => apply Hpi
    | |- snd (_, _, _) <> PCONT => unfold snd; discriminate
    end
  | match goal with
    | |- context [match ?x with _ => _ end] => destr_inner x
    end ].

Lemma pi_body_nc fl w c level p : snd (pi_body so pi fl w c level p) <> PCONT.
Proof.
  unfold pi_body. destruct (next_token fl w c) as [[[w1 c1] t] yylval]. cbv zeta.
  destruct t as [| |ch| |]; cbv iota; rewrite ?n125_case.
  all: destruct (s_opt p) as [r0|].
  all: repeat nstep.
Qed.
End NoCont.

Lemma parse_internal_nc strtod_o fuel : forall w c l p, snd (parse_internal strtod_o fuel w c l p) <> PCONT.
Proof.
  induction fuel as [|fuel IH]; intros w c l p.
  - rewrite parse_internal_O. discriminate.
  - rewrite parse_internal_S. apply pi_body_nc. exact IH.
Qed.

Theorem strict_all strtod_o fuel :
  (forall w c o txt w' o', setopt strtod_o fuel w c o txt = (w', o', None) -> c_err c = true ->
     oofn w' = 0 -> crn w' = 0 -> ev w < ev w' \/ einval o txt) /\
  (forall w c l p w' c', parse_internal strtod_o fuel w c l p = (w', c', PERR) -> c_err c = true -> pok c p ->
     oofn w' = 0 -> crn w' = 0 -> ev w < ev w').
Proof.
  induction fuel as [|fuel [IHs IHp]].
  - split.
    + intros w c o txt w' o' H. rewrite setopt_O in H. injection H as <- _. intros _ Ho. discriminate Ho.
    + intros w c l p w' c' H. rewrite parse_internal_O in H. injection H as <- _. intros _ _ Ho. discriminate Ho.
  - split.
    + intros w c o txt w' o' H Hc _ Hcr. rewrite setopt_S in H. eapply so_body_none; eassumption.
    + intros w c l p w' c' H. rewrite parse_internal_S in H. revert H.
      apply pi_body_strict.
      * intros. apply mono_all.
      * intros. apply mono_all.
      * exact IHs.
      * apply parse_internal_nc.
      * exact IHp.
Qed.

(* ---- from the counting form to the list form ---- *)
Definition reported (w w' : pw) : Prop :=
  (exists d ds, w_diags w' = (d :: ds) ++ w_diags w) \/
  (exists es, w_cbs w' = es ++ w_cbs w /\ existsb failed_entry es = true).

Lemma nfail_app a b : nfail (a ++ b) = nfail a + nfail b.
Proof. unfold nfail. rewrite filter_app, app_length. reflexivity. Qed.

Lemma nfail_pos es : 0 < nfail es -> existsb failed_entry es = true.
Proof.
  unfold nfail. induction es as [|e es IH]; cbn [filter existsb length]; [lia|].
  destruct (failed_entry e); [reflexivity|]. exact IH.
Qed.

Lemma grows_strict_reported w w' : grows w w' -> ev w < ev w' -> reported w w'.
Proof.
  intros [[ds Hd] [es He]] H. unfold ev in H. rewrite Hd, He, app_length, nfail_app in H.
  destruct ds as [|d ds].
  - right. exists es. split; [exact He|]. apply nfail_pos. cbn [length] in H. lia.
  - left. exists d, ds. exact Hd.
Qed.
