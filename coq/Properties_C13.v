(* Properties_C13.v — C13: a parse never causes a lasting loss of include capacity.
   The include stack (and the flex buffer stack, and the count of FILEs opened by includes) is after
   cfg_parse_fp what it was before, whatever the outcome; the nesting limit is respected throughout.
   Proofs are in coq/BalanceProofs.v. *)
From Coq Require String.
Import String.StringSyntax.
From Coq Require Import List Arith NArith ZArith Bool.
From Coq.Strings Require Import Byte.
From LC Require Import Bytes Consts Conv Flex LexAct Lexer Files Store Parser ApiProofs BalanceProofs.
Import ListNotations.
Local Open Scope string_scope.
Local Open Scope list_scope.

(* lex_wf l := Forall (fun f => i_buf f < l_next l) (l_inc l): include frames name buffers that have been
   created.  It holds initially and is kept by every entry point (C13_wf_* below), so it is no restriction. *)

Theorem C13_include_capacity_restored :
  forall strtod_o fuel w c content d,
  lex_wf (w_lex w) -> length (l_inc (w_lex w)) = d ->
  let '(w', c', rc) := parse_fp_gen strtod_o fuel w c content in
  length (l_inc (w_lex w')) = d.
Proof. exact include_capacity_restored. Qed.
Print Assumptions C13_include_capacity_restored.

(* not only the depth: the very same frames, the very same buffers, no FILE left open *)
Theorem C13_include_stack_restored :
  forall strtod_o fuel w c content,
  lex_wf (w_lex w) ->
  let '(w', c', rc) := parse_fp_gen strtod_o fuel w c content in
  l_inc (w_lex w') = l_inc (w_lex w) /\ l_bufs (w_lex w') = l_bufs (w_lex w) /\
  w_open w' = w_open w /\ lex_wf (w_lex w').
Proof. exact include_stack_restored. Qed.
Print Assumptions C13_include_stack_restored.

(* cfg_lexer_include refuses at the limit ... *)
Theorem C13_depth_bounded_include :
  forall w c a,
  length (l_inc (w_lex w)) <= MAX_INCLUDE_DEPTH ->
  length (l_inc (w_lex (fst (fst (lexer_include w c a))))) <= MAX_INCLUDE_DEPTH.
Proof. exact lexer_include_depth. Qed.
Print Assumptions C13_depth_bounded_include.

(* ... hence the limit holds wherever cfg_setopt / cfg_init_defaults / cfg_parse_internal can get to
   (every intermediate world of a run is the result of a run with less fuel) ... *)
Theorem C13_depth_bounded :
  forall strtod_o fuel,
  (forall w c o txt, length (l_inc (w_lex w)) <= MAX_INCLUDE_DEPTH ->
     length (l_inc (w_lex (fst (fst (setopt strtod_o fuel w c o txt))))) <= MAX_INCLUDE_DEPTH) /\
  (forall w c, length (l_inc (w_lex w)) <= MAX_INCLUDE_DEPTH ->
     length (l_inc (w_lex (fst (init_defaults strtod_o fuel w c)))) <= MAX_INCLUDE_DEPTH) /\
  (forall w c l p, length (l_inc (w_lex w)) <= MAX_INCLUDE_DEPTH ->
     length (l_inc (w_lex (fst (fst (parse_internal strtod_o fuel w c l p))))) <= MAX_INCLUDE_DEPTH).
Proof. exact depth_bounded. Qed.
Print Assumptions C13_depth_bounded.

(* ... and after cfg_parse_fp *)
Theorem C13_depth_bounded_parse :
  forall strtod_o fuel w c content,
  length (l_inc (w_lex w)) <= MAX_INCLUDE_DEPTH ->
  length (l_inc (w_lex (fst (fst (parse_fp_gen strtod_o fuel w c content))))) <= MAX_INCLUDE_DEPTH.
Proof. exact parse_fp_gen_depth. Qed.
Print Assumptions C13_depth_bounded_parse.

(* well-formedness of the scanner is an invariant of the API *)
Theorem C13_wf_initial : lex_wf lex_init.
Proof. exact lex_wf_init. Qed.
Print Assumptions C13_wf_initial.
Theorem C13_wf_init :
  forall strtod_o fuel w decls flags,
  lex_wf (w_lex w) -> lex_wf (w_lex (fst (cfg_init strtod_o fuel w decls flags))).
Proof. exact cfg_init_wf. Qed.
Print Assumptions C13_wf_init.
Theorem C13_wf_parse_fp :
  forall strtod_o fuel w c content,
  lex_wf (w_lex w) -> lex_wf (w_lex (fst (fst (parse_fp_gen strtod_o fuel w c content)))).
Proof. exact parse_fp_gen_wf. Qed.
Print Assumptions C13_wf_parse_fp.
Theorem C13_wf_parse_buf :
  forall strtod_o fuel w c buf,
  lex_wf (w_lex w) -> lex_wf (w_lex (fst (fst (parse_buf strtod_o fuel w c buf)))).
Proof. exact parse_buf_wf. Qed.
Print Assumptions C13_wf_parse_buf.
Theorem C13_wf_parse_file :
  forall strtod_o fuel w c fn,
  lex_wf (w_lex w) -> lex_wf (w_lex (fst (fst (parse_file strtod_o fuel w c fn)))).
Proof. exact parse_file_wf. Qed.
Print Assumptions C13_wf_parse_file.
Theorem C13_wf_free :
  forall w c, lex_wf (w_lex w) -> lex_wf (w_lex (cfg_free w c)).
Proof. exact cfg_free_wf. Qed.
Print Assumptions C13_wf_free.

(* ---------- examples ---------- *)
Definition B := bs_of_string.
Definition sd := ex_sd.
Definition oi := Opt (B "i") KInt 0 [] [] defv0 None cbset0.
Definition cbinc : cbset :=
  {| cb_parse := None; cb_valid := None; cb_valid2 := None; cb_print := None; cb_free := false; cb_func := Some FInclude |}.
Definition oinc := Opt (B "include") KFunc 0 [] [] defv0 None cbinc.
Definition fs0 : fsys :=
  {| fs_root := B "/R";
     fs_ents := [(B "loop.conf", FFile (B "include(""loop.conf"")"));
                 (B "good.conf", FFile (B "i = 7"));
                 (B "brace.conf", FFile (B "} i = 1"))] |}.
Definition w0 : pw :=
  {| w_lex := lex_init; w_env := []; w_fs := fs0;
     w_pw := {| pw_tab := []; pw_self := None |}; w_path := []; w_cbs := []; w_cnt := 0; w_failat := 0;
     w_nextptr := 1; w_diags := []; w_open := 0; w_crash := None; w_oof := false |}.
Definition init := cfg_init sd 50 w0 [oi; oinc] 0.
Definition wI := fst init.
Definition root := snd init.
Definition run (w : pw) (c : cfg) (t : String.string) := parse_buf sd 300 w c (Some (B t)).
Definition getint (c : cfg) : list value :=
  match c_opts c with o :: _ => o_vals o | [] => [] end.

(* a file that includes itself exhausts the include depth: the parse is rejected with ten levels open ... *)
Example C13_ex_depth_exhausted :
  let '(w, c, rc) := run wI root "include(""loop.conf"")" in
  rc = CFG_PARSE_ERROR /\ map d_fmt (w_diags w) = [B "includes nested too deeply"] /\
  l_inc (w_lex w) = [] /\ l_bufs (w_lex w) = [] /\ w_open w = 0 /\ w_oof w = false.
Proof. vm_compute. repeat split; reflexivity. Qed.

(* ... and the next parse has the full capacity again *)
Example C13_ex_then_include_works :
  let '(w, _, _) := run wI root "include(""loop.conf"")" in
  let '(w', c', rc) := run w root "include(""good.conf"")" in
  rc = CFG_SUCCESS /\ getint c' = [VInt 7] /\ l_inc (w_lex w') = [] /\ w_open w' = 0.
Proof. vm_compute. repeat split; reflexivity. Qed.

(* OBSERVATION (outside cfg_parse_fp, so not covered by the theorems above): cfg_init_defaults scans a
   default-value text between cfg_scan_fp_begin / cfg_scan_fp_end but does NOT unwind includes.  A function
   option bound to cfg_include whose default text includes a file that ends the nested parse early (a
   top-level closing brace) leaves one buffer, one include frame and one open FILE behind — without any
   diagnostic; every later parse restores exactly this state (C13_include_stack_restored), i.e. one level
   of include capacity is lost for good. *)
Definition oincd := Opt (B "include") KFunc 0 [] []
   {| d_num := 0; d_fp := 0; d_bool := false; d_str := None; d_parsed := Some (B "include(""brace.conf"")") |} None cbinc.
Example C13_ex_init_default_include_leaks :
  let '(w, c) := cfg_init sd 50 w0 [oi; oincd] 0 in
  length (l_inc (w_lex w)) = 1 /\ length (l_bufs (w_lex w)) = 1 /\ w_open w = 1 /\
  w_crash w = None /\ w_oof w = false /\ w_diags w = [] /\
  let '(w', _, rc) := run w c "i = 5" in
  rc = CFG_SUCCESS /\ length (l_inc (w_lex w')) = 1 /\ w_open w' = 1.
Proof. vm_compute. repeat split; reflexivity. Qed.
