Example C13_placeholder : True. Proof. exact I. Qed.
