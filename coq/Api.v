(* Api.v — the setter / list / section API of confuse.c as an executable model,
   written the way the C is written.  No proofs here. *)
From Coq Require String.
Import String.StringSyntax.
From Coq Require Import List Arith NArith ZArith Bool.
From Coq.Strings Require Import Byte.
From LC Require Import Bytes Consts Conv Lexer Files Store Parser.
Import ListNotations.
Local Open Scope string_scope.
Local Open Scope list_scope.

Section WithOracles.
Variable strtod_o : str -> strtod_res.

Definition FAIL : Z := CFG_FAIL.
Definition OK : Z := CFG_SUCCESS.

(* (int) of a long, as va_arg(ap, int) sees what the caller passed *)
Definition to_sint32 (z : Z) : Z :=
  let m := (z mod 4294967296)%Z in if (m <? 2147483648)%Z then m else (m - 4294967296)%Z.

(* the scripted validcb2: log, optionally rewrite, fail on schedule *)
Definition run_validcb2 (w : pw) (o : opt) (a : v2arg) : pw * v2arg * bool :=
  match cb_valid2 (o_cbs o) with
  | None => (w, a, false)
  | Some k =>
      let '(w1, f) := tick w in
      let a' := if (k =? 1)%N then
                  match a with
                  | V2Int z => V2Int (Z.abs z)
                  | V2Float b => V2Float (N.land b 9223372036854775807)
                  | x => x
                  end
                else a in
      (add_cb w1 (CbValid2 k (o_name o) a f), (if f then a else a'), f)
  end.

(* cfg_opt_setnint / setnfloat / setnbool / setnstr on an option value *)
Definition opt_setn (w : pw) (o : opt) (k : kind) (v : value) (index : N) : pw * opt * Z :=
  if negb (kind_eqb (o_kind o) k) then (w, o, FAIL)
  else match opt_getval o index with
       | None => (w, o, FAIL)
       | Some (o1, idx, fr) =>
           (log_frees w fr, o_setf (set_vals o1 (upd_nth (o_vals o1) idx (fun _ => v))) CFGF_MODIFIED, OK)
       end.

Definition with_opt (w : pw) (c : cfg) (name : str)
           (f : pw -> optref -> opt -> pw * opt * Z) : pw * cfg * Z :=
  let '(ro, ds) := cfg_getopt c name in
  let w := add_diags w ds in
  match ro with
  | None => (w, c, FAIL)
  | Some r => match get_opt c r with
              | None => (w, c, FAIL)
              | Some o => let '(w1, o1, rc) := f w r o in (w1, put_opt c r o1, rc)
              end
  end.

Definition cfg_setnint (w : pw) (c : cfg) (name : str) (z : Z) (index : N) :=
  with_opt w c name (fun w _ o =>
    let '(w1, a, f) := run_validcb2 w o (V2Int z) in
    if f then (w1, o, FAIL) else opt_setn w1 o KInt (VInt (match a with V2Int x => x | _ => z end)) index).

Definition cfg_setnfloat (w : pw) (c : cfg) (name : str) (b : N) (index : N) :=
  with_opt w c name (fun w _ o =>
    let '(w1, a, f) := run_validcb2 w o (V2Float b) in
    if f then (w1, o, FAIL) else opt_setn w1 o KFloat (VFloat (match a with V2Float x => x | _ => b end)) index).

Definition cfg_setnbool (w : pw) (c : cfg) (name : str) (b : bool) (index : N) :=
  with_opt w c name (fun w _ o => opt_setn w o KBool (VBool b) index).

Definition cfg_setnstr (w : pw) (c : cfg) (name : str) (s : option str) (index : N) :=
  with_opt w c name (fun w _ o =>
    let '(w1, _, f) := run_validcb2 w o (V2Str s) in
    if f then (w1, o, FAIL) else opt_setn w1 o KStr (VStr s) index).

(* cfg_addlist_internal: each element goes to index opt->nvalues, read before the call *)
Definition addlist_internal (w : pw) (o : opt) (vs : list value) : pw * opt :=
  fold_left (fun '(w, o) v =>
    let k := match v with VInt _ => KInt | VFloat _ => KFloat | VBool _ => KBool | VStr _ => KStr | _ => KNone end in
    match o_kind o with
    | KInt | KFloat | KBool | KStr =>
        let v' := match v with VInt z => VInt (to_sint32 z) | x => x end in
        let '(w1, o1, _) := opt_setn w o k v' (N.of_nat (length (o_vals o))) in (w1, o1)
    | _ => (w, o)
    end) vs (w, o).

Definition cfg_setlist (w : pw) (c : cfg) (name : str) (vs : list value) :=
  with_opt w c name (fun w _ o =>
    if negb (oflag o CFGF_LIST) then (w, o, FAIL)
    else let '(o1, fr) := free_value o in
         let '(w1, o2) := addlist_internal (log_frees w fr) (o_setf o1 CFGF_MODIFIED) vs in (w1, o2, OK)).

Definition cfg_addlist (w : pw) (c : cfg) (name : str) (vs : list value) :=
  with_opt w c name (fun w _ o =>
    if negb (oflag o CFGF_LIST) then (w, o, FAIL)
    else let '(w1, o2) := addlist_internal w (o_clrf o CFGF_RESET) vs in (w1, o2, OK)).

(* cfg_opt_setmulti *)
Definition opt_setmulti (fuel : nat) (w : pw) (c : cfg) (o : opt) (vals : list (option str)) : pw * opt * Z :=
  match vals with
  | [] => (w, o, FAIL)
  | _ =>
    (* the annotation is detached while the values are exchanged *)
    let comment := o_comment o in
    let old := set_comment o None in
    let fresh := set_vals old [] in
    let res :=
      (fix go (vs : list (option str)) (w : pw) (o : opt) : pw * opt * bool :=
         match vs with
         | [] => (w, o, true)
         | v :: r => let '(w1, o1, res) := setopt strtod_o fuel w c o v in
                     match res with Some _ => go r w1 o1 | None => (w1, o1, false) end
         end) vals w fresh in
    let '(w1, o1, ok) := res in
    if ok then
      let w2 := log_frees w1 (frees_o old) in
      (w2, o_setf (set_comment o1 comment) CFGF_MODIFIED, OK)
    else
      let '(o2, fr) := free_value o1 in
      let w2 := log_frees w1 fr in
      let fl := N.lor (clrf (clrf (o_flags o2) CFGF_RESET) CFGF_MODIFIED)
                      (N.land (o_flags old) (N.lor CFGF_RESET CFGF_MODIFIED)) in
      (w2, set_comment (set_flags (set_vals o2 (o_vals old)) fl) comment, FAIL)
  end.

Definition cfg_setmulti (fuel : nat) (w : pw) (c : cfg) (name : str) (vals : list (option str)) :=
  with_opt w c name (fun w _ o => opt_setmulti fuel w c o vals).

(* cfg_setopt(cfg, cfg_getopt(cfg, name), value): Some true = non-NULL result *)
Definition cfg_setopt_cmd (fuel : nat) (w : pw) (c : cfg) (name : str) (v : option str) : pw * cfg * option bool :=
  let '(ro, ds) := cfg_getopt c name in
  let w := add_diags w ds in
  match ro with
  | None => (w, c, None)
  | Some r => match get_opt c r with
              | None => (w, c, None)
              | Some o => let '(w1, o1, res) := setopt strtod_o fuel w c o v in
                          (w1, put_opt c r o1, Some (match res with Some _ => true | None => false end))
              end
  end.

Definition cfg_setcomment (w : pw) (c : cfg) (name : str) (cm : option str) :=
  with_opt w c name (fun w _ o =>
    match cm with Some s => (w, opt_setcomment o s, OK) | None => (w, o, FAIL) end).

(* cfg_addtsec: true = a section was returned *)
Definition cfg_addtsec (fuel : nat) (w : pw) (c : cfg) (name : str) (title : option str) : pw * cfg * bool :=
  (* cfg_gettsec(cfg, name, title) *)
  let '(ro, ds) := cfg_getopt c name in
  let w := add_diags w ds in
  let exists_already :=
    match ro, title with
    | Some r, Some t => match get_opt c r with
                        | Some o => oflag o CFGF_TITLE && kind_eqb (o_kind o) KSec &&
                                    match gettsecidx o t with Some _ => true | None => false end
                        | None => false end
    | _, _ => false
    end in
  if exists_already then (w, c, false)
  else
    let '(ro2, ds2) := cfg_getopt c name in
    let w := add_diags w ds2 in
    match ro2 with
    | None => (add_diags w (cfg_diag c "no such option '%s'"), c, false)
    | Some r =>
        match get_opt c r with
        | None => (w, c, false)
        | Some o =>
            if negb (kind_eqb (o_kind o) KSec) then (w, c, false) else
            let '(w1, o1, res) := setopt strtod_o fuel w c o title in
            match res with
            | None => (w1, put_opt c r o1, false)
            | Some idx =>
                match nth_error (o_vals o1) idx with
                | Some (VSec (Some s)) =>
                    let s1 := set_err (set_line s 1) (c_err c) in
                    (w1, put_opt c r (set_vals o1 (upd_nth (o_vals o1) idx (fun _ => VSec (Some s1)))), true)
                | _ => (set_crash w1 "wild-write:cfg_addtsec", put_opt c r o1, false)
                end
            end
        end
    end.

(* cfg_opt_rmnsec; index is an unsigned int *)
Definition opt_rmnsec (w : pw) (o : opt) (index : N) : pw * opt * Z :=
  if negb (kind_eqb (o_kind o) KSec) then (w, o, FAIL)
  else
    let n := length (o_vals o) in
    if (N.of_nat n <=? index)%N then (w, o, FAIL)
    else
      let i := N.to_nat index in
      let w1 := match nth_error (o_vals o) i with
                | Some v => log_frees w (frees_v false v)
                | None => w end in
      (w1, set_vals o (firstn i (o_vals o) ++ skipn (S i) (o_vals o)), OK).

Definition cfg_rmnsec (w : pw) (c : cfg) (name : str) (index : N) :=
  with_opt w c name (fun w _ o => opt_rmnsec w o index).

Definition cfg_rmsec (w : pw) (c : cfg) (name : str) : pw * cfg * Z :=
  let r := getopt_secidx c name true in
  let w := add_diags w (rs_diags r) in
  match rs_opt r with
  | None => (w, c, FAIL)
  | Some ref =>
      match get_opt c ref with
      | None => (w, c, FAIL)
      | Some o => let '(w1, o1, rc) := opt_rmnsec w o (to_uint (rs_index r)) in (w1, put_opt c ref o1, rc)
      end
  end.

Definition cfg_rmtsec (w : pw) (c : cfg) (name : str) (title : option str) :=
  with_opt w c name (fun w _ o =>
    match title with
    | None => (w, o, FAIL)
    | Some t =>
        if negb (oflag o CFGF_TITLE) then (w, o, FAIL)
        else match gettsecidx o t with
             | Some i => opt_rmnsec w o (N.of_nat i)
             | None => (w, o, FAIL)
             end
    end).

(* cfg_getopt_array + assignment through the returned pointer: it designates an option of the
   live tree (root level or inside the instance of a single section) or of a multi section's template *)
Fixpoint array_upd (fuel : nat) (opts : list opt) (nocase : bool) (name : str) (f : opt -> opt) : option (list opt) :=
  match fuel with
  | O => None
  | S fuel' =>
    let len := strcspn name is_bar in
    match skipn len name with
    | [] =>
        match find_idx (fun o => name_eqb nocase (o_name o) name) opts 0 with
        | Some i => Some (upd_nth opts i f)
        | None => None
        end
    | _ :: _ =>
        let rest0 := skipn len name in
        let rest := skipn (strspn rest0 is_bar) rest0 in
        if Nat.eqb len 0 then array_upd fuel' opts nocase rest f
        else
          let secname := firstn len name in
          match find_idx (fun o => name_eqb nocase (o_name o) secname) opts 0 with
          | None => None
          | Some k =>
              match nth_error opts k with
              | None => None
              | Some so =>
                  if negb (kind_eqb (o_kind so) KSec) then None
                  else
                    match (if oflag so CFGF_MULTI then None else nth_sec so 0) with
                    | Some inst =>
                        match array_upd fuel' (c_opts inst) nocase rest f with
                        | Some opts' =>
                            Some (upd_nth opts k (fun o => set_vals o (upd_nth (o_vals o) 0 (fun _ => VSec (Some (set_opts inst opts'))))))
                        | None => None
                        end
                    | None =>
                        match array_upd fuel' (o_sub so) nocase rest f with
                        | Some sub' => Some (upd_nth opts k (fun o => match o with Opt n kd fl v _ d cm cb => Opt n kd fl v sub' d cm cb end))
                        | None => None
                        end
                    end
              end
          end
    end
  end.

Definition cfg_set_validate_func (c : cfg) (name : str) (k : N) : cfg :=
  match array_upd (S (length name)) (c_opts c) (cflag c CFGF_NOCASE) name
          (fun o => let cb := o_cbs o in
                    set_cbs o {| cb_parse := cb_parse cb; cb_valid := Some k; cb_valid2 := cb_valid2 cb;
                                 cb_print := cb_print cb; cb_free := cb_free cb; cb_func := cb_func cb |}) with
  | Some opts => set_opts c opts
  | None => c
  end.

Definition cfg_set_validate_func2 (c : cfg) (name : str) (k : N) : cfg :=
  match array_upd (S (length name)) (c_opts c) (cflag c CFGF_NOCASE) name
          (fun o => let cb := o_cbs o in
                    set_cbs o {| cb_parse := cb_parse cb; cb_valid := cb_valid cb; cb_valid2 := Some k;
                                 cb_print := cb_print cb; cb_free := cb_free cb; cb_func := cb_func cb |}) with
  | Some opts => set_opts c opts
  | None => c
  end.

Definition cfg_set_print_func (w : pw) (c : cfg) (name : str) (k : N) :=
  with_opt w c name (fun w _ o =>
    let cb := o_cbs o in
    (w, set_cbs o {| cb_parse := cb_parse cb; cb_valid := cb_valid cb; cb_valid2 := cb_valid2 cb;
                     cb_print := Some k; cb_free := cb_free cb; cb_func := cb_func cb |}, OK)).

(* cfg_getsec(cfg, name): the section steps of the result *)
Definition cfg_getsec (w : pw) (c : cfg) (name : str) : pw * option (list (nat * nat)) :=
  let r := getopt_secidx c name true in
  let w := add_diags w (rs_diags r) in
  match rs_opt r with
  | None => (w, None)
  | Some ref =>
      match get_opt c ref with
      | None => (w, None)
      | Some o => if (0 <=? rs_index r)%Z then
                    match opt_getnsec o (to_uint (rs_index r)) with
                    | Some _ => (w, Some (fst ref ++ [(snd ref, N.to_nat (to_uint (rs_index r)))]))
                    | None => (w, None)
                    end
                  else
                    (* index -1 as unsigned is out of range *)
                    (w, None)
      end
  end.

End WithOracles.
